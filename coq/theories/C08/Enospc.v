(* C08/Enospc.v — the ENOSPC / short-write path of writeBlock: after a write that runs out of space the raw file is
   still a sound file and holds the old content plus a prefix of what was to be written (ckfile_enospc_prefix). *)
From Coq Require Import List NArith ZArith Bool Lia ZifyN ZifyNat ZifyBool.
From BLB Require Import Lib.CRC Lib.CRCFast Lib.CRCProofs Gen.Consts C08.CRCTab C08.Model C08.Proofs C08.Proofs2 C08.Refine C08.Refine2.
Import ListNotations.
Open Scope N_scope.

Lemma raw_write_q_ok r free off d :
  (off + lenN d) - N.max (lenN r) off <= free ->
  raw_write_q r free off d = (raw_write r off d, free - ((off + lenN d) - N.max (lenN r) off), lenN d, E_OK).
Proof. intros H. unfold raw_write_q. now replace (_ <=? free) with true by (symmetry; apply N.leb_le; exact H). Qed.

Lemma raw_write_q_short r free off d :
  free < (off + lenN d) - N.max (lenN r) off ->
  raw_write_q r free off d =
    (raw_write r off (take (lenN d - ((off + lenN d) - N.max (lenN r) off - free)) d), 0,
     lenN d - ((off + lenN d) - N.max (lenN r) off - free), E_NOSPC).
Proof. intros H. unfold raw_write_q. now replace (_ <=? free) with false by (symmetry; apply N.leb_gt; exact H). Qed.

Lemma blk_append0 x : lenN x <= DL -> blk_append blk0 x = (mkblk x (crc32c x), lenN x).
Proof.
  intros H. unfold blk_append. cbn [b_data b_ck blk0 app]. rewrite lenN_nil, N.sub_0_r.
  rewrite (take_all DL x H), crc_update_m_correct. reflexivity.
Qed.

(* the last chunk of a sound file with a partial last block *)
Lemma rep_last_chunk r c k : Rep r c -> DL * k < lenN c -> lenN c < DL * (k + 1) ->
  drop (BL * k) r = enc (drop (DL * k) c) /\ lenN r = BL * k + (lenN c - DL * k) + 4.
Proof.
  intros [Hl Hch] H1 H2.
  assert (Hc : lenN c = DL * k + (lenN c - DL * k)) by lia.
  assert (Hm : lenN c - DL * k < DL) by lia.
  rewrite Hc, (rawlen_qm k _ Hm) in Hl.
  replace (lenN c - DL * k =? 0) with false in Hl by (symmetry; apply N.eqb_neq; lia).
  split; [|arith].
  specialize (Hch k H1). unfold chunk_of, raw_read in Hch.
  replace (HL + BL * k) with (BL * k) in Hch by arith.
  rewrite take_all in Hch by (rewrite lenN_drop; arith).
  rewrite Hch. unfold blk_of. f_equal. apply take_all. rewrite lenN_drop. lia.
Qed.

Lemma rep_aligned_len r c k : Rep r c -> lenN c = DL * k -> lenN r = BL * k.
Proof.
  intros [Hl _] H. rewrite H in Hl. replace (DL * k) with (DL * k + 0) in Hl by lia.
  rewrite rawlen_qm in Hl by arith. cbn in Hl. lia.
Qed.

(* writeBlock extending the last (possibly empty) block under the space quota *)
Lemma write_block_q_extend r c k piece free :
  Rep r c -> DL * k <= lenN c -> lenN c < DL * (k + 1) -> piece <> [] ->
  lenN (drop (DL * k) c) + lenN piece <= DL ->
  let bd := drop (DL * k) c in
  exists r' f' q e,
    write_block_q r free (mkblk (bd ++ piece) (crc32c (bd ++ piece))) k = (r', f', lenN bd + q, e) /\
    Rep r' (c ++ take q piece) /\
    ((e = E_OK /\ q = lenN piece) \/ (e = E_NOSPC /\ q < lenN piece)).
Proof.
  intros HR Hk1 Hk2 Hp Hfit bd. change (lenN bd + lenN piece <= DL) in Hfit.
  assert (Hbd : lenN bd = lenN c - DL * k) by (unfold bd; apply lenN_drop).
  assert (Hpl : 0 < lenN piece) by (apply lenN_pos_ne, Hp).
  set (m := lenN bd) in *. set (p := lenN piece) in *.
  unfold write_block_q. cbn [b_data b_ck]. fold (enc (bd ++ piece)).
  assert (Hdl : lenN (enc (bd ++ piece)) = m + p + 4) by (rewrite lenN_enc, lenN_app; reflexivity).
  (* raw length *)
  assert (Hrl : lenN r = BL * k + (if m =? 0 then 0 else m + 4)).
  { destruct (N.eqb_spec m 0) as [Hm0|Hm0].
    - rewrite (rep_aligned_len r c k HR) by lia. lia.
    - destruct (rep_last_chunk r c k HR) as [_ Hl]; lia. }
  assert (Hoff : N.max (lenN r) (HL + BL * k) = lenN r) by (rewrite Hrl; destruct (m =? 0); arith).
  set (need := HL + BL * k + lenN (enc (bd ++ piece)) - N.max (lenN r) (HL + BL * k)).
  assert (Hneed : need = if m =? 0 then p + 4 else p).
  { unfold need. rewrite Hoff, Hdl, Hrl. destruct (N.eqb_spec m 0); arith. }
  destruct (N.le_gt_cases need free) as [Hok|Hshort].
  - (* enough space *)
    rewrite raw_write_q_ok by exact Hok. change (E_OK =? E_OK) with true. cbn iota.
    exists (write_block r (mkblk (bd ++ piece) (crc32c (bd ++ piece))) k), (free - need), p, E_OK.
    rewrite lenN_app. split; [reflexivity|]. split; [|left; split; reflexivity].
    rewrite take_all by (unfold p; lia). apply rep_write_extend; assumption.
  - (* short write *)
    rewrite raw_write_q_short by exact Hshort. fold need.
    change (E_NOSPC =? E_OK) with false. cbn iota.
    set (n := lenN (enc (bd ++ piece)) - (need - free)).
    destruct (N.leb_spec n CL) as [Hsmall|Hbig].
    + (* nothing but a checksum fragment fitted: truncate it away *)
      assert (Hm0 : m = 0).
      { destruct (N.eqb_spec m 0) as [|Hne]; [assumption|]. unfold n in Hsmall. rewrite Hdl, Hneed in Hsmall.
        replace (m =? 0) with false in Hsmall by (symmetry; apply N.eqb_neq; exact Hne).
        rewrite CL_val in Hsmall. lia. }
      unfold raw_truncate_q, raw_truncate.
      assert (Hr1 : lenN r = HL + BL * k) by (rewrite Hrl, Hm0; cbn; arith).
      assert (Htr : take (HL + BL * k) (raw_write r (HL + BL * k) (take n (enc (bd ++ piece)))) = r).
      { destruct (take n (enc (bd ++ piece))) as [|x t] eqn:Ht.
        - cbn [raw_write]. apply take_all. lia.
        - rewrite raw_write_eq by (try discriminate; lia).
          rewrite <- Hr1. rewrite (take_all (lenN r) r) by lia. rewrite take_app_exact. reflexivity. }
      replace (HL + BL * k <=? lenN (raw_write r (HL + BL * k) (take n (enc (bd ++ piece))))) with true.
      2:{ symmetry. apply N.leb_le. destruct (take n (enc (bd ++ piece))) as [|x t] eqn:Ht.
          - cbn [raw_write]. lia.
          - rewrite raw_write_len by (try discriminate; lia). lia. }
      rewrite Htr.
      exists r, (0 + (lenN (raw_write r (HL + BL * k) (take n (enc (bd ++ piece)))) - (HL + BL * k))), 0, E_NOSPC.
      rewrite Hm0, N.add_0_r. split; [reflexivity|]. rewrite take_0, app_nil_r.
      split; [exact HR|right; split; [reflexivity|lia]].
    + (* a data prefix fitted: rewrite it with its own checksum *)
      set (q := n - CL - m).
      assert (Hn : n = m + 4 + q /\ q < p).
      { unfold q, n. rewrite Hdl, Hneed. destruct (N.eqb_spec m 0) as [Hm0|Hm0]; unfold n in Hbig;
          rewrite Hdl, Hneed in Hbig; [replace (m =? 0) with true in Hbig by (symmetry; apply N.eqb_eq; exact Hm0)
                                      |replace (m =? 0) with false in Hbig by (symmetry; apply N.eqb_neq; exact Hm0)];
          rewrite CL_val in *; lia. }
      destruct Hn as [Hn Hq].
      assert (Hpre : take (n - CL) (bd ++ piece) = bd ++ take q piece).
      { rewrite take_app_ge by (fold m; rewrite CL_val; lia). reflexivity. }
      rewrite Hpre.
      assert (Hpb : lenN (bd ++ take q piece) <= DL).
      { rewrite lenN_app, lenN_take. fold m p. lia. }
      rewrite (blk_append0 _ Hpb). cbn [b_data b_ck]. fold (enc (bd ++ take q piece)).
      set (r1 := raw_write r (HL + BL * k) (take n (enc (bd ++ piece)))).
      assert (Htn : lenN (take n (enc (bd ++ piece))) = n).
      { rewrite lenN_take, Hdl. lia. }
      assert (Htne : take n (enc (bd ++ piece)) <> []) by (apply lenN_pos_ne; rewrite Htn, Hn; lia).
      assert (Hr1l : lenN r1 = HL + BL * k + n).
      { unfold r1. rewrite raw_write_len by (try assumption; rewrite Hrl; destruct (m =? 0); arith).
        rewrite Htn, Hrl. destruct (N.eqb_spec m 0); arith. }
      assert (Hd2 : lenN (enc (bd ++ take q piece)) = n).
      { rewrite lenN_enc, lenN_app, lenN_take. fold m p. lia. }
      rewrite raw_write_q_ok by (rewrite Hd2, Hr1l; lia).
      change (E_OK =? E_OK) with true. cbn iota.
      assert (Hne2 : enc (bd ++ take q piece) <> []) by (apply lenN_pos_ne; rewrite Hd2, Hn; lia).
      (* the second write lands on exactly the bytes of the first: the result is one clean write of the prefix *)
      assert (Hr2 : raw_write r1 (HL + BL * k) (enc (bd ++ take q piece))
                    = raw_write r (HL + BL * k) (enc (bd ++ take q piece))).
      { rewrite (raw_write_eq r1) by (try assumption; lia).
        rewrite (raw_write_eq r) by (try assumption; rewrite Hrl; destruct (m =? 0); arith).
        rewrite Hd2. rewrite (drop_all _ r1) by lia.
        rewrite (drop_all _ r) by (rewrite Hrl, Hn; destruct (m =? 0); arith).
        f_equal. unfold r1. rewrite raw_write_eq by (try assumption; rewrite Hrl; destruct (m =? 0); arith).
        rewrite take_app_le by (rewrite lenN_take, Hrl; destruct (m =? 0); arith).
        rewrite take_take. f_equal. lia. }
      rewrite Hr2.
      eexists _, _, q, E_NOSPC. rewrite lenN_app, lenN_take. fold m p.
      replace (N.min q p) with q by lia.
      split; [reflexivity|]. split; [|right; split; [reflexivity|exact Hq]].
      destruct (N.eqb_spec q 0) as [Hq0|Hq0].
      * (* no new byte fitted: the block is rewritten with what it held *)
        rewrite Hq0, take_0, !app_nil_r.
        assert (Hmpos : m <> 0) by lia.
        destruct (rep_last_chunk r c k HR) as [Hlast Hlen]; [lia|lia|].
        rewrite raw_write_eq by (try (apply lenN_pos_ne; rewrite lenN_enc; fold m; lia); rewrite Hrl; destruct (m =? 0); arith).
        fold bd in Hlast. rewrite (drop_all _ r) by (rewrite lenN_enc; fold m; arith).
        rewrite app_nil_r. replace (HL + BL * k) with (BL * k) by arith. rewrite <- Hlast, take_drop. exact HR.
      * apply (rep_write_extend r c k (take q piece)); try assumption.
        -- apply lenN_pos_ne. rewrite lenN_take. fold p. lia.
        -- fold bd. rewrite lenN_take. fold m p. lia.
Qed.

(* ---------- append under the quota ---------- *)
Lemma append_loop_q_S f r free b k d n :
  append_loop_q (S f) r free b k d n =
      match d with
      | [] => (r, free, n, E_OK)
      | _ =>
          let prior := lenN (b_data b) in
          let '(b', _) := blk_append b d in
          let '(r', free', wn, e) := write_block_q r free b' k in
          if e =? E_OK then append_loop_q f r' free' blk0 (k + 1) (drop (wn - prior) d) (n + (wn - prior))
          else (r', free', n + (wn - prior), e)
      end.
Proof. reflexivity. Qed.

Definition q_outcome (e cnt total : N) : Prop :=
  (e = E_OK /\ cnt = total) \/ (e = E_NOSPC /\ cnt < total).

Lemma append_loop_q_rep :
  forall f r c k d n free,
    Rep r c -> DL * k <= lenN c -> lenN c < DL * (k + 1) ->
    lenN (drop (DL * k) c) + lenN d <= N.of_nat f * DL ->
    exists r' f' cnt e,
      append_loop_q (S f) r free (mkblk (drop (DL * k) c) (crc32c (drop (DL * k) c))) k d n
        = (r', f', n + cnt, e) /\ Rep r' (c ++ take cnt d) /\ q_outcome e cnt (lenN d).
Proof.
  induction f as [|f IH]; intros r c k d n free HR Hk1 Hk2 Hf.
  - assert (d = []) by (apply lenN_0; lia). subst d. exists r, free, 0, E_OK.
    cbn. rewrite N.add_0_r, app_nil_r. split; [reflexivity|]. split; [exact HR|left; split; reflexivity].
  - destruct d as [|x d'].
    { exists r, free, 0, E_OK. cbn. rewrite N.add_0_r, app_nil_r. split; [reflexivity|].
      split; [exact HR|left; split; reflexivity]. }
    set (d := x :: d') in *.
    assert (Hdpos : 0 < lenN d) by (unfold d; rewrite lenN_cons; lia).
    rewrite append_loop_q_S. unfold d at 1. cbn zeta. unfold blk_append. cbn [b_data b_ck].
    set (bd := drop (DL * k) c) in *.
    assert (Hbl : lenN bd = lenN c - DL * k) by (unfold bd; apply lenN_drop).
    set (piece := take (DL - lenN bd) d).
    assert (Hpl : lenN piece = N.min (DL - lenN bd) (lenN d)) by (unfold piece; apply lenN_take).
    assert (Hpne : piece <> []) by (apply lenN_pos_ne; lia).
    rewrite crc_update_m_blk.
    destruct (write_block_q_extend r c k piece free HR Hk1 Hk2 Hpne) as (r1 & f1 & q & e & Hw & HR1 & Hout).
    { fold bd. lia. }
    fold bd in Hw. rewrite Hw.
    replace (lenN bd + q - lenN bd) with q by lia.
    destruct Hout as [[He Hq]|[He Hq]]; subst e.
    + change (E_OK =? E_OK) with true. cbn iota. subst q.
      rewrite take_all in HR1 by lia.
      destruct (N.eq_dec (lenN piece) (lenN d)) as [Hall|Hmore].
      * assert (Hpd : piece = d) by (unfold piece; apply take_all; lia).
        rewrite (drop_all _ d) by lia. exists r1, f1, (lenN d), E_OK.
        rewrite take_all by lia. split; [rewrite Hall; reflexivity|].
        split; [rewrite <- Hpd; exact HR1|left; split; reflexivity].
      * assert (Hfill : lenN piece = DL - lenN bd) by lia.
        assert (Hnil : drop (DL * (k + 1)) (c ++ piece) = []).
        { apply drop_all. rewrite lenN_app. lia. }
        destruct (IH r1 (c ++ piece) (k + 1) (drop (lenN piece) d) (n + lenN piece) f1) as (r' & f' & cnt & e & He & HR' & Hout).
        -- exact HR1.
        -- rewrite lenN_app. lia.
        -- rewrite lenN_app. lia.
        -- rewrite Hnil, lenN_nil, lenN_drop. lia.
        -- rewrite Hnil in He. change (crc32c []) with 0 in He. fold blk0 in He.
           exists r', f', (lenN piece + cnt), e. split; [rewrite He; f_equal; f_equal; lia|]. split.
           ++ rewrite <- app_assoc in HR'.
              replace (take (lenN piece + cnt) d) with (piece ++ take cnt (drop (lenN piece) d)); [exact HR'|].
              rewrite take_split, Hfill. reflexivity.
           ++ unfold q_outcome in *. rewrite lenN_drop in Hout. destruct Hout as [[-> ->]|[-> Hlt]]; [left|right]; split; try reflexivity; lia.
    + change (E_NOSPC =? E_OK) with false. cbn iota.
      exists r1, f1, q, E_NOSPC. split; [reflexivity|]. split.
      * replace (take q d) with (take q piece); [exact HR1|]. unfold piece. rewrite take_take. f_equal. lia.
      * right. split; [reflexivity|lia].
Qed.

Lemma append_q_rep r c d free : Rep r c ->
  exists r' f' cnt e, append_q r free d = (r', f', cnt, e) /\ Rep r' (c ++ take cnt d) /\ q_outcome e cnt (lenN d).
Proof.
  intros HR. unfold append_q. rewrite (size_of_rep r c HR). change (E_OK =? E_OK) with true. cbn iota.
  destruct (div_mod_DL (lenN c)) as [Hdm Hlt].
  set (k := lenN c / DL) in *. set (m := lenN c mod DL) in *.
  assert (Hfuel : lenN (drop (DL * k) c) + lenN d <= N.of_nat (N.to_nat (lenN d / DL) + 2) * DL).
  { rewrite lenN_drop. destruct (div_mod_DL (lenN d)) as [Hd1 Hd2]. revert Hd1 Hd2.
    generalize (lenN d / DL), (lenN d mod DL). intros q x Hd1 Hd2.
    replace (N.of_nat (N.to_nat q + 2)) with (q + 2) by lia. nia. }
  replace (N.to_nat (lenN d / DL) + 3)%nat with (S (N.to_nat (lenN d / DL) + 2)) by lia.
  destruct (append_loop_q_rep _ r c k d 0 free HR ltac:(lia) ltac:(lia) Hfuel) as (r' & f' & cnt & e & He & HR' & Hout).
  rewrite N.add_0_l in He.
  destruct (N.eqb_spec m 0) as [Hm|Hm].
  - assert (Hnil : drop (DL * k) c = []) by (apply drop_all; lia).
    rewrite Hnil in He. exists r', f', cnt, e. split; [exact He|split; assumption].
  - rewrite (read_block_rep r c k HR).
    replace (DL * k <? lenN c) with true by (symmetry; apply N.ltb_lt; lia).
    change (E_OK =? E_OK) with true. cbn iota.
    assert (Hb : blk_of c k = drop (DL * k) c).
    { unfold blk_of. apply take_all. rewrite lenN_drop. lia. }
    rewrite Hb. exists r', f', cnt, e. split; [exact He|split; assumption].
Qed.

(* ---------- pad under the quota ---------- *)
Lemma pad_loop_q_S f r free num :
  pad_loop_q (S f) r free num =
      if num =? 0 then (r, free, E_OK)
      else
        let z := zeros (N.min num DL) in
        let '(r', free', n, e) := append_q r free z in
        if e =? E_OK then
          if n =? lenN z then pad_loop_q f r' free' (num - n) else (r', free', E_PANIC)
        else (r', free', e).
Proof. reflexivity. Qed.

Lemma take_zeros n m : take n (zeros m) = zeros (N.min n m).
Proof.
  replace (zeros m) with (zeros (N.min n m) ++ zeros (m - N.min n m)) by (rewrite zeros_app; f_equal; lia).
  rewrite take_app_ge by (rewrite lenN_zeros; lia). rewrite lenN_zeros.
  destruct (N.le_gt_cases m n) as [H|H].
  - replace (m - N.min n m) with 0 by lia. cbn. now rewrite app_nil_r.
  - replace (n - N.min n m) with 0 by lia. now rewrite take_0, app_nil_r.
Qed.

Lemma pad_loop_q_rep : forall f r c num free, Rep r c -> num <= N.of_nat f * DL ->
  exists r' f' h e, pad_loop_q (S f) r free num = (r', f', e) /\ Rep r' (c ++ zeros h) /\ q_outcome e h num.
Proof.
  induction f as [|f IH]; intros r c num free HR Hf.
  - assert (num = 0) by lia. subst num. exists r, free, 0, E_OK. rewrite pad_loop_q_S. cbn.
    rewrite app_nil_r. split; [reflexivity|]. split; [exact HR|left; split; reflexivity].
  - rewrite pad_loop_q_S. destruct (N.eqb_spec num 0) as [->|Hn].
    + exists r, free, 0, E_OK. cbn. rewrite app_nil_r. split; [reflexivity|]. split; [exact HR|left; split; reflexivity].
    + cbn zeta. destruct (append_q_rep r c (zeros (N.min num DL)) free HR) as (r1 & f1 & cnt & e & He & HR1 & Hout).
      rewrite He. rewrite lenN_zeros in *. rewrite take_zeros in HR1.
      destruct Hout as [[-> ->]|[-> Hlt]].
      * change (E_OK =? E_OK) with true. cbn iota. rewrite N.eqb_refl. rewrite N.min_id in HR1.
        destruct (IH r1 (c ++ zeros (N.min num DL)) (num - N.min num DL) f1 HR1) as (r' & f' & h & e & He' & HR' & Hout); [lia|].
        exists r', f', (N.min num DL + h), e. split; [exact He'|]. split.
        -- rewrite <- app_assoc, zeros_app in HR'. exact HR'.
        -- unfold q_outcome in *. destruct Hout as [[-> ->]|[-> Hl]]; [left|right]; split; try reflexivity; lia.
      * change (E_NOSPC =? E_OK) with false. cbn iota.
        exists r1, f1, cnt, E_NOSPC. split; [reflexivity|]. split.
        -- replace (N.min cnt (N.min num DL)) with cnt in HR1 by lia. exact HR1.
        -- right. split; [reflexivity|lia].
Qed.

Lemma pad_q_rep r c num free : Rep r c ->
  exists r' f' h e, pad_q r free num = (r', f', e) /\ Rep r' (c ++ zeros h) /\ q_outcome e h num.
Proof.
  intros HR. unfold pad_q.
  replace (N.to_nat (num / DL) + 3)%nat with (S (N.to_nat (num / DL) + 2)) by lia.
  apply pad_loop_q_rep; [exact HR|].
  destruct (div_mod_DL num) as [H1 H2]. revert H1 H2. generalize (num / DL), (num mod DL).
  intros q x H1 H2. replace (N.of_nat (N.to_nat q + 2)) with (q + 2) by lia. nia.
Qed.

(* ---------- change never needs space ---------- *)
Lemma write_block_q_replace r c k nd free :
  Rep r c -> DL * k < lenN c -> lenN nd = lenN (blk_of c k) ->
  write_block_q r free (mkblk nd (crc32c nd)) k = (write_block r (mkblk nd (crc32c nd)) k, free, lenN nd, E_OK).
Proof.
  intros HR Hk Hnd. unfold write_block_q. cbn [b_data b_ck]. fold (enc nd).
  pose proof (lenN_blk_of c k) as HbL. rewrite <- Hnd in HbL.
  destruct HR as [Hl Hch].
  assert (Hold : lenN (chunk_of r k) = lenN nd + 4) by (rewrite (Hch k Hk), lenN_enc; lia).
  unfold chunk_of, raw_read in Hold. rewrite lenN_take, lenN_drop in Hold.
  assert (Hpos : 0 < lenN nd) by (pose proof DL_val; lia).
  rewrite raw_write_q_ok by (rewrite lenN_enc; arith).
  change (E_OK =? E_OK) with true. cbn iota. unfold write_block. cbn [b_data b_ck]. fold (enc nd).
  f_equal. f_equal. f_equal. rewrite lenN_enc. arith.
Qed.

Lemma change_loop_q_S f r free off d :
  change_loop_q (S f) r free off d =
      match d with
      | [] => (r, free, E_OK)
      | _ =>
          let k := off / DL in
          let bo := off mod DL in
          let go (b' : blk) (n : N) :=
            let '(r', free', wn, e) := write_block_q r free b' k in
            if e =? E_OK then
              if wn =? lenN (b_data b') then change_loop_q f r' free' (off + n) (drop n d) else (r', free', E_PANIC)
            else (r', free', e) in
          if negb (bo =? 0) || (lenN d <? DL) then
            let '(e, b) := read_block r k in
            if e =? E_OK then
              match blk_change b d bo with
              | None => (r, free, E_PANIC)
              | Some (b', n) => go b' n
              end
            else (r, free, e)
          else
            let '(b', n) := blk_append blk0 d in go b' n
      end.
Proof. reflexivity. Qed.

Lemma change_loop_q_rep :
  forall f r c off d free, Rep r c -> off + lenN d <= lenN c ->
    off mod DL + lenN d <= N.of_nat f * DL ->
    exists r', change_loop_q (S f) r free off d = (r', free, E_OK) /\ Rep r' (overlay c off d).
Proof.
  induction f as [|f IH]; intros r c off d free HR Hin Hf.
  - assert (d = []) by (apply lenN_0; lia). subst d. exists r. rewrite overlay_nil.
    split; [reflexivity|exact HR].
  - destruct d as [|x d']; [exists r; rewrite overlay_nil; split; [reflexivity|exact HR]|].
    set (d := x :: d') in *.
    assert (Hdpos : 0 < lenN d) by (unfold d; rewrite lenN_cons; lia).
    rewrite change_loop_q_S. unfold d at 1. cbn zeta.
    destruct (div_mod_DL off) as [Hdm Hlt].
    set (k := off / DL) in *. set (bo := off mod DL) in *.
    assert (Hkc : DL * k < lenN c) by lia.
    pose proof (lenN_blk_of c k) as HbL.
    assert (HboL : bo < lenN (blk_of c k)) by lia.
    assert (Hcont : forall piece,
       piece = take (lenN (blk_of c k) - bo) d ->
       forall nd, nd = take bo (blk_of c k) ++ piece ++ drop (bo + lenN piece) (blk_of c k) ->
       exists r',
         (let '(r', free', wn, e) := write_block_q r free (mkblk nd (crc32c nd)) k in
          if e =? E_OK then
            if wn =? lenN nd then change_loop_q (S f) r' free' (off + lenN piece) (drop (lenN piece) d)
            else (r', free', E_PANIC)
          else (r', free', e)) = (r', free, E_OK) /\ Rep r' (overlay c off d)).
    { intros piece Hp nd Hnd.
      assert (Hpl : lenN piece = N.min (lenN (blk_of c k) - bo) (lenN d)) by (subst piece; apply lenN_take).
      assert (Hndl : lenN nd = lenN (blk_of c k)).
      { subst nd. rewrite !lenN_app, lenN_take, lenN_drop. lia. }
      rewrite (write_block_q_replace r c k nd free HR Hkc Hndl).
      change (E_OK =? E_OK) with true. cbn iota. rewrite N.eqb_refl.
      pose proof (rep_write_replace r c k nd HR Hkc Hndl) as HW.
      assert (Hcontent : take (DL * k) c ++ nd ++ drop (DL * k + lenN nd) c = overlay c off piece).
      { rewrite Hndl. rewrite Hnd. replace off with (DL * k + bo) by lia.
        apply change_block_content; lia. }
      rewrite Hcontent in HW.
      set (r1 := write_block r _ k) in *.
      destruct (N.eq_dec (lenN piece) (lenN d)) as [Hall|Hmore].
      - assert (piece = d) by (subst piece; apply take_all; lia).
        rewrite (drop_all _ d) by lia.
        exists r1. split; [reflexivity|rewrite <- H; exact HW].
      - assert (HfullB : lenN (blk_of c k) = DL) by lia.
        destruct (IH r1 (overlay c off piece) (off + lenN piece) (drop (lenN piece) d) free) as (r' & He & HR').
        + exact HW.
        + rewrite lenN_overlay, lenN_drop by lia. lia.
        + replace (off + lenN piece) with ((k + 1) * DL) by lia.
          rewrite N.mod_mul by arith. rewrite lenN_drop. lia.
        + exists r'. split; [exact He|].
          assert (Hpe : piece = take (lenN piece) d).
          { rewrite Hp at 1. f_equal. lia. }
          rewrite Hpe in HR' at 1 2. rewrite overlay_split in HR' by lia. exact HR'. }
    destruct (negb (bo =? 0) || (lenN d <? DL)) eqn:Hbr.
    + rewrite (read_block_rep r c k HR).
      replace (DL * k <? lenN c) with true by (symmetry; apply N.ltb_lt; lia).
      change (E_OK =? E_OK) with true. cbn iota.
      unfold blk_change. cbn [b_data b_ck].
      replace (lenN (blk_of c k) <=? bo) with false by (symmetry; apply N.leb_gt; lia).
      rewrite crc32c_m_correct. cbn [b_data].
      apply (Hcont _ eq_refl _ eq_refl).
    + apply orb_false_iff in Hbr. destruct Hbr as [Hb0 Hbig].
      apply negb_false_iff, N.eqb_eq in Hb0. apply N.ltb_ge in Hbig.
      unfold blk_append. cbn [b_data b_ck blk0 app]. rewrite lenN_nil, N.sub_0_r.
      rewrite crc_update_m_correct. change (crc_update 0 (take DL d)) with (crc32c (take DL d)).
      assert (HfullB : lenN (blk_of c k) = DL) by lia.
      destruct (Hcont (take DL d)) with (nd := take DL d) as (r' & He & HR').
      * rewrite HfullB, Hb0, N.sub_0_r. reflexivity.
      * rewrite Hb0, take_0. cbn [app]. rewrite (drop_all _ (blk_of c k)) by (rewrite lenN_take; lia).
        now rewrite app_nil_r.
      * exists r'. split; [exact He|exact HR'].
Qed.

Lemma change_q_rep r c off d free : Rep r c -> off + lenN d <= lenN c ->
  exists r', change_q r free off d = (r', free, E_OK) /\ Rep r' (overlay c off d).
Proof.
  intros HR Hin. unfold change_q.
  replace (N.to_nat (lenN d / DL) + 4)%nat with (S (N.to_nat (lenN d / DL) + 3)) by lia.
  apply change_loop_q_rep; [exact HR|exact Hin|].
  destruct (div_mod_DL off) as [_ Hlt]. destruct (div_mod_DL (lenN d)) as [H1 H2].
  revert H1 H2 Hlt. generalize (lenN d / DL), (lenN d mod DL), (off mod DL). intros q x s H1 H2 Hs.
  replace (N.of_nat (N.to_nat q + 3)) with (q + 3) by lia. nia.
Qed.

(* ---------- WriteAt under the quota ---------- *)
Definition enospc_outcome (c : list byte) (off : N) (d : list byte) (c' : list byte) (cnt e : N) : Prop :=
  let I := plain_write c off d in
  (e = E_OK /\ cnt = lenN d /\ c' = I) \/
  (e = E_NOSPC /\ exists m, lenN c <= m /\ m < lenN I /\ c' = take m I /\ cnt = m - off).

Lemma write_at_q_rep r c off d free : Rep r c ->
  exists r' f' cnt e c', write_at_q r free off d = (r', f', cnt, e) /\ Rep r' c' /\ enospc_outcome c off d c' cnt e.
Proof.
  intros HR. unfold write_at_q. rewrite (size_of_rep r c HR). change (E_OK =? E_OK) with true. cbn iota.
  unfold enospc_outcome.
  destruct (N.ltb_spec (lenN c) off) as [Hbeyond|Hin].
  - destruct d as [|x d'].
    + exists r, free, 0, E_OK, c. split; [reflexivity|]. split; [exact HR|]. left. repeat split.
    + set (d := x :: d') in *.
      assert (HI : plain_write c off d = c ++ zeros (off - lenN c) ++ d).
      { unfold plain_write, d. fold d. now replace (off <=? lenN c) with false by (symmetry; apply N.leb_gt; lia). }
      rewrite HI.
      destruct (pad_q_rep r c (off - lenN c) free HR) as (r1 & f1 & h & e1 & He1 & HR1 & Hout1). rewrite He1.
      destruct Hout1 as [[-> ->]|[-> Hh]].
      * change (E_OK =? E_OK) with true. cbn iota.
        destruct (append_q_rep r1 _ d f1 HR1) as (r2 & f2 & cnt & e & He2 & HR2 & Hout2). rewrite He2.
        exists r2, f2, cnt, e, ((c ++ zeros (off - lenN c)) ++ take cnt d). split; [reflexivity|]. split; [exact HR2|].
        destruct Hout2 as [[-> ->]|[-> Hlt]].
        -- left. rewrite take_all by lia. rewrite <- app_assoc. repeat split.
        -- right. split; [reflexivity|]. exists (off + cnt).
           rewrite !lenN_app, lenN_zeros. repeat split; try lia.
           rewrite app_assoc. rewrite take_app_ge by (rewrite lenN_app, lenN_zeros; lia).
           rewrite lenN_app, lenN_zeros. f_equal. f_equal. lia.
      * change (E_NOSPC =? E_OK) with false. cbn iota.
        exists r1, f1, 0, E_NOSPC, (c ++ zeros h). split; [reflexivity|]. split; [exact HR1|].
        right. split; [reflexivity|]. exists (lenN c + h).
        rewrite !lenN_app, lenN_zeros. repeat split; try lia.
        rewrite take_app_ge by lia. f_equal. replace (lenN c + h - lenN c) with h by lia.
        rewrite take_app_le by (rewrite lenN_zeros; lia). rewrite take_zeros. f_equal. lia.
  - destruct (N.eqb_spec off (lenN c)) as [Heq|Hne].
    + destruct (append_q_rep r c d free HR) as (r1 & f1 & cnt & e & He & HR1 & Hout). rewrite He.
      exists r1, f1, cnt, e, (c ++ take cnt d). split; [reflexivity|]. split; [exact HR1|].
      assert (HI : plain_write c off d = c ++ d).
      { unfold plain_write. destruct d as [|x d']; [now rewrite app_nil_r|].
        replace (off <=? lenN c) with true by (symmetry; apply N.leb_le; lia).
        rewrite Heq, take_all, (drop_all _ c), app_nil_r by lia. reflexivity. }
      rewrite HI. destruct Hout as [[-> ->]|[-> Hlt]].
      * left. rewrite take_all by lia. repeat split.
      * right. split; [reflexivity|]. exists (lenN c + cnt). rewrite lenN_app. repeat split; try lia.
        rewrite take_app_ge by lia. f_equal. f_equal. lia.
    + set (clen := N.min (lenN c) (off + lenN d) - off).
      assert (Hcl : clen <= lenN d) by (unfold clen; lia).
      assert (Htl : lenN (take clen d) = clen) by (rewrite lenN_take; lia).
      destruct (change_q_rep r c off (take clen d) free HR) as (r1 & He1 & HR1); [rewrite Htl; unfold clen; lia|].
      rewrite He1. change (E_OK =? E_OK) with true. cbn iota.
      assert (Hpw : plain_write c off d = take off c ++ d ++ drop (off + lenN d) c).
      { unfold plain_write. destruct d as [|x d'].
        - cbn [app]. rewrite lenN_nil, N.add_0_r. symmetry. apply take_drop.
        - now replace (off <=? lenN c) with true by (symmetry; apply N.leb_le; lia). }
      destruct (N.eqb_spec clen (lenN d)) as [Hall|Hmore].
      * exists r1, free, (lenN d), E_OK, (overlay c off (take clen d)). split; [reflexivity|]. split; [exact HR1|].
        left. rewrite (take_all clen d) by lia. rewrite Hpw. repeat split.
      * destruct (append_q_rep r1 _ (drop clen d) free HR1) as (r2 & f2 & cnt & e & He2 & HR2 & Hout). rewrite He2.
        assert (Hc : off + clen = lenN c) by (unfold clen in *; lia).
        assert (Hov : overlay c off (take clen d) = take off c ++ take clen d).
        { unfold overlay. rewrite Htl, Hc, (drop_all (lenN c) c), app_nil_r by lia. reflexivity. }
        assert (HI : plain_write c off d = take off c ++ d).
        { rewrite Hpw. rewrite (drop_all (off + lenN d) c), app_nil_r by (unfold clen in *; lia). reflexivity. }
        rewrite Hov in HR2. rewrite HI.
        exists r2, f2, (cnt + clen), e, ((take off c ++ take clen d) ++ take cnt (drop clen d)).
        split; [reflexivity|]. split; [exact HR2|].
        rewrite lenN_drop in Hout.
        assert (Hjoin : (take off c ++ take clen d) ++ take cnt (drop clen d) = take off c ++ take (clen + cnt) d).
        { rewrite <- app_assoc. f_equal. symmetry. apply take_split. }
        rewrite Hjoin. destruct Hout as [[-> ->]|[-> Hlt]].
        -- left. split; [reflexivity|]. split; [lia|]. rewrite (take_all _ d) by lia. reflexivity.
        -- right. split; [reflexivity|]. exists (lenN c + cnt).
           rewrite lenN_app, lenN_take. repeat split; try lia.
           rewrite take_app_ge by (rewrite lenN_take; lia). rewrite lenN_take. f_equal. f_equal. lia.
Qed.

(* the property-level statement: sound file in, sound file out, nothing lost, a prefix gained, reads exact *)
Lemma enospc_prefix_lemma :
  forall r free off d, Inv_raw r ->
    let '(r', _, cnt, e) := write_at_q r free off d in
    Inv_raw r' /\
    enospc_outcome (abs r) off d (abs r') cnt e /\
    (forall o l cap, read_at r' o l cap = plain_read (abs r') o l) /\
    scrub r' = (lenN (abs r'), E_OK).
Proof.
  intros r free off d Hinv.
  pose proof (C08.Refine2.Inv_raw_rep_abs r Hinv) as HR.
  destruct (write_at_q_rep r (abs r) off d free HR) as (r' & f' & cnt & e & c' & He & HR' & Hout).
  rewrite He. rewrite (abs_rep r' c' HR').
  split; [eapply Inv_raw_rep, HR'|]. split; [exact Hout|]. split.
  - intros. apply read_at_rep, HR'.
  - apply scrub_rep, HR'.
Qed.

(* non-vacuity: with 5 free bytes, appending 10 bytes to a 3-byte file stores exactly 5 of them and reports ENOSPC;
   with 3 free bytes on an empty file nothing but a checksum fragment would fit and the file is left empty *)
Example enospc_example :
  let '(r', f', cnt, e) := write_at_q ex_r 5 3 [9; 9; 9; 9; 9; 9; 9; 9; 9; 9] in
  (cnt, e, abs r') = (5, E_NOSPC, [1; 2; 3; 9; 9; 9; 9; 9]) /\
  write_at_q [] 3 0 [7; 7; 7] = ([], 3, 0, E_NOSPC).
Proof. vm_compute. split; reflexivity. Qed.
