(* C08/Refine.v — the checksummed file refines an ordinary file: block-level lemmas on sound raw files. *)
From Coq Require Import List NArith ZArith Bool Lia ZifyN ZifyNat ZifyBool.
From BLB Require Import Lib.CRC Lib.CRCFast Lib.CRCProofs Gen.Consts C08.CRCTab C08.Model C08.Proofs C08.Proofs2.
Import ListNotations.
Open Scope N_scope.

Ltac consts := rewrite ?BL_val, ?DL_val, ?CL_val, ?HL_val in *.
Ltac arith := consts; lia.

(* ---------- more list algebra ---------- *)
Lemma take_split {A} (l : list A) : forall a b, take (a + b) l = take a l ++ take b (drop a l).
Proof.
  induction l as [|x l IH]; intros a b; [reflexivity|].
  cbn [take drop]. destruct (N.eqb_spec a 0) as [->|Ha].
  - rewrite N.add_0_l. reflexivity.
  - replace (a + b =? 0) with false by (symmetry; apply N.eqb_neq; lia).
    replace (N.pred (a + b)) with (N.pred a + b) by lia. rewrite IH. reflexivity.
Qed.

Lemma drop_take {A} (l : list A) : forall n m, drop n (take m l) = take (m - n) (drop n l).
Proof.
  induction l as [|x l IH]; intros n m; [reflexivity|].
  cbn [take]. destruct (N.eqb_spec m 0) as [->|Hm].
  - cbn [drop]. rewrite N.sub_0_l. now rewrite take_0.
  - cbn [drop]. destruct (N.eqb_spec n 0) as [->|Hn].
    + rewrite N.sub_0_r. cbn [take]. now replace (m =? 0) with false by (symmetry; apply N.eqb_neq; lia).
    + rewrite IH. f_equal. lia.
Qed.

Lemma take_nil {A} n : take n (@nil A) = []. Proof. reflexivity. Qed.
Lemma drop_nil {A} n : drop n (@nil A) = []. Proof. reflexivity. Qed.

Lemma lenN_pos_ne {A} (l : list A) : l <> [] <-> 0 < lenN l.
Proof.
  split.
  - destruct l; [congruence|]. rewrite lenN_cons. lia.
  - intros H ->. cbn in H. lia.
Qed.

Lemma zeros_app a b : zeros a ++ zeros b = zeros (a + b).
Proof.
  unfold zeros. rewrite !fill_repeat, <- repeat_app. f_equal. lia.
Qed.

Lemma lenN_le32 x : lenN (le32 x) = 4. Proof. reflexivity. Qed.

(* ---------- sound raw files ---------- *)
Definition enc (d : list byte) : list byte := d ++ le32 (crc32c d).
Definition blk_of (c : list byte) (k : N) : list byte := take DL (drop (DL * k) c).

Lemma lenN_enc d : lenN (enc d) = lenN d + 4.
Proof. unfold enc. now rewrite lenN_app, lenN_le32. Qed.

Definition rawlen (n : N) : N := BL * (n / DL) + (if n mod DL =? 0 then 0 else n mod DL + CL).

Lemma rawlen_qm q m : m < DL -> rawlen (DL * q + m) = BL * q + (if m =? 0 then 0 else m + CL).
Proof.
  intros Hm. unfold rawlen.
  assert (Hq : (DL * q + m) / DL = q).
  { symmetry. apply (N.div_unique _ _ q m); [exact Hm|reflexivity]. }
  assert (Hr : (DL * q + m) mod DL = m).
  { symmetry. apply (N.mod_unique _ _ q m); [exact Hm|reflexivity]. }
  now rewrite Hq, Hr.
Qed.

(* r is the sound raw file holding the user content c *)
Definition Rep (r c : list byte) : Prop :=
  lenN r = rawlen (lenN c) /\
  forall k, DL * k < lenN c -> chunk_of r k = enc (blk_of c k).

Lemma qm_of n : exists q m, n = DL * q + m /\ m < DL.
Proof.
  exists (n / DL), (n mod DL). split; [apply N.div_mod|apply N.mod_lt]; arith.
Qed.

Lemma Rep_nil : Rep [] [].
Proof.
  split.
  - unfold rawlen. rewrite lenN_nil. rewrite N.div_0_l, N.mod_0_l by arith. cbn. arith.
  - intros k H. rewrite lenN_nil in H. lia.
Qed.

Lemma lenN_blk_of c k : lenN (blk_of c k) = N.min DL (lenN c - DL * k).
Proof. unfold blk_of. now rewrite lenN_take, lenN_drop. Qed.

(* ---------- raw_write at a block boundary ---------- *)
Lemma raw_write_len r off d : d <> [] -> off <= lenN r ->
  lenN (raw_write r off d) = N.max (lenN r) (off + lenN d).
Proof.
  intros Hd Ho. unfold raw_write. destruct d as [|x d]; [contradiction|].
  replace (off <=? lenN r) with true by (symmetry; apply N.leb_le; exact Ho).
  rewrite !lenN_app, lenN_take, lenN_drop. lia.
Qed.

Lemma raw_write_eq r off d : d <> [] -> off <= lenN r ->
  raw_write r off d = take off r ++ d ++ drop (off + lenN d) r.
Proof.
  intros Hd Ho. unfold raw_write. destruct d as [|x d]; [contradiction|].
  now replace (off <=? lenN r) with true by (symmetry; apply N.leb_le; exact Ho).
Qed.

Lemma chunk_write_before r k d j : d <> [] -> BL * k <= lenN r -> j < k ->
  chunk_of (raw_write r (HL + BL * k) d) j = chunk_of r j.
Proof.
  intros Hd Hk Hj. rewrite raw_write_eq by (try assumption; arith).
  unfold chunk_of, raw_read.
  assert (Hjk : HL + BL * j + BL <= HL + BL * k) by (consts; nia).
  rewrite drop_app_le by (rewrite lenN_take; arith).
  rewrite take_app_le by (rewrite lenN_drop, lenN_take; arith).
  rewrite drop_take, take_take. f_equal. arith.
Qed.

Lemma chunk_write_at r k d : d <> [] -> BL * k <= lenN r -> lenN d <= BL ->
  lenN r <= BL * k + lenN d \/ lenN d = BL ->
  chunk_of (raw_write r (HL + BL * k) d) k = d.
Proof.
  intros Hd Hk Hl Hcase. rewrite raw_write_eq by (try assumption; arith).
  unfold chunk_of, raw_read.
  rewrite drop_app_ge by (rewrite lenN_take; arith).
  rewrite lenN_take. replace (HL + BL * k - N.min (HL + BL * k) (lenN r)) with 0 by arith.
  rewrite drop_0. destruct Hcase as [Hc|Hc].
  - rewrite (drop_all _ r) by arith. rewrite app_nil_r. apply take_all. exact Hl.
  - rewrite take_app_le by lia. apply take_all. lia.
Qed.

Lemma chunk_write_after r k d j : d <> [] -> BL * k <= lenN r -> lenN d <= BL -> k < j ->
  chunk_of (raw_write r (HL + BL * k) d) j = chunk_of r j.
Proof.
  intros Hd Hk Hl Hj. rewrite raw_write_eq by (try assumption; arith).
  unfold chunk_of, raw_read.
  assert (Hjk : HL + BL * k + BL <= HL + BL * j) by (consts; nia).
  rewrite drop_app_ge by (rewrite lenN_take; arith).
  rewrite lenN_take. replace (N.min (HL + BL * k) (lenN r)) with (HL + BL * k) by arith.
  rewrite drop_app_ge by arith.
  rewrite drop_drop. f_equal. f_equal. arith.
Qed.

(* ---------- Size ---------- *)
Lemma size_of_rep r c : Rep r c -> size_of r = (lenN c, E_OK).
Proof.
  intros [Hl _]. destruct (qm_of (lenN c)) as (q & m & Hc & Hm).
  rewrite Hc, (rawlen_qm q m Hm) in Hl. unfold size_of. rewrite Hl.
  destruct (N.eqb_spec m 0) as [Hm0|Hm0].
  - subst m. rewrite N.add_0_r in *. destruct (N.eqb_spec q 0) as [Hq|Hq].
    + subst q. replace (BL * 0 =? 0) with true by (symmetry; apply N.eqb_eq; lia). f_equal. lia.
    + replace (BL * q =? 0) with false by (symmetry; apply N.eqb_neq; arith).
      replace (BL * q <=? CL) with false by (symmetry; apply N.leb_gt; arith).
      assert (Hd : (BL * q - HL) / BL = q).
      { symmetry. apply (N.div_unique _ _ q 0); arith. }
      assert (Hr : (BL * q - HL) mod BL = 0).
      { symmetry. apply (N.mod_unique _ _ q 0); arith. }
      rewrite Hd, Hr. cbn. f_equal. lia.
  - replace (BL * q + (m + CL) =? 0) with false by (symmetry; apply N.eqb_neq; arith).
    replace (BL * q + (m + CL) <=? CL) with false by (symmetry; apply N.leb_gt; arith).
    assert (Hd : (BL * q + (m + CL) - HL) / BL = q).
    { symmetry. apply (N.div_unique _ _ q (m + CL)); arith. }
    assert (Hr : (BL * q + (m + CL) - HL) mod BL = m + CL).
    { symmetry. apply (N.mod_unique _ _ q (m + CL)); arith. }
    rewrite Hd, Hr.
    replace (m + CL =? 0) with false by (symmetry; apply N.eqb_neq; arith).
    replace (m + CL <=? CL) with false by (symmetry; apply N.leb_gt; arith).
    f_equal. arith.
Qed.

(* raw length facts *)
Lemma rep_len_block r c k : Rep r c -> (DL * k < lenN c <-> HL + BL * k < lenN r).
Proof.
  intros [Hl _]. destruct (qm_of (lenN c)) as (q & m & Hc & Hm).
  rewrite Hc, (rawlen_qm q m Hm) in Hl. rewrite Hl, Hc.
  destruct (N.eqb_spec m 0); consts; nia.
Qed.

(* ---------- readBlock ---------- *)
Lemma enc_reads r k d :
  d <> [] -> chunk_of r k = enc d -> read_block r k = (E_OK, mkblk d (crc32c d)).
Proof.
  intros Hne Hc.
  destruct (sound_block_reads r k) as (d' & Hc' & _ & Hr).
  { exists d. split; assumption. }
  assert (d' = d).
  { rewrite Hc in Hc'. unfold enc in Hc'.
    assert (Hlen : lenN d = lenN d').
    { apply (f_equal lenN) in Hc'. rewrite !lenN_app, !lenN_le32 in Hc'. lia. }
    apply (f_equal (take (lenN d))) in Hc'. rewrite take_app_exact in Hc'.
    rewrite Hlen, take_app_exact in Hc'. congruence. }
  subst d'. exact Hr.
Qed.

Lemma blk_of_nonempty c k : DL * k < lenN c -> blk_of c k <> [].
Proof. intros H. apply lenN_pos_ne. rewrite lenN_blk_of. arith. Qed.

Lemma read_block_rep r c k : Rep r c ->
  read_block r k =
    if DL * k <? lenN c then (E_OK, mkblk (blk_of c k) (crc32c (blk_of c k))) else (E_EOF, blk0).
Proof.
  intros HR. destruct (N.ltb_spec (DL * k) (lenN c)) as [H|H].
  - apply enc_reads; [apply blk_of_nonempty, H|apply HR, H].
  - assert (Hn : ~ HL + BL * k < lenN r) by (rewrite <- (rep_len_block r c k HR); lia).
    unfold read_block, raw_read. rewrite drop_all by lia. reflexivity.
Qed.

(* ---------- ReadAt ---------- *)
Lemma read_loop_zero f r off cap acc : read_loop (S f) r off 0 cap acc = (acc, E_OK).
Proof. reflexivity. Qed.

Lemma read_loop_S f r off len cap acc :
  read_loop (S f) r off len cap acc =
      if len =? 0 then (acc, E_OK)
      else
        let k := off / DL in
        let start := off mod DL in
        if (start =? 0) && (BL <=? cap) then
          let '(e, d) := read_block_inplace r k in
          if e =? E_OK then
            let piece := take len d in
            let nb := lenN piece in
            read_loop f r (off + nb) (len - nb) (cap - nb) (acc ++ piece)
          else (acc, e)
        else
          let '(e, b) := read_block r k in
          if e =? E_OK then
            if lenN (b_data b) <=? start then (acc, E_EOF)
            else
              let piece := take len (drop start (b_data b)) in
              let nb := lenN piece in
              read_loop f r (off + nb) (len - nb) (cap - nb) (acc ++ piece)
          else (acc, e).
Proof. reflexivity. Qed.

Lemma slow_path off : (off mod DL =? 0) && (BL <=? 0) = false.
Proof. rewrite BL_val. cbn. apply andb_false_r. Qed.

Lemma read_loop_eof f r c off len acc : Rep r c -> 0 < len -> lenN c <= off ->
  read_loop (S f) r off len 0 acc = (acc, E_EOF).
Proof.
  intros HR Hlen Hoff. rewrite read_loop_S. cbn zeta.
  replace (len =? 0) with false by (symmetry; apply N.eqb_neq; lia).
  rewrite slow_path, (read_block_rep r c _ HR).
  destruct (div_mod_DL off) as [Hdm Hlt].
  destruct (N.ltb_spec (DL * (off / DL)) (lenN c)) as [H|H]; [|reflexivity].
  change (E_OK =? E_OK) with true. cbn iota. cbn [b_data].
  replace (lenN (blk_of c (off / DL)) <=? off mod DL) with true; [reflexivity|].
  symmetry. apply N.leb_le. rewrite lenN_blk_of. lia.
Qed.

Definition plain_code (c : list byte) (off len : N) : N :=
  if lenN (take len (drop off c)) <? len then E_EOF else E_OK.

Lemma plain_code_eq c off len : plain_code c off len = if lenN c - off <? len then E_EOF else E_OK.
Proof.
  unfold plain_code. rewrite lenN_take, lenN_drop.
  destruct (N.ltb_spec (N.min len (lenN c - off)) len); destruct (N.ltb_spec (lenN c - off) len);
    try reflexivity; lia.
Qed.

Lemma plain_code_shift c off len n : off < lenN c -> n <= len -> n <= lenN c - off ->
  plain_code c (off + n) (len - n) = plain_code c off len.
Proof.
  intros H0 H1 H2. rewrite !plain_code_eq.
  destruct (N.ltb_spec (lenN c - (off + n)) (len - n)); destruct (N.ltb_spec (lenN c - off) len);
    try reflexivity; lia.
Qed.

Lemma read_loop_rep r c : Rep r c ->
  forall f off len acc, off mod DL + len <= N.of_nat f * DL ->
    read_loop (S f) r off len 0 acc = (acc ++ take len (drop off c), plain_code c off len).
Proof.
  intros HR. induction f as [|f IH]; intros off len acc Hf.
  - assert (len = 0) by lia. subst len. rewrite read_loop_zero, take_0, app_nil_r.
    unfold plain_code. rewrite take_0. reflexivity.
  - destruct (N.eqb_spec len 0) as [->|Hlen].
    { rewrite read_loop_zero, take_0, app_nil_r. unfold plain_code. rewrite take_0. reflexivity. }
    destruct (N.le_gt_cases (lenN c) off) as [Hoff|Hoff].
    { rewrite (read_loop_eof _ r c) by (try assumption; lia).
      rewrite (drop_all off c) by lia. rewrite take_nil, app_nil_r. unfold plain_code.
      rewrite (drop_all off c) by lia. rewrite take_nil.
      replace (lenN (@nil byte) <? len) with true by (symmetry; apply N.ltb_lt; cbn; lia). reflexivity. }
    (* off < lenN c, len > 0: one real iteration *)
    rewrite read_loop_S. cbn zeta.
    replace (len =? 0) with false by (symmetry; apply N.eqb_neq; lia).
    rewrite slow_path, (read_block_rep r c _ HR).
    destruct (div_mod_DL off) as [Hdm Hlt].
    set (k := off / DL) in *. set (st := off mod DL) in *.
    replace (DL * k <? lenN c) with true by (symmetry; apply N.ltb_lt; lia).
    change (E_OK =? E_OK) with true. cbn iota. cbn [b_data].
    assert (Hbl : lenN (blk_of c k) = N.min DL (lenN c - DL * k)) by apply lenN_blk_of.
    replace (lenN (blk_of c k) <=? st) with false by (symmetry; apply N.leb_gt; lia).
    (* the piece copied out of this block *)
    assert (Hpiece : take len (drop st (blk_of c k)) = take (N.min len (DL - st)) (drop off c)).
    { unfold blk_of. rewrite drop_take, take_take, drop_drop. f_equal. f_equal. lia. }
    rewrite Hpiece.
    set (nb' := N.min len (DL - st)).
    set (piece := take nb' (drop off c)).
    assert (Hnb : lenN piece = N.min nb' (lenN c - off)).
    { unfold piece. now rewrite lenN_take, lenN_drop. }
    assert (Hsplit : take len (drop off c) = piece ++ take (len - lenN piece) (drop (off + lenN piece) c)).
    { replace len with (nb' + (len - nb')) at 1 by lia. rewrite take_split. fold piece. f_equal.
      rewrite drop_drop.
      destruct (N.le_gt_cases nb' (lenN c - off)) as [Hc|Hc].
      - replace (lenN piece) with nb' by lia. reflexivity.
      - rewrite !(drop_all _ c) by lia. now rewrite !take_nil. }
    assert (Hcode : plain_code c (off + lenN piece) (len - lenN piece) = plain_code c off len).
    { assert (H1 : lenN piece <= len) by lia. assert (H2 : lenN piece <= lenN c - off) by lia.
      revert H1 H2. generalize (lenN piece). intros n H1 H2. clear - H1 H2 Hoff.
      apply plain_code_shift; assumption. }
    rewrite N.sub_0_l.
      destruct (N.eqb_spec (len - lenN piece) 0) as [Hz|Hz].
      { rewrite Hz, read_loop_zero. rewrite Hsplit, Hz, take_0, app_nil_r.
        rewrite <- Hcode, Hz. unfold plain_code. rewrite take_0. reflexivity. }
      destruct (N.le_gt_cases (lenN c) (off + lenN piece)) as [He|He].
      { rewrite (read_loop_eof _ r c) by (try assumption; lia).
        rewrite Hsplit, (drop_all _ c) by lia. rewrite take_nil, app_nil_r.
        rewrite <- Hcode. unfold plain_code. rewrite (drop_all _ c) by lia. rewrite take_nil.
        replace (lenN (@nil byte) <? len - lenN piece) with true by (symmetry; apply N.ltb_lt; cbn; lia).
        reflexivity. }
      (* more content and more to read: the block was consumed to its (full) end *)
      assert (Hfull : lenN piece = DL - st) by lia.
      rewrite IH.
      * rewrite Hsplit, Hcode, app_assoc. reflexivity.
      * replace (off + lenN piece) with ((k + 1) * DL) by lia.
        rewrite N.mod_mul by arith. lia.
Qed.

Lemma read_at_rep r c off len cap : Rep r c -> read_at r off len cap = plain_read c off len.
Proof.
  intros HR. rewrite inplace_equiv_lemma. unfold read_at, read_fuel, plain_read.
  replace (N.to_nat (len / DL) + 4)%nat with (S (N.to_nat (len / DL) + 3)) by lia.
  rewrite (read_loop_rep r c HR).
  - reflexivity.
  - destruct (div_mod_DL off) as [_ Hlt]. destruct (div_mod_DL len) as [Hl Hm].
    revert Hl Hm Hlt. generalize (len / DL), (len mod DL), (off mod DL). intros q m s Hl Hm Hs.
    replace (N.of_nat (N.to_nat q + 3)) with (q + 3) by lia. nia.
Qed.

(* ---------- Scrub ---------- *)
Lemma scrub_loop_S f r k bytes :
  scrub_loop (S f) r k bytes =
      let '(e, b) := read_block r k in
      if e =? E_EOF then (bytes, E_OK)
      else if e =? E_OK then scrub_loop f r (k + 1) (bytes + lenN (b_data b))
      else (bytes, e).
Proof. reflexivity. Qed.

Lemma scrub_loop_rep r c : Rep r c ->
  forall f k, lenN c <= DL * k + N.of_nat f * DL ->
    scrub_loop (S f) r k (N.min (DL * k) (lenN c)) = (lenN c, E_OK).
Proof.
  intros HR. induction f as [|f IH]; intros k Hf.
  - rewrite scrub_loop_S, (read_block_rep r c k HR).
    replace (DL * k <? lenN c) with false by (symmetry; apply N.ltb_ge; lia).
    change (E_EOF =? E_EOF) with true. cbn iota. f_equal. lia.
  - rewrite scrub_loop_S, (read_block_rep r c k HR).
    destruct (N.ltb_spec (DL * k) (lenN c)) as [H|H].
    + change (E_OK =? E_EOF) with false. change (E_OK =? E_OK) with true. cbn iota. cbn [b_data].
      rewrite lenN_blk_of.
      replace (N.min (DL * k) (lenN c) + N.min DL (lenN c - DL * k))
        with (N.min (DL * (k + 1)) (lenN c)) by lia.
      apply IH. lia.
    + change (E_EOF =? E_EOF) with true. cbn iota. f_equal. lia.
Qed.

Lemma rep_len_div r c : Rep r c -> lenN c <= (lenN r / BL + 1) * DL.
Proof.
  intros [Hl _]. destruct (qm_of (lenN c)) as (q & m & Hc & Hm).
  rewrite Hc, (rawlen_qm q m Hm) in Hl.
  assert (Hd : lenN r / BL = q).
  { symmetry. destruct (N.eqb_spec m 0).
    - apply (N.div_unique _ _ q 0); arith.
    - apply (N.div_unique _ _ q (m + CL)); arith. }
  rewrite Hd, Hc. lia.
Qed.

Lemma scrub_rep r c : Rep r c -> scrub r = (lenN c, E_OK).
Proof.
  intros HR. unfold scrub.
  replace (N.to_nat (lenN r / BL) + 2)%nat with (S (N.to_nat (lenN r / BL) + 1)) by lia.
  pose proof (scrub_loop_rep r c HR (N.to_nat (lenN r / BL) + 1) 0) as H.
  rewrite N.mul_0_r, N.min_0_l in H. apply H.
  pose proof (rep_len_div r c HR) as Hd. revert Hd. generalize (lenN r / BL). intros q Hd.
  replace (N.of_nat (N.to_nat q + 1)) with (q + 1) by lia. lia.
Qed.

(* ---------- writing one block ---------- *)
(* (W) extending the last (possibly empty) block: content c ++ piece *)
Lemma rep_write_extend r c k piece :
  Rep r c -> DL * k <= lenN c -> lenN c < DL * (k + 1) -> piece <> [] ->
  lenN (drop (DL * k) c) + lenN piece <= DL ->
  Rep (write_block r (mkblk (drop (DL * k) c ++ piece) (crc32c (drop (DL * k) c ++ piece))) k) (c ++ piece).
Proof.
  intros HR Hk1 Hk2 Hp Hfit. unfold write_block. cbn [b_data b_ck].
  set (bd := drop (DL * k) c) in *. fold (enc (bd ++ piece)).
  assert (Hbd : lenN bd = lenN c - DL * k) by (unfold bd; apply lenN_drop).
  assert (Hpl : 0 < lenN piece) by (apply lenN_pos_ne, Hp).
  destruct HR as [Hl Hch].
  assert (Hc : lenN c = DL * k + lenN bd) by lia.
  assert (Hm : lenN bd < DL) by lia.
  rewrite Hc, (rawlen_qm k (lenN bd) Hm) in Hl.
  assert (Hne : enc (bd ++ piece) <> []).
  { apply lenN_pos_ne. rewrite lenN_enc. lia. }
  assert (Hrk : BL * k <= lenN r) by (rewrite Hl; lia).
  assert (Hle : lenN (enc (bd ++ piece)) <= BL) by (rewrite lenN_enc, lenN_app; arith).
  assert (Hcov : lenN r <= BL * k + lenN (enc (bd ++ piece))).
  { rewrite lenN_enc, lenN_app, Hl. destruct (lenN bd =? 0); arith. }
  split.
  - rewrite raw_write_len by (try assumption; arith).
    rewrite lenN_app. replace (lenN c + lenN piece) with (DL * k + (lenN bd + lenN piece)) by lia.
    rewrite lenN_enc, lenN_app in *.
    destruct (N.eq_dec (lenN bd + lenN piece) DL) as [He|He].
    + replace (DL * k + (lenN bd + lenN piece)) with (DL * (k + 1) + 0) by lia.
      rewrite rawlen_qm by arith. cbn. arith.
    + rewrite rawlen_qm by lia.
      replace (lenN bd + lenN piece =? 0) with false by (symmetry; apply N.eqb_neq; lia). arith.
  - intros j Hj. rewrite lenN_app in Hj.
    destruct (N.lt_trichotomy j k) as [Hjk|[Hjk|Hjk]].
    + rewrite chunk_write_before by assumption. rewrite Hch by nia.
      f_equal. unfold blk_of.
      rewrite drop_app_le by nia. rewrite take_app_le; [reflexivity|]. rewrite lenN_drop. nia.
    + subst j. rewrite chunk_write_at by (try assumption; left; exact Hcov).
      f_equal. unfold blk_of. rewrite drop_app_le by lia. fold bd.
      symmetry. apply take_all. rewrite lenN_app. lia.
    + nia.
Qed.

(* (W2) replacing the data of an existing block by as many bytes *)
Lemma rep_write_replace r c k nd :
  Rep r c -> DL * k < lenN c -> lenN nd = lenN (blk_of c k) ->
  Rep (write_block r (mkblk nd (crc32c nd)) k) (take (DL * k) c ++ nd ++ drop (DL * k + lenN nd) c).
Proof.
  intros HR Hk Hnd. unfold write_block. cbn [b_data b_ck]. fold (enc nd).
  pose proof (lenN_blk_of c k) as HL0. rewrite <- Hnd in HL0.
  assert (Hpos : 0 < lenN nd) by (pose proof DL_val; lia).
  destruct HR as [Hl Hch].
  assert (Hne : enc nd <> []) by (apply lenN_pos_ne; rewrite lenN_enc; lia).
  assert (Hold : chunk_of r k = enc (blk_of c k)) by (apply Hch, Hk).
  assert (Holdlen : lenN (chunk_of r k) = lenN nd + 4) by (rewrite Hold, lenN_enc; lia).
  unfold chunk_of, raw_read in Holdlen. rewrite lenN_take, lenN_drop in Holdlen.
  assert (Hrk : BL * k <= lenN r) by arith.
  assert (Hle : lenN (enc nd) <= BL) by (rewrite lenN_enc; arith).
  assert (Hcase : lenN r <= BL * k + lenN (enc nd) \/ lenN (enc nd) = BL).
  { rewrite lenN_enc. consts. lia. }
  assert (Hlen' : lenN (take (DL * k) c ++ nd ++ drop (DL * k + lenN nd) c) = lenN c).
  { rewrite !lenN_app, lenN_take, lenN_drop. lia. }
  split.
  - rewrite Hlen', <- Hl. rewrite raw_write_len by (try assumption; arith).
    rewrite lenN_enc. arith.
  - intros j Hj. rewrite Hlen' in Hj.
    destruct (N.lt_trichotomy j k) as [Hjk|[Hjk|Hjk]].
    + rewrite chunk_write_before by assumption. rewrite Hch by nia.
      f_equal. unfold blk_of.
      rewrite drop_app_le by (rewrite lenN_take; nia).
      rewrite take_app_le by (rewrite lenN_drop, lenN_take; nia).
      rewrite drop_take, take_take. f_equal. nia.
    + subst j. rewrite chunk_write_at by assumption.
      f_equal. unfold blk_of.
      rewrite drop_app_ge by (rewrite lenN_take; lia).
      rewrite lenN_take. replace (DL * k - N.min (DL * k) (lenN c)) with 0 by lia.
      rewrite drop_0.
      destruct (N.eq_dec (lenN nd) DL) as [He|He].
      * rewrite take_app_le by lia. symmetry. apply take_all. lia.
      * rewrite (drop_all _ c) by lia. rewrite app_nil_r. symmetry. apply take_all. lia.
    + rewrite chunk_write_after by assumption. rewrite Hch by exact Hj.
      f_equal. unfold blk_of.
      assert (lenN nd = DL) by nia.
      rewrite app_assoc. rewrite drop_app_ge by (rewrite lenN_app, lenN_take; nia).
      rewrite lenN_app, lenN_take, drop_drop. f_equal. f_equal. nia.
Qed.

(* ---------- append ---------- *)
Lemma append_loop_S f r b k d n :
  append_loop (S f) r b k d n =
      match d with
      | [] => (r, n, E_OK)
      | _ =>
          let prior := lenN (b_data b) in
          let '(b', _) := blk_append b d in
          let r' := write_block r b' k in
          let wn := lenN (b_data b') in
          append_loop f r' blk0 (k + 1) (drop (wn - prior) d) (n + (wn - prior))
      end.
Proof. reflexivity. Qed.

Lemma append_loop_nil f r b k n : append_loop (S f) r b k [] n = (r, n, E_OK).
Proof. reflexivity. Qed.

Lemma crc_update_m_blk bd piece :
  crc_update_m (crc32c bd) piece = crc32c (bd ++ piece).
Proof. rewrite crc_update_m_correct. symmetry. apply crc32c_app. Qed.

Lemma append_loop_rep :
  forall f r c k d n,
    Rep r c -> DL * k <= lenN c -> lenN c < DL * (k + 1) ->
    lenN (drop (DL * k) c) + lenN d <= N.of_nat f * DL ->
    exists r', append_loop (S f) r (mkblk (drop (DL * k) c) (crc32c (drop (DL * k) c))) k d n
                 = (r', n + lenN d, E_OK) /\ Rep r' (c ++ d).
Proof.
  induction f as [|f IH]; intros r c k d n HR Hk1 Hk2 Hf.
  - assert (d = []) by (apply lenN_0; lia). subst d. exists r.
    rewrite append_loop_nil, app_nil_r. cbn. rewrite N.add_0_r. split; [reflexivity|exact HR].
  - destruct d as [|x d']; [exists r; rewrite append_loop_nil, app_nil_r; cbn; rewrite N.add_0_r; split; [reflexivity|exact HR]|].
    set (d := x :: d') in *.
    assert (Hdpos : 0 < lenN d) by (unfold d; rewrite lenN_cons; lia).
    rewrite append_loop_S. unfold d at 1. cbn zeta. unfold blk_append. cbn [b_data b_ck].
    set (bd := drop (DL * k) c) in *.
    assert (Hbl : lenN bd = lenN c - DL * k) by (unfold bd; apply lenN_drop).
    set (piece := take (DL - lenN bd) d).
    assert (Hpl : lenN piece = N.min (DL - lenN bd) (lenN d)) by (unfold piece; apply lenN_take).
    assert (Hpne : piece <> []) by (apply lenN_pos_ne; lia).
    rewrite lenN_app.
    replace (lenN bd + lenN piece - lenN bd) with (lenN piece) by lia.
    rewrite crc_update_m_blk.
    assert (HW : Rep (write_block r (mkblk (bd ++ piece) (crc32c (bd ++ piece))) k) (c ++ piece)).
    { apply rep_write_extend; try assumption. fold bd. lia. }
    set (r1 := write_block r _ k) in *.
    destruct (N.eq_dec (lenN piece) (lenN d)) as [Hall|Hmore].
    + (* everything fitted *)
      assert (Hpd : piece = d) by (unfold piece; apply take_all; lia).
      rewrite (drop_all _ d) by lia. exists r1. split; [|rewrite <- Hpd; exact HW].
      rewrite append_loop_nil, Hall. reflexivity.
    + assert (Hfill : lenN piece = DL - lenN bd) by lia.
      assert (Hnil : drop (DL * (k + 1)) (c ++ piece) = []).
      { apply drop_all. rewrite lenN_app. lia. }
      destruct (IH r1 (c ++ piece) (k + 1) (drop (lenN piece) d) (n + lenN piece)) as (r' & He & HR').
      * exact HW.
      * rewrite lenN_app. lia.
      * rewrite lenN_app. lia.
      * rewrite Hnil, lenN_nil, lenN_drop. lia.
      * rewrite Hnil in He. change (crc32c []) with 0 in He. exists r'. split.
        -- unfold blk0. rewrite He. rewrite lenN_drop. f_equal. f_equal. lia.
        -- rewrite <- app_assoc, Hfill in HR'. unfold piece in HR'. rewrite take_drop in HR'. exact HR'.
Qed.

Lemma append_rep r c d : Rep r c ->
  exists r', append r d = (r', lenN d, E_OK) /\ Rep r' (c ++ d).
Proof.
  intros HR. unfold append. rewrite (size_of_rep r c HR). change (E_OK =? E_OK) with true. cbn iota.
  destruct (div_mod_DL (lenN c)) as [Hdm Hlt].
  set (k := lenN c / DL) in *. set (m := lenN c mod DL) in *.
  assert (Hfuel : lenN (drop (DL * k) c) + lenN d <= N.of_nat (N.to_nat (lenN d / DL) + 2) * DL).
  { rewrite lenN_drop. destruct (div_mod_DL (lenN d)) as [Hd1 Hd2]. revert Hd1 Hd2.
    generalize (lenN d / DL), (lenN d mod DL). intros q x Hd1 Hd2.
    replace (N.of_nat (N.to_nat q + 2)) with (q + 2) by lia. nia. }
  replace (N.to_nat (lenN d / DL) + 3)%nat with (S (N.to_nat (lenN d / DL) + 2)) by lia.
  destruct (append_loop_rep _ r c k d 0 HR ltac:(lia) ltac:(lia) Hfuel) as (r' & He & HR').
  rewrite N.add_0_l in He.
  destruct (N.eqb_spec m 0) as [Hm|Hm].
  - assert (Hnil : drop (DL * k) c = []) by (apply drop_all; lia).
    rewrite Hnil in He. exists r'. split; [exact He|exact HR'].
  - rewrite (read_block_rep r c k HR).
    replace (DL * k <? lenN c) with true by (symmetry; apply N.ltb_lt; lia).
    change (E_OK =? E_OK) with true. cbn iota.
    assert (Hb : blk_of c k = drop (DL * k) c).
    { unfold blk_of. apply take_all. rewrite lenN_drop. lia. }
    rewrite Hb. exists r'. split; [exact He|exact HR'].
Qed.

(* ---------- pad ---------- *)
Lemma pad_loop_S f r num :
  pad_loop (S f) r num =
      if num =? 0 then (r, E_OK)
      else
        let z := zeros (N.min num DL) in
        let '(r', n, e) := append r z in
        if e =? E_OK then
          if n =? lenN z then pad_loop f r' (num - n) else (r', E_PANIC)
        else (r', e).
Proof. reflexivity. Qed.

Lemma pad_loop_rep : forall f r c num, Rep r c -> num <= N.of_nat f * DL ->
  exists r', pad_loop (S f) r num = (r', E_OK) /\ Rep r' (c ++ zeros num).
Proof.
  induction f as [|f IH]; intros r c num HR Hf.
  - assert (num = 0) by lia. subst num. exists r. rewrite pad_loop_S. cbn.
    rewrite app_nil_r. split; [reflexivity|exact HR].
  - rewrite pad_loop_S. destruct (N.eqb_spec num 0) as [->|Hn].
    + exists r. cbn. rewrite app_nil_r. split; [reflexivity|exact HR].
    + cbn zeta. destruct (append_rep r c (zeros (N.min num DL)) HR) as (r1 & He & HR1).
      rewrite He. change (E_OK =? E_OK) with true. cbn iota. rewrite N.eqb_refl.
      rewrite lenN_zeros.
      destruct (IH r1 (c ++ zeros (N.min num DL)) (num - N.min num DL) HR1) as (r' & He' & HR').
      * lia.
      * exists r'. split; [exact He'|].
        rewrite <- app_assoc, zeros_app in HR'. replace (N.min num DL + (num - N.min num DL)) with num in HR' by lia.
        exact HR'.
Qed.

Lemma pad_rep r c num : Rep r c ->
  exists r', pad r num = (r', E_OK) /\ Rep r' (c ++ zeros num).
Proof.
  intros HR. unfold pad.
  replace (N.to_nat (num / DL) + 3)%nat with (S (N.to_nat (num / DL) + 2)) by lia.
  apply pad_loop_rep; [exact HR|].
  destruct (div_mod_DL num) as [H1 H2]. revert H1 H2. generalize (num / DL), (num mod DL).
  intros q x H1 H2. replace (N.of_nat (N.to_nat q + 2)) with (q + 2) by lia. nia.
Qed.

(* ---------- change ---------- *)
Definition overlay (c : list byte) (off : N) (d : list byte) : list byte :=
  take off c ++ d ++ drop (off + lenN d) c.

Lemma lenN_overlay c off d : off + lenN d <= lenN c -> lenN (overlay c off d) = lenN c.
Proof. intros H. unfold overlay. rewrite !lenN_app, lenN_take, lenN_drop. lia. Qed.

Lemma overlay_nil c off : overlay c off [] = c.
Proof. unfold overlay. cbn [app]. rewrite lenN_nil, N.add_0_r. apply take_drop. Qed.

(* writing a prefix of d and then the rest is writing d *)
Lemma overlay_split c off d n : off + lenN d <= lenN c ->
  overlay (overlay c off (take n d)) (off + lenN (take n d)) (drop n d) = overlay c off d.
Proof.
  intros H. unfold overlay.
  set (p := take n d). set (q := drop n d).
  assert (Hd : d = p ++ q) by (symmetry; apply take_drop).
  assert (Hl : lenN d = lenN p + lenN q) by (rewrite Hd at 1; apply lenN_app).
  set (X := take off c). set (R := drop (off + lenN p) c).
  assert (HX : lenN X = off) by (unfold X; rewrite lenN_take; lia).
  assert (HXp : off + lenN p = lenN (X ++ p)) by (rewrite lenN_app; lia).
  rewrite (app_assoc X p R). rewrite HXp at 1. rewrite take_app_exact.
  rewrite drop_app_ge by lia.
  replace (off + lenN p + lenN q - lenN (X ++ p)) with (lenN q) by lia.
  unfold R. rewrite drop_drop. rewrite Hl. rewrite Hd at 1.
  rewrite <- !app_assoc. f_equal. f_equal. f_equal. f_equal. lia.
Qed.

Lemma change_loop_S f r off d :
  change_loop (S f) r off d =
      match d with
      | [] => (r, E_OK)
      | _ =>
          let k := off / DL in
          let bo := off mod DL in
          if negb (bo =? 0) || (lenN d <? DL) then
            let '(e, b) := read_block r k in
            if e =? E_OK then
              match blk_change b d bo with
              | None => (r, E_PANIC)
              | Some (b', n) => change_loop f (write_block r b' k) (off + n) (drop n d)
              end
            else (r, e)
          else
            let '(b', n) := blk_append blk0 d in
            change_loop f (write_block r b' k) (off + n) (drop n d)
      end.
Proof. reflexivity. Qed.

(* one block of a change: both branches write overlay(block, bo, piece) and advance by |piece| *)
Lemma change_block_content c k bo piece :
  DL * k <= lenN c -> DL * k + bo + lenN piece <= DL * k + lenN (blk_of c k) -> bo < DL ->
  take (DL * k) c ++ (take bo (blk_of c k) ++ piece ++ drop (bo + lenN piece) (blk_of c k))
     ++ drop (DL * k + lenN (blk_of c k)) c
  = overlay c (DL * k + bo) piece.
Proof.
  intros Hk H Hbo. unfold overlay. pose proof (lenN_blk_of c k) as Hb.
  set (L := lenN (blk_of c k)) in *. set (s := bo + lenN piece).
  assert (HA : take (DL * k + bo) c = take (DL * k) c ++ take bo (blk_of c k)).
  { rewrite take_split. f_equal. unfold blk_of. rewrite take_take. f_equal. lia. }
  assert (HT : drop (DL * k + bo + lenN piece) c = drop s (blk_of c k) ++ drop (DL * k + L) c).
  { unfold blk_of. rewrite drop_take, drop_drop.
    replace (DL * k + bo + lenN piece) with (DL * k + s) by (unfold s; lia).
    rewrite <- (take_drop (DL - s) (drop (DL * k + s) c)) at 1. f_equal.
    rewrite drop_drop.
    destruct (N.eq_dec L DL) as [He|He].
    - f_equal. unfold s in *. lia.
    - rewrite !(drop_all _ c); [reflexivity| |]; unfold s in *; lia. }
  rewrite HA, HT. unfold s. rewrite <- !app_assoc. reflexivity.
Qed.

Lemma change_loop_rep :
  forall f r c off d, Rep r c -> off + lenN d <= lenN c ->
    off mod DL + lenN d <= N.of_nat f * DL ->
    exists r', change_loop (S f) r off d = (r', E_OK) /\ Rep r' (overlay c off d).
Proof.
  induction f as [|f IH]; intros r c off d HR Hin Hf.
  - assert (d = []) by (apply lenN_0; lia). subst d. exists r. rewrite overlay_nil.
    split; [reflexivity|exact HR].
  - destruct d as [|x d']; [exists r; rewrite overlay_nil; split; [reflexivity|exact HR]|].
    set (d := x :: d') in *.
    assert (Hdpos : 0 < lenN d) by (unfold d; rewrite lenN_cons; lia).
    rewrite change_loop_S. unfold d at 1. cbn zeta.
    destruct (div_mod_DL off) as [Hdm Hlt].
    set (k := off / DL) in *. set (bo := off mod DL) in *.
    assert (Hkc : DL * k < lenN c) by lia.
    pose proof (lenN_blk_of c k) as HbL.
    assert (HboL : bo < lenN (blk_of c k)) by lia.
    (* the common continuation *)
    assert (Hcont : forall piece,
       piece = take (lenN (blk_of c k) - bo) d ->
       forall nd, nd = take bo (blk_of c k) ++ piece ++ drop (bo + lenN piece) (blk_of c k) ->
       exists r', change_loop (S f) (write_block r (mkblk nd (crc32c nd)) k) (off + lenN piece) (drop (lenN piece) d)
                  = (r', E_OK) /\ Rep r' (overlay c off d)).
    { intros piece Hp nd Hnd.
      assert (Hpl : lenN piece = N.min (lenN (blk_of c k) - bo) (lenN d)) by (subst piece; apply lenN_take).
      assert (Hndl : lenN nd = lenN (blk_of c k)).
      { subst nd. rewrite !lenN_app, lenN_take, lenN_drop. lia. }
      pose proof (rep_write_replace r c k nd HR Hkc Hndl) as HW.
      assert (Hcontent : take (DL * k) c ++ nd ++ drop (DL * k + lenN nd) c = overlay c off piece).
      { rewrite Hndl. rewrite Hnd. replace off with (DL * k + bo) by lia.
        apply change_block_content; lia. }
      rewrite Hcontent in HW.
      set (r1 := write_block r _ k) in *.
      assert (Hin1 : off + lenN piece <= lenN c) by lia.
      destruct (N.eq_dec (lenN piece) (lenN d)) as [Hall|Hmore].
      - assert (piece = d) by (subst piece; apply take_all; lia).
        rewrite (drop_all _ d) by lia.
        exists r1. split; [reflexivity|rewrite <- H; exact HW].
      - (* the block was full and consumed to its end *)
        assert (HfullB : lenN (blk_of c k) = DL) by lia.
        destruct (IH r1 (overlay c off piece) (off + lenN piece) (drop (lenN piece) d)) as (r' & He & HR').
        + exact HW.
        + rewrite lenN_overlay, lenN_drop by lia. lia.
        + replace (off + lenN piece) with ((k + 1) * DL) by lia.
          rewrite N.mod_mul by arith. rewrite lenN_drop. lia.
        + exists r'. split; [exact He|].
          assert (Hpe : piece = take (lenN piece) d).
          { rewrite Hp at 1. f_equal. lia. }
          rewrite Hpe in HR' at 1 2. rewrite overlay_split in HR' by lia. exact HR'. }
    destruct (negb (bo =? 0) || (lenN d <? DL)) eqn:Hbr.
    + rewrite (read_block_rep r c k HR).
      replace (DL * k <? lenN c) with true by (symmetry; apply N.ltb_lt; lia).
      change (E_OK =? E_OK) with true. cbn iota.
      unfold blk_change. cbn [b_data b_ck].
      replace (lenN (blk_of c k) <=? bo) with false by (symmetry; apply N.leb_gt; lia).
      rewrite crc32c_m_correct.
      apply (Hcont _ eq_refl _ eq_refl).
    + apply orb_false_iff in Hbr. destruct Hbr as [Hb0 Hbig].
      apply negb_false_iff, N.eqb_eq in Hb0. apply N.ltb_ge in Hbig.
      unfold blk_append. cbn [b_data b_ck blk0 app]. rewrite lenN_nil, N.sub_0_r.
      rewrite crc_update_m_correct. change (crc_update 0 (take DL d)) with (crc32c (take DL d)).
      assert (HfullB : lenN (blk_of c k) = DL) by lia.
      destruct (Hcont (take DL d)) with (nd := take DL d) as (r' & He & HR').
      * rewrite HfullB, Hb0, N.sub_0_r. reflexivity.
      * rewrite Hb0, take_0. cbn [app]. rewrite (drop_all _ (blk_of c k)) by (rewrite lenN_take; lia).
        now rewrite app_nil_r.
      * exists r'. split; [exact He|exact HR'].
Qed.

Lemma change_rep r c off d : Rep r c -> off + lenN d <= lenN c ->
  exists r', change r off d = (r', E_OK) /\ Rep r' (overlay c off d).
Proof.
  intros HR Hin. unfold change.
  replace (N.to_nat (lenN d / DL) + 4)%nat with (S (N.to_nat (lenN d / DL) + 3)) by lia.
  apply change_loop_rep; [exact HR|exact Hin|].
  destruct (div_mod_DL off) as [_ Hlt]. destruct (div_mod_DL (lenN d)) as [H1 H2].
  revert H1 H2 Hlt. generalize (lenN d / DL), (lenN d mod DL), (off mod DL). intros q x s H1 H2 Hs.
  replace (N.of_nat (N.to_nat q + 3)) with (q + 3) by lia. nia.
Qed.

(* ---------- WriteAt ---------- *)
Lemma write_at_rep r c off d : Rep r c ->
  exists r', write_at r off d = (r', lenN d, E_OK) /\ Rep r' (plain_write c off d).
Proof.
  intros HR. unfold write_at. rewrite (size_of_rep r c HR). change (E_OK =? E_OK) with true. cbn iota.
  destruct (N.ltb_spec (lenN c) off) as [Hbeyond|Hin].
  - (* hole *)
    destruct d as [|x d'].
    + exists r. split; [reflexivity|exact HR].
    + set (d := x :: d') in *.
      destruct (pad_rep r c (off - lenN c) HR) as (r1 & He1 & HR1). rewrite He1.
      change (E_OK =? E_OK) with true. cbn iota.
      destruct (append_rep r1 _ d HR1) as (r2 & He2 & HR2). exists r2. split; [exact He2|].
      unfold plain_write, d. fold d.
      replace (off <=? lenN c) with false by (symmetry; apply N.leb_gt; lia).
      rewrite <- app_assoc in HR2. exact HR2.
  - destruct (N.eqb_spec off (lenN c)) as [Heq|Hne].
    + (* append *)
      destruct (append_rep r c d HR) as (r1 & He & HR1). exists r1. split; [exact He|].
      unfold plain_write. destruct d as [|x d']; [rewrite app_nil_r in HR1; exact HR1|].
      replace (off <=? lenN c) with true by (symmetry; apply N.leb_le; lia).
      rewrite Heq, take_all, (drop_all _ c), app_nil_r by lia. exact HR1.
    + (* change, possibly followed by append *)
      set (clen := N.min (lenN c) (off + lenN d) - off).
      assert (Hcl : clen <= lenN d) by (unfold clen; lia).
      assert (Htl : lenN (take clen d) = clen) by (rewrite lenN_take; lia).
      destruct (change_rep r c off (take clen d) HR) as (r1 & He1 & HR1); [rewrite Htl; unfold clen; lia|].
      rewrite He1. change (E_OK =? E_OK) with true. cbn iota.
      assert (Hpw : plain_write c off d = take off c ++ d ++ drop (off + lenN d) c).
      { unfold plain_write. destruct d as [|x d'].
        - cbn [app]. rewrite lenN_nil, N.add_0_r. symmetry. apply take_drop.
        - now replace (off <=? lenN c) with true by (symmetry; apply N.leb_le; lia). }
      destruct (N.eqb_spec clen (lenN d)) as [Hall|Hmore].
      * exists r1. split; [reflexivity|].
        rewrite (take_all clen d) in HR1 by lia. rewrite Hpw. exact HR1.
      * destruct (append_rep r1 _ (drop clen d) HR1) as (r2 & He2 & HR2). rewrite He2.
        exists r2. split.
        -- f_equal. f_equal. rewrite lenN_drop. lia.
        -- rewrite Hpw. unfold overlay in HR2. rewrite Htl in HR2.
           assert (Hc : off + clen = lenN c) by (unfold clen in *; lia).
           rewrite Hc, (drop_all (lenN c) c), app_nil_r in HR2 by lia.
           rewrite (drop_all (off + lenN d) c), app_nil_r by (unfold clen in *; lia).
           rewrite <- app_assoc, take_drop in HR2. exact HR2.
Qed.

(* ---------- abs and Inv_raw ---------- *)
Lemma abs_fuel_rep r c : Rep r c ->
  forall f k, lenN c <= DL * k + N.of_nat f * DL ->
    abs_fuel f (drop (BL * k) r) = drop (DL * k) c.
Proof.
  intros HR. induction f as [|f IH]; intros k Hf.
  - cbn [abs_fuel]. rewrite drop_all by lia. reflexivity.
  - destruct (N.le_gt_cases (lenN c) (DL * k)) as [Hge|Hlt].
    + assert (Hn : ~ HL + BL * k < lenN r) by (rewrite <- (rep_len_block r c k HR); lia).
      rewrite !drop_all by arith. reflexivity.
    + pose proof (proj1 (rep_len_block r c k HR) Hlt) as Hr.
      assert (Hne : drop (BL * k) r <> []) by (apply lenN_pos_ne; rewrite lenN_drop; arith).
      change (abs_fuel (S f) (drop (BL * k) r))
        with (match drop (BL * k) r with
              | [] => []
              | _ => let chunk := take BL (drop (BL * k) r) in
                     take (lenN chunk - CL) chunk ++ abs_fuel f (drop BL (drop (BL * k) r))
              end).
      destruct (drop (BL * k) r) eqn:Hd; [contradiction|]. rewrite <- Hd. cbn zeta.
      assert (Hch : take BL (drop (BL * k) r) = enc (blk_of c k)).
      { destruct HR as [_ Hc]. rewrite <- (Hc k Hlt). unfold chunk_of, raw_read.
        replace (HL + BL * k) with (BL * k) by arith. reflexivity. }
      rewrite Hch, lenN_enc. replace (lenN (blk_of c k) + 4 - CL) with (lenN (blk_of c k)) by arith.
      unfold enc at 1. rewrite take_app_exact.
      rewrite drop_drop. replace (BL * k + BL) with (BL * (k + 1)) by lia.
      rewrite IH by lia. unfold blk_of.
      rewrite <- (take_drop DL (drop (DL * k) c)) at 2. f_equal. rewrite drop_drop. f_equal. lia.
Qed.

Lemma abs_rep r c : Rep r c -> abs r = c.
Proof.
  intros HR. unfold abs.
  pose proof (abs_fuel_rep r c HR (N.to_nat (lenN r / BL) + 1) 0) as H.
  rewrite !N.mul_0_r, !drop_0 in H. apply H.
  pose proof (rep_len_div r c HR) as Hd. revert Hd. generalize (lenN r / BL). intros q Hd.
  replace (N.of_nat (N.to_nat q + 1)) with (q + 1) by lia. lia.
Qed.

Lemma Inv_raw_rep r c : Rep r c -> Inv_raw r.
Proof.
  intros HR j Hj. pose proof (proj2 (rep_len_block r c j HR) Hj) as Hc.
  exists (blk_of c j). split; [apply blk_of_nonempty, Hc|]. apply HR, Hc.
Qed.

(* ---------- one operation ---------- *)
Lemma step_refines s p o :
  Rep (ck_raw s) (pl_data p) -> ck_pos s = pl_pos p -> is_tamper o = false ->
  snd (ck_step s o) = snd (pl_step p o) /\
  Rep (ck_raw (fst (ck_step s o))) (pl_data (fst (pl_step p o))) /\
  ck_pos (fst (ck_step s o)) = pl_pos (fst (pl_step p o)).
Proof.
  destruct s as [r pos], p as [c pos']. cbn [ck_raw ck_pos pl_data pl_pos]. intros HR <- Ht.
  destruct o; cbn [is_tamper] in Ht; try discriminate Ht; unfold ck_step, pl_step;
    cbn [ck_raw ck_pos pl_data pl_pos].
  - (* WriteAt *)
    destruct (write_at_rep r c off d HR) as (r' & He & HR'). rewrite He. cbn. auto.
  - (* ReadAt *)
    rewrite (read_at_rep r c off len cap HR). destruct (plain_read c off len) as [d e]. cbn. auto.
  - (* Seek *)
    rewrite (size_of_rep r c HR). cbn. auto.
  - (* Read *)
    rewrite (read_at_rep r c _ len cap HR). destruct (plain_read c (Z.to_N pos) len) as [d e]. cbn. auto.
  - (* Write *)
    destruct (write_at_rep r c (Z.to_N pos) d HR) as (r' & He & HR'). rewrite He. cbn. auto.
  - (* Size *)
    rewrite (size_of_rep r c HR). cbn. auto.
  - (* Scrub *)
    rewrite (scrub_rep r c HR). cbn. auto.
  - (* Reopen *) cbn. auto.
  - (* Check *) cbn. auto.
Qed.

Lemma run_refines : forall ops s p,
  Rep (ck_raw s) (pl_data p) -> ck_pos s = pl_pos p -> no_tamper ops ->
  snd (run_ck s ops) = snd (run_plain p ops) /\
  Rep (ck_raw (fst (run_ck s ops))) (pl_data (fst (run_plain p ops))).
Proof.
  induction ops as [|o ops IH]; intros s p HR Hpos Hnt.
  - cbn. auto.
  - unfold no_tamper in Hnt. cbn [forallb] in Hnt. apply andb_true_iff in Hnt. destruct Hnt as [Ho Hnt].
    apply negb_true_iff in Ho.
    destruct (step_refines s p o HR Hpos Ho) as (Hx & HR' & Hpos').
    cbn [run_ck run_plain].
    destruct (ck_step s o) as [s1 x]. destruct (pl_step p o) as [p1 y]. cbn [fst snd] in *.
    destruct (IH s1 p1 HR' Hpos' Hnt) as [Hxs HRs].
    destruct (run_ck s1 ops) as [s2 xs]. destruct (run_plain p1 ops) as [p2 ys]. cbn [fst snd] in *.
    split; [congruence|exact HRs].
Qed.

(* the main refinement theorem, with the invariant *)
Lemma refines_plain_lemma : forall ops, no_tamper ops ->
  refines_plain ops /\
  Inv_raw (ck_raw (fst (run_ck init_ck ops))) /\
  Rep (ck_raw (fst (run_ck init_ck ops))) (pl_data (fst (run_plain init_pl ops))).
Proof.
  intros ops Hnt.
  destruct (run_refines ops init_ck init_pl Rep_nil eq_refl Hnt) as [Hx HR].
  split; [split; [exact Hx|apply abs_rep, HR]|]. split; [eapply Inv_raw_rep, HR|exact HR].
Qed.
