(* C08/Trunc.v — truncation: reads that start before the fragment block and run into it. *)
From Coq Require Import List NArith ZArith Bool Lia ZifyN ZifyNat ZifyBool.
From BLB Require Import Lib.CRC Lib.CRCFast Lib.CRCProofs Gen.Consts C08.CRCTab C08.Model C08.Proofs C08.Proofs2 C08.Refine C08.Refine2.
Import ListNotations.
Open Scope N_scope.

Lemma chunk_of_take r n j : BL * (j + 1) <= n -> chunk_of (take n r) j = chunk_of r j.
Proof.
  intros H. unfold chunk_of, raw_read. rewrite drop_take, take_take. f_equal. arith.
Qed.

Lemma blocks_data_agree r r' :
  forall cnt j, (forall i, j <= i < j + N.of_nat cnt -> chunk_of r' i = chunk_of r i) ->
    blocks_data r' j cnt = blocks_data r j cnt.
Proof.
  induction cnt as [|c IH]; intros j H; [reflexivity|].
  cbn [blocks_data]. rewrite (read_block_chunk r r' j) by (apply H; lia).
  f_equal. apply IH. intros i Hi. apply H. lia.
Qed.

(* reads confined to blocks below k only depend on those blocks *)
Lemma read_loop_frame_lt r r' k :
  (forall j, j < k -> chunk_of r' j = chunk_of r j) ->
  forall fuel off len acc, (len = 0 \/ (off + len - 1) / DL < k) ->
    read_loop fuel r' off len 0 acc = read_loop fuel r off len 0 acc.
Proof.
  intros Hsame. induction fuel as [|f IH]; intros off len acc Hr; [reflexivity|].
  rewrite !read_loop_S. cbn zeta.
  destruct (N.eqb_spec len 0) as [|Hl]; [reflexivity|].
  destruct Hr as [|Hr]; [contradiction|].
  rewrite slow_path.
  assert (Hk : off / DL < k).
  { eapply N.le_lt_trans; [|exact Hr]. apply N.div_le_mono; [arith|lia]. }
  rewrite (read_block_chunk r r' (off / DL) (Hsame _ Hk)).
  destruct (read_block r (off / DL)) as [e b].
  destruct (e =? E_OK); [|reflexivity].
  destruct (lenN (b_data b) <=? off mod DL) eqn:Hle; [reflexivity|].
  apply IH.
  set (nb := lenN (take len (drop (off mod DL) (b_data b)))).
  assert (Hnb : nb <= len) by (unfold nb; rewrite lenN_take; lia).
  assert (Hnb0 : 0 < nb).
  { unfold nb. rewrite lenN_take, lenN_drop. apply N.leb_gt in Hle. lia. }
  destruct (N.eq_dec (len - nb) 0) as [Hz|Hz]; [left; exact Hz|right].
  replace (off + nb + (len - nb) - 1) with (off + len - 1) by lia. exact Hr.
Qed.

Lemma truncation_reads_lemma :
  forall r n, Inv_raw r -> n <= lenN r -> bad_fragment (take n r) ->
    let r' := take n r in
    let k := n / BL in
    (forall off len cap, touches k off len ->
        read_at r' off len cap = (take (k * DL - off) (drop off (abs r)), E_CORRUPT)) /\
    (forall off len cap, 0 < len -> (off + len - 1) / DL < k ->
        read_at r' off len cap = read_at r off len cap).
Proof.
  intros r n Hinv Hn Hfrag r' k.
  assert (Hlen : lenN r' = n) by (unfold r'; rewrite lenN_take; lia).
  assert (Hkdef : (lenN r' - HL) / BL = k) by (rewrite Hlen; unfold k; f_equal; arith).
  assert (Hfr : 1 <= n mod BL <= CL).
  { unfold bad_fragment in Hfrag. fold r' in Hfrag. rewrite Hlen in Hfrag.
    replace (n - HL) with n in Hfrag by arith. exact Hfrag. }
  assert (Hdm : n = BL * k + n mod BL) by (unfold k; apply N.div_mod; arith).
  clearbody k. set (fr := n mod BL) in *. clearbody fr.
  assert (Hsame : forall j, j < k -> chunk_of r' j = chunk_of r j).
  { intros j Hj. unfold r'. apply chunk_of_take. consts. nia. }
  assert (Hcorrupt : fst (read_block r' k) = E_CORRUPT).
  { pose proof (read_block_fragment r' Hfrag) as H. rewrite Hkdef in H. rewrite H. reflexivity. }
  assert (Hfull : forall j, j < k -> full_sound r' j).
  { intros j Hj. apply sound_block_full.
    - unfold sound_block. rewrite (Hsame j Hj). apply Hinv. consts. nia.
    - rewrite Hlen. consts. nia. }
  pose proof (Inv_raw_rep_abs r Hinv) as HR.
  assert (Hkc : DL * k < lenN (abs r)).
  { apply (rep_len_block r (abs r) k HR). consts. lia. }
  split.
  - intros off len cap Ht.
    rewrite (read_at_reaches r' k off len cap Hcorrupt Ht) by (intros j Hj; apply Hfull; lia).
    f_equal. destruct Ht as [Hl [H1 H2]]. destruct (div_mod_DL off) as [Ho Hlt].
    set (j0 := off / DL) in *. set (st := off mod DL) in *. clearbody j0 st. clear H2.
    rewrite (blocks_data_agree r r') by (intros i Hi; apply Hsame; lia).
    rewrite (abs_blocks_data_rep r (abs r) HR) by (rewrite N2Nat.id; nia).
    rewrite N2Nat.id, drop_take, drop_drop. f_equal; [nia|]. f_equal. lia.
  - intros off len cap Hl Hlt.
    rewrite (inplace_equiv_lemma r'), (inplace_equiv_lemma r). unfold read_at.
    apply read_loop_frame_lt with (k := k); [exact Hsame|right; exact Hlt].
Qed.
