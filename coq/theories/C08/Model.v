(* C08/Model.v — executable model of pkg/disk ChecksumFile (checksum_file.go, checksum_block.go).
   The raw on-disk file is a flat list of bytes; every function below transcribes one Go function
   branch by branch (no injected I/O errors: the ENOSPC path of writeBlock is not modelled).
   Also contains the specification side: the plain file (holes read as zeros).
   Definitions only; proofs live in Proofs*.v.  Bytes are N in [0,256). *)
From Coq Require Import List NArith ZArith Bool.
From BLB Require Import Lib.CRC Gen.Consts C08.CRCTab.
Import ListNotations.
Open Scope N_scope.

(* ---------- constants, regenerated from /repo on every run ---------- *)
Definition BL : N := c_blockLength.          (* 65536 *)
Definition CL : N := c_blockChecksumLength.  (* 4 *)
Definition DL : N := c_blockDataLength.      (* 65532 *)
Definition HL : N := c_headerLength.         (* 0 *)

(* ---------- error classes on the wire ---------- *)
Definition E_OK : N := 0.
Definition E_EOF : N := 1.       (* io.EOF *)
Definition E_CORRUPT : N := 2.   (* ErrCorruptData *)
Definition E_INVOFF : N := 3.    (* ErrInvalidOffset *)
Definition E_FUEL : N := 8.      (* model loop bound exhausted: never expected *)
Definition E_PANIC : N := 9.     (* a Go panic() site was reached *)

(* ---------- list helpers counting in N ---------- *)
Fixpoint take {A} (n : N) (l : list A) : list A :=
  match l with
  | [] => []
  | x :: t => if n =? 0 then [] else x :: take (N.pred n) t
  end.

Fixpoint drop {A} (n : N) (l : list A) : list A :=
  match l with
  | [] => []
  | x :: t => if n =? 0 then l else drop (N.pred n) t
  end.

Definition lenN {A} (l : list A) : N := fold_left (fun a _ => N.succ a) l 0.

Definition fill (n : N) (v : byte) : list byte := N.iter n (cons v) [].
Definition zeros (n : N) : list byte := fill n 0.

(* ---------- the underlying os.File ---------- *)
Definition raw_read (r : list byte) (off n : N) : list byte := take n (drop off r).

Definition raw_write (r : list byte) (off : N) (d : list byte) : list byte :=
  match d with
  | [] => r
  | _ => let l := lenN r in
         if off <=? l then take off r ++ d ++ drop (off + lenN d) r
         else r ++ zeros (off - l) ++ d
  end.

Definition raw_truncate (r : list byte) (n : N) : list byte :=
  let l := lenN r in if n <=? l then take n r else r ++ zeros (n - l).

(* ---------- checksum_block.go ---------- *)
Record blk := mkblk { b_data : list byte; b_ck : N }.
Definition blk0 : blk := mkblk [] 0.

(* checksumBlock.append: copy into storage[length:blockDataLength], cksum = crc32.Update(cksum, copied) *)
Definition blk_append (b : blk) (d : list byte) : blk * N :=
  let piece := take (DL - lenN (b_data b)) d in
  (mkblk (b_data b ++ piece) (crc_update_m (b_ck b) piece), lenN piece).

(* checksumBlock.change: None = returns -1 *)
Definition blk_change (b : blk) (d : list byte) (off : N) : option (blk * N) :=
  let L := lenN (b_data b) in
  if L <=? off then None
  else let piece := take (L - off) d in
       let nd := take off (b_data b) ++ piece ++ drop (off + lenN piece) (b_data b) in
       Some (mkblk nd (crc32c_m nd), lenN piece).

(* readBlock *)
Definition read_block (r : list byte) (k : N) : N * blk :=
  let chunk := raw_read r (HL + BL * k) BL in
  let n := lenN chunk in
  if n =? 0 then (E_EOF, blk0)
  else if n <=? CL then (E_CORRUPT, blk0)
  else let d := take (n - CL) chunk in
       let c := of_le (drop (n - CL) chunk) in
       if c =? crc32c_m d then (E_OK, mkblk d c) else (E_CORRUPT, mkblk d c).

(* readBlockInPlace: (err, data bytes placed at the front of the caller's buffer) *)
Definition read_block_inplace (r : list byte) (k : N) : N * list byte :=
  let chunk := raw_read r (HL + BL * k) BL in
  let n := lenN chunk in
  if n =? 0 then (E_EOF, [])
  else if n <=? CL then (E_CORRUPT, [])
  else let length := n - CL in
       let c := of_le (drop length chunk) in
       if c =? crc32c_m (take length chunk) then (E_OK, take length chunk) else (E_CORRUPT, []).

(* tryWrite/writeBlock without I/O errors *)
Definition write_block (r : list byte) (b : blk) (k : N) : list byte :=
  raw_write r (HL + BL * k) (b_data b ++ le32 (b_ck b)).

(* ---------- checksum_file.go ---------- *)

(* Size *)
Definition size_of (r : list byte) : N * N :=
  let s := lenN r in
  if s =? 0 then (0, E_OK)
  else if s <=? CL then (0, E_CORRUPT)
  else let nb := (s - HL) / BL in
       let lo := (s - HL) mod BL in
       if lo =? 0 then (DL * nb, E_OK)
       else if lo <=? CL then (0, E_CORRUPT)
       else (DL * nb + (lo - CL), E_OK).

(* ReadAt: len = len(b), cap = cap(b); result = (b[0:n], err) *)
Fixpoint read_loop (fuel : nat) (r : list byte) (off len cap : N) (acc : list byte) : list byte * N :=
  match fuel with
  | O => (acc, E_FUEL)
  | S f =>
      if len =? 0 then (acc, E_OK)
      else
        let k := off / DL in
        let start := off mod DL in
        if (start =? 0) && (BL <=? cap) then
          let '(e, d) := read_block_inplace r k in
          if e =? E_OK then
            let piece := take len d in
            let nb := lenN piece in
            read_loop f r (off + nb) (len - nb) (cap - nb) (acc ++ piece)
          else (acc, e)
        else
          let '(e, b) := read_block r k in
          if e =? E_OK then
            if lenN (b_data b) <=? start then (acc, E_EOF)
            else
              let piece := take len (drop start (b_data b)) in
              let nb := lenN piece in
              read_loop f r (off + nb) (len - nb) (cap - nb) (acc ++ piece)
          else (acc, e)
  end.

Definition read_fuel (len : N) : nat := N.to_nat (len / DL) + 4.

Definition read_at (r : list byte) (off len cap : N) : list byte * N :=
  read_loop (read_fuel len) r off len cap [].

(* Scrub *)
Fixpoint scrub_loop (fuel : nat) (r : list byte) (k bytes : N) : N * N :=
  match fuel with
  | O => (bytes, E_FUEL)
  | S f =>
      let '(e, b) := read_block r k in
      if e =? E_EOF then (bytes, E_OK)
      else if e =? E_OK then scrub_loop f r (k + 1) (bytes + lenN (b_data b))
      else (bytes, e)
  end.

Definition scrub (r : list byte) : N * N := scrub_loop (N.to_nat (lenN r / BL) + 2) r 0 0.

(* append: the block loop *)
Fixpoint append_loop (fuel : nat) (r : list byte) (b : blk) (k : N) (d : list byte) (n : N)
  : list byte * N * N :=
  match fuel with
  | O => (r, n, E_FUEL)
  | S f =>
      match d with
      | [] => (r, n, E_OK)
      | _ =>
          let prior := lenN (b_data b) in
          let '(b', _) := blk_append b d in
          let r' := write_block r b' k in
          let wn := lenN (b_data b') in
          append_loop f r' blk0 (k + 1) (drop (wn - prior) d) (n + (wn - prior))
      end
  end.

Definition append (r : list byte) (d : list byte) : list byte * N * N :=
  let '(off, e) := size_of r in
  if e =? E_OK then
    let k := off / DL in
    let fuel := (N.to_nat (lenN d / DL) + 3)%nat in
    if off mod DL =? 0 then append_loop fuel r blk0 k d 0
    else
      let '(e2, b) := read_block r k in
      if e2 =? E_OK then append_loop fuel r b k d 0 else (r, 0, e2)
  else (r, 0, e).

(* pad *)
Fixpoint pad_loop (fuel : nat) (r : list byte) (num : N) : list byte * N :=
  match fuel with
  | O => (r, E_FUEL)
  | S f =>
      if num =? 0 then (r, E_OK)
      else
        let z := zeros (N.min num DL) in
        let '(r', n, e) := append r z in
        if e =? E_OK then
          if n =? lenN z then pad_loop f r' (num - n) else (r', E_PANIC)
        else (r', e)
  end.

Definition pad (r : list byte) (num : N) : list byte * N :=
  pad_loop (N.to_nat (num / DL) + 3) r num.

(* change *)
Fixpoint change_loop (fuel : nat) (r : list byte) (off : N) (d : list byte) : list byte * N :=
  match fuel with
  | O => (r, E_FUEL)
  | S f =>
      match d with
      | [] => (r, E_OK)
      | _ =>
          let k := off / DL in
          let bo := off mod DL in
          if negb (bo =? 0) || (lenN d <? DL) then
            let '(e, b) := read_block r k in
            if e =? E_OK then
              match blk_change b d bo with
              | None => (r, E_PANIC)
              | Some (b', n) => change_loop f (write_block r b' k) (off + n) (drop n d)
              end
            else (r, e)
          else
            let '(b', n) := blk_append blk0 d in
            change_loop f (write_block r b' k) (off + n) (drop n d)
      end
  end.

Definition change (r : list byte) (off : N) (d : list byte) : list byte * N :=
  change_loop (N.to_nat (lenN d / DL) + 4) r off d.

(* WriteAt: (raw', n, err) *)
Definition write_at (r : list byte) (off : N) (d : list byte) : list byte * N * N :=
  let '(size, e) := size_of r in
  if e =? E_OK then
    if size <? off then
      match d with
      | [] => (r, 0, E_OK)          (* fix F19: a zero-length write beyond EOF does not pad *)
      | _ =>
        let '(r1, e1) := pad r (off - size) in
        if e1 =? E_OK then append r1 d else (r1, 0, e1)
      end
    else if off =? size then append r d
    else
      let clen := N.min size (off + lenN d) - off in
      let '(r1, e1) := change r off (take clen d) in
      if e1 =? E_OK then
        if clen =? lenN d then (r1, lenN d, E_OK)
        else let '(r2, n, e2) := append r1 (drop clen d) in (r2, n + clen, e2)
      else (r1, 0, e1)
  else (r, 0, e).

(* ---------- the same write side on a file system that can run out of space ---------- *)
(* Fault oracle for the ENOSPC path of writeBlock: the file system has `free` bytes left. Bytes of a write that
   overwrite existing file bytes (or fall into a hole) always succeed; bytes that extend the file consume free
   space; when it is used up the write is short, (n, ENOSPC), exactly like os.File.WriteAt. Truncation gives the
   bytes back. The harness drives the real code through the same quota in a mockFile wrapper (osFileOpener). *)
Definition E_NOSPC : N := 5.

Definition raw_write_q (r : list byte) (free off : N) (d : list byte) : list byte * N * N * N :=
  let need := (off + lenN d) - N.max (lenN r) off in
  if need <=? free then (raw_write r off d, free - need, lenN d, E_OK)
  else let n := lenN d - (need - free) in
       (raw_write r off (take n d), 0, n, E_NOSPC).

Definition raw_truncate_q (r : list byte) (free m : N) : list byte * N :=
  (raw_truncate r m, free + (lenN r - m)).

(* writeBlock with its error handling: (raw', free', bytes of the block's data written, err) *)
Definition write_block_q (r : list byte) (free : N) (b : blk) (k : N) : list byte * N * N * N :=
  let '(r1, f1, n, e) := raw_write_q r free (HL + BL * k) (b_data b ++ le32 (b_ck b)) in
  if e =? E_OK then (r1, f1, lenN (b_data b), E_OK)
  else if n <=? CL then
    let '(r2, f2) := raw_truncate_q r1 f1 (HL + BL * k) in (r2, f2, 0, e)
  else
    let '(pb, _) := blk_append blk0 (take (n - CL) (b_data b)) in
    let '(r2, f2, _, e2) := raw_write_q r1 f1 (HL + BL * k) (b_data pb ++ le32 (b_ck pb)) in
    if e2 =? E_OK then (r2, f2, lenN (b_data pb), e) else (r2, f2, 0, E_CORRUPT).

Fixpoint append_loop_q (fuel : nat) (r : list byte) (free : N) (b : blk) (k : N) (d : list byte) (n : N)
  : list byte * N * N * N :=
  match fuel with
  | O => (r, free, n, E_FUEL)
  | S f =>
      match d with
      | [] => (r, free, n, E_OK)
      | _ =>
          let prior := lenN (b_data b) in
          let '(b', _) := blk_append b d in
          let '(r', free', wn, e) := write_block_q r free b' k in
          if e =? E_OK then append_loop_q f r' free' blk0 (k + 1) (drop (wn - prior) d) (n + (wn - prior))
          else (r', free', n + (wn - prior), e)
      end
  end.

Definition append_q (r : list byte) (free : N) (d : list byte) : list byte * N * N * N :=
  let '(off, e) := size_of r in
  if e =? E_OK then
    let k := off / DL in
    let fuel := (N.to_nat (lenN d / DL) + 3)%nat in
    if off mod DL =? 0 then append_loop_q fuel r free blk0 k d 0
    else
      let '(e2, b) := read_block r k in
      if e2 =? E_OK then append_loop_q fuel r free b k d 0 else (r, free, 0, e2)
  else (r, free, 0, e).

Fixpoint pad_loop_q (fuel : nat) (r : list byte) (free num : N) : list byte * N * N :=
  match fuel with
  | O => (r, free, E_FUEL)
  | S f =>
      if num =? 0 then (r, free, E_OK)
      else
        let z := zeros (N.min num DL) in
        let '(r', free', n, e) := append_q r free z in
        if e =? E_OK then
          if n =? lenN z then pad_loop_q f r' free' (num - n) else (r', free', E_PANIC)
        else (r', free', e)
  end.

Definition pad_q (r : list byte) (free num : N) : list byte * N * N :=
  pad_loop_q (N.to_nat (num / DL) + 3) r free num.

Fixpoint change_loop_q (fuel : nat) (r : list byte) (free off : N) (d : list byte) : list byte * N * N :=
  match fuel with
  | O => (r, free, E_FUEL)
  | S f =>
      match d with
      | [] => (r, free, E_OK)
      | _ =>
          let k := off / DL in
          let bo := off mod DL in
          let go (b' : blk) (n : N) :=
            let '(r', free', wn, e) := write_block_q r free b' k in
            if e =? E_OK then
              if wn =? lenN (b_data b') then change_loop_q f r' free' (off + n) (drop n d) else (r', free', E_PANIC)
            else (r', free', e) in
          if negb (bo =? 0) || (lenN d <? DL) then
            let '(e, b) := read_block r k in
            if e =? E_OK then
              match blk_change b d bo with
              | None => (r, free, E_PANIC)
              | Some (b', n) => go b' n
              end
            else (r, free, e)
          else
            let '(b', n) := blk_append blk0 d in go b' n
      end
  end.

Definition change_q (r : list byte) (free off : N) (d : list byte) : list byte * N * N :=
  change_loop_q (N.to_nat (lenN d / DL) + 4) r free off d.

Definition write_at_q (r : list byte) (free off : N) (d : list byte) : list byte * N * N * N :=
  let '(size, e) := size_of r in
  if e =? E_OK then
    if size <? off then
      match d with
      | [] => (r, free, 0, E_OK)
      | _ =>
        let '(r1, f1, e1) := pad_q r free (off - size) in
        if e1 =? E_OK then append_q r1 f1 d else (r1, f1, 0, e1)
      end
    else if off =? size then append_q r free d
    else
      let clen := N.min size (off + lenN d) - off in
      let '(r1, f1, e1) := change_q r free off (take clen d) in
      if e1 =? E_OK then
        if clen =? lenN d then (r1, f1, lenN d, E_OK)
        else let '(r2, f2, n, e2) := append_q r1 f1 (drop clen d) in (r2, f2, n + clen, e2)
      else (r1, f1, 0, e1)
  else (r, free, 0, e).

(* ---------- operations, results ---------- *)
Inductive op :=
| OWriteAt (off : N) (d : list byte)
| OReadAt (off len cap : N)
| OSeek (whence : Z) (off : Z)
| ORead (len cap : N)
| OWrite (d : list byte)
| OSize
| OScrub
| OReopen (flags : N)
| OTamperXor (bit pat : N)
| OTamperTrunc (n : N)
| OCheck.

(* every result has the same shape: count/size/returned offset, error class, bytes, cursor afterwards *)
Record res := mkres { r_n : N; r_err : N; r_data : list byte; r_pos : Z }.

Record ckstate := mkck { ck_raw : list byte; ck_pos : Z }.

(* Seek on a file whose Size is (sz, e) *)
Definition seek_pos (pos : Z) (sz : N * N) (whence off : Z) : res :=
  let cand : Z + N :=
    if (whence =? 0)%Z then inl off
    else if (whence =? 1)%Z then inl (pos + off)%Z
    else if (whence =? 2)%Z then
      (if snd sz =? E_OK then inl (Z.of_N (fst sz) + off)%Z else inr (snd sz))
    else inl pos in
  match cand with
  | inr e => mkres 0 e [] pos
  | inl p => if (p <? 0)%Z then mkres 0 E_INVOFF [] pos else mkres (Z.to_N p) E_OK [] p
  end.

(* raw tampering: xor the bits of pat (bit i of pat hits raw bit `bit+i`, bits numbered LSB-first in each byte) *)
Fixpoint xor_bytes (l : list byte) (v : N) (cnt : nat) : list byte :=
  match cnt, l with
  | S c, x :: t => N.lxor x (N.land v 255) :: xor_bytes t (N.shiftr v 8) c
  | _, _ => l
  end.

Definition tamper_xor (r : list byte) (bit pat : N) : list byte :=
  let bo := bit / 8 in
  take bo r ++ xor_bytes (drop bo r) (N.shiftl pat (bit mod 8)) 5.

Definition ck_step (s : ckstate) (o : op) : ckstate * res :=
  let r := ck_raw s in
  let pos := ck_pos s in
  match o with
  | OWriteAt off d =>
      let '(r', n, e) := write_at r off d in (mkck r' pos, mkres n e [] pos)
  | OReadAt off len cap =>
      let '(d, e) := read_at r off len cap in (s, mkres (lenN d) e d pos)
  | OSeek whence off =>
      let x := seek_pos pos (size_of r) whence off in (mkck r (r_pos x), x)
  | ORead len cap =>
      let '(d, e) := read_at r (Z.to_N pos) len cap in
      let p := (pos + Z.of_N (lenN d))%Z in
      (mkck r p, mkres (lenN d) e d p)
  | OWrite d =>
      let '(r', n, e) := write_at r (Z.to_N pos) d in
      let p := (pos + Z.of_N n)%Z in
      (mkck r' p, mkres n e [] p)
  | OSize => let '(n, e) := size_of r in (s, mkres n e [] pos)
  | OScrub => let '(n, e) := scrub r in (s, mkres n e [] pos)
  | OReopen _ => (mkck r 0%Z, mkres 0 E_OK [] 0%Z)
  | OTamperXor bit pat => (mkck (tamper_xor r bit pat) pos, mkres 0 E_OK [] pos)
  | OTamperTrunc n => (mkck (raw_truncate r n) pos, mkres 0 E_OK [] pos)
  | OCheck => (s, mkres 0 E_OK [] pos)
  end.

(* ---------- the specification: an ordinary file whose holes read as zeros ---------- *)
Record plstate := mkpl { pl_data : list byte; pl_pos : Z }.

Definition plain_write (c : list byte) (off : N) (d : list byte) : list byte :=
  match d with
  | [] => c                      (* a zero-length write never changes an ordinary file *)
  | _ => let l := lenN c in
         if off <=? l then take off c ++ d ++ drop (off + lenN d) c
         else c ++ zeros (off - l) ++ d
  end.

Definition plain_read (c : list byte) (off len : N) : list byte * N :=
  let d := take len (drop off c) in
  (d, if lenN d <? len then E_EOF else E_OK).

Definition pl_step (s : plstate) (o : op) : plstate * res :=
  let c := pl_data s in
  let pos := pl_pos s in
  match o with
  | OWriteAt off d => (mkpl (plain_write c off d) pos, mkres (lenN d) E_OK [] pos)
  | OReadAt off len _ => let '(d, e) := plain_read c off len in (s, mkres (lenN d) e d pos)
  | OSeek whence off =>
      let x := seek_pos pos (lenN c, E_OK) whence off in (mkpl c (r_pos x), x)
  | ORead len _ =>
      let '(d, e) := plain_read c (Z.to_N pos) len in
      let p := (pos + Z.of_N (lenN d))%Z in
      (mkpl c p, mkres (lenN d) e d p)
  | OWrite d =>
      let p := (pos + Z.of_N (lenN d))%Z in
      (mkpl (plain_write c (Z.to_N pos) d) p, mkres (lenN d) E_OK [] p)
  | OSize => (s, mkres (lenN c) E_OK [] pos)
  | OScrub => (s, mkres (lenN c) E_OK [] pos)     (* a sound file scrubs clean and reports its size *)
  | OReopen _ => (mkpl c 0%Z, mkres 0 E_OK [] 0%Z)
  | OTamperXor _ _ | OTamperTrunc _ | OCheck => (s, mkres 0 E_OK [] pos)
  end.

Fixpoint run_ck (s : ckstate) (ops : list op) : ckstate * list res :=
  match ops with
  | [] => (s, [])
  | o :: t => let '(s1, x) := ck_step s o in let '(s2, xs) := run_ck s1 t in (s2, x :: xs)
  end.

Fixpoint run_plain (s : plstate) (ops : list op) : plstate * list res :=
  match ops with
  | [] => (s, [])
  | o :: t => let '(s1, x) := pl_step s o in let '(s2, xs) := run_plain s1 t in (s2, x :: xs)
  end.

Definition is_tamper (o : op) : bool :=
  match o with OTamperXor _ _ | OTamperTrunc _ => true | _ => false end.

(* the user data a (sound) raw file holds: every block's data portion *)
Fixpoint abs_fuel (fuel : nat) (r : list byte) : list byte :=
  match fuel with
  | O => []
  | S f => match r with
           | [] => []
           | _ => let chunk := take BL r in
                  take (lenN chunk - CL) chunk ++ abs_fuel f (drop BL r)
           end
  end.
Definition abs (r : list byte) : list byte := abs_fuel (N.to_nat (lenN r / BL) + 1) r.

(* ---------- wire ---------- *)
Fixpoint list_eqb (a b : list N) : bool :=
  match a, b with
  | [], [] => true
  | x :: a', y :: b' => (x =? y) && list_eqb a' b'
  | _, _ => false
  end.

Definition res_eqb (x y : res) : bool :=
  (r_n x =? r_n y) && (r_err x =? r_err y) && list_eqb (r_data x) (r_data y) && (r_pos x =? r_pos y)%Z.

Fixpoint rle_runs (l : list byte) : list (N * N) :=
  match l with
  | [] => []
  | x :: t => match rle_runs t with
              | (n, v) :: rs => if v =? x then (N.succ n, v) :: rs else (1, x) :: (n, v) :: rs
              | [] => [(1, x)]
              end
  end.

Definition rle_enc (l : list byte) : list Z :=
  let rs := rle_runs l in
  Z.of_N (lenN rs) :: flat_map (fun p => [Z.of_N (fst p); Z.of_N (snd p)]) rs.

(* decode `nruns (len val)*`; returns the bytes and the rest of the line *)
Fixpoint rle_dec_runs (n : nat) (l : list Z) : option (list byte * list Z) :=
  match n with
  | O => Some ([], l)
  | S n' => match l with
            | len :: v :: rest =>
                match rle_dec_runs n' rest with
                | Some (d, rest') => Some (fill (Z.to_N len) (Z.to_N v) ++ d, rest')
                | None => None
                end
            | _ => None
            end
  end.

Definition rle_dec (l : list Z) : option (list byte * list Z) :=
  match l with
  | n :: rest => rle_dec_runs (Z.to_nat n) rest
  | [] => None
  end.

Definition nonneg (l : list Z) : bool := forallb (fun z => (0 <=? z)%Z) l.

Definition decode_op (l : list Z) : option op :=
  match l with
  | 1%Z :: off :: rest =>
      if (0 <=? off)%Z && nonneg rest then
        match rle_dec rest with Some (d, []) => Some (OWriteAt (Z.to_N off) d) | _ => None end
      else None
  | [2%Z; off; len; cap] =>
      if nonneg [off; len; cap] then Some (OReadAt (Z.to_N off) (Z.to_N len) (Z.to_N cap)) else None
  | [3%Z; whence; off] => if (0 <=? whence)%Z then Some (OSeek whence off) else None
  | [4%Z; len; cap] => if nonneg [len; cap] then Some (ORead (Z.to_N len) (Z.to_N cap)) else None
  | 5%Z :: rest =>
      if nonneg rest then match rle_dec rest with Some (d, []) => Some (OWrite d) | _ => None end else None
  | [6%Z] => Some OSize
  | [7%Z] => Some OScrub
  | [8%Z; flags] => if (0 <=? flags)%Z then Some (OReopen (Z.to_N flags)) else None
  | [9%Z; bit; pat] => if nonneg [bit; pat] then Some (OTamperXor (Z.to_N bit) (Z.to_N pat)) else None
  | [10%Z; n] => if (0 <=? n)%Z then Some (OTamperTrunc (Z.to_N n)) else None
  | [11%Z] => Some OCheck
  | _ => None
  end.

Definition encode_obs (o : op) (s' : ckstate) (x : res) : list Z :=
  let n := Z.of_N (r_n x) in
  let e := Z.of_N (r_err x) in
  match o with
  | OWriteAt _ _ => n :: e :: rle_enc (ck_raw s')
  | OReadAt _ _ _ => n :: e :: rle_enc (r_data x)
  | OSeek _ _ => [n; e; r_pos x]
  | ORead _ _ => n :: e :: r_pos x :: rle_enc (r_data x)
  | OWrite _ => n :: e :: r_pos x :: rle_enc (ck_raw s')
  | OSize | OScrub => [n; e]
  | OReopen _ => [0%Z]
  | OTamperXor _ _ | OTamperTrunc _ => rle_enc (ck_raw s')
  | OCheck => [777%Z; 1%Z]
  end.

(* The correspondence runner threads the checksummed file AND the plain file.  `dv` is the refinement verdict
   accumulated since the last OCheck: 1 = every result so far equalled the plain file's and the stored content
   equalled the plain content after every write; 3 = the first divergence was a zero-length write beyond the end
   of file (finding F19); 2 = any other divergence.  While the raw file is tampered with (rs_saved = the raw bytes
   before the first tamper op) nothing is compared; comparison resumes when tamper ops have restored exactly those
   bytes.  After a divergence is reported by OCheck the plain file is re-based on the checksummed file's content. *)
Record runstate := mkrun { rs_ck : ckstate; rs_pl : plstate; rs_dv : N; rs_saved : option (list byte) }.

Definition is_empty_write_beyond (c : list byte) (pos : Z) (o : op) : bool :=
  match o with
  | OWriteAt off [] => lenN c <? off
  | OWrite [] => lenN c <? Z.to_N pos
  | _ => false
  end.

Definition is_write (o : op) : bool :=
  match o with OWriteAt _ _ | OWrite _ => true | _ => false end.

Definition run_step (s : runstate) (o : op) : runstate * list Z :=
  let '(ck', x) := ck_step (rs_ck s) o in
  match o with
  | OCheck =>
      let dv := rs_dv s in
      let pl' := if (1 <? dv) then mkpl (abs (ck_raw ck')) (ck_pos ck') else rs_pl s in
      (mkrun ck' pl' 1 (rs_saved s), [777%Z; Z.of_N dv])
  | _ =>
      if is_tamper o then
        let r0 := match rs_saved s with Some r0 => r0 | None => ck_raw (rs_ck s) end in
        let saved' := if list_eqb (ck_raw ck') r0 then None else Some r0 in
        (mkrun ck' (mkpl (pl_data (rs_pl s)) (ck_pos ck')) (rs_dv s) saved', encode_obs o ck' x)
      else
        match rs_saved s with
        | Some _ => (mkrun ck' (mkpl (pl_data (rs_pl s)) (ck_pos ck')) (rs_dv s) (rs_saved s), encode_obs o ck' x)
        | None =>
            let '(pl', y) := pl_step (rs_pl s) o in
            let same := res_eqb x y &&
                        (if is_write o then list_eqb (abs (ck_raw ck')) (pl_data pl') else true) in
            let dv := rs_dv s in
            let dv' := if negb (dv =? 1) then dv
                       else if same then 1
                       else if is_empty_write_beyond (pl_data (rs_pl s)) (pl_pos (rs_pl s)) o then 3 else 2 in
            (mkrun ck' pl' dv' None, encode_obs o ck' x)
        end
  end.

(* Relational lines of the tractserver-level harness (TestVerifC08M): the raw bytes of a tract file as found on
   disk, plus what the tractserver's own entry points answered; the verdict compares that answer with the file
   model run on exactly those raw bytes.  Layouts (all integers >= 0; byte strings RLE):
     21 raw n e                 Manager.Scrub      -> (n, e) must be Scrub's (size 0 on error)        code 4
     22 off len cap raw n e d   Manager.Read       -> ReadAt(off,len,cap); n = 0 and no data on error code 5
     23 raw size e              Manager.Size       -> Size                                            code 6
     24 off len raw e d         Store.Read         -> ReadAt(off,len,len+ExtraRoom); EOF iff short    code 7
     25 raw size e              Store.Stat         -> Size                                            code 8 *)
Definition verdict_line (ok : bool) (code : Z) : list Z := [777%Z; if ok then 1%Z else code].

Definition size_like (raw : list byte) (size e : Z) : bool :=
  let '(s', e') := size_of raw in
  if e' =? E_OK then (Z.to_N e =? E_OK) && (Z.to_N size =? s')
  else (Z.to_N e =? e') && (Z.to_N size =? 0).

Definition rel_verdict (l : list Z) : option (list Z) :=
  if negb (nonneg l) then None else
  match l with
  | 21%Z :: rest =>
      match rle_dec rest with
      | Some (raw, [n; e]) =>
          let '(n', e') := scrub raw in
          Some (verdict_line (if e' =? E_OK then (Z.to_N e =? E_OK) && (Z.to_N n =? n')
                              else (Z.to_N e =? e') && (Z.to_N n =? 0)) 4)
      | _ => None
      end
  | 22%Z :: off :: len :: cap :: rest =>
      match rle_dec rest with
      | Some (raw, n :: e :: rest2) =>
          match rle_dec rest2 with
          | Some (data, []) =>
              let '(d, e') := read_at raw (Z.to_N off) (Z.to_N len) (Z.to_N cap) in
              Some (verdict_line
                      (if (e' =? E_OK) || (e' =? E_EOF)
                       then (Z.to_N e =? e') && (Z.to_N n =? lenN d) && list_eqb data d
                       else (Z.to_N e =? e') && (Z.to_N n =? 0) && list_eqb data []) 5)
          | _ => None
          end
      | _ => None
      end
  | 23%Z :: rest =>
      match rle_dec rest with
      | Some (raw, [size; e]) => Some (verdict_line (size_like raw size e) 6)
      | _ => None
      end
  | 24%Z :: off :: len :: rest =>
      match rle_dec rest with
      | Some (raw, e :: rest2) =>
          match rle_dec rest2 with
          | Some (data, []) =>
              let '(d, e') := read_at raw (Z.to_N off) (Z.to_N len) (Z.to_N len + c_ExtraRoom) in
              Some (verdict_line
                      (if (e' =? E_OK) || (e' =? E_EOF)
                       then (Z.to_N e =? (if lenN d =? Z.to_N len then E_OK else E_EOF)) && list_eqb data d
                       else (Z.to_N e =? e') && list_eqb data []) 7)
          | _ => None
          end
      | _ => None
      end
  | 25%Z :: rest =>
      match rle_dec rest with
      | Some (raw, [size; e]) => Some (verdict_line (size_like raw size e) 8)
      | _ => None
      end
  | _ => None
  end.

(* quota lines of the harness: `12 free` installs the space quota, `13` removes it *)
Definition quota_line (l : list Z) : option (option N) :=
  match l with
  | [12%Z; f] => if (0 <=? f)%Z then Some (Some (Z.to_N f)) else None
  | [13%Z] => Some None
  | _ => None
  end.

(* a write executed under the quota; afterwards the plain file is re-based on what the checksummed file holds
   (what must hold after a failed write is the subject of ckfile_enospc_prefix and of the harness monitor) *)
Definition run_write_q (s : runstate) (free : N) (o : op) : option (runstate * N * list Z) :=
  let r := ck_raw (rs_ck s) in
  let pos := ck_pos (rs_ck s) in
  match o with
  | OWriteAt off d =>
      let '(r', f', n, e) := write_at_q r free off d in
      let ck' := mkck r' pos in
      Some (mkrun ck' (mkpl (abs r') pos) (rs_dv s) (rs_saved s), f', encode_obs o ck' (mkres n e [] pos))
  | OWrite d =>
      let '(r', f', n, e) := write_at_q r free (Z.to_N pos) d in
      let p := (pos + Z.of_N n)%Z in
      let ck' := mkck r' p in
      Some (mkrun ck' (mkpl (abs r') p) (rs_dv s) (rs_saved s), f', encode_obs o ck' (mkres n e [] p))
  | _ => None
  end.

Fixpoint run_ops (s : runstate) (free : option N) (ops : list (list Z)) : list (list Z) :=
  match ops with
  | [] => []
  | l :: t =>
      match rel_verdict l with
      | Some out => out :: run_ops s free t
      | None =>
          match quota_line l with
          | Some q => [0%Z] :: run_ops s q t
          | None =>
              match decode_op l with
              | None => [(-1)%Z] :: run_ops s free t
              | Some o =>
                  match free with
                  | Some f =>
                      match run_write_q s f o with
                      | Some (s', f', out) => out :: run_ops s' (Some f') t
                      | None => let '(s', out) := run_step s o in out :: run_ops s' free t
                      end
                  | None => let '(s', out) := run_step s o in out :: run_ops s' free t
                  end
              end
          end
      end
  end.

Definition run_case (ops : list (list Z)) : list (list Z) :=
  run_ops (mkrun (mkck [] 0%Z) (mkpl [] 0%Z) 1 None) None ops.
