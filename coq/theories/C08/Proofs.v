(* C08/Proofs.v — lemmas about the ChecksumFile model. *)
From Coq Require Import List NArith ZArith Bool Lia ZifyN ZifyNat ZifyBool.
From BLB Require Import Lib.CRC Lib.CRCFast Gen.Consts C08.CRCTab C08.Model.
Import ListNotations.
Open Scope N_scope.

(* ---------- constants (facts re-checked against /repo's values on every run) ---------- *)
Lemma BL_val : BL = 65536. Proof. reflexivity. Qed.
Lemma CL_val : CL = 4. Proof. reflexivity. Qed.
Lemma DL_val : DL = 65532. Proof. reflexivity. Qed.
Lemma HL_val : HL = 0. Proof. reflexivity. Qed.
Lemma E_vals : E_OK = 0 /\ E_EOF = 1 /\ E_CORRUPT = 2. Proof. repeat split. Qed.
Global Opaque BL CL DL HL.

(* ---------- N-indexed list helpers agree with the standard ones ---------- *)
Lemma lenN_acc {A} (l : list A) : forall a, fold_left (fun a _ => N.succ a) l a = a + N.of_nat (length l).
Proof.
  induction l as [|x l IH]; intros a; cbn [fold_left length].
  - lia.
  - rewrite IH. lia.
Qed.

Lemma lenN_length {A} (l : list A) : lenN l = N.of_nat (length l).
Proof. unfold lenN. rewrite lenN_acc. lia. Qed.

Lemma lenN_nil {A} : lenN (@nil A) = 0. Proof. reflexivity. Qed.
Lemma lenN_cons {A} (x : A) l : lenN (x :: l) = N.succ (lenN l).
Proof. rewrite !lenN_length. cbn [length]. lia. Qed.
Lemma lenN_app {A} (a b : list A) : lenN (a ++ b) = lenN a + lenN b.
Proof. rewrite !lenN_length, app_length. lia. Qed.
Lemma lenN_0 {A} (l : list A) : lenN l = 0 -> l = [].
Proof. destruct l; [reflexivity|]. rewrite lenN_cons. lia. Qed.

Lemma take_firstn {A} (l : list A) : forall n, take n l = firstn (N.to_nat n) l.
Proof.
  induction l as [|x l IH]; intros n; cbn [take].
  - now rewrite firstn_nil.
  - destruct (N.eqb_spec n 0) as [->|Hn]; [reflexivity|].
    replace (N.to_nat n) with (S (N.to_nat (N.pred n))) by lia.
    cbn [firstn]. now rewrite IH.
Qed.

Lemma drop_skipn {A} (l : list A) : forall n, drop n l = skipn (N.to_nat n) l.
Proof.
  induction l as [|x l IH]; intros n; cbn [drop].
  - now rewrite skipn_nil.
  - destruct (N.eqb_spec n 0) as [->|Hn]; [reflexivity|].
    replace (N.to_nat n) with (S (N.to_nat (N.pred n))) by lia.
    cbn [skipn]. now rewrite IH.
Qed.

Lemma lenN_take {A} n (l : list A) : lenN (take n l) = N.min n (lenN l).
Proof. rewrite take_firstn, !lenN_length, firstn_length. lia. Qed.

Lemma lenN_drop {A} n (l : list A) : lenN (drop n l) = lenN l - n.
Proof. rewrite drop_skipn, !lenN_length, skipn_length. lia. Qed.

Lemma take_drop {A} n (l : list A) : take n l ++ drop n l = l.
Proof. rewrite take_firstn, drop_skipn. apply firstn_skipn. Qed.

Lemma take_all {A} n (l : list A) : lenN l <= n -> take n l = l.
Proof. intros H. rewrite take_firstn. apply firstn_all2. rewrite lenN_length in H. lia. Qed.

Lemma drop_all {A} n (l : list A) : lenN l <= n -> drop n l = [].
Proof. intros H. rewrite drop_skipn. apply skipn_all2. rewrite lenN_length in H. lia. Qed.

Lemma take_0 {A} (l : list A) : take 0 l = [].
Proof. destruct l; reflexivity. Qed.
Lemma drop_0 {A} (l : list A) : drop 0 l = l.
Proof. destruct l; reflexivity. Qed.

Lemma take_app_le {A} n (a b : list A) : n <= lenN a -> take n (a ++ b) = take n a.
Proof.
  intros H. rewrite !take_firstn, firstn_app. rewrite lenN_length in H.
  replace (N.to_nat n - length a)%nat with 0%nat by lia. cbn [firstn]. apply app_nil_r.
Qed.

Lemma take_app_ge {A} n (a b : list A) : lenN a <= n -> take n (a ++ b) = a ++ take (n - lenN a) b.
Proof.
  intros H. rewrite !take_firstn, firstn_app. rewrite lenN_length in *.
  rewrite firstn_all2 by lia. f_equal. f_equal. lia.
Qed.

Lemma drop_app_le {A} n (a b : list A) : n <= lenN a -> drop n (a ++ b) = drop n a ++ b.
Proof.
  intros H. rewrite !drop_skipn, skipn_app. rewrite lenN_length in H.
  replace (N.to_nat n - length a)%nat with 0%nat by lia. reflexivity.
Qed.

Lemma drop_app_ge {A} n (a b : list A) : lenN a <= n -> drop n (a ++ b) = drop (n - lenN a) b.
Proof.
  intros H. rewrite !drop_skipn, skipn_app. rewrite lenN_length in *.
  rewrite skipn_all2 by lia. cbn [app]. f_equal. lia.
Qed.

Lemma drop_drop {A} n m (l : list A) : drop n (drop m l) = drop (m + n) l.
Proof.
  revert m. induction l as [|x l IH]; intros m.
  - cbn [drop]. destruct n; reflexivity.
  - cbn [drop]. destruct (N.eqb_spec m 0) as [->|Hm].
    + reflexivity.
    + replace (m + n =? 0) with false by (symmetry; apply N.eqb_neq; lia).
      rewrite IH. f_equal. lia.
Qed.

Lemma take_take {A} n m (l : list A) : take n (take m l) = take (N.min n m) l.
Proof.
  rewrite !take_firstn, firstn_firstn. f_equal. lia.
Qed.

Lemma fill_repeat n v : fill n v = repeat v (N.to_nat n).
Proof.
  unfold fill. induction n using N.peano_ind.
  - reflexivity.
  - rewrite N.iter_succ, IHn. replace (N.to_nat (N.succ n)) with (S (N.to_nat n)) by lia. reflexivity.
Qed.

Lemma lenN_fill n v : lenN (fill n v) = n.
Proof. rewrite fill_repeat, lenN_length, repeat_length. lia. Qed.

Lemma lenN_zeros n : lenN (zeros n) = n.
Proof. apply lenN_fill. Qed.

(* ---------- readBlockInPlace agrees with readBlock ---------- *)
Lemma read_block_inplace_spec r k :
  match read_block r k with
  | (e, b) => if e =? E_OK then read_block_inplace r k = (E_OK, b_data b) /\ 0 < lenN (b_data b)
              else fst (read_block_inplace r k) = e
  end.
Proof.
  unfold read_block, read_block_inplace.
  set (chunk := raw_read r (HL + BL * k) BL).
  destruct (lenN chunk =? 0) eqn:H0; [reflexivity|].
  destruct (lenN chunk <=? CL) eqn:H1; [reflexivity|].
  destruct (of_le (drop (lenN chunk - CL) chunk) =? crc32c_m (take (lenN chunk - CL) chunk)) eqn:H2.
  - cbn [fst snd b_data]. change (E_OK =? E_OK) with true. cbn iota. split; [reflexivity|].
    rewrite lenN_take. lia.
  - reflexivity.
Qed.

(* The fast path (aligned start and spare capacity >= blockLength) returns exactly what the slow path returns:
   same bytes b[0..n), hence same count, and same error. Holds for EVERY raw file, sound or not. *)
Lemma read_loop_cap_irrelevant :
  forall fuel r off len cap acc, read_loop fuel r off len cap acc = read_loop fuel r off len 0 acc.
Proof.
  induction fuel as [|f IH]; intros r off len cap acc; [reflexivity|].
  cbn [read_loop].
  destruct (len =? 0); [reflexivity|].
  assert (Hslow : (off mod DL =? 0) && (BL <=? 0) = false).
  { rewrite BL_val. cbn. apply andb_false_r. }
  rewrite Hslow.
  destruct ((off mod DL =? 0) && (BL <=? cap)) eqn:Hfast.
  - apply andb_true_iff in Hfast. destruct Hfast as [Hst _]. apply N.eqb_eq in Hst.
    pose proof (read_block_inplace_spec r (off / DL)) as Hs.
    destruct (read_block r (off / DL)) as [e b].
    destruct (e =? E_OK) eqn:He.
    + destruct Hs as [Hs Hpos]. rewrite Hs. change (E_OK =? E_OK) with true. cbn iota.
      rewrite Hst.
      replace (lenN (b_data b) <=? 0) with false by (symmetry; apply N.leb_gt; exact Hpos).
      rewrite drop_0. rewrite IH. symmetry. rewrite IH. reflexivity.
    + destruct (read_block_inplace r (off / DL)) as [e' d']. cbn [fst] in Hs. subst e'.
      rewrite He. reflexivity.
  - destruct (read_block r (off / DL)) as [e b].
    destruct (e =? E_OK); [|reflexivity].
    destruct (lenN (b_data b) <=? off mod DL); [reflexivity|].
    rewrite IH. symmetry. rewrite IH. reflexivity.
Qed.

Lemma inplace_equiv_lemma :
  forall r off len cap, read_at r off len cap = read_at r off len 0.
Proof. intros. unfold read_at. apply read_loop_cap_irrelevant. Qed.

(* ---------- truncation leaving a fragment no longer than a checksum ---------- *)
Definition bad_fragment (r : list byte) : Prop :=
  1 <= (lenN r - HL) mod BL <= CL.

Lemma size_of_fragment r : bad_fragment r -> size_of r = (0, E_CORRUPT).
Proof.
  unfold bad_fragment, size_of. intros [H1 H2].
  destruct (lenN r =? 0) eqn:H0.
  - apply N.eqb_eq in H0. replace (lenN r - HL) with 0 in H1 by lia.
    rewrite N.mod_0_l in H1 by (rewrite BL_val; lia). lia.
  - destruct (lenN r <=? CL); [reflexivity|].
    destruct ((lenN r - HL) mod BL =? 0) eqn:H3; [apply N.eqb_eq in H3; lia|].
    replace ((lenN r - HL) mod BL <=? CL) with true by (symmetry; apply N.leb_le; lia).
    reflexivity.
Qed.

Lemma append_fragment r d : bad_fragment r -> append r d = (r, 0, E_CORRUPT).
Proof. intros H. unfold append. rewrite (size_of_fragment r H). reflexivity. Qed.

Lemma write_at_fragment r off d : bad_fragment r -> write_at r off d = (r, 0, E_CORRUPT).
Proof. intros H. unfold write_at. rewrite (size_of_fragment r H). reflexivity. Qed.

Lemma raw_read_frag r :
  bad_fragment r ->
  lenN (raw_read r (HL + BL * ((lenN r - HL) / BL)) BL) = (lenN r - HL) mod BL.
Proof.
  unfold bad_fragment, raw_read. intros [H1 H2].
  rewrite lenN_take, lenN_drop.
  pose proof (N.div_mod (lenN r - HL) BL) as Hdm.
  pose proof (N.mod_lt (lenN r - HL) BL) as Hlt.
  rewrite HL_val, BL_val, CL_val in *. lia.
Qed.

Lemma read_block_fragment r :
  bad_fragment r -> read_block r ((lenN r - HL) / BL) = (E_CORRUPT, blk0).
Proof.
  intros H. unfold read_block. rewrite (raw_read_frag r H).
  destruct H as [H1 H2].
  replace ((lenN r - HL) mod BL =? 0) with false by (symmetry; apply N.eqb_neq; lia).
  replace ((lenN r - HL) mod BL <=? CL) with true by (symmetry; apply N.leb_le; lia).
  reflexivity.
Qed.

Lemma read_block_inplace_fragment r :
  bad_fragment r -> read_block_inplace r ((lenN r - HL) / BL) = (E_CORRUPT, []).
Proof.
  intros H. unfold read_block_inplace. rewrite (raw_read_frag r H).
  destruct H as [H1 H2].
  replace ((lenN r - HL) mod BL =? 0) with false by (symmetry; apply N.eqb_neq; lia).
  replace ((lenN r - HL) mod BL <=? CL) with true by (symmetry; apply N.leb_le; lia).
  reflexivity.
Qed.

(* a read whose first byte lies in the fragment block fails with corruption and returns no bytes *)
Lemma read_at_fragment r off len cap :
  bad_fragment r -> 0 < len -> off / DL = (lenN r - HL) / BL ->
  read_at r off len cap = ([], E_CORRUPT).
Proof.
  intros H Hlen Hk. rewrite inplace_equiv_lemma. unfold read_at, read_fuel.
  replace (N.to_nat (len / DL) + 4)%nat with (S (N.to_nat (len / DL) + 3)) by lia.
  cbn [read_loop].
  replace (len =? 0) with false by (symmetry; apply N.eqb_neq; lia).
  replace ((off mod DL =? 0) && (BL <=? 0)) with false
    by (rewrite BL_val; cbn; symmetry; apply andb_false_r).
  rewrite Hk, (read_block_fragment r H). reflexivity.
Qed.

(* Scrub never gets past the fragment: every earlier block is a full 64 KiB chunk (sound or reported corrupt). *)
Lemma read_block_full_not_eof r k :
  HL + BL * k < lenN r -> fst (read_block r k) <> E_EOF.
Proof.
  intros H. unfold read_block.
  assert (Hn : 0 < lenN (raw_read r (HL + BL * k) BL)).
  { unfold raw_read. rewrite lenN_take, lenN_drop. rewrite BL_val in *. lia. }
  destruct (lenN (raw_read r (HL + BL * k) BL) =? 0) eqn:H0; [apply N.eqb_eq in H0; lia|].
  destruct (lenN (raw_read r (HL + BL * k) BL) <=? CL); [cbn [fst]; unfold E_CORRUPT, E_EOF; lia|].
  destruct (of_le _ =? _); cbn [fst]; unfold E_CORRUPT, E_EOF, E_OK; lia.
Qed.

Lemma read_block_codes r k :
  fst (read_block r k) = E_OK \/ fst (read_block r k) = E_EOF \/ fst (read_block r k) = E_CORRUPT.
Proof.
  unfold read_block.
  destruct (_ =? 0); [right; left; reflexivity|].
  destruct (_ <=? CL); [right; right; reflexivity|].
  destruct (of_le _ =? _); [left|right; right]; reflexivity.
Qed.

Lemma scrub_loop_fragment r :
  bad_fragment r ->
  forall fuel k bytes, (N.to_nat ((lenN r - HL) / BL - k) < fuel)%nat -> k <= (lenN r - HL) / BL ->
    snd (scrub_loop fuel r k bytes) = E_CORRUPT.
Proof.
  intros H. induction fuel as [|f IH]; intros k bytes Hf Hk; [lia|].
  cbn [scrub_loop].
  destruct (N.eq_dec k ((lenN r - HL) / BL)) as [->|Hne].
  - rewrite (read_block_fragment r H). reflexivity.
  - assert (Hlt : HL + BL * k < lenN r).
    { pose proof (N.div_mod (lenN r - HL) BL) as Hdm. destruct H as [H1 _].
      rewrite HL_val, BL_val in *. nia. }
    pose proof (read_block_full_not_eof r k Hlt) as Hne2.
    pose proof (read_block_codes r k) as Hc.
    destruct (read_block r k) as [e b]. cbn [fst] in Hne2, Hc.
    destruct Hc as [Hc|[Hc|Hc]]; subst e; [|contradiction|reflexivity].
    change (E_OK =? E_EOF) with false. change (E_OK =? E_OK) with true. cbn iota.
    apply IH; lia.
Qed.

Lemma scrub_fragment r : bad_fragment r -> snd (scrub r) = E_CORRUPT.
Proof.
  intros H. unfold scrub. apply scrub_loop_fragment; [exact H| |apply N.le_0_l].
  assert ((lenN r - HL) / BL <= lenN r / BL).
  { apply N.div_le_mono; [rewrite BL_val; lia|lia]. }
  revert H0. generalize ((lenN r - HL) / BL), (lenN r / BL). intros a b Hab. lia.
Qed.

(* ---------- statement vocabulary for the refinement theorems ---------- *)
Definition init_ck : ckstate := mkck [] 0%Z.
Definition init_pl : plstate := mkpl [] 0%Z.
Definition no_tamper (ops : list op) : Prop := forallb (fun o => negb (is_tamper o)) ops = true.

(* every result equals the plain file's and the stored content is the plain content *)
Definition refines_plain (ops : list op) : Prop :=
  snd (run_ck init_ck ops) = snd (run_plain init_pl ops) /\
  abs (ck_raw (fst (run_ck init_ck ops))) = pl_data (fst (run_plain init_pl ops)).

(* F19: a zero-length write beyond the end of file pads the checksummed file *)

Lemma truncation_lemma :
  forall r, bad_fragment r ->
    size_of r = (0, E_CORRUPT) /\
    (forall off d, write_at r off d = (r, 0, E_CORRUPT)) /\
    (forall d, append r d = (r, 0, E_CORRUPT)) /\
    (forall off len cap, 0 < len -> off / DL = (lenN r - HL) / BL -> read_at r off len cap = ([], E_CORRUPT)) /\
    snd (scrub r) = E_CORRUPT.
Proof.
  intros r H. repeat split.
  - apply size_of_fragment, H.
  - intros. apply write_at_fragment, H.
  - intros. apply append_fragment, H.
  - intros. apply read_at_fragment; assumption.
  - apply scrub_fragment, H.
Qed.

(* non-vacuity: a 2-byte file cut to 3 raw bytes is such a fragment *)
Example bad_fragment_inhabited : bad_fragment [7; 8; 9].
Proof. unfold bad_fragment. vm_compute. split; discriminate. Qed.

(* ====================================================================== *)
(* corruption by one burst of at most 32 bits inside one block            *)
(* ====================================================================== *)
From BLB Require Import Lib.CRCProofs.

Definition chunk_of (r : list byte) (k : N) : list byte := raw_read r (HL + BL * k) BL.

(* block k of r is a sound block: non-empty data followed by its little-endian CRC-32C *)
Definition sound_block (r : list byte) (k : N) : Prop :=
  exists data, data <> [] /\ chunk_of r k = data ++ le32 (crc32c data).

(* r' is r with the stored bytes of block k hit by one burst of <= 32 bits (anywhere in data ++ checksum);
   all other blocks are untouched *)
Definition burst_in_block (r r' : list byte) (k : N) : Prop :=
  (forall j, j <> k -> chunk_of r' j = chunk_of r j) /\
  burst_error (bits_of (chunk_of r k)) (bits_of (chunk_of r' k)) /\
  Forall (fun x => x < 256) (chunk_of r' k).

Lemma Forall_drop {A} (P : A -> Prop) (l : list A) : forall n, Forall P l -> Forall P (drop n l).
Proof.
  induction l as [|x l IH]; intros n H; cbn [drop]; [constructor|].
  destruct (n =? 0); [exact H|]. apply IH. now inversion H.
Qed.

Lemma burst_block_check r r' k :
  sound_block r k -> burst_in_block r r' k ->
  let c' := chunk_of r' k in
  CL < lenN c' /\ (of_le (drop (lenN c' - CL) c') =? crc32c_m (take (lenN c' - CL) c')) = false.
Proof.
  intros (data & Hne & Hc) (_ & Hb & HF). cbn zeta.
  set (c' := chunk_of r' k) in *.
  assert (Hlen : lenN c' = lenN data + 4).
  { destruct Hb as (e & _ & Hle & Hx).
    assert (Hl : length (bits_of c') = length (bits_of (chunk_of r k))).
    { rewrite Hx. apply xorl_length. symmetry. exact Hle. }
    rewrite !bits_of_length, Hc, app_length in Hl. cbn [le32 length] in Hl.
    rewrite !lenN_length. lia. }
  assert (Hd : 0 < lenN data).
  { destruct data; [contradiction|]. rewrite lenN_cons. lia. }
  rewrite CL_val. split; [lia|].
  replace (lenN c' - 4) with (lenN data) by lia.
  rewrite crc32c_m_correct. apply N.eqb_neq. intros Heq.
  refine (crc_detects_burst_raw data (take (lenN data) c') (drop (lenN data) c') _ _ _ (eq_sym Heq)).
  - apply Nat2N.inj. rewrite <- lenN_length, lenN_drop. lia.
  - apply Forall_drop, HF.
  - rewrite take_drop. rewrite <- Hc. exact Hb.
Qed.

Lemma read_block_burst r r' k :
  sound_block r k -> burst_in_block r r' k ->
  fst (read_block r' k) = E_CORRUPT /\ read_block_inplace r' k = (E_CORRUPT, []).
Proof.
  intros Hs Hb. pose proof (burst_block_check r r' k Hs Hb) as [Hl Hc]. cbn zeta in *.
  unfold read_block, read_block_inplace. fold (chunk_of r' k).
  replace (lenN (chunk_of r' k) =? 0) with false by (symmetry; apply N.eqb_neq; lia).
  replace (lenN (chunk_of r' k) <=? CL) with false by (symmetry; apply N.leb_gt; lia).
  rewrite Hc. split; reflexivity.
Qed.

(* a read whose first byte lies in the altered block fails with corruption and returns no bytes *)
Lemma read_at_burst_first r r' k off len cap :
  sound_block r k -> burst_in_block r r' k -> 0 < len -> off / DL = k ->
  read_at r' off len cap = ([], E_CORRUPT).
Proof.
  intros Hs Hb Hlen Hk. rewrite inplace_equiv_lemma. unfold read_at, read_fuel.
  replace (N.to_nat (len / DL) + 4)%nat with (S (N.to_nat (len / DL) + 3)) by lia.
  cbn [read_loop].
  replace (len =? 0) with false by (symmetry; apply N.eqb_neq; lia).
  replace ((off mod DL =? 0) && (BL <=? 0)) with false
    by (rewrite BL_val; cbn; symmetry; apply andb_false_r).
  rewrite Hk. destruct (read_block_burst r r' k Hs Hb) as [H1 _].
  destruct (read_block r' k) as [e b]. cbn [fst] in H1. subst e. reflexivity.
Qed.

(* frame: ReadAt depends on the raw file only through the blocks it touches *)
Definition touches (k off len : N) : Prop := 0 < len /\ off / DL <= k <= (off + len - 1) / DL.

Lemma read_block_chunk r r' k : chunk_of r' k = chunk_of r k -> read_block r' k = read_block r k.
Proof. unfold read_block, chunk_of. intros ->. reflexivity. Qed.

Lemma read_loop_frame r r' k :
  (forall j, j <> k -> chunk_of r' j = chunk_of r j) ->
  forall fuel off len acc, ~ touches k off len ->
    read_loop fuel r' off len 0 acc = read_loop fuel r off len 0 acc.
Proof.
  intros Hsame. induction fuel as [|f IH]; intros off len acc Hnt; [reflexivity|].
  cbn [read_loop].
  destruct (N.eqb_spec len 0) as [|Hl]; [reflexivity|].
  replace ((off mod DL =? 0) && (BL <=? 0)) with false
    by (rewrite BL_val; cbn; symmetry; apply andb_false_r).
  assert (Hk : off / DL <> k).
  { intros <-. apply Hnt. split; [lia|]. split; [lia|].
    apply N.div_le_mono; [rewrite DL_val; lia|lia]. }
  rewrite (read_block_chunk r r' (off / DL) (Hsame _ Hk)).
  destruct (read_block r (off / DL)) as [e b].
  destruct (e =? E_OK); [|reflexivity].
  destruct (lenN (b_data b) <=? off mod DL) eqn:Hle; [reflexivity|].
  apply IH.
  (* the remaining range is inside the old one *)
  set (nb := lenN (take len (drop (off mod DL) (b_data b)))).
  assert (Hnb : nb <= len) by (unfold nb; rewrite lenN_take; lia).
  assert (Hnb0 : 0 < nb).
  { unfold nb. rewrite lenN_take, lenN_drop. apply N.leb_gt in Hle. lia. }
  intros [Hl' [H1 H2]]. apply Hnt. split; [lia|]. split.
  - etransitivity; [|exact H1]. apply N.div_le_mono; [rewrite DL_val; lia|lia].
  - etransitivity; [exact H2|]. apply N.div_le_mono; [rewrite DL_val; lia|lia].
Qed.

Lemma read_at_frame r r' k off len cap :
  (forall j, j <> k -> chunk_of r' j = chunk_of r j) -> ~ touches k off len ->
  read_at r' off len cap = read_at r off len cap.
Proof.
  intros Hs Hnt. rewrite (inplace_equiv_lemma r'), (inplace_equiv_lemma r).
  unfold read_at. apply read_loop_frame with (k := k); assumption.
Qed.

(* Scrub: if every block before k still verifies, Scrub stops at k with corruption *)
Lemma scrub_loop_burst r' k :
  fst (read_block r' k) = E_CORRUPT ->
  (forall j, j < k -> fst (read_block r' j) = E_OK) ->
  forall fuel j bytes, (N.to_nat (k - j) < fuel)%nat -> j <= k ->
    snd (scrub_loop fuel r' j bytes) = E_CORRUPT.
Proof.
  intros Hk Hbefore. induction fuel as [|f IH]; intros j bytes Hf Hj; [lia|].
  cbn [scrub_loop].
  destruct (N.eq_dec j k) as [->|Hne].
  - destruct (read_block r' k) as [e b]. cbn [fst] in Hk. subst e. reflexivity.
  - assert (Hjk : j < k) by lia. specialize (Hbefore j Hjk).
    destruct (read_block r' j) as [e b]. cbn [fst] in Hbefore. subst e.
    change (E_OK =? E_EOF) with false. change (E_OK =? E_OK) with true. cbn iota.
    apply IH; lia.
Qed.

Lemma chunk_nonempty_bound r k : 0 < lenN (chunk_of r k) -> k <= lenN r / BL.
Proof.
  unfold chunk_of, raw_read. rewrite lenN_take, lenN_drop. intros H.
  assert (Hlt : BL * k < lenN r) by (rewrite HL_val, BL_val in *; lia).
  apply N.div_le_lower_bound; [rewrite BL_val; lia|lia].
Qed.

Lemma detects_burst_lemma :
  forall r r' k, sound_block r k -> burst_in_block r r' k ->
    (* reads that start in the altered block: corruption, no bytes *)
    (forall off len cap, 0 < len -> off / DL = k -> read_at r' off len cap = ([], E_CORRUPT)) /\
    (* the block itself never verifies, on either path *)
    fst (read_block r' k) = E_CORRUPT /\ read_block_inplace r' k = (E_CORRUPT, []) /\
    (* reads that do not touch it are unaffected *)
    (forall off len cap, ~ touches k off len -> read_at r' off len cap = read_at r off len cap) /\
    (* Scrub reports corruption (the blocks before k are untouched, so they verify iff they did) *)
    ((forall j, j < k -> fst (read_block r j) = E_OK) -> snd (scrub r') = E_CORRUPT).
Proof.
  intros r r' k Hs Hb.
  destruct (read_block_burst r r' k Hs Hb) as [H1 H2].
  repeat split.
  - intros. eapply read_at_burst_first; eassumption.
  - exact H1.
  - exact H2.
  - intros. apply read_at_frame with (k := k); [apply Hb|assumption].
  - intros Hbefore. unfold scrub. apply scrub_loop_burst with (k := k).
    + exact H1.
    + intros j Hj. rewrite (read_block_chunk r r' j); [apply Hbefore, Hj|]. apply Hb. lia.
    + pose proof (burst_block_check r r' k Hs Hb) as [Hl _]. cbn zeta in Hl.
      assert (k <= lenN r' / BL) by (apply chunk_nonempty_bound; rewrite CL_val in Hl; lia).
      revert H. generalize (lenN r' / BL). intros q Hq. lia.
    + apply N.le_0_l.
Qed.

(* non-vacuity of the burst hypotheses: a 3-byte file with bit 1 of byte 1 flipped by the model's own tamper op *)
Definition ex_r : list byte := [1; 2; 3] ++ le32 (crc32c [1; 2; 3]).
Definition ex_r' : list byte := tamper_xor ex_r 9 1.

Example burst_hyps_inhabited : sound_block ex_r 0 /\ burst_in_block ex_r ex_r' 0.
Proof.
  split; [|split; [|split]].
  - exists [1; 2; 3]. split; [discriminate|]. vm_compute. reflexivity.
  - intros j Hj. unfold chunk_of, raw_read.
    assert (Hl : lenN ex_r = 7) by (vm_compute; reflexivity).
    assert (Hl' : lenN ex_r' = 7) by (vm_compute; reflexivity).
    rewrite !drop_all; [reflexivity| |]; rewrite ?Hl, ?Hl', HL_val, BL_val; lia.
  - exists (repeat false 9 ++ [true] ++ repeat false 46). split; [|split].
    + exists 9%nat, [true], 46%nat. repeat split. cbn. lia.
    + vm_compute. reflexivity.
    + vm_compute. reflexivity.
  - vm_compute. repeat constructor.
Qed.
