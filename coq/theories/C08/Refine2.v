(* C08/Refine2.v — sound raw files are exactly the encodings of their content (Inv_raw r -> Rep r (abs r));
   blocks_data is a segment of abs r; the burst theorem restated over the logical content. *)
From Coq Require Import List NArith ZArith Bool Lia ZifyN ZifyNat ZifyBool.
From BLB Require Import Lib.CRC Lib.CRCFast Lib.CRCProofs Gen.Consts C08.CRCTab C08.Model C08.Proofs C08.Proofs2 C08.Refine.
Import ListNotations.
Open Scope N_scope.

Lemma Rep_single d : 0 < lenN d -> lenN d <= DL -> Rep (enc d) d.
Proof.
  intros Hp Hl. split.
  - rewrite lenN_enc. destruct (N.eq_dec (lenN d) DL) as [He|He].
    + replace (lenN d) with (DL * 1 + 0) at 2 by lia. rewrite rawlen_qm by arith. cbn. arith.
    + replace (lenN d) with (DL * 0 + lenN d) at 2 by lia. rewrite rawlen_qm by lia.
      replace (lenN d =? 0) with false by (symmetry; apply N.eqb_neq; lia). arith.
  - intros k Hk. assert (k = 0) by nia. subst k.
    unfold chunk_of, raw_read. replace (HL + BL * 0) with 0 by arith. rewrite drop_0.
    rewrite take_all by (rewrite lenN_enc; arith). f_equal.
    unfold blk_of. rewrite N.mul_0_r, drop_0. symmetry. apply take_all. exact Hl.
Qed.

Lemma Rep_cons d r' c' : lenN d = DL -> Rep r' c' -> Rep (enc d ++ r') (d ++ c').
Proof.
  intros Hd [Hl Hch]. split.
  - rewrite !lenN_app, lenN_enc, Hl, Hd.
    destruct (qm_of (lenN c')) as (q & m & Hc & Hm). rewrite Hc.
    replace (DL + (DL * q + m)) with (DL * (q + 1) + m) by lia.
    rewrite !rawlen_qm by exact Hm. arith.
  - intros k Hk. rewrite lenN_app in Hk. unfold chunk_of, raw_read.
    destruct (N.eq_dec k 0) as [->|Hk0].
    + replace (HL + BL * 0) with 0 by arith. rewrite drop_0.
      rewrite take_app_le by (rewrite lenN_enc; arith).
      rewrite take_all by (rewrite lenN_enc; arith). f_equal.
      unfold blk_of. rewrite N.mul_0_r, drop_0. rewrite take_app_le by lia. symmetry. apply take_all. lia.
    + set (j := k - 1). assert (Hkj : k = j + 1) by lia.
      rewrite drop_app_ge by (rewrite lenN_enc; consts; nia).
      rewrite lenN_enc. replace (HL + BL * k - (lenN d + 4)) with (HL + BL * j) by (consts; nia).
      fold (raw_read r' (HL + BL * j) BL). fold (chunk_of r' j). rewrite Hch by nia.
      f_equal. unfold blk_of. rewrite drop_app_ge by nia. f_equal. f_equal. nia.
Qed.

Lemma chunk_of_drop r j : chunk_of (drop BL r) j = chunk_of r (j + 1).
Proof.
  unfold chunk_of, raw_read. rewrite drop_drop. f_equal. f_equal. arith.
Qed.

Lemma Inv_raw_drop r : Inv_raw r -> Inv_raw (drop BL r).
Proof.
  intros H j Hj. rewrite lenN_drop in Hj. unfold sound_block. rewrite chunk_of_drop.
  apply H. consts. lia.
Qed.

Lemma Inv_raw_exists_rep : forall n r, lenN r <= N.of_nat n * BL -> Inv_raw r -> exists c, Rep r c.
Proof.
  induction n as [|n IH]; intros r Hn Hinv.
  - assert (r = []) by (apply lenN_0; lia). subst r. exists []. apply Rep_nil.
  - destruct (N.eq_dec (lenN r) 0) as [H0|H0].
    { apply lenN_0 in H0. subst r. exists []. apply Rep_nil. }
    destruct (Hinv 0) as (d & Hne & Hc); [arith|].
    unfold chunk_of, raw_read in Hc. replace (HL + BL * 0) with 0 in Hc by arith. rewrite drop_0 in Hc.
    assert (Hdp : 0 < lenN d) by (apply lenN_pos_ne, Hne).
    assert (Hlen : lenN (take BL r) = lenN d + 4) by (rewrite Hc; apply lenN_enc).
    rewrite lenN_take in Hlen.
    destruct (N.le_gt_cases (lenN r) BL) as [Hsmall|Hbig].
    + exists d. rewrite take_all in Hc by lia. rewrite Hc. apply Rep_single; [exact Hdp|arith].
    + destruct (IH (drop BL r)) as (c' & HR').
      * rewrite lenN_drop. lia.
      * apply Inv_raw_drop, Hinv.
      * exists (d ++ c'). rewrite <- (take_drop BL r), Hc. apply Rep_cons; [arith|exact HR'].
Qed.

Lemma Inv_raw_rep_abs r : Inv_raw r -> Rep r (abs r).
Proof.
  intros H. destruct (Inv_raw_exists_rep (N.to_nat (lenN r)) r) as (c & HR); [|exact H|].
  - pose proof BL_val. nia.
  - rewrite (abs_rep r c HR). exact HR.
Qed.

(* blocks_data of a sound file is a segment of its logical content *)
Lemma abs_blocks_data_rep r c : Rep r c ->
  forall cnt j, DL * (j + N.of_nat cnt) <= lenN c ->
    blocks_data r j cnt = take (N.of_nat cnt * DL) (drop (DL * j) c).
Proof.
  intros HR. induction cnt as [|n IH]; intros j Hj.
  - cbn [blocks_data]. now rewrite take_0.
  - cbn [blocks_data]. rewrite (read_block_rep r c j HR).
    replace (DL * j <? lenN c) with true by (symmetry; apply N.ltb_lt; arith).
    cbn [snd b_data]. rewrite IH by lia.
    replace (N.of_nat (S n) * DL) with (DL + N.of_nat n * DL) by lia.
    rewrite take_split. unfold blk_of. f_equal. rewrite drop_drop. f_equal. f_equal. lia.
Qed.

Lemma abs_blocks_data r : Inv_raw r ->
  forall cnt j, DL * (j + N.of_nat cnt) <= lenN (abs r) ->
    blocks_data r j cnt = take (N.of_nat cnt * DL) (drop (DL * j) (abs r)).
Proof. intros H. apply abs_blocks_data_rep, Inv_raw_rep_abs, H. Qed.

(* the burst theorem over the logical content *)
Lemma detects_burst_abs_lemma :
  forall r r' k,
    Inv_raw r -> HL + BL * k < lenN r -> burst_in_block r r' k ->
    (forall off len cap, touches k off len ->
        read_at r' off len cap = (take (k * DL - off) (drop off (abs r)), E_CORRUPT) /\
        lenN (fst (read_at r' off len cap)) = k * DL - off) /\
    (forall off len cap, ~ touches k off len -> read_at r' off len cap = read_at r off len cap) /\
    snd (scrub r') = E_CORRUPT.
Proof.
  intros r r' k Hinv Hk Hb.
  destruct (detects_burst_inv_lemma r r' k Hinv Hk Hb) as (Hread & Hframe & Hscrub).
  split; [|split; assumption].
  intros off len cap Ht. destruct (Hread off len cap Ht) as [He Hn]. split; [|exact Hn]. rewrite He. f_equal.
  pose proof (Inv_raw_rep_abs r Hinv) as HR.
  pose proof (proj2 (rep_len_block r (abs r) k HR) Hk) as Hkc.
  destruct Ht as [Hlen [H1 H2]]. destruct (div_mod_DL off) as [Hdm Hlt].
  rewrite (abs_blocks_data_rep r (abs r) HR) by (rewrite N2Nat.id; nia).
  rewrite N2Nat.id, drop_take, drop_drop. f_equal; [nia|]. f_equal. lia.
Qed.
