(* C08/Tamper2.v — tamper_xor_is_burst in full generality: any non-zero pattern of at most 32 bits whose set bits lie
   inside the stored bytes of one block, including bursts that start in the last four stored bytes. *)
From Coq Require Import List NArith ZArith Bool Lia ZifyN ZifyNat ZifyBool.
From BLB Require Import Lib.CRC Lib.CRCFast Lib.CRCProofs Gen.Consts C08.CRCTab C08.Model C08.Proofs C08.Proofs2 C08.Refine C08.Refine2 C08.Tamper.
Import ListNotations.
Open Scope N_scope.

Lemma xor_bytes_zero : forall n l, xor_bytes l 0 n = l.
Proof.
  induction n as [|n IH]; intros l; [destruct l; reflexivity|].
  destruct l as [|x l]; [reflexivity|]. cbn [xor_bytes].
  change (N.land 0 255) with 0. rewrite N.lxor_0_r. change (N.shiftr 0 8) with 0. now rewrite IH.
Qed.

Lemma xor_bytes_app_gen : forall a W Z v b, length W = a ->
  xor_bytes (W ++ Z) v (a + b) = xor_bytes W v a ++ xor_bytes Z (N.shiftr v (8 * N.of_nat a)) b.
Proof.
  induction a as [|a IH]; intros W Z v b H.
  - destruct W; [|discriminate]. cbn [app plus xor_bytes]. rewrite N.shiftr_0_r.
    destruct b; destruct Z; reflexivity.
  - destruct W as [|x W]; [discriminate|]. cbn [app plus xor_bytes]. f_equal.
    rewrite IH by (cbn in H; lia). f_equal. f_equal. rewrite N.shiftr_shiftr. f_equal. lia.
Qed.

Lemma shifted_bits_gen pat s n :
  (s <= n)%nat ->
  map (tb (N.shiftl pat (N.of_nat s))) (seq 0 n) = repeat false s ++ map (tb pat) (seq 0 (n - s)).
Proof.
  intros Hs. replace n with (s + (n - s))%nat at 1 by lia.
  rewrite seq_app, map_app. cbn [plus]. f_equal.
  - rewrite map_all_false; [now rewrite seq_length|].
    intros i Hi. apply in_seq in Hi. unfold tb. apply N.shiftl_spec_low. lia.
  - change (seq s (n - s)) with (seq (0 + s) (n - s)). rewrite (seq_add s (n - s) 0), map_map.
    apply map_ext. intros i. unfold tb.
    replace (N.of_nat (i + s)) with (N.of_nat i + N.of_nat s) by lia. apply N.shiftl_spec_alt.
Qed.

Lemma high_bits_zero pat t m :
  pat < 2 ^ N.of_nat t -> (t <= m)%nat ->
  map (tb pat) (seq 0 m) = map (tb pat) (seq 0 t) ++ repeat false (m - t).
Proof.
  intros Hp Ht. replace m with (t + (m - t))%nat at 1 by lia.
  rewrite seq_app, map_app. cbn [plus]. f_equal.
  rewrite map_all_false; [now rewrite seq_length|].
  intros i Hi. apply in_seq in Hi. unfold tb. apply (proj1 (lt_pow2_bits pat (N.of_nat t)) Hp). lia.
Qed.

Lemma pat_bits_nonzero_gen pat t :
  0 < pat -> pat < 2 ^ N.of_nat t -> existsb id (map (tb pat) (seq 0 t)) = true.
Proof.
  intros H0 Hp. destruct (existsb id (map (tb pat) (seq 0 t))) eqn:He; [reflexivity|exfalso].
  assert (Hall : forall i, (i < t)%nat -> tb pat i = false).
  { intros i Hi. rewrite <- not_true_iff_false in He. destruct (tb pat i) eqn:Hb; [|reflexivity].
    exfalso. apply He. apply existsb_exists. exists true. split; [|reflexivity].
    apply in_map_iff. exists i. split; [exact Hb|]. apply in_seq. lia. }
  assert (pat = 0).
  { apply N.bits_inj_0. intros n. destruct (N.lt_ge_cases n (N.of_nat t)) as [Hn|Hn].
    - specialize (Hall (N.to_nat n) ltac:(lia)). unfold tb in Hall. now rewrite N2Nat.id in Hall.
    - apply (proj1 (lt_pow2_bits pat (N.of_nat t)) Hp). exact Hn. }
  lia.
Qed.

(* general form: a window of w <= 5 bytes inside block k that contains every byte the shifted pattern changes *)
Lemma tamper_xor_is_burst_window r bit pat k w :
  Forall (fun x => x < 256) r -> 0 < pat -> pat < 2 ^ 32 ->
  (1 <= w <= 5)%nat ->
  N.shiftl pat (bit mod 8) < 2 ^ (8 * N.of_nat w) ->
  BL * k <= bit / 8 -> bit / 8 + N.of_nat w <= BL * k + lenN (chunk_of r k) ->
  burst_in_block r (tamper_xor r bit pat) k.
Proof.
  intros HF Hp0 Hp Hw Hv Hlo Hhi.
  set (bo := bit / 8) in *.
  assert (Hs : bit mod 8 < 8) by (apply N.mod_lt; lia).
  set (s := N.to_nat (bit mod 8)).
  set (v := N.shiftl pat (bit mod 8)) in *.
  set (wN := N.of_nat w) in *.
  assert (Hcl : lenN (chunk_of r k) = N.min BL (lenN r - (HL + BL * k))).
  { unfold chunk_of, raw_read. now rewrite lenN_take, lenN_drop. }
  assert (Hr5 : bo + wN <= lenN r) by arith.
  assert (Hb5 : bo + wN <= BL * k + BL) by lia.
  set (A := take bo r). set (W := take wN (drop bo r)). set (Z := drop (bo + wN) r).
  assert (HA : lenN A = bo) by (unfold A; rewrite lenN_take; lia).
  assert (HW : lenN W = wN) by (unfold W; rewrite lenN_take, lenN_drop; lia).
  assert (HWn : length W = w) by (rewrite lenN_length in HW; lia).
  assert (Hr : r = A ++ W ++ Z).
  { unfold A, W, Z. rewrite <- drop_drop. rewrite take_drop, take_drop. reflexivity. }
  set (W' := xor_bytes W v w).
  assert (Ht : tamper_xor r bit pat = A ++ W' ++ Z).
  { unfold tamper_xor. cbv zeta. fold bo. fold v. fold A. f_equal.
    assert (Hd : @drop byte bo r = W ++ Z) by (unfold W, Z; rewrite <- drop_drop; symmetry; apply take_drop).
    rewrite Hd. unfold W'. replace 5%nat with (w + (5 - w))%nat by lia.
    rewrite xor_bytes_app_gen by exact HWn. f_equal.
    assert (Hz : N.shiftr v (8 * N.of_nat w) = 0).
    { destruct (N.eq_dec v 0) as [Hv0|Hnz].
      - rewrite Hv0. apply N.shiftr_0_l.
      - apply N.shiftr_eq_0, N.log2_lt_pow2; [lia|exact Hv]. }
    rewrite Hz. apply xor_bytes_zero. }
  assert (HW'n : length W' = w) by (unfold W'; rewrite xor_bytes_len; exact HWn).
  assert (HW' : lenN W' = wN) by (rewrite lenN_length; lia).
  (* bits of the shifted pattern inside the window *)
  assert (Hps : pat < 2 ^ N.of_nat (8 * w - s)).
  { assert (Hsw : (s <= 8 * w)%nat) by (unfold s; lia).
    unfold v, wN in Hv. rewrite N.shiftl_mul_pow2 in Hv.
    replace (8 * N.of_nat w) with (N.of_nat (8 * w - s) + bit mod 8) in Hv by (unfold s in *; lia).
    rewrite N.pow_add_r in Hv. apply N.mul_lt_mono_pos_r in Hv; [exact Hv|]. apply N.neq_0_lt_0, N.pow_nonzero. lia. }
  set (t := Nat.min 32 (8 * w - s)).
  assert (Hpt : pat < 2 ^ N.of_nat t).
  { unfold t. destruct (Nat.min_spec 32 (8 * w - s)) as [[_ ->]|[_ ->]]; assumption. }
  rewrite Ht. split; [|split].
  - intros j Hj. rewrite Hr at 1. apply (window_other A W' W Z k j); unfold byte in *; try assumption; lia.
  - rewrite Hr at 1. rewrite !window_chunk by (unfold byte in *; lia). unfold byte in *. rewrite HW'. rewrite HW.
    set (P := drop (BL * k) A). set (S0 := take (BL - (lenN A - BL * k) - wN) Z).
    rewrite !bits_of_app.
    exists (repeat false (length (bits_of P)) ++ vbits v w ++ repeat false (length (bits_of S0))).
    split; [|split].
    + rewrite vbits_testbit. unfold v. replace (bit mod 8) with (N.of_nat s) by (unfold s; lia).
      rewrite (shifted_bits_gen pat s (8 * w)) by (unfold s; lia).
      rewrite (high_bits_zero pat t (8 * w - s) Hpt) by (unfold t; lia).
      exists (length (bits_of P) + s)%nat, (map (tb pat) (seq 0 t)), (8 * w - s - t + length (bits_of S0))%nat.
      split; [rewrite map_length, seq_length; unfold t; lia|]. split; [apply pat_bits_nonzero_gen; assumption|].
      rewrite !repeat_app, <- !app_assoc. reflexivity.
    + rewrite !app_length, !repeat_length, vbits_length, !bits_of_length. unfold byte in *. lia.
    + rewrite xorl_app by (now rewrite repeat_length). rewrite xorl_false_r. f_equal.
      rewrite xorl_app by (rewrite vbits_length, bits_of_length; unfold byte in *; lia). rewrite xorl_false_r. f_equal.
      unfold W'. apply xor_bytes_bits. exact HWn.
  - unfold chunk_of, raw_read. apply Forall_take, Forall_drop.
    rewrite Hr in HF. apply Forall_app in HF. destruct HF as [HFA HF]. apply Forall_app in HF. destruct HF as [HFW HFZ].
    apply Forall_app. split; [exact HFA|]. apply Forall_app. split; [|exact HFZ].
    unfold W'. apply xor_bytes_lt. exact HFW.
Qed.

(* the hypothesis-light form: every set bit of the pattern lands inside the stored bytes of block k *)
Lemma tamper_xor_is_burst_full r bit pat k :
  Forall (fun x => x < 256) r -> 0 < pat -> pat < 2 ^ 32 ->
  BL * k <= bit / 8 -> bit + N.size pat <= 8 * (BL * k + lenN (chunk_of r k)) ->
  burst_in_block r (tamper_xor r bit pat) k.
Proof.
  intros HF Hp0 Hp Hlo Hhi.
  assert (Hsz : N.size pat = N.succ (N.log2 pat)) by (apply N.size_log2; lia).
  assert (Hlg : N.log2 pat < 32) by (apply N.log2_lt_pow2; assumption).
  assert (Hsz32 : N.size pat <= 32) by lia.
  assert (Hsz1 : 1 <= N.size pat) by lia.
  pose proof (N.div_mod bit 8 ltac:(lia)) as Hdm.
  assert (Hs : bit mod 8 < 8) by (apply N.mod_lt; lia).
  set (fin := BL * k + lenN (chunk_of r k)) in *.
  assert (Hav : bit / 8 < fin) by lia.
  set (w := Nat.min 5 (N.to_nat (fin - bit / 8))).
  apply (tamper_xor_is_burst_window r bit pat k w); try assumption.
  - unfold w. lia.
  - rewrite N.shiftl_mul_pow2.
    apply N.lt_le_trans with (2 ^ N.size pat * 2 ^ (bit mod 8)).
    + apply N.mul_lt_mono_pos_r; [apply N.neq_0_lt_0, N.pow_nonzero; lia|apply N.size_gt].
    + rewrite <- N.pow_add_r. apply N.pow_le_mono_r; [lia|].
      unfold w. destruct (Nat.min_spec 5 (N.to_nat (fin - bit / 8))) as [[_ ->]|[_ ->]]; lia.
  - fold fin. unfold w. lia.
Qed.

(* a burst confined to the LAST stored byte of the example file (bit 55 of its 7 raw bytes) *)
Example tamper_xor_last_byte : burst_in_block ex_r (tamper_xor ex_r 55 1) 0.
Proof.
  apply tamper_xor_is_burst_full.
  - vm_compute. repeat constructor.
  - lia.
  - reflexivity.
  - vm_compute. discriminate.
  - vm_compute. discriminate.
Qed.

Lemma tamper_xor_detected_full_lemma :
  forall r bit pat k,
    Inv_raw r -> Forall (fun x => x < 256) r -> 0 < pat -> pat < 2 ^ 32 ->
    BL * k <= bit / 8 -> bit + N.size pat <= 8 * (BL * k + lenN (chunk_of r k)) ->
    let r' := tamper_xor r bit pat in
    (forall off len cap, touches k off len ->
        read_at r' off len cap = (take (k * DL - off) (drop off (abs r)), E_CORRUPT)) /\
    (forall off len cap, ~ touches k off len -> read_at r' off len cap = read_at r off len cap) /\
    snd (scrub r') = E_CORRUPT.
Proof.
  intros r bit pat k Hinv HF Hp0 Hp Hlo Hhi r'.
  pose proof (tamper_xor_is_burst_full r bit pat k HF Hp0 Hp Hlo Hhi) as Hb.
  assert (Hk : HL + BL * k < lenN r).
  { apply chunk_exists_len. assert (1 <= N.size pat) by (rewrite N.size_log2 by lia; lia).
    pose proof (N.mul_div_le bit 8 ltac:(lia)). lia. }
  destruct (detects_burst_abs_lemma r r' k Hinv Hk Hb) as (H1 & H2 & H3).
  split; [|split; assumption]. intros off len cap Ht. apply (H1 off len cap Ht).
Qed.
