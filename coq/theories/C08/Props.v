(* C08/Props.v — property-level theorems only (statements + `exact`), each followed by Print Assumptions. *)
From Coq Require Import List NArith ZArith.
From BLB Require Import Lib.CRC C08.CRCTab C08.Model.
Import ListNotations.
