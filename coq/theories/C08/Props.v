(* C08/Props.v — property-level theorems only (statements + `exact`), each followed by Print Assumptions.
   Tags [FULL]/[PARTIAL]/[REFUTED] are read by bin/check.
   Vocabulary (C08/Model.v): raw files are byte lists; read_at r off len cap = (b[0..n), err) transcribes
   ChecksumFile.ReadAt with len(b)=len, cap(b)=cap; write_at/append/size_of/scrub transcribe WriteAt/append/
   Size/Scrub; run_ck / run_plain run an op sequence on the checksummed file / on an ordinary file. *)
From Coq Require Import List NArith ZArith.
From BLB Require Import Lib.CRC C08.CRCTab C08.Model C08.Proofs C08.Proofs2 C08.Refine C08.Refine2 C08.Tamper C08.Tamper2 C08.Enospc C08.Trunc.
Import ListNotations.
Open Scope N_scope.

(* [FULL] the first sentence of the property, no carve-out. For EVERY operation sequence without raw tampering, made
   of WriteAt, ReadAt with any spare capacity, Seek, Read, Write, Size, Scrub, Reopen in any order with any offsets,
   lengths and data, run on the model of the repaired code from an empty file, every result, that is count, error
   class, returned bytes, size, returned and resulting cursor, equals the result of the same sequence on an ordinary
   file whose holes read as zeros, the user content abs of the final raw file equals the ordinary file's content,
   and the final raw file is sound, Inv_raw, every block is non-empty data followed by its little-endian CRC-32C.
   Since every prefix of a sequence is a sequence, content equality and Inv_raw hold after every step *)
Theorem ckfile_refines_plain :
  forall ops, no_tamper ops ->
    refines_plain ops /\ Inv_raw (ck_raw (fst (run_ck init_ck ops))).
Proof. intros ops H. destruct (refines_plain_lemma ops H) as (H1 & H2 & _). exact (conj H1 H2). Qed.
Print Assumptions ckfile_refines_plain.

(* [FULL] the in-place fast path of ReadAt, taken when the read is block aligned and the caller's buffer has spare
   capacity of at least blockLength, returns the same bytes b[0..n), hence the same count, and the same error as the
   copying slow path, for every raw file whether sound or tampered, every offset, length and capacity; bytes of the
   caller's buffer beyond n up to cap may be overwritten, they are not part of the result *)
Theorem ckfile_inplace_equiv :
  forall r off len cap, read_at r off len cap = read_at r off len 0.
Proof. exact inplace_equiv_lemma. Qed.
Print Assumptions ckfile_inplace_equiv.

(* [FULL] truncation: whenever the raw length leaves a last fragment of 1 to blockChecksumLength bytes, Size reports
   corruption, WriteAt and append report corruption and leave the raw file unchanged, every non-empty ReadAt that
   starts in the fragment block reports corruption with zero bytes, and Scrub reports corruption, whatever the
   other blocks hold *)
Theorem ckfile_truncation :
  forall r, bad_fragment r ->
    size_of r = (0, E_CORRUPT) /\
    (forall off d, write_at r off d = (r, 0, E_CORRUPT)) /\
    (forall d, append r d = (r, 0, E_CORRUPT)) /\
    (forall off len cap, 0 < len -> off / DL = (lenN r - HL) / BL -> read_at r off len cap = ([], E_CORRUPT)) /\
    snd (scrub r) = E_CORRUPT.
Proof. exact truncation_lemma. Qed.
Print Assumptions ckfile_truncation.

(* [FULL] corruption detection. r is a sound raw file, Inv_raw says every block is non-empty data followed by its
   little-endian CRC-32C, block k exists, and r' differs from r by ONE burst of at most 32 bits anywhere in the stored
   bytes of block k, data or checksum or straddling both, all other blocks untouched. Then every ReadAt that touches
   block k, wherever it starts, with or without spare capacity, returns the corruption error together with exactly
   the bytes of the logical content abs r from off up to the start of block k, n = k x blockDataLength - off of them,
   so no byte of block k and no altered byte. Every ReadAt that does not touch block k returns exactly what it
   returned on r. Scrub reports corruption. Built on Lib.CRCProofs.crc_detects_burst_raw. By ckfile_refines_plain
   every file the code produces satisfies Inv_raw and abs r is the ordinary file's content *)
Theorem ckfile_detects_burst :
  forall r r' k,
    Inv_raw r -> HL + BL * k < lenN r -> burst_in_block r r' k ->
    (forall off len cap, touches k off len ->
        read_at r' off len cap = (take (k * DL - off) (drop off (abs r)), E_CORRUPT) /\
        lenN (fst (read_at r' off len cap)) = k * DL - off) /\
    (forall off len cap, ~ touches k off len -> read_at r' off len cap = read_at r off len cap) /\
    snd (scrub r') = E_CORRUPT.
Proof. exact detects_burst_abs_lemma. Qed.
Print Assumptions ckfile_detects_burst.

(* [FULL] the same for the model's own TamperXor operation, the raw xor the harness applies to the real file. On a
   sound file of bytes below 256, xor-ing any non-zero pattern of at most 32 bits at any raw bit position such that
   every set bit of the pattern lands inside the stored bytes of block k, data or checksum, including bursts that
   start in the last stored bytes of the block, is one burst in block k, tamper_xor_is_burst_full. Hence every ReadAt
   touching block k returns the corruption error and only the logical content before block k, other reads are
   unchanged and Scrub reports corruption. N.size pat is the position of the highest set bit plus one *)
Theorem ckfile_tamper_xor_detected :
  forall r bit pat k,
    Inv_raw r -> Forall (fun x => x < 256) r -> 0 < pat -> pat < 2 ^ 32 ->
    BL * k <= bit / 8 -> bit + N.size pat <= 8 * (BL * k + lenN (chunk_of r k)) ->
    let r' := tamper_xor r bit pat in
    (forall off len cap, touches k off len ->
        read_at r' off len cap = (take (k * DL - off) (drop off (abs r)), E_CORRUPT)) /\
    (forall off len cap, ~ touches k off len -> read_at r' off len cap = read_at r off len cap) /\
    snd (scrub r') = E_CORRUPT.
Proof. exact tamper_xor_detected_full_lemma. Qed.
Print Assumptions ckfile_tamper_xor_detected.

(* [FULL] truncation, reads that run into the fragment. r is a sound file, Inv_raw, and r' is r cut to n raw bytes
   leaving a last fragment of 1 to blockChecksumLength bytes in block k = n div blockLength. Then every ReadAt that
   touches block k, wherever it starts and with any spare capacity, returns the corruption error together with
   exactly the bytes of the logical content abs r from off up to the start of block k and nothing of block k, and
   every non-empty ReadAt that ends before block k returns exactly what it returned before the cut. Complements
   ckfile_truncation, which covers Size, WriteAt, append, Scrub and reads starting in the fragment block *)
Theorem ckfile_truncation_reads :
  forall r n, Inv_raw r -> n <= lenN r -> bad_fragment (take n r) ->
    let r' := take n r in
    let k := n / BL in
    (forall off len cap, touches k off len ->
        read_at r' off len cap = (take (k * DL - off) (drop off (abs r)), E_CORRUPT)) /\
    (forall off len cap, 0 < len -> (off + len - 1) / DL < k ->
        read_at r' off len cap = read_at r off len cap).
Proof. exact truncation_reads_lemma. Qed.
Print Assumptions ckfile_truncation_reads.

(* [FULL] running out of space, the short-write path of writeBlock. Fault oracle, stated in Model.raw_write_q: the
   file system has free bytes left, bytes of a raw write that overwrite existing bytes or fall into a hole always
   succeed, bytes that extend the file consume free space, and when it is used up os.File.WriteAt is short and
   returns ENOSPC, truncation gives bytes back. write_at_q transcribes WriteAt with writeBlock's error handling,
   retry with a shorter block carrying its own checksum, or truncation of a bare checksum fragment. For every sound
   file, every amount of free space, every offset and data, the file after the call is again sound, Inv_raw, with no
   weakening. Either the call succeeded, count = len and the content is the ordinary file's, or it returned ENOSPC
   and the content is the first m bytes of what the ordinary file would hold, with m at least the old size and less
   than the intended size, so nothing that was there is lost, and the count returned is m - off. In both cases every
   later ReadAt returns exactly the bytes of that content, never altered bytes, and Scrub succeeds *)
Theorem ckfile_enospc_prefix :
  forall r free off d, Inv_raw r ->
    let '(r', _, cnt, e) := write_at_q r free off d in
    Inv_raw r' /\
    enospc_outcome (abs r) off d (abs r') cnt e /\
    (forall o l cap, read_at r' o l cap = plain_read (abs r') o l) /\
    scrub r' = (lenN (abs r'), E_OK).
Proof. exact enospc_prefix_lemma. Qed.
Print Assumptions ckfile_enospc_prefix.
