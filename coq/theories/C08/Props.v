(* C08/Props.v — property-level theorems only (statements + `exact`), each followed by Print Assumptions.
   Tags [FULL]/[PARTIAL]/[REFUTED] are read by bin/check.
   Vocabulary (C08/Model.v): raw files are byte lists; read_at r off len cap = (b[0..n), err) transcribes
   ChecksumFile.ReadAt with len(b)=len, cap(b)=cap; write_at/append/size_of/scrub transcribe WriteAt/append/
   Size/Scrub; run_ck / run_plain run an op sequence on the checksummed file / on an ordinary file. *)
From Coq Require Import List NArith ZArith.
From BLB Require Import Lib.CRC C08.CRCTab C08.Model C08.Proofs.
Import ListNotations.
Open Scope N_scope.

(* [FULL] the in-place fast path of ReadAt, taken when the read is block aligned and the caller's buffer has spare
   capacity of at least blockLength, returns the same bytes b[0..n), hence the same count, and the same error as the
   copying slow path, for every raw file whether sound or tampered, every offset, length and capacity; bytes of the
   caller's buffer beyond n up to cap may be overwritten, they are not part of the result *)
Theorem ckfile_inplace_equiv :
  forall r off len cap, read_at r off len cap = read_at r off len 0.
Proof. exact inplace_equiv_lemma. Qed.
Print Assumptions ckfile_inplace_equiv.

(* [FULL] truncation: whenever the raw length leaves a last fragment of 1 to blockChecksumLength bytes, Size reports
   corruption, WriteAt and append report corruption and leave the raw file unchanged, every non-empty ReadAt that
   starts in the fragment block reports corruption with zero bytes, and Scrub reports corruption, whatever the
   other blocks hold *)
Theorem ckfile_truncation :
  forall r, bad_fragment r ->
    size_of r = (0, E_CORRUPT) /\
    (forall off d, write_at r off d = (r, 0, E_CORRUPT)) /\
    (forall d, append r d = (r, 0, E_CORRUPT)) /\
    (forall off len cap, 0 < len -> off / DL = (lenN r - HL) / BL -> read_at r off len cap = ([], E_CORRUPT)) /\
    snd (scrub r) = E_CORRUPT.
Proof. exact truncation_lemma. Qed.
Print Assumptions ckfile_truncation.

(* [REFUTED] the unrestricted refinement claim is false for the code as written, finding F19: after writing 3 bytes,
   a zero-length WriteAt at offset 100 pads the checksummed file to size 100 while an ordinary file keeps size 3 *)
Theorem ckfile_refines_plain_refuted :
  exists ops, no_tamper ops /\ ~ refines_plain ops.
Proof. exact refines_plain_refuted_lemma. Qed.
Print Assumptions ckfile_refines_plain_refuted.
