(* C08/Proofs2.v — corruption detection for reads that run into the altered block; sound files (Inv_raw). *)
From Coq Require Import List NArith ZArith Bool Lia ZifyN ZifyNat ZifyBool.
From BLB Require Import Lib.CRC Lib.CRCFast Gen.Consts C08.CRCTab C08.Model C08.Proofs.
Import ListNotations.
Open Scope N_scope.

(* block j of r verifies and is full *)
Definition full_sound (r : list byte) (j : N) : Prop :=
  fst (read_block r j) = E_OK /\ lenN (b_data (snd (read_block r j))) = DL.

(* the data portions of cnt consecutive blocks starting at j, as readBlock delivers them *)
Fixpoint blocks_data (r : list byte) (j : N) (cnt : nat) : list byte :=
  match cnt with
  | O => []
  | S c => b_data (snd (read_block r j)) ++ blocks_data r (j + 1) c
  end.

Lemma div_mod_DL off : off = DL * (off / DL) + off mod DL /\ off mod DL < DL.
Proof.
  split; [apply N.div_mod; rewrite DL_val; lia|apply N.mod_lt; rewrite DL_val; lia].
Qed.

Lemma next_block off : 
  (off + (DL - off mod DL)) / DL = off / DL + 1 /\ (off + (DL - off mod DL)) mod DL = 0.
Proof.
  destruct (div_mod_DL off) as [H1 H2].
  assert (E : off + (DL - off mod DL) = (off / DL + 1) * DL) by lia.
  rewrite E. split; [apply N.div_mul|apply N.mod_mul]; rewrite DL_val; lia.
Qed.

Lemma read_loop_reaches r' k :
  fst (read_block r' k) = E_CORRUPT ->
  forall cnt fuel off len acc,
    (cnt < fuel)%nat -> N.of_nat cnt = k - off / DL -> off / DL <= k ->
    0 < len -> k * DL <= off + len - 1 ->
    (forall j, off / DL <= j < k -> full_sound r' j) ->
    read_loop fuel r' off len 0 acc =
      (acc ++ drop (off mod DL) (blocks_data r' (off / DL) cnt), E_CORRUPT).
Proof.
  intros Hk. induction cnt as [|c IH]; intros fuel off len acc Hf Hc Hle Hlen Hreach Hfull.
  - destruct fuel as [|f]; [lia|]. cbn [read_loop blocks_data].
    replace (len =? 0) with false by (symmetry; apply N.eqb_neq; lia).
    replace ((off mod DL =? 0) && (BL <=? 0)) with false
      by (rewrite BL_val; cbn; symmetry; apply andb_false_r).
    assert (off / DL = k) by lia. subst k.
    destruct (read_block r' (off / DL)) as [e b]. cbn [fst] in Hk. subst e.
    change (E_CORRUPT =? E_OK) with false. cbn iota.
    destruct (off mod DL =? 0); cbn [drop]; now rewrite app_nil_r.
  - destruct fuel as [|f]; [lia|]. cbn [read_loop blocks_data].
    replace (len =? 0) with false by (symmetry; apply N.eqb_neq; lia).
    replace ((off mod DL =? 0) && (BL <=? 0)) with false
      by (rewrite BL_val; cbn; symmetry; apply andb_false_r).
    assert (Hj : off / DL < k) by lia.
    destruct (Hfull (off / DL) (conj (N.le_refl _) Hj)) as [He Hl].
    destruct (read_block r' (off / DL)) as [e b] eqn:Hrb. cbn [fst snd] in He, Hl |- *. subst e.
    change (E_OK =? E_OK) with true. cbn iota.
    destruct (div_mod_DL off) as [Hdm Hlt].
    replace (lenN (b_data b) <=? off mod DL) with false by (symmetry; apply N.leb_gt; lia).
    (* the read takes the rest of this block *)
    assert (Hneed : DL - off mod DL < len).
    { assert (DL * (off / DL + 1) <= k * DL) by nia. lia. }
    assert (Hpiece : take len (drop (off mod DL) (b_data b)) = drop (off mod DL) (b_data b)).
    { apply take_all. rewrite lenN_drop. lia. }
    rewrite Hpiece, lenN_drop, Hl, N.sub_0_l.
    destruct (next_block off) as [Hn1 Hn2].
    rewrite (IH f (off + (DL - off mod DL)) (len - (DL - off mod DL)) (acc ++ drop (off mod DL) (b_data b))).
    + rewrite Hn1, Hn2, drop_0. rewrite <- app_assoc. f_equal. f_equal.
      rewrite drop_app_le by lia. reflexivity.
    + lia.
    + rewrite Hn1. lia.
    + rewrite Hn1. lia.
    + lia.
    + lia.
    + intros j Hjr. rewrite Hn1 in Hjr. apply Hfull. lia.
Qed.

Lemma touched_blocks_bound off len :
  0 < len -> (off + len - 1) / DL <= off / DL + len / DL + 1.
Proof.
  intros Hl. destruct (div_mod_DL off) as [H1 H2]. destruct (div_mod_DL len) as [H3 H4].
  assert (H : (off + len - 1) / DL < off / DL + len / DL + 2).
  { apply N.div_lt_upper_bound; [rewrite DL_val; lia|]. nia. }
  lia.
Qed.

Lemma read_at_reaches r' k off len cap :
  fst (read_block r' k) = E_CORRUPT -> touches k off len ->
  (forall j, off / DL <= j < k -> full_sound r' j) ->
  read_at r' off len cap =
    (drop (off mod DL) (blocks_data r' (off / DL) (N.to_nat (k - off / DL))), E_CORRUPT).
Proof.
  intros Hk [Hlen [H1 H2]] Hfull. rewrite inplace_equiv_lemma. unfold read_at, read_fuel.
  pose proof (touched_blocks_bound off len Hlen) as Hb.
  rewrite (read_loop_reaches r' k Hk (N.to_nat (k - off / DL))); [reflexivity| | | | | |].
  - revert Hb H1 H2. generalize (off / DL), (len / DL), ((off + len - 1) / DL). intros a b c. lia.
  - lia.
  - exact H1.
  - exact Hlen.
  - assert (k * DL <= (off + len - 1) / DL * DL) by nia.
    pose proof (N.mul_div_le (off + len - 1) DL). rewrite DL_val in *. lia.
  - exact Hfull.
Qed.

Lemma blocks_data_same r r' k :
  (forall j, j <> k -> chunk_of r' j = chunk_of r j) ->
  forall cnt j, j + N.of_nat cnt <= k -> blocks_data r' j cnt = blocks_data r j cnt.
Proof.
  intros Hs. induction cnt as [|c IH]; intros j Hj; [reflexivity|].
  cbn [blocks_data]. rewrite (read_block_chunk r r' j) by (apply Hs; lia).
  f_equal. apply IH. lia.
Qed.

Lemma blocks_data_len r :
  forall cnt j, (forall i, j <= i < j + N.of_nat cnt -> full_sound r i) ->
    lenN (blocks_data r j cnt) = N.of_nat cnt * DL.
Proof.
  induction cnt as [|c IH]; intros j Hf; [reflexivity|].
  cbn [blocks_data]. rewrite lenN_app, IH.
  - destruct (Hf j) as [_ Hl]; [lia|]. rewrite Hl. lia.
  - intros i Hi. apply Hf. lia.
Qed.

(* reads that START BEFORE the altered block k and run into it: they return exactly the sound bytes the file holds
   from off up to the start of block k (so n = k*DL - off bytes, none from block k) and the corruption error *)
Lemma read_at_burst_reaching r r' k off len cap :
  sound_block r k -> burst_in_block r r' k -> touches k off len ->
  (forall j, off / DL <= j < k -> full_sound r j) ->
  read_at r' off len cap =
    (drop (off mod DL) (blocks_data r (off / DL) (N.to_nat (k - off / DL))), E_CORRUPT) /\
  lenN (fst (read_at r' off len cap)) = k * DL - off.
Proof.
  intros Hs Hb Ht Hfull.
  destruct (read_block_burst r r' k Hs Hb) as [Hk _].
  assert (Hsame : forall j, j <> k -> chunk_of r' j = chunk_of r j) by apply Hb.
  assert (Hfull' : forall j, off / DL <= j < k -> full_sound r' j).
  { intros j Hj. unfold full_sound. rewrite (read_block_chunk r r' j) by (apply Hsame; lia). apply Hfull, Hj. }
  rewrite (read_at_reaches r' k off len cap Hk Ht Hfull').
  destruct Ht as [Hlen [H1 H2]].
  rewrite (blocks_data_same r r' k Hsame) by lia.
  split; [reflexivity|]. cbn [fst].
  rewrite lenN_drop, blocks_data_len.
  - destruct (div_mod_DL off) as [Hdm Hlt]. nia.
  - intros i Hi. apply Hfull. lia.
Qed.

(* ---------- sound files ---------- *)
(* Inv_raw: every block of the raw file is non-empty data followed by its little-endian CRC-32C.  (That all blocks
   but the last are full follows from the raw length alone: a non-last chunk has blockLength bytes.) *)
Definition Inv_raw (r : list byte) : Prop := forall j, HL + BL * j < lenN r -> sound_block r j.

Lemma take_app_exact {A} (a b : list A) : take (lenN a) (a ++ b) = a.
Proof. rewrite take_app_le by lia. apply take_all. lia. Qed.

Lemma drop_app_exact {A} (a b : list A) : drop (lenN a) (a ++ b) = b.
Proof. rewrite drop_app_ge by lia. rewrite N.sub_diag. apply drop_0. Qed.

Lemma sound_block_reads r j :
  sound_block r j ->
  exists data, chunk_of r j = data ++ le32 (crc32c data) /\ data <> [] /\
               read_block r j = (E_OK, mkblk data (crc32c data)).
Proof.
  intros (data & Hne & Hc). exists data. split; [exact Hc|]. split; [exact Hne|].
  unfold read_block. fold (chunk_of r j). rewrite Hc.
  assert (Hl : lenN (data ++ le32 (crc32c data)) = lenN data + 4).
  { rewrite lenN_app. reflexivity. }
  assert (Hd : 0 < lenN data).
  { destruct data; [contradiction|]. rewrite lenN_cons. lia. }
  rewrite Hl, CL_val.
  replace (lenN data + 4 =? 0) with false by (symmetry; apply N.eqb_neq; lia).
  replace (lenN data + 4 <=? 4) with false by (symmetry; apply N.leb_gt; lia).
  replace (lenN data + 4 - 4) with (lenN data) by lia.
  rewrite take_app_exact, drop_app_exact, crc32c_m_correct.
  rewrite (CRCProofs.of_le_le32 _ (crc32c_lt data)), N.eqb_refl. reflexivity.
Qed.

Lemma sound_block_full r j :
  sound_block r j -> HL + BL * (j + 1) <= lenN r -> full_sound r j.
Proof.
  intros Hs Hlen. destruct (sound_block_reads r j Hs) as (data & Hc & _ & Hr).
  unfold full_sound. rewrite Hr. cbn [fst snd b_data]. split; [reflexivity|].
  assert (Hl : lenN (chunk_of r j) = BL).
  { unfold chunk_of, raw_read. rewrite lenN_take, lenN_drop. rewrite HL_val, BL_val in *. lia. }
  rewrite Hc, lenN_app in Hl. change (lenN (le32 (crc32c data))) with 4 in Hl.
  rewrite BL_val in Hl. rewrite DL_val. lia.
Qed.

Lemma chunk_exists_len r k : 0 < lenN (chunk_of r k) -> HL + BL * k < lenN r.
Proof. unfold chunk_of, raw_read. rewrite lenN_take, lenN_drop. rewrite BL_val. lia. Qed.

Lemma detects_burst_full_lemma :
  forall r r' k,
    (forall j, j <= k -> sound_block r j) -> burst_in_block r r' k ->
    (forall off len cap, touches k off len ->
        read_at r' off len cap =
          (drop (off mod DL) (blocks_data r (off / DL) (N.to_nat (k - off / DL))), E_CORRUPT) /\
        lenN (fst (read_at r' off len cap)) = k * DL - off) /\
    (forall off len cap, ~ touches k off len -> read_at r' off len cap = read_at r off len cap) /\
    snd (scrub r') = E_CORRUPT.
Proof.
  intros r r' k Hsound Hb.
  assert (Hsk : sound_block r k) by (apply Hsound; lia).
  assert (Hex : HL + BL * k < lenN r).
  { apply chunk_exists_len. destruct Hsk as (data & Hne & Hc). rewrite Hc, lenN_app.
    change (lenN (le32 (crc32c data))) with 4. lia. }
  assert (Hfs : forall j, j < k -> full_sound r j).
  { intros j Hj. apply sound_block_full; [apply Hsound; lia|]. rewrite HL_val, BL_val in *. nia. }
  destruct (detects_burst_lemma r r' k Hsk Hb) as (_ & _ & _ & Hframe & Hscrub).
  split; [|split].
  - intros off len cap Ht. apply read_at_burst_reaching; try assumption.
    intros j Hj. apply Hfs. lia.
  - exact Hframe.
  - apply Hscrub. intros j Hj. apply (Hfs j Hj).
Qed.

(* non-vacuity: the 3-byte example file is sound *)
Example Inv_raw_inhabited : Inv_raw ex_r.
Proof.
  intros j Hj. assert (Hl : lenN ex_r = 7) by (vm_compute; reflexivity).
  assert (j = 0) by (rewrite Hl, HL_val, BL_val in Hj; lia). subst j.
  apply burst_hyps_inhabited.
Qed.

Lemma detects_burst_inv_lemma :
  forall r r' k,
    Inv_raw r -> HL + BL * k < lenN r -> burst_in_block r r' k ->
    (forall off len cap, touches k off len ->
        read_at r' off len cap =
          (drop (off mod DL) (blocks_data r (off / DL) (N.to_nat (k - off / DL))), E_CORRUPT) /\
        lenN (fst (read_at r' off len cap)) = k * DL - off) /\
    (forall off len cap, ~ touches k off len -> read_at r' off len cap = read_at r off len cap) /\
    snd (scrub r') = E_CORRUPT.
Proof.
  intros r r' k Hinv Hk Hb. apply detects_burst_full_lemma; [|exact Hb].
  intros j Hj. apply Hinv. rewrite HL_val, BL_val in *. nia.
Qed.
