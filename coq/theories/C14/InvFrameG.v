(* C14/InvFrameG.v — the frame lemmas of InvFrame.v once more, for projections that look at the ghost lists s_att and
   s_commits: the ghost setter is only required to be invisible when it keeps those two lists (true for every use except
   CommitRSChunk and the start of a write). *)
From Coq Require Import List ZArith Bool Lia.
From BLB Require Import Gen.Consts.
From BLB Require Cluster.Model.
From BLB Require Import C14.Model C14.InvFrame.
Import ListNotations.
Open Scope Z_scope.

Section FrameG.
Variable A : Type.
Variable pi : state -> A.
Hypothesis H_store : forall st a b c, pi (set_store st a b c) = pi st.
Hypothesis H_epoch : forall st v, pi (set_epoch st v) = pi st.
Hypothesis H_dur : forall st a b c d, pi (set_dur st a b c d) = pi st.
Hypothesis H_cur : forall st a b c, pi (set_cur st a b c) = pi st.
Hypothesis H_rounds : forall st v, pi (set_rounds st v) = pi st.
Hypothesis H_fix : forall st v n, pi (set_fix st v n) = pi st.
Hypothesis H_pool : forall st v n, pi (set_pool st v n) = pi st.
Hypothesis H_cli : forall st a b c d, pi (set_cli st a b c d) = pi st.
Hypothesis H_fin : forall st a b, pi (set_fin st a b) = pi st.
Hypothesis H_ghost : forall st a d, pi (set_ghost st a (s_att st) (s_commits st) d) = pi st.
Hypothesis H_late : forall st v, pi (set_late st v) = pi st.

Lemma fg_set_reps st v : pi (set_reps st v) = pi st. Proof. apply H_store. Qed.
Lemma fg_set_stamps st v : pi (set_stamps st v) = pi st. Proof. apply H_store. Qed.
Lemma fg_set_pieces st v : pi (set_pieces st v) = pi st. Proof. apply H_store. Qed.
Lemma fg_set_dtr st v : pi (set_dtr st v) = pi st. Proof. apply H_dur. Qed.
Lemma fg_set_blobs st v : pi (set_blobs st v) = pi st. Proof. apply H_dur. Qed.
Lemma fg_set_wops st v : pi (set_wops st v) = pi st. Proof. apply H_cli. Qed.
Lemma fg_set_cache st v : pi (set_cache st v) = pi st. Proof. apply H_cli. Qed.
Lemma fg_set_fixes st v : pi (set_fixes st v) = pi st. Proof. apply H_fix. Qed.
Lemma fg_add_fin st a b c : pi (add_fin st a b c) = pi st. Proof. apply H_fin. Qed.
Lemma fg_issue st r o : pi (issue st r o) = pi st. Proof. apply H_pool. Qed.
Lemma fg_begin_event st : pi (begin_event st) = pi st. Proof. apply H_fin. Qed.

Ltac rw0 := rewrite ?H_store, ?H_epoch, ?H_dur, ?H_cur, ?H_rounds, ?H_fix, ?H_pool, ?H_cli, ?H_fin, ?H_ghost, ?H_late,
  ?fg_set_reps, ?fg_set_stamps, ?fg_set_pieces, ?fg_set_dtr, ?fg_set_blobs, ?fg_set_wops, ?fg_set_cache, ?fg_set_fixes,
  ?fg_add_fin, ?fg_issue, ?fg_begin_event.
Ltac crush0 := repeat (fr_step ltac:(rw0)); try reflexivity.

Lemma fg_finish_w st w n e : pi (finish_w st w n e) = pi st.
Proof. unfold finish_w. crush0. Qed.
Ltac rw1 := rw0; rewrite ?fg_finish_w.
Ltac crush1 := repeat (fr_step ltac:(rw1)); try reflexivity.

Lemma fg_w_after_entry fx st w e c : pi (w_after_entry fx st w e c) = pi st.
Proof.
  unfold w_after_entry. crush1.
  rewrite fold_fr; [crush1|]. intros s [h k]. crush1.
Qed.
Ltac rw2 := rw1; rewrite ?fg_w_after_entry.
Ltac crush2 := repeat (fr_step ltac:(rw2)); try reflexivity.

Lemma fg_w_get fx st w : pi (w_get fx st w) = pi st.
Proof. unfold w_get. crush2. Qed.
Ltac rw3 := rw2; rewrite ?fg_w_get.
Ltac crush3 := repeat (fr_step ltac:(rw3)); try reflexivity.

Lemma fg_cli_reply fx st op r res en : pi (cli_reply fx st op r res en) = pi st.
Proof. unfold cli_reply. crush3. Qed.
Ltac rw4 := rw3; rewrite ?fg_cli_reply.
Ltac crush4 := repeat (fr_step ltac:(rw4)); try reflexivity.

Lemma fg_finish_fix fx st f e : pi (finish_fix fx st f e) = pi st.
Proof. unfold finish_fix. crush4. Qed.
Ltac rw5 := rw4; rewrite ?fg_finish_fix.
Ltac crush5 := repeat (fr_step ltac:(rw5)); try reflexivity.

Lemma fg_activate_fix fx st f : pi (activate_fix fx st f) = pi st.
Proof.
  unfold activate_fix. crush5.
  rewrite fold_fr; [crush5|]. intros. crush5.
Qed.
Ltac rw6 := rw5; rewrite ?fg_activate_fix.
Ltac crush6 := repeat (fr_step ltac:(rw6)); try reflexivity.

Lemma fg_wake fx n : forall st, pi (wake fx n st) = pi st.
Proof. induction n; intros; cbn [wake]; [reflexivity|]. crush6. rewrite IHn. crush6. Qed.
Ltac rw7 := rw6; rewrite ?fg_wake.
Ltac crush7 := repeat (fr_step ltac:(rw7)); try reflexivity.

Lemma fg_start_fix fx st g tk c b r : pi (start_fix fx st g tk c b r) = pi st.
Proof. unfold start_fix. crush7. Qed.
Ltac rw8 := rw7; rewrite ?fg_start_fix.
Ltac crush8 := repeat (fr_step ltac:(rw8)); try reflexivity.

Lemma fg_round_check_over st r : pi (round_check_over st r) = pi st.
Proof. unfold round_check_over. crush8. Qed.
Lemma fg_round_after_stats st r : pi (round_after_stats st r) = pi st.
Proof. unfold round_after_stats. rewrite ?fg_round_check_over. crush8. rewrite fg_round_check_over. reflexivity. Qed.
Ltac rw9 := rw8; rewrite ?fg_round_check_over, ?fg_round_after_stats.
Ltac crush9 := repeat (fr_step ltac:(rw9)); try reflexivity.

Lemma fg_stat_reply fx st r tk h e sz stamp : pi (stat_reply fx st r tk h e sz stamp) = pi st.
Proof. unfold stat_reply. crush9. Qed.

Lemma fg_cleanup st g e : pi (cleanup st g e) = pi st.
Proof. unfold cleanup. rewrite fold_fr_pair; [reflexivity|]. intros. cbn. crush9. Qed.
Ltac rw10 := rw9; rewrite ?fg_stat_reply, ?fg_cleanup.
Ltac crush10 := repeat (fr_step ltac:(rw10)); try reflexivity.

Lemma fg_enc_finish st r e ok : pi (enc_finish st r e ok) = pi st.
Proof. unfold enc_finish. crush10. Qed.

Lemma fg_alloc_reply st r e b w h : pi (alloc_reply st r e b w h) = pi st.
Proof.
  unfold alloc_reply. crush10.
  all: rewrite ?fg_round_check_over.
  all: rewrite fold_fr; [crush10|].
  all: intros s x; rewrite fold_fr_pair; [reflexivity|]; intros; cbn; crush10.
Qed.
Ltac rw11 := rw10; rewrite ?fg_enc_finish, ?fg_alloc_reply.
Ltac crush11 := repeat (fr_step ltac:(rw11)); try reflexivity.

Lemma fg_round_reply fx st op rp res hint : pi (round_reply fx st op rp res hint) = pi st.
Proof.
  unfold round_reply. crush11.
  all: try (rewrite fold_fr; [crush11|]; intros s [[[a b] c] d]; crush11).
Qed.

Lemma fg_ts_write st ts tk v w o l : pi (fst (ts_write st ts tk v w o l)) = pi st.
Proof. unfold ts_write. crush11. Qed.
Lemma fg_ts_setversion st ts i tk nv c : pi (fst (ts_setversion st ts i tk nv c)) = pi st.
Proof. unfold ts_setversion. crush11. Qed.
Lemma fg_ts_pack st ts i ch t sp f : pi (fst (ts_pack st ts i ch t sp f)) = pi st.
Proof. unfold ts_pack. crush11. Qed.
Lemma fg_change_tract st term tk ver hosts : pi (fst (change_tract st term tk ver hosts)) = pi st.
Proof. unfold change_tract. crush11. Qed.
Lemma fg_update_class st op term blob cls : pi (fst (update_class st op term blob cls)) = pi st.
Proof. unfold update_class. crush11. Qed.
Ltac rw12 := rw11; rewrite ?fg_round_reply, ?fg_ts_write, ?fg_ts_setversion, ?fg_ts_pack, ?fg_change_tract, ?fg_update_class.
Ltac crush12 := repeat (fr_step ltac:(rw12)); try reflexivity.

Lemma fg_fix_reply fx st id err : pi (fix_reply fx st id err) = pi st.
Proof.
  unfold fix_reply. destruct (find_fix (s_fix st) id); [|reflexivity].
  destruct (negb (err =? cl_NoError)); [crush12|].
  destruct (1 <? f_wait f); [crush12|].
  pose proof (fg_change_tract st (f_term f) (f_tk f) (f_dv f + 1) (f_hosts f)) as M.
  destruct (change_tract st (f_term f) (f_tk f) (f_dv f + 1) (f_hosts f)) as [st1 e]. cbn [fst] in M.
  rewrite <- M. crush12.
Qed.

Lemma fg_deliver fx st e res en hint : pi (deliver fx st e res en hint) = pi st.
Proof. unfold deliver. rewrite ?fg_fix_reply. crush12. all: rewrite ?fg_fix_reply; crush12. Qed.

Lemma fg_round_start st op : pi (fst (round_start st op)) = pi st.
Proof.
  unfold round_start.
  match goal with |- context [fold_left ?f (blob_ids st) _] => set (F := f) end.
  assert (H: forall l acc, pi (fst (fst (fold_left F l acc))) = pi (fst (fst acc))).
  { induction l; intros; cbn [fold_left]; [reflexivity|]. rewrite IHl.
    destruct acc as [[s a0] o]. unfold F. cbn [fst].
    destruct (Cluster.Model.zget (s_blobs s) a); [|reflexivity].
    destruct (b_cls b =? b_tgt b); [reflexivity|].
    destruct (all_rs s a).
    - pose proof (fg_update_class s op (s_term st) a (b_tgt b)) as M.
      destruct (update_class s op (s_term st) a (b_tgt b)). exact M.
    - destruct (b_cls b =? c14_ClassREPLICATED); reflexivity. }
  specialize (H (blob_ids st) (st, [], [])). cbn [fst] in H.
  destruct (fold_left F (blob_ids st) (st, [], [])) as [[st1 tracts] obs]. cbn [fst] in *.
  rewrite <- H.
  match goal with |- pi (if ?b then _ else _) = _ => destruct b end; crush12;
  (rewrite fold_fr; [crush12|]; intros; crush12).
Qed.
End FrameG.
