(* C14/InvPiece.v — invariant I2: the data piece a CommitRSChunk will read holds, for its tract, the write list of a
   stat'ed source: as long as that source's stamp is the collected one, and - once the operation's own conditional bump
   of that source has succeeded - as long as the durable version of the tract is still the one the packer captured.
   Needs: one round per curator incarnation at a time (PackTracts / RSEncode executions find their specs through the
   first round of the incarnation), chunk ids handed out by AllocateRSChunkIDs are fresh, GCTract calls only name
   chunks of abandoned operations. *)
From Coq Require Import List ZArith Bool Lia.
From BLB Require Import Gen.Consts.
From BLB Require Cluster.Model.
From BLB Require Import C14.Model C14.Proofs C14.Run C14.Late C14.InvFrame C14.InvStore C14.InvVer C14.InvPool C14.InvRound C14.InvTract C14.InvContent.
Import ListNotations.
Open Scope Z_scope.

Definition chunk_of (rp : rpc) : Z := nth 1 (k_aux rp) 0.
Definition live (e : encop) : Prop := e_stage e <> 9.

(* the source condition for the packed content 'app' of tract tk in operation e of round r *)
Definition frozen (st : state) (p : ptr) (h0 : Z) (app : list wrec) : Prop :=
  (exists rep, rget (s_reps st) (h0, pt_tk p) = Some rep /\ r_app rep = app /\ pt_ver p + 1 <= r_ver rep) \/
  ~ (exists d, dget st (pt_tk p) = Some d /\ d_ver d = pt_ver p /\ d_rs d = None).

Definition src (fx : fixes) (st : state) (r : round) (e : encop) (tk : tkt) (app : list wrec) : Prop :=
  exists p h0 s0 rep, find_ptr (rd_tracts r) tk = Some p /\ In h0 (pt_from p) /\ zget (pt_stamps p) h0 = Some s0 /\
    rget (s_reps st) (h0, tk) = Some rep /\
    (stamp_of st h0 tk = s0 -> r_app rep = app) /\
    (e_stage e = 5 -> frozen st p h0 app) /\
    (e_stage e = 4 -> zget (e_errs e) (slot_of (bump_list fx r e) tk h0 0) = Some cl_NoError -> frozen st p h0 app).

Definition packed_slot (e : encop) (i : Z) : Prop :=
  e_stage e = 3 \/ e_stage e = 4 \/ e_stage e = 5 \/ (e_stage e = 2 /\ zget (e_errs e) i = Some cl_NoError).

Definition piece_ok (fx : fixes) (st : state) (r : round) (e : encop) (i : nat) : Prop :=
  forall tk off len, nth_error (e_chunks e) i = Some (tk, off, len) -> packed_slot e (Z.of_nat i) ->
    exists app tgt, pget (s_pieces st) (nth i (e_hosts e) 0, e_base e + Z.of_nat i) =
                      Some {| pc_items := [(tk, off, len, app)]; pc_len := tgt; pc_data := true |} /\
                    src fx st r e tk app.

Record PR1 (fx : fixes) (st : state) (r : round) : Prop := {
  pi_ch : forall e, In e (rd_encs r) -> e_base e + (RS_N + RS_M) <= s_nextchunk st;
  pi_len : forall e, In e (rd_encs r) -> live e -> length (e_chunks e) = Z.to_nat RS_N /\ length (e_hosts e) = Z.to_nat (RS_N + RS_M);
  pi_pack : forall pe e, In pe (s_pool st) -> p_owner pe = rd_op r -> k_kind (p_rpc pe) = K_PackTracts -> att_enc r (p_rpc pe) = Some e ->
              exists i, 0 <= i < RS_N /\ p_rpc pe = mk_pack (rd_gen r) (nth (Z.to_nat i) (e_hosts e) 0) (e_base e + i) /\ zget (e_errs e) i = None;
  pi_uniq : forall pe1 pe2, In pe1 (s_pool st) -> In pe2 (s_pool st) -> p_owner pe1 = rd_op r -> p_owner pe2 = rd_op r ->
              k_kind (p_rpc pe1) = K_PackTracts -> k_kind (p_rpc pe2) = K_PackTracts -> chunk_of (p_rpc pe1) = chunk_of (p_rpc pe2) -> pe1 = pe2;
  pi_enc : forall pe e, In pe (s_pool st) -> p_owner pe = rd_op r -> k_kind (p_rpc pe) = K_RSEncode -> att_enc r (p_rpc pe) = Some e ->
              p_rpc pe = mk_encode (rd_gen r) (nth (Z.to_nat RS_N) (e_hosts e) 0) (e_base e);
  pi_stamp : forall p h s, In p (rd_tracts r) -> zget (pt_stamps p) h = Some s ->
               exists rep, rget (s_reps st) (h, pt_tk p) = Some rep /\ sle s (stamp_of st h (pt_tk p));
  pi_piece : forall e i, In e (rd_encs r) -> live e -> piece_ok fx st r e i;
  pi_fill : forall e, In e (rd_encs r) -> e_stage e = 2 ->
              Z.of_nat (length (e_errs e)) + e_wait e = RS_N /\ NoDup (map fst (e_errs e)) /\ forall i v, In (i, v) (e_errs e) -> 0 <= i < RS_N
}.

Record PInv (fx : fixes) (st : state) : Prop := {
  pv_gen : NoDup (map rd_gen (s_rounds st));
  pv_ops : NoDup (map rd_op (s_rounds st));
  pv_gd : forall r1 r2 e1 e2 c, In r1 (s_rounds st) -> In r2 (s_rounds st) -> In e1 (rd_encs r1) -> In e2 (rd_encs r2) ->
            in_range e1 c = true -> in_range e2 c = true -> rd_gen r1 = rd_gen r2;
  pv_own : forall pe, In pe (s_pool st) -> k_kind (p_rpc pe) = K_PackTracts \/ k_kind (p_rpc pe) = K_RSEncode ->
             exists r, In r (s_rounds st) /\ p_owner pe = rd_op r;
  pv_gc : forall pe, In pe (s_pool st) -> k_kind (p_rpc pe) = K_GCTract ->
            chunk_of (p_rpc pe) < s_nextchunk st /\
            forall r e, In r (s_rounds st) -> In e (rd_encs r) -> live e -> in_range e (chunk_of (p_rpc pe)) = false;
  pv_alloc : forall pe, In pe (s_pool st) -> k_kind (p_rpc pe) = K_Alloc -> 0 <= nth 0 (k_aux (p_rpc pe)) 0;
  pv_rounds : forall r, In r (s_rounds st) -> PR1 fx st r
}.

(* ------------------------------------------------------------------ the payoff: PInv gives the provenance hypothesis of InvContent *)
Lemma commit_tracts_nth rd eo tk off len nv idx : In (tk, off, len, nv, idx) (Xcommit_tracts rd eo) ->
  exists i, nth_error (e_chunks eo) i = Some (tk, off, len) /\ idx = Z.of_nat i /\
            nv = match find_ptr (rd_tracts rd) tk with Some p => pt_ver p + 1 | None => 0 end.
Proof.
  unfold Xcommit_tracts.
  assert (G: forall l acc k, In (tk, off, len, nv, idx)
              (fst (fold_left (fun '(acc, i) '(tk', off, len) =>
                    (acc ++ [(tk', off, len, match find_ptr (rd_tracts rd) tk' with Some p => pt_ver p + 1 | None => 0 end, i)], i + 1)) l (acc, Z.of_nat k))) ->
              In (tk, off, len, nv, idx) acc \/
              exists i, nth_error l i = Some (tk, off, len) /\ idx = Z.of_nat (k + i) /\ nv = match find_ptr (rd_tracts rd) tk with Some p => pt_ver p + 1 | None => 0 end).
  { induction l as [|[[a b] c] l IH]; intros acc k H; cbn [fold_left fst] in H; [left; exact H|].
    replace (Z.of_nat k + 1) with (Z.of_nat (S k)) in H by lia.
    destruct (IH _ _ H) as [K|[i [K1 [K2 K3]]]].
    - apply in_app_or in K. destruct K as [K|[K|[]]]; [left; exact K|]. injection K as -> -> -> <- <-. right. exists O. split; [reflexivity|]. split; [f_equal; lia|reflexivity].
    - right. exists (S i). split; [exact K1|]. split; [rewrite K2; f_equal; lia|exact K3]. }
  intros H. destruct (G (e_chunks eo) [] O H) as [[]|[i [K1 [K2 K3]]]]. exists i. auto.
Qed.

Lemma PInv_src fx st : fx6 fx = true -> PInv fx st -> RInv fx st -> XSrcAll st.
Proof.
  intros Hfx HP HR pe rd eo Hpe Kc Fr Fe tk off len nv idx Hin [d [Dg [Dv Dr]]].
  pose proof (find_round_in _ _ _ Fr) as Hr. pose proof (find_round_op _ _ _ Fr) as Ho. symmetry in Ho.
  pose proof (rv_rounds _ _ HR rd Hr) as R1. pose proof (pv_rounds _ _ HP rd Hr) as P1.
  destruct (find_enc_chunk_in _ _ _ Fe) as [Heo _].
  assert (S5: e_stage eo = 5).
  { destruct (ri_exp _ _ _ R1 pe Hpe Ho) as [[K _]|[[K _]|[_ [e' [A [K _]]]]]]; try (rewrite Kc in K; vm_compute in K; discriminate).
    unfold att_enc in A. rewrite Kc in A. change (K_Commit =? K_PackTracts) with false in A. change (K_Commit =? K_RSEncode) with false in A.
    change (K_Commit =? K_Commit) with true in A. cbn [orb] in A. unfold aux_nth in Fe. rewrite Fe in A. injection A as <-.
    assert (Kn: k_kind (p_rpc pe) <> -1) by (rewrite Kc; vm_compute; discriminate).
    destruct (stage_kind_cases _ _ K Kn) as [[_ Q]|[[_ Q]|[[_ Q]|[S Q]]]]; try (rewrite Kc in Q; vm_compute in Q; discriminate). exact S. }
  assert (Lv: live eo) by (unfold live; rewrite S5; discriminate).
  destruct (commit_tracts_nth _ _ _ _ _ _ _ Hin) as [i [Ni [Ei Env]]].
  destruct (pi_piece _ _ _ P1 eo i Heo Lv tk off len Ni (or_intror (or_intror (or_introl S5)))) as [app [tgt [Pg Sr]]].
  destruct Sr as [p [h0 [s0 [rep [Fp [Hf [Zs [Rg [_ [Fz _]]]]]]]]]].
  exists p, h0, s0, rep. split; [exact Fp|]. split; [exact Hf|]. split; [exact Zs|]. split; [exact Rg|].
  unfold Xpacked_at. subst idx. rewrite Nat2Z.id, Pg. cbn [pc_items find]. rewrite tk_eqb_refl.
  rewrite Fp in Env. pose proof (find_ptr_tk _ _ _ Fp) as Ptk.
  destruct (Fz S5) as [[rep' [Rg' [Ra' _]]]|No].
  - rewrite Ptk, Rg in Rg'. injection Rg' as <-. exact Ra'.
  - exfalso. apply No. exists d. rewrite Ptk. split; [exact Dg|]. split; [lia|exact Dr].
Qed.

(* ------------------------------------------------------------------ clients and fixVersion never issue Pack / Encode / GC calls *)
Definition notpeg (rp : rpc) : bool :=
  negb ((k_kind rp =? K_PackTracts) || (k_kind rp =? K_RSEncode) || (k_kind rp =? K_GCTract)).
Definition notpk (rp : rpc) : bool := notpeg rp && negb (k_kind rp =? K_Alloc).
Definition NK (st st' : state) : Prop := forall x, In x (s_pool st') -> In x (s_pool st) \/ notpk (p_rpc x) = true.

Lemma NK_refl st : NK st st. Proof. intros x Hx. left. exact Hx. Qed.
Lemma NK_trans a b c : NK a b -> NK b c -> NK a c.
Proof. intros H1 H2 x Hx. destruct (H2 x Hx) as [K|K]; [exact (H1 x K)|right; exact K]. Qed.
Lemma NKr_eq st s s' : s_pool s' = s_pool s -> NK st s -> NK st s'.
Proof. intros H K x Hx. rewrite H in Hx. exact (K x Hx). Qed.
Lemma NKr_issue st s r o : notpk r = true -> NK st s -> NK st (issue s r o).
Proof.
  intros Hn K x Hx. cbn [s_pool issue set_pool] in Hx. apply in_app_or in Hx. destruct Hx as [Hx|[<-|[]]]; [exact (K x Hx)|right; exact Hn].
Qed.
Lemma NKr_remove st s id : NK st s -> NK st (set_pool s (pool_remove (s_pool s) id) (s_next s)).
Proof. intros K x Hx. cbn [s_pool set_pool] in Hx. unfold pool_remove in Hx. apply filter_In in Hx. apply K. tauto. Qed.
Lemma NKr_set_wops st s l : NK st s -> NK st (set_wops s l). Proof. apply NKr_eq. reflexivity. Qed.
Lemma NKr_set_cache st s l : NK st s -> NK st (set_cache s l). Proof. apply NKr_eq. reflexivity. Qed.
Lemma NKr_set_fix st s l n : NK st s -> NK st (set_fix s l n). Proof. apply NKr_eq. reflexivity. Qed.
Lemma NKr_set_fixes st s l : NK st s -> NK st (set_fixes s l). Proof. apply NKr_eq. reflexivity. Qed.
Lemma NKr_add_fin st s a b c : NK st s -> NK st (add_fin s a b c). Proof. apply NKr_eq. reflexivity. Qed.
Lemma NKr_finish_w st s w n e : NK st s -> NK st (finish_w s w n e).
Proof. apply NKr_eq. apply (fr_finish_w _ s_pool); fr. Qed.
Lemma NKr_fold {A} (f : state -> A -> state) l : (forall st s x, NK st s -> NK st (f s x)) -> forall st s, NK st s -> NK st (fold_left f l s).
Proof. intros H. induction l; intros; cbn; auto. Qed.

Ltac nks :=
  repeat first
    [ apply NKr_issue; [reflexivity|] | apply NKr_remove | apply NKr_set_wops | apply NKr_set_cache
    | apply NKr_set_fix | apply NKr_set_fixes | apply NKr_add_fin | apply NKr_finish_w ];
  try assumption.

Lemma NKr_w_after_entry fx st s w e c : NK st s -> NK st (w_after_entry fx s w e c).
Proof.
  intros K. unfold w_after_entry. prd; nks.
  apply NKr_fold; [intros st0 s0 [h k] K0; nks|]. nks.
Qed.
Lemma NKr_w_get fx st s w : NK st s -> NK st (w_get fx s w).
Proof. intros K. unfold w_get. prd; first [apply NKr_w_after_entry; assumption | nks]. Qed.
Lemma NKr_cli_reply fx st s op r res en : NK st s -> NK st (cli_reply fx s op r res en).
Proof.
  intros K. unfold cli_reply. prd; try assumption;
  first [apply NKr_w_get; assumption | apply NKr_w_after_entry; nks | nks].
Qed.
Lemma NKr_finish_fix fx st s f e : NK st s -> NK st (finish_fix fx s f e).
Proof. intros K. unfold finish_fix. prd; first [apply NKr_cli_reply; nks | nks]. Qed.
Lemma NKr_activate_fix fx st s f : NK st s -> NK st (activate_fix fx s f).
Proof.
  intros K. unfold activate_fix. prd; try (apply NKr_finish_fix; assumption).
  apply NKr_fold; [intros; nks|]. nks.
Qed.
Lemma NKr_wake fx n : forall st s, NK st s -> NK st (wake fx n s).
Proof. induction n; intros st s K; cbn [wake]; [exact K|]. destruct (find _ _); [|exact K]. apply IHn. apply NKr_activate_fix. exact K. Qed.
Lemma NKr_start_fix fx st s g tk c b r : NK st s -> NK st (start_fix fx s g tk c b r).
Proof. intros K. unfold start_fix. prd; apply NKr_wake; [apply NKr_finish_fix|]; nks. Qed.
Lemma NKr_fix_reply fx st s id err : NK st s -> NK st (fix_reply fx s id err).
Proof.
  intros K. unfold fix_reply. destruct (find_fix _ _) as [f|]; [|exact K].
  destruct (negb _); [apply NKr_wake; apply NKr_finish_fix; exact K|].
  destruct (1 <? f_wait f); [nks|].
  pose proof (fr_change_tract _ s_pool ltac:(fr) s (f_term f) (f_tk f) (f_dv f + 1) (f_hosts f)) as Q.
  destruct (change_tract _ _ _ _ _) as [s1 e]. cbn [fst] in Q.
  apply NKr_wake. apply NKr_finish_fix. eapply NKr_eq; [exact Q|exact K].
Qed.

(* ------------------------------------------------------------------ transfer along steps that leave rounds, pieces and the Store alone *)
Definition pPI (st : state) := (s_rounds st, s_pieces st, s_reps st, s_stamps st, s_epoch st).

Lemma stamp_of_pPI st st' ts tk : pPI st' = pPI st -> stamp_of st' ts tk = stamp_of st ts tk.
Proof. unfold pPI. intros H. injection H as _ _ _ H4 H5. unfold stamp_of, epoch_of. rewrite H4, H5. reflexivity. Qed.

Lemma src_transfer fx st st' r e tk app : pPI st' = pPI st ->
  (forall p h, In p (rd_tracts r) -> frozen st p h app -> frozen st' p h app) ->
  src fx st r e tk app -> src fx st' r e tk app.
Proof.
  intros HP Hfz [p [h0 [s0 [rep [Fp [Hf [Zs [Rg [Ca [C5 C4]]]]]]]]]].
  pose proof (stamp_of_pPI st st' h0 tk HP) as Es. unfold pPI in HP. injection HP as _ _ H3 _ _.
  exists p, h0, s0, rep. rewrite H3, Es. repeat split; try assumption.
  - intros S. apply Hfz; [exact (find_ptr_in _ _ _ Fp)|exact (C5 S)].
  - intros S Z0. apply Hfz; [exact (find_ptr_in _ _ _ Fp)|exact (C4 S Z0)].
Qed.

Lemma PInv_sub fx st st' :
  pPI st' = pPI st -> s_nextchunk st' = s_nextchunk st -> NK st st' ->
  (forall r p h app, In r (s_rounds st) -> In p (rd_tracts r) -> frozen st p h app -> frozen st' p h app) ->
  PInv fx st -> PInv fx st'.
Proof.
  intros HP Hn HK Hfz [A A' B C D Al E]. pose proof HP as HP0. unfold pPI in HP0. injection HP0 as H1 H2 H3 H4 H5.
  assert (Pk: forall pe, In pe (s_pool st') -> notpk (p_rpc pe) = false -> In pe (s_pool st)).
  { intros pe Hpe N. destruct (HK pe Hpe) as [K|K]; [exact K|congruence]. }
  assert (N1: forall pe, k_kind (p_rpc pe) = K_PackTracts -> notpk (p_rpc pe) = false) by (intros pe K; unfold notpk, notpeg; rewrite K; reflexivity).
  assert (N2: forall pe, k_kind (p_rpc pe) = K_RSEncode -> notpk (p_rpc pe) = false) by (intros pe K; unfold notpk, notpeg; rewrite K; reflexivity).
  assert (N3: forall pe, k_kind (p_rpc pe) = K_GCTract -> notpk (p_rpc pe) = false) by (intros pe K; unfold notpk, notpeg; rewrite K; reflexivity).
  assert (N4: forall pe, k_kind (p_rpc pe) = K_Alloc -> notpk (p_rpc pe) = false) by (intros pe K; unfold notpk, notpeg; rewrite K; reflexivity).
  constructor; rewrite ?H1, ?Hn.
  - exact A.
  - exact A'.
  - exact B.
  - intros pe Hpe [K|K]; [apply C; [apply Pk; [exact Hpe|exact (N1 pe K)]|left; exact K]|apply C; [apply Pk; [exact Hpe|exact (N2 pe K)]|right; exact K]].
  - intros pe Hpe K. apply D; [apply Pk; [exact Hpe|exact (N3 pe K)]|exact K].
  - intros pe Hpe K. apply Al; [apply Pk; [exact Hpe|exact (N4 pe K)]|exact K].
  - intros r Hr. destruct (E r Hr) as [Q1 Q2 Q3 Q4 Q5 Q6 Q7 Q8]. constructor; rewrite ?Hn.
    + exact Q1.
    + exact Q2.
    + intros pe e Hpe O K. apply Q3; [apply Pk; [exact Hpe|exact (N1 pe K)]|exact O|exact K].
    + intros pe1 pe2 P1 P2 O1 O2 K1 K2. apply Q4; try assumption; apply Pk; try assumption; [exact (N1 pe1 K1)|exact (N1 pe2 K2)].
    + intros pe e Hpe O K. apply Q5; [apply Pk; [exact Hpe|exact (N2 pe K)]|exact O|exact K].
    + intros p h s Hp Zs. destruct (Q6 p h s Hp Zs) as [rep [Rg Sl]]. exists rep. rewrite H3, (stamp_of_pPI st st' h (pt_tk p) HP). auto.
    + intros e i He Lv tk off len Ni Ps. destruct (Q7 e i He Lv tk off len Ni Ps) as [app [tgt [Pg Sr]]]. exists app, tgt. rewrite H2.
      split; [exact Pg|]. apply (src_transfer fx st st'); [exact HP| |exact Sr]. intros p h Hp. apply (Hfz r); assumption.
    + exact Q8.
Qed.

Lemma frozen_dstep st st' p h app : s_reps st' = s_reps st -> ptr_ok (s_dtr st) p -> dstep (s_dtr st) (s_dtr st') ->
  frozen st p h app -> frozen st' p h app.
Proof.
  intros Hr [d [Dg [Dv _]]] Ds [F|No]; [left; rewrite Hr; exact F|right].
  intros [d' [Dg' [Dv' Dr']]]. apply No. destruct (Ds _ _ Dg) as [d2 [D2 [V2 K2]]]. unfold dget in Dg'. rewrite Dg' in D2. injection D2 as <-.
  exists d. split; [exact Dg|]. split; [lia|exact (proj1 (K2 Dr'))].
Qed.

Lemma frozen_same st st' p h app : s_reps st' = s_reps st -> s_dtr st' = s_dtr st -> frozen st p h app -> frozen st' p h app.
Proof. intros Hr Hd. unfold frozen, dget. rewrite Hr, Hd. auto. Qed.

Definition pPJ (st : state) := (pPI st, s_nextchunk st, s_dtr st).

Lemma PInv_pPJ_NK fx st st' : pPJ st' = pPJ st -> NK st st' -> PInv fx st -> PInv fx st'.
Proof.
  unfold pPJ. intros H HK.
  assert (H1: pPI st' = pPI st) by (exact (f_equal (fun x => fst (fst x)) H)).
  assert (H2: s_nextchunk st' = s_nextchunk st) by (exact (f_equal (fun x => snd (fst x)) H)).
  assert (H3: s_dtr st' = s_dtr st) by (exact (f_equal snd H)).
  apply PInv_sub; [exact H1|exact H2|exact HK|].
  intros r p h app _ _. apply frozen_same; [|exact H3]. exact (f_equal (fun x => snd (fst (fst x))) H1).
Qed.

Lemma PInv_rm fx st pe : PInv fx st -> PInv fx (rm_pool st pe).
Proof. apply PInv_pPJ_NK; [reflexivity|]. apply NKr_remove. apply NK_refl. Qed.

Lemma PInv_cli_reply fx st op r res en : PInv fx st -> PInv fx (cli_reply fx st op r res en).
Proof. apply PInv_pPJ_NK; [apply (fr_cli_reply _ pPJ); fr|apply NKr_cli_reply; apply NK_refl]. Qed.

Lemma PInv_start_fix fx st g tk c b rid : PInv fx st -> PInv fx (start_fix fx st g tk c b rid).
Proof. apply PInv_pPJ_NK; [apply (fr_start_fix _ pPJ); fr|apply NKr_start_fix; apply NK_refl]. Qed.

Lemma PInv_fix_reply fx st id err : DInv st -> PInv fx st -> PInv fx (fix_reply fx st id err).
Proof.
  intros HD. apply PInv_sub.
  - apply (fr_fix_reply _ pPI); fr.
  - unfold fix_reply. destruct (find_fix _ _) as [f|]; [|reflexivity].
    destruct (negb _); [rewrite (fr_wake _ s_nextchunk), (fr_finish_fix _ s_nextchunk) by fr; reflexivity|].
    destruct (1 <? f_wait f); [reflexivity|].
    assert (Q: s_nextchunk (fst (change_tract st (f_term f) (f_tk f) (f_dv f + 1) (f_hosts f))) = s_nextchunk st).
    { unfold change_tract. repeat match goal with |- context [if ?b then _ else _] => destruct b | |- context [match ?x with _ => _ end] => destruct x end; reflexivity. }
    destruct (change_tract _ _ _ _ _) as [s1 e]. cbn [fst] in Q. rewrite (fr_wake _ s_nextchunk), (fr_finish_fix _ s_nextchunk) by fr. exact Q.
  - apply NKr_fix_reply. apply NK_refl.
  - intros r p h app Hr Hp. apply frozen_dstep.
    + apply (fr_fix_reply _ s_reps); fr.
    + exact (dv_rounds _ HD r p Hr Hp).
    + (* the durable records only move forward *)
      unfold fix_reply. destruct (find_fix _ _) as [f|] eqn:Ff; [|apply dstep_refl].
      destruct (negb _); [rewrite (fr_wake _ s_dtr), (fr_finish_fix _ s_dtr) by fr; apply dstep_refl|].
      destruct (1 <? f_wait f); [apply dstep_refl|].
      assert (S: dstep (s_dtr st) (s_dtr (fst (change_tract st (f_term f) (f_tk f) (f_dv f + 1) (f_hosts f))))).
      { apply dstep_change_tract. intros d D N. destruct (dv_fix _ HD f (find_fix_in _ _ _ Ff)) as [K|[d0 [D0 K]]]; [left; exact K|right].
        unfold dget in D. rewrite D in D0. injection D0 as <-. auto. }
      destruct (change_tract _ _ _ _ _) as [s1 e]. cbn [fst] in S. rewrite (fr_wake _ s_dtr), (fr_finish_fix _ s_dtr) by fr. exact S.
Qed.

(* ------------------------------------------------------------------ slot bookkeeping of encPack *)
Lemma zget_none_notin (m : list (Z * Z)) k : zget m k = None <-> ~ In k (map fst m).
Proof.
  induction m as [|[a b] m IH]; cbn; [tauto|]. destruct (k =? a) eqn:E.
  - apply Z.eqb_eq in E. subst. split; [discriminate|intros H; exfalso; apply H; left; reflexivity].
  - apply Z.eqb_neq in E. rewrite IH. split; [intros H [K|K]; [congruence|contradiction]|intros H K; apply H; right; exact K].
Qed.

Lemma zget_in_some (m : list (Z * Z)) k : In k (map fst m) -> exists v, zget m k = Some v.
Proof. intros H. destruct (zget m k) as [v|] eqn:E; [eauto|]. apply zget_none_notin in E. contradiction. Qed.

Lemma pigeon (l : list Z) n : NoDup l -> (forall x, In x l -> 0 <= x < n) -> Z.of_nat (length l) = n -> forall i, 0 <= i < n -> In i l.
Proof.
  intros N B L i Hi. set (u := map Z.of_nat (seq 0 (Z.to_nat n))).
  assert (Hinc: incl l u). { intros x Hx. specialize (B x Hx). unfold u. apply in_map_iff. exists (Z.to_nat x). split; [lia|apply in_seq; lia]. }
  assert (Hlen: (length u <= length l)%nat) by (unfold u; rewrite map_length, seq_length; lia).
  apply (NoDup_length_incl N Hlen Hinc). unfold u. apply in_map_iff. exists (Z.to_nat i). split; [lia|apply in_seq; lia].
Qed.

Lemma last_err_ok errs n : last_err errs n = cl_NoError -> forall i v, 0 <= i < n -> zget errs i = Some v -> v = cl_NoError.
Proof.
  unfold last_err. intros H i v Hi Hz.
  assert (G: forall l acc, fold_left (fun acc i => match zget errs (Z.of_nat i) with Some e => if e =? cl_NoError then acc else e | None => acc end) l acc = cl_NoError ->
             acc = cl_NoError /\ forall k, In k l -> forall w, zget errs (Z.of_nat k) = Some w -> w = cl_NoError).
  { induction l as [|a l IH]; intros acc Hf; cbn [fold_left] in Hf; [split; [exact Hf|intros k []]|].
    destruct (IH _ Hf) as [Ha Hl]. destruct (zget errs (Z.of_nat a)) as [ea|] eqn:Ea.
    - destruct (ea =? cl_NoError) eqn:Ee.
      + split; [exact Ha|]. intros k [->|Hk] w Hw; [rewrite Ea in Hw; injection Hw as <-; apply Z.eqb_eq; exact Ee|exact (Hl k Hk w Hw)].
      + exfalso. rewrite Ha in Ee. vm_compute in Ee. discriminate.
    - split; [exact Ha|]. intros k [->|Hk] w Hw; [congruence|exact (Hl k Hk w Hw)]. }
  destruct (G _ _ H) as [_ Hl]. apply (Hl (Z.to_nat i)); [apply in_seq; lia|]. rewrite Z2Nat.id by lia. exact Hz.
Qed.

(* ------------------------------------------------------------------ one encode operation of a round changes (phase 3) *)
Definition pST (st : state) := (s_pieces st, s_reps st, s_stamps st, s_epoch st, s_dtr st, s_nextchunk st).

Lemma stamp_of_pST st st' ts tk : pST st' = pST st -> stamp_of st' ts tk = stamp_of st ts tk.
Proof. unfold pST. intros H. injection H as _ _ H3 H4 _ _. unfold stamp_of, epoch_of. rewrite H3, H4. reflexivity. Qed.

Lemma src_pST fx st st' r e tk app : pST st' = pST st -> src fx st r e tk app -> src fx st' r e tk app.
Proof.
  intros HP [p [h0 [s0 [rep [Fp [Hf [Zs [Rg [Ca [C5 C4]]]]]]]]]]. pose proof (stamp_of_pST st st' h0 tk HP) as Es.
  unfold pST in HP. injection HP as _ H2 _ _ H5 _.
  assert (Fz: forall a, frozen st p h0 a -> frozen st' p h0 a) by (intros a; apply frozen_same; assumption).
  exists p, h0, s0, rep. rewrite H2, Es. repeat split; try assumption; intros; apply Fz; auto.
Qed.

Section PUpd.
Variables (fx : fixes) (st st' : state) (r : round) (pe : pent) (e e' : encop) (dn : Z) (added : list pent).
Let r' := upd_r r e' dn.
Hypothesis HR1 : RInv1 fx st r.
Hypothesis HP1 : PR1 fx st r.
Hypothesis Hatt : att_enc r (p_rpc pe) = Some e.
Hypothesis N9 : e_stage e <> 9.
Hypothesis Sh : same_shape e e'.
Hypothesis HST : pST st' = pST st.
Hypothesis Hpool : forall x, In x (s_pool st') -> (In x (s_pool st) /\ x <> pe) \/ In x added.
Hypothesis Hadd_np : forall x, In x added -> k_kind (p_rpc x) <> K_PackTracts.
Hypothesis Hadd_enc : forall x, In x added -> k_kind (p_rpc x) = K_RSEncode ->
  p_rpc x = mk_encode (rd_gen r) (nth (Z.to_nat RS_N) (e_hosts e) 0) (e_base e).
Hypothesis Hpack' : forall x, In x (s_pool st) -> x <> pe -> p_owner x = rd_op r -> k_kind (p_rpc x) = K_PackTracts -> att_enc r (p_rpc x) = Some e ->
  exists i, 0 <= i < RS_N /\ p_rpc x = mk_pack (rd_gen r) (nth (Z.to_nat i) (e_hosts e) 0) (e_base e + i) /\ zget (e_errs e') i = None.
Hypothesis Hpiece' : live e' -> forall i, piece_ok fx st' r' e' i.
Hypothesis Hfill' : e_stage e' = 2 ->
  Z.of_nat (length (e_errs e')) + e_wait e' = RS_N /\ NoDup (map fst (e_errs e')) /\ forall i v, In (i, v) (e_errs e') -> 0 <= i < RS_N.

Let He : In e (rd_encs r) := att_enc_in _ _ _ Hatt.
Let W : wf_t (rd_encs r) := fun e1 e2 tk H1 H2 => ri_wft _ _ _ HR1 e1 e2 tk H1 H2.

Lemma pu_att x e2 : In e2 (rd_encs r') -> att_enc r' (p_rpc x) = Some e2 ->
  (e2 = e' /\ att_enc r (p_rpc x) = Some e) \/ (e_base e2 <> e_base e' /\ In e2 (rd_encs r) /\ att_enc r (p_rpc x) = Some e2).
Proof.
  intros H2 A. destruct (att_enc_upd_base r e e' dn _ e2 W He Sh N9 A) as [y0 [A0 B0]].
  destruct (ue_orig r pe e e' dn Hatt Sh e2 H2) as [e0 [H0 [Bb [_ [O1 O2]]]]].
  pose proof (att_enc_in _ _ _ A0) as Hy0.
  destruct (Z.eq_dec (e_base e2) (e_base e')) as [Eb|Eb].
  - left. split; [exact (O2 Eb)|]. assert (y0 = e); [|subst; exact A0].
    apply (nodup_base_eq (rd_encs r)); [exact (ri_nodupb _ _ _ HR1)|exact Hy0|exact He|]. destruct Sh as [Sb _]. congruence.
  - right. split; [exact Eb|]. rewrite (O1 Eb) in H0. split; [exact H0|]. assert (y0 = e2); [|subst; exact A0].
    apply (nodup_base_eq (rd_encs r)); [exact (ri_nodupb _ _ _ HR1)|exact Hy0|exact H0|exact B0].
Qed.

Lemma PR1_upd : PR1 fx st' r'.
Proof.
  pose proof Sh as [Sb [Sc Shh]]. pose proof HST as HST0. unfold pST in HST0. injection HST0 as S1 S2 S3 S4 S5 S6.
  destruct HP1 as [Q1 Q2 Q3 Q4 Q5 Q6 Q7 Q8].
  assert (Old: forall x, In x (s_pool st') -> k_kind (p_rpc x) = K_PackTracts -> In x (s_pool st) /\ x <> pe).
  { intros x Hx K. destruct (Hpool x Hx) as [O|A]; [exact O|]. exfalso. exact (Hadd_np x A K). }
  constructor.
  - intros e2 H2. destruct (ue_orig r pe e e' dn Hatt Sh e2 H2) as [e0 [H0 [Bb _]]]. rewrite S6, <- Bb. exact (Q1 e0 H0).
  - intros e2 H2 L2. destruct (ue_orig r pe e e' dn Hatt Sh e2 H2) as [e0 [H0 [Bb [_ [O1 O2]]]]].
    destruct (Z.eq_dec (e_base e2) (e_base e')) as [Eb|Eb].
    + rewrite (O2 Eb). rewrite Sc, Shh. exact (Q2 e He N9).
    + rewrite (O1 Eb) in H0. exact (Q2 e2 H0 L2).
  - intros x e2 Hx O K A. destruct (Old x Hx K) as [Hx0 Nx].
    assert (H2: In e2 (rd_encs r')) by exact (att_enc_in _ _ _ A).
    destruct (pu_att x e2 H2 A) as [[-> A0]|[_ [_ A0]]].
    + destruct (Hpack' x Hx0 Nx O K A0) as [i [Hi [Er Ez]]]. exists i. rewrite Shh, Sb. auto.
    + exact (Q3 x e2 Hx0 O K A0).
  - intros x1 x2 H1 H2 O1 O2 K1 K2 C. destruct (Old x1 H1 K1), (Old x2 H2 K2). apply Q4; assumption.
  - intros x e2 Hx O K A. assert (H2: In e2 (rd_encs r')) by exact (att_enc_in _ _ _ A).
    destruct (Hpool x Hx) as [[Hx0 _]|Ha].
    + destruct (pu_att x e2 H2 A) as [[-> A0]|[_ [_ A0]]]; [rewrite Shh, Sb; exact (Q5 x e Hx0 O K A0)|exact (Q5 x e2 Hx0 O K A0)].
    + pose proof (Hadd_enc x Ha K) as Er. rewrite Er in A. unfold att_enc in A. cbn [k_kind mk_encode mk_rpc Cluster.Model.k_kind] in A. cbn [orb Z.eqb] in A.
      change (nth 1 (k_aux (mk_encode (rd_gen r) (nth (Z.to_nat RS_N) (e_hosts e) 0) (e_base e))) 0) with (e_base e) in A.
      unfold r' in A. rewrite (att_chunk_upd_self fx st r e e' dn HR1 He Sh) in A. injection A as <-. rewrite Shh, Sb. exact Er.
  - intros p h s Hp Zs. destruct (Q6 p h s Hp Zs) as [rep [Rg Sl]]. exists rep. rewrite S2, (stamp_of_pST st st' h (pt_tk p) HST). auto.
  - intros e2 i H2 L2. destruct (ue_orig r pe e e' dn Hatt Sh e2 H2) as [e0 [H0 [Bb [_ [O1 O2]]]]].
    destruct (Z.eq_dec (e_base e2) (e_base e')) as [Eb|Eb]; [rewrite (O2 Eb) in *; exact (Hpiece' L2 i)|].
    rewrite (O1 Eb) in H0. intros tk off len Ni Ps. destruct (Q7 e2 i H0 L2 tk off len Ni Ps) as [app [tgt [Pg Sr]]].
    exists app, tgt. rewrite S1. split; [exact Pg|]. exact (src_pST fx st st' r e2 tk app HST Sr).
  - intros e2 H2 S2'. destruct (ue_orig r pe e e' dn Hatt Sh e2 H2) as [e0 [H0 [Bb [_ [O1 O2]]]]].
    destruct (Z.eq_dec (e_base e2) (e_base e')) as [Eb|Eb]; [rewrite (O2 Eb) in *; exact (Hfill' S2')|].
    rewrite (O1 Eb) in H0. exact (Q8 e2 H0 S2').
Qed.
End PUpd.

(* ------------------------------------------------------------------ assembling the global invariant after a round moved *)
Lemma PR1_other fx st st' r2 : pST st' = pST st ->
  (forall x, In x (s_pool st') -> p_owner x = rd_op r2 -> In x (s_pool st)) ->
  PR1 fx st r2 -> PR1 fx st' r2.
Proof.
  intros HST Hp [Q1 Q2 Q3 Q4 Q5 Q6 Q7 Q8]. pose proof HST as HST0. unfold pST in HST0. injection HST0 as S1 S2 S3 S4 S5 S6.
  constructor; rewrite ?S6; try assumption.
  - intros x e Hx O. apply Q3; [exact (Hp x Hx O)|exact O].
  - intros x1 x2 H1 H2 O1 O2. apply Q4; auto.
  - intros x e Hx O. apply Q5; [exact (Hp x Hx O)|exact O].
  - intros p h s Hp0 Zs. destruct (Q6 p h s Hp0 Zs) as [rep [Rg Sl]]. exists rep. rewrite S2, (stamp_of_pST st st' h (pt_tk p) HST). auto.
  - intros e i He L tk off len Ni Ps. destruct (Q7 e i He L tk off len Ni Ps) as [app [tgt [Pg Sr]]]. exists app, tgt. rewrite S1.
    split; [exact Pg|exact (src_pST fx st st' r2 e tk app HST Sr)].
Qed.

Lemma gen_eq_round (l : list round) r1 r2 : NoDup (map rd_gen l) -> In r1 l -> In r2 l -> rd_gen r1 = rd_gen r2 -> r1 = r2.
Proof.
  induction l as [|z l IH]; cbn; [intros _ []|]. intros N H1 H2 E. inversion N as [|? ? N1 N2]; subst.
  destruct H1 as [->|H1], H2 as [->|H2]; auto.
  - exfalso. apply N1. rewrite E. apply in_map. exact H2.
  - exfalso. apply N1. rewrite <- E. apply in_map. exact H1.
Qed.

Lemma op_eq_round (l : list round) r1 r2 : NoDup (map rd_op l) -> In r1 l -> In r2 l -> rd_op r1 = rd_op r2 -> r1 = r2.
Proof.
  induction l as [|z l IH]; cbn; [intros _ []|]. intros N H1 H2 E. inversion N as [|? ? N1 N2]; subst.
  destruct H1 as [->|H1], H2 as [->|H2]; auto.
  - exfalso. apply N1. rewrite E. apply in_map. exact H2.
  - exfalso. apply N1. rewrite <- E. apply in_map. exact H1.
Qed.

Lemma map_upd_round {A} (g : round -> A) l r' r : NoDup (map rd_op l) -> In r l -> rd_op r' = rd_op r -> g r' = g r ->
  map g (upd_round l r') = map g l.
Proof.
  intros N Hr Eo Eg. unfold upd_round. rewrite map_map. apply map_ext_in. intros x Hx.
  destruct (rd_op x =? rd_op r') eqn:E; [|reflexivity]. apply Z.eqb_eq in E.
  assert (x = r) by (apply (op_eq_round l); [exact N|exact Hx|exact Hr|congruence]). subst x. exact Eg.
Qed.

Lemma NoDup_map_filter_gen (l : list round) f : NoDup (map rd_gen l) -> NoDup (map rd_gen (filter f l)).
Proof. apply nodup_map_filter. Qed.

Lemma in_upd_round_other l r' x : In x l -> rd_op x <> rd_op r' -> In x (upd_round l r').
Proof.
  intros H K. unfold upd_round. apply in_map_iff. exists x. split; [|exact H].
  replace (rd_op x =? rd_op r') with false by (symmetry; apply Z.eqb_neq; exact K). reflexivity.
Qed.

Section Assemble.
Variables (fx : fixes) (st st' : state) (r r' : round) (pe : pent) (added : list pent).
Hypothesis HP : PInv fx st.
Hypothesis HR : RInv fx st.
Hypothesis Hr : In r (s_rounds st).
Hypothesis Eop : rd_op r' = rd_op r.
Hypothesis Egen : rd_gen r' = rd_gen r.
Hypothesis HST : pST st' = pST st.
Hypothesis Hrounds : s_rounds st' = upd_round (s_rounds st) r' \/ s_rounds st' = del_round (s_rounds st) (rd_op r).
Hypothesis Hdel : s_rounds st' = del_round (s_rounds st) (rd_op r) ->
  forall x, In x (s_pool st') -> p_owner x = rd_op r -> k_kind (p_rpc x) <> K_PackTracts /\ k_kind (p_rpc x) <> K_RSEncode.
Hypothesis Hpool : forall x, In x (s_pool st') -> (In x (s_pool st) /\ x <> pe) \/ In x added.
Hypothesis Hadd_owner : forall x, In x added -> p_owner x = rd_op r \/ (p_owner x = 0 /\ k_kind (p_rpc x) = K_GCTract).
Hypothesis Hadd_gc : forall x, In x added -> k_kind (p_rpc x) = K_GCTract ->
  exists e, In e (rd_encs r) /\ in_range e (chunk_of (p_rpc x)) = true /\ forall e2, In e2 (rd_encs r') -> live e2 -> e_base e2 <> e_base e.
Hypothesis Hbases : forall e2, In e2 (rd_encs r') -> exists e0, In e0 (rd_encs r) /\ e_base e0 = e_base e2 /\ (live e2 -> live e0).
Hypothesis Hadd_alloc : forall x, In x added -> k_kind (p_rpc x) = K_Alloc -> 0 <= nth 0 (k_aux (p_rpc x)) 0.
Hypothesis HPR : s_rounds st' = upd_round (s_rounds st) r' -> PR1 fx st' r'.

Lemma as_round r2 : In r2 (s_rounds st') -> (r2 = r' /\ s_rounds st' = upd_round (s_rounds st) r') \/ (In r2 (s_rounds st) /\ rd_op r2 <> rd_op r).
Proof.
  intros H2. destruct Hrounds as [Hu|Hd]; rewrite ?Hu, ?Hd in H2.
  - destruct (Z.eq_dec (rd_op r2) (rd_op r)) as [E|E].
    + left. split; [|exact Hu]. apply (upd_round_own _ _ _ H2). congruence.
    + right. apply in_upd_round in H2. destruct H2 as [H2|H2]; [auto|]. subst r2. congruence.
  - right. unfold del_round in H2. apply filter_In in H2. destruct H2 as [H2 N]. split; [exact H2|]. apply negb_true_iff, Z.eqb_neq in N. exact N.
Qed.

Lemma as_old r2 e2 : In r2 (s_rounds st') -> In e2 (rd_encs r2) ->
  exists ro eo, In ro (s_rounds st) /\ In eo (rd_encs ro) /\ rd_gen ro = rd_gen r2 /\ e_base eo = e_base e2 /\ (live e2 -> live eo) /\
                (ro = r -> r2 = r').
Proof.
  intros H2 He2. destruct (as_round r2 H2) as [[-> _]|[Ho No]].
  - destruct (Hbases e2 He2) as [e0 [H0 [B0 L0]]]. exists r, e0. repeat split; auto.
  - exists r2, e2. repeat split; auto. intros ->. contradiction.
Qed.

Lemma PInv_assemble : PInv fx st'.
Proof.
  pose proof HP as [A A' B C D Al E]. pose proof HST as HST0. unfold pST in HST0. injection HST0 as S1 S2 S3 S4 S5 S6.
  constructor.
  - destruct Hrounds as [Hu|Hd]; rewrite ?Hu, ?Hd; [rewrite (map_upd_round rd_gen _ r' r A' Hr Eop Egen); exact A|apply nodup_map_filter; exact A].
  - destruct Hrounds as [Hu|Hd]; rewrite ?Hu, ?Hd; [rewrite (map_upd_round rd_op _ r' r A' Hr Eop Eop); exact A'|apply nodup_map_filter; exact A'].
  - intros r1 r2 e1 e2 c H1 H2 He1 He2 C1 C2.
    destruct (as_old r1 e1 H1 He1) as [r1o [e1o [G1 [G2 [G3 [G4 _]]]]]]. destruct (as_old r2 e2 H2 He2) as [r2o [e2o [K1 [K2 [K3 [K4 _]]]]]].
    rewrite <- G3, <- K3. apply (B r1o r2o e1o e2o c G1 K1 G2 K2); [rewrite (in_range_shape e1 e1o c G4)|rewrite (in_range_shape e2 e2o c K4)]; assumption.
  - intros x Hx Kx.
    assert (Own: exists r0, In r0 (s_rounds st) /\ p_owner x = rd_op r0).
    { destruct (Hpool x Hx) as [[Hx0 _]|Ha]; [exact (C x Hx0 Kx)|].
      destruct (Hadd_owner x Ha) as [O|[_ K]]; [exists r; auto|]. exfalso. destruct Kx as [Kx|Kx]; rewrite Kx in K; vm_compute in K; discriminate. }
    destruct Own as [r0 [H0 O0]]. destruct (Z.eq_dec (rd_op r0) (rd_op r)) as [E0|E0].
    + destruct Hrounds as [Hu|Hd].
      * exists r'. split; [rewrite Hu; apply (in_upd_round_self _ r r' Hr); congruence|congruence].
      * exfalso. destruct (Hdel Hd x Hx ltac:(congruence)) as [N1 N2]. destruct Kx; contradiction.
    + exists r0. split; [|exact O0]. destruct Hrounds as [Hu|Hd]; rewrite ?Hu, ?Hd.
      * apply in_upd_round_other; [exact H0|congruence].
      * unfold del_round. apply filter_In. split; [exact H0|]. apply negb_true_iff, Z.eqb_neq. exact E0.
  - intros x Hx Kx. rewrite S6. destruct (Hpool x Hx) as [[Hx0 _]|Ha].
    + destruct (D x Hx0 Kx) as [D1 D2]. split; [exact D1|]. intros r2 e2 H2 He2 L2.
      destruct (as_old r2 e2 H2 He2) as [ro [eo [G1 [G2 [_ [G4 [G5 _]]]]]]]. rewrite <- (in_range_shape e2 eo _ G4). exact (D2 ro eo G1 G2 (G5 L2)).
    + destruct (Hadd_gc x Ha Kx) as [e [He [Ir Hne]]]. pose proof (pi_ch _ _ _ (E r Hr) e He) as Ch. split.
      * unfold in_range in Ir. apply andb_true_iff in Ir. destruct Ir as [_ Ir]. apply Z.ltb_lt in Ir. lia.
      * intros r2 e2 H2 He2 L2. destruct (in_range e2 (chunk_of (p_rpc x))) eqn:I2; [|reflexivity]. exfalso.
        destruct (as_old r2 e2 H2 He2) as [ro [eo [G1 [G2 [G3 [G4 [G5 G6]]]]]]].
        assert (Io: in_range eo (chunk_of (p_rpc x)) = true) by (rewrite (in_range_shape e2 eo _ G4); exact I2).
        pose proof (B ro r eo e _ G1 Hr G2 He Io Ir) as Eg.
        assert (ro = r) by (apply (gen_eq_round (s_rounds st)); assumption). subst ro.
        pose proof (ri_wfc _ _ _ (rv_rounds _ _ HR r Hr) eo e _ G2 He Io Ir) as Eb.
        rewrite (G6 eq_refl) in He2. apply (Hne e2 He2 L2). congruence.
  - intros x Hx Kx. destruct (Hpool x Hx) as [[Hx0 _]|Ha]; [exact (Al x Hx0 Kx)|exact (Hadd_alloc x Ha Kx)].
  - intros r2 H2. destruct (as_round r2 H2) as [[-> Hu]|[Ho No]]; [exact (HPR Hu)|].
    apply (PR1_other fx st st' r2 HST); [|exact (E r2 Ho)].
    intros x Hx O. destruct (Hpool x Hx) as [[Hx0 _]|Ha]; [exact Hx0|]. exfalso.
    destruct (Hadd_owner x Ha) as [O2|[O2 _]]; [congruence|]. pose proof (ri_pos _ _ _ (rv_rounds _ _ HR r2 Ho)). lia.
Qed.
End Assemble.

(* ------------------------------------------------------------------ phase-3 transitions *)
Lemma piece_ok_pST fx st s' r e i : pST s' = pST st -> piece_ok fx st r e i -> piece_ok fx s' r e i.
Proof.
  intros HST H tk off len Ni Ps. destruct (H tk off len Ni Ps) as [app [tgt [Pg Sr]]]. exists app, tgt.
  pose proof HST as H0. unfold pST in H0. injection H0 as S1 _ _ _ _ _. rewrite S1. split; [exact Pg|exact (src_pST fx st s' r e tk app HST Sr)].
Qed.

Lemma in_mk_ents_rpc n rs x : In x (mk_ents n rs) -> In (p_rpc x, p_owner x) rs. Proof. apply mk_ents_in. Qed.

Lemma pST_issue_all rs : forall s, pST (issue_all s rs) = pST s.
Proof. induction rs as [|[a b] l IH]; intros s; cbn [issue_all fold_left]; [reflexivity|]. unfold issue_all in IH. rewrite IH. reflexivity. Qed.

Lemma gc_list_in g b hosts : forall i0 rp o, In (rp, o) (gc_list g b i0 hosts) ->
  o = 0 /\ exists i h, i0 <= i < i0 + Z.of_nat (length hosts) /\ rp = mk_del g h (b + i).
Proof.
  induction hosts as [|h t IH]; intros i0 rp o; cbn [gc_list length]; [intros []|]. intros [H|H].
  - injection H as <- <-. split; [reflexivity|]. exists i0, h. split; [lia|reflexivity].
  - destruct (IH (i0 + 1) rp o H) as [E [i [h' [Hi Er]]]]. split; [exact E|]. exists i, h'. split; [lia|exact Er].
Qed.

Section PP3.
Variables (fx : fixes) (st : state) (pe : pent) (r : round) (e : encop).
Hypothesis HP : PInv fx st.
Hypothesis HR : RInv fx st.
Hypothesis Hpe : In pe (s_pool st).
Hypothesis Hown : p_owner pe = rd_op r.
Hypothesis Hr : In r (s_rounds st).
Hypothesis Hph : rd_phase r = 3.
Hypothesis Hatt : att_enc r (p_rpc pe) = Some e.
Hypothesis N9 : e_stage e <> 9.
Let st1 := rm_pool st pe.
Let R1 : RInv1 fx st r := rv_rounds _ _ HR r Hr.
Let P1 : PR1 fx st r := pv_rounds _ _ HP r Hr.
Let He : In e (rd_encs r) := att_enc_in _ _ _ Hatt.

Lemma pp_upd e' dn rs :
  same_shape e e' ->
  (forall rp o, In (rp, o) rs -> o = rd_op r /\ k_kind rp <> K_PackTracts /\ k_kind rp <> K_GCTract /\ k_kind rp <> K_Alloc /\
     (k_kind rp = K_RSEncode -> rp = mk_encode (rd_gen r) (nth (Z.to_nat RS_N) (e_hosts e) 0) (e_base e))) ->
  (forall x, In x (s_pool st) -> x <> pe -> p_owner x = rd_op r -> k_kind (p_rpc x) = K_PackTracts -> att_enc r (p_rpc x) = Some e ->
     exists i, 0 <= i < RS_N /\ p_rpc x = mk_pack (rd_gen r) (nth (Z.to_nat i) (e_hosts e) 0) (e_base e + i) /\ zget (e_errs e') i = None) ->
  (live e' -> forall i, piece_ok fx st (upd_r r e' dn) e' i) ->
  (e_stage e' = 2 -> Z.of_nat (length (e_errs e')) + e_wait e' = RS_N /\ NoDup (map fst (e_errs e')) /\ forall i v, In (i, v) (e_errs e') -> 0 <= i < RS_N) ->
  PInv fx (issue_all (set_rounds st1 (upd_round (s_rounds st1) (upd_r r e' dn))) rs).
Proof.
  intros Sh Hrs Hpack' Hpiece' Hfill'.
  set (s0 := set_rounds st1 (upd_round (s_rounds st1) (upd_r r e' dn))).
  destruct (issue_all_spec rs s0) as [Q1 [Q2 Q3]]. unfold pO in Q3. injection Q3 as O1 O2 O3 O4 O5.
  assert (HST: pST (issue_all s0 rs) = pST st) by (rewrite pST_issue_all; reflexivity).
  assert (Hpool: forall x, In x (s_pool (issue_all s0 rs)) -> (In x (s_pool st) /\ x <> pe) \/ In x (mk_ents (s_next s0) rs)).
  { intros x Hx. rewrite Q1 in Hx. apply in_app_or in Hx. destruct Hx as [Hx|Hx]; [left|right; exact Hx].
    cbn in Hx. apply in_pool_remove in Hx. destruct Hx as [Hx Nx]. split; [exact Hx|]. intros ->. apply Nx. reflexivity. }
  apply (PInv_assemble fx st (issue_all s0 rs) r (upd_r r e' dn) pe (mk_ents (s_next s0) rs) HP HR Hr eq_refl eq_refl HST).
  - left. rewrite O5. reflexivity.
  - intros Hd. exfalso. rewrite O5 in Hd. cbn [s_rounds s0 set_rounds st1 rm_pool set_pool] in Hd.
    assert (In (upd_r r e' dn) (upd_round (s_rounds st) (upd_r r e' dn))) by (apply (in_upd_round_self _ r _ Hr); reflexivity).
    rewrite Hd in H. unfold del_round in H. apply filter_In in H. destruct H as [_ H]. cbn [rd_op upd_r rd_set] in H. rewrite Z.eqb_refl in H. discriminate.
  - exact Hpool.
  - intros x Hx. left. apply mk_ents_in in Hx. exact (proj1 (Hrs _ _ Hx)).
  - intros x Hx K. exfalso. apply mk_ents_in in Hx. destruct (Hrs _ _ Hx) as [_ [_ [N _]]]. contradiction.
  - intros e2 H2. destruct (ue_orig r pe e e' dn Hatt Sh e2 H2) as [e0 [H0 [Bb [_ [K1 K2]]]]]. exists e0. split; [exact H0|]. split; [exact Bb|].
    intros L2. destruct (Z.eq_dec (e_base e2) (e_base e')) as [Eb|Eb]; [|rewrite (K1 Eb); exact L2].
    assert (e0 = e); [|subst; exact N9]. apply (nodup_base_eq (rd_encs r)); [exact (ri_nodupb _ _ _ R1)|exact H0|exact He|]. destruct Sh as [Sb _]. congruence.
  - intros x Hx K. exfalso. apply mk_ents_in in Hx. destruct (Hrs _ _ Hx) as [_ [_ [_ [N _]]]]. contradiction.
  - intros _. apply (PR1_upd fx st (issue_all s0 rs) r pe e e' dn (mk_ents (s_next s0) rs) R1 P1 Hatt N9 Sh HST Hpool).
    + intros x Hx. apply mk_ents_in in Hx. exact (proj1 (proj2 (Hrs _ _ Hx))).
    + intros x Hx K. apply mk_ents_in in Hx. exact (proj2 (proj2 (proj2 (proj2 (Hrs _ _ Hx)))) K).
    + exact Hpack'.
    + intros L i. apply (piece_ok_pST fx st); [exact HST|exact (Hpiece' L i)].
    + exact Hfill'.
Qed.

Lemma pp_no_other x : bound e <= 1 -> In x (s_pool st) -> x <> pe -> p_owner x = rd_op r -> att_enc r (p_rpc x) = Some e -> False.
Proof.
  intros Hb Hx Nx Ox Ax.
  assert (Hx1: In x (pool_remove (s_pool st) (p_id pe))).
  { apply in_pool_remove. split; [exact Hx|]. intros E. apply Nx. exact (nodup_id_eq _ x pe (rv_nodup _ _ HR) Hx Hpe E). }
  assert (Ay: att_to r e x = true) by (unfold att_to, owned; rewrite Ox, Z.eqb_refl, Ax, Z.eqb_refl; reflexivity).
  pose proof (ue_rem_cnt fx st r pe e [] R1 Hpe Hown Hatt). pose proof (cnt_pos _ _ x Hx1 Ay). lia.
Qed.

Lemma pp_finish e1 ok : same_shape e e1 -> bound e <= 1 -> PInv fx (enc_finish st1 r e1 ok).
Proof.
  intros Sh1 Hb1. unfold enc_finish.
  set (dn := if ok then rd_done r + 1 else rd_done r).
  set (rs := if ok then [] else gc_list (rd_gen r) (e_base e1) 0 (e_hosts e1)).
  set (sm := if ok then st1 else cleanup st1 (rd_gen r) e1).
  assert (Esm: sm = issue_all st1 rs) by (unfold sm, rs; destruct ok; [reflexivity|apply cleanup_issue_all]).
  change (rd_set r (rd_phase r) (rd_tracts r) (upd_enc (rd_encs r) (enc_over e1)) dn) with (upd_r r (enc_over e1) dn).
  set (r' := upd_r r (enc_over e1) dn).
  assert (Sh: same_shape e (enc_over e1)) by (eapply same_shape_trans; [exact Sh1|apply same_shape_over]).
  destruct (issue_all_spec rs st1) as [Q1 [Q2 Q3]]. rewrite <- Esm in *. unfold pO in Q3. injection Q3 as O1 O2 O3 O4 O5.
  assert (Hrs: forall rp o, In (rp, o) rs -> o = 0 /\ exists i h, 0 <= i < Z.of_nat (length (e_hosts e1)) /\ rp = mk_del (rd_gen r) h (e_base e1 + i)).
  { unfold rs. destruct ok; [intros ? ? []|]. intros rp o Hin. destruct (gc_list_in _ _ _ _ _ _ Hin) as [E [i [h [Hi Er]]]]. split; [exact E|]. exists i, h. split; [lia|exact Er]. }
  assert (Len: length (e_hosts e1) = Z.to_nat (RS_N + RS_M)).
  { destruct Sh1 as [_ [_ Hh]]. rewrite Hh. exact (proj2 (pi_len _ _ _ P1 e He N9)). }
  unfold round_check_over.
  match goal with |- PInv fx (if ?b then ?sa else ?sb) => set (B := b); assert (HST: pST sa = pST st /\ pST sb = pST st) end.
  { split; cbn [add_fin set_fin set_rounds]; rewrite Esm; change (pST (set_fin (set_rounds (issue_all st1 rs) _) _ _)) with (pST (issue_all st1 rs)) || idtac;
      first [rewrite pST_issue_all; reflexivity | (change (pST (issue_all st1 rs) = pST st); rewrite pST_issue_all; reflexivity)]. }
  destruct HST as [HSTa HSTb].
  assert (Hpool: forall x, In x (s_pool sm) -> (In x (s_pool st) /\ x <> pe) \/ In x (mk_ents (s_next st1) rs)).
  { intros x Hx. rewrite Q1 in Hx. apply in_app_or in Hx. destruct Hx as [Hx|Hx]; [left|right; exact Hx].
    cbn in Hx. apply in_pool_remove in Hx. destruct Hx as [Hx Nx]. split; [exact Hx|]. intros ->. apply Nx. reflexivity. }
  assert (Hao: forall x, In x (mk_ents (s_next st1) rs) -> p_owner x = rd_op r \/ (p_owner x = 0 /\ k_kind (p_rpc x) = K_GCTract)).
  { intros x Hx. apply mk_ents_in in Hx. destruct (Hrs _ _ Hx) as [E [i [h [_ Er]]]]. right. rewrite E, Er. split; reflexivity. }
  assert (Hagc: forall x, In x (mk_ents (s_next st1) rs) -> k_kind (p_rpc x) = K_GCTract ->
            exists e0, In e0 (rd_encs r) /\ in_range e0 (chunk_of (p_rpc x)) = true /\ forall e2, In e2 (rd_encs r') -> live e2 -> e_base e2 <> e_base e0).
  { intros x Hx _. apply mk_ents_in in Hx. destruct (Hrs _ _ Hx) as [_ [i [h [Hi Er]]]]. exists e. split; [exact He|]. split.
    - rewrite Er. unfold chunk_of. cbn. destruct Sh1 as [Sb1 _]. rewrite Sb1. unfold in_range. rewrite Len in Hi. unfold RS_N, RS_M in *.
      apply andb_true_iff. split; [apply Z.leb_le|apply Z.ltb_lt]; lia.
    - intros e2 H2 L2 Eb. destruct (ue_orig r pe e (enc_over e1) dn Hatt Sh e2 H2) as [_ [_ [_ [_ [_ K2]]]]].
      destruct Sh as [Sb _]. rewrite (K2 ltac:(congruence)) in L2. apply L2. reflexivity. }
  assert (Hb: forall e2, In e2 (rd_encs r') -> exists e0, In e0 (rd_encs r) /\ e_base e0 = e_base e2 /\ (live e2 -> live e0)).
  { intros e2 H2. destruct (ue_orig r pe e (enc_over e1) dn Hatt Sh e2 H2) as [e0 [H0 [Bb [_ [K1 K2]]]]]. exists e0. split; [exact H0|]. split; [exact Bb|].
    intros L2. destruct (Z.eq_dec (e_base e2) (e_base (enc_over e1))) as [Eb|Eb]; [|rewrite (K1 Eb); exact L2].
    exfalso. rewrite (K2 Eb) in L2. apply L2. reflexivity. }
  destruct B eqn:EB.
  - apply (PInv_assemble fx st _ r r' pe (mk_ents (s_next st1) rs) HP HR Hr eq_refl eq_refl HSTa).
    + right. cbn [s_rounds add_fin set_fin set_rounds]. rewrite O5. reflexivity.
    + intros _ x Hx Ox. cbn [s_pool add_fin set_fin set_rounds] in Hx.
      destruct (Hpool x Hx) as [[Hx0 Nx]|Ha]; [|apply mk_ents_in in Ha; destruct (Hrs _ _ Ha) as [E0 _]; pose proof (ri_pos _ _ _ R1); lia].
      destruct (ri_exp _ _ _ R1 x Hx0 Ox) as [[_ [P _]]|[[_ P]|[_ [ex [A [K _]]]]]]; try (rewrite Hph in P; discriminate).
      destruct (Z.eq_dec (e_base ex) (e_base e)) as [Eb|Eb].
      * exfalso. assert (ex = e) by (apply (nodup_base_eq (rd_encs r)); [exact (ri_nodupb _ _ _ R1)|exact (att_enc_in _ _ _ A)|exact He|exact Eb]). subst ex.
        exact (pp_no_other x Hb1 Hx0 Nx Ox A).
      * assert (Hex: In ex (rd_encs r')).
        { unfold r', upd_r. cbn [rd_encs rd_set]. apply in_upd_enc_other; [exact (att_enc_in _ _ _ A)|]. destruct Sh as [Sb _]. cbn [e_base enc_over e_set] in *. congruence. }
        unfold B in EB. rewrite forallb_forall in EB. pose proof (EB ex Hex) as S9. apply Z.eqb_eq in S9. rewrite K, S9. split; vm_compute; discriminate.
    + exact Hpool.
    + exact Hao.
    + exact Hagc.
    + exact Hb.
    + intros x Hx K. exfalso. apply mk_ents_in in Hx. destruct (Hrs _ _ Hx) as [_ [i0 [h [_ Er]]]]. rewrite Er in K. vm_compute in K. discriminate.
    + intros Hu. exfalso. cbn [s_rounds add_fin set_fin set_rounds] in Hu. rewrite O5 in Hu. cbn [s_rounds st1 rm_pool set_pool] in Hu.
      assert (In r' (upd_round (s_rounds st) r')) by (apply (in_upd_round_self _ r _ Hr); reflexivity).
      rewrite <- Hu in H. apply in_del_round in H. unfold del_round in Hu.
      assert (In r' (filter (fun x => negb (rd_op x =? rd_op r')) (s_rounds st))) by (rewrite Hu; apply (in_upd_round_self _ r _ Hr); reflexivity).
      apply filter_In in H0. destruct H0 as [_ H0]. rewrite Z.eqb_refl in H0. discriminate.
  - apply (PInv_assemble fx st _ r r' pe (mk_ents (s_next st1) rs) HP HR Hr eq_refl eq_refl HSTb).
    + left. cbn [s_rounds set_rounds]. rewrite O5. reflexivity.
    + intros Hd. exfalso. cbn [s_rounds set_rounds] in Hd. rewrite O5 in Hd. cbn [s_rounds st1 rm_pool set_pool] in Hd.
      assert (In r' (upd_round (s_rounds st) r')) by (apply (in_upd_round_self _ r _ Hr); reflexivity).
      rewrite Hd in H. unfold del_round in H. apply filter_In in H. destruct H as [_ H]. cbn [rd_op r' upd_r rd_set] in H. rewrite Z.eqb_refl in H. discriminate.
    + exact Hpool.
    + exact Hao.
    + exact Hagc.
    + exact Hb.
    + intros x Hx K. exfalso. apply mk_ents_in in Hx. destruct (Hrs _ _ Hx) as [_ [i0 [h [_ Er]]]]. rewrite Er in K. vm_compute in K. discriminate.
    + intros _. apply (PR1_upd fx st _ r pe e (enc_over e1) dn (mk_ents (s_next st1) rs) R1 P1 Hatt N9 Sh HSTb Hpool).
      * intros x Hx K. apply mk_ents_in in Hx. destruct (Hrs _ _ Hx) as [_ [i [h [_ Er]]]]. rewrite Er in K. vm_compute in K. discriminate.
      * intros x Hx K. exfalso. apply mk_ents_in in Hx. destruct (Hrs _ _ Hx) as [_ [i [h [_ Er]]]]. rewrite Er in K. vm_compute in K. discriminate.
      * intros x Hx Nx Ox _ Ax. exfalso. exact (pp_no_other x Hb1 Hx Nx Ox Ax).
      * intros L. exfalso. apply L. reflexivity.
      * cbn. intros K. discriminate.
Qed.
End PP3.

(* ------------------------------------------------------------------ the handlers *)
Lemma src_stage fx st r e e' tk app : e_stage e' <> 4 -> e_stage e' <> 5 -> src fx st r e tk app -> src fx st r e' tk app.
Proof.
  intros N4 N5 [p [h0 [s0 [rep [Fp [Hf [Zs [Rg [Ca _]]]]]]]]]. exists p, h0, s0, rep. repeat split; try assumption; intros; contradiction.
Qed.

Definition fresh_piece (st : state) (r : round) (e : encop) (slot : Z) : Prop :=
  forall tk off len, nth_error (e_chunks e) (Z.to_nat slot) = Some (tk, off, len) ->
    exists app tgt, pget (s_pieces st) (nth (Z.to_nat slot) (e_hosts e) 0, e_base e + slot) =
                      Some {| pc_items := [(tk, off, len, app)]; pc_len := tgt; pc_data := true |} /\
      exists p h0 s0 rep, find_ptr (rd_tracts r) tk = Some p /\ In h0 (pt_from p) /\ zget (pt_stamps p) h0 = Some s0 /\
                          rget (s_reps st) (h0, tk) = Some rep /\ r_app rep = app.

Section PHandlers.
Variables (fx : fixes) (st : state) (pe : pent) (r : round) (e : encop).
Hypothesis HP : PInv fx st.
Hypothesis HR : RInv fx st.
Hypothesis Hpe : In pe (s_pool st).
Hypothesis Hown : p_owner pe = rd_op r.
Hypothesis Hr : In r (s_rounds st).
Hypothesis Hph : rd_phase r = 3.
Hypothesis Hatt : att_enc r (p_rpc pe) = Some e.
Let st1 := rm_pool st pe.
Let R1 : RInv1 fx st r := rv_rounds _ _ HR r Hr.
Let P1 : PR1 fx st r := pv_rounds _ _ HP r Hr.
Let He : In e (rd_encs r) := att_enc_in _ _ _ Hatt.

Lemma ph_wait_pos : e_stage e <> 9 -> 1 <= e_wait e.
Proof.
  intros N9. assert (F: att_to r e pe = true) by (unfold att_to, owned; rewrite Hown, Z.eqb_refl, Hatt, Z.eqb_refl; reflexivity).
  pose proof (cnt_pos _ _ pe Hpe F). pose proof (ri_cnt _ _ _ R1 e He). unfold bound in H0.
  replace (e_stage e =? 9) with false in H0 by (symmetry; apply Z.eqb_neq; exact N9). lia.
Qed.

Lemma pr_pack err : e_stage e = 2 -> k_kind (p_rpc pe) = K_PackTracts ->
  (err = cl_NoError -> fresh_piece st r e (chunk_of (p_rpc pe) - e_base e)) ->
  PInv fx (let e1 := e_set e 2 (e_wait e - 1) ((chunk_of (p_rpc pe) - e_base e, err) :: e_errs e) in
           if 0 <? e_wait e1 then set_rounds st1 (upd_round (s_rounds st1) (rd_set r (rd_phase r) (rd_tracts r) (upd_enc (rd_encs r) e1) (rd_done r)))
           else if negb (last_err (e_errs e1) RS_N =? cl_NoError) then enc_finish st1 r e1 false
           else issue (set_rounds st1 (upd_round (s_rounds st1) (rd_set r (rd_phase r) (rd_tracts r) (upd_enc (rd_encs r) (e_set e1 3 1 [])) (rd_done r))))
                      (mk_encode (rd_gen r) (nth (Z.to_nat RS_N) (e_hosts e) 0) (e_base e)) (rd_op r)).
Proof.
  intros S2 Kp Hfresh. assert (N9: e_stage e <> 9) by (rewrite S2; discriminate).
  destruct (pi_pack _ _ _ P1 pe e Hpe Hown Kp Hatt) as [i0 [Hi0 [Erp Z0]]].
  assert (Esl: chunk_of (p_rpc pe) - e_base e = i0) by (rewrite Erp; unfold chunk_of; cbn; lia).
  rewrite Esl in *. cbv zeta. set (errs1 := (i0, err) :: e_errs e). set (e1 := e_set e 2 (e_wait e - 1) errs1).
  destruct (pi_fill _ _ _ P1 e He S2) as [Fl [Fn Fr]].
  pose proof (bound_stage e 2 S2 ltac:(discriminate)) as Bd.
  assert (Oth: forall x, In x (s_pool st) -> x <> pe -> p_owner x = rd_op r -> k_kind (p_rpc x) = K_PackTracts -> att_enc r (p_rpc x) = Some e ->
            exists i, 0 <= i < RS_N /\ p_rpc x = mk_pack (rd_gen r) (nth (Z.to_nat i) (e_hosts e) 0) (e_base e + i) /\ zget errs1 i = None).
  { intros x Hx Nx Ox Kx Ax. destruct (pi_pack _ _ _ P1 x e Hx Ox Kx Ax) as [i [Hi [Ex Zx]]]. exists i. split; [exact Hi|]. split; [exact Ex|].
    unfold errs1. rewrite zget_cons. destruct (i =? i0) eqn:E; [|exact Zx]. apply Z.eqb_eq in E. subst i. exfalso. apply Nx.
    apply (pi_uniq _ _ _ P1 x pe Hx Hpe Ox Hown Kx Kp). rewrite Ex, Erp. reflexivity. }
  assert (Pc: forall ee, e_stage ee <> 4 -> e_stage ee <> 5 -> e_chunks ee = e_chunks e -> e_hosts ee = e_hosts e -> e_base ee = e_base e -> forall dn i,
            (forall tk off len, nth_error (e_chunks e) i = Some (tk, off, len) -> packed_slot ee (Z.of_nat i) -> zget errs1 (Z.of_nat i) = Some cl_NoError) ->
            piece_ok fx st (upd_r r ee dn) ee i).
  { intros ee N4 N5 Ec Eh Eb dn i Hps tk off len Ni Ps. rewrite Ec in Ni. specialize (Hps tk off len Ni Ps). unfold errs1 in Hps. rewrite zget_cons in Hps.
    rewrite Eh, Eb. destruct (Z.of_nat i =? i0) eqn:E.
    - apply Z.eqb_eq in E. injection Hps as Hps. assert (Ei: Z.to_nat i0 = i) by lia. destruct (Hfresh Hps tk off len ltac:(rewrite Ei; exact Ni)) as [app [tgt [Pg [p [h0 [s0 [rep Hs]]]]]]].
      exists app, tgt. rewrite Ei, <- E in Pg. split; [exact Pg|]. destruct Hs as [Fp [Hf [Zs [Rg Ra]]]].
      exists p, h0, s0, rep. split; [exact Fp|]. split; [exact Hf|]. split; [exact Zs|]. split; [exact Rg|]. split; [intros _; exact Ra|].
      split; [intros K; contradiction|intros K; contradiction].
    - destruct (pi_piece _ _ _ P1 e i He N9 tk off len Ni (or_intror (or_intror (or_intror (conj S2 Hps))))) as [app [tgt [Pg Sr]]].
      exists app, tgt. split; [exact Pg|]. apply (src_stage fx st r e ee tk app N4 N5 Sr). }
  destruct (0 <? e_wait e1) eqn:W0.
  - apply Z.ltb_lt in W0. cbn [e_wait e1 e_set] in W0.
    apply (pp_upd fx st pe r e HP HR Hr Hatt N9 e1 (rd_done r) []).
    + apply same_shape_e_set.
    + intros ? ? [].
    + exact Oth.
    + intros _ i. apply (Pc e1); try reflexivity; try (cbn; discriminate).
      intros tk off len _ [K|[K|[K|[_ K]]]]; try (cbn in K; discriminate). exact K.
    + intros _. cbn [e_errs e_wait e1 e_set errs1 length map]. split; [rewrite Nat2Z.inj_succ; lia|]. split.
      * constructor; [apply zget_none_notin; exact Z0|exact Fn].
      * intros i v [K|K]; [injection K as <- _; exact Hi0|exact (Fr i v K)].
  - apply Z.ltb_ge in W0. cbn [e_wait e1 e_set] in W0. pose proof (ph_wait_pos N9) as Wp.
    destruct (negb _) eqn:FE.
    + apply (pp_finish fx st pe r e HP HR Hpe Hown Hr Hph Hatt N9 e1 false); [apply same_shape_e_set|lia].
    + apply negb_false_iff, Z.eqb_eq in FE. cbn [e_errs e1 e_set] in FE.
      assert (AllOk: forall i, nth_error (e_chunks e) i <> None -> zget errs1 (Z.of_nat i) = Some cl_NoError).
      { intros i Hn. assert (Li: (i < Z.to_nat RS_N)%nat) by (rewrite <- (proj1 (pi_len _ _ _ P1 e He N9)); apply nth_error_Some; exact Hn).
        assert (Hin: In (Z.of_nat i) (map fst errs1)).
        { apply (pigeon (map fst errs1) RS_N).
          - cbn [map errs1 fst]. constructor; [apply zget_none_notin; exact Z0|exact Fn].
          - intros x Hx. cbn [map errs1 fst] in Hx. destruct Hx as [<-|Hx]; [exact Hi0|]. apply in_map_iff in Hx. destruct Hx as [[a b] [<- Hab]]. exact (Fr a b Hab).
          - rewrite map_length. cbn [length errs1]. rewrite Nat2Z.inj_succ. lia.
          - unfold RS_N in *. lia. }
        destruct (zget_in_some _ _ Hin) as [v Hv]. rewrite Hv. f_equal. apply (last_err_ok _ _ FE (Z.of_nat i) v); [unfold RS_N in *; lia|exact Hv]. }
      change (issue ?s ?rp ?o) with (issue_all s [(rp, o)]).
      apply (pp_upd fx st pe r e HP HR Hr Hatt N9 (e_set e1 3 1 []) (rd_done r) [(mk_encode (rd_gen r) (nth (Z.to_nat RS_N) (e_hosts e) 0) (e_base e), rd_op r)]).
      * repeat split.
      * intros rp o [H|[]]. injection H as <- <-. split; [reflexivity|]. split; [vm_compute; discriminate|]. split; [vm_compute; discriminate|]. split; [vm_compute; discriminate|]. intros _. reflexivity.
      * intros x Hx Nx Ox _ Ax. exfalso. apply (pp_no_other fx st pe r e HR Hpe Hown Hr Hatt x); try assumption. lia.
      * intros _ i. apply (Pc (e_set e1 3 1 [])); try reflexivity; try (cbn; discriminate).
        intros tk off len Ni _. apply AllOk. rewrite Ni. discriminate.
      * cbn. intros K. discriminate.
Qed.

Lemma ph_old_piece i tk off len : e_stage e = 3 \/ e_stage e = 4 -> nth_error (e_chunks e) i = Some (tk, off, len) ->
  exists app tgt, pget (s_pieces st) (nth i (e_hosts e) 0, e_base e + Z.of_nat i) =
                    Some {| pc_items := [(tk, off, len, app)]; pc_len := tgt; pc_data := true |} /\ src fx st r e tk app.
Proof.
  intros S Ni. assert (N9: e_stage e <> 9) by (destruct S as [S|S]; rewrite S; discriminate).
  apply (pi_piece _ _ _ P1 e i He N9 tk off len Ni). destruct S as [S|S]; [left; exact S|right; left; exact S].
Qed.

Lemma pr_encode err : e_stage e = 3 ->
  PInv fx (if negb (err =? cl_NoError) then enc_finish st1 r e false
           else let bl := bump_list fx r e in
                let e1 := e_set e 4 (Z.of_nat (length bl)) [] in
                let st1' := set_rounds st1 (upd_round (s_rounds st1) (rd_set r (rd_phase r) (rd_tracts r) (upd_enc (rd_encs r) e1) (rd_done r))) in
                fold_left (fun s '(tk', h, stamp, nv) => issue s (mk_setversion (rd_gen r) h tk' nv (Some stamp)) (rd_op r)) bl st1').
Proof.
  intros S3. assert (N9: e_stage e <> 9) by (rewrite S3; discriminate).
  pose proof (bound_stage e 3 S3 ltac:(discriminate)) as Bd. pose proof (ri_w1 _ _ _ R1 e He (or_introl S3)) as W1.
  destruct (negb _).
  { apply (pp_finish fx st pe r e HP HR Hpe Hown Hr Hph Hatt N9 e false); [repeat split|lia]. }
  cbv zeta. set (bl := bump_list fx r e). set (e1 := e_set e 4 (Z.of_nat (length bl)) []).
  rewrite fold_issue_sv.
  apply (pp_upd fx st pe r e HP HR Hr Hatt N9 e1 (rd_done r) (sv_list (rd_gen r) (rd_op r) bl)).
  - apply same_shape_e_set.
  - intros rp o Hin. destruct (sv_list_in _ _ _ _ _ Hin) as [-> [tk [h [s [nv [_ ->]]]]]]. split; [reflexivity|].
    split; [vm_compute; discriminate|]. split; [vm_compute; discriminate|]. split; [vm_compute; discriminate|]. intros K. vm_compute in K. discriminate.
  - intros x Hx Nx Ox _ Ax. exfalso. apply (pp_no_other fx st pe r e HR Hpe Hown Hr Hatt x); try assumption. lia.
  - intros _ i tk off len Ni _. cbn [e_chunks e1 e_set] in Ni. destruct (ph_old_piece i tk off len (or_introl S3) Ni) as [app [tgt [Pg Sr]]].
    exists app, tgt. split; [exact Pg|]. destruct Sr as [p [h0 [s0 [rep [Fp [Hf [Zs [Rg [Ca _]]]]]]]]].
    exists p, h0, s0, rep. split; [exact Fp|]. split; [exact Hf|]. split; [exact Zs|]. split; [exact Rg|]. split; [exact Ca|].
    split; [cbn; intros K; discriminate|cbn; intros _ K; discriminate].
  - cbn. intros K. discriminate.
Qed.

Lemma pr_commit err : e_stage e = 5 -> PInv fx (enc_finish st1 r e (err =? cl_NoError)).
Proof.
  intros S5. assert (N9: e_stage e <> 9) by (rewrite S5; discriminate).
  pose proof (bound_stage e 5 S5 ltac:(discriminate)) as Bd. pose proof (ri_w1 _ _ _ R1 e He (or_intror S5)) as W1.
  apply (pp_finish fx st pe r e HP HR Hpe Hown Hr Hph Hatt N9 e _); [repeat split|lia].
Qed.

Lemma pr_sv err h0 s0 nv0 : e_stage e = 4 ->
  In (rpc_tk (p_rpc pe), h0, s0, nv0) (bump_list fx r e) -> k_ts (p_rpc pe) = h0 ->
  (err = cl_NoError -> bumped st h0 (rpc_tk (p_rpc pe)) nv0 /\ stamp_of st h0 (rpc_tk (p_rpc pe)) = s0) ->
  PInv fx (let bl := bump_list fx r e in
           let e1 := e_set e 4 (e_wait e - 1) ((slot_of bl (rpc_tk (p_rpc pe)) (k_ts (p_rpc pe)) 0, err) :: e_errs e) in
           if 0 <? e_wait e1 then set_rounds st1 (upd_round (s_rounds st1) (rd_set r (rd_phase r) (rd_tracts r) (upd_enc (rd_encs r) e1) (rd_done r)))
           else if negb (first_err (e_errs e1) (Z.of_nat (length bl)) =? cl_NoError) then enc_finish st1 r e1 false
           else issue (set_rounds st1 (upd_round (s_rounds st1) (rd_set r (rd_phase r) (rd_tracts r) (upd_enc (rd_encs r) (e_set e1 5 1 [])) (rd_done r))))
                      (mk_commit (rd_gen r) (e_base e)) (rd_op r)).
Proof.
  intros S4 Hin0 Hts Hok. assert (N9: e_stage e <> 9) by (rewrite S4; discriminate).
  pose proof (bound_stage e 4 S4 ltac:(discriminate)) as Bd.
  cbv zeta. set (bl := bump_list fx r e). set (tk0 := rpc_tk (p_rpc pe)) in *.
  set (errs1 := (slot_of bl tk0 (k_ts (p_rpc pe)) 0, err) :: e_errs e).
  set (e1 := e_set e 4 (e_wait e - 1) errs1).
  (* the source condition of every chunk, with the new slot recorded *)
  assert (Src1: forall ee, e_chunks ee = e_chunks e -> e_hosts ee = e_hosts e -> e_base ee = e_base e ->
            (e_stage ee = 4 /\ e_errs ee = errs1) \/ (e_stage ee = 5 /\ forall tk h s nv, In (tk, h, s, nv) bl -> zget errs1 (slot_of bl tk h 0) = Some cl_NoError) ->
            forall dn i, piece_ok fx st (upd_r r ee dn) ee i).
  { intros ee Ec Eh Eb Hst dn i tk off len Ni _. rewrite Ec in Ni. destruct (ph_old_piece i tk off len (or_intror S4) Ni) as [app [tgt [Pg Sr]]].
    exists app, tgt. rewrite Eh, Eb. split; [exact Pg|]. destruct Sr as [p [h [s [rep [Fp [Hf [Zs [Rg [Ca [_ C4]]]]]]]]]].
    assert (Hbl: In (tk, h, s, pt_ver p + 1) bl) by (apply (Xbump_list_intro fx r e tk off len p h s (nth_error_In _ _ Ni) Fp Hf Zs)).
    assert (Fz: zget errs1 (slot_of bl tk h 0) = Some cl_NoError -> frozen st p h app).
    { unfold errs1. rewrite zget_cons, Hts. destruct (slot_of bl tk h 0 =? slot_of bl tk0 h0 0) eqn:E.
      - apply Z.eqb_eq in E. destruct (slot_of_inj bl tk h tk0 h0 0 (ex_intro _ s (ex_intro _ (pt_ver p + 1) Hbl)) (ex_intro _ s0 (ex_intro _ nv0 Hin0)) E) as [-> ->].
        intros K. injection K as K. destruct (Hok K) as [[rep' [Rg' Rv']] Est]. fold tk0 in Rg'. rewrite Rg in Rg'. injection Rg' as <-.
        destruct (bump_list_nv fx r e _ _ _ _ Hin0) as [p0 [F0 [N0 _]]]. fold tk0 in F0. rewrite Fp in F0. injection F0 as <-.
        destruct (bump_list_nv fx r e _ _ _ _ Hbl) as [p1 [F1 [_ _]]]. 
        assert (s = s0).
        { unfold bl, bump_list in Hin0. apply in_flat_map in Hin0. destruct Hin0 as [[[tkc oc] lc] [_ H2]]. destruct (find_ptr (rd_tracts r) tkc) as [pc|] eqn:Fc; [|destruct H2].
          apply in_flat_map in H2. destruct H2 as [hc [_ H2]]. destruct (zget (pt_stamps pc) hc) as [sc|] eqn:Zc; [|destruct H2]. destruct H2 as [H2|[]].
          injection H2 as E1 E2 E3 _. subst tkc hc sc. rewrite Fp in Fc. injection Fc as <-. congruence. }
        subst s. left. exists rep. rewrite (find_ptr_tk _ _ _ Fp). split; [exact Rg|]. split; [exact (Ca Est)|lia].
      - intros K. exact (C4 S4 K). }
    exists p, h, s, rep. split; [exact Fp|]. split; [exact Hf|]. split; [exact Zs|]. split; [exact Rg|]. split; [exact Ca|].
    destruct Hst as [[Se Ee]|[Se Hall]].
    - split; [intros K; rewrite Se in K; discriminate|]. intros _ Z0. apply Fz. rewrite Ee in Z0.
      assert (Eb2: bump_list fx (upd_r r ee dn) ee = bl) by (unfold bl; rewrite bump_list_upd; apply bump_list_shape; exact Ec). rewrite Eb2 in Z0. exact Z0.
    - split; [intros _; apply Fz; exact (Hall _ _ _ _ Hbl)|intros K; rewrite Se in K; discriminate]. }
  destruct (0 <? e_wait e1) eqn:W0.
  - apply Z.ltb_lt in W0. cbn [e_wait e1 e_set] in W0.
    apply (pp_upd fx st pe r e HP HR Hr Hatt N9 e1 (rd_done r) []).
    + apply same_shape_e_set.
    + intros ? ? [].
    + intros x Hx Nx Ox Kx Ax. exfalso. destruct (ri_exp _ _ _ R1 x Hx Ox) as [[K _]|[[K _]|[_ [ex [A [K _]]]]]]; try (rewrite Kx in K; vm_compute in K; discriminate).
      rewrite Ax in A. injection A as <-. rewrite S4, Kx in K. vm_compute in K. discriminate.
    + intros _ i. apply (Src1 e1); try reflexivity. left. split; reflexivity.
    + cbn. intros K. discriminate.
  - apply Z.ltb_ge in W0. cbn [e_wait e1 e_set] in W0. pose proof (ph_wait_pos N9) as Wp.
    destruct (negb _) eqn:FE.
    + apply (pp_finish fx st pe r e HP HR Hpe Hown Hr Hph Hatt N9 e1 false); [apply same_shape_e_set|lia].
    + apply negb_false_iff, Z.eqb_eq in FE. cbn [e_errs e1 e_set] in FE.
      assert (AllOk: forall tk h s nv, In (tk, h, s, nv) bl -> zget errs1 (slot_of bl tk h 0) = Some cl_NoError).
      { intros tk h s nv Hin.
        assert (Bu: err = cl_NoError -> bumped st h0 tk0 nv0) by (intros K; exact (proj1 (Hok K))).
        destruct (sv_slots fx st (rm_pool st pe) r pe e h0 s0 nv0 err (rv_nodup _ _ HR) R1 Hpe He S4 Hin0 Hts Bu eq_refl
                    (fun y Hy Ny => proj2 (in_pool_remove _ _ _) (conj Hy (fun E => Ny (nodup_id_eq _ y pe (rv_nodup _ _ HR) Hy Hpe E)))) tk h s nv Hin) as [G1 _].
        fold bl tk0 errs1 in G1. pose proof (slot_of_spec bl tk h 0 (ex_intro _ s (ex_intro _ nv Hin))) as Rg.
        destruct (zget errs1 (slot_of bl tk h 0)) as [v|] eqn:Zg.
        - f_equal. apply (first_err_ok _ _ FE (slot_of bl tk h 0) v); [lia|exact Zg].
        - exfalso. destruct (G1 eq_refl) as [y [Y1 [Y2 [Y3 [Y4 Y5]]]]]. cbn in Y1. apply in_pool_remove in Y1. destruct Y1 as [Y1 Ny].
          assert (Ay: att_enc r (p_rpc y) = Some e).
          { unfold att_enc. rewrite Y3. change (K_SetVersion =? K_PackTracts) with false. change (K_SetVersion =? K_RSEncode) with false.
            change (K_SetVersion =? K_Commit) with false. change (K_SetVersion =? K_SetVersion) with true. cbn [orb].
            rewrite Y4, find_enc_tract_eq.
            assert (Pe: tpred tk e = true) by (unfold tpred; rewrite (bump_list_in fx r e _ _ _ _ Hin), S4; reflexivity).
            destruct (find (tpred tk) (rd_encs r)) as [z|] eqn:Fz; [|pose proof (find_none _ _ Fz e He); congruence].
            pose proof Fz as Fz'. apply find_some in Fz'. destruct Fz' as [Hz Pz]. unfold tpred in Pz. apply andb_true_iff in Pz.
            f_equal. apply (nodup_base_eq (rd_encs r)); [exact (ri_nodupb _ _ _ R1)|exact Hz|exact He|].
            apply (ri_wft _ _ _ R1 z e tk Hz He); [tauto|exact (bump_list_in fx r e _ _ _ _ Hin)]. }
          apply (pp_no_other fx st pe r e HR Hpe Hown Hr Hatt y); try assumption; [lia|]. intros ->. apply Ny. reflexivity. }
      change (issue ?s ?rp ?o) with (issue_all s [(rp, o)]).
      apply (pp_upd fx st pe r e HP HR Hr Hatt N9 (e_set e1 5 1 []) (rd_done r) [(mk_commit (rd_gen r) (e_base e), rd_op r)]).
      * repeat split.
      * intros rp o [H|[]]. injection H as <- <-. split; [reflexivity|]. split; [vm_compute; discriminate|]. split; [vm_compute; discriminate|]. split; [vm_compute; discriminate|]. intros K. vm_compute in K. discriminate.
      * intros x Hx Nx Ox _ Ax. exfalso. apply (pp_no_other fx st pe r e HR Hpe Hown Hr Hatt x); try assumption. lia.
      * intros _ i. apply (Src1 (e_set e1 5 1 [])); try reflexivity. right. split; [reflexivity|exact AllOk].
      * cbn. intros K. discriminate.
Qed.
End PHandlers.

(* ------------------------------------------------------------------ phase 1: a Stat reply *)
Lemma PR1_noencs fx st r : rd_encs r = [] ->
  (forall pe1 pe2, In pe1 (s_pool st) -> In pe2 (s_pool st) -> p_owner pe1 = rd_op r -> p_owner pe2 = rd_op r ->
     k_kind (p_rpc pe1) = K_PackTracts -> k_kind (p_rpc pe2) = K_PackTracts -> chunk_of (p_rpc pe1) = chunk_of (p_rpc pe2) -> pe1 = pe2) ->
  (forall p h s, In p (rd_tracts r) -> zget (pt_stamps p) h = Some s ->
     exists rep, rget (s_reps st) (h, pt_tk p) = Some rep /\ sle s (stamp_of st h (pt_tk p))) ->
  PR1 fx st r.
Proof.
  intros N U S. constructor.
  - rewrite N. intros e [].
  - rewrite N. intros e [].
  - intros x e _ _ _ A. exfalso. apply att_enc_in in A. rewrite N in A. destruct A.
  - exact U.
  - intros x e _ _ _ A. exfalso. apply att_enc_in in A. rewrite N in A. destruct A.
  - exact S.
  - rewrite N. intros e i [].
  - rewrite N. intros e [].
Qed.

Lemma zget_app_inv (m : list (Z * (Z * Z))) k v k' s : zget (m ++ [(k, v)]) k' = Some s -> zget m k' = Some s \/ (k' = k /\ s = v).
Proof.
  induction m as [|[a b] m IH]; cbn.
  - destruct (k' =? k) eqn:E; [intros H; injection H as <-; right; split; [apply Z.eqb_eq; exact E|reflexivity]|discriminate].
  - destruct (k' =? a); [intros H; left; exact H|exact IH].
Qed.

Lemma PR1_tracts_eq fx st r r' : rd_op r' = rd_op r -> rd_encs r' = [] -> 
  (forall p h s, In p (rd_tracts r') -> zget (pt_stamps p) h = Some s -> exists rep, rget (s_reps st) (h, pt_tk p) = Some rep /\ sle s (stamp_of st h (pt_tk p))) ->
  PR1 fx st r -> PR1 fx st r'.
Proof.
  intros Eo N S P. apply PR1_noencs; [exact N| |exact S]. rewrite Eo. exact (pi_uniq _ _ _ P).
Qed.

Definition dummy_pe : pent := {| p_id := 0; p_rpc := mk_alloc 0 0; p_owner := 0; p_run := false; p_lose := false |}.

Lemma dummy_not_in fx st x : RInv fx st -> In x (s_pool st) -> x <> dummy_pe.
Proof. intros HR Hx E. subst x. pose proof (rv_ids _ _ HR _ Hx). cbn in H. lia. Qed.

(* the round changes its phase but keeps its tracts, has no encode operations, and may issue calls that are not Pack/Encode/GC *)
Lemma PInv_phase fx st st' r r' added :
  PInv fx st -> RInv fx st -> In r (s_rounds st) -> rd_op r' = rd_op r -> rd_gen r' = rd_gen r -> rd_tracts r' = rd_tracts r -> rd_encs r' = [] ->
  pST st' = pST st ->
  (s_rounds st' = upd_round (s_rounds st) r' \/ s_rounds st' = del_round (s_rounds st) (rd_op r)) ->
  s_pool st' = s_pool st ++ added -> (forall x, In x added -> p_owner x = rd_op r /\ notpeg (p_rpc x) = true) ->
  (forall x, In x added -> k_kind (p_rpc x) = K_Alloc -> 0 <= nth 0 (k_aux (p_rpc x)) 0) ->
  (forall x, In x (s_pool st) -> p_owner x = rd_op r -> notpeg (p_rpc x) = true) ->
  PInv fx st'.
Proof.
  intros HP HR Hr Eo Eg Et En HST Hrd Hp Hadd Hal Hown.
  assert (NP: forall x, notpeg (p_rpc x) = true -> k_kind (p_rpc x) <> K_PackTracts /\ k_kind (p_rpc x) <> K_RSEncode /\ k_kind (p_rpc x) <> K_GCTract).
  { intros x N. unfold notpeg in N. apply negb_true_iff, orb_false_iff in N. destruct N as [N N3]. apply orb_false_iff in N. destruct N as [N1 N2].
    apply Z.eqb_neq in N1, N2, N3. auto. }
  apply (PInv_assemble fx st st' r r' dummy_pe added HP HR Hr Eo Eg HST Hrd).
  - intros _ x Hx Ox. rewrite Hp in Hx. apply in_app_or in Hx.
    assert (N: notpeg (p_rpc x) = true) by (destruct Hx as [Hx|Hx]; [exact (Hown x Hx Ox)|exact (proj2 (Hadd x Hx))]).
    destruct (NP x N) as [N1 [N2 _]]. auto.
  - intros x Hx. rewrite Hp in Hx. apply in_app_or in Hx. destruct Hx as [Hx|Hx]; [left; split; [exact Hx|exact (dummy_not_in fx st x HR Hx)]|right; exact Hx].
  - intros x Hx. left. exact (proj1 (Hadd x Hx)).
  - intros x Hx K. exfalso. destruct (NP x (proj2 (Hadd x Hx))) as [_ [_ N3]]. contradiction.
  - rewrite En. intros e2 [].
  - exact Hal.
  - intros _. pose proof (pv_rounds _ _ HP r Hr) as P. pose proof HST as H0. unfold pST in H0. injection H0 as S1 S2 S3 S4 S5 S6.
    apply PR1_noencs; [exact En| |].
    + rewrite Eo. intros x1 x2 H1 H2 O1 O2 K1 K2 C. rewrite Hp in H1, H2. apply in_app_or in H1. apply in_app_or in H2.
      assert (F: forall x, In x added -> k_kind (p_rpc x) = K_PackTracts -> False).
      { intros x Hx K. destruct (NP x (proj2 (Hadd x Hx))) as [N1 _]. contradiction. }
      destruct H1 as [H1|H1]; [|destruct (F x1 H1 K1)]. destruct H2 as [H2|H2]; [|destruct (F x2 H2 K2)].
      exact (pi_uniq _ _ _ P x1 x2 H1 H2 O1 O2 K1 K2 C).
    + rewrite Et. intros p h s Hp0 Zs. destruct (pi_stamp _ _ _ P p h s Hp0 Zs) as [rep [Rg Sl]]. exists rep. rewrite S2, (stamp_of_pST st st' h (pt_tk p) HST). auto.
Qed.

Lemma own_notpk_phase fx st r : RInv fx st -> In r (s_rounds st) -> rd_phase r = 1 \/ rd_phase r = 2 ->
  forall x, In x (s_pool st) -> p_owner x = rd_op r -> notpeg (p_rpc x) = true.
Proof.
  intros HR Hr Ph x Hx Ox. destruct (ri_exp _ _ _ (rv_rounds _ _ HR r Hr) x Hx Ox) as [[K _]|[[K _]|[P _]]].
  - unfold notpeg. rewrite K. reflexivity.
  - unfold notpeg. rewrite K. reflexivity.
  - destruct Ph as [Q|Q]; rewrite Q in P; discriminate.
Qed.

Lemma PInv_after_stats fx st r : PInv fx st -> RInv fx st -> In r (s_rounds st) -> rd_phase r = 1 -> rd_encs r = [] ->
  PInv fx (round_after_stats st r).
Proof.
  intros HP HR Hr Ph En. pose proof (own_notpk_phase fx st r HR Hr (or_introl Ph)) as Hown.
  unfold round_after_stats. destruct (_ =? 0).
  - unfold round_check_over. cbn [rd_encs rd_set forallb].
    apply (PInv_phase fx st _ r (rd_set r 9 (rd_tracts r) [] (rd_done r)) [] HP HR Hr); try reflexivity.
    + right. reflexivity.
    + cbn. rewrite app_nil_r. reflexivity.
    + intros x [].
    + intros x [].
    + exact Hown.
  - apply (PInv_phase fx st _ r (rd_set r 2 (rd_tracts r) [] (rd_done r)) [{| p_id := s_next st; p_rpc := mk_alloc (rd_gen r) (Z.of_nat (length (filter (fun p => 1 <=? pt_len p) (rd_tracts r))) / RS_N * (RS_N + RS_M)); p_owner := rd_op r; p_run := false; p_lose := false |}] HP HR Hr); try reflexivity.
    + left. reflexivity.
    + intros x [<-|[]]. split; reflexivity.
    + intros x [<-|[]] _. cbn. unfold RS_N, RS_M. apply Z.mul_nonneg_nonneg; [apply Z.div_pos; lia|lia].
    + exact Hown.
Qed.

Section PStat.
Variables (fx : fixes) (st : state) (pe : pent) (r : round) (p : ptr).
Hypothesis HP : PInv fx st.
Hypothesis HR : RInv fx st.
Hypothesis Hpe : In pe (s_pool st).
Hypothesis Hown : p_owner pe = rd_op r.
Hypothesis Hr : In r (s_rounds st).
Hypothesis Hk : k_kind (p_rpc pe) = K_CtlStat.
Hypothesis Hph : rd_phase r = 1.
Hypothesis Fp : find_ptr (rd_tracts r) (rpc_tk (p_rpc pe)) = Some p.
Let tk := rpc_tk (p_rpc pe).

Lemma ps_mid pn added st' :
  pt_tk pn = tk ->
  (forall h s, zget (pt_stamps pn) h = Some s -> exists rep, rget (s_reps st) (h, tk) = Some rep /\ sle s (stamp_of st h tk)) ->
  pST st' = pST st -> s_rounds st' = upd_round (s_rounds st) (rd_set r 1 (upd_ptr (rd_tracts r) pn) [] (rd_done r)) ->
  s_pool st' = pool_remove (s_pool st) (p_id pe) ++ added -> (forall x, In x added -> p_owner x = rd_op r /\ notpk (p_rpc x) = true) ->
  PInv fx st'.
Proof.
  intros T1 Hst HST Hrd Hp Hadd.
  set (r' := rd_set r 1 (upd_ptr (rd_tracts r) pn) [] (rd_done r)).
  pose proof (own_notpk_phase fx st r HR Hr (or_introl Hph)) as Hown'.
  assert (Hpool: forall x, In x (s_pool st') -> (In x (s_pool st) /\ x <> pe) \/ In x added).
  { intros x Hx. rewrite Hp in Hx. apply in_app_or in Hx. destruct Hx as [Hx|Hx]; [left|right; exact Hx].
    apply in_pool_remove in Hx. destruct Hx as [Hx Nx]. split; [exact Hx|]. intros ->. apply Nx. reflexivity. }
  apply (PInv_assemble fx st st' r r' pe added HP HR Hr eq_refl eq_refl HST (or_introl Hrd)).
  - intros Hd. exfalso. rewrite Hrd in Hd.
    assert (In r' (upd_round (s_rounds st) r')) by (apply (in_upd_round_self _ r _ Hr); reflexivity).
    unfold r' in H. rewrite Hd in H. unfold del_round in H. apply filter_In in H. destruct H as [_ H]. cbn [rd_op rd_set] in H. rewrite Z.eqb_refl in H. discriminate.
  - exact Hpool.
  - intros x Hx. left. exact (proj1 (Hadd x Hx)).
  - intros x Hx K. exfalso. destruct (Hadd x Hx) as [_ N]. unfold notpk, notpeg in N. rewrite K in N. vm_compute in N. discriminate.
  - intros e2 [].
  - intros x Hx K. exfalso. destruct (Hadd x Hx) as [_ N]. unfold notpk, notpeg in N. rewrite K in N. vm_compute in N. discriminate.
  - intros _. pose proof (pv_rounds _ _ HP r Hr) as P. pose proof HST as H0. unfold pST in H0. injection H0 as S1 S2 S3 S4 S5 S6.
    apply PR1_noencs; [reflexivity| |].
    + cbn [rd_op r' rd_set]. intros x1 x2 H1 H2 O1 O2 K1 K2 C.
      assert (F: forall x, In x (s_pool st') -> k_kind (p_rpc x) = K_PackTracts -> In x (s_pool st)).
      { intros x Hx K. destruct (Hpool x Hx) as [[Hx0 _]|Ha]; [exact Hx0|]. exfalso. destruct (Hadd x Ha) as [_ N]. unfold notpk, notpeg in N. rewrite K in N. vm_compute in N. discriminate. }
      exact (pi_uniq _ _ _ P x1 x2 (F x1 H1 K1) (F x2 H2 K2) O1 O2 K1 K2 C).
    + cbn [rd_tracts r' rd_set]. intros q h s Hq Zs. rewrite S2, (stamp_of_pST st st' h (pt_tk q) HST).
      apply in_upd_ptr in Hq. destruct Hq as [Hq|Hq]; [exact (pi_stamp _ _ _ P q h s Hq Zs)|]. subst q. rewrite T1. exact (Hst h s Zs).
Qed.

Lemma pr_stat h err size stamp : h = k_ts (p_rpc pe) ->
  (err = cl_NoError -> exists rep, rget (s_reps st) (h, tk) = Some rep /\ stamp = stamp_of st h tk) ->
  PInv fx (stat_reply fx (rm_pool st pe) r tk h err size stamp).
Proof.
  intros Eh Hres. unfold stat_reply. fold tk in Fp. rewrite Fp.
  set (vmh := if err =? cl_ErrVersionMismatch then h else pt_vmh p).
  match goal with |- context [match pt_next ?x with _ => _ end] => set (p1 := x) end.
  pose proof (pv_rounds _ _ HP r Hr) as P. pose proof (find_ptr_in _ _ _ Fp) as Pin. pose proof (find_ptr_tk _ _ _ Fp) as Ptk.
  assert (Sp: forall h' s, zget (pt_stamps p) h' = Some s -> exists rep, rget (s_reps st) (h', tk) = Some rep /\ sle s (stamp_of st h' tk)).
  { intros h' s Zs. rewrite <- Ptk. exact (pi_stamp _ _ _ P p h' s Pin Zs). }
  assert (T: pt_tk p1 = tk /\ forall h' s, zget (pt_stamps p1) h' = Some s -> exists rep, rget (s_reps st) (h', tk) = Some rep /\ sle s (stamp_of st h' tk)).
  { unfold p1. destruct (negb (err =? cl_NoError)) eqn:Ee; [cbn; split; [exact Ptk|exact Sp]|].
    destruct ((0 <=? pt_len p) && negb (size =? pt_len p)); cbn; [split; [exact Ptk|exact Sp]|]. split; [exact Ptk|].
    intros h' s Zs. apply zget_app_inv in Zs. destruct Zs as [Zs|[-> ->]]; [exact (Sp h' s Zs)|].
    apply negb_false_iff, Z.eqb_eq in Ee. destruct (Hres Ee) as [rep [Rg Es]]. exists rep. split; [exact Rg|]. rewrite Es. apply sle_refl. }
  destruct T as [T1 T2].
  destruct (pt_next p1) as [|h' l'] eqn:Nx.
  - set (p2 := pt_set p1 (pt_len p1) [] (pt_stamps p1) vmh true).
    set (r' := rd_set r 1 (upd_ptr (rd_tracts r) p2) [] (rd_done r)).
    set (s1 := set_rounds (rm_pool st pe) (upd_round (s_rounds (rm_pool st pe)) r')).
    assert (B: PInv fx s1).
    { apply (ps_mid p2 [] s1 T1 T2); [reflexivity|reflexivity|cbn; rewrite app_nil_r; reflexivity|intros x []]. }
    pose proof (rr_stat_mid fx st pe r p p2 (rd_done r) HR Hpe Hown Hr Hk Hph Fp T1) as BR. fold r' s1 in BR.
    match goal with |- PInv fx (if _ then round_after_stats ?s2 _ else _) => assert (B2: PInv fx s2 /\ RInv fx s2 /\ s_rounds s2 = s_rounds s1) end.
    { destruct ((pt_len p2 <? 0) && negb (vmh =? 0)); [|split; [exact B|split; [exact BR|reflexivity]]]. split; [apply PInv_start_fix; exact B|]. split.
      - apply RInv_start_fix; [exact BR|]. split; [exact (rv_next _ _ BR)|]. intros x Hx Hid. pose proof (rv_ids _ _ BR x Hx). lia.
      - apply (fr_start_fix _ s_rounds); fr. }
    destruct B2 as [B2 [BR2 B3]].
    destruct (all_stats_done r') eqn:AD; [|exact B2].
    apply PInv_after_stats; [exact B2|exact BR2| |reflexivity|reflexivity].
    rewrite B3. unfold s1. cbn [s_rounds set_rounds rm_pool set_pool]. apply (in_upd_round_self _ r r' Hr). reflexivity.
  - apply (ps_mid p1 [{| p_id := s_next st; p_rpc := mk_stat (rd_gen r) h' tk (pt_ver p); p_owner := rd_op r; p_run := false; p_lose := false |}] _ T1 T2); [reflexivity|reflexivity|reflexivity|].
    intros x [<-|[]]. split; reflexivity.
Qed.
End PStat.

(* ------------------------------------------------------------------ phase 2: the Alloc reply *)
Section AssembleAlloc.
Variables (fx : fixes) (st st' : state) (r r' : round) (pe : pent) (added : list pent) (base want : Z).
Hypothesis HP : PInv fx st.
Hypothesis HR : RInv fx st.
Hypothesis Hr : In r (s_rounds st).
Hypothesis Eop : rd_op r' = rd_op r.
Hypothesis Egen : rd_gen r' = rd_gen r.
Hypothesis HST : pST st' = pST st.
Hypothesis Hrounds : s_rounds st' = upd_round (s_rounds st) r' \/ s_rounds st' = del_round (s_rounds st) (rd_op r).
Hypothesis Hdel : s_rounds st' = del_round (s_rounds st) (rd_op r) ->
  forall x, In x (s_pool st') -> p_owner x = rd_op r -> k_kind (p_rpc x) <> K_PackTracts /\ k_kind (p_rpc x) <> K_RSEncode.
Hypothesis Hpool : forall x, In x (s_pool st') -> (In x (s_pool st) /\ x <> pe) \/ In x added.
Hypothesis Hadd : forall x, In x added -> p_owner x = rd_op r /\ k_kind (p_rpc x) <> K_GCTract /\ k_kind (p_rpc x) <> K_Alloc.
Hypothesis Hnew : forall e2, In e2 (rd_encs r') -> base <= e_base e2.
Hypothesis Hold : forall r0 e0, In r0 (s_rounds st) -> rd_op r0 <> rd_op r -> In e0 (rd_encs r0) -> e_base e0 + (RS_N + RS_M) <= base.
Hypothesis Hgc : forall x, In x (s_pool st) -> k_kind (p_rpc x) = K_GCTract -> chunk_of (p_rpc x) < base.
Hypothesis HPR : s_rounds st' = upd_round (s_rounds st) r' -> PR1 fx st' r'.

Lemma aa_round r2 : In r2 (s_rounds st') -> (r2 = r' /\ s_rounds st' = upd_round (s_rounds st) r') \/ (In r2 (s_rounds st) /\ rd_op r2 <> rd_op r).
Proof.
  intros H2. destruct Hrounds as [Hu|Hd]; rewrite ?Hu, ?Hd in H2.
  - destruct (Z.eq_dec (rd_op r2) (rd_op r)) as [E|E].
    + left. split; [|exact Hu]. apply (upd_round_own _ _ _ H2). congruence.
    + right. apply in_upd_round in H2. destruct H2 as [H2|H2]; [auto|]. subst r2. congruence.
  - right. unfold del_round in H2. apply filter_In in H2. destruct H2 as [H2 N]. split; [exact H2|]. apply negb_true_iff, Z.eqb_neq in N. exact N.
Qed.

Lemma range_lo e c : in_range e c = true -> e_base e <= c < e_base e + (RS_N + RS_M).
Proof. unfold in_range. intros H. apply andb_true_iff in H. destruct H as [H1 H2]. apply Z.leb_le in H1. apply Z.ltb_lt in H2. lia. Qed.

Lemma PInv_assemble_alloc : PInv fx st'.
Proof.
  pose proof HP as [A A' B C D Al E]. pose proof HST as HST0. unfold pST in HST0. injection HST0 as S1 S2 S3 S4 S5 S6.
  constructor.
  - destruct Hrounds as [Hu|Hd]; rewrite ?Hu, ?Hd; [rewrite (map_upd_round rd_gen _ r' r A' Hr Eop Egen); exact A|apply nodup_map_filter; exact A].
  - destruct Hrounds as [Hu|Hd]; rewrite ?Hu, ?Hd; [rewrite (map_upd_round rd_op _ r' r A' Hr Eop Eop); exact A'|apply nodup_map_filter; exact A'].
  - intros r1 r2 e1 e2 c H1 H2 He1 He2 C1 C2. apply range_lo in C1. apply range_lo in C2.
    destruct (aa_round r1 H1) as [[-> _]|[O1 N1]], (aa_round r2 H2) as [[-> _]|[O2 N2]].
    + reflexivity.
    + exfalso. pose proof (Hnew e1 He1). pose proof (Hold r2 e2 O2 N2 He2). lia.
    + exfalso. pose proof (Hnew e2 He2). pose proof (Hold r1 e1 O1 N1 He1). lia.
    + apply (B r1 r2 e1 e2 c O1 O2 He1 He2); unfold in_range; apply andb_true_iff; split; [apply Z.leb_le|apply Z.ltb_lt|apply Z.leb_le|apply Z.ltb_lt]; lia.
  - intros x Hx Kx.
    assert (Own: exists r0, In r0 (s_rounds st) /\ p_owner x = rd_op r0).
    { destruct (Hpool x Hx) as [[Hx0 _]|Ha]; [exact (C x Hx0 Kx)|]. exists r. split; [exact Hr|exact (proj1 (Hadd x Ha))]. }
    destruct Own as [r0 [H0 O0]]. destruct (Z.eq_dec (rd_op r0) (rd_op r)) as [E0|E0].
    + destruct Hrounds as [Hu|Hd].
      * exists r'. split; [rewrite Hu; apply (in_upd_round_self _ r r' Hr); congruence|congruence].
      * exfalso. destruct (Hdel Hd x Hx ltac:(congruence)) as [N1 N2]. destruct Kx; contradiction.
    + exists r0. split; [|exact O0]. destruct Hrounds as [Hu|Hd]; rewrite ?Hu, ?Hd.
      * apply in_upd_round_other; [exact H0|congruence].
      * unfold del_round. apply filter_In. split; [exact H0|]. apply negb_true_iff, Z.eqb_neq. exact E0.
  - intros x Hx Kx. rewrite S6. destruct (Hpool x Hx) as [[Hx0 _]|Ha]; [|exfalso; exact (proj1 (proj2 (Hadd x Ha)) Kx)].
    destruct (D x Hx0 Kx) as [D1 D2]. split; [exact D1|]. intros r2 e2 H2 He2 L2.
    destruct (aa_round r2 H2) as [[-> _]|[O2 N2]]; [|exact (D2 r2 e2 O2 He2 L2)].
    destruct (in_range e2 (chunk_of (p_rpc x))) eqn:I2; [|reflexivity]. exfalso. apply range_lo in I2. pose proof (Hnew e2 He2). pose proof (Hgc x Hx0 Kx). lia.
  - intros x Hx Kx. destruct (Hpool x Hx) as [[Hx0 _]|Ha]; [exact (Al x Hx0 Kx)|exfalso; exact (proj2 (proj2 (Hadd x Ha)) Kx)].
  - intros r2 H2. destruct (aa_round r2 H2) as [[-> Hu]|[Ho No]]; [exact (HPR Hu)|].
    apply (PR1_other fx st st' r2 HST); [|exact (E r2 Ho)].
    intros x Hx O. destruct (Hpool x Hx) as [[Hx0 _]|Ha]; [exact Hx0|]. exfalso. destruct (Hadd x Ha) as [O2 _]. congruence.
Qed.
End AssembleAlloc.

Lemma packs_of_nth gen op base hosts : forall i rp o, 0 <= i -> In (rp, o) (packs_of gen op base i hosts) ->
  exists j, i <= j < RS_N /\ (Z.to_nat (j - i) < length hosts)%nat /\ rp = mk_pack gen (nth (Z.to_nat (j - i)) hosts 0) (base + j).
Proof.
  induction hosts as [|h t IH]; intros i rp o Hi H; [destruct H|]. cbn [packs_of] in H. apply in_app_or in H. destruct H as [H|H].
  - destruct (i <? RS_N) eqn:E; [|destruct H]. destruct H as [H|[]]. injection H as <- _. apply Z.ltb_lt in E.
    exists i. split; [lia|]. replace (i - i) with 0 by lia. cbn. split; [lia|reflexivity].
  - destruct (IH (i + 1) rp o ltac:(lia) H) as [j [Hj [Hl Er]]]. exists j. split; [lia|].
    replace (Z.to_nat (j - i)) with (S (Z.to_nat (j - (i + 1)))) by lia. cbn [nth length]. split; [lia|exact Er].
Qed.

Lemma packs_of_chunks_sorted gen op base hosts : forall i, 0 <= i ->
  NoDup (map (fun x : rpc * Z => chunk_of (fst x)) (packs_of gen op base i hosts)) /\
  forall x, In x (packs_of gen op base i hosts) -> base + i <= chunk_of (fst x) < base + RS_N.
Proof.
  induction hosts as [|h t IH]; intros i Hi; cbn [packs_of map]; [split; [constructor|intros x []]|].
  destruct (IH (i + 1) ltac:(lia)) as [N B]. destruct (i <? RS_N) eqn:E; cbn [app map].
  - apply Z.ltb_lt in E. split.
    + constructor; [|exact N]. intros K. apply in_map_iff in K. destruct K as [y [Ey Hy]]. specialize (B y Hy). cbn [fst] in Ey.
      unfold chunk_of in Ey at 2. cbn in Ey. lia.
    + intros x [<-|Hx]; [unfold chunk_of; cbn; lia|]. specialize (B x Hx). lia.
  - split; [exact N|]. intros x Hx. specialize (B x Hx). lia.
Qed.

Lemma NoDup_flat_map_gen {A} (g : A -> list Z) (l : list A) :
  NoDup l -> (forall a, In a l -> NoDup (g a)) -> (forall a b z, In a l -> In b l -> In z (g a) -> In z (g b) -> a = b) -> NoDup (flat_map g l).
Proof.
  induction l as [|a l IH]; intros N Hn Hd; cbn [flat_map]; [constructor|]. inversion N as [|? ? N1 N2]; subst.
  apply NoDup_app_disj.
  - apply Hn. left. reflexivity.
  - apply IH; [exact N2|intros b Hb; apply Hn; right; exact Hb|intros b c z Hb Hc; apply Hd; right; assumption].
  - intros z Hz K. apply in_flat_map in K. destruct K as [b [Hb Hzb]].
    assert (a = b) by (apply (Hd a b z); [left; reflexivity|right; exact Hb|exact Hz|exact Hzb]). subst b. contradiction.
Qed.

Lemma mk_ents_chunk_inj rs : NoDup (map (fun x : rpc * Z => chunk_of (fst x)) rs) -> forall n x1 x2,
  In x1 (mk_ents n rs) -> In x2 (mk_ents n rs) -> chunk_of (p_rpc x1) = chunk_of (p_rpc x2) -> x1 = x2.
Proof.
  induction rs as [|[rp o] rs IH]; intros N n x1 x2 H1 H2 C; [destruct H1|]. cbn [map fst] in N. inversion N as [|? ? N1 N2]; subst.
  cbn [mk_ents] in H1, H2. destruct H1 as [<-|H1], H2 as [<-|H2].
  - reflexivity.
  - exfalso. apply N1. cbn [p_rpc] in C. rewrite C. apply mk_ents_in in H2. apply in_map_iff. exists (p_rpc x2, p_owner x2). auto.
  - exfalso. apply N1. cbn [p_rpc] in C. rewrite <- C. apply mk_ents_in in H1. apply in_map_iff. exists (p_rpc x1, p_owner x1). auto.
  - exact (IH N2 (n + 1) x1 x2 H1 H2 C).
Qed.

Section PAlloc.
Variables (fx : fixes) (st : state) (pe : pent) (r : round) (base want : Z) (encs : list (list Z * list (tkt * Z))).
Hypothesis HP : PInv fx st.
Hypothesis HR : RInv fx st.
Hypothesis Hpe : In pe (s_pool st).
Hypothesis Hown : p_owner pe = rd_op r.
Hypothesis Hr : In r (s_rounds st).
Hypothesis Hk : k_kind (p_rpc pe) = K_Alloc.
Hypothesis Hph : rd_phase r = 2.
Hypothesis Hnd : NoDup (flat_map (fun x : list Z * list (tkt * Z) => map fst (snd x)) encs).
Hypothesis Hlen : Z.of_nat (length encs) * (RS_N + RS_M) = want.
Hypothesis Hshape : forall hs cs, In (hs, cs) encs -> hs = [] \/ (Z.of_nat (length hs) = RS_N + RS_M /\ Z.of_nat (length cs) = RS_N).
Hypothesis Hres : base + want <= s_nextchunk st.
Let eops := mk_eops r base 0 encs.
Let r' := rd_set r 3 (rd_tracts r) eops (rd_done r).
Let P1 : PR1 fx st r := pv_rounds _ _ HP r Hr.

Lemma pa_eop e : In e eops -> exists k hs cs, nth_error encs k = Some (hs, cs) /\ e = mk_eop r base k (hs, cs).
Proof. intros He. destruct (mk_eops_in _ _ _ _ _ He) as [k [[hs cs] [Nk ->]]]. exists k, hs, cs. auto. Qed.

Lemma pa_chunks : NoDup (map (fun x : rpc * Z => chunk_of (fst x)) (pack_list (rd_gen r) (rd_op r) eops)).
Proof.
  unfold pack_list. rewrite flat_map_concat_map, concat_map, map_map, <- flat_map_concat_map.
  apply NoDup_flat_map_gen.
  - eapply NoDup_map_inv. apply (mk_eops_nodup r base 0 encs).
  - intros a _. exact (proj1 (packs_of_chunks_sorted (rd_gen r) (rd_op r) (e_base a) (e_hosts a) 0 ltac:(lia))).
  - intros a b z Ha Hb Za Zb. apply in_map_iff in Za. destruct Za as [xa [Ea Hxa]]. apply in_map_iff in Zb. destruct Zb as [xb [Eb Hxb]].
    pose proof (proj2 (packs_of_chunks_sorted (rd_gen r) (rd_op r) (e_base a) (e_hosts a) 0 ltac:(lia)) xa Hxa) as Ra.
    pose proof (proj2 (packs_of_chunks_sorted (rd_gen r) (rd_op r) (e_base b) (e_hosts b) 0 ltac:(lia)) xb Hxb) as Rb.
    apply (nodup_base_eq eops); [apply mk_eops_nodup|exact Ha|exact Hb|].
    apply (eops_range r base encs a b z Ha Hb); unfold in_range; apply andb_true_iff; unfold RS_N, RS_M in *; split; [apply Z.leb_le|apply Z.ltb_lt|apply Z.leb_le|apply Z.ltb_lt]; lia.
Qed.

Lemma palloc_R1 s' : pST s' = pST st ->
  s_pool s' = pool_remove (s_pool st) (p_id pe) ++ mk_ents (s_next st) (pack_list (rd_gen r) (rd_op r) eops) ->
  PR1 fx s' r'.
Proof.
  intros HST Hp. pose proof HST as H0. unfold pST in H0. injection H0 as S1 S2 S3 S4 S5 S6.
  assert (NoOwn: forall x, In x (pool_remove (s_pool st) (p_id pe)) -> p_owner x <> rd_op r) by (apply (al_no_own fx st pe r HR Hpe Hown Hr Hk Hph)).
  assert (Src: forall x, In x (s_pool s') -> p_owner x = rd_op r -> In x (mk_ents (s_next st) (pack_list (rd_gen r) (rd_op r) eops))).
  { intros x Hx O. rewrite Hp in Hx. apply in_app_or in Hx. destruct Hx as [Hx|Hx]; [exfalso; exact (NoOwn x Hx O)|exact Hx]. }
  constructor.
  - intros e He. cbn [rd_encs r' rd_set] in He. destruct (pa_eop e He) as [k [hs [cs [Nk ->]]]]. rewrite mk_eop_base, S6.
    assert (k < length encs)%nat by (apply nth_error_Some; congruence). unfold RS_N, RS_M in *. nia.
  - intros e He L. cbn [rd_encs r' rd_set] in He. destruct (pa_eop e He) as [k [hs [cs [Nk ->]]]]. cbn [mk_eop e_chunks e_hosts e_stage] in *.
    destruct (Hshape hs cs (nth_error_In _ _ Nk)) as [->|[L1 L2]]; [exfalso; apply L; reflexivity|]. rewrite map_length. unfold RS_N, RS_M in *. split; lia.
  - intros x e Hx O K A. pose proof (Src x Hx O) as Hm. apply mk_ents_in in Hm. unfold pack_list in Hm. apply in_flat_map in Hm. destruct Hm as [e0 [He0 Hm]].
    destruct (packs_of_nth _ _ _ _ 0 _ _ ltac:(lia) Hm) as [j [Hj [Hl Er]]]. replace (j - 0) with j in * by lia.
    assert (A0: att_enc r' (p_rpc x) = Some e0) by (rewrite Er; apply (al_att_pack r base encs e0 j _ He0); lia).
    rewrite A0 in A. injection A as <-. exists j. split; [lia|]. split; [exact Er|].
    destruct (pa_eop e0 He0) as [k [hs [cs [_ ->]]]]. reflexivity.
  - intros x1 x2 H1 H2 O1 O2 _ _ C. exact (mk_ents_chunk_inj _ pa_chunks (s_next st) x1 x2 (Src x1 H1 O1) (Src x2 H2 O2) C).
  - intros x e Hx O K _. exfalso. pose proof (Src x Hx O) as Hm. apply mk_ents_in in Hm. unfold pack_list in Hm. apply in_flat_map in Hm. destruct Hm as [e0 [_ Hm]].
    destruct (packs_of_nth _ _ _ _ 0 _ _ ltac:(lia) Hm) as [j [_ [_ Er]]]. rewrite Er in K. vm_compute in K. discriminate.
  - cbn [rd_tracts r' rd_set]. intros p h s Hp0 Zs. destruct (pi_stamp _ _ _ P1 p h s Hp0 Zs) as [rep [Rg Sl]]. exists rep. rewrite S2, (stamp_of_pST st s' h (pt_tk p) HST). auto.
  - intros e i He L tk off len _ Ps. exfalso. cbn [rd_encs r' rd_set] in He. destruct (pa_eop e He) as [k [hs [cs [_ ->]]]].
    cbn [mk_eop e_stage e_errs] in *. destruct hs; [apply L; reflexivity|]. destruct Ps as [K|[K|[K|[_ K]]]]; discriminate.
  - intros e He S2'. cbn [rd_encs r' rd_set] in He. destruct (pa_eop e He) as [k [hs [cs [_ ->]]]]. cbn [mk_eop e_errs e_wait length map].
    split; [unfold RS_N; lia|]. split; [constructor|intros i v []].
Qed.
End PAlloc.

Lemma pr_alloc fx st pe r err base want hint :
  PInv fx st -> RInv fx st -> In pe (s_pool st) -> p_owner pe = rd_op r -> In r (s_rounds st) ->
  k_kind (p_rpc pe) = K_Alloc -> rd_phase r = 2 ->
  (err = cl_NoError -> base + want <= s_nextchunk st /\
     (forall r0 e0, In r0 (s_rounds st) -> In e0 (rd_encs r0) -> e_base e0 + (RS_N + RS_M) <= base) /\
     (forall x, In x (s_pool st) -> k_kind (p_rpc x) = K_GCTract -> chunk_of (p_rpc x) < base)) ->
  PInv fx (alloc_reply (rm_pool st pe) r err base want hint).
Proof.
  intros HP HR Hpe Hown Hr Hk Hph Hres. unfold alloc_reply.
  assert (NoOwn: forall x, In x (pool_remove (s_pool st) (p_id pe)) -> p_owner x <> rd_op r) by (apply (al_no_own fx st pe r HR Hpe Hown Hr Hk Hph)).
  assert (Del: forall a b c, PInv fx (add_fin (set_rounds (rm_pool st pe) (del_round (s_rounds (rm_pool st pe)) (rd_op r))) a b c)).
  { intros a b c. apply (PInv_assemble_alloc fx st (add_fin (set_rounds (rm_pool st pe) (del_round (s_rounds (rm_pool st pe)) (rd_op r))) a b c) r (rd_set r 9 (rd_tracts r) [] (rd_done r)) pe [] (s_nextchunk st) HP Hr eq_refl eq_refl eq_refl).
    - right. reflexivity.
    - intros _ x Hx O. exfalso. cbn in Hx. exact (NoOwn x Hx O).
    - intros x Hx. left. cbn in Hx. apply in_pool_remove in Hx. destruct Hx as [Hx Nx]. split; [exact Hx|]. intros ->. apply Nx. reflexivity.
    - intros x [].
    - intros e2 [].
    - intros r0 e0 H0 _ He0. exact (pi_ch _ _ _ (pv_rounds _ _ HP r0 H0) e0 He0).
    - intros x Hx K. exact (proj1 (pv_gc _ _ HP x Hx K)).
    - intros Hu. exfalso. cbn [s_rounds add_fin set_fin set_rounds rm_pool set_pool] in Hu.
      assert (In (rd_set r 9 (rd_tracts r) [] (rd_done r)) (del_round (s_rounds st) (rd_op r))) by (rewrite Hu; apply (in_upd_round_self _ r _ Hr); reflexivity).
      unfold del_round in H. apply filter_In in H. destruct H as [_ H]. cbn [rd_op rd_set] in H. rewrite Z.eqb_refl in H. discriminate. }
  destruct (negb (err =? cl_NoError)) eqn:Ee.
  { unfold round_check_over. cbn [rd_encs rd_set forallb rd_op]. apply Del. }
  apply negb_false_iff, Z.eqb_eq in Ee. destruct (Hres Ee) as [Hn [Hold Hgc]].
  cbv zeta. set (encs := match hint with [] => [] | n :: rest => parse_encs (Z.to_nat n) rest end).
  match goal with |- context [if negb ?v then _ else _] => destruct (negb v) eqn:V end; [apply Del|].
  apply negb_false_iff in V. apply andb_true_iff in V. destruct V as [V Vn]. apply andb_true_iff in V. destruct V as [Vl Vs].
  apply nodup_fix_NoDup in Vn. apply Z.eqb_eq in Vl.
  match goal with |- context [(fix go (i : nat) (l : list (list Z * list (tkt * Z))) {struct l} : list encop := _) O encs] =>
    set (eops := (fix go (i : nat) (l : list (list Z * list (tkt * Z))) {struct l} : list encop := _) O encs) end.
  assert (Ee2: eops = mk_eops r base 0 encs).
  { unfold eops. generalize encs. generalize 0%nat. intros i l0. revert i. induction l0 as [|a t IH]; intros i; [reflexivity|]. cbn [mk_eops]. rewrite <- IH. destruct a. reflexivity. }
  rewrite Ee2. rewrite pack_list_fold.
  set (r' := rd_set r 3 (rd_tracts r) (mk_eops r base 0 encs) (rd_done r)).
  set (rs := pack_list (rd_gen r) (rd_op r) (mk_eops r base 0 encs)).
  set (s0 := set_rounds (rm_pool st pe) (upd_round (s_rounds (rm_pool st pe)) r')).
  destruct (issue_all_spec rs s0) as [Q1 [Q2 Q3]]. unfold pO in Q3. injection Q3 as O1 O2 O3 O4 O5.
  assert (Nd2: NoDup (flat_map (fun x : list Z * list (tkt * Z) => map fst (snd x)) encs)).
  { erewrite flat_map_ext; [exact Vn|]. intros [hs cs]. reflexivity. }
  assert (Hshape: forall hs cs, In (hs, cs) encs -> hs = [] \/ (Z.of_nat (length hs) = RS_N + RS_M /\ Z.of_nat (length cs) = RS_N)).
  { intros hs cs Hin. rewrite forallb_forall in Vs. specialize (Vs (hs, cs) Hin). cbn beta iota in Vs.
    destruct (Z.of_nat (length hs) =? 0) eqn:L0; [left; apply Z.eqb_eq in L0; destruct hs; [reflexivity|cbn in L0; lia]|right].
    cbn [orb] in Vs. repeat (apply andb_true_iff in Vs; destruct Vs as [Vs ?]). apply Z.eqb_eq in Vs. split; [exact Vs|]. apply Z.eqb_eq. assumption. }
  assert (HST: pST (issue_all s0 rs) = pST st) by (rewrite pST_issue_all; reflexivity).
  assert (Pool: s_pool (issue_all s0 rs) = pool_remove (s_pool st) (p_id pe) ++ mk_ents (s_next st) rs) by (rewrite Q1; reflexivity).
  assert (PRn: PR1 fx (issue_all s0 rs) r') by (apply (palloc_R1 fx st pe r base want encs HP HR Hpe Hown Hr Hk Hph Vl Hshape Hn _ HST Pool)).
  assert (Hpool: forall sx, s_pool sx = s_pool (issue_all s0 rs) -> forall x, In x (s_pool sx) -> (In x (s_pool st) /\ x <> pe) \/ In x (mk_ents (s_next st) rs)).
  { intros sx Es x Hx. rewrite Es, Pool in Hx. apply in_app_or in Hx. destruct Hx as [Hx|Hx]; [left|right; exact Hx].
    apply in_pool_remove in Hx. destruct Hx as [Hx Nx]. split; [exact Hx|]. intros ->. apply Nx. reflexivity. }
  assert (Hadd: forall x, In x (mk_ents (s_next st) rs) -> p_owner x = rd_op r /\ k_kind (p_rpc x) <> K_GCTract /\ k_kind (p_rpc x) <> K_Alloc).
  { intros x Hx. apply mk_ents_in in Hx. unfold rs, pack_list in Hx. apply in_flat_map in Hx. destruct Hx as [e0 [_ Hx]].
    destruct (packs_of_nth _ _ _ _ 0 _ _ ltac:(lia) Hx) as [j [_ [_ Er]]]. destruct (packs_of_in _ _ _ _ 0 _ _ ltac:(lia) Hx) as [Eo _].
    split; [exact Eo|]. rewrite Er. split; vm_compute; discriminate. }
  assert (Hnew: forall e2, In e2 (rd_encs r') -> base <= e_base e2).
  { intros e2 H2. cbn [rd_encs r' rd_set] in H2. destruct (mk_eops_in _ _ _ _ _ H2) as [k [x [_ ->]]]. rewrite mk_eop_base. unfold RS_N, RS_M. lia. }
  unfold round_check_over. destruct (forallb (fun e : encop => e_stage e =? 9) (rd_encs r')) eqn:EB.
  - apply (PInv_assemble_alloc fx st _ r r' pe (mk_ents (s_next st) rs) base HP Hr eq_refl eq_refl); try assumption.
    + right. cbn [s_rounds add_fin set_fin set_rounds]. rewrite O5. cbn [s_rounds s0 set_rounds rm_pool set_pool]. exact (del_upd_round (s_rounds st) r').
    + intros _ x Hx O. cbn [s_pool add_fin set_fin set_rounds] in Hx. destruct (Hpool _ eq_refl x Hx) as [[Hx0 Nx]|Ha].
      * exfalso. apply (NoOwn x); [|exact O]. apply in_pool_remove. split; [exact Hx0|]. intros E. apply Nx. exact (nodup_id_eq _ x pe (rv_nodup _ _ HR) Hx0 Hpe E).
      * (* a Pack entry of an operation: all operations are over, so none was issued *)
        exfalso. apply mk_ents_in in Ha. unfold rs, pack_list in Ha. apply in_flat_map in Ha. destruct Ha as [e0 [He0 Ha]].
        destruct (packs_of_in _ _ _ _ 0 _ _ ltac:(lia) Ha) as [_ [j [h [_ [_ Hne]]]]].
        rewrite forallb_forall in EB. pose proof (EB e0 He0) as S9. apply Z.eqb_eq in S9.
        destruct (eops_stage r base encs e0 He0) as [[K _]|[_ K]]; [contradiction|]. rewrite K in S9. discriminate.
    + exact (Hpool _ eq_refl).
    + intros r0 e0 H0 _ He0. exact (Hold r0 e0 H0 He0).
    + intros Hu. exfalso. cbn [s_rounds add_fin set_fin set_rounds] in Hu. rewrite O5 in Hu. cbn [s_rounds s0 set_rounds rm_pool set_pool] in Hu.
      assert (In r' (upd_round (upd_round (s_rounds st) r') r')) by (apply (in_upd_round_self _ r' _); [apply (in_upd_round_self _ r _ Hr); reflexivity|reflexivity]).
      rewrite upd_upd_round in H. rewrite <- Hu in H. unfold del_round in H. apply filter_In in H. destruct H as [_ H]. rewrite Z.eqb_refl in H. discriminate.
  - apply (PInv_assemble_alloc fx st _ r r' pe (mk_ents (s_next st) rs) base HP Hr eq_refl eq_refl); try assumption.
    + left. cbn [s_rounds set_rounds]. rewrite O5. cbn [s_rounds s0 set_rounds rm_pool set_pool]. apply upd_upd_round.
    + intros Hd. exfalso. cbn [s_rounds set_rounds] in Hd. rewrite O5 in Hd. cbn [s_rounds s0 set_rounds rm_pool set_pool] in Hd. rewrite upd_upd_round in Hd.
      assert (In r' (upd_round (s_rounds st) r')) by (apply (in_upd_round_self _ r _ Hr); reflexivity).
      rewrite Hd in H. unfold del_round in H. apply filter_In in H. destruct H as [_ H]. cbn [rd_op r' rd_set] in H. rewrite Z.eqb_refl in H. discriminate.
    + exact (Hpool _ eq_refl).
    + intros r0 e0 H0 _ He0. exact (Hold r0 e0 H0 He0).
    + intros _. eapply PR1_other; [| |exact PRn]; [reflexivity|]. intros x Hx _. exact Hx.
Qed.

(* ------------------------------------------------------------------ a reply reaches its round *)
Record res_okP (fx : fixes) (st : state) (pe : pent) (res : list Z) : Prop := {
  ro_stat : k_kind (p_rpc pe) = K_CtlStat -> hd cl_ErrRPC res = cl_NoError ->
              exists rep, rget (s_reps st) (k_ts (p_rpc pe), rpc_tk (p_rpc pe)) = Some rep /\
                          (nth 2 res 0, nth 3 res 0) = stamp_of st (k_ts (p_rpc pe)) (rpc_tk (p_rpc pe));
  ro_alloc : k_kind (p_rpc pe) = K_Alloc -> hd cl_ErrRPC res = cl_NoError ->
               nth 1 res 0 + nth 0 (k_aux (p_rpc pe)) 0 <= s_nextchunk st /\
               (forall r0 e0, In r0 (s_rounds st) -> In e0 (rd_encs r0) -> e_base e0 + (RS_N + RS_M) <= nth 1 res 0) /\
               (forall x, In x (s_pool st) -> k_kind (p_rpc x) = K_GCTract -> chunk_of (p_rpc x) < nth 1 res 0);
  ro_pack : k_kind (p_rpc pe) = K_PackTracts -> hd cl_ErrRPC res = cl_NoError ->
              forall r e, find_round (s_rounds st) (p_owner pe) = Some r -> att_enc r (p_rpc pe) = Some e ->
                fresh_piece st r e (chunk_of (p_rpc pe) - e_base e);
  ro_sv : k_kind (p_rpc pe) = K_SetVersion -> hd cl_ErrRPC res = cl_NoError -> aux_nth (p_rpc pe) 1 <> 0 ->
            bumped st (k_ts (p_rpc pe)) (rpc_tk (p_rpc pe)) (k_ver (p_rpc pe)) /\
            stamp_of st (k_ts (p_rpc pe)) (rpc_tk (p_rpc pe)) = (aux_nth (p_rpc pe) 2, aux_nth (p_rpc pe) 3)
}.

Lemma PInv_round_reply fx st pe r res hint :
  PInv fx st -> RInv fx st -> In pe (s_pool st) -> find_round (s_rounds st) (p_owner pe) = Some r -> res_okP fx st pe res ->
  PInv fx (round_reply fx (rm_pool st pe) (p_owner pe) (p_rpc pe) res hint).
Proof.
  intros HP HR Hpe Fr [Rs Ra Rp Rv]. pose proof (find_round_in _ _ _ Fr) as Hr. pose proof (find_round_op _ _ _ Fr) as Ho. symmetry in Ho.
  unfold round_reply. change (s_rounds (rm_pool st pe)) with (s_rounds st). rewrite Fr.
  set (rp := p_rpc pe) in *. pose proof (rv_rounds _ _ HR r Hr) as R1.
  destruct (ri_exp _ _ _ R1 pe Hpe Ho) as [[K [P [p [Fp _]]]]|[[K P]|[P [e [A [K S]]]]]]; fold rp in K.
  - rewrite K. change (K_CtlStat =? K_CtlStat) with true. cbv iota.
    apply (pr_stat fx st pe r p HP HR Hpe Ho Hr K P Fp); [reflexivity|]. intros E. exact (Rs K E).
  - rewrite K. change (K_Alloc =? K_CtlStat) with false. change (K_Alloc =? K_Alloc) with true. cbv iota.
    apply (pr_alloc fx st pe r _ _ _ _ HP HR Hpe Ho Hr K P). intros E. exact (Ra K E).
  - fold rp in A. assert (Kn: k_kind rp <> -1).
    { destruct (att_enc_kind _ _ _ A) as [Q|[Q|[Q|Q]]]; rewrite Q; vm_compute; discriminate. }
    destruct (stage_kind_cases _ _ K Kn) as [[S2 Q]|[[S3 Q]|[[S4 Q]|[S5 Q]]]]; rewrite Q.
    + change (K_PackTracts =? K_CtlStat) with false. change (K_PackTracts =? K_Alloc) with false. change (K_PackTracts =? K_PackTracts) with true. cbv iota.
      assert (A2: find_enc_chunk r (nth 1 (k_aux rp) 0) = Some e) by (unfold att_enc in A; rewrite Q in A; exact A).
      rewrite A2, Ho. apply (pr_pack fx st pe r e HP HR Hpe Ho Hr P A _ S2 Q). intros E. exact (Rp Q E r e Fr A).
    + change (K_RSEncode =? K_CtlStat) with false. change (K_RSEncode =? K_Alloc) with false. change (K_RSEncode =? K_PackTracts) with false.
      change (K_RSEncode =? K_RSEncode) with true. cbv iota.
      assert (A2: find_enc_chunk r (nth 1 (k_aux rp) 0) = Some e) by (unfold att_enc in A; rewrite Q in A; exact A).
      rewrite A2, Ho. exact (pr_encode fx st pe r e HP HR Hpe Ho Hr P A _ S3).
    + change (K_SetVersion =? K_CtlStat) with false. change (K_SetVersion =? K_Alloc) with false. change (K_SetVersion =? K_PackTracts) with false.
      change (K_SetVersion =? K_RSEncode) with false. change (K_SetVersion =? K_SetVersion) with true. cbv iota.
      assert (A2: find_enc_tract r (tkey (k_blob rp) (k_tract rp)) = Some e) by (unfold att_enc in A; rewrite Q in A; exact A).
      rewrite A2, Ho. destruct (S Q) as [h0 [s0 [nv0 [Hin Erp]]]].
      assert (Hts: k_ts rp = h0) by (unfold rp; rewrite Erp; reflexivity).
      assert (Hkv: k_ver rp = nv0) by (unfold rp; rewrite Erp; reflexivity).
      assert (Hst: (aux_nth rp 2, aux_nth rp 3) = s0) by (unfold rp; rewrite Erp; destruct s0; reflexivity).
      refine (pr_sv fx st pe r e HP HR Hpe Ho Hr P A _ h0 s0 nv0 S4 Hin Hts _).
      assert (Ha1: aux_nth rp 1 <> 0) by (unfold rp; rewrite Erp; destruct s0; cbn; discriminate).
      intros E0. destruct (Rv Q E0 Ha1) as [B1 B2]. fold rp in B1, B2. rewrite Hts, Hkv in B1. rewrite Hts, Hst in B2. auto.
    + change (K_Commit =? K_CtlStat) with false. change (K_Commit =? K_Alloc) with false. change (K_Commit =? K_PackTracts) with false.
      change (K_Commit =? K_RSEncode) with false. change (K_Commit =? K_SetVersion) with false. change (K_Commit =? K_Commit) with true. cbv iota.
      assert (A2: find_enc_chunk r (nth 0 (k_aux rp) 0) = Some e) by (unfold att_enc in A; rewrite Q in A; exact A).
      rewrite A2. exact (pr_commit fx st pe r e HP HR Hpe Ho Hr P A _ S5).
Qed.

Lemma PInv_deliver fx st pe res en hint :
  PInv fx st -> RInv fx st -> DInv st -> In pe (s_pool st) -> res_okP fx st pe res -> PInv fx (deliver fx st pe res en hint).
Proof.
  intros HP HR HD Hpe Hres. unfold deliver. change (set_pool st (pool_remove (s_pool st) (p_id pe)) (s_next st)) with (rm_pool st pe).
  destruct (p_owner pe =? 0); [apply PInv_rm; exact HP|].
  destruct (p_owner pe <? 0); [apply PInv_fix_reply; [apply DInv_pool_remove; exact HD|apply PInv_rm; exact HP]|].
  destruct (find_wop (s_wops (rm_pool st pe)) (p_owner pe)); [apply PInv_cli_reply; apply PInv_rm; exact HP|].
  destruct (find_round (s_rounds st) (p_owner pe)) as [r|] eqn:Fr.
  - exact (PInv_round_reply fx st pe r res hint HP HR Hpe Fr Hres).
  - unfold round_reply. change (s_rounds (rm_pool st pe)) with (s_rounds st). rewrite Fr. apply PInv_rm. exact HP.
Qed.

(* ------------------------------------------------------------------ the Store side: executions *)
Lemma PInv_store fx st st' :
  s_rounds st' = s_rounds st -> s_pool st' = s_pool st -> s_nextchunk st <= s_nextchunk st' ->
  (forall r e i tk off len, In r (s_rounds st) -> In e (rd_encs r) -> live e -> nth_error (e_chunks e) i = Some (tk, off, len) -> packed_slot e (Z.of_nat i) ->
     pget (s_pieces st') (nth i (e_hosts e) 0, e_base e + Z.of_nat i) = pget (s_pieces st) (nth i (e_hosts e) 0, e_base e + Z.of_nat i)) ->
  (forall r e tk app, In r (s_rounds st) -> In e (rd_encs r) -> src fx st r e tk app -> src fx st' r e tk app) ->
  (forall r p h s, In r (s_rounds st) -> In p (rd_tracts r) -> zget (pt_stamps p) h = Some s ->
     (exists rep, rget (s_reps st) (h, pt_tk p) = Some rep /\ sle s (stamp_of st h (pt_tk p))) ->
     exists rep, rget (s_reps st') (h, pt_tk p) = Some rep /\ sle s (stamp_of st' h (pt_tk p))) ->
  PInv fx st -> PInv fx st'.
Proof.
  intros Hr Hp Hn Hpc Hsrc Hst [A A' B C D Al E]. constructor; rewrite ?Hr, ?Hp; try assumption.
  - intros x Hx K. destruct (D x Hx K) as [D1 D2]. split; [lia|exact D2].
  - intros r Hr0. destruct (E r Hr0) as [Q1 Q2 Q3 Q4 Q5 Q6 Q7 Q8]. constructor; rewrite ?Hp; try assumption.
    + intros e He. specialize (Q1 e He). lia.
    + intros p h s Hp0 Zs. exact (Hst r p h s Hr0 Hp0 Zs (Q6 p h s Hp0 Zs)).
    + intros e i He L tk off len Ni Ps. destruct (Q7 e i He L tk off len Ni Ps) as [app [tgt [Pg Sr]]]. exists app, tgt.
      rewrite (Hpc r e i tk off len Hr0 He L Ni Ps). split; [exact Pg|exact (Hsrc r e tk app Hr0 He Sr)].
Qed.

Lemma src_srel fx st st' r e tk app : srel st st' ->
  (forall p h s, In p (rd_tracts r) -> zget (pt_stamps p) h = Some s -> exists rep, rget (s_reps st) (h, pt_tk p) = Some rep /\ sle s (stamp_of st h (pt_tk p))) ->
  (forall p h, In p (rd_tracts r) -> frozen st p h app -> frozen st' p h app) ->
  src fx st r e tk app -> src fx st' r e tk app.
Proof.
  intros S Hst Hfz [p [h0 [s0 [rep [Fp [Hf [Zs [Rg [Ca [C5 C4]]]]]]]]]].
  pose proof (find_ptr_in _ _ _ Fp) as Pin. pose proof (find_ptr_tk _ _ _ Fp) as Ptk.
  destruct (S h0 tk rep Rg) as [rep' [G1 [_ [G3 [G4 _]]]]].
  destruct (Hst p h0 s0 Pin Zs) as [_ [_ Sl]]. rewrite Ptk in Sl.
  exists p, h0, s0, rep'. split; [exact Fp|]. split; [exact Hf|]. split; [exact Zs|]. split; [exact G1|]. split.
  - intros Es. assert (E0: stamp_of st h0 tk = s0) by (apply sle_antisym; [rewrite <- Es; exact G3|exact Sl]).
    rewrite G4; [exact (Ca E0)|congruence].
  - split; [intros K; apply Hfz; [exact Pin|exact (C5 K)]|intros K Z0; apply Hfz; [exact Pin|exact (C4 K Z0)]].
Qed.

Lemma stamp_srel st st' p h s : srel st st' ->
  (exists rep, rget (s_reps st) (h, pt_tk p) = Some rep /\ sle s (stamp_of st h (pt_tk p))) ->
  exists rep, rget (s_reps st') (h, pt_tk p) = Some rep /\ sle s (stamp_of st' h (pt_tk p)).
Proof.
  intros S [rep [Rg Sl]]. destruct (S h (pt_tk p) rep Rg) as [rep' [G1 [_ [G3 _]]]]. exists rep'. split; [exact G1|eapply sle_trans; eauto].
Qed.

Lemma classic_dec_dtr st p :
  (exists d, dget st (pt_tk p) = Some d /\ d_ver d = pt_ver p /\ d_rs d = None) \/
  ~ (exists d, dget st (pt_tk p) = Some d /\ d_ver d = pt_ver p /\ d_rs d = None).
Proof.
  destruct (dget st (pt_tk p)) as [d|] eqn:D; [|right; intros [d [K _]]; discriminate].
  destruct (Z.eq_dec (d_ver d) (pt_ver p)) as [E|E]; [|right; intros [d' [K [K2 _]]]; injection K as <-; contradiction].
  destruct (d_rs d) eqn:R; [right; intros [d' [K [_ K3]]]; injection K as <-; congruence|left; exists d; auto].
Qed.

Lemma frozen_reps st st' p h app : s_dtr st' = s_dtr st ->
  (forall rep, rget (s_reps st) (h, pt_tk p) = Some rep -> pt_ver p + 1 <= r_ver rep ->
     (exists d, dget st (pt_tk p) = Some d /\ d_ver d = pt_ver p /\ d_rs d = None) ->
     exists rep', rget (s_reps st') (h, pt_tk p) = Some rep' /\ r_app rep' = r_app rep /\ r_ver rep <= r_ver rep') ->
  frozen st p h app -> frozen st' p h app.
Proof.
  intros Hd H [[rep [Rg [Ra Rv]]]|No]; [|right; unfold dget in *; rewrite Hd; exact No].
  destruct (classic_dec_dtr st p) as [Ex|Nx]; [|right; unfold dget in *; rewrite Hd; exact Nx].
  destruct (H rep Rg Rv Ex) as [rep' [G1 [G2 G3]]]. left. exists rep'. split; [exact G1|]. split; [congruence|lia].
Qed.

Definition pRP (st : state) := (s_rounds st, s_pool st, s_nextchunk st, s_pieces st, s_dtr st).

Lemma PInv_reps fx st st' : pRP st' = pRP st -> srel st st' ->
  (forall r p h app, In r (s_rounds st) -> In p (rd_tracts r) -> frozen st p h app -> frozen st' p h app) ->
  PInv fx st -> PInv fx st'.
Proof.
  intros H S Hfz HP. unfold pRP in H. injection H as H1 H2 H3 H4 H5.
  apply (PInv_store fx st st'); [exact H1|exact H2|lia| | | |exact HP].
  - intros. rewrite H4. reflexivity.
  - intros r e tk app Hr He Sr. apply (src_srel fx st st' r e tk app S); [|intros p h Hp; apply (Hfz r); assumption|exact Sr].
    intros p h s Hp Zs. exact (pi_stamp _ _ _ (pv_rounds _ _ HP r Hr) p h s Hp Zs).
  - intros r p h s _ _ _ Hx. exact (stamp_srel st st' p h s S Hx).
Qed.

Lemma pRP_ts_write st ts tk v w o l : pRP (fst (ts_write st ts tk v w o l)) = pRP st.
Proof.
  unfold ts_write. destruct (rget _ _); [|reflexivity]. destruct (stamp_of st ts tk) as [e c].
  destruct (Cluster.Model.ts_write _ _ _ _ _ _ _). reflexivity.
Qed.
Lemma pRP_ts_setversion st ts i tk nv c : pRP (fst (ts_setversion st ts i tk nv c)) = pRP st.
Proof.
  unfold ts_setversion. destruct (negb _); [reflexivity|]. destruct (nv <=? 1); [reflexivity|].
  match goal with |- context [if ?b then _ else _] => destruct b end; [reflexivity|]. destruct (Cluster.Model.ts_setversion _ _ _ _ _). reflexivity.
Qed.

Lemma PInv_exec_write fx st e : DInv st -> PInv fx st -> In e (s_pool st) -> k_kind (p_rpc e) = K_Write ->
  PInv fx (fst (ts_write st (k_ts (p_rpc e)) (rpc_tk (p_rpc e)) (k_ver (p_rpc e)) (Cluster.Model.k_wid (p_rpc e)) (Cluster.Model.k_off (p_rpc e)) (Cluster.Model.k_len (p_rpc e)))).
Proof.
  intros HD HP He Kw. apply (PInv_reps fx st); [apply pRP_ts_write|apply srel_ts_write| |exact HP].
  intros r p h app Hr Hp. apply (frozen_reps st); [apply (fr_ts_write _ s_dtr); fr|].
  intros rep Rg Rv [d [Dg [Dv Dr]]].
  destruct (Xts_write_app st (k_ts (p_rpc e)) (rpc_tk (p_rpc e)) (k_ver (p_rpc e)) (Cluster.Model.k_wid (p_rpc e)) (Cluster.Model.k_off (p_rpc e)) (Cluster.Model.k_len (p_rpc e)) h (pt_tk p) rep Rg) as [rep' [G1 G2]].
  - intros K. injection K as -> Et. destruct (dv_pool _ HD e He Kw) as [d' [D' V']]. rewrite <- Et in D'. unfold dget in Dg. rewrite Dg in D'. injection D' as <-. lia.
  - exists rep'. split; [exact G1|]. split; [exact G2|].
    destruct (srel_ts_write st (k_ts (p_rpc e)) (rpc_tk (p_rpc e)) (k_ver (p_rpc e)) (Cluster.Model.k_wid (p_rpc e)) (Cluster.Model.k_off (p_rpc e)) (Cluster.Model.k_len (p_rpc e)) h (pt_tk p) rep Rg) as [r2 [R1 [R2 _]]].
    rewrite G1 in R1. injection R1 as <-. exact R2.
Qed.

Lemma PInv_exec_sv fx st ts tsid tk nv cond : PInv fx st -> PInv fx (fst (ts_setversion st ts tsid tk nv cond)).
Proof.
  intros HP. apply (PInv_reps fx st); [apply pRP_ts_setversion|apply srel_ts_setversion| |exact HP].
  intros r p h app Hr Hp. apply (frozen_reps st); [apply (fr_ts_setversion _ s_dtr); fr|].
  intros rep Rg Rv _. destruct (Xts_setversion_app st ts tsid tk nv cond h (pt_tk p) rep Rg) as [rep' [G1 G2]]. exists rep'. split; [exact G1|]. split; [exact G2|].
  destruct (srel_ts_setversion st ts tsid tk nv cond h (pt_tk p) rep Rg) as [r2 [R1 [R2 _]]]. rewrite G1 in R1. injection R1 as <-. exact R2.
Qed.

Lemma PInv_restart fx st ts : PInv fx st -> PInv fx (restart_store st ts).
Proof.
  intros HP. apply (PInv_reps fx st); [reflexivity|apply srel_restart| |exact HP].
  intros r p h app _ _. apply (frozen_same st); reflexivity.
Qed.

(* ------------------------------------------------------------------ pieces *)
Lemma pk_eqb_eq a b : pk_eqb a b = true <-> a = b.
Proof. destruct a, b. unfold pk_eqb. cbn. rewrite andb_true_iff, !Z.eqb_eq. split; [intros [? ?]; subst; reflexivity|intros H; injection H; auto]. Qed.
Lemma pk_eqb_refl a : pk_eqb a a = true. Proof. apply pk_eqb_eq. reflexivity. Qed.

Lemma pget_pdel m k k' : pget (pdel m k) k' = if pk_eqb k' k then None else pget m k'.
Proof.
  induction m as [|[x v] m IH]; cbn; [destruct (pk_eqb k' k); reflexivity|].
  destruct (pk_eqb k x) eqn:E.
  - rewrite IH. destruct (pk_eqb k' k) eqn:E2; [reflexivity|]. destruct (pk_eqb k' x) eqn:E3; [|reflexivity].
    apply pk_eqb_eq in E, E3. subst. rewrite pk_eqb_refl in E2. discriminate.
  - cbn. destruct (pk_eqb k' x) eqn:E3; [|exact IH]. destruct (pk_eqb k' k) eqn:E2; [|reflexivity].
    apply pk_eqb_eq in E2, E3. subst. rewrite pk_eqb_refl in E. discriminate.
Qed.
Lemma pget_pset m k v k' : pget (pset m k v) k' = if pk_eqb k' k then Some v else pget m k'.
Proof. unfold pset. cbn. destruct (pk_eqb k' k) eqn:E; [reflexivity|]. rewrite pget_pdel, E. reflexivity. Qed.

Definition pQ (st : state) := (s_reps st, s_stamps st, s_epoch st, s_dtr st).
Lemma src_pQ fx st st' r e tk app : pQ st' = pQ st -> src fx st r e tk app -> src fx st' r e tk app.
Proof.
  intros HQ [p [h0 [s0 [rep [Fp [Hf [Zs [Rg [Ca [C5 C4]]]]]]]]]]. unfold pQ in HQ. injection HQ as H1 H2 H3 H4.
  assert (Es: stamp_of st' h0 tk = stamp_of st h0 tk) by (unfold stamp_of, epoch_of; rewrite H2, H3; reflexivity).
  assert (Fz: forall a, frozen st p h0 a -> frozen st' p h0 a) by (intros a; apply frozen_same; assumption).
  exists p, h0, s0, rep. rewrite H1, Es. repeat split; try assumption; intros; apply Fz; auto.
Qed.

(* a step that only touches pieces outside the packed slots of live operations *)
Lemma PInv_pieces fx st st' :
  s_rounds st' = s_rounds st -> s_pool st' = s_pool st -> s_nextchunk st' = s_nextchunk st -> pQ st' = pQ st ->
  (forall r e i tk off len, In r (s_rounds st) -> In e (rd_encs r) -> live e -> nth_error (e_chunks e) i = Some (tk, off, len) -> packed_slot e (Z.of_nat i) ->
     pget (s_pieces st') (nth i (e_hosts e) 0, e_base e + Z.of_nat i) = pget (s_pieces st) (nth i (e_hosts e) 0, e_base e + Z.of_nat i)) ->
  PInv fx st -> PInv fx st'.
Proof.
  intros H1 H2 H3 HQ Hpc HP. apply (PInv_store fx st st' H1 H2); [lia|exact Hpc| | |exact HP].
  - intros r e tk app _ _. apply src_pQ. exact HQ.
  - intros r p h s _ _ _ [rep [Rg Sl]]. pose proof HQ as H0. unfold pQ in H0. injection H0 as Q1 Q2 Q3 Q4. exists rep. rewrite Q1.
    split; [exact Rg|]. unfold stamp_of, epoch_of. rewrite Q2, Q3. exact Sl.
Qed.

(* a chunk id inside the range of a live operation identifies the operation (and its round) *)
Lemma chunk_owner fx st r1 r2 e1 e2 c : PInv fx st -> RInv fx st -> In r1 (s_rounds st) -> In r2 (s_rounds st) ->
  In e1 (rd_encs r1) -> In e2 (rd_encs r2) -> in_range e1 c = true -> in_range e2 c = true -> r1 = r2 /\ e1 = e2.
Proof.
  intros HP HR H1 H2 He1 He2 C1 C2. pose proof (pv_gd _ _ HP r1 r2 e1 e2 c H1 H2 He1 He2 C1 C2) as Eg.
  assert (r1 = r2) by (apply (gen_eq_round (s_rounds st)); [exact (pv_gen _ _ HP)|exact H1|exact H2|exact Eg]). subst r2. split; [reflexivity|].
  pose proof (rv_rounds _ _ HR r1 H1) as R1. apply (nodup_base_eq (rd_encs r1)); [exact (ri_nodupb _ _ _ R1)|exact He1|exact He2|].
  exact (ri_wfc _ _ _ R1 e1 e2 c He1 He2 C1 C2).
Qed.

Lemma round_of_gen_eq fx st r : PInv fx st -> In r (s_rounds st) -> round_of_gen st (rd_gen r) = Some r.
Proof.
  intros HP Hr. unfold round_of_gen. destruct (find (fun r0 => rd_gen r0 =? rd_gen r) (s_rounds st)) as [r0|] eqn:F.
  - apply find_some in F. destruct F as [H0 E]. apply Z.eqb_eq in E. f_equal. apply (gen_eq_round (s_rounds st)); [exact (pv_gen _ _ HP)|exact H0|exact Hr|exact E].
  - exfalso. pose proof (find_none _ _ F r Hr) as K. cbv beta in K. rewrite Z.eqb_refl in K. discriminate.
Qed.

Lemma pack_call fx st pe : PInv fx st -> RInv fx st -> In pe (s_pool st) -> k_kind (p_rpc pe) = K_PackTracts ->
  exists r e i, In r (s_rounds st) /\ p_owner pe = rd_op r /\ att_enc r (p_rpc pe) = Some e /\ e_stage e = 2 /\ 0 <= i < RS_N /\
                p_rpc pe = mk_pack (rd_gen r) (nth (Z.to_nat i) (e_hosts e) 0) (e_base e + i) /\ zget (e_errs e) i = None.
Proof.
  intros HP HR Hpe K. destruct (pv_own _ _ HP pe Hpe (or_introl K)) as [r [Hr O]].
  destruct (ri_exp _ _ _ (rv_rounds _ _ HR r Hr) pe Hpe O) as [[K1 _]|[[K1 _]|[_ [e [A [K1 _]]]]]]; try (rewrite K in K1; vm_compute in K1; discriminate).
  assert (Kn: k_kind (p_rpc pe) <> -1) by (rewrite K; vm_compute; discriminate).
  destruct (stage_kind_cases _ _ K1 Kn) as [[S Q]|[[_ Q]|[[_ Q]|[_ Q]]]]; try (rewrite K in Q; vm_compute in Q; discriminate).
  destruct (pi_pack _ _ _ (pv_rounds _ _ HP r Hr) pe e Hpe O K A) as [i [Hi [Er Z0]]]. exists r, e, i. auto 10.
Qed.

Lemma encode_call fx st pe : PInv fx st -> RInv fx st -> In pe (s_pool st) -> k_kind (p_rpc pe) = K_RSEncode ->
  exists r e, In r (s_rounds st) /\ In e (rd_encs r) /\ e_stage e = 3 /\ p_rpc pe = mk_encode (rd_gen r) (nth (Z.to_nat RS_N) (e_hosts e) 0) (e_base e).
Proof.
  intros HP HR Hpe K. destruct (pv_own _ _ HP pe Hpe (or_intror K)) as [r [Hr O]].
  destruct (ri_exp _ _ _ (rv_rounds _ _ HR r Hr) pe Hpe O) as [[K1 _]|[[K1 _]|[_ [e [A [K1 _]]]]]]; try (rewrite K in K1; vm_compute in K1; discriminate).
  assert (Kn: k_kind (p_rpc pe) <> -1) by (rewrite K; vm_compute; discriminate).
  destruct (stage_kind_cases _ _ K1 Kn) as [[_ Q]|[[S Q]|[[_ Q]|[_ Q]]]]; try (rewrite K in Q; vm_compute in Q; discriminate).
  exists r, e. split; [exact Hr|]. split; [exact (att_enc_in _ _ _ A)|]. split; [exact S|]. exact (pi_enc _ _ _ (pv_rounds _ _ HP r Hr) pe e Hpe O K A).
Qed.

Lemma slot_index_lt fx st r e i tk off len : PInv fx st -> In r (s_rounds st) -> In e (rd_encs r) -> live e ->
  nth_error (e_chunks e) i = Some (tk, off, len) -> Z.of_nat i < RS_N.
Proof.
  intros HP Hr He L Ni. destruct (pi_len _ _ _ (pv_rounds _ _ HP r Hr) e He L) as [Lc _].
  assert (i < length (e_chunks e))%nat by (apply nth_error_Some; congruence). unfold RS_N in *. lia.
Qed.

Lemma in_range_slot e i : 0 <= i < RS_N + RS_M -> in_range e (e_base e + i) = true.
Proof. intros H. unfold in_range. apply andb_true_iff. split; [apply Z.leb_le|apply Z.ltb_lt]; lia. Qed.

Lemma PInv_exec_gc fx st e : PInv fx st -> RInv fx st -> In e (s_pool st) -> k_kind (p_rpc e) = K_GCTract ->
  PInv fx (set_pieces st (pdel (s_pieces st) (k_ts (p_rpc e), aux_nth (p_rpc e) 1))).
Proof.
  intros HP HR He K. apply (PInv_pieces fx st); try reflexivity; [|exact HP].
  intros r e2 i tk off len Hr He2 L Ni Ps. cbn [s_pieces set_pieces set_store]. rewrite pget_pdel.
  destruct (pk_eqb (nth i (e_hosts e2) 0, e_base e2 + Z.of_nat i) (k_ts (p_rpc e), aux_nth (p_rpc e) 1)) eqn:E; [|reflexivity].
  exfalso. apply pk_eqb_eq in E. injection E as _ Ec.
  pose proof (slot_index_lt fx st r e2 i tk off len HP Hr He2 L Ni) as Li.
  pose proof (proj2 (pv_gc _ _ HP e He K) r e2 Hr He2 L) as F. unfold chunk_of, aux_nth in *. rewrite <- Ec in F.
  rewrite in_range_slot in F; [discriminate|unfold RS_N, RS_M in *; lia].
Qed.

Lemma PInv_exec_encode fx st e eo : PInv fx st -> RInv fx st -> In e (s_pool st) -> k_kind (p_rpc e) = K_RSEncode ->
  match round_of_gen st (Cluster.Model.k_gen (p_rpc e)) with Some rd => find_enc_chunk rd (aux_nth (p_rpc e) 1) | None => None end = Some eo ->
  forall v, PInv fx (set_pieces st (fold_left (fun m i => pset m (nth i (e_hosts eo) 0, aux_nth (p_rpc e) 1 + Z.of_nat i) v) (seq (Z.to_nat RS_N) (Z.to_nat RS_M)) (s_pieces st))).
Proof.
  intros HP HR He K Feo v. destruct (encode_call fx st e HP HR He K) as [r [e0 [Hr [He0 [S3 Er]]]]].
  assert (Eb: aux_nth (p_rpc e) 1 = e_base e0) by (rewrite Er; reflexivity).
  assert (Eg: Cluster.Model.k_gen (p_rpc e) = rd_gen r) by (rewrite Er; reflexivity).
  rewrite Eg, (round_of_gen_eq fx st r HP Hr), Eb in Feo.
  destruct (find_enc_chunk_base fx st r e0 (rv_rounds _ _ HR r Hr) He0) as [z [Fz Bz]]. rewrite Fz in Feo. injection Feo as <-.
  assert (z = e0) by (apply (nodup_base_eq (rd_encs r)); [exact (ri_nodupb _ _ _ (rv_rounds _ _ HR r Hr))|exact (proj1 (find_enc_chunk_in _ _ _ Fz))|exact He0|exact Bz]). subst z.
  rewrite Eb. apply (PInv_pieces fx st); try reflexivity; [|exact HP].
  intros r2 e2 i tk off len Hr2 He2 L Ni Ps. cbn [s_pieces set_pieces set_store].
  pose proof (slot_index_lt fx st r2 e2 i tk off len HP Hr2 He2 L Ni) as Li.
  assert (G: forall l m, (forall j, In j l -> (Z.to_nat RS_N <= j < Z.to_nat RS_N + Z.to_nat RS_M)%nat) ->
             pget (fold_left (fun m i0 => pset m (nth i0 (e_hosts e0) 0, e_base e0 + Z.of_nat i0) v) l m) (nth i (e_hosts e2) 0, e_base e2 + Z.of_nat i) =
             pget m (nth i (e_hosts e2) 0, e_base e2 + Z.of_nat i)).
  { induction l as [|j l IH]; intros m Hl; cbn [fold_left]; [reflexivity|]. rewrite IH; [|intros j' Hj'; apply Hl; right; exact Hj'].
    rewrite pget_pset. destruct (pk_eqb _ _) eqn:E; [|reflexivity]. exfalso. apply pk_eqb_eq in E. injection E as _ Ec.
    pose proof (Hl j (or_introl eq_refl)) as Hj.
    destruct (chunk_owner fx st r2 r e2 e0 (e_base e2 + Z.of_nat i) HP HR Hr2 Hr He2 He0) as [_ E2].
    - apply in_range_slot. unfold RS_N, RS_M in *. lia.
    - rewrite Ec. apply in_range_slot. unfold RS_N, RS_M in *. lia.
    - subst e2. unfold RS_N, RS_M in *. lia. }
  apply G. intros j Hj. apply in_seq in Hj. lia.
Qed.

Lemma pack_first_spec st from failed tk ver len h app : pack_first st from failed tk ver len = Some (h, app) ->
  In h from /\ exists rep, rget (s_reps st) (h, tk) = Some rep /\ r_app rep = app /\ r_ver rep = ver.
Proof.
  induction from as [|a l IH]; cbn [pack_first]; [discriminate|].
  destruct (zmem a failed); [intros H; destruct (IH H) as [H1 H2]; split; [right; exact H1|exact H2]|].
  unfold pack_read. destruct (rget (s_reps st) (a, tk)) as [r0|] eqn:R0.
  - destruct ((r_ver r0 =? ver) && (Cluster.Model.app_len (r_app r0) =? len)) eqn:C.
    + intros H. injection H as <- <-. split; [left; reflexivity|]. exists r0. apply andb_true_iff in C. destruct C as [C _]. apply Z.eqb_eq in C. auto.
    + intros H. destruct (IH H) as [H1 H2]. split; [right; exact H1|exact H2].
  - intros H. destruct (IH H) as [H1 H2]. split; [right; exact H1|exact H2].
Qed.

Definition pack_specs (fx : fixes) (st : state) (rp : rpc) : list (tkt * Z * Z * Z * list Z) :=
  match round_of_gen st (Cluster.Model.k_gen rp) with
  | Some rd => match find_enc_chunk rd (aux_nth rp 1) with
               | Some eo => match nth_error (e_chunks eo) (Z.to_nat (aux_nth rp 1 - e_base eo)) with
                            | Some (tk', off, len) => match find_ptr (rd_tracts rd) tk' with
                                                      | Some p => [(tk', off, len, pt_ver p, pack_from fx p)]
                                                      | None => []
                                                      end
                            | None => []
                            end
               | None => []
               end
  | None => []
  end.

Lemma PInv_exec_pack fx st e extra : fx13 fx = true -> PInv fx st -> RInv fx st -> TInv st -> In e (s_pool st) -> k_kind (p_rpc e) = K_PackTracts ->
  PInv fx (fst (ts_pack st (k_ts (p_rpc e)) (aux_nth (p_rpc e) 0) (aux_nth (p_rpc e) 1) (Cluster.Model.k_len (p_rpc e)) (pack_specs fx st (p_rpc e)) extra)) /\
  (snd (ts_pack st (k_ts (p_rpc e)) (aux_nth (p_rpc e) 0) (aux_nth (p_rpc e) 1) (Cluster.Model.k_len (p_rpc e)) (pack_specs fx st (p_rpc e)) extra) = cl_NoError ->
   forall r e0, find_round (s_rounds st) (p_owner e) = Some r -> att_enc r (p_rpc e) = Some e0 ->
     fresh_piece (fst (ts_pack st (k_ts (p_rpc e)) (aux_nth (p_rpc e) 0) (aux_nth (p_rpc e) 1) (Cluster.Model.k_len (p_rpc e)) (pack_specs fx st (p_rpc e)) extra)) r e0 (chunk_of (p_rpc e) - e_base e0)).
Proof.
  intros H13 HP HR HT He K. destruct (pack_call fx st e HP HR He K) as [r [e0 [i [Hr [O [A [S2 [Hi [Er Z0]]]]]]]]].
  pose proof (att_enc_in _ _ _ A) as He0. pose proof (rv_rounds _ _ HR r Hr) as R1.
  assert (L0: live e0) by (unfold live; rewrite S2; discriminate).
  assert (E1: aux_nth (p_rpc e) 1 = e_base e0 + i) by (rewrite Er; reflexivity).
  assert (E0: aux_nth (p_rpc e) 0 = nth (Z.to_nat i) (e_hosts e0) 0) by (rewrite Er; reflexivity).
  assert (Et: k_ts (p_rpc e) = nth (Z.to_nat i) (e_hosts e0) 0) by (rewrite Er; reflexivity).
  assert (Eg: Cluster.Model.k_gen (p_rpc e) = rd_gen r) by (rewrite Er; reflexivity).
  assert (Fc: find_enc_chunk r (e_base e0 + i) = Some e0).
  { unfold att_enc in A. rewrite K in A. change (K_PackTracts =? K_PackTracts) with true in A. cbn [orb] in A. unfold aux_nth in E1. rewrite E1 in A. exact A. }
  destruct (pi_len _ _ _ (pv_rounds _ _ HP r Hr) e0 He0 L0) as [Lc Lh].
  destruct (nth_error (e_chunks e0) (Z.to_nat i)) as [[[tk' off] len]|] eqn:Ni.
  2:{ exfalso. apply nth_error_None in Ni. unfold RS_N in *. lia. }
  assert (Hh: e_hosts e0 <> []) by (intros Q; pose proof (ri_hosts _ _ _ R1 e0 He0 Q); congruence).
  destruct (t_elig _ (HT r Hr) e0 tk' off len He0 Hh (nth_error_In _ _ Ni)) as [p [Fp Lp]].
  assert (Sp: pack_specs fx st (p_rpc e) = [(tk', off, len, pt_ver p, pack_from fx p)]).
  { unfold pack_specs. rewrite Eg, (round_of_gen_eq fx st r HP Hr), E1, Fc. replace (e_base e0 + i - e_base e0) with i by lia. rewrite Ni, Fp. reflexivity. }
  rewrite Sp, E0, E1, Et. unfold ts_pack. rewrite Z.eqb_refl. cbn [negb pack_items].
  (* no packed slot of a live operation lives under the key this execution writes *)
  assert (Stable: forall pcs', (forall k, k <> (nth (Z.to_nat i) (e_hosts e0) 0, e_base e0 + i) -> pget pcs' k = pget (s_pieces st) k) -> PInv fx (set_pieces st pcs')).
  { intros pcs' Hk. apply (PInv_pieces fx st); try reflexivity; [|exact HP].
    intros r2 e2 i2 tk2 off2 len2 Hr2 He2 L2 Ni2 Ps2. cbn [s_pieces set_pieces set_store]. apply Hk. intros Ek. injection Ek as _ Ec.
    pose proof (slot_index_lt fx st r2 e2 i2 tk2 off2 len2 HP Hr2 He2 L2 Ni2) as Li2.
    destruct (chunk_owner fx st r2 r e2 e0 (e_base e2 + Z.of_nat i2) HP HR Hr2 Hr He2 He0) as [_ E2].
    - apply in_range_slot. unfold RS_N, RS_M in *. lia.
    - rewrite Ec. apply in_range_slot. unfold RS_N, RS_M in *. lia.
    - subst e2. assert (Z.of_nat i2 = i) by lia. subst i. destruct Ps2 as [Q|[Q|[Q|[_ Q]]]]; congruence. }
  destruct (pack_first st (pack_from fx p) extra tk' (pt_ver p) len) as [[h0 app]|] eqn:Pf; cbn [fst snd].
  - split.
    + apply Stable. intros k Nk. rewrite pget_pset. destruct (pk_eqb k _) eqn:E; [apply pk_eqb_eq in E; contradiction|reflexivity].
    + intros _ r' e' Fr' A'. pose proof (find_round_in _ _ _ Fr') as Hr'. pose proof (find_round_op _ _ _ Fr') as Ho'.
      assert (r' = r) by (apply (op_eq_round (s_rounds st)); [exact (pv_ops _ _ HP)|exact Hr'|exact Hr|congruence]). subst r'.
      rewrite A in A'. injection A' as <-.
      assert (Ech: chunk_of (p_rpc e) - e_base e0 = i) by (unfold chunk_of, aux_nth in *; lia). rewrite Ech.
      intros tk off0 len0 Ni'. rewrite Ni in Ni'. injection Ni' as <- <- <-.
      exists app, (Cluster.Model.k_len (p_rpc e)). cbn [s_pieces set_pieces set_store]. rewrite pget_pset, pk_eqb_refl. split; [reflexivity|].
      destruct (pack_first_spec _ _ _ _ _ _ _ _ Pf) as [Hin [rep [Rg [Ra _]]]].
      unfold pack_from in Hin. rewrite H13 in Hin. apply filter_In in Hin. destruct Hin as [Hf Hz].
      destruct (zget (pt_stamps p) h0) as [s0|] eqn:Zs; [|discriminate].
      exists p, h0, s0, rep. cbn [s_reps set_pieces set_store]. auto.
  - split; [|intros C; exfalso; vm_compute in C; discriminate].
    apply Stable. intros k Nk. rewrite pget_pdel. destruct (pk_eqb k _) eqn:E; [apply pk_eqb_eq in E; contradiction|reflexivity].
Qed.

Lemma PInv_dtr fx st st' : DInv st ->
  s_rounds st' = s_rounds st -> s_pool st' = s_pool st -> s_nextchunk st <= s_nextchunk st' -> s_pieces st' = s_pieces st ->
  s_reps st' = s_reps st -> s_stamps st' = s_stamps st -> s_epoch st' = s_epoch st -> dstep (s_dtr st) (s_dtr st') ->
  PInv fx st -> PInv fx st'.
Proof.
  intros HD H1 H2 H3 H4 H5 H6 H7 Ds HP. apply (PInv_store fx st st' H1 H2 H3); [intros; rewrite H4; reflexivity| | |exact HP].
  - intros r e tk app Hr He [p [h0 [s0 [rep [Fp [Hf [Zs [Rg [Ca [C5 C4]]]]]]]]]].
    assert (Es: stamp_of st' h0 tk = stamp_of st h0 tk) by (unfold stamp_of, epoch_of; rewrite H6, H7; reflexivity).
    assert (Fz: forall a, frozen st p h0 a -> frozen st' p h0 a).
    { intros a. apply frozen_dstep; [exact H5|exact (dv_rounds _ HD r p Hr (find_ptr_in _ _ _ Fp))|exact Ds]. }
    exists p, h0, s0, rep. rewrite H5, Es. repeat split; try assumption; intros; apply Fz; auto.
  - intros r p h s _ _ _ [rep [Rg Sl]]. exists rep. rewrite H5. split; [exact Rg|]. unfold stamp_of, epoch_of. rewrite H6, H7. exact Sl.
Qed.

Definition pC7 (st : state) := (s_rounds st, s_pool st, s_nextchunk st, s_pieces st, s_reps st, s_stamps st, s_epoch st).

Lemma pC7_commit_rs fx st op term base hosts tracts : pC7 (fst (commit_rs fx st op term base hosts tracts)) = pC7 st.
Proof. unfold commit_rs. destruct (negb _); [reflexivity|]. destruct (negb _); reflexivity. Qed.

Lemma PInv_exec fx st e extra : fx6 fx = true -> fx13 fx = true ->
  PInv fx st -> RInv fx st -> DInv st -> TInv st -> In e (s_pool st) ->
  PInv fx (st_of (exec_rpc fx st e extra)).
Proof.
  intros H6 H13 HP HR HD HT He. unfold exec_rpc, st_of.
  destruct (k_kind (p_rpc e) =? K_Write) eqn:KW.
  { apply Z.eqb_eq in KW. match goal with |- context [let '(a, b) := ?t in _] => destruct t as [s c] eqn:E end. cbn [fst].
    match type of E with ?t = _ => replace s with (fst t) by (rewrite E; reflexivity) end. exact (PInv_exec_write fx st e HD HP He KW). }
  destruct (k_kind (p_rpc e) =? K_SetVersion).
  { match goal with |- context [let '(a, b) := ?t in _] => destruct t as [s c] eqn:E end. cbn [fst].
    match type of E with ?t = _ => replace s with (fst t) by (rewrite E; reflexivity) end. apply PInv_exec_sv. exact HP. }
  destruct (k_kind (p_rpc e) =? K_CtlStat). { destruct (ts_stat st _ _ _) as [[? ?] ?]. exact HP. }
  destruct (k_kind (p_rpc e) =? K_PackTracts) eqn:KP.
  { apply Z.eqb_eq in KP. change (match round_of_gen st (Cluster.Model.k_gen (p_rpc e)) with Some rd => _ | None => [] end) with (pack_specs fx st (p_rpc e)).
    match goal with |- context [let '(a, b) := ?t in _] => destruct t as [s c] eqn:E end. cbn [fst].
    match type of E with ?t = _ => replace s with (fst t) by (rewrite E; reflexivity) end.
    exact (proj1 (PInv_exec_pack fx st e extra H13 HP HR HT He KP)). }
  destruct (k_kind (p_rpc e) =? K_RSEncode) eqn:KE.
  { apply Z.eqb_eq in KE.
    destruct (round_of_gen st (Cluster.Model.k_gen (p_rpc e))) as [rd|] eqn:Frd; cbn [fst]; [|exact HP].
    destruct (find_enc_chunk rd (aux_nth (p_rpc e) 1)) as [eo|] eqn:Feo; cbn [fst]; [|exact HP].
    destruct (negb (k_ts (p_rpc e) =? aux_nth (p_rpc e) 0)); cbn [fst]; [exact HP|]. destruct (negb _); cbn [fst]; [exact HP|].
    apply (PInv_exec_encode fx st e eo HP HR He KE). rewrite Frd. exact Feo. }
  destruct (k_kind (p_rpc e) =? K_GCTract) eqn:KG.
  { apply Z.eqb_eq in KG. destruct (negb _); cbn [fst]; [exact HP|]. exact (PInv_exec_gc fx st e HP HR He KG). }
  destruct (k_kind (p_rpc e) =? K_StatBlob). { destruct (Cluster.Model.zget _ _); exact HP. }
  destruct (k_kind (p_rpc e) =? K_GetTracts).
  { repeat match goal with |- context [match ?x with _ => _ end] => destruct x | |- context [if ?b then _ else _] => destruct b end; exact HP. }
  destruct (k_kind (p_rpc e) =? K_ReportBadTS). { exact HP. }
  destruct (k_kind (p_rpc e) =? K_Alloc) eqn:KA.
  { apply Z.eqb_eq in KA. destruct (find_round _ _) as [rd|]; cbn [fst]; [|exact HP].
    destruct (negb _); cbn [fst]; [exact HP|].
    apply (PInv_dtr fx st); try reflexivity; [exact HD| |apply dstep_refl|exact HP].
    cbn [s_nextchunk set_ghost set_dur]. pose proof (pv_alloc _ _ HP e He KA). unfold aux_nth. lia. }
  destruct (k_kind (p_rpc e) =? K_Commit).
  { destruct (find_round _ _) as [rd|]; cbn [fst]; [|exact HP].
    destruct (find_enc_chunk _ _) as [eo|]; cbn [fst]; [|exact HP].
    match goal with |- context [commit_rs ?a ?b ?c ?d ?e0 ?f ?g] =>
      pose proof (pC7_commit_rs a b c d e0 f g) as M; pose proof (dstep_commit_rs a b c d e0 f g H6) as S; destruct (commit_rs a b c d e0 f g) as [s1 c1] end.
    cbn [fst] in *. unfold pC7 in M. injection M as M1 M2 M3 M4 M5 M6 M7.
    apply (PInv_dtr fx st); try assumption. lia. }
  exact HP.
Qed.

(* ------------------------------------------------------------------ what an execution tells about its result *)
Lemma ts_setversion_match st ts tsid tk nv s st1 : ts_setversion st ts tsid tk nv (Some s) = (st1, cl_NoError) ->
  stamp_of st1 ts tk = s.
Proof.
  unfold ts_setversion. destruct (negb (ts =? tsid)); [intros H; injection H as _ H; exfalso; vm_compute in H; discriminate|].
  destruct (nv <=? 1); [intros H; injection H as _ H; exfalso; vm_compute in H; discriminate|].
  destruct (rget (s_reps st) (ts, tk)) as [r0|]; [|intros H; injection H as _ H; exfalso; vm_compute in H; discriminate].
  destruct (negb (stamp_eqb s (stamp_of st ts tk))) eqn:E; [intros H; injection H as _ H; exfalso; vm_compute in H; discriminate|].
  apply negb_false_iff in E. unfold stamp_eqb in E. apply andb_true_iff in E. destruct E as [E1 E2]. apply Z.eqb_eq in E1, E2.
  destruct (Cluster.Model.ts_setversion (s_reps st) ts tsid tk nv) as [reps c]. intros H. injection H as <- _.
  change (stamp_of (set_reps st reps) ts tk) with (stamp_of st ts tk). destruct s, (stamp_of st ts tk). cbn in *. congruence.
Qed.

Lemma exec_res_okP fx st e extra : fx13 fx = true -> PInv fx st -> RInv fx st -> TInv st -> In e (s_pool st) ->
  res_okP fx (st_of (exec_rpc fx st e extra)) e (res_of (exec_rpc fx st e extra)).
Proof.
  intros H13 HP HR HT He. constructor.
  - intros K. unfold exec_rpc, st_of, res_of. rewrite K. change (K_CtlStat =? K_Write) with false. change (K_CtlStat =? K_SetVersion) with false.
    change (K_CtlStat =? K_CtlStat) with true. cbv iota zeta. unfold ts_stat.
    change (tkey (k_blob (p_rpc e)) (k_tract (p_rpc e))) with (rpc_tk (p_rpc e)).
    destruct (rget (s_reps st) (k_ts (p_rpc e), rpc_tk (p_rpc e))) as [r0|] eqn:R0; cbn [fst snd hd nth].
    + destruct (r_ver r0 =? k_ver (p_rpc e)); cbn [fst snd hd nth]; intros _; exists r0; (split; [exact R0|]); destruct (stamp_of st _ _); reflexivity.
    + intros C. exfalso. vm_compute in C. discriminate.
  - intros K. unfold exec_rpc, st_of, res_of. rewrite K.
    change (K_Alloc =? K_Write) with false. change (K_Alloc =? K_SetVersion) with false. change (K_Alloc =? K_CtlStat) with false.
    change (K_Alloc =? K_PackTracts) with false. change (K_Alloc =? K_RSEncode) with false. change (K_Alloc =? K_GCTract) with false.
    change (K_Alloc =? K_StatBlob) with false. change (K_Alloc =? K_GetTracts) with false. change (K_Alloc =? K_ReportBadTS) with false.
    change (K_Alloc =? K_Alloc) with true. cbv iota.
    destruct (find_round _ _) as [rd|]; cbn [fst snd hd]; [|intros C; exfalso; vm_compute in C; discriminate].
    destruct (negb _); cbn [fst snd hd nth]; [intros C; exfalso; vm_compute in C; discriminate|]. intros _.
    cbn [s_nextchunk s_rounds s_pool set_ghost set_dur]. unfold aux_nth. split; [lia|]. split.
    + intros r0 e0 H0 He0. exact (pi_ch _ _ _ (pv_rounds _ _ HP r0 H0) e0 He0).
    + intros x Hx Kx. exact (proj1 (pv_gc _ _ HP x Hx Kx)).
  - intros K. unfold exec_rpc, st_of, res_of. rewrite K.
    change (K_PackTracts =? K_Write) with false. change (K_PackTracts =? K_SetVersion) with false. change (K_PackTracts =? K_CtlStat) with false.
    change (K_PackTracts =? K_PackTracts) with true. cbv iota.
    change (match round_of_gen st (Cluster.Model.k_gen (p_rpc e)) with Some rd => _ | None => [] end) with (pack_specs fx st (p_rpc e)).
    destruct (PInv_exec_pack fx st e extra H13 HP HR HT He K) as [_ Fr].
    destruct (ts_pack st (k_ts (p_rpc e)) (aux_nth (p_rpc e) 0) (aux_nth (p_rpc e) 1) (Cluster.Model.k_len (p_rpc e)) (pack_specs fx st (p_rpc e)) extra) as [s1 c1] eqn:E.
    cbn [fst snd hd] in *. intros C r e0 Frd A. apply (Fr C r e0); [|exact A].
    assert (Er: s_rounds s1 = s_rounds st) by (replace s1 with (fst (s1, c1)) by reflexivity; rewrite <- E; apply (fr_ts_pack _ s_rounds); fr).
    rewrite <- Er. exact Frd.
  - intros K C Ha. pose proof (exec_sv_ok fx st e extra K C) as B. split; [exact B|].
    unfold exec_rpc, st_of, res_of in *. rewrite K in *. change (K_SetVersion =? K_Write) with false in *. change (K_SetVersion =? K_SetVersion) with true in *. cbv iota in *.
    replace (aux_nth (p_rpc e) 1 =? 0) with false in * by (symmetry; apply Z.eqb_neq; exact Ha).
    match goal with |- context [ts_setversion ?a ?b ?c ?d ?e0 ?f] => destruct (ts_setversion a b c d e0 f) as [s1 c1] eqn:E end.
    cbn [fst snd hd] in *. subst c1. exact (ts_setversion_match _ _ _ _ _ _ _ E).
Qed.

(* ------------------------------------------------------------------ a duplicate execution (mode 3) *)
Lemma pack_first_pieces st pcs from failed tk ver len : pack_first (set_pieces st pcs) from failed tk ver len = pack_first st from failed tk ver len.
Proof. induction from as [|h l IH]; cbn [pack_first]; [reflexivity|]. rewrite IH. reflexivity. Qed.
Lemma pack_items_pieces st pcs specs failed : pack_items (set_pieces st pcs) specs failed = pack_items st specs failed.
Proof.
  induction specs as [|[[[[tk off] len] ver] from] l IH]; cbn [pack_items]; [reflexivity|]. rewrite pack_first_pieces, IH. reflexivity.
Qed.

Lemma exec_pack_eq fx st e extra : k_kind (p_rpc e) = K_PackTracts ->
  exec_rpc fx st e extra =
  (fst (ts_pack st (k_ts (p_rpc e)) (aux_nth (p_rpc e) 0) (aux_nth (p_rpc e) 1) (Cluster.Model.k_len (p_rpc e)) (pack_specs fx st (p_rpc e)) extra),
   [snd (ts_pack st (k_ts (p_rpc e)) (aux_nth (p_rpc e) 0) (aux_nth (p_rpc e) 1) (Cluster.Model.k_len (p_rpc e)) (pack_specs fx st (p_rpc e)) extra)], None,
   dump_piece (fst (ts_pack st (k_ts (p_rpc e)) (aux_nth (p_rpc e) 0) (aux_nth (p_rpc e) 1) (Cluster.Model.k_len (p_rpc e)) (pack_specs fx st (p_rpc e)) extra)) (k_ts (p_rpc e)) (aux_nth (p_rpc e) 1)).
Proof.
  intros K. unfold exec_rpc. rewrite K.
  change (K_PackTracts =? K_Write) with false. change (K_PackTracts =? K_SetVersion) with false. change (K_PackTracts =? K_CtlStat) with false.
  change (K_PackTracts =? K_PackTracts) with true. cbv iota.
  change (match round_of_gen st (Cluster.Model.k_gen (p_rpc e)) with Some rd => _ | None => [] end) with (pack_specs fx st (p_rpc e)).
  cbv zeta. destruct (ts_pack _ _ _ _ _ _ _) as [s1 c1]. reflexivity.
Qed.

Lemma exec_pack_twice fx st e extra : k_kind (p_rpc e) = K_PackTracts ->
  res_of (exec_rpc fx (st_of (exec_rpc fx st e extra)) e extra) = res_of (exec_rpc fx st e extra).
Proof.
  intros K. rewrite (exec_pack_eq fx st e extra K). unfold st_of at 1. cbn [fst]. rewrite (exec_pack_eq fx _ e extra K). unfold res_of. cbn [fst snd].
  f_equal. set (s1 := fst (ts_pack st _ _ _ _ _ _)).
  assert (Er: s_rounds s1 = s_rounds st) by (apply (fr_ts_pack _ s_rounds); fr).
  assert (Es: pack_specs fx s1 (p_rpc e) = pack_specs fx st (p_rpc e)) by (unfold pack_specs, round_of_gen; rewrite Er; reflexivity).
  rewrite Es. unfold s1, ts_pack. destruct (negb _); [reflexivity|].
  destruct (pack_items st _ _) eqn:E; cbn [fst snd]; rewrite pack_items_pieces, E; reflexivity.
Qed.

Lemma ts_setversion_stamps st ts tsid tk nv cond :
  s_stamps (fst (ts_setversion st ts tsid tk nv cond)) = s_stamps st /\ s_epoch (fst (ts_setversion st ts tsid tk nv cond)) = s_epoch st.
Proof.
  unfold ts_setversion. destruct (negb (ts =? tsid)); [auto|]. destruct (nv <=? 1); [auto|].
  destruct (match cond with None => false | Some s => _ end); [auto|].
  destruct (Cluster.Model.ts_setversion (s_reps st) ts tsid tk nv) as [reps c]. cbn. auto.
Qed.

Lemma res_okP_exec2 fx s e extra res : PInv fx s -> In e (s_pool s) -> k_kind (p_rpc e) <> K_PackTracts ->
  res_okP fx s e res -> res_okP fx (st_of (exec_rpc fx s e extra)) e res.
Proof.
  intros HP He NK0 [Rs Ra Rp Rv]. constructor.
  - intros K C. replace (st_of (exec_rpc fx s e extra)) with s; [exact (Rs K C)|].
    unfold exec_rpc, st_of. rewrite K. change (K_CtlStat =? K_Write) with false. change (K_CtlStat =? K_SetVersion) with false.
    change (K_CtlStat =? K_CtlStat) with true. cbv iota zeta. destruct (ts_stat _ _ _ _) as [[c sz] stp]. reflexivity.
  - intros K C. destruct (Ra K C) as [A1 [A2 A3]].
    pose proof (pR_exec_rpc fx s e extra) as P1. unfold pR in P1. injection P1 as Q1 _ Q3 _ _ _.
    assert (N: s_nextchunk s <= s_nextchunk (st_of (exec_rpc fx s e extra))).
    { unfold exec_rpc, st_of. rewrite K.
      change (K_Alloc =? K_Write) with false. change (K_Alloc =? K_SetVersion) with false. change (K_Alloc =? K_CtlStat) with false.
      change (K_Alloc =? K_PackTracts) with false. change (K_Alloc =? K_RSEncode) with false. change (K_Alloc =? K_GCTract) with false.
      change (K_Alloc =? K_StatBlob) with false. change (K_Alloc =? K_GetTracts) with false. change (K_Alloc =? K_ReportBadTS) with false.
      change (K_Alloc =? K_Alloc) with true. cbv iota.
      destruct (find_round _ _) as [rd|]; cbn [fst]; [|lia]. destruct (negb _); cbn [fst]; [lia|].
      cbn [s_nextchunk set_ghost set_dur]. pose proof (pv_alloc _ _ HP e He K). unfold aux_nth. lia. }
    rewrite Q1, Q3. split; [lia|]. split; assumption.
  - intros K. exfalso. exact (NK0 K).
  - intros K C Ha. destruct (Rv K C Ha) as [B1 B2]. split; [exact (bumped_srel _ _ (srel_exec_rpc fx s e extra) _ _ _ B1)|].
    rewrite <- B2. unfold exec_rpc, st_of. rewrite K. change (K_SetVersion =? K_Write) with false. change (K_SetVersion =? K_SetVersion) with true. cbv iota.
    match goal with |- context [ts_setversion ?a ?b ?c ?d ?e0 ?f] => pose proof (ts_setversion_stamps a b c d e0 f) as Q;
      destruct (ts_setversion a b c d e0 f) as [s1 c1] end.
    cbn [fst] in *. destruct Q as [Q1 Q2]. unfold stamp_of, epoch_of. rewrite Q1, Q2. reflexivity.
Qed.

Lemma res_okP_err fx st pe res : hd cl_ErrRPC res <> cl_NoError -> res_okP fx st pe res.
Proof. intros N. constructor; intros _ C; exfalso; exact (N C). Qed.

Lemma PInv_mark_run fx st e b : PInv fx st -> RInv fx st -> In e (s_pool st) -> k_kind (p_rpc e) = K_FixVersion ->
  PInv fx (set_pool st (map (mark_run e b) (s_pool st)) (s_next st)).
Proof.
  intros HP HR He Ke. apply (PInv_pPJ_NK fx st); [reflexivity| |exact HP].
  intros x Hx. cbn [s_pool set_pool] in Hx. apply in_map_iff in Hx. destruct Hx as [y [<- Hy]].
  unfold mark_run. destruct (p_id y =? p_id e) eqn:E; [|left; exact Hy]. right. cbn [p_rpc].
  apply Z.eqb_eq in E. rewrite (nodup_id_eq _ y e (rv_nodup _ _ HR) Hy He E). unfold notpk, notpeg. rewrite Ke. reflexivity.
Qed.

Lemma PInv_step_exec fx st mode l : fx6 fx = true -> fx13 fx = true ->
  PInv fx st -> RInv fx st -> DInv st -> TInv st -> PInv fx (fst (step_exec fx st mode l)).
Proof.
  intros H6 H13 HP HR HD HT. unfold step_exec. destruct (Cluster.Model.parse_rpc l) as [[rp r1]|]; [|exact HP].
  destruct (match r1 with [] => _ | n :: t => _ end) as [extra r2].
  destruct (find_pent (s_pool st) rp) as [e|] eqn:Fe; [|exact HP].
  apply find_pent_in in Fe. destruct Fe as [He Eq].
  destruct (mode =? 4).
  { cbn [fst]. apply PInv_deliver; try assumption. apply res_okP_err. cbn. apply lost_err_ne. }
  destruct (k_kind rp =? K_FixVersion) eqn:Kf.
  { cbn [fst]. apply Z.eqb_eq in Kf. assert (Ke: k_kind (p_rpc e) = K_FixVersion) by (rewrite (rpc_eqb_kind _ _ Eq); exact Kf).
    match goal with |- context [map ?f (s_pool st)] => change f with (mark_run e (mode =? 2)) end.
    apply PInv_start_fix. apply PInv_mark_run; assumption. }
  pose proof (RInv_exec fx st e extra HR) as R1. pose proof (PInv_exec fx st e extra H6 H13 HP HR HD HT He) as P1.
  pose proof (DInv_exec_rpc fx st e extra H6 HD) as D1. pose proof (exec_res_okP fx st e extra H13 HP HR HT He) as N1.
  pose proof (pR_exec_rpc fx st e extra) as Q1. pose proof (exec_pack_twice fx st e extra) as W1.
  unfold st_of, res_of in *.
  destruct (exec_rpc fx st e extra) as [[[st1 res] en] dump] eqn:X1. cbn [fst snd] in *.
  assert (Qp: s_pool st1 = s_pool st /\ s_rounds st1 = s_rounds st) by (unfold pR in Q1; injection Q1 as A1 _ A3 _ _ _; auto).
  destruct Qp as [Qp Qr]. assert (He1: In e (s_pool st1)) by (rewrite Qp; exact He).
  assert (T1: TInv st1) by (eapply TInv_same; [exact Qr|exact HT]).
  destruct (mode =? 3) eqn:M3.
  - pose proof (RInv_exec fx st1 e extra R1) as R2. pose proof (PInv_exec fx st1 e extra H6 H13 P1 R1 D1 T1 He1) as P2.
    pose proof (DInv_exec_rpc fx st1 e extra H6 D1) as D2. pose proof (exec_res_okP fx st1 e extra H13 P1 R1 T1 He1) as N2.
    pose proof (res_okP_exec2 fx st1 e extra res P1 He1) as N3.
    pose proof (pR_exec_rpc fx st1 e extra) as Q2. unfold st_of, res_of in *.
    destruct (exec_rpc fx st1 e extra) as [[[s' res2] en2] d'] eqn:X2. cbn [fst snd] in *.
    assert (He2: In e (s_pool s')) by (unfold pR in Q2; injection Q2 as -> _ _ _ _ _; exact He1).
    replace (if mode =? 2 then [lost_err rp] else res) with res by (destruct (mode =? 2) eqn:M2; [apply Z.eqb_eq in M2, M3; lia|reflexivity]).
    apply PInv_deliver; try assumption.
    destruct (Z.eq_dec (k_kind (p_rpc e)) K_PackTracts) as [Kp|Kp]; [rewrite <- (W1 Kp); exact N2|exact (N3 Kp N1)].
  - apply PInv_deliver; try assumption. destruct (mode =? 2); [apply res_okP_err; cbn; apply lost_err_ne|exact N1].
Qed.

Lemma PInv_step_restart fx st ts : PInv fx st -> RInv fx st -> DInv st -> PInv fx (fst (step_restart fx st ts)).
Proof.
  intros HP HR HD.
  assert (G: PInv fx (fst (step_restart fx st ts)) /\ DInv (fst (step_restart fx st ts))); [|exact (proj1 G)].
  apply (restart_ind fx st ts (fun s => PInv fx s /\ DInv s) HR).
  - split; [exact (PInv_restart fx st ts HP)|eapply DInv_pD; [|exact HD]; reflexivity].
  - intros s e Rs He [Ps Ds]. split.
    + apply PInv_deliver; try assumption. apply res_okP_err. cbn. vm_compute. discriminate.
    + apply DInv_deliver; [exact Ds|apply en_okD_none].
Qed.

(* ------------------------------------------------------------------ a new round *)
Definition pC6 (st : state) := (s_rounds st, s_pool st, s_pieces st, s_reps st, s_stamps st, s_epoch st).

Lemma update_class_nextchunk st op term blob cls : s_nextchunk (fst (update_class st op term blob cls)) = s_nextchunk st.
Proof.
  unfold update_class. destruct (negb _); [reflexivity|]. destruct (zget _ _); [|reflexivity]. destruct (negb _); reflexivity.
Qed.

Lemma add_tracts_nostamps st gen blob p : In p (add_tracts st gen blob) -> pt_stamps p = [].
Proof.
  unfold add_tracts. intros H. apply in_flat_map in H. destruct H as [tk [_ H]].
  destruct (dget st tk) as [d|]; [|destruct H]. destruct (d_rs d); [destruct H|]. destruct H as [<-|[]]. reflexivity.
Qed.

Lemma round_start_fold st op (F : state * list ptr * list Z -> Z -> state * list ptr * list Z) :
  F = (fun '(s, acc, o) blob =>
         match Cluster.Model.zget (s_blobs s) blob with
         | None => (s, acc, o)
         | Some b =>
             if b_cls b =? b_tgt b then (s, acc, o)
             else if all_rs s blob then
               let '(s', _) := update_class s op (s_term st) blob (b_tgt b) in
               (s', acc, o ++ [blob; match Cluster.Model.zget (s_blobs s') blob with Some b' => b_cls b' | None => -1 end])
             else if b_cls b =? c14_ClassREPLICATED then (s, acc ++ add_tracts s (s_gen st) blob, o)
             else (s, acc, o)
         end) ->
  forall l acc,
    (pC6 (fst (fst acc)) = pC6 st /\ s_nextchunk (fst (fst acc)) = s_nextchunk st /\ dstep (s_dtr st) (s_dtr (fst (fst acc))) /\
     forall p, In p (snd (fst acc)) -> pt_stamps p = []) ->
    pC6 (fst (fst (fold_left F l acc))) = pC6 st /\ s_nextchunk (fst (fst (fold_left F l acc))) = s_nextchunk st /\
    dstep (s_dtr st) (s_dtr (fst (fst (fold_left F l acc)))) /\ forall p, In p (snd (fst (fold_left F l acc))) -> pt_stamps p = [].
Proof.
  intros EF. induction l as [|a l IH]; intros acc Hacc; cbn [fold_left]; [exact Hacc|].
  apply IH. destruct acc as [[s a0] o]. cbn [fst snd] in Hacc. destruct Hacc as [H1 [H2 [H3 H4]]]. rewrite EF. cbn [fst snd].
  assert (Keep: pC6 s = pC6 st /\ s_nextchunk s = s_nextchunk st /\ dstep (s_dtr st) (s_dtr s) /\ forall p, In p a0 -> pt_stamps p = []) by auto.
  destruct (zget (s_blobs s) a); [|exact Keep].
  destruct (b_cls b =? b_tgt b); [exact Keep|].
  destruct (all_rs s a).
  - pose proof (fr_update_class _ pC6 ltac:(fr) ltac:(fr) s op (s_term st) a (b_tgt b)) as M.
    pose proof (update_class_nextchunk s op (s_term st) a (b_tgt b)) as N.
    pose proof (dstep_update_class s op (s_term st) a (b_tgt b)) as S.
    destruct (update_class s op (s_term st) a (b_tgt b)) as [s' c']. cbn [fst snd] in *.
    split; [rewrite M; exact H1|]. split; [rewrite N; exact H2|]. split; [exact (dstep_trans _ _ _ H3 S)|exact H4].
  - destruct (b_cls b =? c14_ClassREPLICATED); cbn [fst snd]; [|exact Keep].
    split; [exact H1|]. split; [exact H2|]. split; [exact H3|].
    intros p Hp. apply in_app_or in Hp. destruct Hp as [Hp|Hp]; [exact (H4 p Hp)|exact (add_tracts_nostamps _ _ _ _ Hp)].
Qed.

Lemma PInv_new_round fx st r : PInv fx st -> rd_encs r = [] -> (forall p, In p (rd_tracts r) -> pt_stamps p = []) ->
  (forall r0, In r0 (s_rounds st) -> rd_op r0 <> rd_op r) -> (forall r0, In r0 (s_rounds st) -> rd_gen r0 <> rd_gen r) ->
  (forall x, In x (s_pool st) -> p_owner x <> rd_op r) ->
  PInv fx (set_rounds st (s_rounds st ++ [r])).
Proof.
  intros [A A' B C D Al E] En Ns Fo Fg Fp.
  assert (NDapp: forall (f : round -> Z), NoDup (map f (s_rounds st)) -> (forall r0, In r0 (s_rounds st) -> f r0 <> f r) -> NoDup (map f (s_rounds st ++ [r]))).
  { intros f N Hf. rewrite map_app. cbn [map]. apply NoDup_app_disj; [exact N|constructor; [intros []|constructor]|].
    intros k H1 [<-|[]]. apply in_map_iff in H1. destruct H1 as [r0 [E0 H0]]. exact (Hf r0 H0 E0). }
  constructor; cbn [s_rounds s_pool s_nextchunk set_rounds].
  - exact (NDapp rd_gen A Fg).
  - exact (NDapp rd_op A' Fo).
  - intros r1 r2 e1 e2 c H1 H2 He1 He2. apply in_app_or in H1, H2.
    destruct H1 as [H1|[<-|[]]]; [|rewrite En in He1; destruct He1]. destruct H2 as [H2|[<-|[]]]; [|rewrite En in He2; destruct He2].
    exact (B r1 r2 e1 e2 c H1 H2 He1 He2).
  - intros pe Hpe K. destruct (C pe Hpe K) as [r0 [H0 O0]]. exists r0. split; [apply in_or_app; left; exact H0|exact O0].
  - intros pe Hpe K. destruct (D pe Hpe K) as [D1 D2]. split; [exact D1|]. intros r0 e0 H0 He0. apply in_app_or in H0.
    destruct H0 as [H0|[<-|[]]]; [exact (D2 r0 e0 H0 He0)|rewrite En in He0; destruct He0].
  - exact Al.
  - intros r0 H0. apply in_app_or in H0. destruct H0 as [H0|[<-|[]]].
    + apply (PR1_other fx st); [reflexivity|intros x Hx _; exact Hx|exact (E r0 H0)].
    + constructor; cbn [s_rounds s_pool s_nextchunk set_rounds]; try (rewrite En; intros e0 []).
      * intros pe e0 Hpe O. exfalso. exact (Fp pe Hpe O).
      * intros pe1 pe2 Hpe _ O. exfalso. exact (Fp pe1 Hpe O).
      * intros pe e0 Hpe O. exfalso. exact (Fp pe Hpe O).
      * intros p h s Hp Z. rewrite (Ns p Hp) in Z. discriminate.
      * intros [].
      * intros [].
Qed.

Definition rs_F (st : state) (op : Z) : state * list ptr * list Z -> Z -> state * list ptr * list Z :=
  fun '(s, acc, o) blob =>
    match Cluster.Model.zget (s_blobs s) blob with
    | None => (s, acc, o)
    | Some b =>
        if b_cls b =? b_tgt b then (s, acc, o)
        else if all_rs s blob then
          let '(s', _) := update_class s op (s_term st) blob (b_tgt b) in
          (s', acc, o ++ [blob; match Cluster.Model.zget (s_blobs s') blob with Some b' => b_cls b' | None => -1 end])
        else if b_cls b =? c14_ClassREPLICATED then (s, acc ++ add_tracts s (s_gen st) blob, o)
        else (s, acc, o)
    end.

Definition rs_round (st : state) (op : Z) (tracts : list ptr) : round :=
  {| rd_op := op; rd_gen := s_gen st; rd_term := s_term st; rd_phase := 1; rd_tracts := tracts; rd_encs := []; rd_done := 0 |}.

Lemma round_start_eq st op :
  round_start st op =
  (let '(st1, tracts, obs) := fold_left (rs_F st op) (blob_ids st) (st, [], []) in
   let r := rs_round st op tracts in
   let st3 := issue_all (set_rounds st1 (s_rounds st1 ++ [r])) (stat_list (s_gen st) op tracts) in
   ((if all_stats_done r then round_after_stats st3 r else st3), obs)).
Proof.
  unfold round_start. fold (rs_F st op). destruct (fold_left (rs_F st op) (blob_ids st) (st, [], [])) as [[st1 tracts] obs].
  cbv zeta. rewrite fold_stat_issue. reflexivity.
Qed.

Lemma RInv_round_start_mid fx st op st1 tracts obs : RInv fx st -> op_fresh st op = true ->
  fold_left (rs_F st op) (blob_ids st) (st, [], []) = (st1, tracts, obs) ->
  pR st1 = pR st /\ RInv fx (issue_all (set_rounds st1 (s_rounds st1 ++ [rs_round st op tracts])) (stat_list (s_gen st) op tracts)).
Proof.
  intros HI Hop EF. destruct (op_fresh_spec st op Hop) as [Pos [Fw [Frd Fp]]].
  set (F := rs_F st op) in *.
  assert (J: forall l acc, NoDup l ->
             (pR2 (fst (fst acc)) = pR2 st /\ NoDup (map pt_tk (snd (fst acc))) /\
              (forall p, In p (snd (fst acc)) -> ~ In (fst (pt_tk p)) l) /\ (forall p, In p (snd (fst acc)) -> ptr_init p)) ->
             pR2 (fst (fst (fold_left F l acc))) = pR2 st /\ NoDup (map pt_tk (snd (fst (fold_left F l acc)))) /\
             (forall p, In p (snd (fst (fold_left F l acc))) -> ptr_init p)).
  { induction l as [|a l IH]; intros acc N Hacc; cbn [fold_left]; [tauto|].
    inversion N as [|? ? N1 N2]; subst. apply IH; [exact N2|].
    destruct acc as [[s a0] o]. cbn [fst snd] in Hacc. destruct Hacc as [H1 [H2 [H3 H4]]]. unfold F, rs_F. cbn [fst snd].
    assert (Keep: pR2 s = pR2 st /\ NoDup (map pt_tk a0) /\ (forall p, In p a0 -> ~ In (fst (pt_tk p)) l) /\ (forall p, In p a0 -> ptr_init p)).
    { split; [exact H1|]. split; [exact H2|]. split; [|exact H4]. intros p Hp K. apply (H3 p Hp). right. exact K. }
    destruct (zget (s_blobs s) a); [|exact Keep].
    destruct (b_cls b =? b_tgt b); [exact Keep|].
    destruct (all_rs s a).
    - pose proof (fr_update_class _ pR2 ltac:(fr) ltac:(fr) s op (s_term st) a (b_tgt b)) as M.
      destruct (update_class s op (s_term st) a (b_tgt b)) as [s' c']. cbn [fst snd] in *.
      destruct Keep as [_ K2]. split; [rewrite M; exact H1|exact K2].
    - destruct (b_cls b =? c14_ClassREPLICATED); cbn [fst snd]; [|exact Keep].
      destruct (add_tracts_keys s (s_gen st) a) as [AK1 AK2]. split; [exact H1|]. split; [|split].
      + rewrite map_app. apply NoDup_app_disj; [exact H2|exact AK1|].
        intros k Hk1 Hk2. apply in_map_iff in Hk1. destruct Hk1 as [p [E1 Hp]]. apply in_map_iff in Hk2. destruct Hk2 as [q [E2 Hq]].
        apply (H3 p Hp). left. rewrite E1, <- E2. symmetry. exact (AK2 q Hq).
      + intros p Hp K. apply in_app_or in Hp. destruct Hp as [Hp|Hp]; [apply (H3 p Hp); right; exact K|].
        rewrite (AK2 p Hp) in K. contradiction.
      + intros p Hp. apply in_app_or in Hp. destruct Hp as [Hp|Hp]; [exact (H4 p Hp)|eapply add_tracts_init; exact Hp]. }
  specialize (J (blob_ids st) (st, [], []) (blob_ids_NoDup st)). cbn [fst snd] in J.
  destruct J as [J1 [J2 J3]]; [split; [reflexivity|]; split; [constructor|]; split; intros p []|].
  rewrite EF in J1, J2, J3. cbn [fst snd] in *.
  assert (JR: pR st1 = pR st) by (exact (f_equal fst J1)).
  assert (Jreps: s_reps st1 = s_reps st) by (exact (f_equal snd J1)).
  assert (B1: RInv fx st1) by (exact (RInv_same fx st st1 JR Jreps HI)).
  split; [exact JR|].
  pose proof JR as JR'. unfold pR in JR'. injection JR' as Jpool Jnext Jrounds Jwops Jfix Jnfix.
  set (r := rs_round st op tracts).
  apply (RInv_new_round fx st1 r).
  - exact B1.
  - rewrite Jrounds. exact Frd.
  - intros rp o Hin. exact (proj1 (stat_list_in _ _ _ _ _ Hin)).
  - destruct (issue_all_spec (stat_list (s_gen st) op tracts) (set_rounds st1 (s_rounds st1 ++ [r]))) as [P1 [P2 P3]].
    unfold pO in P3. injection P3 as Q1 Q2 Q3 Q4 Q5.
    apply (new_R1 fx _ (s_gen st) (s_term st) op tracts (s_pool st1) (s_next st1)); [exact J2|exact J3|exact Pos| | |exact P1].
    + rewrite Q2. cbn [s_wops set_rounds]. rewrite Jwops. exact Fw.
    + rewrite Jpool. exact Fp.
Qed.

Lemma pPJ_issue_all rs : forall s, pPJ (issue_all s rs) = pPJ s.
Proof. induction rs as [|[a b] l IH]; intros s; cbn [issue_all fold_left]; [reflexivity|]. unfold issue_all in IH. rewrite IH. reflexivity. Qed.

Lemma NKr_issue_all st rs : (forall rp o, In (rp, o) rs -> notpk rp = true) -> forall s, NK st s -> NK st (issue_all s rs).
Proof.
  induction rs as [|[a b] l IH]; intros Hn s K; cbn [issue_all fold_left]; [exact K|].
  apply (IH (fun rp o H => Hn rp o (or_intror H))). apply NKr_issue; [exact (Hn a b (or_introl eq_refl))|exact K].
Qed.

Lemma PInv_round_start fx st op : PInv fx st -> RInv fx st -> DInv st -> op_fresh st op = true ->
  (forall r0, In r0 (s_rounds st) -> rd_gen r0 <> s_gen st) -> PInv fx (fst (round_start st op)).
Proof.
  intros HP HR HD Hop Hg. destruct (op_fresh_spec st op Hop) as [Pos [Fw [Frd Fp]]]. rewrite round_start_eq.
  destruct (fold_left (rs_F st op) (blob_ids st) (st, [], [])) as [[st1 tracts] obs] eqn:EF.
  destruct (RInv_round_start_mid fx st op st1 tracts obs HR Hop EF) as [JR R3].
  pose proof (round_start_fold st op (rs_F st op) eq_refl (blob_ids st) (st, [], [])) as J. rewrite EF in J. cbn [fst snd] in J.
  destruct J as [C6 [N [Ds Ns]]]; [split; [reflexivity|]; split; [reflexivity|]; split; [apply dstep_refl|intros p []]|].
  unfold pC6 in C6. injection C6 as E1 E2 E3 E4 E5 E6.
  assert (P1: PInv fx st1) by (apply (PInv_dtr fx st st1 HD); try assumption; lia).
  set (r := rs_round st op tracts) in *. cbv zeta.
  assert (P2: PInv fx (set_rounds st1 (s_rounds st1 ++ [r]))).
  { apply PInv_new_round; [exact P1|reflexivity|exact Ns| | |]; rewrite ?E1, ?E2; [exact Frd|exact Hg|exact Fp]. }
  assert (P3: PInv fx (issue_all (set_rounds st1 (s_rounds st1 ++ [r])) (stat_list (s_gen st) op tracts))).
  { apply (PInv_pPJ_NK fx (set_rounds st1 (s_rounds st1 ++ [r]))); [apply pPJ_issue_all| |exact P2].
    apply NKr_issue_all; [|apply NK_refl]. intros rp o Hin. destruct (stat_list_in _ _ _ _ _ Hin) as [_ [p [h [rest [_ [_ ->]]]]]]. reflexivity. }
  cbn [fst]. destruct (all_stats_done r); [|exact P3].
  apply PInv_after_stats; [exact P3|exact R3| |reflexivity|reflexivity].
  destruct (issue_all_spec (stat_list (s_gen st) op tracts) (set_rounds st1 (s_rounds st1 ++ [r]))) as [_ [_ Q3]].
  unfold pO in Q3. injection Q3 as _ _ _ _ Q5. rewrite Q5. cbn [s_rounds set_rounds]. apply in_or_app. right. left. reflexivity.
Qed.

(* ------------------------------------------------------------------ steps *)
(* the scheduling restriction: a curator incarnation runs one round at a time (PackTracts/RSEncode look the round up by incarnation) *)
Definition gen_free (st : state) : bool := forallb (fun r => negb (rd_gen r =? s_gen st)) (s_rounds st).
Definition ev_gen_ok (st : state) (ev : list Z) : bool := match ev with c :: _ => if c =? 80 then gen_free st else true | [] => true end.

Lemma gen_free_spec st : gen_free st = true -> forall r0, In r0 (s_rounds st) -> rd_gen r0 <> s_gen st.
Proof. unfold gen_free. intros H r0 H0 E. rewrite forallb_forall in H. specialize (H r0 H0). apply negb_true_iff, Z.eqb_neq in H. contradiction. Qed.

Lemma NK_pool st st' : s_pool st' = s_pool st -> NK st st'.
Proof. intros H. apply NKr_eq with (s := st); [exact H|apply NK_refl]. Qed.

Lemma PInv_step fx st ev : fx6 fx = true -> fx13 fx = true -> ev_run ev = true -> ev_gen_ok st ev = true ->
  PInv fx st -> RInv fx st -> DInv st -> TInv st -> PInv fx (fst (step_fx fx st ev)).
Proof.
  intros H6 H13 Hev Hg HP0 HR0 HD0 HT0. unfold step_fx.
  assert (HP: PInv fx (begin_event st)) by (apply (PInv_pPJ_NK fx st); [reflexivity|apply NK_pool; reflexivity|exact HP0]).
  assert (HR: RInv fx (begin_event st)) by (eapply RInv_same; [| |exact HR0]; reflexivity).
  assert (HD: DInv (begin_event st)) by (eapply DInv_pD; [|exact HD0]; reflexivity).
  assert (HT: TInv (begin_event st)) by (eapply TInv_same; [|exact HT0]; reflexivity).
  assert (Hg': ev_gen_ok (begin_event st) ev = true) by exact Hg.
  clear Hg HP0 HR0 HD0 HT0. set (s := begin_event st) in *.
  destruct ev as [|c a]; [exact HP|]. cbn [ev_run existsb] in Hev. cbn [ev_gen_ok] in Hg'.
  destruct (c =? 1) eqn:C1; [apply Z.eqb_eq in C1; subst c; discriminate|].
  destruct (c =? 2) eqn:C2; [apply Z.eqb_eq in C2; subst c; discriminate|].
  destruct (c =? 20) eqn:C20; [apply Z.eqb_eq in C20; subst c; discriminate|].
  destruct (c =? 21) eqn:C21; [apply Z.eqb_eq in C21; subst c; discriminate|].
  destruct (c =? 22).
  { destruct a as [|blob [|tract [|]]]; try exact HP. destruct (dget s _); exact HP. }
  destruct (c =? 3).
  { destruct a as [|op [|cli [|blob [|tract [|off [|len [|wid [|]]]]]]]]; try exact HP.
    destruct (negb (op_fresh s op) || (len <=? 0)); cbn [fst]; [exact HP|].
    apply (PInv_pPJ_NK fx s); [reflexivity| |exact HP]. apply NKr_issue; [reflexivity|]. apply NK_pool; reflexivity. }
  destruct (c =? 6).
  { destruct a as [|blob [|tract [|ver [|badts [|]]]]]; try exact HP. cbn [fst]. apply PInv_start_fix. exact HP. }
  destruct (c =? 7).
  { destruct a; [exact HP|apply PInv_step_exec; assumption]. }
  destruct (c =? 9).
  { destruct a as [|ts [|]]; try exact HP. apply PInv_step_restart; assumption. }
  destruct (c =? 10). { cbn [fst]. apply (PInv_pPJ_NK fx s); [reflexivity|apply NK_pool; reflexivity|exact HP]. }
  destruct (c =? 11).
  { destruct a as [|ts [|]]; try exact HP. cbn [fst]. apply (PInv_pPJ_NK fx s); [reflexivity|apply NK_pool; reflexivity|exact HP]. }
  destruct (c =? 80).
  { destruct a as [|op [|]]; try exact HP.
    destruct (negb (op_fresh s op)) eqn:Fo; [exact HP|]. apply negb_false_iff in Fo.
    pose proof (PInv_round_start fx s op HP HR HD Fo (gen_free_spec s Hg')) as M. destruct (round_start s op) as [st1 obs]. exact M. }
  destruct (c =? 30).
  { destruct a as [|blob [|tract [|off [|len [|nt tries]]]]]; exact HP. }
  destruct (c =? 81) eqn:C81; [apply Z.eqb_eq in C81; subst c; discriminate|].
  destruct (c =? 82); [exact HP|].
  destruct (c =? 84); [exact HP|].
  destruct (c =? 83); [exact HP|].
  destruct (c =? 31).
  { destruct a as [|blob [|]]; try exact HP. destruct (Cluster.Model.zget _ _); exact HP. }
  exact HP.
Qed.
