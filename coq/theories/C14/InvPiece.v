(* C14/InvPiece.v — invariant I2: the data piece a CommitRSChunk will read holds, for its tract, the write list of a
   stat'ed source: as long as that source's stamp is the collected one, and - once the operation's own conditional bump
   of that source has succeeded - as long as the durable version of the tract is still the one the packer captured.
   Needs: one round per curator incarnation at a time (PackTracts / RSEncode executions find their specs through the
   first round of the incarnation), chunk ids handed out by AllocateRSChunkIDs are fresh, GCTract calls only name
   chunks of abandoned operations. *)
From Coq Require Import List ZArith Bool Lia.
From BLB Require Import Gen.Consts.
From BLB Require Cluster.Model.
From BLB Require Import C14.Model C14.Proofs C14.Run C14.Late C14.InvFrame C14.InvStore C14.InvVer C14.InvPool C14.InvRound C14.InvTract C14.InvContent.
Import ListNotations.
Open Scope Z_scope.

Definition chunk_of (rp : rpc) : Z := nth 1 (k_aux rp) 0.
Definition live (e : encop) : Prop := e_stage e <> 9.

(* the source condition for the packed content 'app' of tract tk in operation e of round r *)
Definition frozen (st : state) (p : ptr) (h0 : Z) (app : list wrec) : Prop :=
  (exists rep, rget (s_reps st) (h0, pt_tk p) = Some rep /\ r_app rep = app /\ pt_ver p + 1 <= r_ver rep) \/
  ~ (exists d, dget st (pt_tk p) = Some d /\ d_ver d = pt_ver p /\ d_rs d = None).

Definition src (fx : fixes) (st : state) (r : round) (e : encop) (tk : tkt) (app : list wrec) : Prop :=
  exists p h0 s0 rep, find_ptr (rd_tracts r) tk = Some p /\ In h0 (pt_from p) /\ zget (pt_stamps p) h0 = Some s0 /\
    rget (s_reps st) (h0, tk) = Some rep /\
    (stamp_of st h0 tk = s0 -> r_app rep = app) /\
    (e_stage e = 5 -> frozen st p h0 app) /\
    (e_stage e = 4 -> zget (e_errs e) (slot_of (bump_list fx r e) tk h0 0) = Some cl_NoError -> frozen st p h0 app).

Definition packed_slot (e : encop) (i : Z) : Prop :=
  e_stage e = 3 \/ e_stage e = 4 \/ e_stage e = 5 \/ (e_stage e = 2 /\ zget (e_errs e) i = Some cl_NoError).

Definition piece_ok (fx : fixes) (st : state) (r : round) (e : encop) (i : nat) : Prop :=
  forall tk off len, nth_error (e_chunks e) i = Some (tk, off, len) -> packed_slot e (Z.of_nat i) ->
    exists app tgt, pget (s_pieces st) (nth i (e_hosts e) 0, e_base e + Z.of_nat i) =
                      Some {| pc_items := [(tk, off, len, app)]; pc_len := tgt; pc_data := true |} /\
                    src fx st r e tk app.

Record PR1 (fx : fixes) (st : state) (r : round) : Prop := {
  pi_ch : forall e, In e (rd_encs r) -> e_base e + (RS_N + RS_M) <= s_nextchunk st;
  pi_len : forall e, In e (rd_encs r) -> live e -> length (e_chunks e) = Z.to_nat RS_N /\ length (e_hosts e) = Z.to_nat (RS_N + RS_M);
  pi_pack : forall pe e, In pe (s_pool st) -> p_owner pe = rd_op r -> k_kind (p_rpc pe) = K_PackTracts -> att_enc r (p_rpc pe) = Some e ->
              exists i, 0 <= i < RS_N /\ p_rpc pe = mk_pack (rd_gen r) (nth (Z.to_nat i) (e_hosts e) 0) (e_base e + i) /\ zget (e_errs e) i = None;
  pi_uniq : forall pe1 pe2, In pe1 (s_pool st) -> In pe2 (s_pool st) -> p_owner pe1 = rd_op r -> p_owner pe2 = rd_op r ->
              k_kind (p_rpc pe1) = K_PackTracts -> k_kind (p_rpc pe2) = K_PackTracts -> chunk_of (p_rpc pe1) = chunk_of (p_rpc pe2) -> pe1 = pe2;
  pi_enc : forall pe e, In pe (s_pool st) -> p_owner pe = rd_op r -> k_kind (p_rpc pe) = K_RSEncode -> att_enc r (p_rpc pe) = Some e ->
              p_rpc pe = mk_encode (rd_gen r) (nth (Z.to_nat RS_N) (e_hosts e) 0) (e_base e);
  pi_stamp : forall p h s, In p (rd_tracts r) -> zget (pt_stamps p) h = Some s ->
               exists rep, rget (s_reps st) (h, pt_tk p) = Some rep /\ sle s (stamp_of st h (pt_tk p));
  pi_piece : forall e i, In e (rd_encs r) -> live e -> piece_ok fx st r e i
}.

Record PInv (fx : fixes) (st : state) : Prop := {
  pv_gen : NoDup (map rd_gen (s_rounds st));
  pv_gd : forall r1 r2 e1 e2 c, In r1 (s_rounds st) -> In r2 (s_rounds st) -> In e1 (rd_encs r1) -> In e2 (rd_encs r2) ->
            in_range e1 c = true -> in_range e2 c = true -> rd_gen r1 = rd_gen r2;
  pv_own : forall pe, In pe (s_pool st) -> k_kind (p_rpc pe) = K_PackTracts \/ k_kind (p_rpc pe) = K_RSEncode ->
             exists r, In r (s_rounds st) /\ p_owner pe = rd_op r;
  pv_gc : forall pe, In pe (s_pool st) -> k_kind (p_rpc pe) = K_GCTract ->
            chunk_of (p_rpc pe) < s_nextchunk st /\
            forall r e, In r (s_rounds st) -> In e (rd_encs r) -> live e -> in_range e (chunk_of (p_rpc pe)) = false;
  pv_rounds : forall r, In r (s_rounds st) -> PR1 fx st r
}.

(* ------------------------------------------------------------------ the payoff: PInv gives the provenance hypothesis of InvContent *)
Lemma commit_tracts_nth rd eo tk off len nv idx : In (tk, off, len, nv, idx) (Xcommit_tracts rd eo) ->
  exists i, nth_error (e_chunks eo) i = Some (tk, off, len) /\ idx = Z.of_nat i /\
            nv = match find_ptr (rd_tracts rd) tk with Some p => pt_ver p + 1 | None => 0 end.
Proof.
  unfold Xcommit_tracts.
  assert (G: forall l acc k, In (tk, off, len, nv, idx)
              (fst (fold_left (fun '(acc, i) '(tk', off, len) =>
                    (acc ++ [(tk', off, len, match find_ptr (rd_tracts rd) tk' with Some p => pt_ver p + 1 | None => 0 end, i)], i + 1)) l (acc, Z.of_nat k))) ->
              In (tk, off, len, nv, idx) acc \/
              exists i, nth_error l i = Some (tk, off, len) /\ idx = Z.of_nat (k + i) /\ nv = match find_ptr (rd_tracts rd) tk with Some p => pt_ver p + 1 | None => 0 end).
  { induction l as [|[[a b] c] l IH]; intros acc k H; cbn [fold_left fst] in H; [left; exact H|].
    replace (Z.of_nat k + 1) with (Z.of_nat (S k)) in H by lia.
    destruct (IH _ _ H) as [K|[i [K1 [K2 K3]]]].
    - apply in_app_or in K. destruct K as [K|[K|[]]]; [left; exact K|]. injection K as -> -> -> <- <-. right. exists O. split; [reflexivity|]. split; [f_equal; lia|reflexivity].
    - right. exists (S i). split; [exact K1|]. split; [rewrite K2; f_equal; lia|exact K3]. }
  intros H. destruct (G (e_chunks eo) [] O H) as [[]|[i [K1 [K2 K3]]]]. exists i. auto.
Qed.

Lemma PInv_src fx st : fx6 fx = true -> PInv fx st -> RInv fx st -> XSrcAll st.
Proof.
  intros Hfx HP HR pe rd eo Hpe Kc Fr Fe tk off len nv idx Hin [d [Dg [Dv Dr]]].
  pose proof (find_round_in _ _ _ Fr) as Hr. pose proof (find_round_op _ _ _ Fr) as Ho. symmetry in Ho.
  pose proof (rv_rounds _ _ HR rd Hr) as R1. pose proof (pv_rounds _ _ HP rd Hr) as P1.
  destruct (find_enc_chunk_in _ _ _ Fe) as [Heo _].
  assert (S5: e_stage eo = 5).
  { destruct (ri_exp _ _ _ R1 pe Hpe Ho) as [[K _]|[[K _]|[_ [e' [A [K _]]]]]]; try (rewrite Kc in K; vm_compute in K; discriminate).
    unfold att_enc in A. rewrite Kc in A. change (K_Commit =? K_PackTracts) with false in A. change (K_Commit =? K_RSEncode) with false in A.
    change (K_Commit =? K_Commit) with true in A. cbn [orb] in A. unfold aux_nth in Fe. rewrite Fe in A. injection A as <-.
    assert (Kn: k_kind (p_rpc pe) <> -1) by (rewrite Kc; vm_compute; discriminate).
    destruct (stage_kind_cases _ _ K Kn) as [[_ Q]|[[_ Q]|[[_ Q]|[S Q]]]]; try (rewrite Kc in Q; vm_compute in Q; discriminate). exact S. }
  assert (Lv: live eo) by (unfold live; rewrite S5; discriminate).
  destruct (commit_tracts_nth _ _ _ _ _ _ _ Hin) as [i [Ni [Ei Env]]].
  destruct (pi_piece _ _ _ P1 eo i Heo Lv tk off len Ni (or_intror (or_intror (or_introl S5)))) as [app [tgt [Pg Sr]]].
  destruct Sr as [p [h0 [s0 [rep [Fp [Hf [Zs [Rg [_ [Fz _]]]]]]]]]].
  exists p, h0, s0, rep. split; [exact Fp|]. split; [exact Hf|]. split; [exact Zs|]. split; [exact Rg|].
  unfold Xpacked_at. subst idx. rewrite Nat2Z.id, Pg. cbn [pc_items find]. rewrite tk_eqb_refl.
  rewrite Fp in Env. pose proof (find_ptr_tk _ _ _ Fp) as Ptk.
  destruct (Fz S5) as [[rep' [Rg' [Ra' _]]]|No].
  - rewrite Ptk, Rg in Rg'. injection Rg' as <-. exact Ra'.
  - exfalso. apply No. exists d. rewrite Ptk. split; [exact Dg|]. split; [lia|exact Dr].
Qed.
