(* C14/InvPiece.v — invariant I2: the data piece a CommitRSChunk will read holds, for its tract, the write list of a
   stat'ed source: as long as that source's stamp is the collected one, and - once the operation's own conditional bump
   of that source has succeeded - as long as the durable version of the tract is still the one the packer captured.
   Needs: one round per curator incarnation at a time (PackTracts / RSEncode executions find their specs through the
   first round of the incarnation), chunk ids handed out by AllocateRSChunkIDs are fresh, GCTract calls only name
   chunks of abandoned operations. *)
From Coq Require Import List ZArith Bool Lia.
From BLB Require Import Gen.Consts.
From BLB Require Cluster.Model.
From BLB Require Import C14.Model C14.Proofs C14.Run C14.Late C14.InvFrame C14.InvStore C14.InvVer C14.InvPool C14.InvRound C14.InvTract C14.InvContent.
Import ListNotations.
Open Scope Z_scope.

Definition chunk_of (rp : rpc) : Z := nth 1 (k_aux rp) 0.
Definition live (e : encop) : Prop := e_stage e <> 9.

(* the source condition for the packed content 'app' of tract tk in operation e of round r *)
Definition frozen (st : state) (p : ptr) (h0 : Z) (app : list wrec) : Prop :=
  (exists rep, rget (s_reps st) (h0, pt_tk p) = Some rep /\ r_app rep = app /\ pt_ver p + 1 <= r_ver rep) \/
  ~ (exists d, dget st (pt_tk p) = Some d /\ d_ver d = pt_ver p /\ d_rs d = None).

Definition src (fx : fixes) (st : state) (r : round) (e : encop) (tk : tkt) (app : list wrec) : Prop :=
  exists p h0 s0 rep, find_ptr (rd_tracts r) tk = Some p /\ In h0 (pt_from p) /\ zget (pt_stamps p) h0 = Some s0 /\
    rget (s_reps st) (h0, tk) = Some rep /\
    (stamp_of st h0 tk = s0 -> r_app rep = app) /\
    (e_stage e = 5 -> frozen st p h0 app) /\
    (e_stage e = 4 -> zget (e_errs e) (slot_of (bump_list fx r e) tk h0 0) = Some cl_NoError -> frozen st p h0 app).

Definition packed_slot (e : encop) (i : Z) : Prop :=
  e_stage e = 3 \/ e_stage e = 4 \/ e_stage e = 5 \/ (e_stage e = 2 /\ zget (e_errs e) i = Some cl_NoError).

Definition piece_ok (fx : fixes) (st : state) (r : round) (e : encop) (i : nat) : Prop :=
  forall tk off len, nth_error (e_chunks e) i = Some (tk, off, len) -> packed_slot e (Z.of_nat i) ->
    exists app tgt, pget (s_pieces st) (nth i (e_hosts e) 0, e_base e + Z.of_nat i) =
                      Some {| pc_items := [(tk, off, len, app)]; pc_len := tgt; pc_data := true |} /\
                    src fx st r e tk app.

Record PR1 (fx : fixes) (st : state) (r : round) : Prop := {
  pi_ch : forall e, In e (rd_encs r) -> e_base e + (RS_N + RS_M) <= s_nextchunk st;
  pi_len : forall e, In e (rd_encs r) -> live e -> length (e_chunks e) = Z.to_nat RS_N /\ length (e_hosts e) = Z.to_nat (RS_N + RS_M);
  pi_pack : forall pe e, In pe (s_pool st) -> p_owner pe = rd_op r -> k_kind (p_rpc pe) = K_PackTracts -> att_enc r (p_rpc pe) = Some e ->
              exists i, 0 <= i < RS_N /\ p_rpc pe = mk_pack (rd_gen r) (nth (Z.to_nat i) (e_hosts e) 0) (e_base e + i) /\ zget (e_errs e) i = None;
  pi_uniq : forall pe1 pe2, In pe1 (s_pool st) -> In pe2 (s_pool st) -> p_owner pe1 = rd_op r -> p_owner pe2 = rd_op r ->
              k_kind (p_rpc pe1) = K_PackTracts -> k_kind (p_rpc pe2) = K_PackTracts -> chunk_of (p_rpc pe1) = chunk_of (p_rpc pe2) -> pe1 = pe2;
  pi_enc : forall pe e, In pe (s_pool st) -> p_owner pe = rd_op r -> k_kind (p_rpc pe) = K_RSEncode -> att_enc r (p_rpc pe) = Some e ->
              p_rpc pe = mk_encode (rd_gen r) (nth (Z.to_nat RS_N) (e_hosts e) 0) (e_base e);
  pi_stamp : forall p h s, In p (rd_tracts r) -> zget (pt_stamps p) h = Some s ->
               exists rep, rget (s_reps st) (h, pt_tk p) = Some rep /\ sle s (stamp_of st h (pt_tk p));
  pi_piece : forall e i, In e (rd_encs r) -> live e -> piece_ok fx st r e i
}.

Record PInv (fx : fixes) (st : state) : Prop := {
  pv_gen : NoDup (map rd_gen (s_rounds st));
  pv_gd : forall r1 r2 e1 e2 c, In r1 (s_rounds st) -> In r2 (s_rounds st) -> In e1 (rd_encs r1) -> In e2 (rd_encs r2) ->
            in_range e1 c = true -> in_range e2 c = true -> rd_gen r1 = rd_gen r2;
  pv_own : forall pe, In pe (s_pool st) -> k_kind (p_rpc pe) = K_PackTracts \/ k_kind (p_rpc pe) = K_RSEncode ->
             exists r, In r (s_rounds st) /\ p_owner pe = rd_op r;
  pv_gc : forall pe, In pe (s_pool st) -> k_kind (p_rpc pe) = K_GCTract ->
            chunk_of (p_rpc pe) < s_nextchunk st /\
            forall r e, In r (s_rounds st) -> In e (rd_encs r) -> live e -> in_range e (chunk_of (p_rpc pe)) = false;
  pv_rounds : forall r, In r (s_rounds st) -> PR1 fx st r
}.
