(* C14/InvPool.v — pool footprint of the reply handlers: a handler only removes pool entries and appends entries with
   fresh ids (>= the old s_next); it never alters an entry.  Used for step_restart, which delivers an error to
   entries it collected before the first delivery. *)
From Coq Require Import List ZArith Bool Lia.
From BLB Require Import Gen.Consts.
From BLB Require Cluster.Model.
From BLB Require Import C14.Model C14.InvFrame.
Import ListNotations.
Open Scope Z_scope.

Definition PR (st st' : state) : Prop :=
  s_next st <= s_next st' /\ forall x, In x (s_pool st') -> In x (s_pool st) \/ s_next st <= p_id x.

Definition pP (st : state) := (s_pool st, s_next st).

Lemma PR_refl st : PR st st. Proof. split; [lia|auto]. Qed.
Lemma PR_trans a b c : PR a b -> PR b c -> PR a c.
Proof.
  intros [N1 H1] [N2 H2]. split; [lia|]. intros x Hx. destruct (H2 x Hx) as [K|K]; [|right; lia].
  destruct (H1 x K) as [K1|K1]; [left; exact K1|right; exact K1].
Qed.
Lemma PR_eq a b : pP b = pP a -> PR a b.
Proof. unfold pP. intros H. injection H as H1 H2. split; [lia|]. rewrite H1. auto. Qed.

(* right-composition forms *)
Lemma PRr_eq st s s' : pP s' = pP s -> PR st s -> PR st s'.
Proof. intros H K. eapply PR_trans; [exact K|apply PR_eq; exact H]. Qed.
Lemma PRr_issue st s r o : PR st s -> PR st (issue s r o).
Proof.
  intros K. eapply PR_trans; [exact K|]. split; [cbn; lia|]. cbn [s_pool issue set_pool]. intros x Hx.
  apply in_app_or in Hx. destruct Hx as [Hx|[<-|[]]]; [left; exact Hx|right; cbn; lia].
Qed.
Lemma PRr_remove st s id : PR st s -> PR st (set_pool s (pool_remove (s_pool s) id) (s_next s)).
Proof.
  intros K. eapply PR_trans; [exact K|]. split; [cbn; lia|]. cbn [s_pool set_pool]. intros x Hx.
  unfold pool_remove in Hx. apply filter_In in Hx. left. tauto.
Qed.
Lemma PRr_set_wops st s l : PR st s -> PR st (set_wops s l). Proof. apply PRr_eq. reflexivity. Qed.
Lemma PRr_set_cache st s l : PR st s -> PR st (set_cache s l). Proof. apply PRr_eq. reflexivity. Qed.
Lemma PRr_set_rounds st s l : PR st s -> PR st (set_rounds s l). Proof. apply PRr_eq. reflexivity. Qed.
Lemma PRr_set_fix st s l n : PR st s -> PR st (set_fix s l n). Proof. apply PRr_eq. reflexivity. Qed.
Lemma PRr_set_fixes st s l : PR st s -> PR st (set_fixes s l). Proof. apply PRr_eq. reflexivity. Qed.
Lemma PRr_add_fin st s a b c : PR st s -> PR st (add_fin s a b c). Proof. apply PRr_eq. reflexivity. Qed.
Lemma PRr_finish_w st s w n e : PR st s -> PR st (finish_w s w n e).
Proof. apply PRr_eq. apply (fr_finish_w _ pP); fr. Qed.
Lemma PRr_round_check_over st s r : PR st s -> PR st (round_check_over s r).
Proof. apply PRr_eq. apply (fr_round_check_over _ pP); fr. Qed.

Lemma PRr_fold {A} (f : state -> A -> state) l : (forall st s x, PR st s -> PR st (f s x)) -> forall st s, PR st s -> PR st (fold_left f l s).
Proof. intros H. induction l; intros; cbn; auto. Qed.
Lemma PRr_fold_pair {A B} (f : state * B -> A -> state * B) l :
  (forall st s j x, PR st s -> PR st (fst (f (s, j) x))) -> forall st s i, PR st s -> PR st (fst (fold_left f l (s, i))).
Proof.
  intros H. induction l as [|a l IH]; intros st s i K; cbn; [exact K|].
  destruct (f (s, i) a) as [s' j'] eqn:E. apply IH. specialize (H st s i a K). rewrite E in H. exact H.
Qed.

Ltac prs :=
  repeat first
    [ apply PRr_issue | apply PRr_remove | apply PRr_set_wops | apply PRr_set_cache | apply PRr_set_rounds
    | apply PRr_set_fix | apply PRr_set_fixes | apply PRr_add_fin | apply PRr_finish_w | apply PRr_round_check_over ];
  try assumption.
Ltac prd :=
  repeat match goal with
         | |- context [match ?x with _ => _ end] => destruct x
         | |- context [if ?b then _ else _] => destruct b
         end.

Lemma PRr_w_after_entry fx st s w e c : PR st s -> PR st (w_after_entry fx s w e c).
Proof.
  intros K. unfold w_after_entry. prd; prs.
  apply PRr_fold; [intros st0 s0 [h k] K0; prs|]. prs.
Qed.
Lemma PRr_w_get fx st s w : PR st s -> PR st (w_get fx s w).
Proof. intros K. unfold w_get. prd; first [apply PRr_w_after_entry; assumption | prs]. Qed.

Lemma PRr_cli_reply fx st s op r res en : PR st s -> PR st (cli_reply fx s op r res en).
Proof.
  intros K. unfold cli_reply. prd; try assumption;
  first [apply PRr_w_get; assumption | apply PRr_w_after_entry; prs | prs].
Qed.

Lemma PRr_finish_fix fx st s f e : PR st s -> PR st (finish_fix fx s f e).
Proof. intros K. unfold finish_fix. prd; first [apply PRr_cli_reply; prs | prs]. Qed.

Lemma PRr_activate_fix fx st s f : PR st s -> PR st (activate_fix fx s f).
Proof.
  intros K. unfold activate_fix. prd; try (apply PRr_finish_fix; assumption).
  apply PRr_fold; [intros; prs|]. prs.
Qed.

Lemma PRr_wake fx n : forall st s, PR st s -> PR st (wake fx n s).
Proof. induction n; intros st s K; cbn [wake]; [exact K|]. destruct (find _ _); [|exact K]. apply IHn. apply PRr_activate_fix. exact K. Qed.

Lemma PRr_start_fix fx st s g tk c b r : PR st s -> PR st (start_fix fx s g tk c b r).
Proof. intros K. unfold start_fix. prd; apply PRr_wake; [apply PRr_finish_fix|]; prs. Qed.

Lemma PRr_fix_reply fx st s id err : PR st s -> PR st (fix_reply fx s id err).
Proof.
  intros K. unfold fix_reply. destruct (find_fix _ _) as [f|]; [|exact K].
  destruct (negb _); [apply PRr_wake; apply PRr_finish_fix; exact K|].
  destruct (1 <? f_wait f); [prs|].
  pose proof (fr_change_tract _ pP ltac:(fr) s (f_term f) (f_tk f) (f_dv f + 1) (f_hosts f)) as Q.
  destruct (change_tract _ _ _ _ _) as [s1 e]. cbn [fst] in Q.
  apply PRr_wake. apply PRr_finish_fix. eapply PRr_eq; [exact Q|exact K].
Qed.

Lemma PRr_round_after_stats st s r : PR st s -> PR st (round_after_stats s r).
Proof. intros K. unfold round_after_stats. prd; prs. Qed.

Lemma PRr_stat_reply fx st s r tk h e sz stamp : PR st s -> PR st (stat_reply fx s r tk h e sz stamp).
Proof.
  intros K. unfold stat_reply. destruct (find_ptr _ _); [|exact K].
  match goal with |- context [match pt_next ?p1 with _ => _ end] => destruct (pt_next p1) end; [|prs].
  match goal with |- PR st (if ?c then _ else _) => destruct c end;
  match goal with |- context [if ?c then start_fix _ _ _ _ _ _ _ else _] => destruct c end;
  try apply PRr_round_after_stats; try apply PRr_start_fix; prs.
Qed.

Lemma PRr_cleanup st s g e : PR st s -> PR st (cleanup s g e).
Proof. intros K. unfold cleanup. apply PRr_fold_pair; [|exact K]. intros st0 s0 j x K0. cbn [fst]. prs. Qed.

Lemma PRr_enc_finish st s r e ok : PR st s -> PR st (enc_finish s r e ok).
Proof. intros K. unfold enc_finish. apply PRr_round_check_over. destruct ok; [exact K|apply PRr_cleanup; exact K]. Qed.

Lemma PRr_alloc_reply st s r e b w h : PR st s -> PR st (alloc_reply s r e b w h).
Proof.
  intros K. unfold alloc_reply. destruct (negb _); [prs|]. cbv zeta.
  match goal with |- context [if negb ?v then _ else _] => destruct (negb v) end; [prs|].
  apply PRr_round_check_over. apply PRr_fold; [|prs].
  intros st0 s0 x K0. apply PRr_fold_pair; [|exact K0]. intros st1 s1 j y K1. cbn [fst]. destruct (j <? RS_N); prs.
Qed.

Lemma PRr_round_reply fx st s op rp res hint : PR st s -> PR st (round_reply fx s op rp res hint).
Proof.
  intros K. unfold round_reply. destruct (find_round _ _) as [r|]; [|exact K].
  destruct (_ =? K_CtlStat); [apply PRr_stat_reply; exact K|].
  destruct (_ =? K_Alloc); [apply PRr_alloc_reply; exact K|].
  destruct (_ =? K_PackTracts).
  { destruct (find_enc_chunk _ _); [|exact K]. cbv zeta. prd; first [apply PRr_enc_finish; exact K | prs]. }
  destruct (_ =? K_RSEncode).
  { destruct (find_enc_chunk _ _); [|exact K]. destruct (negb _); [apply PRr_enc_finish; exact K|]. cbv zeta.
    apply PRr_fold; [intros st0 s0 [[[a b] c] d] K0; prs|prs]. }
  destruct (_ =? K_SetVersion).
  { destruct (find_enc_tract _ _); [|exact K]. cbv zeta. prd; first [apply PRr_enc_finish; exact K | prs]. }
  destruct (_ =? K_Commit).
  { destruct (find_enc_chunk _ _); [|exact K]. apply PRr_enc_finish; exact K. }
  exact K.
Qed.

Lemma PR_deliver fx st e res en hint : PR st (deliver fx st e res en hint).
Proof.
  unfold deliver. prd; first [apply PRr_fix_reply | apply PRr_cli_reply | apply PRr_round_reply | idtac]; prs; apply PR_refl.
Qed.
