(* C14/InvPool.v — pool footprint of the reply handlers: a handler only removes pool entries and appends entries with
   fresh ids (>= the old s_next); it never alters an entry.  Used for step_restart, which delivers an error to
   entries it collected before the first delivery. *)
From Coq Require Import List ZArith Bool Lia.
From BLB Require Import Gen.Consts.
From BLB Require Cluster.Model.
From BLB Require Import C14.Model C14.InvFrame.
Import ListNotations.
Open Scope Z_scope.

Definition PR (st st' : state) : Prop :=
  s_next st <= s_next st' /\ forall x, In x (s_pool st') -> In x (s_pool st) \/ s_next st <= p_id x.

Definition pP (st : state) := (s_pool st, s_next st).

Lemma PR_refl st : PR st st. Proof. split; [lia|auto]. Qed.
Lemma PR_trans a b c : PR a b -> PR b c -> PR a c.
Proof.
  intros [N1 H1] [N2 H2]. split; [lia|]. intros x Hx. destruct (H2 x Hx) as [K|K]; [|right; lia].
  destruct (H1 x K) as [K1|K1]; [left; exact K1|right; exact K1].
Qed.
Lemma PR_eq a b : pP b = pP a -> PR a b.
Proof. unfold pP. intros H. injection H as H1 H2. split; [lia|]. rewrite H1. auto. Qed.

(* right-composition forms *)
Lemma PRr_eq st s s' : pP s' = pP s -> PR st s -> PR st s'.
Proof. intros H K. eapply PR_trans; [exact K|apply PR_eq; exact H]. Qed.
Lemma PRr_issue st s r o : PR st s -> PR st (issue s r o).
Proof.
  intros K. eapply PR_trans; [exact K|]. split; [cbn; lia|]. cbn [s_pool issue set_pool]. intros x Hx.
  apply in_app_or in Hx. destruct Hx as [Hx|[<-|[]]]; [left; exact Hx|right; cbn; lia].
Qed.
Lemma PRr_remove st s id : PR st s -> PR st (set_pool s (pool_remove (s_pool s) id) (s_next s)).
Proof.
  intros K. eapply PR_trans; [exact K|]. split; [cbn; lia|]. cbn [s_pool set_pool]. intros x Hx.
  unfold pool_remove in Hx. apply filter_In in Hx. left. tauto.
Qed.
Lemma PRr_set_wops st s l : PR st s -> PR st (set_wops s l). Proof. apply PRr_eq. reflexivity. Qed.
Lemma PRr_set_cache st s l : PR st s -> PR st (set_cache s l). Proof. apply PRr_eq. reflexivity. Qed.
Lemma PRr_set_rounds st s l : PR st s -> PR st (set_rounds s l). Proof. apply PRr_eq. reflexivity. Qed.
Lemma PRr_set_fix st s l n : PR st s -> PR st (set_fix s l n). Proof. apply PRr_eq. reflexivity. Qed.
Lemma PRr_set_fixes st s l : PR st s -> PR st (set_fixes s l). Proof. apply PRr_eq. reflexivity. Qed.
Lemma PRr_add_fin st s a b c : PR st s -> PR st (add_fin s a b c). Proof. apply PRr_eq. reflexivity. Qed.
Lemma PRr_finish_w st s w n e : PR st s -> PR st (finish_w s w n e).
Proof. apply PRr_eq. apply (fr_finish_w _ pP); fr. Qed.
Lemma PRr_round_check_over st s r : PR st s -> PR st (round_check_over s r).
Proof. apply PRr_eq. apply (fr_round_check_over _ pP); fr. Qed.

Lemma PRr_fold {A} (f : state -> A -> state) l : (forall st s x, PR st s -> PR st (f s x)) -> forall st s, PR st s -> PR st (fold_left f l s).
Proof. intros H. induction l; intros; cbn; auto. Qed.
Lemma PRr_fold_pair {A B} (f : state * B -> A -> state * B) l :
  (forall st s j x, PR st s -> PR st (fst (f (s, j) x))) -> forall st s i, PR st s -> PR st (fst (fold_left f l (s, i))).
Proof.
  intros H. induction l as [|a l IH]; intros st s i K; cbn; [exact K|].
  destruct (f (s, i) a) as [s' j'] eqn:E. apply IH. specialize (H st s i a K). rewrite E in H. exact H.
Qed.

Ltac prs :=
  repeat first
    [ apply PRr_issue | apply PRr_remove | apply PRr_set_wops | apply PRr_set_cache | apply PRr_set_rounds
    | apply PRr_set_fix | apply PRr_set_fixes | apply PRr_add_fin | apply PRr_finish_w | apply PRr_round_check_over ];
  try assumption.
Ltac prd :=
  repeat match goal with
         | |- context [match ?x with _ => _ end] => destruct x
         | |- context [if ?b then _ else _] => destruct b
         end.
