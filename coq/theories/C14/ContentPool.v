(* C14/ContentPool.v — footprint of the reply handlers on Write calls and client operations: a handler only adds Write
   calls that carry the tract and the write record of a client operation of the state it started from, and every client
   operation it leaves behind has the tract and record of one it found. *)
From Coq Require Import List ZArith Bool Lia.
From BLB Require Import Gen.Consts.
From BLB Require Cluster.Model.
From BLB Require Import C14.Model C14.Proofs C14.Late C14.InvFrame C14.InvStore C14.InvVer C14.InvPool C14.InvContent.
Import ListNotations.
Open Scope Z_scope.

Definition orig (st : state) (w : wop) : Prop := exists w0, In w0 (s_wops st) /\ Xw_key w0 = Xw_key w.
Definition wkey_ok (st : state) (rp : rpc) : Prop :=
  k_kind rp = K_Write -> exists w, In w (s_wops st) /\ rpc_tk rp = w_tk w /\
    Cluster.Model.mkw (Cluster.Model.k_wid rp) (Cluster.Model.k_off rp) (Cluster.Model.k_len rp) = Xw_rec w.
Definition WK (st s : state) : Prop :=
  (forall x, In x (s_pool s) -> In x (s_pool st) \/ wkey_ok st (p_rpc x)) /\ (forall w, In w (s_wops s) -> orig st w).

Lemma WK_refl st : WK st st.
Proof. split; [intros x Hx; left; exact Hx|intros w Hw; exists w; auto]. Qed.

Lemma orig_key st w w' : Xw_key w' = Xw_key w -> orig st w -> orig st w'.
Proof. intros E [w0 [H0 K]]. exists w0. split; [exact H0|congruence]. Qed.

Lemma wkey_write st w h v : orig st w -> wkey_ok st (mk_write w h v).
Proof.
  intros [w0 [H0 K]] _. exists w0. split; [exact H0|]. unfold Xw_key in K. injection K as K1 K2 K3 K4 K5 K6.
  unfold rpc_tk, mk_write, mk_rpc, w_tk, Xw_rec. cbn. rewrite K2, K3, K4, K5, K6. auto.
Qed.

Definition pW (st : state) := (s_pool st, s_wops st).

Lemma WKr_eq st s s' : pW s' = pW s -> WK st s -> WK st s'.
Proof. unfold pW. intros H [K1 K2]. injection H as H1 H2. split; [rewrite H1; exact K1|rewrite H2; exact K2]. Qed.
Lemma WKr_issue st s r o : wkey_ok st r -> WK st s -> WK st (issue s r o).
Proof.
  intros Hn [K1 K2]. split; [|exact K2]. intros x Hx. cbn [s_pool issue set_pool] in Hx.
  apply in_app_or in Hx. destruct Hx as [Hx|[<-|[]]]; [exact (K1 x Hx)|right; exact Hn].
Qed.
Lemma WKr_remove st s id : WK st s -> WK st (set_pool s (pool_remove (s_pool s) id) (s_next s)).
Proof. intros [K1 K2]. split; [|exact K2]. intros x Hx. cbn [s_pool set_pool] in Hx. unfold pool_remove in Hx. apply filter_In in Hx. apply K1. tauto. Qed.
Lemma WKr_set_wops st s l : (forall w, In w l -> orig st w) -> WK st s -> WK st (set_wops s l).
Proof. intros H [K1 K2]. split; [exact K1|exact H]. Qed.
Lemma WKr_upd_wop st s w : orig st w -> WK st s -> WK st (set_wops s (upd_wop (s_wops s) w)).
Proof.
  intros Ho K. apply WKr_set_wops; [|exact K]. intros x Hx. unfold upd_wop in Hx. apply in_map_iff in Hx. destruct Hx as [y [<- Hy]].
  destruct (wo_op y =? wo_op w); [exact Ho|exact (proj2 K y Hy)].
Qed.
Lemma WKr_del_wop st s op : WK st s -> WK st (set_wops s (del_wop (s_wops s) op)).
Proof. intros K. apply WKr_set_wops; [|exact K]. intros x Hx. unfold del_wop in Hx. apply filter_In in Hx. exact (proj2 K x (proj1 Hx)). Qed.
Lemma WKr_set_cache st s l : WK st s -> WK st (set_cache s l). Proof. apply WKr_eq. reflexivity. Qed.
Lemma WKr_set_rounds st s l : WK st s -> WK st (set_rounds s l). Proof. apply WKr_eq. reflexivity. Qed.
Lemma WKr_set_fix st s l n : WK st s -> WK st (set_fix s l n). Proof. apply WKr_eq. reflexivity. Qed.
Lemma WKr_set_fixes st s l : WK st s -> WK st (set_fixes s l). Proof. apply WKr_eq. reflexivity. Qed.
Lemma WKr_add_fin st s a b c : WK st s -> WK st (add_fin s a b c). Proof. apply WKr_eq. reflexivity. Qed.
Lemma WKr_finish_w st s w n e : WK st s -> WK st (finish_w s w n e).
Proof.
  intros K. unfold finish_w. pose proof (WKr_add_fin st _ (wo_op w) n e (WKr_del_wop st s (wo_op w) K)) as B.
  destruct (_ && _); [|exact B]. destruct (_ && _); (eapply WKr_eq; [|exact B]); reflexivity.
Qed.
Lemma WKr_round_check_over st s r : WK st s -> WK st (round_check_over s r).
Proof. apply WKr_eq. apply (fr_round_check_over _ pW); fr. Qed.

Lemma WKr_fold {A} st (f : state -> A -> state) l : (forall s x, WK st s -> WK st (f s x)) -> forall s, WK st s -> WK st (fold_left f l s).
Proof. intros H. induction l; intros; cbn; auto. Qed.
Lemma WKr_fold_pair {A B} st (f : state * B -> A -> state * B) l :
  (forall s j x, WK st s -> WK st (fst (f (s, j) x))) -> forall s i, WK st s -> WK st (fst (fold_left f l (s, i))).
Proof.
  intros H. induction l as [|a l IH]; intros s i K; cbn; [exact K|].
  destruct (f (s, i) a) as [s' j'] eqn:E. apply IH. specialize (H s i a K). rewrite E in H. exact H.
Qed.

Ltac nw := let K := fresh "K" in intros K; vm_compute in K; discriminate K.

Ltac okey := eapply orig_key; [|eassumption]; reflexivity.
Ltac wks :=
  repeat first
    [ apply WKr_finish_w | apply WKr_round_check_over
    | apply WKr_issue; [nw|] | apply WKr_remove | apply WKr_set_cache | apply WKr_set_rounds
    | apply WKr_set_fix | apply WKr_set_fixes | apply WKr_add_fin
    | apply WKr_upd_wop; [okey|] ];
  try assumption.

Lemma WKr_w_after_entry fx st s w e c : orig st w -> WK st s -> WK st (w_after_entry fx s w e c).
Proof.
  intros Ho K. unfold w_after_entry. prd; wks.
  apply WKr_fold; [|wks]. intros s0 [h k] K0. apply WKr_issue; [apply wkey_write; exact Ho|exact K0].
Qed.
Lemma WKr_w_get fx st s w : orig st w -> WK st s -> WK st (w_get fx s w).
Proof. intros Ho K. unfold w_get. prd; first [apply WKr_w_after_entry; assumption | wks]. Qed.

Lemma WKr_cli_reply fx st s op r res en : WK st s -> WK st (cli_reply fx s op r res en).
Proof.
  intros K. unfold cli_reply. destruct (find_wop (s_wops s) op) as [w|] eqn:Fw; [|exact K].
  assert (Ho: orig st w) by (exact (proj2 K w (proj1 (find_wop_in _ _ _ Fw)))).
  prd; try assumption;
  first [apply WKr_w_get; assumption | apply WKr_w_after_entry; [exact Ho|wks] | wks].
Qed.

Lemma WKr_finish_fix fx st s f e : WK st s -> WK st (finish_fix fx s f e).
Proof. intros K. unfold finish_fix. prd; first [apply WKr_cli_reply; wks | wks]. Qed.

Lemma WKr_activate_fix fx st s f : WK st s -> WK st (activate_fix fx s f).
Proof.
  intros K. unfold activate_fix. prd; try (apply WKr_finish_fix; assumption).
  apply WKr_fold; [intros; wks|]. wks.
Qed.

Lemma WKr_wake fx st n : forall s, WK st s -> WK st (wake fx n s).
Proof. induction n; intros s K; cbn [wake]; [exact K|]. destruct (find _ _); [|exact K]. apply IHn. apply WKr_activate_fix. exact K. Qed.

Lemma WKr_start_fix fx st s g tk c b r : WK st s -> WK st (start_fix fx s g tk c b r).
Proof. intros K. unfold start_fix. prd; apply WKr_wake; [apply WKr_finish_fix|]; wks. Qed.

Lemma WKr_fix_reply fx st s id err : WK st s -> WK st (fix_reply fx s id err).
Proof.
  intros K. unfold fix_reply. destruct (find_fix _ _) as [f|]; [|exact K].
  destruct (negb _); [apply WKr_wake; apply WKr_finish_fix; exact K|].
  destruct (1 <? f_wait f); [wks|].
  pose proof (fr_change_tract _ pW ltac:(fr) s (f_term f) (f_tk f) (f_dv f + 1) (f_hosts f)) as Q.
  destruct (change_tract _ _ _ _ _) as [s1 e]. cbn [fst] in Q.
  apply WKr_wake. apply WKr_finish_fix. eapply WKr_eq; [exact Q|exact K].
Qed.

Lemma WKr_round_after_stats st s r : WK st s -> WK st (round_after_stats s r).
Proof. intros K. unfold round_after_stats. prd; wks. Qed.

Lemma WKr_stat_reply fx st s r tk h e sz stamp : WK st s -> WK st (stat_reply fx s r tk h e sz stamp).
Proof.
  intros K. unfold stat_reply. destruct (find_ptr _ _); [|exact K].
  match goal with |- context [match pt_next ?p1 with _ => _ end] => destruct (pt_next p1) end; [|wks].
  match goal with |- WK st (if ?c then _ else _) => destruct c end;
  match goal with |- context [if ?c then start_fix _ _ _ _ _ _ _ else _] => destruct c end;
  try apply WKr_round_after_stats; try apply WKr_start_fix; wks.
Qed.

Lemma WKr_cleanup st s g e : WK st s -> WK st (cleanup s g e).
Proof. intros K. unfold cleanup. apply WKr_fold_pair; [|exact K]. intros s0 j x K0. cbn [fst]. wks. Qed.

Lemma WKr_enc_finish st s r e ok : WK st s -> WK st (enc_finish s r e ok).
Proof. intros K. unfold enc_finish. apply WKr_round_check_over. destruct ok; [exact K|apply WKr_cleanup; exact K]. Qed.

Lemma WKr_alloc_reply st s r e b w h : WK st s -> WK st (alloc_reply s r e b w h).
Proof.
  intros K. unfold alloc_reply. destruct (negb _); [wks|]. cbv zeta.
  match goal with |- context [if negb ?v then _ else _] => destruct (negb v) end; [wks|].
  apply WKr_round_check_over. apply WKr_fold; [|wks].
  intros s0 x K0. apply WKr_fold_pair; [|exact K0]. intros s1 j y K1. cbn [fst]. destruct (j <? RS_N); wks.
Qed.

Lemma WKr_round_reply fx st s op rp res hint : WK st s -> WK st (round_reply fx s op rp res hint).
Proof.
  intros K. unfold round_reply. destruct (find_round _ _) as [r|]; [|exact K].
  destruct (_ =? K_CtlStat); [apply WKr_stat_reply; exact K|].
  destruct (_ =? K_Alloc); [apply WKr_alloc_reply; exact K|].
  destruct (_ =? K_PackTracts).
  { destruct (find_enc_chunk _ _); [|exact K]. cbv zeta. prd; first [apply WKr_enc_finish; exact K | wks]. }
  destruct (_ =? K_RSEncode).
  { destruct (find_enc_chunk _ _); [|exact K]. destruct (negb _); [apply WKr_enc_finish; exact K|]. cbv zeta.
    apply WKr_fold; [intros s0 [[[a b] c] d] K0; wks|wks]. }
  destruct (_ =? K_SetVersion).
  { destruct (find_enc_tract _ _); [|exact K]. cbv zeta. prd; first [apply WKr_enc_finish; exact K | wks]. }
  destruct (_ =? K_Commit).
  { destruct (find_enc_chunk _ _); [|exact K]. apply WKr_enc_finish; exact K. }
  exact K.
Qed.

Lemma WK_deliver fx st e res en hint : WK st (deliver fx st e res en hint).
Proof.
  unfold deliver. prd; first [apply WKr_fix_reply | apply WKr_cli_reply | apply WKr_round_reply | idtac]; wks; apply WK_refl.
Qed.
