(* C14/Proofs.v — predicates on final states and the lemmas behind Props.v *)
From Coq Require Import List ZArith Bool Lia.
From BLB Require Import Gen.Consts.
From BLB Require Cluster.Model.
From BLB Require Import C14.Model.
Import ListNotations.
Open Scope Z_scope.

Notation w_id := Cluster.Model.w_id.
Notation w_off := Cluster.Model.w_off.
Notation w_len := Cluster.Model.w_len.

Definition wid_in (app : list wrec) (wid : Z) : bool := existsb (fun w => w_id w =? wid) app.

(* trichotomy at the end of a run: an acknowledged write that had started when the commit of its tract was
   applied is contained in the packed copy (otherwise: the move would have been abandoned or the write rejected) *)
Definition tri_ok (st : state) : bool :=
  forallb (fun '(tk, _, packed, _, _, started) =>
             forallb (fun '(tk', w) => if Cluster.Model.tk_eqb tk tk' && wid_in started (w_id w) then wid_in packed (w_id w) else true)
                     (s_acked st)) (s_commits st).

(* refusal: no write that started after the commit of its tract is ever acknowledged *)
Definition after_ok (st : state) : bool :=
  forallb (fun '(tk, _, _, _, _, started) =>
             forallb (fun '(tk', w) => if Cluster.Model.tk_eqb tk tk' then wid_in started (w_id w) else true) (s_acked st)) (s_commits st).

(* content: byte by byte, the packed copy shows the newest write attempt (among those started before the commit)
   covering the byte if that attempt was acknowledged, and zero where nothing was ever written *)
Fixpoint newest_cover (att : list wrec) (p : Z) : option wrec :=
  match att with
  | [] => None
  | w :: r => if Cluster.Model.covers w p then Some w else newest_cover r p
  end.
Definition is_acked (st : state) (tk : tkt) (wid : Z) : bool :=
  existsb (fun '(tk', w) => Cluster.Model.tk_eqb tk tk' && (w_id w =? wid)) (s_acked st).
Definition cut_points (l : list wrec) : list Z := flat_map (fun w => [w_off w; w_off w + w_len w - 1; w_off w + w_len w]) l.
Definition content_ok (st : state) : bool :=
  forallb (fun '(tk, _, packed, _, _, started) =>
             forallb (fun p => match newest_cover started p with
                               | None => Cluster.Model.byte_at packed p =? 0
                               | Some w => if is_acked st tk (w_id w) then Cluster.Model.byte_at packed p =? w_id w else true
                               end) (cut_points (started ++ packed))) (s_commits st).

Definition line_ok (o : list Z) : bool := match o with [] => true | c :: _ => 0 <=? c end.
Definition clean_run (fx : fixes) (evs : list (list Z)) : bool := forallb line_ok (run_fx fx init_state evs).

(* ------------------------------------------------------------------ stamps *)
Lemma sget_sset_same : forall m k v, sget (sset m k v) k = Some v.
Proof.
  intros. unfold sset. cbn [sget].
  assert (H: Cluster.Model.rk_eqb k k = true).
  { destruct k as [a [b c]]. unfold Cluster.Model.rk_eqb, Cluster.Model.tk_eqb. cbn. rewrite !Z.eqb_refl. reflexivity. }
  rewrite H. reflexivity.
Qed.

Lemma stamp_of_fst : forall st ts tk, fst (stamp_of st ts tk) = epoch_of st ts.
Proof.
  intros. unfold stamp_of. destruct (sget (s_stamps st) (ts, tk)) as [[e c]|]; cbn; auto.
  destruct (e =? epoch_of st ts) eqn:E; cbn; auto. apply Z.eqb_eq in E. auto.
Qed.

Lemma cm_write_keeps : forall reps ts tk ver wid off len r,
  Cluster.Model.rget reps (ts, tk) = Some r ->
  exists r', Cluster.Model.rget (fst (Cluster.Model.ts_write reps ts tk ver wid off len)) (ts, tk) = Some r'.
Proof.
  intros. unfold Cluster.Model.ts_write. rewrite H.
  destruct (Cluster.Model.r_ver r =? ver); cbn [fst].
  - unfold Cluster.Model.rset. cbn [Cluster.Model.rget].
    assert (E: Cluster.Model.rk_eqb (ts, tk) (ts, tk) = true).
    { destruct tk as [b c]. unfold Cluster.Model.rk_eqb, Cluster.Model.tk_eqb. cbn. rewrite !Z.eqb_refl. reflexivity. }
    rewrite E. eauto.
  - eauto.
Qed.

Lemma bump_after_write :
  forall st ts tk ver wid off len v nv e sz stamp st1 c,
    ts_stat st ts tk v = (e, sz, stamp) -> e <> cl_ErrNoSuchTract ->
    ts_write st ts tk ver wid off len = (st1, c) ->
    snd (ts_setversion st1 ts ts tk nv (Some stamp)) = c14_ErrStampChanged \/ nv <= 1.
Proof.
  intros st ts tk ver wid off len v nv e sz stamp st1 c Hs Hne Hw.
  unfold ts_stat in Hs. destruct (Cluster.Model.rget (s_reps st) (ts, tk)) as [r|] eqn:Hr.
  2:{ inversion Hs; subst. congruence. }
  assert (Hstamp: stamp = stamp_of st ts tk).
  { destruct (Cluster.Model.r_ver r =? v); inversion Hs; reflexivity. }
  unfold ts_write in Hw. rewrite Hr in Hw.
  destruct (stamp_of st ts tk) as [e0 c0] eqn:Hso.
  destruct (Cluster.Model.ts_write (s_reps (set_stamps st (sset (s_stamps st) (ts, tk) (e0, c0 + 1)))) ts tk ver wid off len) as [reps cls] eqn:Hcw.
  inversion Hw; subst st1 c. clear Hw.
  destruct (nv <=? 1) eqn:Hnv; [right; apply Z.leb_le; exact Hnv|left].
  unfold ts_setversion. rewrite Z.eqb_refl. cbn [negb]. rewrite Hnv.
  cbn [s_reps set_reps set_store].
  assert (Hk: exists r', Cluster.Model.rget reps (ts, tk) = Some r').
  { pose proof (cm_write_keeps (s_reps st) ts tk ver wid off len r Hr) as K.
    cbn [s_reps set_stamps set_store] in Hcw. rewrite Hcw in K. exact K. }
  destruct Hk as [r' Hr']. rewrite Hr'.
  assert (Hne2: stamp_eqb stamp (stamp_of (set_reps (set_stamps st (sset (s_stamps st) (ts, tk) (e0, c0 + 1))) reps) ts tk) = false).
  { unfold stamp_of. cbn [s_stamps set_reps set_stamps set_store]. rewrite sget_sset_same.
    pose proof (stamp_of_fst st ts tk) as F. rewrite Hso in F. cbn [fst] in F.
    change (epoch_of (set_reps (set_stamps st (sset (s_stamps st) (ts, tk) (e0, c0 + 1))) reps) ts) with (epoch_of st ts).
    rewrite <- F. rewrite Z.eqb_refl.
    subst stamp. unfold stamp_eqb. cbn. rewrite Z.eqb_refl. cbn.
    apply Z.eqb_neq. lia. }
  rewrite Hne2. cbn. reflexivity.
Qed.

(* what a restart does to the Store of a tractserver (first action of step_restart) *)
Definition restart_store (st : state) (ts : Z) : state :=
  set_epoch st (Cluster.Model.zset (s_epoch st) ts (epoch_of st ts + 1)).

Lemma step_restart_is_restart_store : forall fx st ts,
  exists rest, fst (step_restart fx st ts) = rest (restart_store st ts).
Proof. intros. unfold step_restart. eexists (fun s => _). cbn [fst]. reflexivity. Qed.

Lemma zget_zset_same : forall (m : list (Z * Z)) k v, Cluster.Model.zget (Cluster.Model.zset m k v) k = Some v.
Proof. intros. unfold Cluster.Model.zset. cbn. rewrite Z.eqb_refl. reflexivity. Qed.

Lemma bump_after_restart :
  forall st ts tk v nv e sz stamp,
    ts_stat st ts tk v = (e, sz, stamp) -> e <> cl_ErrNoSuchTract ->
    snd (ts_setversion (restart_store st ts) ts ts tk nv (Some stamp)) = c14_ErrStampChanged \/ nv <= 1.
Proof.
  intros st ts tk v nv e sz stamp Hs Hne.
  unfold ts_stat in Hs. destruct (Cluster.Model.rget (s_reps st) (ts, tk)) as [r|] eqn:Hr.
  2:{ inversion Hs; subst. congruence. }
  assert (Hstamp: stamp = stamp_of st ts tk).
  { destruct (Cluster.Model.r_ver r =? v); inversion Hs; reflexivity. }
  destruct (nv <=? 1) eqn:Hnv; [right; apply Z.leb_le; exact Hnv|left].
  unfold ts_setversion. rewrite Z.eqb_refl. cbn [negb]. rewrite Hnv.
  change (s_reps (restart_store st ts)) with (s_reps st). rewrite Hr.
  assert (Hne2: stamp_eqb stamp (stamp_of (restart_store st ts) ts tk) = false).
  { unfold stamp_eqb.
    rewrite (stamp_of_fst (restart_store st ts) ts tk). subst stamp. rewrite (stamp_of_fst st ts tk).
    assert (E: epoch_of (restart_store st ts) ts = epoch_of st ts + 1).
    { unfold epoch_of at 1. unfold restart_store. cbn [s_epoch set_epoch]. rewrite zget_zset_same. reflexivity. }
    rewrite E. replace (epoch_of st ts =? epoch_of st ts + 1) with false; [reflexivity|].
    symmetry. apply Z.eqb_neq. lia. }
  rewrite Hne2. reflexivity.
Qed.

(* ------------------------------------------------------------------ commit *)
Definition check_one (fx : fixes) (st : state) (x : tkt * Z * Z * Z * Z) : Z :=
  let '(tk, _, _, nv, _) := x in
  match dget st tk with
  | None => cl_ErrNoSuchTract
  | Some d => match d_rs d with
              | Some _ => cl_ErrConflictingState
              | None => if fx6 fx && negb (d_ver d + 1 =? nv) then cl_ErrConflictingState else cl_NoError
              end
  end.

Lemma commit_checks_fold : forall fx st l e0,
  fold_left (fun e '(tk, _, _, nv, _) =>
               if negb (e =? cl_NoError) then e
               else match dget st tk with
                    | None => cl_ErrNoSuchTract
                    | Some d => match d_rs d with
                                | Some _ => cl_ErrConflictingState
                                | None => if fx6 fx && negb (d_ver d + 1 =? nv) then cl_ErrConflictingState else cl_NoError
                                end
                    end) l e0 = cl_NoError ->
  e0 = cl_NoError /\ forall x, In x l -> check_one fx st x = cl_NoError.
Proof.
  induction l as [|x l IH]; intros e0 H; cbn [fold_left] in H.
  - split; [exact H|intros x []].
  - apply IH in H. destruct H as [H1 H2].
    destruct x as [[[[tk off] len] nv] idx].
    destruct (negb (e0 =? cl_NoError)) eqn:E.
    + subst e0. exfalso. vm_compute in E. discriminate.
    + apply negb_false_iff in E. apply Z.eqb_eq in E. split; [exact E|].
      intros x [Hx|Hx]; [subst x; unfold check_one; exact H1|apply H2; exact Hx].
Qed.

Lemma commit_checked :
  forall fx st op term base hosts tracts st1,
    fx6 fx = true -> commit_rs fx st op term base hosts tracts = (st1, cl_NoError) ->
    term = s_term st /\
    forall tk off len nv idx, In (tk, off, len, nv, idx) tracts ->
      exists d, dget st tk = Some d /\ d_ver d + 1 = nv /\ d_rs d = None.
Proof.
  intros fx st op term base hosts tracts st1 Hfx H.
  unfold commit_rs in H.
  destruct (negb (term =? s_term st)) eqn:Et.
  { exfalso. injection H as _ H2. vm_compute in H2. discriminate. }
  apply negb_false_iff in Et. apply Z.eqb_eq in Et. split; [exact Et|].
  destruct (negb (commit_checks fx st tracts =? cl_NoError)) eqn:Ec.
  { exfalso. injection H as _ H2. rewrite H2 in Ec. vm_compute in Ec. discriminate. }
  apply negb_false_iff in Ec. apply Z.eqb_eq in Ec.
  unfold commit_checks in Ec. apply commit_checks_fold in Ec. destruct Ec as [_ Hall].
  intros tk off len nv idx Hin. specialize (Hall _ Hin). unfold check_one in Hall.
  destruct (dget st tk) as [d|]; [|exfalso; vm_compute in Hall; discriminate].
  exists d. split; [reflexivity|].
  destruct (d_rs d); [exfalso; vm_compute in Hall; discriminate|].
  rewrite Hfx in Hall. cbn [andb] in Hall.
  destruct (d_ver d + 1 =? nv) eqn:Ev; cbn [negb] in Hall.
  - apply Z.eqb_eq in Ev. auto.
  - exfalso. vm_compute in Hall. discriminate.
Qed.

(* ------------------------------------------------------------------ refusal *)
Lemma stat_refuses :
  forall fx st w r cls nt,
    find_wop (s_wops st) (wo_op w) = Some w -> wo_phase w = 1 -> Cluster.Model.k_kind r = K_StatBlob -> cls <> c14_ClassREPLICATED ->
    cli_reply fx st (wo_op w) r [cl_NoError; nt; cls] None = finish_w st w 0 c14_ErrReadOnlyStorageClass.
Proof.
  intros fx st w r cls nt Hf Hp Hk Hc. unfold cli_reply. rewrite Hf. rewrite Hk. rewrite Hp.
  cbn [hd nth]. rewrite Z.eqb_refl. rewrite Z.eqb_refl. cbn [negb].
  replace (cls =? c14_ClassREPLICATED) with false; [reflexivity|].
  symmetry. apply Z.eqb_neq. exact Hc.
Qed.

Lemma fixed_client_refuses :
  forall fx st w e cached,
    fx14 fx = true -> (ce_rs e = true \/ ce_hosts e = []) ->
    w_after_entry fx st w e cached = finish_w st w 0 c14_ErrReadOnlyStorageClass.
Proof.
  intros fx st w e cached Hfx H. unfold w_after_entry. rewrite Hfx. cbn [andb].
  destruct H as [H|H]; rewrite H; cbn; [reflexivity|].
  rewrite orb_true_r. reflexivity.
Qed.

Lemma term_bound :
  forall fx st op term base hosts tracts blob cls,
    term <> s_term st ->
    commit_rs fx st op term base hosts tracts = (st, cl_ErrLeaderContinuityBroken) /\
    update_class st op term blob cls = (st, cl_ErrLeaderContinuityBroken).
Proof.
  intros. unfold commit_rs, update_class.
  replace (term =? s_term st) with false; [cbn [negb]; split; reflexivity|].
  symmetry. apply Z.eqb_neq. assumption.
Qed.
