(* C14/TriFull.v — the piece-provenance invariant (InvPiece) discharges the source hypothesis of InvContent: the racing-write
   trichotomy for the repaired model over all schedules in which a curator incarnation runs one round at a time. *)
From Coq Require Import List ZArith Bool Lia.
From BLB Require Import Gen.Consts.
From BLB Require Cluster.Model.
From BLB Require Import C14.Model C14.Proofs C14.Run C14.Late C14.InvFrame C14.InvStore C14.InvVer C14.InvPool C14.InvRound C14.InvTract C14.InvContent C14.InvPiece.
Import ListNotations.
Open Scope Z_scope.

(* the scheduling restriction, as a boolean over the run: event 80 (start a round) only fires when no round of the
   current curator incarnation is still present *)
Fixpoint gens_run (fx : fixes) (st : state) (evs : list (list Z)) : bool :=
  match evs with
  | [] => true
  | ev :: r => ev_gen_ok st ev && gens_run fx (fst (step_fx fx st ev)) r
  end.

Lemma PInv_quiet fx st : pR st = pR init_state -> PInv fx st.
Proof.
  unfold pR. cbn. intros H. injection H as H1 H2 H3 H4 H5 H6.
  constructor; rewrite ?H1, ?H3.
  - constructor.
  - constructor.
  - intros r1 r2 e1 e2 c [].
  - intros pe [].
  - intros pe [].
  - intros pe [].
  - intros r [].
Qed.

Lemma begin_PInv fx st : PInv fx st -> PInv fx (begin_event st).
Proof. intros HP. apply (PInv_pPJ_NK fx st); [reflexivity|apply NK_pool; reflexivity|exact HP]. Qed.

Lemma src_step fx st : fx6 fx = true -> fx13 fx = true -> XInv4 fx st -> PInv fx st ->
  XSrcAll (begin_event st) /\ (forall e extra, In e (s_pool st) -> XSrcAll (st_of (exec_rpc fx (begin_event st) e extra))).
Proof.
  intros H6 H13 [F D R T] HP.
  assert (HP': PInv fx (begin_event st)) by (apply begin_PInv; exact HP).
  assert (HR: RInv fx (begin_event st)) by (eapply RInv_same; [| |exact R]; reflexivity).
  assert (HD: DInv (begin_event st)) by (eapply DInv_pD; [|exact D]; reflexivity).
  assert (HT: TInv (begin_event st)) by (eapply TInv_same; [|exact T]; reflexivity).
  split; [exact (PInv_src fx _ H6 HP' HR)|].
  intros e extra He. apply (PInv_src fx _ H6); [apply PInv_exec; assumption|apply RInv_exec; exact HR].
Qed.

Lemma src_run_of_PInv fx evs : fx6 fx = true -> fx13 fx = true -> fx14 fx = true -> forallb ev_run evs = true ->
  forall st, XInv4 fx st -> PInv fx st -> gens_run fx st evs = true -> src_run fx st evs.
Proof.
  intros H6 H13 H14. induction evs as [|ev evs IH]; intros H st X HP Hg; cbn [src_run]; [exact I|].
  cbn in H. apply andb_true_iff in H. destruct H as [H1 H2]. cbn [gens_run] in Hg. apply andb_true_iff in Hg. destruct Hg as [G1 G2].
  destruct (src_step fx st H6 H13 X HP) as [S0 S1]. split; [exact S0|]. split; [exact S1|].
  pose proof X as [F D R T]. apply IH; [exact H2| |apply PInv_step; assumption|exact G2].
  constructor.
  - apply XFInv_step; assumption.
  - apply DInv_step; assumption.
  - apply RInv_step; assumption.
  - apply TInv_step; assumption.
Qed.

Lemma setup2_setup setup : forallb ev_setup2 setup = true -> forallb ev_setup setup = true.
Proof.
  intros Hs. apply forallb_forall. intros x Hx. rewrite forallb_forall in Hs. specialize (Hs x Hx). unfold ev_setup2 in Hs. apply andb_true_iff in Hs. tauto.
Qed.

(* I2 over all schedules: the provenance condition holds along every run of the repaired model *)
Theorem src_run_reachable fx setup evs : fx6 fx = true -> fx13 fx = true -> fx14 fx = true ->
  forallb ev_setup2 setup = true -> forallb ev_run evs = true ->
  gens_run fx (run_state_fx fx init_state setup) evs = true ->
  src_run fx (run_state_fx fx init_state setup) evs.
Proof.
  intros H6 H13 H14 Hs He Hg. apply src_run_of_PInv; try assumption.
  - pose proof (XInv4_reachable fx setup [] H6 H14 Hs eq_refl I) as X. rewrite app_nil_r in X. exact X.
  - apply PInv_quiet. apply pR_setup_run. apply setup2_setup. exact Hs.
Qed.

Theorem trichotomy_if_commit_checks_version_and_sources_are_statted fx setup evs :
  fx6 fx = true -> fx13 fx = true -> fx14 fx = true ->
  forallb ev_setup2 setup = true -> forallb ev_run evs = true ->
  gens_run fx (run_state_fx fx init_state setup) evs = true ->
  tri_ok (run_state_fx fx init_state (setup ++ evs)) = true.
Proof.
  intros H6 H13 H14 Hs He Hg. apply tri_given_sources; try assumption. apply src_run_reachable; assumption.
Qed.

(* the piece invariant itself, for use by the content theorem *)
Theorem PInv_reachable fx setup evs : fx6 fx = true -> fx13 fx = true -> fx14 fx = true ->
  forallb ev_setup2 setup = true -> forallb ev_run evs = true ->
  gens_run fx (run_state_fx fx init_state setup) evs = true ->
  PInv fx (run_state_fx fx init_state (setup ++ evs)) /\ XInv4 fx (run_state_fx fx init_state (setup ++ evs)).
Proof.
  intros H6 H13 H14 Hs He Hg. rewrite run_state_app.
  assert (X0: XInv4 fx (run_state_fx fx init_state setup)).
  { pose proof (XInv4_reachable fx setup [] H6 H14 Hs eq_refl I) as X. rewrite app_nil_r in X. exact X. }
  assert (P0: PInv fx (run_state_fx fx init_state setup)) by (apply PInv_quiet; apply pR_setup_run; apply setup2_setup; exact Hs).
  revert He Hg X0 P0. generalize (run_state_fx fx init_state setup). induction evs as [|ev evs IH]; intros st He Hg X HP; cbn; [split; assumption|].
  cbn in He. apply andb_true_iff in He. destruct He as [H1 H2]. cbn [gens_run] in Hg. apply andb_true_iff in Hg. destruct Hg as [G1 G2].
  destruct (src_step fx st H6 H13 X HP) as [S0 S1]. pose proof X as [F D R T].
  apply IH; [exact H2|exact G2| |apply PInv_step; assumption].
  constructor; [apply XFInv_step|apply DInv_step|apply RInv_step|apply TInv_step]; assumption.
Qed.
