(* C14/InvTract.v — shape of the per-tract records of a tractPacker: the hosts still to be asked are sources, a tract
   with a known length has a collected stamp of one of its sources, and every tract an encode operation (with hosts)
   packs is eligible (length >= 1), hence has a stat'ed source. *)
From Coq Require Import List ZArith Bool Lia.
From BLB Require Import Gen.Consts.
From BLB Require Cluster.Model.
From BLB Require Import C14.Model C14.Proofs C14.Run C14.Late C14.InvFrame C14.InvStore C14.InvVer C14.InvPool C14.InvRound.
Import ListNotations.
Open Scope Z_scope.

Record TR (r : round) : Prop := {
  t_next : forall p, In p (rd_tracts r) -> incl (pt_next p) (pt_from p);
  t_stamp : forall p, In p (rd_tracts r) -> 0 <= pt_len p -> exists h, In h (pt_from p) /\ zget (pt_stamps p) h <> None;
  t_elig : forall e tk o l, In e (rd_encs r) -> e_hosts e <> [] -> In (tk, o, l) (e_chunks e) ->
             exists p, find_ptr (rd_tracts r) tk = Some p /\ 1 <= pt_len p
}.
Definition TInv (st : state) : Prop := forall r, In r (s_rounds st) -> TR r.

Lemma TInv_same st st' : s_rounds st' = s_rounds st -> TInv st -> TInv st'.
Proof. unfold TInv. intros H. rewrite H. auto. Qed.

Lemma TInv_upd st r' : TInv st -> TR r' -> TInv (set_rounds st (upd_round (s_rounds st) r')).
Proof. intros HI H r Hr. cbn in Hr. apply in_upd_round in Hr. destruct Hr as [Hr| ->]; [exact (HI r Hr)|exact H]. Qed.
Lemma TInv_del st op : TInv st -> TInv (set_rounds st (del_round (s_rounds st) op)).
Proof. intros HI r Hr. cbn in Hr. apply in_del_round in Hr. exact (HI r Hr). Qed.

Lemma TInv_round_check_over st r : TInv st -> TR r -> TInv (round_check_over st r).
Proof.
  intros HI H. unfold round_check_over. destruct (forallb _ _).
  - eapply TInv_same; [|apply (TInv_del st (rd_op r) HI)]. reflexivity.
  - apply TInv_upd; assumption.
Qed.

Lemma TR_no_encs r ph dn : TR r -> TR (rd_set r ph (rd_tracts r) [] dn).
Proof. intros [A B C]. constructor; cbn [rd_tracts rd_encs rd_set]; [exact A|exact B|intros e tk o l []]. Qed.

Lemma TInv_round_after_stats st r : TInv st -> TR r -> TInv (round_after_stats st r).
Proof.
  intros HI H. unfold round_after_stats. destruct (_ =? 0).
  - apply TInv_round_check_over; [exact HI|apply TR_no_encs; exact H].
  - eapply TInv_same; [|apply (TInv_upd st (rd_set r 2 (rd_tracts r) [] (rd_done r)) HI)]; [reflexivity|apply TR_no_encs; exact H].
Qed.

Lemma zget_app_some (m : list (Z * (Z * Z))) k v : zget (m ++ [(k, v)]) k <> None.
Proof. induction m as [|[a b] m IH]; cbn; [rewrite Z.eqb_refl; discriminate|]. destruct (k =? a); [discriminate|exact IH]. Qed.
Lemma zget_app_keep (m : list (Z * (Z * Z))) k k' v : zget m k' <> None -> zget (m ++ [(k, v)]) k' <> None.
Proof. induction m as [|[a b] m IH]; cbn; [intros H; contradiction|]. destruct (k' =? a); [discriminate|exact IH]. Qed.

Lemma TR_upd_ptr r pn : TR r ->
  incl (pt_next pn) (pt_from pn) -> (0 <= pt_len pn -> exists h, In h (pt_from pn) /\ zget (pt_stamps pn) h <> None) ->
  TR (rd_set r 1 (upd_ptr (rd_tracts r) pn) [] (rd_done r)).
Proof.
  intros [A B C] H1 H2. constructor; cbn [rd_tracts rd_encs rd_set].
  - intros p Hp. apply in_upd_ptr in Hp. destruct Hp as [Hp| ->]; [exact (A p Hp)|exact H1].
  - intros p Hp. apply in_upd_ptr in Hp. destruct Hp as [Hp| ->]; [exact (B p Hp)|exact H2].
  - intros e tk o l [].
Qed.

Lemma TInv_stat_reply fx st r tk h e sz stamp : TInv st -> TR r ->
  (forall p, find_ptr (rd_tracts r) tk = Some p -> exists rest, pt_next p = h :: rest) ->
  TInv (stat_reply fx st r tk h e sz stamp).
Proof.
  intros HI H Hh. unfold stat_reply. destruct (find_ptr _ _) as [p|] eqn:Fp; [|exact HI].
  destruct (Hh p eq_refl) as [rest Nx]. pose proof (find_ptr_in _ _ _ Fp) as Pin.
  pose proof (t_next _ H p Pin) as T0. pose proof (t_stamp _ H p Pin) as T1.
  assert (Hin: In h (pt_from p)) by (apply T0; rewrite Nx; left; reflexivity).
  assert (Trest: incl (tl (pt_next p)) (pt_from p)) by (rewrite Nx; cbn; intros x Hx; apply T0; rewrite Nx; right; exact Hx).
  set (vmh := if e =? cl_ErrVersionMismatch then h else pt_vmh p).
  match goal with |- context [match pt_next ?x with _ => _ end] => set (p1 := x) end.
  assert (P1: incl (pt_next p1) (pt_from p1) /\ (0 <= pt_len p1 -> exists h0, In h0 (pt_from p1) /\ zget (pt_stamps p1) h0 <> None)).
  { unfold p1. destruct (negb (e =? cl_NoError)); [cbn; split; assumption|].
    destruct ((0 <=? pt_len p) && negb (sz =? pt_len p)); cbn; [split; [intros x []|intros K; lia]|].
    split; [exact Trest|]. intros _. exists h. split; [exact Hin|apply zget_app_some]. }
  destruct P1 as [P1a P1b].
  destruct (pt_next p1) as [|h' l'] eqn:N1.
  - set (p2 := pt_set p1 (pt_len p1) [] (pt_stamps p1) vmh true).
    assert (R2: TR (rd_set r 1 (upd_ptr (rd_tracts r) p2) [] (rd_done r))).
    { apply TR_upd_ptr; [exact H|cbn; intros x []|exact P1b]. }
    assert (B: TInv (set_rounds st (upd_round (s_rounds st) (rd_set r 1 (upd_ptr (rd_tracts r) p2) [] (rd_done r))))) by (apply TInv_upd; assumption).
    match goal with |- TInv (if _ then round_after_stats ?s2 _ else _) => assert (B2: TInv s2) end.
    { destruct ((pt_len p2 <? 0) && negb (vmh =? 0)); [|exact B]. eapply TInv_same; [|exact B]. apply (fr_start_fix _ s_rounds); fr. }
    destruct (all_stats_done _); [|exact B2]. apply TInv_round_after_stats; assumption.
  - eapply TInv_same; [|apply (TInv_upd st (rd_set r 1 (upd_ptr (rd_tracts r) p1) [] (rd_done r)) HI)]; [reflexivity|].
    apply TR_upd_ptr; [exact H|rewrite N1; exact P1a|exact P1b].
Qed.

Lemma TR_set_encs r ph encs dn : TR r ->
  (forall e tk o l, In e encs -> e_hosts e <> [] -> In (tk, o, l) (e_chunks e) -> exists p, find_ptr (rd_tracts r) tk = Some p /\ 1 <= pt_len p) ->
  TR (rd_set r ph (rd_tracts r) encs dn).
Proof. intros [A B C] H. constructor; cbn [rd_tracts rd_encs rd_set]; [exact A|exact B|exact H]. Qed.

Lemma TInv_fold_same {A} (f : state -> A -> state) l : (forall s x, s_rounds (f s x) = s_rounds s) -> forall st, TInv st -> TInv (fold_left f l st).
Proof. intros H. induction l; intros st HI; cbn; [exact HI|]. apply IHl. eapply TInv_same; [apply H|exact HI]. Qed.

Lemma TInv_alloc_reply st r err base want hint : TInv st -> TR r -> TInv (alloc_reply st r err base want hint).
Proof.
  intros HI H. unfold alloc_reply.
  destruct (negb (err =? cl_NoError)); [apply TInv_round_check_over; [exact HI|apply TR_no_encs; exact H]|].
  cbv zeta. set (encs := match hint with [] => [] | n :: rest => parse_encs (Z.to_nat n) rest end).
  match goal with |- context [if negb ?v then _ else _] => destruct (negb v) eqn:V end.
  { eapply TInv_same; [|apply (TInv_del st (rd_op r) HI)]. reflexivity. }
  apply negb_false_iff in V. apply andb_true_iff in V. destruct V as [V _]. apply andb_true_iff in V. destruct V as [_ V].
  match goal with |- context [(fix go (i : nat) (l : list (list Z * list (tkt * Z))) {struct l} : list encop := _) O encs] =>
    set (eops := (fix go (i : nat) (l : list (list Z * list (tkt * Z))) {struct l} : list encop := _) O encs) end.
  assert (Ee: eops = mk_eops r base 0 encs).
  { unfold eops. generalize encs. generalize 0%nat. intros i l0. revert i. induction l0 as [|a t IH]; intros i; [reflexivity|]. cbn [mk_eops]. rewrite <- IH. destruct a. reflexivity. }
  assert (R3: TR (rd_set r 3 (rd_tracts r) eops (rd_done r))).
  { apply TR_set_encs; [exact H|]. rewrite Ee. intros e tk o l He Hh Hc.
    destruct (mk_eops_in _ _ _ _ _ He) as [k [[hs cs] [Nk ->]]]. cbn [mk_eop e_hosts e_chunks] in Hh, Hc.
    rewrite forallb_forall in V. specialize (V (hs, cs) (nth_error_In _ _ Nk)). cbn beta iota in V.
    destruct (Z.of_nat (length hs) =? 0) eqn:L0; [apply Z.eqb_eq in L0; destruct hs; [contradiction|cbn in L0; lia]|].
    cbn [orb] in V. apply andb_true_iff in V. destruct V as [_ V]. rewrite forallb_forall in V.
    apply in_map_iff in Hc. destruct Hc as [[tk2 o2] [E2 H2]]. injection E2 as -> -> _. specialize (V (tk, o) H2). cbn beta iota in V.
    apply andb_true_iff in V. destruct V as [V _]. destruct (find_ptr (rd_tracts r) tk) as [p|]; [|discriminate].
    exists p. split; [reflexivity|]. apply Z.leb_le. exact V. }
  apply TInv_round_check_over; [|exact R3].
  apply TInv_fold_same.
  - intros s x. apply (fold_fr_pair s_rounds). intros s0 j y. cbn [fst]. destruct (j <? RS_N); reflexivity.
  - apply TInv_upd; assumption.
Qed.

Lemma TR_upd_enc r e e' ph dn : TR r -> In e (rd_encs r) -> e_chunks e' = e_chunks e -> e_hosts e' = e_hosts e ->
  TR (rd_set r ph (rd_tracts r) (upd_enc (rd_encs r) e') dn).
Proof.
  intros H He Ec Eh. apply TR_set_encs; [exact H|]. intros x tk o l Hx Hh Hc. apply in_upd_enc in Hx.
  destruct Hx as [[Hx _]| [-> _]]; [exact (t_elig _ H x tk o l Hx Hh Hc)|].
  rewrite Eh in Hh. rewrite Ec in Hc. exact (t_elig _ H e tk o l He Hh Hc).
Qed.

Lemma TInv_enc_finish st r e e1 ok : TInv st -> TR r -> In e (rd_encs r) -> e_chunks e1 = e_chunks e -> e_hosts e1 = e_hosts e ->
  TInv (enc_finish st r e1 ok).
Proof.
  intros HI H He Ec Eh. unfold enc_finish. apply TInv_round_check_over.
  - destruct ok; [exact HI|]. eapply TInv_same; [|exact HI]. apply (fr_cleanup _ s_rounds); fr.
  - apply (TR_upd_enc r e (enc_over e1)); assumption.
Qed.

Lemma TInv_round_reply fx st op rp res hint : TInv st ->
  (forall r p, find_round (s_rounds st) op = Some r -> k_kind rp = K_CtlStat ->
     find_ptr (rd_tracts r) (rpc_tk rp) = Some p -> exists rest, pt_next p = k_ts rp :: rest) ->
  TInv (round_reply fx st op rp res hint).
Proof.
  intros HI Hst. unfold round_reply. destruct (find_round _ _) as [r|] eqn:Fr; [|exact HI].
  pose proof (HI r (find_round_in _ _ _ Fr)) as H.
  assert (U: forall e e', In e (rd_encs r) -> e_chunks e' = e_chunks e -> e_hosts e' = e_hosts e ->
             TInv (set_rounds st (upd_round (s_rounds st) (rd_set r (rd_phase r) (rd_tracts r) (upd_enc (rd_encs r) e') (rd_done r))))).
  { intros e e' He Ec Eh. apply TInv_upd; [exact HI|]. apply (TR_upd_enc r e e'); assumption. }
  destruct (k_kind rp =? K_CtlStat) eqn:K1.
  { apply Z.eqb_eq in K1. apply TInv_stat_reply; [exact HI|exact H|]. intros p Fp. exact (Hst r p eq_refl K1 Fp). }
  destruct (k_kind rp =? K_Alloc); [apply TInv_alloc_reply; assumption|].
  destruct (k_kind rp =? K_PackTracts).
  { destruct (find_enc_chunk _ _) as [e|] eqn:Fe; [|exact HI]. apply find_enc_chunk_in in Fe. destruct Fe as [He _]. cbv zeta.
    destruct (0 <? _); [apply (U e); [exact He|reflexivity..]|].
    destruct (negb _); [apply (TInv_enc_finish st r e); [exact HI|exact H|exact He|reflexivity..]|].
    match goal with |- TInv (issue ?S _ _) => apply (TInv_same S); [reflexivity|] end. apply (U e); [exact He|reflexivity..]. }
  destruct (k_kind rp =? K_RSEncode).
  { destruct (find_enc_chunk _ _) as [e|] eqn:Fe; [|exact HI]. apply find_enc_chunk_in in Fe. destruct Fe as [He _].
    destruct (negb _); [apply (TInv_enc_finish st r e); [exact HI|exact H|exact He|reflexivity..]|]. cbv zeta.
    apply TInv_fold_same; [intros s [[[a b] c] d]; reflexivity|]. apply (U e); [exact He|reflexivity..]. }
  destruct (k_kind rp =? K_SetVersion).
  { destruct (find_enc_tract _ _) as [e|] eqn:Fe; [|exact HI]. apply find_enc_tract_in in Fe. destruct Fe as [He _]. cbv zeta.
    destruct (0 <? _); [apply (U e); [exact He|reflexivity..]|].
    destruct (negb _); [apply (TInv_enc_finish st r e); [exact HI|exact H|exact He|reflexivity..]|].
    match goal with |- TInv (issue ?S _ _) => apply (TInv_same S); [reflexivity|] end. apply (U e); [exact He|reflexivity..]. }
  destruct (k_kind rp =? K_Commit).
  { destruct (find_enc_chunk _ _) as [e|] eqn:Fe; [|exact HI]. apply find_enc_chunk_in in Fe. destruct Fe as [He _].
    apply (TInv_enc_finish st r e); [exact HI|exact H|exact He|reflexivity..]. }
  exact HI.
Qed.

Lemma TInv_deliver fx st pe res en hint : TInv st -> RInv fx st -> In pe (s_pool st) -> TInv (deliver fx st pe res en hint).
Proof.
  intros HI HR Hpe. unfold deliver.
  set (st1 := set_pool st (pool_remove (s_pool st) (p_id pe)) (s_next st)).
  assert (B: TInv st1) by (eapply TInv_same; [|exact HI]; reflexivity).
  destruct (p_owner pe =? 0); [exact B|].
  destruct (p_owner pe <? 0); [eapply TInv_same; [|exact B]; apply (fr_fix_reply _ s_rounds); fr|].
  destruct (find_wop _ _); [eapply TInv_same; [|exact B]; apply (fr_cli_reply _ s_rounds); fr|].
  apply TInv_round_reply; [exact B|]. intros r p Fr K Fp. change (s_rounds st1) with (s_rounds st) in Fr.
  pose proof (find_round_in _ _ _ Fr) as Hr. pose proof (find_round_op _ _ _ Fr) as Ho.
  destruct (ri_exp _ _ _ (rv_rounds _ _ HR r Hr) pe Hpe (eq_sym Ho)) as [[_ [_ [p' [Fp' [_ [h [rest [Nx Eh]]]]]]]]|[[K2 _]|[_ [e [_ [K3 _]]]]]].
  - rewrite Fp in Fp'. injection Fp' as <-. exists rest. rewrite Nx, Eh. reflexivity.
  - rewrite K in K2. vm_compute in K2. discriminate.
  - exfalso. rewrite K in K3. destruct (stage_kind_not_stat (e_stage e)) as [N _]. exact (N (eq_sym K3)).
Qed.

Lemma TInv_step_exec fx st mode l : TInv st -> RInv fx st -> TInv (fst (step_exec fx st mode l)).
Proof.
  intros HI HR. unfold step_exec. destruct (Cluster.Model.parse_rpc l) as [[rp r1]|]; [|exact HI].
  destruct (match r1 with [] => _ | n :: t => _ end) as [extra r2].
  destruct (find_pent (s_pool st) rp) as [e|] eqn:Fe; [|exact HI].
  apply find_pent_in in Fe. destruct Fe as [He _].
  destruct (mode =? 4); [cbn [fst]; apply TInv_deliver; assumption|].
  destruct (k_kind rp =? K_FixVersion).
  { cbn [fst]. eapply TInv_same; [|exact HI]. rewrite (fr_start_fix _ s_rounds) by fr. reflexivity. }
  pose proof (RInv_exec fx st e extra HR) as H1. pose proof (pR_exec_rpc fx st e extra) as P1. unfold st_of in *.
  destruct (exec_rpc fx st e extra) as [[[st1 res] en] dump] eqn:X1. cbn [fst snd] in *.
  assert (Q1: s_pool st1 = s_pool st /\ s_rounds st1 = s_rounds st) by (unfold pR in P1; injection P1 as A1 _ A3 _ _ _; auto).
  destruct Q1 as [Q1 Q1r].
  assert (T1: TInv st1) by (eapply TInv_same; [exact Q1r|exact HI]).
  destruct (mode =? 3).
  - pose proof (RInv_exec fx st1 e extra H1) as H2. pose proof (pR_exec_rpc fx st1 e extra) as P2. unfold st_of in *.
    destruct (exec_rpc fx st1 e extra) as [[[s' res2] en2] d'] eqn:X2. cbn [fst snd] in *.
    assert (Q2: s_pool s' = s_pool st1 /\ s_rounds s' = s_rounds st1) by (unfold pR in P2; injection P2 as A1 _ A3 _ _ _; auto).
    destruct Q2 as [Q2 Q2r].
    apply TInv_deliver; [eapply TInv_same; [exact Q2r|exact T1]|exact H2|rewrite Q2, Q1; exact He].
  - apply TInv_deliver; [exact T1|exact H1|rewrite Q1; exact He].
Qed.

Lemma TInv_step_restart fx st ts : TInv st -> RInv fx st -> TInv (fst (step_restart fx st ts)).
Proof.
  intros HI HR. apply (restart_ind fx st ts TInv HR).
  - eapply TInv_same; [|exact HI]. reflexivity.
  - intros s e Hs He Ps. apply TInv_deliver; assumption.
Qed.

Lemma TR_new gen term op tracts : (forall p, In p tracts -> ptr_init p /\ pt_len p = -1) ->
  TR {| rd_op := op; rd_gen := gen; rd_term := term; rd_phase := 1; rd_tracts := tracts; rd_encs := []; rd_done := 0 |}.
Proof.
  intros H. constructor; cbn [rd_tracts rd_encs].
  - intros p Hp. destruct (H p Hp) as [[I1 _] _]. rewrite I1. apply incl_refl.
  - intros p Hp L. destruct (H p Hp) as [_ E]. lia.
  - intros e tk o l [].
Qed.

Lemma add_tracts_len st gen blob p : In p (add_tracts st gen blob) -> pt_len p = -1.
Proof.
  unfold add_tracts. intros H. apply in_flat_map in H. destruct H as [tk [_ H]].
  destruct (dget st tk) as [d|]; [|destruct H]. destruct (d_rs d); [destruct H|]. destruct H as [<-|[]]. reflexivity.
Qed.

Lemma TInv_round_start st op : TInv st -> TInv (fst (round_start st op)).
Proof.
  intros HI. unfold round_start.
  match goal with |- context [fold_left ?f (blob_ids st) _] => set (F := f) end.
  assert (J: forall l acc, (s_rounds (fst (fst acc)) = s_rounds st /\ forall p, In p (snd (fst acc)) -> ptr_init p /\ pt_len p = -1) ->
             s_rounds (fst (fst (fold_left F l acc))) = s_rounds st /\ forall p, In p (snd (fst (fold_left F l acc))) -> ptr_init p /\ pt_len p = -1).
  { induction l as [|a l IH]; intros acc Hacc; cbn [fold_left]; [exact Hacc|]. apply IH.
    destruct acc as [[s a0] o]. cbn [fst snd] in Hacc. destruct Hacc as [H1 H2]. unfold F. cbn [fst snd].
    destruct (zget (s_blobs s) a); [|split; assumption].
    destruct (b_cls b =? b_tgt b); [split; assumption|].
    destruct (all_rs s a).
    - pose proof (fr_update_class _ s_rounds ltac:(fr) ltac:(fr) s op (s_term st) a (b_tgt b)) as M.
      destruct (update_class s op (s_term st) a (b_tgt b)) as [s' c']. cbn [fst snd] in *. split; [rewrite M; exact H1|exact H2].
    - destruct (b_cls b =? c14_ClassREPLICATED); cbn [fst snd]; [|split; assumption]. split; [exact H1|].
      intros p Hp. apply in_app_or in Hp. destruct Hp as [Hp|Hp]; [exact (H2 p Hp)|].
      split; [eapply add_tracts_init; exact Hp|eapply add_tracts_len; exact Hp]. }
  specialize (J (blob_ids st) (st, [], [])). cbn [fst snd] in J. destruct J as [J1 J2]; [split; [reflexivity|intros p []]|].
  destruct (fold_left F (blob_ids st) (st, [], [])) as [[st1 tracts] obs]. cbn [fst snd] in *.
  set (r := {| rd_op := op; rd_gen := s_gen st; rd_term := s_term st; rd_phase := 1; rd_tracts := tracts; rd_encs := []; rd_done := 0 |}).
  assert (Rr: TR r) by (apply TR_new; exact J2).
  assert (B2: TInv (set_rounds st1 (s_rounds st1 ++ [r]))).
  { intros x Hx. cbn in Hx. apply in_app_or in Hx. destruct Hx as [Hx|[<-|[]]]; [rewrite J1 in Hx; exact (HI x Hx)|exact Rr]. }
  match goal with |- TInv (if _ then round_after_stats ?s3 _ else _) => assert (B3: TInv s3) end.
  { apply TInv_fold_same; [|exact B2]. intros s p. destruct (pt_from p); reflexivity. }
  destruct (all_stats_done r); [|exact B3]. apply TInv_round_after_stats; assumption.
Qed.

Lemma TInv_step fx st ev : ev_run ev = true -> TInv st -> RInv fx st -> TInv (fst (step_fx fx st ev)).
Proof.
  intros Hev HI0 HR0. unfold step_fx.
  assert (HI: TInv (begin_event st)) by (eapply TInv_same; [|exact HI0]; reflexivity).
  assert (HR: RInv fx (begin_event st)) by (eapply RInv_same; [| |exact HR0]; reflexivity).
  set (s := begin_event st) in *.
  destruct ev as [|c a]; [exact HI|]. cbn [ev_run existsb] in Hev.
  destruct (c =? 1) eqn:C1; [apply Z.eqb_eq in C1; subst c; discriminate|].
  destruct (c =? 2) eqn:C2; [apply Z.eqb_eq in C2; subst c; discriminate|].
  destruct (c =? 20) eqn:C20; [apply Z.eqb_eq in C20; subst c; discriminate|].
  destruct (c =? 21) eqn:C21; [apply Z.eqb_eq in C21; subst c; discriminate|].
  destruct (c =? 22).
  { destruct a as [|blob [|tract [|]]]; try exact HI. destruct (dget s _); exact HI. }
  destruct (c =? 3).
  { destruct a as [|op [|cli [|blob [|tract [|off [|len [|wid [|]]]]]]]]; try exact HI.
    destruct (negb (op_fresh s op) || (len <=? 0)); cbn [fst]; [exact HI|]. eapply TInv_same; [|exact HI]. reflexivity. }
  destruct (c =? 6).
  { destruct a as [|blob [|tract [|ver [|badts [|]]]]]; try exact HI. cbn [fst]. eapply TInv_same; [|exact HI]. apply (fr_start_fix _ s_rounds); fr. }
  destruct (c =? 7).
  { destruct a; [exact HI|apply TInv_step_exec; assumption]. }
  destruct (c =? 9).
  { destruct a as [|ts [|]]; try exact HI. apply TInv_step_restart; assumption. }
  destruct (c =? 10). { first [exact HI | cbn [fst]; eapply TInv_same; [|exact HI]; reflexivity]. }
  destruct (c =? 11).
  { destruct a as [|ts [|]]; first [exact HI | cbn [fst]; eapply TInv_same; [|exact HI]; reflexivity]. }
  destruct (c =? 80).
  { destruct a as [|op [|]]; try exact HI.
    destruct (negb (op_fresh s op)); [exact HI|].
    pose proof (TInv_round_start s op HI) as M. destruct (round_start s op) as [st1 obs]. exact M. }
  destruct (c =? 30).
  { destruct a as [|blob [|tract [|off [|len [|nt tries]]]]]; exact HI. }
  destruct (c =? 81) eqn:C81; [apply Z.eqb_eq in C81; subst c; discriminate|].
  destruct (c =? 82); [exact HI|].
  destruct (c =? 84); [exact HI|].
  destruct (c =? 83); [exact HI|].
  destruct (c =? 31).
  { destruct a as [|blob [|]]; try exact HI. destruct (Cluster.Model.zget _ _); exact HI. }
  exact HI.
Qed.

Theorem TInv_reachable fx setup evs : forallb ev_setup setup = true -> forallb ev_run evs = true ->
  TInv (run_state_fx fx init_state (setup ++ evs)).
Proof.
  intros Hs He. rewrite run_state_app.
  assert (R0: RInv fx (run_state_fx fx init_state setup)) by (apply RInv_quiet; apply pR_setup_run; exact Hs).
  assert (T0: TInv (run_state_fx fx init_state setup)).
  { intros r Hr. pose proof (pR_setup_run fx setup Hs init_state) as P. unfold pR in P. injection P as _ _ P3 _ _ _. rewrite P3 in Hr. destruct Hr. }
  revert R0 T0. generalize (run_state_fx fx init_state setup). induction evs as [|ev evs IH]; intros st R0 T0; cbn; [exact T0|].
  cbn in He. apply andb_true_iff in He. destruct He as [H1 H2]. apply IH; [exact H2|apply RInv_step; assumption|apply TInv_step; assumption].
Qed.
