(* C14/Props.v — property-level theorems about C14/Model.v.  See notes/C14.md for the ladder. *)
From Coq Require Import List ZArith Bool Lia.
From BLB Require Import Gen.Consts.
From BLB Require Cluster.Model.
From BLB Require Import C14.Model C14.Witness C14.Proofs C14.Run C14.Late C14.InvFrame C14.InvStore C14.InvVer C14.InvPool C14.InvRound C14.InvTract C14.InvFence C14.InvContent C14.InvPiece C14.TriFull C14.ContentList C14.ContentInv C14.ContentFull C14.ContentWitness.
Import ListNotations.
Open Scope Z_scope.

(* [REFUTED] racing_write_trichotomy on the code as it is, schedule F6: after encBump a FixVersion commits v+1 on the same hosts, the writer re-reads v+1, writes, is acknowledged, CommitRSChunk still succeeds; the acknowledged write started before the commit and is not in the packed copy *)
Theorem racing_write_trichotomy_refuted_by_fixversion_before_commit :
  exists evs, clean_run no_fix evs = true /\ tri_ok (run_state_fx no_fix init_state evs) = false.
Proof. exists w_f6. vm_compute. split; reflexivity. Qed.
Print Assumptions racing_write_trichotomy_refuted_by_fixversion_before_commit.

(* [REFUTED] racing_write_trichotomy on the code as it is, schedule F13: doStat skips an unreachable replica, PackTracts copies exactly that replica, the write reaches it after the pack read; every conditional bump succeeds *)
Theorem racing_write_trichotomy_refuted_by_unstatted_pack_source :
  exists evs, clean_run no_fix evs = true /\ tri_ok (run_state_fx no_fix init_state evs) = false.
Proof. exists w_f13. vm_compute. split; reflexivity. Qed.
Print Assumptions racing_write_trichotomy_refuted_by_unstatted_pack_source.

(* [REFUTED] move_preserves_content on the code as it is: both schedules end with an applied commit whose packed copy lacks an acknowledged write that no later attempt covers *)
Theorem move_preserves_content_refuted :
  (exists evs, content_ok (run_state_fx no_fix init_state evs) = false) /\
  content_ok (run_state_fx no_fix init_state w_f13) = false.
Proof. split; [exists w_f6|]; vm_compute; reflexivity. Qed.
Print Assumptions move_preserves_content_refuted.

(* [REFUTED] after_move_writes_refused in the window between CommitRSChunk and UpdateStorageClass, schedule F14: GetTracts hands out the tract without hosts, the client sends nothing and acknowledges *)
Theorem after_move_writes_refused_refuted_in_commit_to_switch_window :
  exists evs, clean_run no_fix evs = true /\ after_ok (run_state_fx no_fix init_state evs) = false.
Proof. exists w_f14. vm_compute. split; reflexivity. Qed.
Print Assumptions after_move_writes_refused_refuted_in_commit_to_switch_window.

(* [PARTIAL] the three witness schedules replayed on the repaired model (= run_case, /repo HEAD): the trichotomy, the content clause and the refusal clause hold at their end (the fixed tree itself was driven through them by the harness); the invariant proof over all schedules is not done *)
Theorem repaired_model_survives_the_witness_schedules_partial :
  forallb (fun evs => let st := run_state_fx all_fix init_state evs in tri_ok st && content_ok st && after_ok st) [w_f6; w_f13; w_f14] = true.
Proof. vm_compute. reflexivity. Qed.
Print Assumptions repaired_model_survives_the_witness_schedules_partial.

(* [FULL] conditional bump, any state: a SetVersion carrying the stamp a stat returned fails with ErrStampChanged once a write ATTEMPT (accepted or not) has reached the replica since *)
Theorem conditional_bump_notices_write_attempt :
  forall st ts tk ver wid off len v nv e sz stamp st1 c,
    ts_stat st ts tk v = (e, sz, stamp) -> e <> cl_ErrNoSuchTract ->
    ts_write st ts tk ver wid off len = (st1, c) ->
    snd (ts_setversion st1 ts ts tk nv (Some stamp)) = c14_ErrStampChanged \/ nv <= 1.
Proof. exact bump_after_write. Qed.
Print Assumptions conditional_bump_notices_write_attempt.

(* [FULL] conditional bump, any state: a restart of the tractserver (restart_store = what step_restart does to the Store) between stat and bump makes the bump fail *)
Theorem conditional_bump_notices_restart :
  forall st ts tk v nv e sz stamp,
    ts_stat st ts tk v = (e, sz, stamp) -> e <> cl_ErrNoSuchTract ->
    snd (ts_setversion (restart_store st ts) ts ts tk nv (Some stamp)) = c14_ErrStampChanged \/ nv <= 1.
Proof. exact bump_after_restart. Qed.
Print Assumptions conditional_bump_notices_restart.

(* [FULL] commit with the version check (fx6), any state: an applied CommitRSChunk found every tract at NewVersion - 1 and without RS pointer; afterwards the tract is at NewVersion with an RS pointer, so GetTracts hides its hosts *)
Theorem checked_commit_requires_unchanged_version :
  forall fx st op term base hosts tracts st1,
    fx6 fx = true -> commit_rs fx st op term base hosts tracts = (st1, cl_NoError) ->
    term = s_term st /\
    forall tk off len nv idx, In (tk, off, len, nv, idx) tracts ->
      exists d, dget st tk = Some d /\ d_ver d + 1 = nv /\ d_rs d = None.
Proof. exact commit_checked. Qed.
Print Assumptions checked_commit_requires_unchanged_version.

(* [FULL] after_move_writes_refused, post-switch state, any state: once the blob's class is not REPLICATED the StatBlob reply makes writeAt return ErrReadOnlyStorageClass without sending anything, Open for writing is refused, and fixVersion on a tract with an RS pointer refuses *)
Theorem after_switch_writes_refused :
  forall fx st w r cls nt,
    find_wop (s_wops st) (wo_op w) = Some w -> wo_phase w = 1 -> Cluster.Model.k_kind r = K_StatBlob -> cls <> c14_ClassREPLICATED ->
    cli_reply fx st (wo_op w) r [cl_NoError; nt; cls] None = finish_w st w 0 c14_ErrReadOnlyStorageClass.
Proof. exact stat_refuses. Qed.
Print Assumptions after_switch_writes_refused.

(* [FULL] with the client repair (fx14), any state: a location entry without hosts or with an RS pointer ends the write with ErrReadOnlyStorageClass; nothing is sent, nothing acknowledged *)
Theorem repaired_client_refuses_entry_without_hosts :
  forall fx st w e cached,
    fx14 fx = true -> (ce_rs e = true \/ ce_hosts e = []) ->
    w_after_entry fx st w e cached = finish_w st w 0 c14_ErrReadOnlyStorageClass.
Proof. exact fixed_client_refuses. Qed.
Print Assumptions repaired_client_refuses_entry_without_hosts.

(* [FULL] durable steps refuse other terms, any state: CommitRSChunk and UpdateStorageClass of a round change nothing unless the term is the one the round captured at its start *)
Theorem durable_steps_refuse_other_terms :
  forall fx st op term base hosts tracts blob cls,
    term <> s_term st ->
    commit_rs fx st op term base hosts tracts = (st, cl_ErrLeaderContinuityBroken) /\
    update_class st op term blob cls = (st, cl_ErrLeaderContinuityBroken).
Proof. exact term_bound. Qed.
Print Assumptions durable_steps_refuse_other_terms.

(* [FULL] move_is_term_bound, run level, every schedule and every setting of the switches: each durable step of a round that was ever applied (AllocateRSChunkIDs, CommitRSChunk, UpdateStorageClass; logged in s_durlog with the round's term and the term at the moment of the apply) was applied in the term the round captured at its start *)
Theorem move_is_term_bound :
  forall fx evs op rterm tapply,
    In (op, rterm, tapply) (s_durlog (run_state_fx fx init_state evs)) -> rterm = tapply.
Proof. intros fx evs. exact (durlog_term_bound fx evs). Qed.
Print Assumptions move_is_term_bound.

(* [FULL] rs_pointer_is_permanent, run level, every schedule: once CommitRSChunk gave a tract an RS pointer no later event (FixVersion, further rounds, class switch, restarts, leader changes) takes it away, so every later GetTracts hides the hosts *)
Theorem rs_pointer_is_permanent :
  forall fx evs1 evs2 tk d,
    dget (run_state_fx fx init_state evs1) tk = Some d -> d_rs d <> None ->
    exists d', dget (run_state_fx fx init_state (evs1 ++ evs2)) tk = Some d' /\ d_rs d' <> None.
Proof. exact rs_pointer_permanent. Qed.
Print Assumptions rs_pointer_is_permanent.

(* [PARTIAL] after_move_writes_refused, run level, every schedule, repaired client (fx14), clients without location cache: a write that starts when its tract already has an RS pointer (s_late collects such acknowledgements) is never acknowledged. Missing for the full clause: writers holding cached locations from before the commit, which are fenced by replica versions, see not_yet_proved *)
Theorem after_move_writes_refused_partial :
  forall fx evs, fx14 fx = true -> s_late (run_state_fx fx init_state evs) = [].
Proof. exact no_late_ack. Qed.
Print Assumptions after_move_writes_refused_partial.

(* [FULL] invariant I1, from any state, over every run-phase schedule (no setup events 1 2 20 21, no scripted reply 81) and every setting of the switches: if the stamp a Stat returned is still the stamp of the replica, the list of write attempts the replica applied is the one it had at the Stat and its version has not decreased; so a conditional bump that succeeds certifies that no write reached the replica since its Stat *)
Theorem stamp_unchanged_means_writes_unchanged :
  forall fx st evs ts tk v e sz stamp,
    forallb ev_run evs = true ->
    ts_stat st ts tk v = (e, sz, stamp) -> e <> cl_ErrNoSuchTract ->
    stamp_of (run_state_fx fx st evs) ts tk = stamp ->
    exists r r', Cluster.Model.rget (s_reps st) (ts, tk) = Some r /\
                 Cluster.Model.rget (s_reps (run_state_fx fx st evs)) (ts, tk) = Some r' /\
                 Cluster.Model.r_app r' = Cluster.Model.r_app r /\ Cluster.Model.r_ver r <= Cluster.Model.r_ver r'.
Proof. exact I1_stamp_unchanged_writes_unchanged. Qed.
Print Assumptions stamp_unchanged_means_writes_unchanged.

(* non-vacuity of I1: schedule f6 after its setup and round start, twelve Stat decisions later the stamp of replica (1, tract 0) is unchanged *)
Example stamp_unchanged_example :
  let st := run_state_fx all_fix init_state (firstn 22 w_f6) in
  let evs := firstn 12 (skipn 22 w_f6) in
  forallb ev_run evs = true /\ ts_stat st 1 (0, 0) 1 = (cl_NoError, 100, (0, 0)) /\
  stamp_of (run_state_fx all_fix st evs) 1 (0, 0) = (0, 0).
Proof. vm_compute. repeat split; reflexivity. Qed.

(* [FULL] invariant I3 part a, every schedule of every kind of event, commit with version check (fx6): in every reachable state each location entry held by a client (cached or in use by a write) and each pending Write call names a version not above the durable version of its tract, and as long as the tract has no RS pointer the hosts of the entry, the hosts a fixVersion task will commit and the sources of a tractPacker are the durable hosts (record DInv in InvVer.v) *)
Theorem held_versions_are_bounded_by_durable_version :
  forall fx evs, fx6 fx = true -> DInv (run_state_fx fx init_state evs).
Proof. exact DInv_reachable. Qed.
Print Assumptions held_versions_are_bounded_by_durable_version.

(* [FULL] invariant I3 part b, replica-version fencing, from any state over every run-phase schedule: once a bump to nv, conditional or not, has succeeded on a replica, every later write naming a version below nv is refused by that replica with ErrVersionMismatch and changes nothing on it *)
Theorem bumped_replica_refuses_old_version :
  forall fx st ts tsid tk nv cond st1 evs ver wid off len,
    ts_setversion st ts tsid tk nv cond = (st1, cl_NoError) -> forallb ev_run evs = true -> ver < nv ->
    let st2 := run_state_fx fx st1 evs in
    snd (ts_write st2 ts tk ver wid off len) = cl_ErrVersionMismatch /\
    s_reps (fst (ts_write st2 ts tk ver wid off len)) = s_reps st2.
Proof. exact I3_bumped_replica_refuses_old_version. Qed.
Print Assumptions bumped_replica_refuses_old_version.

(* non-vacuity of I3: in schedule f6 after 57 decisions a client write holds a location entry and two Write calls are pending; a bump of replica (1, tract 0) to version 2 succeeds in the state after setup *)
Example held_versions_example :
  let st := run_state_fx all_fix init_state (firstn 57 w_f6) in
  existsb (fun w => match wo_entry w with Some _ => true | None => false end) (s_wops st) = true /\
  length (filter (fun pe => Cluster.Model.k_kind (p_rpc pe) =? K_Write) (s_pool st)) = 2%nat /\
  snd (ts_setversion (run_state_fx all_fix init_state (firstn 22 w_f6)) 1 1 (0, 0) 2 None) = cl_NoError.
Proof. vm_compute. repeat split; reflexivity. Qed.

(* [FULL] after_move_writes_refused, run level, the code as it is and any switches with the commit version check fx6 and the client repair fx14: for every schedule made of setup events 1 2 20 21 22 followed by run-phase events 3 6 7 9 10 11 80 30 31 82 22 in any order and number, that is client writes with or without location cache, rounds, third-party FixVersion, every RPC decision deliver lose fail duplicate, restarts, leader changes, heartbeats, reads, in the reached state every acknowledged write of a tract had started when CommitRSChunk of that tract was applied, so no write that starts after the move is ever acknowledged. This closes the cached-writer case, the fencing replica is a stat'ed source bumped above every version a client holds *)
Theorem after_move_writes_refused :
  forall fx setup evs, fx6 fx = true -> fx14 fx = true ->
    forallb ev_setup setup = true -> forallb ev_run evs = true ->
    after_ok (run_state_fx fx init_state (setup ++ evs)) = true.
Proof. exact after_ok_reachable. Qed.
Print Assumptions after_move_writes_refused.

(* [FULL] after_move_writes_refused seen from the writer, same schedules: a client write that started when its tract already had an RS pointer is, in every reachable state, still waiting for StatBlob or GetTracts, or holds a Write result that is not OK from a replica whose version exceeds the version of its location entry and of every pending Write, or waits for ReportBadTS or FixVersion with a final error *)
Theorem late_writer_never_acknowledged :
  forall fx setup evs w, fx6 fx = true -> fx14 fx = true ->
    forallb ev_setup setup = true -> forallb ev_run evs = true ->
    let st := run_state_fx fx init_state (setup ++ evs) in
    In w (s_wops st) -> wo_late w = true ->
    has_rs st (w_tk w) /\ (wo_phase w = 4 -> wo_final w <> cl_NoError) /\
    (wo_phase w = 3 -> exists h x, fenced st (w_tk w) h /\ In (h, x) (wo_res w) /\ x <> cl_NoError).
Proof. exact late_writer_is_doomed. Qed.
Print Assumptions late_writer_never_acknowledged.

(* [FULL] run-level invariants behind the clause, same schedules: location entries bounded by the durable version DInv, outstanding calls of a round are exactly the expected ones and a pending CommitRSChunk means every conditional bump succeeded RInv, packed tracts are eligible and have a stat'ed source TInv, fence and acknowledgement bookkeeping FInv *)
Theorem move_invariants_hold :
  forall fx setup evs, fx6 fx = true -> fx14 fx = true ->
    forallb ev_setup setup = true -> forallb ev_run evs = true ->
    Inv4 fx (run_state_fx fx init_state (setup ++ evs)).
Proof. exact Inv4_reachable. Qed.
Print Assumptions move_invariants_hold.

(* non-vacuity: schedule f14 is 25 setup events followed by run-phase events, ends with 6 applied commits and 10 acknowledged writes, and after 70 events a write that started after the commit is in progress *)
Example after_move_example :
  forallb ev_setup (firstn 25 w_f14) = true /\ forallb ev_run (skipn 25 w_f14) = true /\
  length (s_commits (run_state_fx all_fix init_state w_f14)) = 6%nat /\
  length (s_acked (run_state_fx all_fix init_state w_f14)) = 10%nat /\
  existsb wo_late (s_wops (run_state_fx all_fix init_state (firstn 70 w_f14))) = true.
Proof. vm_compute. repeat split; reflexivity. Qed.

(* [PARTIAL] racing_write_trichotomy for the repaired model, run level, every schedule of setup events (setup writes of positive length) followed by run-phase events, GIVEN the provenance of the packed pieces along the run (src_run: whenever a CommitRSChunk is outstanding, the item it will read from the piece is the write list of a stat'ed source of that tract, = invariant I2, discharged by the next theorem for runs with one round per curator incarnation at a time): every acknowledged write of a tract is contained in the packed copy its commit recorded, whether it was acknowledged before or after the commit. Proved without further assumptions inside: every acknowledged write is in the write list of every durable host, a Write answered OK was applied, the source replica keeps the packed content for good because it is fenced *)
Theorem racing_write_trichotomy_given_piece_provenance_partial :
  forall fx setup evs, fx6 fx = true -> fx14 fx = true ->
    forallb ev_setup2 setup = true -> forallb ev_run evs = true ->
    src_run fx (run_state_fx fx init_state setup) evs ->
    tri_ok (run_state_fx fx init_state (setup ++ evs)) = true.
Proof. exact tri_given_sources. Qed.
Print Assumptions racing_write_trichotomy_given_piece_provenance_partial.

(* [FULL] racing_write_trichotomy (trichotomy_if_commit_checks_version_and_sources_are_statted) for the repaired model, run level: for every schedule of setup events (setup writes of positive length) followed by run-phase events in which a round is started (event 80) only when no round of the current curator incarnation is still present (gens_run, carved out because the model lets PackTracts and RSEncode find their round through the incarnation), every acknowledged write of a tract that started before the commit of that tract is contained in the packed copy the commit recorded. No assumption on message order, losses, duplicates, restarts, leader changes or the number of clients *)
Theorem racing_write_trichotomy :
  forall fx setup evs, fx6 fx = true -> fx13 fx = true -> fx14 fx = true ->
    forallb ev_setup2 setup = true -> forallb ev_run evs = true ->
    gens_run fx (run_state_fx fx init_state setup) evs = true ->
    tri_ok (run_state_fx fx init_state (setup ++ evs)) = true.
Proof. exact trichotomy_if_commit_checks_version_and_sources_are_statted. Qed.
Print Assumptions racing_write_trichotomy.

(* [FULL] invariant I2 for the repaired model over the same schedules: whenever a CommitRSChunk is outstanding, before and after any single execution, the item it will read from each data piece is the write list of a stat'ed source replica of that tract *)
Theorem packed_pieces_come_from_statted_sources :
  forall fx setup evs, fx6 fx = true -> fx13 fx = true -> fx14 fx = true ->
    forallb ev_setup2 setup = true -> forallb ev_run evs = true ->
    gens_run fx (run_state_fx fx init_state setup) evs = true ->
    src_run fx (run_state_fx fx init_state setup) evs.
Proof. exact src_run_reachable. Qed.
Print Assumptions packed_pieces_come_from_statted_sources.

(* non-vacuity: schedule f14 meets all three schedule hypotheses, ends with 6 applied commits and 10 acknowledged writes, and each of the 6 commits has an acknowledged write of its tract that had started before it *)
Example racing_write_example :
  forallb ev_setup2 (firstn 25 w_f14) = true /\ forallb ev_run (skipn 25 w_f14) = true /\
  gens_run all_fix (run_state_fx all_fix init_state (firstn 25 w_f14)) (skipn 25 w_f14) = true /\
  length (filter (fun '(tk, term, packed, nv, sv, started) =>
            existsb (fun '(tk', w) => Cluster.Model.tk_eqb tk tk' && wid_in started (Cluster.Model.w_id w))
                    (s_acked (run_state_fx all_fix init_state w_f14)))
          (s_commits (run_state_fx all_fix init_state w_f14))) = 6%nat.
Proof. vm_compute. repeat split; reflexivity. Qed.

(* [FULL] move_preserves_content for the repaired model, run level: for every schedule of setup events followed by run-phase events with one round per curator incarnation at a time (gens_run), at most one client write per tract in flight (single_run: a write on a tract starts only when no client operation on that tract is unfinished and no Write call to it is outstanding) and write ids distinct per tract (wids_run), every applied commit recorded a packed copy that shows, byte by byte, the newest write attempt started before the commit if that attempt was acknowledged, and zero where no attempt ever wrote. No assumption on message order, losses, duplicates, restarts or leader changes *)
Theorem move_preserves_content :
  forall fx setup evs, fx6 fx = true -> fx13 fx = true -> fx14 fx = true ->
    forallb ev_setup2 setup = true -> forallb ev_run evs = true ->
    gens_run fx (run_state_fx fx init_state setup) evs = true ->
    single_run fx (run_state_fx fx init_state setup) evs = true ->
    wids_run fx init_state (setup ++ evs) = true ->
    content_ok (run_state_fx fx init_state (setup ++ evs)) = true.
Proof. exact content_ok_reachable. Qed.
Print Assumptions move_preserves_content.

(* [FULL] the ordering invariant behind it, same schedules: in every reachable state the applied write list of every replica embeds in order (repetitions allowed) into the list of write attempts of its tract, and the packed copy of every applied commit embeds in order into the attempts started before that commit, whose ids are distinct *)
Theorem applied_order_agrees_with_start_order :
  forall fx setup evs, fx6 fx = true -> fx13 fx = true -> fx14 fx = true ->
    forallb ev_setup2 setup = true -> forallb ev_run evs = true ->
    gens_run fx (run_state_fx fx init_state setup) evs = true ->
    single_run fx (run_state_fx fx init_state setup) evs = true ->
    wids_run fx init_state (setup ++ evs) = true ->
    forall st, st = run_state_fx fx init_state (setup ++ evs) ->
    (forall h tk rep, Cluster.Model.rget (s_reps st) (h, tk) = Some rep -> sub_rep (Cluster.Model.r_app rep) (att_of st tk)) /\
    (forall tk term packed nv sv started, In (tk, term, packed, nv, sv, started) (s_commits st) ->
       sub_rep packed started /\ NoDup (map Cluster.Model.w_id started)).
Proof. exact applied_order_reachable. Qed.
Print Assumptions applied_order_agrees_with_start_order.

(* [REFUTED] move_preserves_content on the repaired model without the single-writer discipline: two clients write the same range of one tract at the same time, the later one reaches the replicas first, both are acknowledged, the move commits; every other hypothesis of the theorem holds, the packed copy shows the older write *)
Theorem move_preserves_content_refuted_for_concurrent_writers :
  exists setup evs, forallb ev_setup2 setup = true /\ forallb ev_run evs = true /\
    gens_run all_fix (run_state_fx all_fix init_state setup) evs = true /\
    wids_run all_fix init_state (setup ++ evs) = true /\
    single_run all_fix (run_state_fx all_fix init_state setup) evs = false /\
    content_ok (run_state_fx all_fix init_state (setup ++ evs)) = false.
Proof. exists (firstn 26 w_two_writers), (skipn 26 w_two_writers). vm_compute. repeat split; reflexivity. Qed.
Print Assumptions move_preserves_content_refuted_for_concurrent_writers.

(* [REFUTED] move_preserves_content on the repaired model without distinct write ids: a client write reuses the id of an acknowledged write of the same tract and fails; it is the newest attempt on its bytes and counts as acknowledged by its id, the packed copy rightly does not contain it; every other hypothesis of the theorem holds *)
Theorem move_preserves_content_refuted_for_reused_write_id :
  exists setup evs, forallb ev_setup2 setup = true /\ forallb ev_run evs = true /\
    gens_run all_fix (run_state_fx all_fix init_state setup) evs = true /\
    single_run all_fix (run_state_fx all_fix init_state setup) evs = true /\
    wids_run all_fix init_state (setup ++ evs) = false /\
    content_ok (run_state_fx all_fix init_state (setup ++ evs)) = false.
Proof. exists (firstn 26 w_reused_id), (skipn 26 w_reused_id). vm_compute. repeat split; reflexivity. Qed.
Print Assumptions move_preserves_content_refuted_for_reused_write_id.

(* non-vacuity: schedule f14 meets every hypothesis of move_preserves_content, ends with 6 applied commits, and 36 of the byte positions content_ok checks have an acknowledged write as newest covering attempt *)
Example move_preserves_content_example :
  hyps w_f14 26 = (true, true, true, true, true) /\ content_ok (run_state_fx all_fix init_state w_f14) = true /\
  length (s_commits (run_state_fx all_fix init_state w_f14)) = 6%nat /\ content_checks (run_state_fx all_fix init_state w_f14) = 36%nat.
Proof. exact f14_content_example. Qed.
