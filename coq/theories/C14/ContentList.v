(* C14/ContentList.v — list facts behind move_preserves_content: when the applied list of a replica embeds, in order and
   with repetitions, into the list of write attempts (both newest first) and attempt ids are distinct, then byte by byte
   the applied list shows the newest attempt covering the byte, provided that attempt was applied at all. *)
From Coq Require Import List ZArith Bool Lia.
From BLB Require Import Gen.Consts.
From BLB Require Cluster.Model.
From BLB Require Import C14.Model C14.Proofs.
Import ListNotations.
Open Scope Z_scope.

Notation wrec := Cluster.Model.wrec.
Notation w_id := Cluster.Model.w_id.
Notation covers := Cluster.Model.covers.
Notation byte_at := Cluster.Model.byte_at.

Inductive sub_rep : list wrec -> list wrec -> Prop :=
| sr_nil att : sub_rep [] att
| sr_rep a app att : sub_rep app (a :: att) -> sub_rep (a :: app) (a :: att)
| sr_skip a app att : sub_rep app att -> sub_rep app (a :: att).

Lemma sub_rep_incl app att : sub_rep app att -> forall w, In w app -> In w att.
Proof.
  induction 1 as [att|a app att H IH|a app att H IH]; intros w Hw.
  - destruct Hw.
  - destruct Hw as [<-|Hw]; [left; reflexivity|exact (IH w Hw)].
  - right. exact (IH w Hw).
Qed.

Lemma newest_cover_in att p w : newest_cover att p = Some w -> In w att /\ covers w p = true.
Proof.
  induction att as [|a l IH]; cbn [newest_cover]; [discriminate|]. destruct (covers a p) eqn:C.
  - intros H. injection H as <-. split; [left; reflexivity|exact C].
  - intros H. destruct (IH H). split; [right; assumption|assumption].
Qed.

Lemma newest_cover_none att p w : newest_cover att p = None -> In w att -> covers w p = false.
Proof.
  induction att as [|a l IH]; cbn [newest_cover]; [intros _ []|]. destruct (covers a p) eqn:C; [discriminate|].
  intros H [<-|Hw]; [exact C|exact (IH H Hw)].
Qed.

Lemma byte_at_none app p : (forall w, In w app -> covers w p = false) -> byte_at app p = 0.
Proof.
  induction app as [|a l IH]; intros H; cbn [Cluster.Model.byte_at]; [reflexivity|].
  rewrite (H a (or_introl eq_refl)). apply IH. intros w Hw. apply H. right. exact Hw.
Qed.

Lemma content_unwritten app att p : sub_rep app att -> newest_cover att p = None -> byte_at app p = 0.
Proof.
  intros S N. apply byte_at_none. intros w Hw. exact (newest_cover_none att p w N (sub_rep_incl _ _ S w Hw)).
Qed.

Lemma nodup_id_eq att w1 w2 : NoDup (map w_id att) -> In w1 att -> In w2 att -> w_id w1 = w_id w2 -> w1 = w2.
Proof.
  induction att as [|a l IH]; intros N H1 H2 E; [destruct H1|]. cbn [map] in N. inversion N as [|? ? Na Nl]; subst.
  destruct H1 as [<-|H1]; destruct H2 as [<-|H2]; try reflexivity.
  - exfalso. apply Na. rewrite E. apply in_map. exact H2.
  - exfalso. apply Na. rewrite <- E. apply in_map. exact H1.
  - exact (IH Nl H1 H2 E).
Qed.

Lemma content_newest app att p w : sub_rep app att -> NoDup (map w_id att) -> newest_cover att p = Some w -> In w app ->
  byte_at app p = w_id w.
Proof.
  induction 1 as [att|a app att H IH|a app att H IH]; intros N C Hw.
  - destruct Hw.
  - cbn [Cluster.Model.byte_at]. cbn [newest_cover] in C. destruct (covers a p) eqn:Ca.
    + injection C as <-. reflexivity.
    + apply IH; [exact N|cbn [newest_cover]; rewrite Ca; exact C|].
      destruct Hw as [<-|Hw]; [|exact Hw]. destruct (newest_cover_in _ _ _ C) as [_ Cw]. congruence.
  - cbn [newest_cover] in C. cbn [map] in N. inversion N as [|? ? Na Nl]; subst. destruct (covers a p) eqn:Ca.
    + injection C as <-. exfalso. apply Na. apply in_map. exact (sub_rep_incl _ _ H _ Hw).
    + exact (IH Nl C Hw).
Qed.

Lemma wid_in_spec app wid : wid_in app wid = true -> exists w, In w app /\ w_id w = wid.
Proof. unfold wid_in. intros H. apply existsb_exists in H. destruct H as [w [Hw E]]. apply Z.eqb_eq in E. eauto. Qed.

(* the per-commit statement of content_ok *)
Lemma content_point packed started p (acked : Z -> bool) :
  sub_rep packed started -> NoDup (map w_id started) ->
  (forall w, In w started -> acked (w_id w) = true -> wid_in packed (w_id w) = true) ->
  match newest_cover started p with
  | None => byte_at packed p =? 0
  | Some w => if acked (w_id w) then byte_at packed p =? w_id w else true
  end = true.
Proof.
  intros S N T. destruct (newest_cover started p) as [w|] eqn:C.
  - destruct (acked (w_id w)) eqn:A; [|reflexivity]. apply Z.eqb_eq. destruct (newest_cover_in _ _ _ C) as [Hw _].
    destruct (wid_in_spec _ _ (T w Hw A)) as [w' [Hw' E]].
    rewrite (nodup_id_eq started w' w N (sub_rep_incl _ _ S _ Hw') Hw E) in Hw'. exact (content_newest _ _ _ _ S N C Hw').
  - apply Z.eqb_eq. exact (content_unwritten _ _ _ S C).
Qed.
