(* C14/Late.v — run-level refusal clause for the repaired client (fx14): a write of a client without location cache
   that STARTS when its tract already has an RS pointer is never acknowledged (s_late stays empty), whatever the
   schedule.  (A writer holding cached pre-commit locations is fenced by replica versions instead: not proved here.) *)
From Coq Require Import List ZArith Bool Lia.
From BLB Require Import Gen.Consts.
From BLB Require Cluster.Model.
From BLB Require Import C14.Model C14.Run.
Import ListNotations.
Open Scope Z_scope.

Definition q3 (st : state) := (s_wops st, s_late st, s_usecache st).

Lemma fold_q3 {A} (f : state -> A -> state) l : forall st,
  (forall s x, q3 (f s x) = q3 s) -> q3 (fold_left f l st) = q3 st.
Proof. induction l; intros; cbn; auto. rewrite IHl; auto. Qed.
Lemma fold_q3_pair {A B} (f : state * B -> A -> state * B) l : forall st i,
  (forall s j x, q3 (fst (f (s, j) x)) = q3 s) -> q3 (fst (fold_left f l (st, i))) = q3 st.
Proof.
  induction l; intros; cbn; auto.
  destruct (f (st, i) a) as [s' j'] eqn:E. rewrite IHl; auto.
  specialize (H st i a). rewrite E in H. exact H.
Qed.

Ltac q3_step :=
  first
    [ progress autorewrite with q3
    | match goal with
      | |- context [match ?x with _ => _ end] => destruct x eqn:?
      | |- context [if ?b then _ else _] => destruct b eqn:?
      end ].
Ltac q3_crush := repeat q3_step; try reflexivity.

Lemma q3_set_store st a b c : q3 (set_store st a b c) = q3 st. Proof. reflexivity. Qed.
Lemma q3_set_epoch st v : q3 (set_epoch st v) = q3 st. Proof. reflexivity. Qed.
Lemma q3_set_dur st a b c d : q3 (set_dur st a b c d) = q3 st. Proof. reflexivity. Qed.
Lemma q3_set_cur st a b c : q3 (set_cur st a b c) = q3 st. Proof. reflexivity. Qed.
Lemma q3_set_rounds st v : q3 (set_rounds st v) = q3 st. Proof. reflexivity. Qed.
Lemma q3_set_fix st v n : q3 (set_fix st v n) = q3 st. Proof. reflexivity. Qed.
Lemma q3_set_pool st v n : q3 (set_pool st v n) = q3 st. Proof. reflexivity. Qed.
Lemma q3_set_fin st a b : q3 (set_fin st a b) = q3 st. Proof. reflexivity. Qed.
Lemma q3_set_ghost st a b c d : q3 (set_ghost st a b c d) = q3 st. Proof. reflexivity. Qed.
Lemma q3_set_reps st v : q3 (set_reps st v) = q3 st. Proof. reflexivity. Qed.
Lemma q3_set_stamps st v : q3 (set_stamps st v) = q3 st. Proof. reflexivity. Qed.
Lemma q3_set_pieces st v : q3 (set_pieces st v) = q3 st. Proof. reflexivity. Qed.
Lemma q3_set_blobs st v : q3 (set_blobs st v) = q3 st. Proof. reflexivity. Qed.
Lemma q3_set_dtr st v : q3 (set_dtr st v) = q3 st. Proof. reflexivity. Qed.
Lemma q3_set_cache st v : q3 (set_cache st v) = q3 st. Proof. reflexivity. Qed.
Lemma q3_set_fixes st v : q3 (set_fixes st v) = q3 st. Proof. reflexivity. Qed.
Lemma q3_add_fin st a b c : q3 (add_fin st a b c) = q3 st. Proof. reflexivity. Qed.
Lemma q3_issue st r o : q3 (issue st r o) = q3 st. Proof. reflexivity. Qed.
Lemma q3_begin_event st : q3 (begin_event st) = q3 st. Proof. reflexivity. Qed.
#[export] Hint Rewrite q3_set_store q3_set_epoch q3_set_dur q3_set_cur q3_set_rounds q3_set_fix q3_set_pool q3_set_fin q3_set_ghost
  q3_set_reps q3_set_stamps q3_set_pieces q3_set_blobs q3_set_dtr q3_set_cache q3_set_fixes q3_add_fin q3_issue q3_begin_event : q3.

Lemma q3_round_check_over st r : q3 (round_check_over st r) = q3 st.
Proof. unfold round_check_over. q3_crush. Qed.
#[export] Hint Rewrite q3_round_check_over : q3.
Lemma q3_round_after_stats st r : q3 (round_after_stats st r) = q3 st.
Proof. unfold round_after_stats. q3_crush. Qed.
#[export] Hint Rewrite q3_round_after_stats : q3.
Lemma q3_cleanup st g e : q3 (cleanup st g e) = q3 st.
Proof. unfold cleanup. rewrite fold_q3_pair; [reflexivity|]. intros. cbn. q3_crush. Qed.
#[export] Hint Rewrite q3_cleanup : q3.
Lemma q3_enc_finish st r e ok : q3 (enc_finish st r e ok) = q3 st.
Proof. unfold enc_finish. q3_crush. Qed.
#[export] Hint Rewrite q3_enc_finish : q3.
Lemma q3_alloc_reply st r e b w h : q3 (alloc_reply st r e b w h) = q3 st.
Proof.
  unfold alloc_reply. q3_crush.
  rewrite fold_q3; [q3_crush|].
  intros s x. rewrite fold_q3_pair; [reflexivity|]. intros. cbn. q3_crush.
Qed.
#[export] Hint Rewrite q3_alloc_reply : q3.
Lemma q3_ts_write st ts tk v w o l : q3 (fst (ts_write st ts tk v w o l)) = q3 st.
Proof. unfold ts_write. q3_crush. Qed.
Lemma q3_ts_setversion st ts i tk nv c : q3 (fst (ts_setversion st ts i tk nv c)) = q3 st.
Proof. unfold ts_setversion. q3_crush. Qed.
Lemma q3_ts_pack st ts i ch t sp f : q3 (fst (ts_pack st ts i ch t sp f)) = q3 st.
Proof. unfold ts_pack. q3_crush. Qed.
Lemma q3_change_tract st term tk ver hosts : q3 (fst (change_tract st term tk ver hosts)) = q3 st.
Proof. unfold change_tract. q3_crush. Qed.
Lemma q3_commit_rs fx st op term base hosts tracts : q3 (fst (commit_rs fx st op term base hosts tracts)) = q3 st.
Proof. unfold commit_rs. q3_crush. Qed.
Lemma q3_update_class st op term blob cls : q3 (fst (update_class st op term blob cls)) = q3 st.
Proof. unfold update_class. q3_crush. Qed.
#[export] Hint Rewrite q3_ts_write q3_ts_setversion q3_ts_pack q3_change_tract q3_commit_rs q3_update_class : q3.

(* ------------------------------------------------------------------ the invariant *)
Definition has_rs (st : state) (tk : tkt) : Prop := exists d, dget st tk = Some d /\ d_rs d <> None.

Definition wop_ok (st : state) (w : wop) : Prop :=
  wo_late w = true -> use_cache st (wo_cli w) = false ->
  (wo_phase w = 1 \/ wo_phase w = 2) /\ has_rs st (w_tk w).

Definition LInv (st : state) : Prop := s_late st = [] /\ forall w, In w (s_wops st) -> wop_ok st w.

Lemma use_cache_q3 st st' cli : q3 st' = q3 st -> use_cache st' cli = use_cache st cli.
Proof. unfold q3, use_cache. intros H. injection H as _ _ H. rewrite H. reflexivity. Qed.

Lemma has_rs_kept st st' tk : rs_kept (s_dtr st) (s_dtr st') -> has_rs st tk -> has_rs st' tk.
Proof. intros R [d [H K]]. destruct (R _ _ H) as [d' [H' K']]. exists d'. split; auto. Qed.

Lemma wop_ok_transfer st st' w : q3 st' = q3 st -> rs_kept (s_dtr st) (s_dtr st') -> wop_ok st w -> wop_ok st' w.
Proof.
  intros Q R H L C. rewrite (use_cache_q3 _ _ _ Q) in C. destruct (H L C) as [P K]. split; [exact P|eapply has_rs_kept; eauto].
Qed.

Lemma LInv_transfer st st' : q3 st' = q3 st -> rs_kept (s_dtr st) (s_dtr st') -> LInv st -> LInv st'.
Proof.
  intros Q R [L1 L2]. pose proof Q as Q'. unfold q3 in Q'. injection Q' as Qw Ql Qu.
  split; [congruence|]. intros w Hw. rewrite Qw in Hw. eapply wop_ok_transfer; eauto.
Qed.

Lemma LInv_same st st' : q3 st' = q3 st -> s_dtr st' = s_dtr st -> LInv st -> LInv st'.
Proof. intros Q D. apply LInv_transfer; [exact Q|rewrite D; apply rs_kept_refl]. Qed.

Lemma find_wop_in l op w : find_wop l op = Some w -> In w l /\ wo_op w = op.
Proof.
  induction l as [|x l IH]; cbn; [discriminate|]. destruct (wo_op x =? op) eqn:E.
  - intros H. injection H as <-. split; [left; reflexivity|apply Z.eqb_eq; exact E].
  - intros H. destruct (IH H). split; [right; assumption|assumption].
Qed.

Lemma in_del_wop l op w : In w (del_wop l op) -> In w l.
Proof. unfold del_wop. intros H. apply filter_In in H. tauto. Qed.

Lemma in_upd_wop l w' w : In w (upd_wop l w') -> In w l \/ w = w'.
Proof.
  unfold upd_wop. intros H. apply in_map_iff in H. destruct H as [x [E Hx]].
  destruct (wo_op x =? wo_op w'); [right; congruence|left; congruence].
Qed.

(* a state that differs from st only in fields other than wops/late/usecache/dtr, with the wops replaced *)
Lemma LInv_set_wops st l : LInv st -> (forall w, In w l -> wop_ok st w) -> LInv (set_wops st l).
Proof. intros [L1 L2] H. split; [exact L1|]. intros w Hw. specialize (H w Hw). exact H. Qed.

Lemma err_ro_ne : c14_ErrReadOnlyStorageClass <> cl_NoError. Proof. vm_compute. discriminate. Qed.

Lemma LInv_finish_w st w n err :
  LInv st -> (wo_late w = true -> use_cache st (wo_cli w) = false -> err <> cl_NoError) -> LInv (finish_w st w n err).
Proof.
  intros [L1 L2] H. unfold finish_w.
  assert (B: LInv (add_fin (set_wops st (del_wop (s_wops st) (wo_op w))) (wo_op w) n err)).
  { split; [exact L1|]. intros x Hx. cbn in Hx. apply in_del_wop in Hx. exact (L2 x Hx). }
  destruct ((err =? cl_NoError) && (n =? wo_len w)) eqn:E; [|exact B].
  apply andb_true_iff in E. destruct E as [E _]. apply Z.eqb_eq in E.
  destruct (wo_late w && negb (use_cache st (wo_cli w))) eqn:F.
  - apply andb_true_iff in F. destruct F as [F1 F2]. apply negb_true_iff in F2. exfalso. exact (H F1 F2 E).
  - eapply LInv_same; [| |exact B]; reflexivity.
Qed.

Lemma wop_ok_w_set st w phase cached retry entry res final :
  (wo_late w = true -> use_cache st (wo_cli w) = false -> (phase = 1 \/ phase = 2) /\ has_rs st (w_tk w)) ->
  wop_ok st (w_set w phase cached retry entry res final).
Proof. intros H L C. exact (H L C). Qed.

Lemma LInv_upd st w' : LInv st -> wop_ok st w' -> LInv (set_wops st (upd_wop (s_wops st) w')).
Proof.
  intros [L1 L2] H. apply LInv_set_wops; [split; assumption|].
  intros w Hw. apply in_upd_wop in Hw. destruct Hw as [Hw|Hw]; [exact (L2 w Hw)|subst; exact H].
Qed.

Lemma LInv_fold_issue {A} st (l : list A) (g : A -> rpc) o :
  LInv st -> LInv (fold_left (fun s x => issue s (g x) o) l st).
Proof.
  intros H. eapply LInv_same; [| |exact H].
  - apply fold_q3. intros. reflexivity.
  - revert st H. induction l; intros; cbn; [reflexivity|]. rewrite IHl; [reflexivity|].
    eapply LInv_same; [| |exact H]; reflexivity.
Qed.

Lemma LInv_w_after_entry fx st w e cached :
  fx14 fx = true -> LInv st -> wop_ok st w ->
  (wo_late w = true -> use_cache st (wo_cli w) = false -> ce_rs e = true \/ ce_hosts e = []) ->
  LInv (w_after_entry fx st w e cached).
Proof.
  intros Hfx HI Hw He. unfold w_after_entry. rewrite Hfx. cbn [andb].
  destruct (ce_rs e || (Z.of_nat (length (ce_hosts e)) =? 0)) eqn:E1.
  { apply LInv_finish_w; [exact HI|]. intros _ _. apply err_ro_ne. }
  assert (NL: wo_late w = true -> use_cache st (wo_cli w) = false -> False).
  { intros L C. destruct (He L C) as [K|K]; rewrite K in E1; cbn in E1; [discriminate|rewrite orb_true_r in E1; discriminate]. }
  destruct (existsb _ (ce_hosts e)).
  { apply LInv_finish_w; [exact HI|]. intros L C. destruct (NL L C). }
  destruct (ce_hosts e) as [|h hs] eqn:Eh.
  { apply LInv_finish_w; [exact HI|]. intros L C. destruct (NL L C). }
  match goal with |- LInv (fold_left ?f ?l ?s0) => assert (B: LInv s0) end.
  { apply LInv_upd; [exact HI|]. apply wop_ok_w_set. intros L C. destruct (NL L C). }
  revert B. generalize (h :: hs). intros l.
  match goal with |- LInv ?s0 -> _ => generalize s0 end.
  induction l as [|[h' k'] l IH]; intros s0 B; cbn [fold_left]; [exact B|].
  apply IH. eapply LInv_same; [| |exact B]; reflexivity.
Qed.

Lemma LInv_w_get fx st w : fx14 fx = true -> LInv st -> wop_ok st w -> LInv (w_get fx st w).
Proof.
  intros Hfx HI Hw. unfold w_get.
  destruct (use_cache st (wo_cli w)) eqn:C.
  - destruct (cache_get _ _ _).
    + apply LInv_w_after_entry; auto. intros _ C'. congruence.
    + eapply LInv_same; [| |apply (LInv_upd st (w_set w 2 false (wo_retry w) None [] 0) HI)]; try reflexivity.
      apply wop_ok_w_set. intros _ C'. congruence.
  - eapply LInv_same; [| |apply (LInv_upd st (w_set w 2 false (wo_retry w) None [] 0) HI)]; try reflexivity.
    apply wop_ok_w_set. intros L _. destruct (Hw L C) as [_ K]. split; [right; reflexivity|exact K].
Qed.

(* what a GetTracts reply may carry for a tract that has an RS pointer *)
Definition en_ok (st : state) (r : rpc) (en : option centry) : Prop :=
  forall e, en = Some e -> has_rs st (Cluster.Model.tkey (Cluster.Model.k_blob r) (nth 0 (Cluster.Model.k_aux r) 0)) -> ce_rs e = true.

Lemma LInv_issue st r o : LInv st -> LInv (issue st r o).
Proof. intros H. eapply LInv_same; [| |exact H]; reflexivity. Qed.

Lemma LInv_cache st v : LInv st -> LInv (set_cache st v).
Proof. intros H. eapply LInv_same; [| |exact H]; reflexivity. Qed.

Lemma wop_ok_cache st v w : wop_ok st w -> wop_ok (set_cache st v) w.
Proof. intros H. eapply wop_ok_transfer; [| |exact H]; [reflexivity|apply rs_kept_refl]. Qed.

Lemma LInv_cli_reply fx st op r res en :
  fx14 fx = true -> LInv st -> en_ok st r en -> LInv (cli_reply fx st op r res en).
Proof.
  intros Hfx HI Hen. unfold cli_reply.
  destruct (find_wop (s_wops st) op) as [w|] eqn:Fw; [|exact HI].
  apply find_wop_in in Fw. destruct Fw as [Hin _].
  pose proof (proj2 HI w Hin) as Hw.
  destruct (Cluster.Model.k_kind r =? K_StatBlob).
  { destruct (negb (wo_phase w =? 1)); [exact HI|].
    destruct (negb (hd cl_ErrRPC res =? cl_NoError)) eqn:Ee.
    - destruct (wo_retry w).
      + eapply LInv_same; [| |apply (LInv_upd st (w_set w 1 false false None [] 0) HI)]; try reflexivity.
        apply wop_ok_w_set. intros L C. destruct (Hw L C) as [_ K]. split; [left; reflexivity|exact K].
      + apply LInv_finish_w; [exact HI|]. intros _ _ E. rewrite E, Z.eqb_refl in Ee. discriminate.
    - destruct (negb (nth 2 res 0 =? c14_ClassREPLICATED)).
      + apply LInv_finish_w; [exact HI|]. intros _ _. apply err_ro_ne.
      + destruct (nth 1 res 0 <=? wo_tract w).
        * apply LInv_finish_w; [exact HI|]. intros _ _. vm_compute. discriminate.
        * apply LInv_w_get; auto. }
  destruct (Cluster.Model.k_kind r =? K_GetTracts).
  { destruct ((wo_phase w =? 2) && (Cluster.Model.k_blob r =? wo_blob w) && (nth 0 (Cluster.Model.k_aux r) 0 =? wo_tract w)) eqn:G; cbn [negb]; [|exact HI].
    apply andb_true_iff in G. destruct G as [G G3]. apply andb_true_iff in G. destruct G as [_ G2].
    apply Z.eqb_eq in G2, G3.
    destruct (negb (hd cl_ErrRPC res =? cl_NoError)) eqn:Ee.
    - apply LInv_finish_w; [exact HI|]. intros _ _ E. rewrite E, Z.eqb_refl in Ee. discriminate.
    - destruct en as [e|].
      + assert (He: wo_late w = true -> use_cache st (wo_cli w) = false -> ce_rs e = true \/ ce_hosts e = []).
        { intros L C. left. apply (Hen e eq_refl). destruct (Hw L C) as [_ K]. unfold w_tk in K. rewrite G2, G3. exact K. }
        destruct (use_cache st (wo_cli w)) eqn:C.
        * apply LInv_w_after_entry; [exact Hfx|apply LInv_cache; exact HI|apply wop_ok_cache; exact Hw|].
          intros L C'. change (use_cache (set_cache st _) (wo_cli w)) with (use_cache st (wo_cli w)) in C'. congruence.
        * apply LInv_w_after_entry; auto.
      + apply LInv_finish_w; [exact HI|]. intros _ _. vm_compute. discriminate. }
  destruct (Cluster.Model.k_kind r =? K_Write).
  { destruct (negb (wo_phase w =? 3)) eqn:P3; [exact HI|]. apply negb_false_iff, Z.eqb_eq in P3.
    assert (NL: wo_late w = true -> use_cache st (wo_cli w) = false -> False).
    { intros L C. destruct (Hw L C) as [[K|K] _]; lia. }
    set (res' := map _ (wo_res w)).
    set (w' := w_set w 3 (wo_cached w) (wo_retry w) (wo_entry w) res' 0).
    assert (HI1: LInv (set_wops st (upd_wop (s_wops st) w'))).
    { apply LInv_upd; [exact HI|]. apply wop_ok_w_set. intros L C. destruct (NL L C). }
    destruct (existsb _ res'); [exact HI1|].
    destruct (first_bad res') as [[h e]|].
    - destruct (wo_cached w).
      + apply LInv_issue.
        match goal with |- LInv (set_wops ?s (upd_wop _ ?x)) => apply (LInv_upd s x) end.
        * apply LInv_cache. exact HI1.
        * apply wop_ok_w_set. intros L C. destruct (NL L C).
      + destruct (e =? cl_ErrRPC).
        * apply LInv_issue.
          match goal with |- LInv (set_wops ?s (upd_wop _ ?x)) => apply (LInv_upd s x) end; [exact HI1|].
          apply wop_ok_w_set. intros L C. destruct (NL L C).
        * destruct (e =? cl_ErrVersionMismatch).
          -- apply LInv_issue.
             match goal with |- LInv (set_wops ?s (upd_wop _ ?x)) => apply (LInv_upd s x) end; [exact HI1|].
             apply wop_ok_w_set. intros L C. destruct (NL L C).
          -- apply LInv_finish_w; [exact HI1|]. intros L C. destruct (NL L C).
    - apply LInv_finish_w; [exact HI1|]. intros L C. destruct (NL L C). }
  destruct (negb (wo_phase w =? 4)) eqn:P4; [exact HI|]. apply negb_false_iff, Z.eqb_eq in P4.
  apply LInv_finish_w; [exact HI|]. intros L C. destruct (Hw L C) as [[K|K] _]; lia.
Qed.

Lemma en_ok_none st r : en_ok st r None. Proof. intros e H. discriminate. Qed.

Lemma LInv_finish_fix fx st f e : fx14 fx = true -> LInv st -> LInv (finish_fix fx st f e).
Proof.
  intros Hfx HI. unfold finish_fix.
  assert (B: LInv (set_fixes st (del_fix (s_fix st) (f_id f)))) by (eapply LInv_same; [| |exact HI]; reflexivity).
  destruct (f_rpc f =? 0); [exact B|].
  destruct (find _ _) as [pe|]; [|exact B].
  apply LInv_cli_reply; [exact Hfx| |apply en_ok_none].
  eapply LInv_same; [| |exact B]; reflexivity.
Qed.

Lemma LInv_activate_fix fx st f : fx14 fx = true -> LInv st -> LInv (activate_fix fx st f).
Proof.
  intros Hfx HI. unfold activate_fix.
  repeat match goal with
         | |- context [match ?x with _ => _ end] => destruct x
         | |- context [if ?b then _ else _] => destruct b
         end; try (apply LInv_finish_fix; assumption).
  apply LInv_fold_issue. eapply LInv_same; [| |exact HI]; reflexivity.
Qed.

Lemma LInv_wake fx n : fx14 fx = true -> forall st, LInv st -> LInv (wake fx n st).
Proof.
  intros Hfx. induction n; intros st HI; cbn [wake]; [exact HI|].
  destruct (find _ _); [|exact HI]. apply IHn. apply LInv_activate_fix; assumption.
Qed.

Lemma LInv_start_fix fx st g tk c b r : fx14 fx = true -> LInv st -> LInv (start_fix fx st g tk c b r).
Proof.
  intros Hfx HI. unfold start_fix.
  match goal with |- context [set_fix st ?a ?b] => assert (B: LInv (set_fix st a b)) by (eapply LInv_same; [| |exact HI]; reflexivity) end.
  destruct (negb _); apply LInv_wake; auto. apply LInv_finish_fix; auto.
Qed.

Lemma LInv_mono_q3 st st' : q3 st' = q3 st -> mono st st' -> LInv st -> LInv st'.
Proof. intros Q [_ [R _]]. apply LInv_transfer; assumption. Qed.

Lemma LInv_fix_reply fx st id err : fx14 fx = true -> LInv st -> LInv (fix_reply fx st id err).
Proof.
  intros Hfx HI. unfold fix_reply. destruct (find_fix _ _) as [f|]; [|exact HI].
  destruct (negb _); [apply LInv_wake; auto; apply LInv_finish_fix; auto|].
  destruct (1 <? f_wait f); [eapply LInv_same; [| |exact HI]; reflexivity|].
  pose proof (mono_change_tract st (f_term f) (f_tk f) (f_dv f + 1) (f_hosts f)) as M.
  pose proof (q3_change_tract st (f_term f) (f_tk f) (f_dv f + 1) (f_hosts f)) as Q.
  destruct (change_tract _ _ _ _ _) as [st1 e]. cbn [fst] in *.
  apply LInv_wake; auto. apply LInv_finish_fix; auto. eapply LInv_mono_q3; eauto.
Qed.

Lemma LInv_q3p3 st st' : q3 st' = q3 st -> p3 st' = p3 st -> LInv st -> LInv st'.
Proof. intros Q P. apply LInv_same; [exact Q|]. unfold p3 in P. injection P as _ P _. exact P. Qed.

Lemma LInv_stat_reply fx st r tk h e sz stamp : fx14 fx = true -> LInv st -> LInv (stat_reply fx st r tk h e sz stamp).
Proof.
  intros Hfx HI. unfold stat_reply.
  destruct (find_ptr _ _) as [p|]; [|exact HI].
  match goal with |- context [match pt_next ?p1 with _ => _ end] => destruct (pt_next p1) end.
  - match goal with |- context [set_rounds st ?v] => assert (B: LInv (set_rounds st v)) by (eapply LInv_same; [| |exact HI]; reflexivity) end.
    match goal with |- LInv (if ?c then _ else _) => destruct c end;
    match goal with |- context [if ?c then start_fix _ _ _ _ _ _ _ else _] => destruct c end;
    try (apply LInv_start_fix; assumption); try exact B;
    (eapply LInv_q3p3; [apply q3_round_after_stats|apply p3_round_after_stats|]); try (apply LInv_start_fix; assumption); exact B.
  - apply LInv_issue. eapply LInv_same; [| |exact HI]; reflexivity.
Qed.

Lemma LInv_round_reply fx st op rp res hint : fx14 fx = true -> LInv st -> LInv (round_reply fx st op rp res hint).
Proof.
  intros Hfx HI. unfold round_reply. destruct (find_round _ _) as [r|]; [|exact HI].
  destruct (Cluster.Model.k_kind rp =? K_CtlStat); [apply LInv_stat_reply; assumption|].
  (* every other branch leaves wops/late/usecache and the durable tracts alone *)
  eapply LInv_q3p3; [| |exact HI].
  - q3_crush. all: try (rewrite fold_q3; [q3_crush|]; intros s [[[a b] c] d]; q3_crush).
  - change (round_reply fx st op rp res hint) with (round_reply fx st op rp res hint) in *.
    repeat match goal with
           | |- context [match ?x with _ => _ end] => destruct x eqn:?
           | |- context [if ?b then _ else _] => destruct b eqn:?
           end; autorewrite with p3; try reflexivity;
    try (rewrite fold_p3; [autorewrite with p3; reflexivity|]; intros s [[[a b] c] d]; autorewrite with p3; reflexivity).
Qed.

Ltac via_fst_q L :=
  match goal with |- context [let '(a, b) := ?t in _] =>
    let E := fresh "E" in let s := fresh "s" in let c := fresh "c" in
    destruct t as [s c] eqn:E; cbn [fst];
    replace s with (fst t) by (rewrite E; reflexivity); apply L end.

Lemma q3_exec_rpc fx st e extra : q3 (st_of (exec_rpc fx st e extra)) = q3 st.
Proof.
  unfold exec_rpc, st_of.
  destruct (Cluster.Model.k_kind (p_rpc e) =? K_Write). { via_fst_q q3_ts_write. }
  destruct (Cluster.Model.k_kind (p_rpc e) =? K_SetVersion). { via_fst_q q3_ts_setversion. }
  destruct (Cluster.Model.k_kind (p_rpc e) =? K_CtlStat). { destruct (ts_stat st _ _ _) as [[? ?] ?]. reflexivity. }
  destruct (Cluster.Model.k_kind (p_rpc e) =? K_PackTracts). { via_fst_q q3_ts_pack. }
  destruct (Cluster.Model.k_kind (p_rpc e) =? K_RSEncode).
  { repeat match goal with |- context [match ?x with _ => _ end] => destruct x | |- context [if ?b then _ else _] => destruct b end; reflexivity. }
  destruct (Cluster.Model.k_kind (p_rpc e) =? K_GCTract). { destruct (negb _); reflexivity. }
  destruct (Cluster.Model.k_kind (p_rpc e) =? K_StatBlob). { destruct (Cluster.Model.zget _ _); reflexivity. }
  destruct (Cluster.Model.k_kind (p_rpc e) =? K_GetTracts).
  { repeat match goal with |- context [match ?x with _ => _ end] => destruct x | |- context [if ?b then _ else _] => destruct b end; reflexivity. }
  destruct (Cluster.Model.k_kind (p_rpc e) =? K_ReportBadTS). { reflexivity. }
  destruct (Cluster.Model.k_kind (p_rpc e) =? K_Alloc).
  { destruct (find_round _ _) as [rd|]; [|reflexivity]. destruct (negb _); reflexivity. }
  destruct (Cluster.Model.k_kind (p_rpc e) =? K_Commit).
  { destruct (find_round _ _) as [rd|]; [|reflexivity].
    destruct (find_enc_chunk _ _) as [eo|]; [|reflexivity].
    match goal with |- context [commit_rs ?a ?b ?c ?d ?e0 ?f ?g] => pose proof (q3_commit_rs a b c d e0 f g) as M; destruct (commit_rs a b c d e0 f g) end.
    cbn [fst] in *. exact M. }
  reflexivity.
Qed.

Lemma LInv_exec fx st e extra : LInv st -> LInv (st_of (exec_rpc fx st e extra)).
Proof. apply LInv_mono_q3; [apply q3_exec_rpc|apply mono_exec_rpc]. Qed.

Definition en_of (x : state * list Z * option centry * list Z) : option centry := snd (fst x).

Lemma exec_en_ok fx st e extra : en_ok (st_of (exec_rpc fx st e extra)) (p_rpc e) (en_of (exec_rpc fx st e extra)).
Proof.
  unfold exec_rpc, st_of, en_of.
  repeat match goal with
         | |- context [if (Cluster.Model.k_kind (p_rpc e) =? ?k) then _ else _] => destruct (Cluster.Model.k_kind (p_rpc e) =? k) eqn:?
         end;
  try solve [ repeat match goal with
                     | |- context [let '(a, b) := ?t in _] => destruct t
                     | |- context [match ?x with _ => _ end] => destruct x
                     | |- context [if ?b then _ else _] => destruct b
                     end; cbn [fst snd]; apply en_ok_none ].
  (* GetTracts *)
  destruct (Cluster.Model.zget (s_blobs st) (Cluster.Model.k_blob (p_rpc e))); cbn [fst snd]; [|apply en_ok_none].
  destruct (b_nt b <=? aux_nth (p_rpc e) 0); cbn [fst snd]; [apply en_ok_none|].
  destruct (dget st (Cluster.Model.tkey (Cluster.Model.k_blob (p_rpc e)) (aux_nth (p_rpc e) 0))) as [d|] eqn:D; cbn [fst snd]; [|apply en_ok_none].
  intros en0 H [d' [D' K]]. injection H as <-. unfold aux_nth in D. rewrite D in D'. injection D' as <-.
  unfold entry_of. cbn [ce_rs]. destruct (d_rs d); [reflexivity|congruence].
Qed.

Lemma LInv_deliver fx st e res en hint :
  fx14 fx = true -> LInv st -> en_ok st (p_rpc e) en -> LInv (deliver fx st e res en hint).
Proof.
  intros Hfx HI Hen. unfold deliver.
  assert (B: LInv (set_pool st (pool_remove (s_pool st) (p_id e)) (s_next st))) by (eapply LInv_same; [| |exact HI]; reflexivity).
  destruct (p_owner e =? 0); [exact B|].
  destruct (p_owner e <? 0); [apply LInv_fix_reply; assumption|].
  destruct (find_wop _ _); [apply LInv_cli_reply; auto|apply LInv_round_reply; auto].
Qed.

Lemma en_ok_transfer st st' r en : rs_kept (s_dtr st') (s_dtr st) -> en_ok st r en -> en_ok st' r en.
Proof. intros R H e E K. apply (H e E). eapply has_rs_kept; eauto. Qed.

Lemma exec_en_some_same fx st e extra : en_of (exec_rpc fx st e extra) <> None -> st_of (exec_rpc fx st e extra) = st.
Proof.
  unfold exec_rpc, st_of, en_of.
  repeat match goal with
         | |- context [if (Cluster.Model.k_kind (p_rpc e) =? ?k) then _ else _] => destruct (Cluster.Model.k_kind (p_rpc e) =? k) eqn:?
         end;
  try solve [ repeat match goal with
                     | |- context [let '(a, b) := ?t in _] => destruct t
                     | |- context [match ?x with _ => _ end] => destruct x
                     | |- context [if ?b then _ else _] => destruct b
                     end; cbn [fst snd]; congruence ].
Qed.

Lemma LInv_step_exec fx st mode l : fx14 fx = true -> LInv st -> LInv (fst (step_exec fx st mode l)).
Proof.
  intros Hfx HI. unfold step_exec. destruct (Cluster.Model.parse_rpc l) as [[rp r1]|]; [|exact HI].
  destruct (match r1 with [] => _ | n :: t => _ end) as [extra r2].
  destruct (find_pent (s_pool st) rp) as [e|] eqn:Fe; [|exact HI].
  assert (Erp: p_rpc e = p_rpc e) by reflexivity.
  destruct (mode =? 4); [cbn [fst]; apply LInv_deliver; auto; apply en_ok_none|].
  destruct (Cluster.Model.k_kind rp =? K_FixVersion).
  { cbn [fst]. apply LInv_start_fix; [exact Hfx|]. eapply LInv_same; [| |exact HI]; reflexivity. }
  pose proof (LInv_exec fx st e extra HI) as H1.
  pose proof (exec_en_ok fx st e extra) as N1.
  pose proof (exec_en_some_same fx st e extra) as S1.
  unfold st_of, en_of in *.
  destruct (exec_rpc fx st e extra) as [[[st1 res] en] dump] eqn:X1. cbn [fst snd] in *.
  destruct (mode =? 3) eqn:M3.
  - pose proof (LInv_exec fx st1 e extra H1) as H2.
    pose proof (exec_en_some_same fx st1 e extra) as S2. unfold st_of, en_of in *.
    destruct (exec_rpc fx st1 e extra) as [[[s' res2] en2] d'] eqn:X2. cbn [fst snd] in *.
    apply LInv_deliver; auto.
    replace (if mode =? 2 then None else en) with en by (destruct (mode =? 2) eqn:M2; [apply Z.eqb_eq in M2, M3; lia|reflexivity]).
    destruct en as [en0|]; [|apply en_ok_none].
    assert (st1 = st) by (apply S1; discriminate). subst st1.
    rewrite X1 in X2. injection X2 as <- _ <- _.
    assert (st = st) by reflexivity. exact N1.
  - apply LInv_deliver; auto. destruct (mode =? 2); [apply en_ok_none|exact N1].
Qed.

Lemma LInv_fold {A} (f : state -> A -> state) l : (forall s x, LInv s -> LInv (f s x)) -> forall st, LInv st -> LInv (fold_left f l st).
Proof. intros H. induction l; intros; cbn; auto. Qed.

Lemma LInv_step_restart fx st ts : fx14 fx = true -> LInv st -> LInv (fst (step_restart fx st ts)).
Proof.
  intros Hfx HI. unfold step_restart. cbn [fst]. apply LInv_fold.
  - intros s x Hs. destruct (find _ _); [apply LInv_deliver; auto; apply en_ok_none|exact Hs].
  - eapply LInv_same; [| |exact HI]; reflexivity.
Qed.

Lemma q3_round_start st op : q3 (fst (round_start st op)) = q3 st.
Proof.
  unfold round_start.
  match goal with |- context [fold_left ?f (blob_ids st) _] => set (F := f) end.
  assert (H: forall l acc, q3 (fst (fst (fold_left F l acc))) = q3 (fst (fst acc))).
  { induction l; intros; cbn [fold_left]; [reflexivity|]. rewrite IHl.
    destruct acc as [[s a0] o]. unfold F. cbn [fst].
    destruct (Cluster.Model.zget (s_blobs s) a); [|reflexivity].
    destruct (b_cls b =? b_tgt b); [reflexivity|].
    destruct (all_rs s a).
    - pose proof (q3_update_class s op (s_term st) a (b_tgt b)) as M.
      destruct (update_class s op (s_term st) a (b_tgt b)). exact M.
    - destruct (b_cls b =? c14_ClassREPLICATED); reflexivity. }
  specialize (H (blob_ids st) (st, [], [])). cbn [fst] in H.
  destruct (fold_left F (blob_ids st) (st, [], [])) as [[st1 tracts] obs]. cbn [fst] in *.
  rewrite <- H.
  match goal with |- q3 (if ?b then _ else _) = _ => destruct b end; q3_crush;
  (rewrite fold_q3; [q3_crush|]; intros; q3_crush).
Qed.

Lemma wop_ok_same st st' w : s_usecache st' = s_usecache st -> s_dtr st' = s_dtr st -> wop_ok st w -> wop_ok st' w.
Proof.
  intros U D H L C. unfold use_cache in C. rewrite U in C. destruct (H L C) as [P [d [K1 K2]]].
  split; [exact P|]. exists d. unfold dget in *. rewrite D. auto.
Qed.

Lemma LInv_begin st : LInv st -> LInv (begin_event st).
Proof. intros H. eapply LInv_same; [| |exact H]; reflexivity. Qed.

Lemma LInv_step fx st ev : fx14 fx = true -> LInv st -> LInv (fst (step_fx fx st ev)).
Proof.
  intros Hfx HI0. unfold step_fx. pose proof (LInv_begin st HI0) as HI. set (s := begin_event st) in *.
  destruct ev as [|c a]; [exact HI|].
  destruct (c =? 1).
  { destruct a as [|nts [|ncli flags]]; try exact HI.
    destruct (s_wops s) eqn:W; cbn [negb orb]; [|rewrite orb_true_r; exact HI].
    destruct (negb (s_nts s =? 0)); cbn [orb fst]; [exact HI|].
    split; [exact (proj1 HI)|]. intros w Hw. exfalso. exact Hw. }
  destruct (c =? 2).
  { destruct a as [|blob [|nt [|tgt [|]]]]; try exact HI.
    destruct (Cluster.Model.zget _ _); cbn [fst]; [exact HI|]. eapply LInv_same; [| |exact HI]; reflexivity. }
  destruct (c =? 20).
  { destruct a as [|blob [|tract [|ver [|nh hosts]]]]; try exact HI.
    destruct (dget s (Cluster.Model.tkey blob tract)) eqn:E; cbn [orb]; cbn [fst]; [exact HI|].
    destruct (negb (Cluster.Model.distinct hosts)); cbn [fst]; [exact HI|].
    eapply LInv_transfer; [| |exact HI]; [reflexivity|]. cbn. apply rs_kept_tset_fresh. exact E. }
  destruct (c =? 21).
  { destruct a as [|blob [|tract [|wid [|off [|len [|isw [|]]]]]]]; try exact HI.
    destruct (dget s _); cbn [fst]; [|exact HI].
    eapply LInv_q3p3; [| |exact HI].
    - rewrite fold_q3; [reflexivity|]. intros. q3_crush.
    - rewrite fold_p3; [reflexivity|]. intros. p3_crush. }
  destruct (c =? 22).
  { destruct a as [|blob [|tract [|]]]; try exact HI. destruct (dget s _); exact HI. }
  destruct (c =? 3).
  { destruct a as [|op [|cli [|blob [|tract [|off [|len [|wid [|]]]]]]]]; try exact HI.
    destruct (negb (op_fresh s op) || (len <=? 0)); cbn [fst]; [exact HI|].
    apply LInv_issue.
    match goal with |- LInv (set_ghost ?s0 _ _ _ _) => cut (LInv s0); [intros B; eapply LInv_same; [| |exact B]; reflexivity|] end.
    split; [exact (proj1 HI)|]. cbn [s_wops set_cli]. intros w Hw. apply in_app_or in Hw. destruct Hw as [Hw|[Hw|[]]].
    - eapply wop_ok_same; [| |exact (proj2 HI w Hw)]; reflexivity.
    - subst w. intros L C. cbn [wo_late wo_phase] in *. split; [left; reflexivity|].
      unfold has_rs, w_tk. cbn [wo_blob wo_tract].
      change (dget (set_cli s _ _ _ _)) with (dget s).
      destruct (dget s (Cluster.Model.tkey blob tract)) as [d|]; [|discriminate].
      exists d. split; [reflexivity|]. destruct (d_rs d); [discriminate|discriminate]. }
  destruct (c =? 6).
  { destruct a as [|blob [|tract [|ver [|badts [|]]]]]; try exact HI. cbn [fst]. apply LInv_start_fix; assumption. }
  destruct (c =? 7).
  { destruct a; [exact HI|apply LInv_step_exec; assumption]. }
  destruct (c =? 9).
  { destruct a as [|ts [|]]; try exact HI. apply LInv_step_restart; assumption. }
  destruct (c =? 10). { first [exact HI | cbn [fst]; eapply LInv_same; [| |exact HI]; reflexivity]. }
  destruct (c =? 11).
  { destruct a as [|ts [|]]; first [exact HI | cbn [fst]; eapply LInv_same; [| |exact HI]; reflexivity]. }
  destruct (c =? 80).
  { destruct a as [|op [|]]; try exact HI.
    destruct (negb (op_fresh s op)); [exact HI|].
    pose proof (mono_round_start s op) as M. pose proof (q3_round_start s op) as Q.
    destruct (round_start s op) as [st1 obs]. cbn [fst] in *. eapply LInv_mono_q3; eauto. }
  destruct (c =? 30).
  { destruct a as [|blob [|tract [|off [|len [|nt tries]]]]]; exact HI. }
  destruct (c =? 81).
  { destruct (Cluster.Model.parse_rpc a) as [[rp r1]|]; [|exact HI].
    destruct (match r1 with [] => _ | n :: t => _ end) as [res r2].
    destruct (find_pent _ _); cbn [fst]; [apply LInv_deliver; auto; apply en_ok_none|exact HI]. }
  destruct (c =? 82); [exact HI|].
  destruct (c =? 84); [exact HI|].
  destruct (c =? 83); [exact HI|].
  destruct (c =? 31).
  { destruct a as [|blob [|]]; try exact HI. destruct (Cluster.Model.zget _ _); exact HI. }
  exact HI.
Qed.

Lemma LInv_init : LInv init_state.
Proof. split; [reflexivity|intros w []]. Qed.

Lemma LInv_run fx evs : fx14 fx = true -> forall st, LInv st -> LInv (run_state_fx fx st evs).
Proof. intros Hfx. induction evs; intros; cbn; auto. apply IHevs. apply LInv_step; assumption. Qed.

(* run level, any schedule, any fx6/fx13: with the client repair no client without location cache ever has a write
   acknowledged that it started when the tract already had an RS pointer *)
Theorem no_late_ack fx evs : fx14 fx = true -> s_late (run_state_fx fx init_state evs) = [].
Proof. intros H. exact (proj1 (LInv_run fx evs H init_state LInv_init)). Qed.
