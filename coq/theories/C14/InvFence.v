(* C14/InvFence.v — layer 3: once CommitRSChunk has given a tract its RS pointer, one of its replicas carries a
   version above every version a client still holds for it (location entries with hosts, cached or in use, and
   pending Write calls), so no write can be accepted by all hosts any more; with the client repair (fx14) a write that
   starts after the commit is never acknowledged, whether or not the client caches locations: after_ok. *)
From Coq Require Import List ZArith Bool Lia.
From BLB Require Import Gen.Consts.
From BLB Require Cluster.Model.
From BLB Require Import C14.Model C14.Proofs C14.Run C14.Late C14.InvFrame C14.InvStore C14.InvVer C14.InvPool C14.InvRound C14.InvTract.
Import ListNotations.
Open Scope Z_scope.

Notation mkw := Cluster.Model.mkw.
Definition comrec := (tkt * Z * list wrec * Z * Z * list wrec)%type.
Definition c_tk (c : comrec) : tkt := let '(tk, _, _, _, _, _) := c in tk.
Definition c_started (c : comrec) : list wrec := let '(_, _, _, _, _, s) := c in s.

Definition usable (e : centry) : Prop := ce_rs e = false /\ ce_hosts e <> [].
Definition held (st : state) (tk : tkt) (e : centry) : Prop :=
  (exists cli, In (cli, (tk, e)) (s_cache st)) \/ (exists w, In w (s_wops st) /\ w_tk w = tk /\ wo_entry w = Some e).
Definition fenced (st : state) (tk : tkt) (h : Z) : Prop :=
  exists rep, rget (s_reps st) (h, tk) = Some rep /\
    (forall e, held st tk e -> usable e -> In h (map fst (ce_hosts e)) /\ ce_ver e < r_ver rep) /\
    (forall pe, In pe (s_pool st) -> k_kind (p_rpc pe) = K_Write -> rpc_tk (p_rpc pe) = tk -> k_ver (p_rpc pe) < r_ver rep).

Definition w_att (w : wop) : tkt * wrec := (w_tk w, mkw (wo_wid w) (wo_off w) (wo_len w)).

Record FInv (st : state) : Prop := {
  f_rs : forall w, In w (s_wops st) -> wo_late w = true -> has_rs st (w_tk w);
  f_p4 : forall w, In w (s_wops st) -> wo_phase w = 4 -> wo_final w <> cl_NoError;
  f_p3 : forall w, In w (s_wops st) -> wo_phase w = 3 ->
           exists e, wo_entry w = Some e /\ usable e /\ map fst (wo_res w) = map fst (ce_hosts e);
  f_uniq : forall w1 w2, In w1 (s_wops st) -> In w2 (s_wops st) -> wo_op w1 = wo_op w2 -> w_tk w1 = w_tk w2;
  f_wr : forall pe w, In pe (s_pool st) -> k_kind (p_rpc pe) = K_Write -> In w (s_wops st) -> wo_op w = p_owner pe ->
           rpc_tk (p_rpc pe) = w_tk w;
  f_fence : forall tk, has_rs st tk -> exists h, fenced st tk h;
  f_late : forall w, In w (s_wops st) -> wo_late w = true -> wo_phase w = 3 ->
             exists h x, fenced st (w_tk w) h /\ In (h, x) (wo_res w) /\ x <> cl_NoError;
  f_ao : forall c tk w, In c (s_commits st) -> In (tk, w) (s_acked st) -> tk = c_tk c -> wid_in (c_started c) (w_id w) = true;
  f_aw : forall w c, In w (s_wops st) -> wo_late w = false -> In c (s_commits st) -> c_tk c = w_tk w ->
           wid_in (c_started c) (wo_wid w) = true;
  f_at : forall w, In w (s_wops st) -> In (w_att w) (s_att st);
  f_cr : forall c, In c (s_commits st) -> has_rs st (c_tk c);
  f_aa : forall x, In x (s_acked st) -> In x (s_att st)
}.

(* what FInv looks at *)
Definition pF (st : state) := (s_wops st, s_cache st, s_pool st, s_dtr st, s_reps st, s_commits st, s_acked st, s_att st).

Lemma FInv_pF st st' : pF st' = pF st -> FInv st -> FInv st'.
Proof.
  unfold pF. intros H HI. injection H as H1 H2 H3 H4 H5 H6 H7 H8.
  assert (Hrs: forall tk, has_rs st' tk <-> has_rs st tk) by (intros tk; unfold has_rs, dget; rewrite H4; tauto).
  assert (Hh: forall tk e, held st' tk e <-> held st tk e) by (intros tk e; unfold held; rewrite H1, H2; tauto).
  assert (Hf: forall tk h, fenced st' tk h <-> fenced st tk h).
  { intros tk h. unfold fenced. rewrite H5, H3. split; intros [rep [A [B C]]]; exists rep; (split; [exact A|]); (split; [|exact C]);
      intros e He; apply B; apply Hh; exact He. }
  destruct HI as [A B C D E F G I J K L M].
  constructor; rewrite ?H1, ?H3, ?H6, ?H7, ?H8; try assumption.
  - intros w Hw Lw. apply Hrs. auto.
  - intros tk Ht. apply Hrs in Ht. destruct (F tk Ht) as [h Fh]. exists h. apply Hf. exact Fh.
  - intros w Hw Lw P3. destruct (G w Hw Lw P3) as [h [x [Fh R]]]. exists h, x. split; [apply Hf; exact Fh|exact R].
  - intros c Hc. apply Hrs. auto.
Qed.

(* ------------------------------------------------------------------ monotonicity *)
Lemma fenced_mono st st' tk h :
  (forall e, held st' tk e -> held st tk e) -> (forall pe, In pe (s_pool st') -> In pe (s_pool st)) ->
  (forall rep, rget (s_reps st) (h, tk) = Some rep -> exists rep', rget (s_reps st') (h, tk) = Some rep' /\ r_ver rep <= r_ver rep') ->
  fenced st tk h -> fenced st' tk h.
Proof.
  intros Hh Hp Hr [rep [A [B C]]]. destruct (Hr rep A) as [rep' [A' V]]. exists rep'. split; [exact A'|]. split.
  - intros e He U. destruct (B e (Hh e He) U). split; [assumption|lia].
  - intros pe Hpe K T. specialize (C pe (Hp pe Hpe) K T). lia.
Qed.

Lemma held_sub st st' tk e :
  (forall x, In x (s_cache st') -> In x (s_cache st)) -> (forall w, In w (s_wops st') -> In w (s_wops st)) ->
  held st' tk e -> held st tk e.
Proof. intros Hc Hw [[cli H]|[w [H1 H2]]]; [left; exists cli; auto|right; exists w; split; [auto|exact H2]]. Qed.

Lemma FInv_shrink st st' :
  s_dtr st' = s_dtr st -> s_reps st' = s_reps st -> s_commits st' = s_commits st -> s_acked st' = s_acked st -> s_att st' = s_att st ->
  (forall x, In x (s_cache st') -> In x (s_cache st)) -> (forall pe, In pe (s_pool st') -> In pe (s_pool st)) ->
  (forall w, In w (s_wops st') -> In w (s_wops st)) -> FInv st -> FInv st'.
Proof.
  intros H4 H5 H6 H7 H8 Hc Hp Hw HI.
  assert (Hrs: forall tk, has_rs st' tk <-> has_rs st tk) by (intros tk; unfold has_rs, dget; rewrite H4; tauto).
  assert (Hf: forall tk h, fenced st tk h -> fenced st' tk h).
  { intros tk h. apply fenced_mono; [intros e; apply held_sub; assumption|exact Hp|]. intros rep R. exists rep. rewrite H5. split; [exact R|lia]. }
  destruct HI as [A B C D E F G I J K L M].
  constructor; rewrite ?H6, ?H7, ?H8.
  - intros w Hw0 Lw. apply Hrs. auto.
  - intros w Hw0. auto.
  - intros w Hw0. auto.
  - intros w1 w2 H1 H2. auto.
  - intros pe w Hpe K0 Hw0. auto.
  - intros tk Ht. apply Hrs in Ht. destruct (F tk Ht) as [h Fh]. exists h. auto.
  - intros w Hw0 Lw P3. destruct (G w (Hw w Hw0) Lw P3) as [h [x [Fh R]]]. exists h, x. auto.
  - exact I.
  - intros w c Hw0. auto.
  - intros w Hw0. auto.
  - intros c Hc0. apply Hrs. auto.
  - exact M.
Qed.

Lemma FInv_reps st st' :
  s_dtr st' = s_dtr st -> s_wops st' = s_wops st -> s_cache st' = s_cache st -> s_pool st' = s_pool st ->
  s_commits st' = s_commits st -> s_acked st' = s_acked st -> s_att st' = s_att st -> srel st st' -> FInv st -> FInv st'.
Proof.
  intros H4 H1 H2 H3 H6 H7 H8 S HI.
  assert (Hrs: forall tk, has_rs st' tk <-> has_rs st tk) by (intros tk; unfold has_rs, dget; rewrite H4; tauto).
  assert (Hf: forall tk h, fenced st tk h -> fenced st' tk h).
  { intros tk h. apply fenced_mono; [unfold held; rewrite H1, H2; auto|rewrite H3; auto|].
    intros rep R. destruct (S h tk rep R) as [r' [G1 [G2 _]]]. exists r'. auto. }
  destruct HI as [A B C D E F G I J K L M].
  constructor; rewrite ?H1, ?H3, ?H6, ?H7, ?H8; try assumption.
  - intros w Hw Lw. apply Hrs. auto.
  - intros tk Ht. apply Hrs in Ht. destruct (F tk Ht) as [h Fh]. exists h. auto.
  - intros w Hw Lw P3. destruct (G w Hw Lw P3) as [h [x [Fh R]]]. exists h, x. auto.
  - intros c Hc. apply Hrs. auto.
Qed.

(* ------------------------------------------------------------------ updating a client operation *)
Lemma in_upd_wop' l w' x : In x (upd_wop l w') -> (In x l /\ wo_op x <> wo_op w') \/ x = w'.
Proof.
  unfold upd_wop. intros H. apply in_map_iff in H. destruct H as [y [E Hy]].
  destruct (wo_op y =? wo_op w') eqn:K; [right; congruence|left]. apply Z.eqb_neq in K. subst x. auto.
Qed.

Definition same_ident (w w' : wop) : Prop :=
  wo_op w' = wo_op w /\ w_tk w' = w_tk w /\ wo_late w' = wo_late w /\ w_att w' = w_att w /\ wo_wid w' = wo_wid w.
Lemma same_ident_w_set w a b c d e f : same_ident w (w_set w a b c d e f). Proof. repeat split. Qed.
Lemma same_ident_refl w : same_ident w w. Proof. repeat split. Qed.

Lemma FInv_upd_wop st w w' :
  FInv st -> In w (s_wops st) -> same_ident w w' ->
  (wo_phase w' = 4 -> wo_final w' <> cl_NoError) ->
  (wo_phase w' = 3 -> exists e, wo_entry w' = Some e /\ usable e /\ map fst (wo_res w') = map fst (ce_hosts e)) ->
  (forall e, wo_entry w' = Some e -> usable e -> held st (w_tk w) e \/ ~ has_rs st (w_tk w)) ->
  (wo_late w = true -> wo_phase w' = 3 -> exists h x, fenced st (w_tk w) h /\ In (h, x) (wo_res w') /\ x <> cl_NoError) ->
  FInv (set_wops st (upd_wop (s_wops st) w')).
Proof.
  intros HI Hw [I1 [I2 [I3 [I4 I5]]]] C4 C3 Ce Cl. destruct HI as [A B C D E F G I J K L M].
  assert (Hh: forall tk e, has_rs st tk -> held (set_wops st (upd_wop (s_wops st) w')) tk e -> usable e -> held st tk e).
  { intros tk e Rs [[cli H]|[x [H1 [H2 H3]]]] U; [left; exists cli; exact H|].
    cbn [s_wops set_wops set_cli] in H1. apply in_upd_wop' in H1. destruct H1 as [[H1 _]| ->]; [right; exists x; auto|].
    rewrite I2 in H2. subst tk. destruct (Ce e H3 U) as [Q|Q]; [exact Q|contradiction]. }
  assert (Hf: forall tk h, has_rs st tk -> fenced st tk h -> fenced (set_wops st (upd_wop (s_wops st) w')) tk h).
  { intros tk h Rs [rep [R1 [R2 R3]]]. exists rep. split; [exact R1|]. split; [|exact R3].
    intros e He U. apply R2; [apply Hh; assumption|exact U]. }
  constructor; cbn [s_wops s_pool s_commits s_acked s_att set_wops set_cli].
  - intros x Hx Lx. apply in_upd_wop' in Hx. destruct Hx as [[Hx _]| ->]; [exact (A x Hx Lx)|]. rewrite I2. apply A; [exact Hw|congruence].
  - intros x Hx. apply in_upd_wop' in Hx. destruct Hx as [[Hx _]| ->]; [exact (B x Hx)|exact C4].
  - intros x Hx. apply in_upd_wop' in Hx. destruct Hx as [[Hx _]| ->]; [exact (C x Hx)|exact C3].
  - intros x y Hx Hy Exy. apply in_upd_wop' in Hx. apply in_upd_wop' in Hy.
    destruct Hx as [[Hx Nx]| ->], Hy as [[Hy Ny]| ->]; try reflexivity.
    + exact (D x y Hx Hy Exy).
    + rewrite I2. apply (D x w Hx Hw). congruence.
    + rewrite I2. apply (D w y Hw Hy). congruence.
  - intros pe x Hpe Kw Hx Ox. apply in_upd_wop' in Hx. destruct Hx as [[Hx _]| ->]; [exact (E pe x Hpe Kw Hx Ox)|].
    rewrite I2. apply (E pe w Hpe Kw Hw). congruence.
  - intros tk Ht. destruct (F tk Ht) as [h Fh]. exists h. apply Hf; assumption.
  - intros x Hx Lx P3. apply in_upd_wop' in Hx. destruct Hx as [[Hx _]| ->].
    + destruct (G x Hx Lx P3) as [h [y [Fh R]]]. exists h, y. split; [apply Hf; [exact (A x Hx Lx)|exact Fh]|exact R].
    + rewrite I3 in Lx. destruct (Cl Lx P3) as [h [y [Fh R]]]. exists h, y. rewrite I2. split; [apply Hf; [exact (A w Hw Lx)|exact Fh]|exact R].
  - exact I.
  - intros x c Hx Lx Hc Tc. apply in_upd_wop' in Hx. destruct Hx as [[Hx _]| ->]; [exact (J x c Hx Lx Hc Tc)|].
    rewrite I5. apply (J w c Hw); [congruence|exact Hc|congruence].
  - intros x Hx. apply in_upd_wop' in Hx. destruct Hx as [[Hx _]| ->]; [exact (K x Hx)|]. rewrite I4. exact (K w Hw).
  - exact L.
  - exact M.
Qed.

(* ------------------------------------------------------------------ pool and cache *)
Lemma fenced_pool_ext st st' tk h :
  s_reps st' = s_reps st -> (forall e, held st' tk e -> held st tk e) ->
  (forall pe, In pe (s_pool st') -> In pe (s_pool st) \/
     (k_kind (p_rpc pe) = K_Write -> rpc_tk (p_rpc pe) = tk -> exists e, held st tk e /\ usable e /\ k_ver (p_rpc pe) = ce_ver e)) ->
  fenced st tk h -> fenced st' tk h.
Proof.
  intros Hr Hh Hp [rep [A [B C]]]. exists rep. rewrite Hr. split; [exact A|]. split.
  - intros e He U. exact (B e (Hh e He) U).
  - intros pe Hpe K T. destruct (Hp pe Hpe) as [Q|Q]; [exact (C pe Q K T)|].
    destruct (Q K T) as [e [He [U V]]]. rewrite V. exact (proj2 (B e He U)).
Qed.

Lemma FInv_issue_gen st r o :
  FInv st ->
  (k_kind r = K_Write -> (forall w, In w (s_wops st) -> wo_op w = o -> rpc_tk r = w_tk w) /\
                         exists e, held st (rpc_tk r) e /\ usable e /\ k_ver r = ce_ver e) ->
  FInv (issue st r o).
Proof.
  intros HI Hr. destruct HI as [A B C D E F G I J K L M].
  assert (Hf: forall tk h, fenced st tk h -> fenced (issue st r o) tk h).
  { intros tk h. apply fenced_pool_ext; [reflexivity|auto|]. intros pe Hpe. cbn [s_pool issue set_pool] in Hpe.
    apply in_app_or in Hpe. destruct Hpe as [Hpe|[<-|[]]]; [left; exact Hpe|right]. cbn [p_rpc]. intros Kw T.
    destruct (Hr Kw) as [_ Q]. rewrite T in Q. exact Q. }
  constructor; cbn [s_wops s_pool s_commits s_acked s_att issue set_pool]; try assumption.
  - intros pe w Hpe Kw Hw Ow. apply in_app_or in Hpe. destruct Hpe as [Hpe|[<-|[]]]; [exact (E pe w Hpe Kw Hw Ow)|].
    cbn [p_rpc p_owner] in *. exact (proj1 (Hr Kw) w Hw Ow).
  - intros tk Ht. destruct (F tk Ht) as [h Fh]. exists h. auto.
  - intros w Hw Lw P3. destruct (G w Hw Lw P3) as [h [x [Fh R]]]. exists h, x. auto.
Qed.

Lemma FInv_issue_nw st r o : FInv st -> k_kind r <> K_Write -> FInv (issue st r o).
Proof. intros HI H. apply FInv_issue_gen; [exact HI|]. intros K. contradiction. Qed.

Lemma FInv_cache_put st cli tk e :
  FInv st -> (usable e -> held st tk e \/ ~ has_rs st tk) -> FInv (set_cache st (cache_put (s_cache st) cli tk e)).
Proof.
  intros HI Ce. destruct HI as [A B C D E F G I J K L M].
  assert (Hf: forall tk0 h, has_rs st tk0 -> fenced st tk0 h -> fenced (set_cache st (cache_put (s_cache st) cli tk e)) tk0 h).
  { intros tk0 h Rs [rep [R1 [R2 R3]]]. exists rep. split; [exact R1|]. split; [|exact R3].
    intros e0 [[c H]|H] U; [|apply R2; [right; exact H|exact U]].
    cbn [s_cache set_cache set_cli] in H. destruct H as [H|H].
    - injection H as _ <- <-. destruct (Ce U) as [Q|Q]; [apply R2; assumption|contradiction].
    - apply filter_In in H. apply R2; [left; exists c; tauto|exact U]. }
  constructor; cbn [s_wops s_pool s_commits s_acked s_att set_cache set_cli]; try assumption.
  - intros tk0 Ht. destruct (F tk0 Ht) as [h Fh]. exists h. apply Hf; assumption.
  - intros w Hw Lw P3. destruct (G w Hw Lw P3) as [h [x [Fh R]]]. exists h, x. split; [apply Hf; [exact (A w Hw Lw)|exact Fh]|exact R].
Qed.

Lemma FInv_finish_w st w n err :
  FInv st -> In w (s_wops st) -> (err = cl_NoError -> n = wo_len w -> wo_late w = false) -> FInv (finish_w st w n err).
Proof.
  intros HI Hw Hok. unfold finish_w.
  set (s1 := add_fin (set_wops st (del_wop (s_wops st) (wo_op w))) (wo_op w) n err).
  assert (B: FInv s1).
  { apply (FInv_shrink st s1 eq_refl eq_refl eq_refl eq_refl eq_refl); [intros x Hx; exact Hx|intros x Hx; exact Hx| |exact HI].
    intros x Hx. cbn in Hx. apply in_del_wop in Hx. exact Hx. }
  destruct ((err =? cl_NoError) && (n =? wo_len w)) eqn:E; [|exact B].
  apply andb_true_iff in E. destruct E as [E1 E2]. apply Z.eqb_eq in E1, E2. specialize (Hok E1 E2).
  assert (B2: FInv (set_ghost s1 ((w_tk w, mkw (wo_wid w) (wo_off w) (wo_len w)) :: s_acked s1) (s_att s1) (s_commits s1) (s_durlog s1))).
  { destruct B as [A B0 C D E F G I J K L M].
    assert (Hf: forall tk h, fenced s1 tk h -> fenced (set_ghost s1 ((w_tk w, mkw (wo_wid w) (wo_off w) (wo_len w)) :: s_acked s1) (s_att s1) (s_commits s1) (s_durlog s1)) tk h) by (intros tk h H; exact H).
    constructor; cbn [s_wops s_pool s_commits s_acked s_att set_ghost]; try assumption.
    - intros c tk x Hc [Hx|Hx] Tc; [|exact (I c tk x Hc Hx Tc)]. injection Hx as <- <-. cbn [w_id mkw Cluster.Model.w_id].
      exact (f_aw _ HI w c Hw Hok Hc (eq_sym Tc)).
    - intros x [<-|Hx]; [exact (f_at _ HI w Hw)|exact (M x Hx)]. }
  destruct (wo_late w && negb (use_cache st (wo_cli w))); [|exact B2].
  eapply FInv_pF; [|exact B2]. reflexivity.
Qed.

(* ------------------------------------------------------------------ client *)
Lemma in_upd_wop_self l w w' : In w l -> wo_op w = wo_op w' -> In w' (upd_wop l w').
Proof. intros H E. unfold upd_wop. apply in_map_iff. exists w. rewrite E, Z.eqb_refl. auto. Qed.

Lemma FInv_fold_writes w e (hs : list (Z * Z)) : forall st,
  FInv st -> In w (s_wops st) -> wo_entry w = Some e -> usable e ->
  FInv (fold_left (fun s '(h, _) => issue s (mk_write w h (ce_ver e)) (wo_op w)) hs st).
Proof.
  induction hs as [|[h k] hs IH]; intros st HI Hw He U; cbn [fold_left]; [exact HI|].
  apply IH; [|exact Hw|exact He|exact U]. apply FInv_issue_gen; [exact HI|]. intros _. split.
  - intros w2 Hw2 O2. change (rpc_tk (mk_write w h (ce_ver e))) with (w_tk w). exact (f_uniq _ HI w w2 Hw Hw2 (eq_sym O2)).
  - exists e. split; [right; exists w; auto|]. split; [exact U|reflexivity].
Qed.

Lemma noerr_m1 : -1 <> cl_NoError. Proof. vm_compute. discriminate. Qed.

Lemma FInv_w_after_entry fx st w e cached :
  fx14 fx = true -> FInv st -> In w (s_wops st) ->
  (usable e -> held st (w_tk w) e \/ ~ has_rs st (w_tk w)) ->
  FInv (w_after_entry fx st w e cached).
Proof.
  intros Hfx HI Hw Ce. unfold w_after_entry. rewrite Hfx. cbn [andb].
  destruct (ce_rs e || (Z.of_nat (length (ce_hosts e)) =? 0)) eqn:E1.
  { apply FInv_finish_w; [exact HI|exact Hw|]. intros K. exfalso. vm_compute in K. discriminate. }
  apply orb_false_iff in E1. destruct E1 as [E1 E2].
  destruct (existsb _ (ce_hosts e)).
  { apply FInv_finish_w; [exact HI|exact Hw|]. intros K. exfalso. vm_compute in K. discriminate. }
  destruct (ce_hosts e) as [|h0 hs0] eqn:Eh; [cbn in E2; discriminate|].
  assert (U: usable e) by (split; [exact E1|rewrite Eh; discriminate]).
  set (res' := map (fun '(h, _) => (h, -1)) (h0 :: hs0)).
  set (w' := w_set w 3 cached (wo_retry w) (Some e) res' 0).
  assert (Mr: map fst res' = map fst (h0 :: hs0)).
  { unfold res'. rewrite map_map. apply map_ext. intros [a b]. reflexivity. }
  assert (B: FInv (set_wops st (upd_wop (s_wops st) w'))).
  { apply (FInv_upd_wop st w w' HI Hw (same_ident_w_set _ _ _ _ _ _ _)).
    - cbn. discriminate.
    - intros _. exists e. split; [reflexivity|]. split; [exact U|]. cbn [wo_res w' w_set]. rewrite Eh. exact Mr.
    - cbn [wo_entry w' w_set]. intros e0 E0 _. injection E0 as <-. exact (Ce U).
    - intros Lw _. pose proof (f_rs _ HI w Hw Lw) as Rs. destruct (f_fence _ HI _ Rs) as [h Fh]. exists h, (-1).
      split; [exact Fh|]. split; [|exact noerr_m1]. cbn [wo_res w' w_set].
      destruct Fh as [rep [_ [Fb _]]]. destruct (Ce U) as [Q|Q]; [|contradiction]. destruct (Fb e Q U) as [Hin _].
      rewrite Eh in Hin. rewrite <- Mr in Hin. apply in_map_iff in Hin. destruct Hin as [[a b] [Ea Hab]]. cbn in Ea. subst a.
      unfold res' in Hab. apply in_map_iff in Hab. destruct Hab as [[c d] [Ec Hcd]]. injection Ec as E3 E4. subst c.
      unfold res'. apply in_map_iff. exists (h, d). auto. }
  apply (FInv_fold_writes w' e (h0 :: hs0)); [exact B| |reflexivity|exact U].
  cbn [s_wops set_wops set_cli]. apply (in_upd_wop_self _ w w' Hw). reflexivity.
Qed.

Lemma FInv_w_get fx st w : fx14 fx = true -> FInv st -> In w (s_wops st) -> FInv (w_get fx st w).
Proof.
  intros Hfx HI Hw. unfold w_get.
  destruct (if use_cache st (wo_cli w) then cache_get (s_cache st) (wo_cli w) (w_tk w) else None) as [e|] eqn:E.
  - apply FInv_w_after_entry; [exact Hfx|exact HI|exact Hw|]. intros _. left. left. exists (wo_cli w).
    destruct (use_cache st (wo_cli w)); [|discriminate]. apply cache_get_in. exact E.
  - apply FInv_issue_nw; [|vm_compute; discriminate].
    apply (FInv_upd_wop st w _ HI Hw (same_ident_w_set _ _ _ _ _ _ _)); cbn; try discriminate.
Qed.

Lemma first_bad_none l : first_bad l = None -> forall h e, In (h, e) l -> e = cl_NoError.
Proof.
  induction l as [|[a b] l IH]; cbn; [intros _ h e []|]. destruct (b =? cl_NoError) eqn:E; [|discriminate].
  intros H h e [K|K]; [injection K as _ <-; apply Z.eqb_eq; exact E|exact (IH H h e K)].
Qed.
Lemma first_bad_some l h e : first_bad l = Some (h, e) -> e <> cl_NoError.
Proof.
  induction l as [|[a b] l IH]; cbn; [discriminate|]. destruct (b =? cl_NoError) eqn:E; [exact IH|].
  intros K. injection K as _ <-. apply Z.eqb_neq. exact E.
Qed.

Definition en_okF (st : state) (r : rpc) (en : option centry) : Prop :=
  forall e, en = Some e -> usable e -> ~ has_rs st (tkey (k_blob r) (nth 0 (Cluster.Model.k_aux r) 0)).
Lemma en_okF_none st r : en_okF st r None. Proof. intros e H. discriminate. Qed.

Definition wbad (st : state) (pe : pent) (res : list Z) : Prop :=
  k_kind (p_rpc pe) = K_Write -> hd cl_ErrRPC res = cl_NoError ->
  forall h, fenced st (rpc_tk (p_rpc pe)) h -> h <> k_ts (p_rpc pe).

Lemma FInv_rm st pe : FInv st -> FInv (rm_pool st pe).
Proof.
  intros HI. apply (FInv_shrink st (rm_pool st pe) eq_refl eq_refl eq_refl eq_refl eq_refl); [auto| |auto|exact HI].
  intros x Hx. cbn in Hx. apply in_pool_remove in Hx. tauto.
Qed.

Lemma fenced_rm st pe tk h : fenced st tk h -> fenced (rm_pool st pe) tk h.
Proof.
  apply fenced_mono; [auto| |intros rep R; exists rep; split; [exact R|lia]].
  intros x Hx. cbn in Hx. apply in_pool_remove in Hx. tauto.
Qed.

Lemma held_rm st pe tk e : held (rm_pool st pe) tk e <-> held st tk e.
Proof. unfold held. cbn. tauto. Qed.
Lemma has_rs_rm st pe tk : has_rs (rm_pool st pe) tk <-> has_rs st tk.
Proof. unfold has_rs, dget. cbn. tauto. Qed.

Lemma FInv_cli_reply fx st pe res en :
  fx14 fx = true -> FInv st -> In pe (s_pool st) -> en_okF st (p_rpc pe) en -> wbad st pe res ->
  FInv (cli_reply fx (rm_pool st pe) (p_owner pe) (p_rpc pe) res en).
Proof.
  intros Hfx HI0 Hpe Hen Hbad. pose proof (FInv_rm st pe HI0) as HI. set (st1 := rm_pool st pe) in *. set (r := p_rpc pe) in *.
  unfold cli_reply. destruct (find_wop (s_wops st1) (p_owner pe)) as [w|] eqn:Fw; [|exact HI].
  apply find_wop_in in Fw. destruct Fw as [Hw Ow].
  destruct (k_kind r =? K_StatBlob).
  { destruct (negb (wo_phase w =? 1)); [exact HI|].
    destruct (negb (hd cl_ErrRPC res =? cl_NoError)) eqn:Ee.
    - destruct (wo_retry w).
      + apply FInv_issue_nw; [|vm_compute; discriminate].
        apply (FInv_upd_wop st1 w _ HI Hw (same_ident_w_set _ _ _ _ _ _ _)); cbn; try discriminate.
      + apply FInv_finish_w; [exact HI|exact Hw|]. intros K. rewrite K, Z.eqb_refl in Ee. discriminate.
    - destruct (negb (nth 2 res 0 =? c14_ClassREPLICATED)); [apply FInv_finish_w; [exact HI|exact Hw|intros K; exfalso; vm_compute in K; discriminate]|].
      destruct (nth 1 res 0 <=? wo_tract w); [apply FInv_finish_w; [exact HI|exact Hw|intros K; exfalso; vm_compute in K; discriminate]|].
      apply FInv_w_get; assumption. }
  destruct (k_kind r =? K_GetTracts).
  { destruct ((wo_phase w =? 2) && (k_blob r =? wo_blob w) && (nth 0 (Cluster.Model.k_aux r) 0 =? wo_tract w)) eqn:G; cbn [negb]; [|exact HI].
    apply andb_true_iff in G. destruct G as [G G3]. apply andb_true_iff in G. destruct G as [_ G2]. apply Z.eqb_eq in G2, G3.
    destruct (negb (hd cl_ErrRPC res =? cl_NoError)) eqn:Ee.
    { apply FInv_finish_w; [exact HI|exact Hw|]. intros K. rewrite K, Z.eqb_refl in Ee. discriminate. }
    destruct en as [e|]; [|apply FInv_finish_w; [exact HI|exact Hw|intros K; exfalso; vm_compute in K; discriminate]].
    assert (Ce: usable e -> held st1 (w_tk w) e \/ ~ has_rs st1 (w_tk w)).
    { intros U. right. intros Rs. pose proof (proj1 (has_rs_rm st pe _) Rs) as Rs'. apply (Hen e eq_refl U). unfold w_tk in Rs'. rewrite G2, G3. exact Rs'. }
    destruct (use_cache st1 (wo_cli w)).
    - apply FInv_w_after_entry; [exact Hfx|apply FInv_cache_put; [exact HI|exact Ce]|exact Hw|].
      intros _. left. left. exists (wo_cli w). cbn. left. reflexivity.
    - apply FInv_w_after_entry; assumption. }
  destruct (k_kind r =? K_Write) eqn:Kw.
  { apply Z.eqb_eq in Kw. destruct (negb (wo_phase w =? 3)) eqn:P3; [exact HI|]. apply negb_false_iff, Z.eqb_eq in P3.
    set (res' := map (fun '(h, e) => if (h =? k_ts r) && (e =? -1) then (h, hd cl_ErrRPC res) else (h, e)) (wo_res w)).
    set (w' := w_set w 3 (wo_cached w) (wo_retry w) (wo_entry w) res' 0).
    assert (Mr: map fst res' = map fst (wo_res w)).
    { unfold res'. rewrite map_map. apply map_ext. intros [a b]. destruct ((a =? k_ts r) && (b =? -1)); reflexivity. }
    destruct (f_p3 _ HI w Hw P3) as [e0 [En [U0 Hm]]].
    assert (Late': wo_late w = true -> exists h x, fenced st1 (w_tk w) h /\ In (h, x) res' /\ x <> cl_NoError).
    { intros Lw. destruct (f_late _ HI0 w Hw Lw P3) as [h [x [Fh [Hx Nx]]]].
      assert (Tk: rpc_tk r = w_tk w) by (exact (f_wr _ HI0 pe w Hpe Kw Hw Ow)).
      exists h. destruct ((h =? k_ts r) && (x =? -1)) eqn:Rep.
      - exists (hd cl_ErrRPC res). split; [apply fenced_rm; exact Fh|]. split.
        + unfold res'. apply in_map_iff. exists (h, x). rewrite Rep. auto.
        + intros K. apply andb_true_iff in Rep. destruct Rep as [Rep _]. apply Z.eqb_eq in Rep.
          apply (Hbad Kw K h); [unfold r in Tk; rewrite Tk; exact Fh|exact Rep].
      - exists x. split; [apply fenced_rm; exact Fh|]. split; [|exact Nx].
        unfold res'. apply in_map_iff. exists (h, x). rewrite Rep. auto. }
    assert (HI1: FInv (set_wops st1 (upd_wop (s_wops st1) w'))).
    { apply (FInv_upd_wop st1 w w' HI Hw (same_ident_w_set _ _ _ _ _ _ _)).
      - cbn. discriminate.
      - intros _. exists e0. split; [exact En|]. split; [exact U0|]. cbn [wo_res w' w_set]. rewrite Mr. exact Hm.
      - cbn [wo_entry w' w_set]. intros e E _. left. right. exists w. auto.
      - intros Lw _. exact (Late' Lw). }
    assert (Hw': In w' (s_wops (set_wops st1 (upd_wop (s_wops st1) w')))).
    { cbn [s_wops set_wops set_cli]. apply (in_upd_wop_self _ w w' Hw). reflexivity. }
    destruct (existsb (fun '(_, e) => e =? -1) res') eqn:Pend; [exact HI1|].
    destruct (first_bad res') as [[h e]|] eqn:Fb.
    - pose proof (first_bad_some _ _ _ Fb) as Ne.
      destruct (wo_cached w).
      + set (s1' := set_wops st1 (upd_wop (s_wops st1) w')) in *.
        set (s2 := set_cache s1' (cache_inval (s_cache s1') (wo_cli w) (wo_blob w))).
        assert (HI2: FInv s2).
        { apply (FInv_shrink s1' s2 eq_refl eq_refl eq_refl eq_refl eq_refl); [|auto|auto|exact HI1].
          intros x Hx. cbn in Hx. unfold cache_inval in Hx. apply filter_In in Hx. tauto. }
        apply FInv_issue_nw; [|vm_compute; discriminate].
        apply (FInv_upd_wop s2 w' _ HI2 Hw' (same_ident_w_set _ _ _ _ _ _ _)); cbn; discriminate.
      + destruct (e =? cl_ErrRPC) eqn:E1.
        * apply FInv_issue_nw; [|vm_compute; discriminate].
          match goal with |- FInv (set_wops ?s (upd_wop _ ?x)) => apply (FInv_upd_wop s w' x HI1 Hw') end; cbn; try discriminate; try (repeat split).
          -- intros _. exact Ne.
          -- intros e1 E1' _. left. right. exists w'. auto.
        * destruct (e =? cl_ErrVersionMismatch).
          -- apply FInv_issue_nw; [|vm_compute; discriminate].
             match goal with |- FInv (set_wops ?s (upd_wop _ ?x)) => apply (FInv_upd_wop s w' x HI1 Hw') end; cbn; try discriminate; try (repeat split).
             ++ intros _. exact Ne.
             ++ intros e1 E1' _. left. right. exists w'. auto.
          -- apply FInv_finish_w; [exact HI1|exact Hw'|]. intros K. contradiction.
    - apply FInv_finish_w; [exact HI1|exact Hw'|]. intros _ _. cbn [wo_late w' w_set].
      destruct (wo_late w) eqn:Lw; [|reflexivity]. exfalso.
      destruct (Late' eq_refl) as [h [x [_ [Hx Nx]]]]. exact (Nx (first_bad_none _ Fb h x Hx)). }
  destruct (negb (wo_phase w =? 4)) eqn:P4; [exact HI|]. apply negb_false_iff, Z.eqb_eq in P4.
  apply FInv_finish_w; [exact HI|exact Hw|]. intros K. exfalso. exact (f_p4 _ HI w Hw P4 K).
Qed.

(* ------------------------------------------------------------------ fixVersion *)
Definition pF7 (st : state) := (s_wops st, s_cache st, s_pool st, s_reps st, s_commits st, s_acked st, s_att st).

Lemma FInv_hasrs st st' : pF7 st' = pF7 st -> (forall tk, has_rs st' tk <-> has_rs st tk) -> FInv st -> FInv st'.
Proof.
  unfold pF7. intros H Hrs HI. injection H as H1 H2 H3 H5 H6 H7 H8.
  assert (Hh: forall tk e, held st' tk e <-> held st tk e) by (intros tk e; unfold held; rewrite H1, H2; tauto).
  assert (Hf: forall tk h, fenced st' tk h <-> fenced st tk h).
  { intros tk h. unfold fenced. rewrite H5, H3. split; intros [rep [A [B C]]]; exists rep; (split; [exact A|]); (split; [|exact C]);
      intros e He; apply B; apply Hh; exact He. }
  destruct HI as [A B C D E F G I J K L M].
  constructor; rewrite ?H1, ?H3, ?H6, ?H7, ?H8; try assumption.
  - intros w Hw Lw. apply Hrs. auto.
  - intros tk Ht. apply Hrs in Ht. destruct (F tk Ht) as [h Fh]. exists h. apply Hf. exact Fh.
  - intros w Hw Lw P3. destruct (G w Hw Lw P3) as [h [x [Fh R]]]. exists h, x. split; [apply Hf; exact Fh|exact R].
  - intros c Hc. apply Hrs. auto.
Qed.

Lemma FInv_set_fix st l n : FInv st -> FInv (set_fix st l n).
Proof. intros H. eapply FInv_pF; [|exact H]. reflexivity. Qed.

Lemma FInv_finish_fix fx st f e : fx14 fx = true -> FInv st -> fixrpc_ok st f -> FInv (finish_fix fx st f e).
Proof.
  intros Hfx HI [_ [_ Fk]]. unfold finish_fix.
  assert (B: FInv (set_fixes st (del_fix (s_fix st) (f_id f)))) by (apply FInv_set_fix; exact HI).
  destruct (f_rpc f =? 0); [exact B|].
  destruct (find _ _) as [pe|] eqn:Fp; [|exact B].
  apply find_some in Fp. destruct Fp as [Pin Pid]. apply Z.eqb_eq in Pid. cbn [s_pool set_fixes set_fix] in Pin.
  change (set_pool (set_fixes st (del_fix (s_fix st) (f_id f))) (pool_remove (s_pool (set_fixes st (del_fix (s_fix st) (f_id f)))) (p_id pe)) (s_next (set_fixes st (del_fix (s_fix st) (f_id f)))))
    with (rm_pool (set_fixes st (del_fix (s_fix st) (f_id f))) pe).
  apply FInv_cli_reply; [exact Hfx|exact B|exact Pin|apply en_okF_none|].
  intros Kw. exfalso. rewrite (Fk pe Pin Pid) in Kw. vm_compute in Kw. discriminate.
Qed.

Lemma FInv_fold_issue_nw {A} (l : list A) (g : A -> rpc) o : (forall x, k_kind (g x) <> K_Write) ->
  forall st, FInv st -> FInv (fold_left (fun s x => issue s (g x) o) l st).
Proof. intros Hg. induction l; intros st H; cbn; [exact H|]. apply IHl. apply FInv_issue_nw; auto. Qed.

Lemma FInv_activate_fix fx st f : fx14 fx = true -> FInv st -> fixrpc_ok st f -> FInv (activate_fix fx st f).
Proof.
  intros Hfx HI Fk. unfold activate_fix.
  destruct (dget st (f_tk f)) as [d|]; [|apply FInv_finish_fix; assumption].
  destruct (d_rs d); [apply FInv_finish_fix; assumption|].
  repeat match goal with |- context [if ?b then _ else _] => destruct b end; try (apply FInv_finish_fix; assumption).
  apply FInv_fold_issue_nw; [intros; vm_compute; discriminate|]. apply FInv_set_fix. exact HI.
Qed.

Lemma FInv_wake fx n : fx14 fx = true -> forall st, FInv st -> RInv fx st -> FInv (wake fx n st).
Proof.
  intros Hfx. induction n; intros st HI HR; cbn [wake]; [exact HI|].
  destruct (find _ _) as [f|] eqn:Ff; [|exact HI]. apply find_some in Ff. destruct Ff as [Fin _].
  apply IHn; [apply FInv_activate_fix; [exact Hfx|exact HI|eapply fixrpc_ok_in; eauto]|apply RInv_activate_fix; assumption].
Qed.

Lemma FInv_start_fix fx st g tk c b rid : fx14 fx = true -> FInv st -> RInv fx st ->
  (rid < s_next st /\ forall pe, In pe (s_pool st) -> p_id pe = rid -> k_kind (p_rpc pe) = K_FixVersion) ->
  FInv (start_fix fx st g tk c b rid).
Proof.
  intros Hfx HI HR Hr. unfold start_fix.
  set (f := {| f_id := - (s_nfix st + 1); f_gen := g; f_term := s_term st; f_tk := tk; f_phase := 0; f_cliver := c;
               f_badts := b; f_dv := 0; f_hosts := []; f_wait := 0; f_rpc := rid |}).
  pose proof (rv_nfix _ _ HR) as Hn.
  assert (Fk: fixrpc_ok st f) by (split; [cbn; lia|exact Hr]).
  set (s1 := set_fix st (s_fix st ++ [f]) (s_nfix st + 1)).
  assert (B: FInv s1) by (apply FInv_set_fix; exact HI).
  assert (BR: RInv fx s1).
  { apply RInv_set_fix; [exact HR|lia|]. intros x Hx. apply in_app_or in Hx.
    destruct Hx as [Hx|[Hx|[]]]; [eapply fixrpc_ok_in; eauto|subst x; exact Fk]. }
  assert (Fk1: fixrpc_ok s1 f) by (eapply fixrpc_ok_same; [| |exact Fk]; reflexivity).
  destruct (negb _); apply FInv_wake; try assumption.
  - apply FInv_finish_fix; assumption.
  - apply RInv_finish_fix; assumption.
Qed.

Lemma has_rs_change_tract st term tk ver hosts tk0 :
  has_rs (fst (change_tract st term tk ver hosts)) tk0 <-> has_rs st tk0.
Proof.
  unfold change_tract. destruct (negb (term =? s_term st)); [tauto|].
  destruct (dget st tk) as [d|] eqn:D; [|tauto]. destruct (negb _); [tauto|]. destruct (negb _); [tauto|].
  cbn [fst]. unfold has_rs, dget. cbn [s_dtr set_dtr set_dur]. rewrite tget_tset.
  destruct (tk_eqb tk0 tk) eqn:E; [|tauto]. apply tk_eqb_eq in E. subst tk0. unfold dget in D. rewrite D.
  split; intros [d0 [H1 H2]]; injection H1 as <-; eexists; split; try reflexivity; exact H2.
Qed.

Lemma FInv_fix_reply fx st id err : fx14 fx = true -> FInv st -> RInv fx st -> FInv (fix_reply fx st id err).
Proof.
  intros Hfx HI HR. unfold fix_reply. destruct (find_fix _ _) as [f|] eqn:Ff; [|exact HI].
  pose proof (find_fix_in _ _ _ Ff) as Fin. pose proof (fixrpc_ok_in fx st f HR Fin) as Fk.
  destruct (negb _).
  { apply FInv_wake; [exact Hfx|apply FInv_finish_fix; assumption|apply RInv_finish_fix; assumption]. }
  destruct (1 <? f_wait f); [apply FInv_set_fix; exact HI|].
  pose proof (fr_change_tract _ pF7 ltac:(fr) st (f_term f) (f_tk f) (f_dv f + 1) (f_hosts f)) as Q7.
  pose proof (fr_change_tract _ pR ltac:(fr) st (f_term f) (f_tk f) (f_dv f + 1) (f_hosts f)) as QR.
  pose proof (fr_change_tract _ s_reps ltac:(fr) st (f_term f) (f_tk f) (f_dv f + 1) (f_hosts f)) as Qr.
  pose proof (has_rs_change_tract st (f_term f) (f_tk f) (f_dv f + 1) (f_hosts f)) as Qh.
  destruct (change_tract _ _ _ _ _) as [st1 e]. cbn [fst] in *.
  assert (B: FInv st1) by (eapply FInv_hasrs; eauto).
  assert (BR: RInv fx st1) by (eapply RInv_same; eauto).
  assert (Fk1: fixrpc_ok st1 f).
  { unfold pR in QR. injection QR as Q1 Q3 _ _ _ _. eapply fixrpc_ok_same; eauto. }
  apply FInv_wake; [exact Hfx|apply FInv_finish_fix; assumption|apply RInv_finish_fix; assumption].
Qed.

(* ------------------------------------------------------------------ rounds: FInv does not look at them *)
Lemma FInv_issue_all_nw rs : (forall rp o, In (rp, o) rs -> k_kind rp <> K_Write) -> forall st, FInv st -> FInv (issue_all st rs).
Proof.
  induction rs as [|[rp o] rs IH]; intros H st HI; cbn [issue_all fold_left]; [exact HI|].
  apply IH; [intros a b Hab; apply (H a b); right; exact Hab|]. apply FInv_issue_nw; [exact HI|apply (H rp o); left; reflexivity].
Qed.

Lemma FInv_set_rounds st l : FInv st -> FInv (set_rounds st l).
Proof. intros H. eapply FInv_pF; [|exact H]. reflexivity. Qed.

Lemma FInv_round_check_over st r : FInv st -> FInv (round_check_over st r).
Proof. intros H. eapply FInv_pF; [|exact H]. apply (fr_round_check_over _ pF); fr. Qed.

Lemma FInv_round_after_stats st r : FInv st -> FInv (round_after_stats st r).
Proof.
  intros H. unfold round_after_stats. destruct (_ =? 0); [apply FInv_round_check_over; exact H|].
  apply FInv_issue_nw; [apply FInv_set_rounds; exact H|vm_compute; discriminate].
Qed.

Lemma FInv_cleanup st g e : FInv st -> FInv (cleanup st g e).
Proof.
  intros H. rewrite cleanup_issue_all. apply FInv_issue_all_nw; [|exact H].
  intros rp o Hin. assert (G: forall hosts i, In (rp, o) (gc_list g (e_base e) i hosts) -> k_kind rp <> K_Write).
  { induction hosts as [|h t IH]; intros i; cbn; [intros []|]. intros [K|K]; [injection K as <- _; vm_compute; discriminate|eauto]. }
  eapply G; eauto.
Qed.

Lemma FInv_enc_finish st r e ok : FInv st -> FInv (enc_finish st r e ok).
Proof. intros H. unfold enc_finish. apply FInv_round_check_over. destruct ok; [exact H|apply FInv_cleanup; exact H]. Qed.

Lemma FInv_alloc_reply st r err base want hint : FInv st -> FInv (alloc_reply st r err base want hint).
Proof.
  intros H. unfold alloc_reply. destruct (negb _); [apply FInv_round_check_over; exact H|]. cbv zeta.
  match goal with |- context [if negb ?v then _ else _] => destruct (negb v) end.
  { eapply FInv_pF; [|exact H]. reflexivity. }
  apply FInv_round_check_over. rewrite pack_list_fold. apply FInv_issue_all_nw; [|apply FInv_set_rounds; exact H].
  intros rp o Hin. unfold pack_list in Hin. apply in_flat_map in Hin. destruct Hin as [e [_ Hin]].
  destruct (packs_of_in _ _ _ _ 0 rp o ltac:(lia) Hin) as [_ [j [h [_ [-> _]]]]]. vm_compute. discriminate.
Qed.

Lemma FInv_round_reply fx st pe res hint :
  fx14 fx = true -> FInv st -> RInv fx st -> In pe (s_pool st) ->
  FInv (round_reply fx (rm_pool st pe) (p_owner pe) (p_rpc pe) res hint).
Proof.
  intros Hfx HI0 HR Hpe. pose proof (FInv_rm st pe HI0) as HI. set (st1 := rm_pool st pe) in *. set (rp := p_rpc pe) in *.
  unfold round_reply. change (s_rounds st1) with (s_rounds st). destruct (find_round (s_rounds st) (p_owner pe)) as [r|] eqn:Fr; [|exact HI].
  pose proof (find_round_in _ _ _ Fr) as Hr. pose proof (find_round_op _ _ _ Fr) as Ho. symmetry in Ho.
  assert (U: forall ph tr encs dn, FInv (set_rounds st1 (upd_round (s_rounds st1) (rd_set r ph tr encs dn)))) by (intros; apply FInv_set_rounds; exact HI).
  destruct (k_kind rp =? K_CtlStat) eqn:K1.
  { apply Z.eqb_eq in K1. unfold stat_reply.
    destruct (find_ptr (rd_tracts r) (tkey (k_blob rp) (k_tract rp))) as [p|] eqn:Fp; [|exact HI].
    set (vmh := if hd cl_ErrRPC res =? cl_ErrVersionMismatch then k_ts rp else pt_vmh p).
    match goal with |- context [match pt_next ?x with _ => _ end] => set (p1 := x) end.
    assert (T1: pt_tk p1 = rpc_tk rp).
    { unfold p1. repeat match goal with |- context [if ?b then _ else _] => destruct b end; cbn; apply (find_ptr_tk _ _ _ Fp). }
    destruct (pt_next p1) as [|h' l']; [|apply FInv_issue_nw; [apply U|vm_compute; discriminate]].
    set (p2 := pt_set p1 (pt_len p1) [] (pt_stamps p1) vmh true).
    assert (Ph: rd_phase r = 1).
    { destruct (ri_exp _ _ _ (rv_rounds _ _ HR r Hr) pe Hpe Ho) as [[_ [P _]]|[[K2 _]|[_ [e [_ [K3 _]]]]]]; [exact P| |].
      - fold rp in K2. rewrite K1 in K2. vm_compute in K2. discriminate.
      - exfalso. fold rp in K3. rewrite K1 in K3. destruct (stage_kind_not_stat (e_stage e)) as [N _]. exact (N (eq_sym K3)). }
    pose proof (rr_stat_mid fx st pe r p p2 (rd_done r) HR Hpe Ho Hr K1 Ph Fp T1) as BR.
    match goal with |- FInv (if _ then round_after_stats ?s2 _ else _) => assert (B2: FInv s2) end.
    { destruct ((pt_len p2 <? 0) && negb (vmh =? 0)); [|apply U].
      apply FInv_start_fix; [exact Hfx|apply U|exact BR|].
      split; [exact (rv_next _ _ BR)|]. intros x Hx Hid. pose proof (rv_ids _ _ BR x Hx). lia. }
    destruct (all_stats_done _); [apply FInv_round_after_stats; exact B2|exact B2]. }
  destruct (k_kind rp =? K_Alloc); [apply FInv_alloc_reply; exact HI|].
  destruct (k_kind rp =? K_PackTracts).
  { destruct (find_enc_chunk _ _) as [e|]; [|exact HI]. cbv zeta.
    destruct (0 <? _); [apply U|]. destruct (negb _); [apply FInv_enc_finish; exact HI|].
    apply FInv_issue_nw; [apply U|vm_compute; discriminate]. }
  destruct (k_kind rp =? K_RSEncode).
  { destruct (find_enc_chunk _ _) as [e|]; [|exact HI]. destruct (negb _); [apply FInv_enc_finish; exact HI|]. cbv zeta.
    rewrite fold_issue_sv. apply FInv_issue_all_nw; [|apply U].
    intros r0 o Hin. destruct (sv_list_in _ _ _ _ _ Hin) as [_ [tk [h [s [nv [_ ->]]]]]]. vm_compute. discriminate. }
  destruct (k_kind rp =? K_SetVersion).
  { destruct (find_enc_tract _ _) as [e|]; [|exact HI]. cbv zeta.
    destruct (0 <? _); [apply U|]. destruct (negb _); [apply FInv_enc_finish; exact HI|].
    apply FInv_issue_nw; [apply U|vm_compute; discriminate]. }
  destruct (k_kind rp =? K_Commit).
  { destruct (find_enc_chunk _ _) as [e|]; [|exact HI]. apply FInv_enc_finish; exact HI. }
  exact HI.
Qed.

(* ------------------------------------------------------------------ CommitRSChunk *)
Definition commit_tracts (rd : round) (eo : encop) : list (tkt * Z * Z * Z * Z) :=
  fst (fold_left (fun '(acc, i) '(tk', off, len) =>
                    (acc ++ [(tk', off, len, match find_ptr (rd_tracts rd) tk' with Some p => pt_ver p + 1 | None => 0 end, i)], i + 1))
                 (e_chunks eo) ([], 0)).

Lemma commit_tracts_in rd eo tk off len nv i : In (tk, off, len, nv, i) (commit_tracts rd eo) ->
  In (tk, off, len) (e_chunks eo) /\ nv = match find_ptr (rd_tracts rd) tk with Some p => pt_ver p + 1 | None => 0 end.
Proof.
  unfold commit_tracts.
  assert (G: forall l acc i0, In (tk, off, len, nv, i)
              (fst (fold_left (fun '(acc, i) '(tk', off, len) =>
                    (acc ++ [(tk', off, len, match find_ptr (rd_tracts rd) tk' with Some p => pt_ver p + 1 | None => 0 end, i)], i + 1)) l (acc, i0))) ->
              In (tk, off, len, nv, i) acc \/ (In (tk, off, len) l /\ nv = match find_ptr (rd_tracts rd) tk with Some p => pt_ver p + 1 | None => 0 end)).
  { induction l as [|[[a b] c] l IH]; intros acc i0 H; cbn [fold_left fst] in H; [left; exact H|].
    destruct (IH _ _ H) as [K|[K1 K2]]; [|right; split; [right; exact K1|exact K2]].
    apply in_app_or in K. destruct K as [K|[K|[]]]; [left; exact K|]. injection K as -> -> -> <- _. right. split; [left; reflexivity|reflexivity]. }
  intros H. destruct (G _ _ _ H) as [[]|K]. exact K.
Qed.

Definition started_of (st : state) (tk : tkt) : list wrec := map snd (filter (fun '(tk', _) => tk_eqb tk tk') (s_att st)).

Lemma started_of_in st tk w : In (tk, w) (s_att st) -> wid_in (started_of st tk) (w_id w) = true.
Proof.
  intros H. unfold wid_in, started_of. apply existsb_exists. exists w. split; [|apply Z.eqb_refl].
  apply in_map_iff. exists (tk, w). split; [reflexivity|]. apply filter_In. split; [exact H|apply tk_eqb_refl].
Qed.

Lemma commit_ok_spec fx st op term base hosts tracts st1 :
  fx6 fx = true -> commit_rs fx st op term base hosts tracts = (st1, cl_NoError) ->
  pF7 st1 = (s_wops st, s_cache st, s_pool st, s_reps st, s_commits st1, s_acked st, s_att st) /\
  (forall c, In c (s_commits st1) -> In c (s_commits st) \/
     exists off len nv idx, In (c_tk c, off, len, nv, idx) tracts /\ c_started c = started_of st (c_tk c)) /\
  (forall tk, has_rs st1 tk <-> has_rs st tk \/ exists off len nv idx, In (tk, off, len, nv, idx) tracts).
Proof.
  intros Hfx H. pose proof (commit_checked fx st op term base hosts tracts st1 Hfx H) as [_ Hchk].
  unfold commit_rs in H. destruct (negb (term =? s_term st)); [exfalso; injection H as _ H; vm_compute in H; discriminate|].
  destruct (negb (commit_checks fx st tracts =? cl_NoError)) eqn:Ec; [exfalso; injection H as _ H; rewrite H in Ec; vm_compute in Ec; discriminate|].
  injection H as <-. split; [reflexivity|]. split.
  - cbn [s_commits set_ghost set_dtr set_dur]. intros c Hc. apply in_app_or in Hc. destruct Hc as [Hc|Hc]; [right|left; exact Hc].
    apply in_map_iff in Hc. destruct Hc as [[[[[tk off] len] nv] idx] [E Hin]]. subst c. cbn [c_tk c_started].
    exists off, len, nv, idx. split; [exact Hin|reflexivity].
  - intros tk. unfold has_rs, dget. cbn [s_dtr set_ghost set_dtr set_dur].
    match goal with |- context [fold_left ?f tracts (s_dtr st)] => set (F := f) end.
    assert (Q: forall l m,
      (forall x, In x l -> In x tracts) ->
      (forall tk0, (exists d, tget m tk0 = Some d /\ d_rs d <> None) <->
                   (exists d, tget (s_dtr st) tk0 = Some d /\ d_rs d <> None) \/ (exists off len nv idx, In (tk0, off, len, nv, idx) tracts /\ ~ In (tk0, off, len, nv, idx) l /\ True)) ->
      (forall tk0 d, tget (s_dtr st) tk0 = Some d -> exists d', tget m tk0 = Some d') -> True).
    { intros. exact I. }
    clear Q.
    assert (Ex: forall l m, (forall tk0 d, tget (s_dtr st) tk0 = Some d -> exists d', tget m tk0 = Some d') ->
                forall tk0 d, tget (s_dtr st) tk0 = Some d -> exists d', tget (fold_left F l m) tk0 = Some d').
    { induction l as [|[[[[a b] c] d0] e0] l IH]; intros m Hm; cbn [fold_left]; [exact Hm|]. apply IH.
      intros tk0 d H0. unfold F. destruct (tget m a) as [da|] eqn:Da; [|exact (Hm tk0 d H0)].
      rewrite tget_tset. destruct (tk_eqb tk0 a); [eauto|exact (Hm tk0 d H0)]. }
    assert (Fw: forall l m, (forall x, In x l -> In x tracts) ->
                (forall tk0 d, tget (s_dtr st) tk0 = Some d -> exists d', tget m tk0 = Some d') ->
                forall tk0, (exists d, tget (fold_left F l m) tk0 = Some d /\ d_rs d <> None) <->
                            (exists d, tget m tk0 = Some d /\ d_rs d <> None) \/ (exists off len nv idx, In (tk0, off, len, nv, idx) l)).
    { induction l as [|[[[[a b] c] d0] e0] l IH]; intros m Hl Hm tk0; cbn [fold_left].
      - split; [intros K; left; exact K|intros [K|[? [? [? [? []]]]]]; exact K].
      - assert (Hl': forall x, In x l -> In x tracts) by (intros x Hx; apply Hl; right; exact Hx).
        destruct (Hchk a b c d0 e0 (Hl _ (or_introl eq_refl))) as [da [Da _]]. destruct (Hm a da Da) as [dm Dm].
        assert (Hm': forall tk1 d, tget (s_dtr st) tk1 = Some d -> exists d', tget (F m (a, b, c, d0, e0)) tk1 = Some d').
        { intros tk1 d H1. unfold F. rewrite Dm, tget_tset. destruct (tk_eqb tk1 a); [eauto|exact (Hm tk1 d H1)]. }
        rewrite (IH _ Hl' Hm' tk0). unfold F at 1. rewrite Dm, tget_tset. destruct (tk_eqb tk0 a) eqn:E.
        + apply tk_eqb_eq in E. subst tk0. split; intros _; [right; exists b, c, d0, e0; left; reflexivity|].
          left. eexists. split; [reflexivity|cbn; discriminate].
        + split; (intros [K|[o [l0 [n [i K]]]]]; [left; exact K|right; exists o, l0, n, i]).
          * right. exact K.
          * destruct K as [K|K]; [injection K as -> _ _ _ _; rewrite tk_eqb_refl in E; discriminate|exact K]. }
    apply (Fw tracts (s_dtr st)); [auto|eauto].
Qed.

Lemma bump_list_intro fx r e tk o l p h s :
  In (tk, o, l) (e_chunks e) -> find_ptr (rd_tracts r) tk = Some p -> In h (pt_from p) -> zget (pt_stamps p) h = Some s ->
  In (tk, h, s, pt_ver p + 1) (bump_list fx r e).
Proof.
  intros Hc Fp Hh Hs. unfold bump_list. apply in_flat_map. exists (tk, o, l). split; [exact Hc|]. rewrite Fp.
  apply in_flat_map. exists h. split; [exact Hh|]. rewrite Hs. left. reflexivity.
Qed.

Lemma insert_sorted_in_conv x l y : y = x \/ In y l -> In y (Cluster.Model.insert_sorted x l).
Proof.
  induction l as [|a l IH]; cbn; [intros [->|[]]; left; reflexivity|].
  intros H. destruct (x <? a); [destruct H as [->|H]; [left; reflexivity|right; exact H]|].
  destruct (x =? a) eqn:E; [apply Z.eqb_eq in E; subst; destruct H as [->|H]; [left; reflexivity|exact H]|].
  destruct H as [->|[->|H]]; [right; apply IH; left; reflexivity|left; reflexivity|right; apply IH; right; exact H].
Qed.
Lemma in_sorted_hosts h l : In h l -> In h (sorted_hosts l).
Proof.
  unfold sorted_hosts. induction l as [|a l IH]; cbn; [intros []|]. intros [->|H]; apply insert_sorted_in_conv; [left; reflexivity|right; exact (IH H)].
Qed.

Lemma FInv_commit fx st pe rd eo st1 :
  fx6 fx = true -> FInv st -> DInv st -> RInv fx st -> TInv st -> In pe (s_pool st) -> k_kind (p_rpc pe) = K_Commit ->
  find_round (s_rounds st) (p_owner pe) = Some rd -> find_enc_chunk rd (aux_nth (p_rpc pe) 0) = Some eo ->
  commit_rs fx st (rd_op rd) (rd_term rd) (e_base eo) (e_hosts eo) (commit_tracts rd eo) = (st1, cl_NoError) ->
  FInv st1.
Proof.
  intros Hfx HI HD HR HT Hpe Kc Fr Fe Hc.
  destruct (commit_ok_spec _ _ _ _ _ _ _ _ Hfx Hc) as [P7 [Cs Rs]].
  pose proof (commit_checked _ _ _ _ _ _ _ _ Hfx Hc) as [_ Hchk].
  pose proof (find_round_in _ _ _ Fr) as Hr. pose proof (find_round_op _ _ _ Fr) as Ho. symmetry in Ho.
  pose proof (rv_rounds _ _ HR rd Hr) as R1. pose proof (HT rd Hr) as T1.
  destruct (find_enc_chunk_in _ _ _ Fe) as [Heo _].
  assert (S5: e_stage eo = 5).
  { destruct (ri_exp _ _ _ R1 pe Hpe Ho) as [[K _]|[[K _]|[_ [e' [A [K _]]]]]]; try (rewrite Kc in K; vm_compute in K; discriminate).
    unfold att_enc in A. rewrite Kc in A. change (K_Commit =? K_PackTracts) with false in A. change (K_Commit =? K_RSEncode) with false in A.
    change (K_Commit =? K_Commit) with true in A. cbn [orb] in A. unfold aux_nth in Fe. rewrite Fe in A. injection A as <-.
    assert (Kn: k_kind (p_rpc pe) <> -1) by (rewrite Kc; vm_compute; discriminate).
    destruct (stage_kind_cases _ _ K Kn) as [[_ Q]|[[_ Q]|[[_ Q]|[S Q]]]]; try (rewrite Kc in Q; vm_compute in Q; discriminate). exact S. }
  pose proof (ri_bumped _ _ _ R1 eo Heo S5) as AB.
  assert (Hh: e_hosts eo <> []) by (intros K; pose proof (ri_hosts _ _ _ R1 eo Heo K); lia).
  unfold pF7 in P7. injection P7 as P1 P2 P3 P5 P7a P8.
  assert (Hheld: forall tk e, held st1 tk e <-> held st tk e) by (intros tk e; unfold held; rewrite P1, P2; tauto).
  assert (Hfe: forall tk h, fenced st tk h -> fenced st1 tk h).
  { intros tk h [rep [A [B C]]]. exists rep. rewrite P5, P3. split; [exact A|]. split; [|exact C]. intros e He. apply B. apply Hheld. exact He. }
  (* the fence of a tract committed by this call *)
  assert (New: forall tk off len nv idx, In (tk, off, len, nv, idx) (commit_tracts rd eo) -> exists h, fenced st1 tk h).
  { intros tk off len nv idx Hin. destruct (commit_tracts_in _ _ _ _ _ _ _ Hin) as [Hch Env].
    destruct (t_elig _ T1 eo tk off len Heo Hh Hch) as [p [Fp Lp]]. rewrite Fp in Env.
    pose proof (find_ptr_in _ _ _ Fp) as Pin. pose proof (find_ptr_tk _ _ _ Fp) as Ptk.
    destruct (t_stamp _ T1 p Pin ltac:(lia)) as [h [Hfrom Hz]].
    destruct (zget (pt_stamps p) h) as [s|] eqn:Zs; [|contradiction].
    pose proof (AB tk h s (pt_ver p + 1) (bump_list_intro fx rd eo tk off len p h s Hch Fp Hfrom Zs)) as [rep [Rg Rv]].
    destruct (Hchk tk off len nv idx Hin) as [d [Dg [Dv Dr]]].
    destruct (dv_rounds _ HD rd p Hr Pin) as [d2 [D2 [_ Hincl]]]. rewrite Ptk in D2. unfold dget in Dg. rewrite Dg in D2. injection D2 as <-.
    exists h, rep. rewrite P5. split; [exact Rg|]. split.
    - intros e He [U1 U2]. apply Hheld in He.
      assert (Ok: ent_ok (s_dtr st) tk e).
      { destruct He as [[cli Hc0]|[w [Hw [Tw Ew]]]]; [exact (dv_cache _ HD cli tk e Hc0)|]. rewrite <- Tw. exact (dv_wops _ HD w e Hw Ew). }
      destruct Ok as [d3 [D3 [V3 H3]]]. rewrite Dg in D3. injection D3 as <-.
      split; [rewrite (H3 U1 Dr); apply in_sorted_hosts; exact (Hincl Dr h Hfrom)|lia].
    - rewrite P3. intros x Hx Kw Tx. destruct (dv_pool _ HD x Hx Kw) as [d3 [D3 V3]]. rewrite Tx, Dg in D3. injection D3 as <-. lia. }
  destruct HI as [A B C D E F G I J K L M].
  constructor; rewrite ?P1, ?P3, ?P7a, ?P8.
  - intros w Hw Lw. apply Rs. left. exact (A w Hw Lw).
  - exact B.
  - exact C.
  - exact D.
  - exact E.
  - intros tk Ht. apply Rs in Ht. destruct Ht as [Ht|[off [len [nv [idx Hin]]]]]; [destruct (F tk Ht) as [h Fh]; exists h; auto|eapply New; eauto].
  - intros w Hw Lw P3'. destruct (G w Hw Lw P3') as [h [x [Fh R]]]. exists h, x. auto.
  - intros c tk w Hc0 Ha Tc. destruct (Cs c Hc0) as [Old|[off [len [nv [idx [Hin Est]]]]]]; [exact (I c tk w Old Ha Tc)|].
    rewrite Est. subst tk. apply started_of_in. exact (M _ Ha).
  - intros w c Hw Lw Hc0 Tc. destruct (Cs c Hc0) as [Old|[off [len [nv [idx [Hin Est]]]]]]; [exact (J w c Hw Lw Old Tc)|].
    rewrite Est, Tc. exact (started_of_in st (w_tk w) (mkw (wo_wid w) (wo_off w) (wo_len w)) (K w Hw)).
  - exact K.
  - intros c Hc0. apply Rs. destruct (Cs c Hc0) as [Old|[off [len [nv [idx [Hin _]]]]]]; [left; exact (L c Old)|right; eauto].
  - exact M.
Qed.

(* ------------------------------------------------------------------ executing a call *)
Definition pF6 (st : state) := (s_dtr st, s_wops st, s_cache st, s_pool st, s_commits st, s_acked st, s_att st).
Lemma FInv_reps' st st' : pF6 st' = pF6 st -> srel st st' -> FInv st -> FInv st'.
Proof. unfold pF6. intros H. injection H as H1 H2 H3 H4 H5 H6 H7. apply FInv_reps; assumption. Qed.

Lemma commit_fail_same fx st op term base hosts tracts st1 c :
  commit_rs fx st op term base hosts tracts = (st1, c) -> c <> cl_NoError -> st1 = st.
Proof.
  unfold commit_rs. destruct (negb _); [intros H; injection H as <- _; reflexivity|].
  destruct (negb _); [intros H; injection H as <- _; reflexivity|]. intros H. injection H as _ <-. intros K. contradiction.
Qed.

Lemma FInv_exec fx st e extra : fx6 fx = true -> FInv st -> DInv st -> RInv fx st -> TInv st -> In e (s_pool st) ->
  FInv (st_of (exec_rpc fx st e extra)).
Proof.
  intros Hfx HI HD HR HT He. unfold exec_rpc, st_of.
  destruct (k_kind (p_rpc e) =? K_Write).
  { match goal with |- context [let '(a, b) := ?t in _] => destruct t as [s c] eqn:E end. cbn [fst].
    replace s with (fst (ts_write st (k_ts (p_rpc e)) (tkey (k_blob (p_rpc e)) (k_tract (p_rpc e))) (k_ver (p_rpc e)) (Cluster.Model.k_wid (p_rpc e)) (Cluster.Model.k_off (p_rpc e)) (Cluster.Model.k_len (p_rpc e)))) by (rewrite E; reflexivity).
    apply (FInv_reps' st); [apply (fr_ts_write _ pF6); fr|apply srel_ts_write|exact HI]. }
  destruct (k_kind (p_rpc e) =? K_SetVersion).
  { match goal with |- context [let '(a, b) := ?t in _] => destruct t as [s c] eqn:E end. cbn [fst].
    match type of E with ?t = _ => replace s with (fst t) by (rewrite E; reflexivity) end.
    apply (FInv_reps' st); [apply (fr_ts_setversion _ pF6); fr|apply srel_ts_setversion|exact HI]. }
  destruct (k_kind (p_rpc e) =? K_CtlStat). { destruct (ts_stat st _ _ _) as [[? ?] ?]. exact HI. }
  destruct (k_kind (p_rpc e) =? K_PackTracts).
  { match goal with |- context [let '(a, b) := ?t in _] => destruct t as [s c] eqn:E end. cbn [fst].
    match type of E with ?t = _ => replace s with (fst t) by (rewrite E; reflexivity) end.
    eapply FInv_pF; [|exact HI]. unfold ts_pack. destruct (negb _); [reflexivity|]. destruct (pack_items _ _ _); reflexivity. }
  destruct (k_kind (p_rpc e) =? K_RSEncode).
  { repeat match goal with |- context [match ?x with _ => _ end] => destruct x | |- context [if ?b then _ else _] => destruct b end;
      cbn [fst]; try exact HI. eapply FInv_pF; [|exact HI]. reflexivity. }
  destruct (k_kind (p_rpc e) =? K_GCTract).
  { destruct (negb _); cbn [fst]; [exact HI|]. eapply FInv_pF; [|exact HI]. reflexivity. }
  destruct (k_kind (p_rpc e) =? K_StatBlob). { destruct (Cluster.Model.zget _ _); exact HI. }
  destruct (k_kind (p_rpc e) =? K_GetTracts).
  { repeat match goal with |- context [match ?x with _ => _ end] => destruct x | |- context [if ?b then _ else _] => destruct b end; exact HI. }
  destruct (k_kind (p_rpc e) =? K_ReportBadTS). { exact HI. }
  destruct (k_kind (p_rpc e) =? K_Alloc).
  { destruct (find_round _ _) as [rd|]; cbn [fst]; [|exact HI].
    destruct (negb _); cbn [fst]; [exact HI|]. eapply FInv_pF; [|exact HI]. reflexivity. }
  destruct (k_kind (p_rpc e) =? K_Commit) eqn:Kc.
  { apply Z.eqb_eq in Kc. destruct (find_round (s_rounds st) (p_owner e)) as [rd|] eqn:Fr; cbn [fst]; [|exact HI].
    destruct (find_enc_chunk rd (aux_nth (p_rpc e) 0)) as [eo|] eqn:Fe; cbn [fst]; [|exact HI].
    change (fst (fold_left _ (e_chunks eo) ([], 0))) with (commit_tracts rd eo).
    destruct (commit_rs fx st (rd_op rd) (rd_term rd) (e_base eo) (e_hosts eo) (commit_tracts rd eo)) as [st1 c] eqn:Hc. cbn [fst].
    destruct (Z.eq_dec c cl_NoError) as [->|Nc].
    - exact (FInv_commit fx st e rd eo st1 Hfx HI HD HR HT He Kc Fr Fe Hc).
    - rewrite (commit_fail_same _ _ _ _ _ _ _ _ _ Hc Nc). exact HI. }
  exact HI.
Qed.

Lemma ts_write_ok_ver st ts tk ver wid off len st1 :
  ts_write st ts tk ver wid off len = (st1, cl_NoError) ->
  s_pool st1 = s_pool st /\ exists rep, rget (s_reps st1) (ts, tk) = Some rep /\ r_ver rep = ver.
Proof.
  unfold ts_write. destruct (rget (s_reps st) (ts, tk)) as [r0|] eqn:R0; [|intros H; injection H as _ H; exfalso; vm_compute in H; discriminate].
  destruct (stamp_of st ts tk) as [e c]. cbn [s_reps set_stamps set_store].
  unfold Cluster.Model.ts_write. rewrite R0. destruct (r_ver r0 =? ver) eqn:V.
  - intros H. injection H as <-. split; [reflexivity|]. cbn [s_reps set_reps set_stamps set_store]. rewrite rget_rset, rk_eqb_refl.
    eexists. split; [reflexivity|]. cbn. apply Z.eqb_eq. exact V.
  - intros H. injection H as _ H. exfalso. vm_compute in H. discriminate.
Qed.

Lemma exec_wbad fx st e extra : In e (s_pool st) -> wbad (st_of (exec_rpc fx st e extra)) e (res_of (exec_rpc fx st e extra)).
Proof.
  intros He Kw. unfold exec_rpc, st_of, res_of. rewrite Kw. change (K_Write =? K_Write) with true. cbv iota.
  match goal with |- context [ts_write ?a ?b ?c ?d ?e0 ?f ?g] => destruct (ts_write a b c d e0 f g) as [s1 c1] eqn:E end.
  cbn [fst snd hd]. intros C h Fh Eh. subst c1 h. destruct (ts_write_ok_ver _ _ _ _ _ _ _ _ E) as [Pp [rep [Rg Rv]]].
  destruct Fh as [rep' [Rg' [_ Pc]]]. unfold rpc_tk in Rg'. rewrite Rg in Rg'. injection Rg' as <-.
  assert (Hin: In e (s_pool s1)) by (rewrite Pp; exact He). specialize (Pc e Hin Kw eq_refl). lia.
Qed.

Lemma exec_en_okF fx st e extra : en_okF (st_of (exec_rpc fx st e extra)) (p_rpc e) (en_of (exec_rpc fx st e extra)).
Proof.
  pose proof (exec_en_ok fx st e extra) as H. intros en0 E [U1 _] Rs. rewrite (H en0 E Rs) in U1. discriminate.
Qed.

Lemma wbad_of_ver st pe res : In pe (s_pool st) ->
  (k_kind (p_rpc pe) = K_Write -> hd cl_ErrRPC res = cl_NoError ->
     exists rep, rget (s_reps st) (k_ts (p_rpc pe), rpc_tk (p_rpc pe)) = Some rep /\ r_ver rep = k_ver (p_rpc pe)) ->
  wbad st pe res.
Proof.
  intros Hpe H Kw C h Fh Eh. subst h. destruct (H Kw C) as [rep [Rg Rv]]. destruct Fh as [rep' [Rg' [_ Pc]]].
  rewrite Rg in Rg'. injection Rg' as <-. specialize (Pc pe Hpe Kw eq_refl). lia.
Qed.

Lemma ts_write_ver_keep st ts tk ver wid off len rep :
  rget (s_reps st) (ts, tk) = Some rep ->
  exists rep', rget (s_reps (fst (ts_write st ts tk ver wid off len))) (ts, tk) = Some rep' /\ r_ver rep' = r_ver rep.
Proof.
  intros R0. unfold ts_write. rewrite R0. destruct (stamp_of st ts tk) as [e c]. cbn [s_reps set_stamps set_store].
  unfold Cluster.Model.ts_write. rewrite R0. destruct (r_ver rep =? ver); cbn [fst s_reps set_reps set_stamps set_store].
  - rewrite rget_rset, rk_eqb_refl. eexists. split; [reflexivity|reflexivity].
  - exists rep. auto.
Qed.

(* ------------------------------------------------------------------ deliver and step_exec *)
Lemma FInv_deliver fx st pe res en hint :
  fx14 fx = true -> FInv st -> RInv fx st -> In pe (s_pool st) -> en_okF st (p_rpc pe) en -> wbad st pe res ->
  FInv (deliver fx st pe res en hint).
Proof.
  intros Hfx HI HR Hpe Hen Hbad. unfold deliver. change (set_pool st (pool_remove (s_pool st) (p_id pe)) (s_next st)) with (rm_pool st pe).
  destruct (p_owner pe =? 0); [apply FInv_rm; exact HI|].
  destruct (p_owner pe <? 0) eqn:E1.
  { apply Z.ltb_lt in E1. apply FInv_fix_reply; [exact Hfx|apply FInv_rm; exact HI|].
    apply RInv_rm_other; [exact HR|exact Hpe|]. eapply neg_not_round; eauto. }
  destruct (find_wop (s_wops (rm_pool st pe)) (p_owner pe)); [apply FInv_cli_reply; assumption|apply FInv_round_reply; assumption].
Qed.

Lemma exec_twice_wbad fx st e extra : In e (s_pool st) ->
  wbad (st_of (exec_rpc fx (st_of (exec_rpc fx st e extra)) e extra)) e (res_of (exec_rpc fx st e extra)).
Proof.
  intros He. 
  assert (Hp: forall s, s_pool (st_of (exec_rpc fx s e extra)) = s_pool s).
  { intros s. pose proof (pR_exec_rpc fx s e extra) as P. unfold pR in P. injection P as P1 _ _ _ _ _. exact P1. }
  apply wbad_of_ver; [rewrite !Hp; exact He|]. intros Kw.
  unfold exec_rpc, st_of, res_of. rewrite Kw. change (K_Write =? K_Write) with true. cbv iota.
  match goal with |- context [ts_write st ?b ?c ?d ?e0 ?f ?g] => destruct (ts_write st b c d e0 f g) as [s1 c1] eqn:E end.
  cbn [fst snd hd]. intros C. subst c1. destruct (ts_write_ok_ver _ _ _ _ _ _ _ _ E) as [_ [rep [Rg Rv]]].
  match goal with |- context [ts_write s1 ?b ?c ?d ?e0 ?f ?g] =>
    destruct (ts_write_ver_keep s1 b c d e0 f g rep Rg) as [rep' [Rg' Rv']]; destruct (ts_write s1 b c d e0 f g) as [s2 c2] end.
  cbn [fst] in *. exists rep'. split; [exact Rg'|lia].
Qed.

Lemma FInv_step_exec fx st mode l : fx6 fx = true -> fx14 fx = true ->
  FInv st -> DInv st -> RInv fx st -> TInv st -> FInv (fst (step_exec fx st mode l)).
Proof.
  intros Hf6 Hfx HI HD HR HT. unfold step_exec. destruct (Cluster.Model.parse_rpc l) as [[rp r1]|]; [|exact HI].
  destruct (match r1 with [] => _ | n :: t => _ end) as [extra r2].
  destruct (find_pent (s_pool st) rp) as [e|] eqn:Fe; [|exact HI].
  apply find_pent_in in Fe. destruct Fe as [He Eq].
  destruct (mode =? 4).
  { cbn [fst]. apply FInv_deliver; [exact Hfx|exact HI|exact HR|exact He|apply en_okF_none|].
    intros _ C. cbn in C. exfalso. exact (lost_err_ne _ C). }
  destruct (k_kind rp =? K_FixVersion) eqn:Kf.
  { cbn [fst]. apply Z.eqb_eq in Kf. assert (Ke: k_kind (p_rpc e) = K_FixVersion) by (rewrite (rpc_eqb_kind _ _ Eq); exact Kf).
    match goal with |- context [map ?f (s_pool st)] => change f with (mark_run e (mode =? 2)) end.
    pose proof (RInv_mark_run fx st e (mode =? 2) HR He Ke) as BR.
    assert (B: FInv (set_pool st (map (mark_run e (mode =? 2)) (s_pool st)) (s_next st))).
    { destruct HI as [A B C D E F G I J K L M].
      assert (Hpe: forall x, In x (map (mark_run e (mode =? 2)) (s_pool st)) -> exists y, In y (s_pool st) /\ p_rpc x = p_rpc y /\ p_owner x = p_owner y).
      { intros x Hx. apply in_map_iff in Hx. destruct Hx as [y [<- Hy]]. exists y. destruct (mark_run_same e (mode =? 2) y) as [_ [I2 I3]]. auto. }
      assert (Hf: forall tk h, fenced st tk h -> fenced (set_pool st (map (mark_run e (mode =? 2)) (s_pool st)) (s_next st)) tk h).
      { intros tk h [rep [R1 [R2 R3]]]. exists rep. split; [exact R1|]. split; [exact R2|]. cbn [s_pool set_pool]. intros x Hx Kw Tx.
        destruct (Hpe x Hx) as [y [Hy [E1 E2]]]. rewrite E1 in *. exact (R3 y Hy Kw Tx). }
      constructor; cbn [s_wops s_pool s_commits s_acked s_att set_pool]; try assumption.
      - intros x w Hx Kw Hw Ow. destruct (Hpe x Hx) as [y [Hy [E1 E2]]]. rewrite E1, E2 in *. exact (E y w Hy Kw Hw Ow).
      - intros tk Ht. destruct (F tk Ht) as [h Fh]. exists h. auto.
      - intros w Hw Lw P3. destruct (G w Hw Lw P3) as [h [x [Fh R]]]. exists h, x. auto. }
    apply FInv_start_fix; [exact Hfx|exact B|exact BR|].
    cbn [s_next s_pool set_pool]. split; [exact (proj2 (rv_ids _ _ HR e He))|].
    intros x Hx Hid. apply in_map_iff in Hx. destruct Hx as [y [<- Hy]].
    destruct (mark_run_same e (mode =? 2) y) as [I1 [I2 _]]. rewrite I2. rewrite I1 in Hid.
    rewrite (nodup_id_eq _ y e (rv_nodup _ _ HR) Hy He Hid). exact Ke. }
  pose proof (FInv_exec fx st e extra Hf6 HI HD HR HT He) as F1.
  pose proof (DInv_exec_rpc fx st e extra Hf6 HD) as D1.
  pose proof (RInv_exec fx st e extra HR) as R1.
  pose proof (pR_exec_rpc fx st e extra) as P1.
  pose proof (exec_wbad fx st e extra He) as W1.
  pose proof (exec_en_okF fx st e extra) as N1.
  pose proof (exec_en_some_same fx st e extra) as S1.
  pose proof (exec_twice_wbad fx st e extra He) as W2.
  unfold st_of, res_of, en_of in *.
  destruct (exec_rpc fx st e extra) as [[[st1 res] en] dump] eqn:X1. cbn [fst snd] in *.
  assert (Q1: s_pool st1 = s_pool st /\ s_rounds st1 = s_rounds st) by (unfold pR in P1; injection P1 as A1 _ A3 _ _ _; auto).
  destruct Q1 as [Q1 Q1r].
  assert (He1: In e (s_pool st1)) by (rewrite Q1; exact He).
  assert (T1: TInv st1) by (eapply TInv_same; [exact Q1r|exact HT]).
  destruct (mode =? 3) eqn:M3.
  - pose proof (FInv_exec fx st1 e extra Hf6 F1 D1 R1 T1 He1) as F2.
    pose proof (RInv_exec fx st1 e extra R1) as R2. pose proof (pR_exec_rpc fx st1 e extra) as P2.
    unfold st_of in *.
    destruct (exec_rpc fx st1 e extra) as [[[s' res2] en2] d'] eqn:X2. cbn [fst snd] in *.
    assert (Q2: s_pool s' = s_pool st1) by (unfold pR in P2; injection P2 as A1 _ _ _ _ _; exact A1).
    replace (if mode =? 2 then [lost_err rp] else res) with res by (destruct (mode =? 2) eqn:M2; [apply Z.eqb_eq in M2, M3; lia|reflexivity]).
    replace (if mode =? 2 then None else en) with en by (destruct (mode =? 2) eqn:M2; [apply Z.eqb_eq in M2, M3; lia|reflexivity]).
    apply FInv_deliver; [exact Hfx|exact F2|exact R2|rewrite Q2; exact He1| |exact W2].
    destruct en as [en0|]; [|apply en_okF_none].
    assert (st1 = st) by (apply S1; discriminate). subst st1. rewrite X1 in X2. injection X2 as <- _ _ _. exact N1.
  - apply FInv_deliver; [exact Hfx|exact F1|exact R1|exact He1| |].
    + destruct (mode =? 2); [apply en_okF_none|exact N1].
    + destruct (mode =? 2); [intros _ C; cbn in C; exfalso; exact (lost_err_ne _ C)|exact W1].
Qed.

(* ------------------------------------------------------------------ restart, round start, steps *)
Lemma FInv_step_restart fx st ts : fx14 fx = true -> FInv st -> RInv fx st -> FInv (fst (step_restart fx st ts)).
Proof.
  intros Hfx HI HR. apply (restart_ind fx st ts FInv HR).
  - apply (FInv_reps' st); [reflexivity|apply (srel_restart st ts)|exact HI].
  - intros s e Hs He Ps. apply FInv_deliver; [exact Hfx|exact Ps|exact Hs|exact He|apply en_okF_none|].
    intros _ C. cbn in C. exfalso. vm_compute in C. discriminate.
Qed.

Lemma has_rs_update_class st op term blob cls tk0 :
  has_rs (fst (update_class st op term blob cls)) tk0 <-> has_rs st tk0.
Proof.
  unfold update_class. destruct (negb (term =? s_term st)); [tauto|].
  destruct (zget (s_blobs st) blob); [|tauto]. destruct (negb (all_rs st blob)); [tauto|].
  cbn [fst]. unfold has_rs, dget. cbn [s_dtr set_ghost set_dur].
  match goal with |- context [fold_left ?f ?l (s_dtr st)] => generalize l; set (F := f) end.
  intros l. generalize (s_dtr st). induction l as [|a l IH]; intros m; cbn [fold_left]; [tauto|].
  rewrite IH. unfold F. destruct (tget m a) as [d|] eqn:Da; [|tauto]. rewrite tget_tset.
  destruct (tk_eqb tk0 a) eqn:E; [|tauto]. apply tk_eqb_eq in E. subst a. rewrite Da.
  split; intros [d0 [H1 H2]]; injection H1 as <-; eexists; split; try reflexivity; exact H2.
Qed.

Lemma FInv_round_start st op : FInv st -> FInv (fst (round_start st op)).
Proof.
  intros HI. unfold round_start.
  match goal with |- context [fold_left ?f (blob_ids st) _] => set (F := f) end.
  assert (J: forall l acc, FInv (fst (fst acc)) -> FInv (fst (fst (fold_left F l acc)))).
  { induction l as [|a l IH]; intros acc Hacc; cbn [fold_left]; [exact Hacc|]. apply IH.
    destruct acc as [[s a0] o]. cbn [fst] in *. unfold F. cbn [fst].
    destruct (zget (s_blobs s) a); [|exact Hacc]. destruct (b_cls b =? b_tgt b); [exact Hacc|].
    destruct (all_rs s a).
    - assert (M: pF7 (fst (update_class s op (s_term st) a (b_tgt b))) = pF7 s).
      { unfold update_class. destruct (negb _); [reflexivity|]. destruct (zget _ _); [|reflexivity]. destruct (negb _); reflexivity. }
      pose proof (has_rs_update_class s op (s_term st) a (b_tgt b)) as Hh.
      destruct (update_class s op (s_term st) a (b_tgt b)) as [s' c']. cbn [fst] in *. eapply FInv_hasrs; eauto.
    - destruct (b_cls b =? c14_ClassREPLICATED); exact Hacc. }
  specialize (J (blob_ids st) (st, [], []) HI). 
  destruct (fold_left F (blob_ids st) (st, [], [])) as [[st1 tracts] obs]. cbn [fst] in *.
  match goal with |- FInv (if _ then round_after_stats ?s3 _ else _) => assert (B3: FInv s3) end.
  { rewrite fold_stat_issue. apply FInv_issue_all_nw; [|apply FInv_set_rounds; exact J].
    intros rp o Hin. destruct (stat_list_in _ _ _ _ _ Hin) as [_ [p [h [rest [_ [_ ->]]]]]]. vm_compute. discriminate. }
  destruct (all_stats_done _); [apply FInv_round_after_stats; exact B3|exact B3].
Qed.

Lemma FInv_step fx st ev : fx6 fx = true -> fx14 fx = true -> ev_run ev = true ->
  FInv st -> DInv st -> RInv fx st -> TInv st -> FInv (fst (step_fx fx st ev)).
Proof.
  intros Hf6 Hfx Hev HI0 HD0 HR0 HT0. unfold step_fx.
  assert (HI: FInv (begin_event st)) by (eapply FInv_pF; [|exact HI0]; reflexivity).
  assert (HD: DInv (begin_event st)) by (eapply DInv_pD; [|exact HD0]; reflexivity).
  assert (HR: RInv fx (begin_event st)) by (eapply RInv_same; [| |exact HR0]; reflexivity).
  assert (HT: TInv (begin_event st)) by (eapply TInv_same; [|exact HT0]; reflexivity).
  set (s := begin_event st) in *.
  destruct ev as [|c a]; [exact HI|]. cbn [ev_run existsb] in Hev.
  destruct (c =? 1) eqn:C1; [apply Z.eqb_eq in C1; subst c; discriminate|].
  destruct (c =? 2) eqn:C2; [apply Z.eqb_eq in C2; subst c; discriminate|].
  destruct (c =? 20) eqn:C20; [apply Z.eqb_eq in C20; subst c; discriminate|].
  destruct (c =? 21) eqn:C21; [apply Z.eqb_eq in C21; subst c; discriminate|].
  destruct (c =? 22).
  { destruct a as [|blob [|tract [|]]]; try exact HI. destruct (dget s _); exact HI. }
  destruct (c =? 3).
  { destruct a as [|op [|cli [|blob [|tract [|off [|len [|wid [|]]]]]]]]; try exact HI.
    destruct (negb (op_fresh s op) || (len <=? 0)) eqn:Fo; cbn [fst]; [exact HI|].
    apply orb_false_iff in Fo. destruct Fo as [Fo _]. apply negb_false_iff in Fo. destruct (op_fresh_spec s op Fo) as [Pos [Fw [Frd Fp]]].
    apply FInv_issue_nw; [|vm_compute; discriminate].
    set (w := {| wo_op := op; wo_cli := cli; wo_blob := blob; wo_tract := tract; wo_off := off; wo_len := len; wo_wid := wid; wo_phase := 1;
                 wo_cached := false; wo_retry := zmem cli (s_lcache s); wo_entry := None; wo_res := []; wo_final := 0;
                 wo_late := match dget s (tkey blob tract) with Some d => match d_rs d with Some _ => true | None => false end | None => false end |}).
    destruct HI as [A B C D E F G I J K L M].
    assert (Hh: forall s' tk e, s_cache s' = s_cache s -> s_wops s' = s_wops s ++ [w] -> held s' tk e -> held s tk e).
    { intros s' tk e Hc Hw [[c0 H]|[x [H1 [H2 H3]]]]; [left; exists c0; rewrite <- Hc; exact H|].
      rewrite Hw in H1. apply in_app_or in H1. destruct H1 as [H1|[<-|[]]]; [right; exists x; auto|discriminate]. }
    match goal with |- FInv ?s' =>
      assert (Hf: forall tk h, fenced s tk h -> fenced s' tk h) end.
    { intros tk h [rep [R1 [R2 R3]]]. exists rep. split; [exact R1|]. split; [|exact R3]. intros e He. apply R2. eapply Hh; [| |exact He]; reflexivity. }
    assert (Lw: wo_late w = true -> has_rs s (tkey blob tract)).
    { cbn [wo_late w]. unfold has_rs. destruct (dget s (tkey blob tract)) as [d|]; [|discriminate]. destruct (d_rs d) eqn:R; [|discriminate].
      intros _. exists d. split; [reflexivity|rewrite R; discriminate]. }
    constructor; cbn [s_wops s_pool s_commits s_acked s_att set_ghost set_cli].
    - intros x Hx Lx. apply in_app_or in Hx. destruct Hx as [Hx|[<-|[]]]; [exact (A x Hx Lx)|exact (Lw Lx)].
    - intros x Hx. apply in_app_or in Hx. destruct Hx as [Hx|[<-|[]]]; [exact (B x Hx)|cbn; discriminate].
    - intros x Hx. apply in_app_or in Hx. destruct Hx as [Hx|[<-|[]]]; [exact (C x Hx)|cbn; discriminate].
    - intros x y Hx Hy Exy. apply in_app_or in Hx. apply in_app_or in Hy.
      destruct Hx as [Hx|[<-|[]]], Hy as [Hy|[<-|[]]]; try reflexivity; [exact (D x y Hx Hy Exy)|exfalso; exact (Fw x Hx Exy)|exfalso; exact (Fw y Hy (eq_sym Exy))].
    - intros pe x Hpe Kw Hx Ox. apply in_app_or in Hx. destruct Hx as [Hx|[<-|[]]]; [exact (E pe x Hpe Kw Hx Ox)|].
      exfalso. exact (Fp pe Hpe (eq_sym Ox)).
    - intros tk Ht. destruct (F tk Ht) as [h Fh]. exists h. auto.
    - intros x Hx Lx P3. apply in_app_or in Hx. destruct Hx as [Hx|[<-|[]]]; [|cbn in P3; discriminate].
      destruct (G x Hx Lx P3) as [h [y [Fh R]]]. exists h, y. auto.
    - exact I.
    - intros x c0 Hx Lx Hc Tc. apply in_app_or in Hx. destruct Hx as [Hx|[<-|[]]]; [exact (J x c0 Hx Lx Hc Tc)|].
      exfalso. pose proof (L c0 Hc) as Rs. rewrite Tc in Rs. change (w_tk w) with (tkey blob tract) in Rs.
      cbn [wo_late w] in Lx. destruct Rs as [d [Dg Dr]]. rewrite Dg in Lx. destruct (d_rs d); [discriminate|contradiction].
    - intros x Hx. apply in_app_or in Hx. destruct Hx as [Hx|[<-|[]]]; [right; exact (K x Hx)|left; reflexivity].
    - exact L.
    - intros x Hx. right. exact (M x Hx). }
  destruct (c =? 6).
  { destruct a as [|blob [|tract [|ver [|badts [|]]]]]; try exact HI. cbn [fst]. apply FInv_start_fix; [exact Hfx|exact HI|exact HR|].
    split; [exact (rv_next _ _ HR)|]. intros x Hx Hid. pose proof (rv_ids _ _ HR x Hx). lia. }
  destruct (c =? 7).
  { destruct a; [exact HI|apply FInv_step_exec; assumption]. }
  destruct (c =? 9).
  { destruct a as [|ts [|]]; try exact HI. apply FInv_step_restart; assumption. }
  destruct (c =? 10). { cbn [fst]. eapply FInv_pF; [|exact HI]. reflexivity. }
  destruct (c =? 11).
  { destruct a as [|ts [|]]; try exact HI. cbn [fst]. eapply FInv_pF; [|exact HI]. reflexivity. }
  destruct (c =? 80).
  { destruct a as [|op [|]]; try exact HI.
    destruct (negb (op_fresh s op)); [exact HI|].
    pose proof (FInv_round_start s op HI) as M. destruct (round_start s op) as [st1 obs]. exact M. }
  destruct (c =? 30).
  { destruct a as [|blob [|tract [|off [|len [|nt tries]]]]]; exact HI. }
  destruct (c =? 81) eqn:C81; [apply Z.eqb_eq in C81; subst c; discriminate|].
  destruct (c =? 82); [exact HI|].
  destruct (c =? 84); [exact HI|].
  destruct (c =? 83); [exact HI|].
  destruct (c =? 31).
  { destruct a as [|blob [|]]; try exact HI. destruct (Cluster.Model.zget _ _); exact HI. }
  exact HI.
Qed.

(* ------------------------------------------------------------------ setup and the run-level theorem *)
Definition SetupF (st : state) : Prop :=
  s_wops st = [] /\ s_commits st = [] /\ (forall tk d, dget st tk = Some d -> d_rs d = None) /\ (forall x, In x (s_acked st) -> In x (s_att st)).

Definition pSF (st : state) := (s_wops st, s_commits st, s_dtr st, s_acked st, s_att st).

Lemma SetupF_pSF st st' : pSF st' = pSF st -> SetupF st -> SetupF st'.
Proof. unfold pSF, SetupF, dget. intros H. injection H as -> -> -> -> ->. auto. Qed.

Lemma SetupF_step fx st ev : ev_setup ev = true -> SetupF st -> SetupF (fst (step_fx fx st ev)).
Proof.
  intros Hev HS0. unfold step_fx. assert (HS: SetupF (begin_event st)) by (eapply SetupF_pSF; [|exact HS0]; reflexivity).
  set (s := begin_event st) in *.
  destruct ev as [|c a]; [exact HS|]. cbn [ev_setup existsb] in Hev.
  destruct (c =? 1) eqn:C1.
  { destruct a as [|nts [|ncli flags]]; try exact HS.
    destruct (negb (s_nts s =? 0) || _); cbn [fst]; [exact HS|]. eapply SetupF_pSF; [|exact HS]. reflexivity. }
  destruct (c =? 2) eqn:C2.
  { destruct a as [|blob [|nt [|tgt [|]]]]; try exact HS. destruct (zget _ _); cbn [fst]; [exact HS|]. eapply SetupF_pSF; [|exact HS]. reflexivity. }
  destruct (c =? 20) eqn:C20.
  { destruct a as [|blob [|tract [|ver [|nh hosts]]]]; try exact HS.
    destruct (dget s (tkey blob tract)) eqn:E; cbn [orb]; cbn [fst]; [exact HS|].
    destruct (negb (Cluster.Model.distinct hosts)); cbn [fst]; [exact HS|].
    destruct HS as [W [Cm [Rs Aa]]]. split; [exact W|]. split; [exact Cm|]. split; [|exact Aa].
    intros tk d. unfold dget. cbn [s_dtr set_dtr set_dur set_reps set_store]. rewrite tget_tset.
    destruct (tk_eqb tk (tkey blob tract)); [intros H; injection H as <-; reflexivity|apply Rs]. }
  destruct (c =? 21) eqn:C21.
  { destruct a as [|blob [|tract [|wid [|off [|len [|isw [|]]]]]]]; try exact HS.
    destruct (dget s _) as [d|]; cbn [fst]; [|exact HS].
    match goal with |- SetupF (fold_left ?f ?l ?s0) => assert (P: pSF (fold_left f l s0) = pSF s0) end.
    { apply fold_fr. intros s1 x. destruct (isw =? 0); [destruct (rget _ _); reflexivity|apply (fr_ts_write _ pSF); fr]. }
    eapply SetupF_pSF; [exact P|]. destruct HS as [W [Cm [Rs Aa]]]. split; [exact W|]. split; [exact Cm|]. split; [exact Rs|].
    cbn [s_acked s_att set_ghost]. intros x [<-|Hx]; [left; reflexivity|right; exact (Aa x Hx)]. }
  destruct (c =? 22) eqn:C22.
  { destruct a as [|blob [|tract [|]]]; try exact HS. destruct (dget s _); exact HS. }
  exfalso. cbn in Hev. discriminate.
Qed.

Lemma SetupF_run fx evs : forallb ev_setup evs = true -> forall st, SetupF st -> SetupF (run_state_fx fx st evs).
Proof.
  induction evs as [|ev evs IH]; intros H st HS; cbn; [exact HS|].
  cbn in H. apply andb_true_iff in H. destruct H as [H1 H2]. apply IH; [exact H2|]. apply SetupF_step; assumption.
Qed.

Lemma SetupF_FInv st : SetupF st -> FInv st.
Proof.
  intros [W [Cm [Rs Aa]]].
  assert (NoRs: forall tk, ~ has_rs st tk) by (intros tk [d [D K]]; apply K; exact (Rs tk d D)).
  constructor; rewrite ?W, ?Cm.
  - intros w [].
  - intros w [].
  - intros w [].
  - intros w1 w2 [].
  - intros pe w _ _ [].
  - intros tk Ht. exfalso. exact (NoRs tk Ht).
  - intros w [].
  - intros c tk w [].
  - intros w c [].
  - intros w [].
  - intros c [].
  - exact Aa.
Qed.

Lemma SetupF_init : SetupF init_state.
Proof. split; [reflexivity|]. split; [reflexivity|]. split; [intros tk0 d0 H; discriminate|intros x []]. Qed.

Record Inv4 (fx : fixes) (st : state) : Prop := { i4_f : FInv st; i4_d : DInv st; i4_r : RInv fx st; i4_t : TInv st }.

Lemma Inv4_step fx st ev : fx6 fx = true -> fx14 fx = true -> ev_run ev = true -> Inv4 fx st -> Inv4 fx (fst (step_fx fx st ev)).
Proof.
  intros H6 H14 Hev [F D R T]. constructor.
  - apply FInv_step; assumption.
  - apply DInv_step; assumption.
  - apply RInv_step; assumption.
  - apply TInv_step; assumption.
Qed.

Lemma Inv4_run fx evs : fx6 fx = true -> fx14 fx = true -> forallb ev_run evs = true -> forall st, Inv4 fx st -> Inv4 fx (run_state_fx fx st evs).
Proof.
  intros H6 H14. induction evs as [|ev evs IH]; intros H st HI; cbn; [exact HI|].
  cbn in H. apply andb_true_iff in H. destruct H as [H1 H2]. apply IH; [exact H2|]. apply Inv4_step; assumption.
Qed.

Theorem Inv4_reachable fx setup evs : fx6 fx = true -> fx14 fx = true ->
  forallb ev_setup setup = true -> forallb ev_run evs = true -> Inv4 fx (run_state_fx fx init_state (setup ++ evs)).
Proof.
  intros H6 H14 Hs He. rewrite run_state_app. apply Inv4_run; try assumption. constructor.
  - apply SetupF_FInv. apply SetupF_run; [exact Hs|apply SetupF_init].
  - apply DInv_reachable. exact H6.
  - apply RInv_quiet. apply pR_setup_run. exact Hs.
  - intros r Hr. pose proof (pR_setup_run fx setup Hs init_state) as P. unfold pR in P. injection P as _ _ P3 _ _ _. rewrite P3 in Hr. destruct Hr.
Qed.

(* after_move_writes_refused, every schedule (setup, then run-phase events), every client, cached locations or not:
   every acknowledged write of a tract had started when the commit of that tract was applied *)
Theorem after_ok_reachable fx setup evs : fx6 fx = true -> fx14 fx = true ->
  forallb ev_setup setup = true -> forallb ev_run evs = true -> after_ok (run_state_fx fx init_state (setup ++ evs)) = true.
Proof.
  intros H6 H14 Hs He. pose proof (i4_f _ _ (Inv4_reachable fx setup evs H6 H14 Hs He)) as HI.
  unfold after_ok. apply forallb_forall. intros [[[[[tk term] packed] nv] sv] started] Hc.
  apply forallb_forall. intros [tk' w] Ha. destruct (tk_eqb tk tk') eqn:E; [|reflexivity]. apply tk_eqb_eq in E. subst tk'.
  exact (f_ao _ HI _ tk w Hc Ha eq_refl).
Qed.

(* the same clause seen from the writer: a write that starts when its tract has an RS pointer stays unacknowledged;
   in every reachable state such an operation is waiting for StatBlob/GetTracts, or holds a Write result that is not OK
   from a replica whose version is above its entry, or waits for FixVersion/ReportBadTS with a final error *)
Theorem late_writer_is_doomed fx setup evs w : fx6 fx = true -> fx14 fx = true ->
  forallb ev_setup setup = true -> forallb ev_run evs = true ->
  let st := run_state_fx fx init_state (setup ++ evs) in
  In w (s_wops st) -> wo_late w = true ->
  has_rs st (w_tk w) /\ (wo_phase w = 4 -> wo_final w <> cl_NoError) /\
  (wo_phase w = 3 -> exists h x, fenced st (w_tk w) h /\ In (h, x) (wo_res w) /\ x <> cl_NoError).
Proof.
  intros H6 H14 Hs He st Hw Lw. pose proof (i4_f _ _ (Inv4_reachable fx setup evs H6 H14 Hs He)) as HI. fold st in HI.
  split; [exact (f_rs _ HI w Hw Lw)|]. split; [exact (f_p4 _ HI w Hw)|exact (f_late _ HI w Hw Lw)].
Qed.
