(* C14/InvStore.v — invariant I1 as a relation between any two states of a run (ghost free): replicas persist, their
   versions and stamps only grow, the list of applied writes only grows at its head, and
       stamp unchanged  =>  list of applied writes unchanged.
   Holds for every event of the run phase (no setup events 1/2/20/21, no scripted reply 81). *)
From Coq Require Import List ZArith Bool Lia.
From BLB Require Import Gen.Consts.
From BLB Require Cluster.Model.
From BLB Require Import C14.Model C14.Proofs C14.Run C14.InvFrame.
Import ListNotations.
Open Scope Z_scope.

Notation rget := Cluster.Model.rget.
Notation rset := Cluster.Model.rset.
Notation r_ver := Cluster.Model.r_ver.
Notation r_app := Cluster.Model.r_app.
Notation rk_eqb := Cluster.Model.rk_eqb.
Notation tk_eqb := Cluster.Model.tk_eqb.

(* events of the run phase: client writes, third-party FixVersion, RPC decisions, restarts, leader changes,
   heartbeats, rounds, reads, probes *)
Definition ev_run (ev : list Z) : bool :=
  match ev with
  | [] => true
  | c :: _ => existsb (Z.eqb c) [3; 6; 7; 9; 10; 11; 80; 30; 82; 31; 22]
  end.
(* setup events: cell, blobs, tracts, initial contents, dumps *)
Definition ev_setup (ev : list Z) : bool :=
  match ev with
  | [] => true
  | c :: _ => existsb (Z.eqb c) [1; 2; 20; 21; 22]
  end.

Lemma rk_eqb_eq a b : rk_eqb a b = true <-> a = b.
Proof.
  destruct a as [a1 a2], b as [b1 b2]. unfold Cluster.Model.rk_eqb. cbn [fst snd].
  rewrite andb_true_iff, Z.eqb_eq, tk_eqb_eq. split; [intros [? ?]; subst; reflexivity|intros H; injection H; auto].
Qed.
Lemma rk_eqb_refl a : rk_eqb a a = true. Proof. apply rk_eqb_eq. reflexivity. Qed.
Lemma rk_eqb_neq a b : a <> b -> rk_eqb a b = false.
Proof. intros H. destruct (rk_eqb a b) eqn:E; [apply rk_eqb_eq in E; contradiction|reflexivity]. Qed.

Lemma rget_rdel m k k' : rget (Cluster.Model.rdel m k) k' = if rk_eqb k' k then None else rget m k'.
Proof.
  induction m as [|[x v] m IH]; cbn.
  - destruct (rk_eqb k' k); reflexivity.
  - destruct (rk_eqb k x) eqn:E.
    + rewrite IH. destruct (rk_eqb k' k) eqn:E2; [reflexivity|].
      destruct (rk_eqb k' x) eqn:E3; [|reflexivity].
      apply rk_eqb_eq in E, E3. subst. rewrite rk_eqb_refl in E2. discriminate.
    + cbn. destruct (rk_eqb k' x) eqn:E3.
      * destruct (rk_eqb k' k) eqn:E2; [|reflexivity].
        apply rk_eqb_eq in E2, E3. subst. rewrite rk_eqb_refl in E. discriminate.
      * exact IH.
Qed.
Lemma rget_rset m k v k' : rget (rset m k v) k' = if rk_eqb k' k then Some v else rget m k'.
Proof.
  unfold Cluster.Model.rset. cbn. destruct (rk_eqb k' k) eqn:E; [reflexivity|]. rewrite rget_rdel, E. reflexivity.
Qed.

Lemma sget_sdel m k k' : sget (sdel m k) k' = if rk_eqb k' k then None else sget m k'.
Proof.
  induction m as [|[x v] m IH]; cbn.
  - destruct (rk_eqb k' k); reflexivity.
  - destruct (rk_eqb k x) eqn:E.
    + rewrite IH. destruct (rk_eqb k' k) eqn:E2; [reflexivity|].
      destruct (rk_eqb k' x) eqn:E3; [|reflexivity].
      apply rk_eqb_eq in E, E3. subst. rewrite rk_eqb_refl in E2. discriminate.
    + cbn. destruct (rk_eqb k' x) eqn:E3.
      * destruct (rk_eqb k' k) eqn:E2; [|reflexivity].
        apply rk_eqb_eq in E2, E3. subst. rewrite rk_eqb_refl in E. discriminate.
      * exact IH.
Qed.
Lemma sget_sset m k v k' : sget (sset m k v) k' = if rk_eqb k' k then Some v else sget m k'.
Proof.
  unfold sset. cbn. destruct (rk_eqb k' k) eqn:E; [reflexivity|]. rewrite sget_sdel, E. reflexivity.
Qed.

(* ------------------------------------------------------------------ the relation *)
Definition sle (a b : Z * Z) : Prop := fst a < fst b \/ (fst a = fst b /\ snd a <= snd b).

Lemma sle_refl a : sle a a. Proof. right. split; [reflexivity|lia]. Qed.
Lemma sle_trans a b c : sle a b -> sle b c -> sle a c.
Proof. unfold sle. intros [H1|[H1 H2]] [H3|[H3 H4]]; [left|left|left|right]; try lia. Qed.
Lemma sle_antisym a b : sle a b -> sle b a -> a = b.
Proof. unfold sle. destruct a, b; cbn. intros [H1|[H1 H2]] [H3|[H3 H4]]; try lia. f_equal; lia. Qed.

Definition rep_rel (st st' : state) (ts : Z) (tk : tkt) : Prop :=
  forall r, rget (s_reps st) (ts, tk) = Some r ->
    exists r', rget (s_reps st') (ts, tk) = Some r' /\ r_ver r <= r_ver r' /\
               sle (stamp_of st ts tk) (stamp_of st' ts tk) /\
               (stamp_of st' ts tk = stamp_of st ts tk -> r_app r' = r_app r) /\
               exists l, r_app r' = l ++ r_app r.

Definition srel (st st' : state) : Prop := forall ts tk, rep_rel st st' ts tk.

Lemma srel_refl st : srel st st.
Proof.
  intros ts tk r H. exists r. split; [exact H|]. split; [lia|]. split; [apply sle_refl|]. split; [reflexivity|exists []; reflexivity].
Qed.

Lemma srel_trans a b c : srel a b -> srel b c -> srel a c.
Proof.
  intros H1 H2 ts tk r Hr.
  destruct (H1 ts tk r Hr) as [r1 [G1 [V1 [S1 [A1 [l1 L1]]]]]].
  destruct (H2 ts tk r1 G1) as [r2 [G2 [V2 [S2 [A2 [l2 L2]]]]]].
  exists r2. split; [exact G2|]. split; [lia|]. split; [eapply sle_trans; eauto|]. split.
  - intros E. rewrite E in S2.
    assert (E1: stamp_of b ts tk = stamp_of a ts tk) by (apply sle_antisym; assumption).
    rewrite A2; [apply A1; exact E1|congruence].
  - exists (l2 ++ l1). rewrite L2, L1, app_assoc. reflexivity.
Qed.

Lemma stamp_of_pS st st' ts tk : pS st' = pS st -> stamp_of st' ts tk = stamp_of st ts tk.
Proof. unfold pS. intros H. injection H as H1 H2 H3. unfold stamp_of, epoch_of. rewrite H2, H3. reflexivity. Qed.

Lemma srel_pS st st' : pS st' = pS st -> srel st st'.
Proof.
  intros H ts tk r Hr. pose proof (stamp_of_pS _ _ ts tk H) as S.
  unfold pS in H. injection H as H1 H2 H3. exists r. rewrite H1. split; [exact Hr|]. split; [lia|].
  rewrite S. split; [apply sle_refl|]. split; [reflexivity|exists []; reflexivity].
Qed.
Lemma srel_pS_r a b b' : pS b' = pS b -> srel a b -> srel a b'.
Proof. intros H M. eapply srel_trans; [exact M|apply srel_pS; exact H]. Qed.
Lemma srel_pS_l a a' b : pS a' = pS a -> srel a' b -> srel a b.
Proof. intros H M. eapply srel_trans; [apply srel_pS; exact H|exact M]. Qed.

(* ------------------------------------------------------------------ the three Store actions that touch (reps, stamps, epoch) *)
Lemma epoch_of_set_store st a b c ts : epoch_of (set_store st a b c) ts = epoch_of st ts.
Proof. reflexivity. Qed.

Lemma srel_ts_write st ts tk ver wid off len : srel st (fst (ts_write st ts tk ver wid off len)).
Proof.
  unfold ts_write. destruct (rget (s_reps st) (ts, tk)) as [r0|] eqn:Hr0; [|apply srel_refl].
  destruct (stamp_of st ts tk) as [e c] eqn:Hso.
  pose proof (stamp_of_fst st ts tk) as Fe. rewrite Hso in Fe. cbn [fst] in Fe.
  cbn [s_reps set_stamps set_store].
  destruct (Cluster.Model.ts_write (s_reps st) ts tk ver wid off len) as [reps cls] eqn:Hcw. cbn [fst].
  intros ts' tk' r Hr. cbn [s_reps set_reps set_stamps set_store].
  unfold Cluster.Model.ts_write in Hcw. rewrite Hr0 in Hcw.
  destruct (rk_eqb (ts', tk') (ts, tk)) eqn:K.
  - apply rk_eqb_eq in K. injection K as -> ->. rewrite Hr0 in Hr. injection Hr as <-.
    assert (S': stamp_of (set_reps (set_stamps st (sset (s_stamps st) (ts, tk) (e, c + 1))) reps) ts tk = (e, c + 1)).
    { unfold stamp_of. cbn [s_stamps set_reps set_stamps set_store]. rewrite sget_sset_same.
      change (epoch_of (set_reps (set_stamps st (sset (s_stamps st) (ts, tk) (e, c + 1))) reps) ts) with (epoch_of st ts).
      rewrite <- Fe, Z.eqb_refl. reflexivity. }
    rewrite S', Hso.
    assert (G: exists r', rget reps (ts, tk) = Some r' /\ r_ver r0 <= r_ver r' /\ exists l, r_app r' = l ++ r_app r0).
    { destruct (r_ver r0 =? ver); injection Hcw as <- _.
      - rewrite rget_rset, rk_eqb_refl. eexists. split; [reflexivity|]. cbn. split; [lia|].
        unfold Cluster.Model.app_write. destruct (len <=? 0); [exists []; reflexivity|eexists [_]; reflexivity].
      - exists r0. split; [exact Hr0|]. split; [lia|exists []; reflexivity]. }
    destruct G as [r' [G1 [G2 G3]]]. exists r'. split; [exact G1|]. split; [exact G2|].
    split; [right; cbn; split; [reflexivity|lia]|]. split; [|exact G3].
    intros E. injection E as E. lia.
  - assert (G: rget reps (ts', tk') = Some r).
    { destruct (r_ver r0 =? ver); injection Hcw as <- _; [rewrite rget_rset, K|]; exact Hr. }
    exists r. split; [exact G|]. split; [lia|].
    assert (S': stamp_of (set_reps (set_stamps st (sset (s_stamps st) (ts, tk) (e, c + 1))) reps) ts' tk' = stamp_of st ts' tk').
    { unfold stamp_of. cbn [s_stamps set_reps set_stamps set_store]. rewrite sget_sset, K. reflexivity. }
    rewrite S'. split; [apply sle_refl|]. split; [reflexivity|exists []; reflexivity].
Qed.

Lemma srel_ts_setversion st ts tsid tk nv cond : srel st (fst (ts_setversion st ts tsid tk nv cond)).
Proof.
  unfold ts_setversion. destruct (negb (ts =? tsid)); [apply srel_refl|].
  destruct (nv <=? 1); [apply srel_refl|].
  match goal with |- context [if ?b then _ else _] => destruct b end; [apply srel_refl|].
  destruct (Cluster.Model.ts_setversion (s_reps st) ts tsid tk nv) as [reps c] eqn:Hc. cbn [fst].
  intros ts' tk' r Hr. cbn [s_reps set_reps set_store].
  change (stamp_of (set_reps st reps) ts' tk') with (stamp_of st ts' tk').
  assert (G: exists r', rget reps (ts', tk') = Some r' /\ r_ver r <= r_ver r' /\ r_app r' = r_app r).
  { unfold Cluster.Model.ts_setversion in Hc.
    destruct (negb (ts =? tsid)); [injection Hc as <- _; exists r; repeat split; [exact Hr|lia]|].
    destruct (nv <=? 1); [injection Hc as <- _; exists r; repeat split; [exact Hr|lia]|].
    destruct (rget (s_reps st) (ts, tk)) as [r0|] eqn:Hr0; [|injection Hc as <- _; exists r; repeat split; [exact Hr|lia]].
    destruct (nv <=? r_ver r0); [injection Hc as <- _; exists r; repeat split; [exact Hr|lia]|].
    destruct (r_ver r0 + 1 =? nv) eqn:E1; [|injection Hc as <- _; exists r; repeat split; [exact Hr|lia]].
    injection Hc as <- _. rewrite rget_rset. destruct (rk_eqb (ts', tk') (ts, tk)) eqn:K.
    - apply rk_eqb_eq in K. injection K as -> ->. rewrite Hr0 in Hr. injection Hr as <-.
      eexists. split; [reflexivity|]. cbn. apply Z.eqb_eq in E1. split; [lia|reflexivity].
    - exists r. repeat split; [exact Hr|lia]. }
  destruct G as [r' [G1 [G2 G3]]]. exists r'. split; [exact G1|]. split; [exact G2|].
  split; [apply sle_refl|]. split; [intros _; exact G3|exists []; rewrite G3; reflexivity].
Qed.

Lemma zget_zset {A} (m : list (Z * A)) k v k' : Cluster.Model.zget (Cluster.Model.zset m k v) k' = if k' =? k then Some v else Cluster.Model.zget m k'.
Proof.
  unfold Cluster.Model.zset. cbn. destruct (k' =? k) eqn:E; [reflexivity|].
  induction m as [|[x w] m IH]; cbn; [reflexivity|].
  destruct (k =? x) eqn:E1.
  - rewrite IH. destruct (k' =? x) eqn:E2; [|reflexivity]. apply Z.eqb_eq in E1, E2. subst. rewrite Z.eqb_refl in E. discriminate.
  - cbn. destruct (k' =? x); [reflexivity|exact IH].
Qed.

Lemma srel_restart st ts : srel st (restart_store st ts).
Proof.
  intros ts' tk' r Hr. exists r. change (s_reps (restart_store st ts)) with (s_reps st).
  split; [exact Hr|]. split; [lia|].
  assert (E: epoch_of (restart_store st ts) ts' = if ts' =? ts then epoch_of st ts + 1 else epoch_of st ts').
  { unfold epoch_of at 1. unfold restart_store. cbn [s_epoch set_epoch]. rewrite zget_zset.
    destruct (ts' =? ts); reflexivity. }
  destruct (ts' =? ts) eqn:K.
  - apply Z.eqb_eq in K. subst ts'.
    assert (F: fst (stamp_of (restart_store st ts) ts tk') = epoch_of st ts + 1) by (rewrite stamp_of_fst; exact E).
    pose proof (stamp_of_fst st ts tk') as F0.
    split; [left; lia|]. split; [intros H; rewrite H in F; lia|exists []; reflexivity].
  - assert (S': stamp_of (restart_store st ts) ts' tk' = stamp_of st ts' tk').
    { unfold stamp_of. rewrite E. reflexivity. }
    rewrite S'. split; [apply sle_refl|]. split; [reflexivity|exists []; reflexivity].
Qed.

(* ------------------------------------------------------------------ every function of the run phase *)
Lemma pS_deliver fx st e res en hint : pS (deliver fx st e res en hint) = pS st.
Proof. apply (fr_deliver _ pS); fr. Qed.
Lemma pS_start_fix fx st g tk c b r : pS (start_fix fx st g tk c b r) = pS st.
Proof. apply (fr_start_fix _ pS); fr. Qed.
Lemma pS_round_start st op : pS (fst (round_start st op)) = pS st.
Proof. apply (fr_round_start _ pS); fr. Qed.
Lemma pS_commit_rs fx st op term base hosts tracts : pS (fst (commit_rs fx st op term base hosts tracts)) = pS st.
Proof. apply (fr_commit_rs _ pS); fr. Qed.
Lemma pS_ts_pack st ts i ch t sp f : pS (fst (ts_pack st ts i ch t sp f)) = pS st.
Proof. unfold ts_pack. destruct (negb _); [reflexivity|]. destruct (pack_items _ _ _); reflexivity. Qed.

Ltac via_fst_s L :=
  match goal with |- context [let '(a, b) := ?t in _] =>
    let E := fresh "E" in let s := fresh "s" in let c := fresh "c" in
    destruct t as [s c] eqn:E; cbn [fst];
    replace s with (fst t) by (rewrite E; reflexivity); apply L end.

Lemma srel_exec_rpc fx st e extra : srel st (st_of (exec_rpc fx st e extra)).
Proof.
  unfold exec_rpc, st_of.
  destruct (Cluster.Model.k_kind (p_rpc e) =? K_Write). { via_fst_s srel_ts_write. }
  destruct (Cluster.Model.k_kind (p_rpc e) =? K_SetVersion). { via_fst_s srel_ts_setversion. }
  destruct (Cluster.Model.k_kind (p_rpc e) =? K_CtlStat).
  { destruct (ts_stat st _ _ _) as [[? ?] ?]. cbn [fst]. apply srel_refl. }
  destruct (Cluster.Model.k_kind (p_rpc e) =? K_PackTracts).
  { match goal with |- context [let '(a, b) := ?t in _] => destruct t as [s c] eqn:E end. cbn [fst].
    apply srel_pS. replace s with (fst (s, c)) by reflexivity. rewrite <- E. apply pS_ts_pack. }
  destruct (Cluster.Model.k_kind (p_rpc e) =? K_RSEncode).
  { repeat match goal with |- context [match ?x with _ => _ end] => destruct x | |- context [if ?b then _ else _] => destruct b end;
      cbn [fst]; try apply srel_refl; apply srel_pS; reflexivity. }
  destruct (Cluster.Model.k_kind (p_rpc e) =? K_GCTract).
  { destruct (negb _); cbn [fst]; [apply srel_refl|apply srel_pS; reflexivity]. }
  destruct (Cluster.Model.k_kind (p_rpc e) =? K_StatBlob).
  { destruct (Cluster.Model.zget _ _); cbn [fst]; apply srel_refl. }
  destruct (Cluster.Model.k_kind (p_rpc e) =? K_GetTracts).
  { repeat match goal with |- context [match ?x with _ => _ end] => destruct x | |- context [if ?b then _ else _] => destruct b end;
      cbn [fst]; apply srel_refl. }
  destruct (Cluster.Model.k_kind (p_rpc e) =? K_ReportBadTS). { cbn [fst]. apply srel_refl. }
  destruct (Cluster.Model.k_kind (p_rpc e) =? K_Alloc).
  { destruct (find_round _ _) as [rd|]; cbn [fst]; [|apply srel_refl].
    destruct (negb _); cbn [fst]; [apply srel_refl|apply srel_pS; reflexivity]. }
  destruct (Cluster.Model.k_kind (p_rpc e) =? K_Commit).
  { destruct (find_round _ _) as [rd|]; cbn [fst]; [|apply srel_refl].
    destruct (find_enc_chunk _ _) as [eo|]; cbn [fst]; [|apply srel_refl].
    match goal with |- context [commit_rs ?a ?b ?c ?d ?e0 ?f ?g] => pose proof (pS_commit_rs a b c d e0 f g) as M; destruct (commit_rs a b c d e0 f g) end.
    cbn [fst] in *. apply srel_pS. exact M. }
  cbn [fst]. apply srel_refl.
Qed.

Lemma srel_step_exec fx st mode l : srel st (fst (step_exec fx st mode l)).
Proof.
  unfold step_exec. destruct (Cluster.Model.parse_rpc l) as [[rp r1]|]; [|apply srel_refl].
  destruct (match r1 with [] => _ | n :: t => _ end) as [extra r2].
  destruct (find_pent (s_pool st) rp) as [e|]; [|apply srel_refl].
  destruct (mode =? 4); [cbn [fst]; apply srel_pS; apply pS_deliver|].
  destruct (Cluster.Model.k_kind rp =? K_FixVersion).
  { cbn [fst]. apply srel_pS. rewrite pS_start_fix. reflexivity. }
  pose proof (srel_exec_rpc fx st e extra) as M1. unfold st_of in M1.
  destruct (exec_rpc fx st e extra) as [[[st1 res] en] dump]. cbn [fst] in M1.
  assert (M2: srel st (fst (if mode =? 3 then let '(s', _, _, d') := exec_rpc fx st1 e extra in (s', d') else (st1, dump)))).
  { destruct (mode =? 3); [|exact M1].
    pose proof (srel_exec_rpc fx st1 e extra) as M3. unfold st_of in M3.
    destruct (exec_rpc fx st1 e extra) as [[[s' ?] ?] d']. cbn [fst] in *. eapply srel_trans; eauto. }
  destruct (if mode =? 3 then _ else _) as [st2 dump2]. cbn [fst] in *.
  eapply srel_pS_r; [apply pS_deliver|exact M2].
Qed.

Lemma srel_step_restart fx st ts : srel st (fst (step_restart fx st ts)).
Proof.
  unfold step_restart. cbn [fst].
  eapply srel_pS_r; [|apply (srel_restart st ts)].
  unfold restart_store. apply fold_fr. intros s x. destruct (find _ _); [apply pS_deliver|reflexivity].
Qed.

Lemma srel_step fx st ev : ev_run ev = true -> srel st (fst (step_fx fx st ev)).
Proof.
  intros Hev. unfold step_fx. eapply srel_pS_l with (a' := begin_event st); [reflexivity|]. set (s := begin_event st).
  destruct ev as [|c a]; [apply srel_refl|].
  cbn [ev_run existsb] in Hev.
  destruct (c =? 1) eqn:C1; [apply Z.eqb_eq in C1; subst c; discriminate|].
  destruct (c =? 2) eqn:C2; [apply Z.eqb_eq in C2; subst c; discriminate|].
  destruct (c =? 20) eqn:C20; [apply Z.eqb_eq in C20; subst c; discriminate|].
  destruct (c =? 21) eqn:C21; [apply Z.eqb_eq in C21; subst c; discriminate|].
  destruct (c =? 22).
  { destruct a as [|blob [|tract [|]]]; try apply srel_refl. destruct (dget s _); apply srel_refl. }
  destruct (c =? 3).
  { destruct a as [|op [|cli [|blob [|tract [|off [|len [|wid [|]]]]]]]]; try apply srel_refl.
    destruct (negb (op_fresh s op) || (len <=? 0)); cbn [fst]; [apply srel_refl|apply srel_pS; reflexivity]. }
  destruct (c =? 6).
  { destruct a as [|blob [|tract [|ver [|badts [|]]]]]; try apply srel_refl. cbn [fst]. apply srel_pS. apply pS_start_fix. }
  destruct (c =? 7).
  { destruct a; [apply srel_refl|apply srel_step_exec]. }
  destruct (c =? 9).
  { destruct a as [|ts [|]]; try apply srel_refl. apply srel_step_restart. }
  destruct (c =? 10). { cbn [fst]. apply srel_pS. reflexivity. }
  destruct (c =? 11).
  { destruct a as [|ts [|]]; try apply srel_refl. cbn [fst]. apply srel_pS. reflexivity. }
  destruct (c =? 80).
  { destruct a as [|op [|]]; try apply srel_refl.
    destruct (negb (op_fresh s op)); [apply srel_refl|].
    pose proof (pS_round_start s op) as M. destruct (round_start s op) as [st1 obs]. apply srel_pS. exact M. }
  destruct (c =? 30).
  { destruct a as [|blob [|tract [|off [|len [|nt tries]]]]]; apply srel_refl. }
  destruct (c =? 81) eqn:C81; [apply Z.eqb_eq in C81; subst c; discriminate|].
  destruct (c =? 82); [apply srel_refl|].
  destruct (c =? 84); [apply srel_refl|].
  destruct (c =? 83); [apply srel_refl|].
  destruct (c =? 31).
  { destruct a as [|blob [|]]; try apply srel_refl. destruct (Cluster.Model.zget _ _); apply srel_refl. }
  apply srel_refl.
Qed.

Lemma srel_run fx evs : forallb ev_run evs = true -> forall st, srel st (run_state_fx fx st evs).
Proof.
  induction evs as [|ev evs IH]; intros H st; cbn; [apply srel_refl|].
  cbn in H. apply andb_true_iff in H. destruct H as [H1 H2].
  eapply srel_trans; [apply srel_step; exact H1|apply IH; exact H2].
Qed.

(* ------------------------------------------------------------------ I1 *)
(* from ANY state, over ANY run-phase schedule: if the stamp a Stat returned is still the replica's stamp, the
   replica's list of applied writes is the one it had at the Stat (and its version has not gone down) *)
Theorem I1_stamp_unchanged_writes_unchanged :
  forall fx st evs ts tk v e sz stamp,
    forallb ev_run evs = true ->
    ts_stat st ts tk v = (e, sz, stamp) -> e <> cl_ErrNoSuchTract ->
    stamp_of (run_state_fx fx st evs) ts tk = stamp ->
    exists r r', rget (s_reps st) (ts, tk) = Some r /\ rget (s_reps (run_state_fx fx st evs)) (ts, tk) = Some r' /\
                 r_app r' = r_app r /\ r_ver r <= r_ver r'.
Proof.
  intros fx st evs ts tk v e sz stamp Hev Hs Hne Hst.
  unfold ts_stat in Hs. destruct (rget (s_reps st) (ts, tk)) as [r|] eqn:Hr.
  2:{ inversion Hs; subst. congruence. }
  assert (Hstamp: stamp = stamp_of st ts tk).
  { destruct (r_ver r =? v); inversion Hs; reflexivity. }
  destruct (srel_run fx evs Hev st ts tk r Hr) as [r' [G1 [G2 [_ [G4 _]]]]].
  exists r, r'. split; [reflexivity|]. split; [exact G1|]. split; [apply G4; congruence|exact G2].
Qed.

(* a write attempt at the replica changes the stamp for good: stamps never return to an earlier value *)
Theorem I1_stamps_monotone :
  forall fx st evs ts tk r, forallb ev_run evs = true -> rget (s_reps st) (ts, tk) = Some r ->
    sle (stamp_of st ts tk) (stamp_of (run_state_fx fx st evs) ts tk).
Proof.
  intros fx st evs ts tk r Hev Hr. destruct (srel_run fx evs Hev st ts tk r Hr) as [r' [_ [_ [G3 _]]]]. exact G3.
Qed.
