(* C14/InvVer.v — invariant I3, part (a): everything a client, a fixVersion task or a tractPacker holds about a tract
   is bounded by the durable record: location entries (cached or in use) and pending Write calls carry versions <= the
   durable version; while the tract has no RS pointer the hosts they name are the durable hosts.  Needs fx6 (the
   version-checked commit): without it CommitRSChunk may move the durable version backwards. *)
From Coq Require Import List ZArith Bool Lia.
From BLB Require Import Gen.Consts.
From BLB Require Cluster.Model.
From BLB Require Import C14.Model C14.Proofs C14.Run C14.Late C14.InvFrame C14.InvStore.
Import ListNotations.
Open Scope Z_scope.

Notation tget := Cluster.Model.tget.
Notation tset := Cluster.Model.tset.
Notation k_kind := Cluster.Model.k_kind.
Notation k_ts := Cluster.Model.k_ts.
Notation k_ver := Cluster.Model.k_ver.
Notation k_blob := Cluster.Model.k_blob.
Notation k_tract := Cluster.Model.k_tract.
Notation tkey := Cluster.Model.tkey.

Definition sorted_hosts (l : list Z) : list Z := fold_right Cluster.Model.insert_sorted [] l.
Definition rpc_tk (r : rpc) : tkt := tkey (k_blob r) (k_tract r).

(* ------------------------------------------------------------------ durable records only move forward *)
Definition dstep (m m' : list (tkt * dtr)) : Prop :=
  forall tk d, tget m tk = Some d ->
    exists d', tget m' tk = Some d' /\ d_ver d <= d_ver d' /\
               (d_rs d' = None -> d_rs d = None /\ d_hosts d' = d_hosts d).

Lemma dstep_refl m : dstep m m.
Proof. intros tk d H. exists d. split; [exact H|]. split; [lia|auto]. Qed.
Lemma dstep_trans a b c : dstep a b -> dstep b c -> dstep a c.
Proof.
  intros H1 H2 tk d H. destruct (H1 _ _ H) as [d1 [E1 [V1 K1]]]. destruct (H2 _ _ E1) as [d2 [E2 [V2 K2]]].
  exists d2. split; [exact E2|]. split; [lia|]. intros N. destruct (K2 N) as [N1 Hh]. destruct (K1 N1) as [N0 Hh0].
  split; [exact N0|congruence].
Qed.

(* ------------------------------------------------------------------ what is held about a tract *)
Definition ent_ok (m : list (tkt * dtr)) (tk : tkt) (e : centry) : Prop :=
  exists d, tget m tk = Some d /\ ce_ver e <= d_ver d /\
            (ce_rs e = false -> d_rs d = None -> map fst (ce_hosts e) = sorted_hosts (d_hosts d)).
Definition wr_ok (m : list (tkt * dtr)) (r : rpc) : Prop :=
  exists d, tget m (rpc_tk r) = Some d /\ k_ver r <= d_ver d.
Definition fix_ok (m : list (tkt * dtr)) (f : ftask) : Prop :=
  exists d, tget m (f_tk f) = Some d /\ (d_rs d = None -> f_hosts f = d_hosts d).
Definition ptr_ok (m : list (tkt * dtr)) (p : ptr) : Prop :=
  exists d, tget m (pt_tk p) = Some d /\ pt_ver p <= d_ver d /\ (d_rs d = None -> incl (pt_from p) (d_hosts d)).

Lemma ent_ok_dstep m m' tk e : dstep m m' -> ent_ok m tk e -> ent_ok m' tk e.
Proof.
  intros S [d [H [V K]]]. destruct (S _ _ H) as [d' [H' [V' K']]]. exists d'. split; [exact H'|]. split; [lia|].
  intros R N. destruct (K' N) as [N0 Hh]. rewrite Hh. auto.
Qed.
Lemma wr_ok_dstep m m' r : dstep m m' -> wr_ok m r -> wr_ok m' r.
Proof. intros S [d [H V]]. destruct (S _ _ H) as [d' [H' [V' _]]]. exists d'. split; [exact H'|lia]. Qed.
Lemma fix_ok_dstep m m' f : dstep m m' -> fix_ok m f -> fix_ok m' f.
Proof.
  intros S [d [H K]]. destruct (S _ _ H) as [d' [H' [_ K']]]. exists d'. split; [exact H'|].
  intros N. destruct (K' N) as [N0 Hh]. rewrite Hh. auto.
Qed.
Lemma ptr_ok_dstep m m' p : dstep m m' -> ptr_ok m p -> ptr_ok m' p.
Proof.
  intros S [d [H [V K]]]. destruct (S _ _ H) as [d' [H' [V' K']]]. exists d'. split; [exact H'|]. split; [lia|].
  intros N. destruct (K' N) as [N0 Hh]. rewrite Hh. auto.
Qed.

Record DInv (st : state) : Prop := {
  dv_cache : forall cli tk e, In (cli, (tk, e)) (s_cache st) -> ent_ok (s_dtr st) tk e;
  dv_wops : forall w e, In w (s_wops st) -> wo_entry w = Some e -> ent_ok (s_dtr st) (w_tk w) e;
  dv_pool : forall pe, In pe (s_pool st) -> k_kind (p_rpc pe) = K_Write -> wr_ok (s_dtr st) (p_rpc pe);
  dv_fix : forall f, In f (s_fix st) -> f_hosts f = [] \/ fix_ok (s_dtr st) f;
  dv_rounds : forall r p, In r (s_rounds st) -> In p (rd_tracts r) -> ptr_ok (s_dtr st) p
}.

Definition pD (st : state) := (s_dtr st, s_cache st, s_wops st, s_pool st, s_fix st, s_rounds st).

Lemma DInv_pD st st' : pD st' = pD st -> DInv st -> DInv st'.
Proof.
  unfold pD. intros H [A B C D E]. injection H as H1 H2 H3 H4 H5 H6.
  constructor; rewrite ?H1, ?H2, ?H3, ?H4, ?H5, ?H6; assumption.
Qed.

(* ------------------------------------------------------------------ component updates *)
Lemma DInv_set_wops st l : DInv st ->
  (forall w e, In w l -> wo_entry w = Some e -> ent_ok (s_dtr st) (w_tk w) e) -> DInv (set_wops st l).
Proof. intros [A B C D E] H. constructor; cbn; assumption. Qed.
Lemma DInv_set_cache st c : DInv st ->
  (forall cli tk e, In (cli, (tk, e)) c -> ent_ok (s_dtr st) tk e) -> DInv (set_cache st c).
Proof. intros [A B C D E] H. constructor; cbn; assumption. Qed.
Lemma DInv_set_pool st l n : DInv st ->
  (forall pe, In pe l -> k_kind (p_rpc pe) = K_Write -> wr_ok (s_dtr st) (p_rpc pe)) -> DInv (set_pool st l n).
Proof. intros [A B C D E] H. constructor; cbn; assumption. Qed.
Lemma DInv_set_fix st l n : DInv st ->
  (forall f, In f l -> f_hosts f = [] \/ fix_ok (s_dtr st) f) -> DInv (set_fix st l n).
Proof. intros [A B C D E] H. constructor; cbn; assumption. Qed.
Lemma DInv_set_rounds st l : DInv st ->
  (forall r p, In r l -> In p (rd_tracts r) -> ptr_ok (s_dtr st) p) -> DInv (set_rounds st l).
Proof. intros [A B C D E] H. constructor; cbn; assumption. Qed.
Lemma DInv_dstep st st' : DInv st -> dstep (s_dtr st) (s_dtr st') ->
  s_cache st' = s_cache st -> s_wops st' = s_wops st -> s_pool st' = s_pool st -> s_fix st' = s_fix st -> s_rounds st' = s_rounds st ->
  DInv st'.
Proof.
  intros [A B C D E] S H1 H2 H3 H4 H5. constructor; rewrite ?H1, ?H2, ?H3, ?H4, ?H5.
  - intros. eapply ent_ok_dstep; eauto.
  - intros. eapply ent_ok_dstep; eauto.
  - intros. eapply wr_ok_dstep; eauto.
  - intros f Hf. destruct (D f Hf) as [K|K]; [left; exact K|right; eapply fix_ok_dstep; eauto].
  - intros. eapply ptr_ok_dstep; eauto.
Qed.

Lemma DInv_issue st r o : DInv st -> (k_kind r = K_Write -> wr_ok (s_dtr st) r) -> DInv (issue st r o).
Proof.
  intros HI H. unfold issue. apply DInv_set_pool; [exact HI|].
  intros pe Hin K. apply in_app_or in Hin. destruct Hin as [Hin|[Hin|[]]]; [exact (dv_pool _ HI pe Hin K)|subst pe; exact (H K)].
Qed.
Lemma DInv_issue_nw st r o : DInv st -> k_kind r <> K_Write -> DInv (issue st r o).
Proof. intros HI H. apply DInv_issue; [exact HI|]. intros K. contradiction. Qed.
Lemma DInv_pool_remove st id n : DInv st -> DInv (set_pool st (pool_remove (s_pool st) id) n).
Proof.
  intros HI. apply DInv_set_pool; [exact HI|]. intros pe Hin. unfold pool_remove in Hin. apply filter_In in Hin.
  apply (dv_pool _ HI). tauto.
Qed.
Lemma DInv_upd_wop st w' : DInv st -> (forall e, wo_entry w' = Some e -> ent_ok (s_dtr st) (w_tk w') e) ->
  DInv (set_wops st (upd_wop (s_wops st) w')).
Proof.
  intros HI H. apply DInv_set_wops; [exact HI|]. intros w e Hin. apply in_upd_wop in Hin.
  destruct Hin as [Hin|Hin]; [apply (dv_wops _ HI); exact Hin|subst w; apply H].
Qed.
Lemma DInv_del_wop st op : DInv st -> DInv (set_wops st (del_wop (s_wops st) op)).
Proof. intros HI. apply DInv_set_wops; [exact HI|]. intros w e Hin. apply in_del_wop in Hin. apply (dv_wops _ HI); exact Hin. Qed.

Lemma DInv_finish_w st w n err : DInv st -> DInv (finish_w st w n err).
Proof.
  intros HI. unfold finish_w.
  assert (B: DInv (add_fin (set_wops st (del_wop (s_wops st) (wo_op w))) (wo_op w) n err)).
  { eapply DInv_pD; [|apply (DInv_del_wop st (wo_op w) HI)]. reflexivity. }
  destruct (_ && _); [|exact B]. destruct (_ && _); (eapply DInv_pD; [|exact B]; reflexivity).
Qed.

Lemma w_tk_w_set w a b c d e f : w_tk (w_set w a b c d e f) = w_tk w. Proof. reflexivity. Qed.

Lemma DInv_fold_issue_w st w (hs : list (Z * Z)) v :
  DInv st -> wr_ok (s_dtr st) (mk_write w 0 v) ->
  DInv (fold_left (fun s '(h, _) => issue s (mk_write w h v) (wo_op w)) hs st).
Proof.
  revert st. induction hs as [|[h k] hs IH]; intros st HI H; cbn [fold_left]; [exact HI|].
  apply IH; [apply DInv_issue; [exact HI|intros _; exact H]|exact H].
Qed.

(* ------------------------------------------------------------------ client *)
Lemma DInv_w_after_entry fx st w e cached :
  DInv st -> ent_ok (s_dtr st) (w_tk w) e -> DInv (w_after_entry fx st w e cached).
Proof.
  intros HI He. unfold w_after_entry.
  destruct (fx14 fx && _); [apply DInv_finish_w; exact HI|].
  destruct (existsb _ _); [apply DInv_finish_w; exact HI|].
  destruct (ce_hosts e) as [|h hs] eqn:Eh; [apply DInv_finish_w; exact HI|].
  apply DInv_fold_issue_w.
  - apply DInv_upd_wop; [exact HI|]. cbn [wo_entry w_set]. intros e0 E0. injection E0 as <-. exact He.
  - destruct He as [d [H1 [H2 _]]]. exists d. split; [exact H1|exact H2].
Qed.

Lemma cache_get_in m cli tk e : cache_get m cli tk = Some e -> In (cli, (tk, e)) m.
Proof.
  induction m as [|[c [k x]] m IH]; cbn; [discriminate|].
  destruct ((c =? cli) && tk_eqb k tk) eqn:E.
  - intros H. injection H as <-. apply andb_true_iff in E. destruct E as [E1 E2].
    apply Z.eqb_eq in E1. apply tk_eqb_eq in E2. subst. left. reflexivity.
  - intros H. right. apply IH. exact H.
Qed.

Lemma DInv_w_get fx st w : DInv st -> DInv (w_get fx st w).
Proof.
  intros HI. unfold w_get.
  destruct (if use_cache st (wo_cli w) then cache_get (s_cache st) (wo_cli w) (w_tk w) else None) as [e|] eqn:E.
  - apply DInv_w_after_entry; [exact HI|]. destruct (use_cache st (wo_cli w)); [|discriminate].
    apply cache_get_in in E. exact (dv_cache _ HI _ _ _ E).
  - apply DInv_issue_nw; [|vm_compute; discriminate].
    apply DInv_upd_wop; [exact HI|]. cbn. discriminate.
Qed.

Definition en_okD (st : state) (r : rpc) (en : option centry) : Prop :=
  forall e, en = Some e -> ent_ok (s_dtr st) (tkey (k_blob r) (nth 0 (Cluster.Model.k_aux r) 0)) e.
Lemma en_okD_none st r : en_okD st r None. Proof. intros e H. discriminate. Qed.

Lemma DInv_cache_put st cli tk e : DInv st -> ent_ok (s_dtr st) tk e -> DInv (set_cache st (cache_put (s_cache st) cli tk e)).
Proof.
  intros HI He. apply DInv_set_cache; [exact HI|]. intros c k x [H|H].
  - injection H as _ <- <-. exact He.
  - apply filter_In in H. apply (dv_cache _ HI c). tauto.
Qed.
Lemma DInv_cache_inval st cli blob : DInv st -> DInv (set_cache st (cache_inval (s_cache st) cli blob)).
Proof.
  intros HI. apply DInv_set_cache; [exact HI|]. intros c k x H. apply filter_In in H. apply (dv_cache _ HI c). tauto.
Qed.

Lemma DInv_cli_reply fx st op r res en : DInv st -> en_okD st r en -> DInv (cli_reply fx st op r res en).
Proof.
  intros HI Hen. unfold cli_reply.
  destruct (find_wop (s_wops st) op) as [w|] eqn:Fw; [|exact HI].
  apply find_wop_in in Fw. destruct Fw as [Hin _].
  pose proof (dv_wops _ HI w) as Hw. specialize (Hw).
  destruct (k_kind r =? K_StatBlob).
  { destruct (negb (wo_phase w =? 1)); [exact HI|].
    destruct (negb (hd cl_ErrRPC res =? cl_NoError)).
    - destruct (wo_retry w); [|apply DInv_finish_w; exact HI].
      apply DInv_issue_nw; [|vm_compute; discriminate]. apply DInv_upd_wop; [exact HI|]. cbn. discriminate.
    - destruct (negb _); [apply DInv_finish_w; exact HI|].
      destruct (_ <=? _); [apply DInv_finish_w; exact HI|apply DInv_w_get; exact HI]. }
  destruct (k_kind r =? K_GetTracts).
  { destruct ((wo_phase w =? 2) && (k_blob r =? wo_blob w) && (nth 0 (Cluster.Model.k_aux r) 0 =? wo_tract w)) eqn:G; cbn [negb]; [|exact HI].
    apply andb_true_iff in G. destruct G as [G G3]. apply andb_true_iff in G. destruct G as [_ G2].
    apply Z.eqb_eq in G2, G3.
    destruct (negb (hd cl_ErrRPC res =? cl_NoError)); [apply DInv_finish_w; exact HI|].
    destruct en as [e|]; [|apply DInv_finish_w; exact HI].
    assert (He: ent_ok (s_dtr st) (w_tk w) e). { specialize (Hen e eq_refl). rewrite G2, G3 in Hen. exact Hen. }
    destruct (use_cache st (wo_cli w)).
    - apply DInv_w_after_entry; [apply DInv_cache_put; assumption|exact He].
    - apply DInv_w_after_entry; assumption. }
  destruct (k_kind r =? K_Write).
  { destruct (negb (wo_phase w =? 3)); [exact HI|].
    set (res' := map _ (wo_res w)).
    set (w' := w_set w 3 (wo_cached w) (wo_retry w) (wo_entry w) res' 0).
    assert (HI1: DInv (set_wops st (upd_wop (s_wops st) w'))).
    { apply DInv_upd_wop; [exact HI|]. cbn [wo_entry w' w_set]. intros e E. exact (Hw e Hin E). }
    destruct (existsb _ res'); [exact HI1|].
    destruct (first_bad res') as [[h e]|]; [|apply DInv_finish_w; exact HI1].
    destruct (wo_cached w).
    - apply DInv_issue_nw; [|vm_compute; discriminate].
      match goal with |- DInv (set_wops ?s (upd_wop _ ?x)) => apply (DInv_upd_wop s x) end.
      + apply DInv_cache_inval. exact HI1.
      + cbn. discriminate.
    - destruct (e =? cl_ErrRPC).
      + apply DInv_issue_nw; [|vm_compute; discriminate].
        match goal with |- DInv (set_wops ?s (upd_wop _ ?x)) => apply (DInv_upd_wop s x) end; [exact HI1|].
        cbn [wo_entry w_set w']. intros e0 E0. exact (Hw e0 Hin E0).
      + destruct (e =? cl_ErrVersionMismatch); [|apply DInv_finish_w; exact HI1].
        apply DInv_issue_nw; [|vm_compute; discriminate].
        match goal with |- DInv (set_wops ?s (upd_wop _ ?x)) => apply (DInv_upd_wop s x) end; [exact HI1|].
        cbn [wo_entry w_set w']. intros e0 E0. exact (Hw e0 Hin E0). }
  destruct (negb (wo_phase w =? 4)); [exact HI|apply DInv_finish_w; exact HI].
Qed.

(* ------------------------------------------------------------------ fixVersion *)
Lemma in_del_fix l id f : In f (del_fix l id) -> In f l.
Proof. unfold del_fix. intros H. apply filter_In in H. tauto. Qed.
Lemma in_upd_fix l f' f : In f (upd_fix l f') -> In f l \/ f = f'.
Proof.
  unfold upd_fix. intros H. apply in_map_iff in H. destruct H as [x [E Hx]].
  destruct (f_id x =? f_id f'); [right; congruence|left; congruence].
Qed.
Lemma find_fix_in l id f : find_fix l id = Some f -> In f l.
Proof.
  induction l as [|x l IH]; cbn; [discriminate|]. destruct (f_id x =? id).
  - intros H. injection H as <-. left. reflexivity.
  - intros H. right. auto.
Qed.

Lemma DInv_finish_fix fx st f e : DInv st -> DInv (finish_fix fx st f e).
Proof.
  intros HI. unfold finish_fix.
  assert (B: DInv (set_fixes st (del_fix (s_fix st) (f_id f)))).
  { apply DInv_set_fix; [exact HI|]. intros x Hx. apply in_del_fix in Hx. exact (dv_fix _ HI x Hx). }
  destruct (f_rpc f =? 0); [exact B|].
  destruct (find _ _) as [pe|]; [|exact B].
  apply DInv_cli_reply; [|apply en_okD_none]. apply DInv_pool_remove. exact B.
Qed.

Lemma DInv_fold_issue_nw {A} st (l : list A) (g : A -> rpc) o :
  (forall x, k_kind (g x) <> K_Write) -> DInv st -> DInv (fold_left (fun s x => issue s (g x) o) l st).
Proof. intros Hg. revert st. induction l; intros st H; cbn; [exact H|]. apply IHl. apply DInv_issue_nw; auto. Qed.

Lemma DInv_activate_fix fx st f : DInv st -> DInv (activate_fix fx st f).
Proof.
  intros HI. unfold activate_fix.
  destruct (dget st (f_tk f)) as [d|] eqn:D; [|apply DInv_finish_fix; exact HI].
  destruct (d_rs d) eqn:R; [apply DInv_finish_fix; exact HI|].
  repeat match goal with |- context [if ?b then _ else _] => destruct b end; try (apply DInv_finish_fix; exact HI).
  apply DInv_fold_issue_nw; [intros; vm_compute; discriminate|].
  apply DInv_set_fix; [exact HI|]. intros x Hx. apply in_upd_fix in Hx. destruct Hx as [Hx|Hx]; [exact (dv_fix _ HI x Hx)|].
  subst x. right. exists d. cbn [f_tk f_hosts]. split; [exact D|auto].
Qed.

Lemma DInv_wake fx n : forall st, DInv st -> DInv (wake fx n st).
Proof.
  induction n; intros st HI; cbn [wake]; [exact HI|].
  destruct (find _ _); [|exact HI]. apply IHn. apply DInv_activate_fix; assumption.
Qed.

Lemma DInv_start_fix fx st g tk c b r : DInv st -> DInv (start_fix fx st g tk c b r).
Proof.
  intros HI. unfold start_fix.
  match goal with |- context [set_fix st ?a ?b] => assert (B: DInv (set_fix st a b)) end.
  { apply DInv_set_fix; [exact HI|]. intros x Hx. apply in_app_or in Hx. destruct Hx as [Hx|[Hx|[]]]; [exact (dv_fix _ HI x Hx)|].
    subst x. left. reflexivity. }
  destruct (negb _); apply DInv_wake; auto. apply DInv_finish_fix; auto.
Qed.

Lemma dstep_tset m tk d d' : tget m tk = Some d -> d_ver d <= d_ver d' ->
  (d_rs d' = None -> d_rs d = None /\ d_hosts d' = d_hosts d) -> dstep m (tset m tk d').
Proof.
  intros H V K tk0 d0 H0. rewrite tget_tset. destruct (tk_eqb tk0 tk) eqn:E.
  - apply tk_eqb_eq in E. subst. rewrite H in H0. injection H0 as <-. exists d'. auto.
  - exists d0. split; [exact H0|]. split; [lia|auto].
Qed.

Lemma dstep_change_tract st term tk ver hosts :
  (forall d, dget st tk = Some d -> d_rs d = None -> hosts = [] \/ hosts = d_hosts d) ->
  dstep (s_dtr st) (s_dtr (fst (change_tract st term tk ver hosts))).
Proof.
  intros H. unfold change_tract.
  destruct (negb (term =? s_term st)); [apply dstep_refl|].
  destruct (dget st tk) as [d|] eqn:D; [|apply dstep_refl].
  destruct (negb _) eqn:L; [apply dstep_refl|]. apply negb_false_iff, Z.eqb_eq in L.
  destruct (negb (d_ver d + 1 =? ver)) eqn:V; [apply dstep_refl|].
  apply negb_false_iff, Z.eqb_eq in V. cbn [fst s_dtr set_dtr set_dur].
  eapply dstep_tset; [exact D|cbn; lia|]. cbn. intros N. split; [exact N|].
  destruct (H d eq_refl N) as [K|K]; [|exact K].
  subst hosts. cbn in L. destruct (d_hosts d); [reflexivity|cbn in L; lia].
Qed.

Definition pD5 (st : state) := (s_cache st, s_wops st, s_pool st, s_fix st, s_rounds st).
Lemma pD5_change_tract st term tk ver hosts : pD5 (fst (change_tract st term tk ver hosts)) = pD5 st.
Proof. apply (fr_change_tract _ pD5); fr. Qed.

Lemma DInv_pD5 st st' : DInv st -> dstep (s_dtr st) (s_dtr st') -> pD5 st' = pD5 st -> DInv st'.
Proof. intros HI S H. unfold pD5 in H. injection H as H1 H2 H3 H4 H5. eapply DInv_dstep; eauto. Qed.

Lemma DInv_fix_reply fx st id err : DInv st -> DInv (fix_reply fx st id err).
Proof.
  intros HI. unfold fix_reply. destruct (find_fix _ _) as [f|] eqn:Ff; [|exact HI].
  destruct (negb _); [apply DInv_wake; apply DInv_finish_fix; exact HI|].
  pose proof (find_fix_in _ _ _ Ff) as Fin.
  destruct (1 <? f_wait f).
  { apply DInv_set_fix; [exact HI|]. intros x Hx. apply in_upd_fix in Hx. destruct Hx as [Hx|Hx]; [exact (dv_fix _ HI x Hx)|].
    subst x. exact (dv_fix _ HI f Fin). }
  assert (S: dstep (s_dtr st) (s_dtr (fst (change_tract st (f_term f) (f_tk f) (f_dv f + 1) (f_hosts f))))).
  { apply dstep_change_tract. intros d D N. destruct (dv_fix _ HI f Fin) as [K|[d0 [D0 K]]]; [left; exact K|right].
    unfold dget in D. rewrite D in D0. injection D0 as <-. auto. }
  pose proof (pD5_change_tract st (f_term f) (f_tk f) (f_dv f + 1) (f_hosts f)) as Q.
  destruct (change_tract _ _ _ _ _) as [st1 e]. cbn [fst] in *.
  apply DInv_wake. apply DInv_finish_fix. eapply DInv_pD5; eauto.
Qed.

(* ------------------------------------------------------------------ rounds *)
Definition rd_ok (m : list (tkt * dtr)) (r : round) : Prop := forall p, In p (rd_tracts r) -> ptr_ok m p.

Lemma in_upd_round l r' r : In r (upd_round l r') -> In r l \/ r = r'.
Proof.
  unfold upd_round. intros H. apply in_map_iff in H. destruct H as [x [E Hx]].
  destruct (rd_op x =? rd_op r'); [right; congruence|left; congruence].
Qed.
Lemma in_del_round l op r : In r (del_round l op) -> In r l.
Proof. unfold del_round. intros H. apply filter_In in H. tauto. Qed.
Lemma find_round_in l op r : find_round l op = Some r -> In r l.
Proof.
  induction l as [|x l IH]; cbn; [discriminate|]. destruct (rd_op x =? op).
  - intros H. injection H as <-. left. reflexivity.
  - intros H. right. auto.
Qed.
Lemma find_ptr_in l tk p : find_ptr l tk = Some p -> In p l.
Proof.
  induction l as [|x l IH]; cbn; [discriminate|]. destruct (tk_eqb (pt_tk x) tk).
  - intros H. injection H as <-. left. reflexivity.
  - intros H. right. auto.
Qed.
Lemma in_upd_ptr l p' p : In p (upd_ptr l p') -> In p l \/ p = p'.
Proof.
  unfold upd_ptr. intros H. apply in_map_iff in H. destruct H as [x [E Hx]].
  destruct (tk_eqb (pt_tk x) (pt_tk p')); [right; congruence|left; congruence].
Qed.

Lemma DInv_upd_round st r : DInv st -> rd_ok (s_dtr st) r -> DInv (set_rounds st (upd_round (s_rounds st) r)).
Proof.
  intros HI H. apply DInv_set_rounds; [exact HI|]. intros x p Hx. apply in_upd_round in Hx.
  destruct Hx as [Hx|Hx]; [exact (dv_rounds _ HI x p Hx)|subst x; apply H].
Qed.
Lemma DInv_del_round st op : DInv st -> DInv (set_rounds st (del_round (s_rounds st) op)).
Proof.
  intros HI. apply DInv_set_rounds; [exact HI|]. intros x p Hx. apply in_del_round in Hx. exact (dv_rounds _ HI x p Hx).
Qed.

Lemma DInv_round_check_over st r : DInv st -> rd_ok (s_dtr st) r -> DInv (round_check_over st r).
Proof.
  intros HI H. unfold round_check_over. destruct (forallb _ _).
  - eapply DInv_pD; [|apply (DInv_del_round st (rd_op r) HI)]. reflexivity.
  - apply DInv_upd_round; assumption.
Qed.

Lemma DInv_round_after_stats st r : DInv st -> rd_ok (s_dtr st) r -> DInv (round_after_stats st r).
Proof.
  intros HI H. unfold round_after_stats. destruct (_ =? 0).
  - apply DInv_round_check_over; [exact HI|exact H].
  - apply DInv_issue_nw; [|vm_compute; discriminate]. apply DInv_upd_round; [exact HI|exact H].
Qed.

Lemma ptr_ok_pt_set m p a b c d e : ptr_ok m p -> ptr_ok m (pt_set p a b c d e).
Proof. intros H. exact H. Qed.

Lemma rd_ok_upd_ptr m r p' ph encs dn :
  rd_ok m r -> ptr_ok m p' -> rd_ok m (rd_set r ph (upd_ptr (rd_tracts r) p') encs dn).
Proof.
  intros H Hp p Hin. cbn [rd_tracts rd_set] in Hin. apply in_upd_ptr in Hin. destruct Hin as [Hin|Hin]; [apply H; exact Hin|subst; exact Hp].
Qed.

Lemma DInv_stat_reply fx st r tk h e sz stamp : DInv st -> rd_ok (s_dtr st) r -> DInv (stat_reply fx st r tk h e sz stamp).
Proof.
  intros HI H. unfold stat_reply.
  destruct (find_ptr _ _) as [p|] eqn:Fp; [|exact HI].
  pose proof (H p (find_ptr_in _ _ _ Fp)) as Hp.
  match goal with |- context [match pt_next ?p1 with _ => _ end] => set (P1 := p1) end.
  assert (Hp1: ptr_ok (s_dtr st) P1).
  { unfold P1. repeat match goal with |- context [if ?b then _ else _] => destruct b end; exact Hp. }
  destruct (pt_next P1).
  - match goal with |- context [rd_set r 1 (upd_ptr (rd_tracts r) ?p2) [] (rd_done r)] => set (P2 := p2) end.
    assert (R2: rd_ok (s_dtr st) (rd_set r 1 (upd_ptr (rd_tracts r) P2) [] (rd_done r))).
    { apply rd_ok_upd_ptr; [exact H|exact Hp1]. }
    assert (B: DInv (set_rounds st (upd_round (s_rounds st) (rd_set r 1 (upd_ptr (rd_tracts r) P2) [] (rd_done r))))).
    { apply DInv_upd_round; assumption. }
    match goal with |- DInv (if ?c then _ else _) => destruct c end;
    match goal with |- context [if ?c then start_fix _ _ _ _ _ _ _ else _] => destruct c end;
    try (apply DInv_round_after_stats; [|first [rewrite (fr_start_fix _ s_dtr) by fr; exact R2|exact R2]]);
    try (apply DInv_start_fix); exact B.
  - apply DInv_issue_nw; [|vm_compute; discriminate]. apply DInv_upd_round; [exact HI|].
    apply rd_ok_upd_ptr; [exact H|exact Hp1].
Qed.

Lemma rd_ok_rd_set m r ph encs dn : rd_ok m r -> rd_ok m (rd_set r ph (rd_tracts r) encs dn).
Proof. intros H p Hp. exact (H p Hp). Qed.

Lemma DInv_cleanup st g e : DInv st -> DInv (cleanup st g e).
Proof.
  intros HI. unfold cleanup.
  assert (B: forall l s i, DInv s -> DInv (fst (fold_left (fun '(s, i) h => (issue s (mk_del g h (e_base e + i)) 0, i + 1)) l (s, i)))).
  { induction l as [|h l IH]; intros s i Hs; cbn [fold_left fst]; [exact Hs|].
    apply IH. apply DInv_issue_nw; [exact Hs|vm_compute; discriminate]. }
  apply B. exact HI.
Qed.
Lemma s_dtr_cleanup st g e : s_dtr (cleanup st g e) = s_dtr st.
Proof. apply (fr_cleanup _ s_dtr); fr. Qed.

Lemma DInv_enc_finish st r e ok : DInv st -> rd_ok (s_dtr st) r -> DInv (enc_finish st r e ok).
Proof.
  intros HI H. unfold enc_finish. apply DInv_round_check_over.
  - destruct ok; [exact HI|apply DInv_cleanup; exact HI].
  - destruct ok; [|rewrite s_dtr_cleanup]; apply rd_ok_rd_set; exact H.
Qed.

Lemma DInv_fold_issue_if {A} st (l : list A) (g : Z -> A -> rpc) (c : Z -> bool) o : forall i,
  (forall j x, k_kind (g j x) <> K_Write) -> DInv st ->
  DInv (fst (fold_left (fun '(s', i) h => (if c i then issue s' (g i h) o else s', i + 1)) l (st, i))).
Proof.
  revert st. induction l as [|h l IH]; intros st i Hg HI; cbn [fold_left fst]; [exact HI|].
  apply IH; [exact Hg|]. destruct (c i); [apply DInv_issue_nw; auto|exact HI].
Qed.
Lemma s_dtr_fold_issue_if {A} st (l : list A) (g : Z -> A -> rpc) (c : Z -> bool) o : forall i,
  s_dtr (fst (fold_left (fun '(s', i) h => (if c i then issue s' (g i h) o else s', i + 1)) l (st, i))) = s_dtr st.
Proof.
  revert st. induction l as [|h l IH]; intros st i; cbn [fold_left fst]; [reflexivity|].
  rewrite IH. destruct (c i); reflexivity.
Qed.

Lemma DInv_alloc_reply st r err base want hint : DInv st -> rd_ok (s_dtr st) r -> DInv (alloc_reply st r err base want hint).
Proof.
  intros HI H. unfold alloc_reply.
  destruct (negb (err =? cl_NoError)); [apply DInv_round_check_over; [exact HI|apply rd_ok_rd_set; exact H]|].
  match goal with |- context [if negb ?v then _ else _] => destruct (negb v) end.
  { eapply DInv_pD; [|apply (DInv_del_round st (rd_op r) HI)]. reflexivity. }
  match goal with |- DInv (round_check_over (fold_left ?f ?l ?s0) ?r') =>
    assert (B: forall l0 s, DInv s -> s_dtr s = s_dtr st -> DInv (fold_left f l0 s) /\ s_dtr (fold_left f l0 s) = s_dtr st) end.
  { induction l0 as [|x l0 IH]; intros s Hs Ds; cbn [fold_left]; [split; assumption|].
    apply IH.
    - apply (DInv_fold_issue_if s (e_hosts x) (fun i h => mk_pack (rd_gen r) h (e_base x + i)) (fun i => i <? RS_N) (rd_op r) 0); [|exact Hs].
      intros; vm_compute; discriminate.
    - rewrite (s_dtr_fold_issue_if s (e_hosts x) (fun i h => mk_pack (rd_gen r) h (e_base x + i)) (fun i => i <? RS_N) (rd_op r) 0). exact Ds. }
  match goal with |- DInv (round_check_over (fold_left ?f ?l ?s0) ?r') => destruct (B l s0) as [B1 B2] end.
  { apply DInv_upd_round; [exact HI|apply rd_ok_rd_set; exact H]. }
  { reflexivity. }
  apply DInv_round_check_over; [exact B1|]. rewrite B2. apply rd_ok_rd_set. exact H.
Qed.

Lemma DInv_round_reply fx st op rp res hint : DInv st -> DInv (round_reply fx st op rp res hint).
Proof.
  intros HI. unfold round_reply. destruct (find_round _ _) as [r|] eqn:Fr; [|exact HI].
  assert (H: rd_ok (s_dtr st) r). { intros p Hp. exact (dv_rounds _ HI r p (find_round_in _ _ _ Fr) Hp). }
  assert (U: forall ph encs dn, DInv (set_rounds st (upd_round (s_rounds st) (rd_set r ph (rd_tracts r) encs dn)))).
  { intros. apply DInv_upd_round; [exact HI|apply rd_ok_rd_set; exact H]. }
  destruct (k_kind rp =? K_CtlStat); [apply DInv_stat_reply; assumption|].
  destruct (k_kind rp =? K_Alloc); [apply DInv_alloc_reply; assumption|].
  destruct (k_kind rp =? K_PackTracts).
  { destruct (find_enc_chunk _ _) as [e|]; [|exact HI].
    destruct (0 <? _); [apply U|].
    destruct (negb _); [apply DInv_enc_finish; assumption|].
    apply DInv_issue_nw; [apply U|vm_compute; discriminate]. }
  destruct (k_kind rp =? K_RSEncode).
  { destruct (find_enc_chunk _ _) as [e|]; [|exact HI].
    destruct (negb _); [apply DInv_enc_finish; assumption|].
    match goal with |- DInv (fold_left _ ?l ?s0) => assert (B: DInv s0) by apply U; revert B; generalize s0; generalize l end.
    induction l as [|[[[a b] c] d] l IH]; intros s0 B; cbn [fold_left]; [exact B|].
    apply IH. apply DInv_issue_nw; [exact B|vm_compute; discriminate]. }
  destruct (k_kind rp =? K_SetVersion).
  { destruct (find_enc_tract _ _) as [e|]; [|exact HI].
    destruct (0 <? _); [apply U|].
    destruct (negb _); [apply DInv_enc_finish; assumption|].
    apply DInv_issue_nw; [apply U|vm_compute; discriminate]. }
  destruct (k_kind rp =? K_Commit).
  { destruct (find_enc_chunk _ _) as [e|]; [|exact HI]. apply DInv_enc_finish; assumption. }
  exact HI.
Qed.

(* ------------------------------------------------------------------ durable steps *)
Lemma dstep_commit_rs fx st op term base hosts tracts : fx6 fx = true ->
  dstep (s_dtr st) (s_dtr (fst (commit_rs fx st op term base hosts tracts))).
Proof.
  intros Hfx. unfold commit_rs. destruct (negb (term =? s_term st)); [apply dstep_refl|].
  destruct (negb (commit_checks fx st tracts =? cl_NoError)) eqn:Ec; [apply dstep_refl|].
  apply negb_false_iff, Z.eqb_eq in Ec. unfold commit_checks in Ec. apply commit_checks_fold in Ec. destruct Ec as [_ Hall].
  cbn [fst s_dtr set_ghost set_dtr set_dur].
  match goal with |- dstep _ (fold_left ?f _ _) => set (F := f) end.
  assert (Q: forall l m, (forall x, In x l -> check_one fx st x = cl_NoError) ->
             (forall tk d0, tget (s_dtr st) tk = Some d0 -> exists d', tget m tk = Some d' /\ (d' = d0 \/ (d_rs d' <> None /\ d_ver d' = d_ver d0 + 1))) ->
             forall tk d0, tget (s_dtr st) tk = Some d0 -> exists d', tget (fold_left F l m) tk = Some d' /\ (d' = d0 \/ (d_rs d' <> None /\ d_ver d' = d_ver d0 + 1))).
  { induction l as [|x l IH]; intros m Hl Hm; cbn [fold_left]; [exact Hm|].
    apply IH; [intros y Hy; apply Hl; right; exact Hy|].
    pose proof (Hl x (or_introl eq_refl)) as Hx. destruct x as [[[[tk off] len] nv] idx]. unfold check_one in Hx.
    intros tk0 d0 H0. unfold F. destruct (tget m tk) as [d|] eqn:Dm; [|apply Hm; exact H0].
    rewrite tget_tset. destruct (tk_eqb tk0 tk) eqn:E; [|apply Hm; exact H0].
    apply tk_eqb_eq in E. subst tk0. eexists. split; [reflexivity|]. right. cbn. split; [discriminate|].
    unfold dget in Hx. rewrite H0 in Hx. destruct (d_rs d0); [exfalso; vm_compute in Hx; discriminate|].
    rewrite Hfx in Hx. cbn [andb] in Hx. destruct (d_ver d0 + 1 =? nv) eqn:Ev; [apply Z.eqb_eq in Ev; lia|].
    exfalso. vm_compute in Hx. discriminate. }
  intros tk d0 H0. destruct (Q tracts (s_dtr st) Hall (fun tk d H => ex_intro _ d (conj H (or_introl eq_refl))) tk d0 H0) as [d' [E K]].
  exists d'. split; [exact E|]. destruct K as [->|[K1 K2]]; [split; [lia|auto]|]. split; [lia|]. intros N. contradiction.
Qed.

Lemma all_rs_in st blob tk : all_rs st blob = true -> In tk (tracts_of_blob st blob) ->
  forall d, dget st tk = Some d -> d_rs d <> None.
Proof.
  unfold all_rs. intros H Hin d D. rewrite forallb_forall in H. specialize (H tk Hin). rewrite D in H.
  destruct (d_rs d); [discriminate|discriminate].
Qed.

Lemma dstep_update_class st op term blob cls : dstep (s_dtr st) (s_dtr (fst (update_class st op term blob cls))).
Proof.
  unfold update_class. destruct (negb (term =? s_term st)); [apply dstep_refl|].
  destruct (Cluster.Model.zget (s_blobs st) blob); [|apply dstep_refl].
  destruct (negb (all_rs st blob)) eqn:Ea; [apply dstep_refl|]. apply negb_false_iff in Ea.
  cbn [fst s_dtr set_ghost set_dur].
  pose proof (all_rs_in st blob) as Hall. specialize (fun tk => Hall tk Ea).
  match goal with |- dstep _ (fold_left ?f _ _) => set (F := f) end.
  assert (Q: forall l m, (forall x, In x l -> In x (tracts_of_blob st blob)) ->
             (forall tk d0, tget (s_dtr st) tk = Some d0 -> exists d', tget m tk = Some d' /\ d_ver d' = d_ver d0 /\ d_rs d' = d_rs d0 /\ (d_rs d0 = None -> d' = d0)) ->
             forall tk d0, tget (s_dtr st) tk = Some d0 -> exists d', tget (fold_left F l m) tk = Some d' /\ d_ver d' = d_ver d0 /\ d_rs d' = d_rs d0 /\ (d_rs d0 = None -> d' = d0)).
  { induction l as [|x l IH]; intros m Hl Hm; cbn [fold_left]; [exact Hm|].
    apply IH; [intros y Hy; apply Hl; right; exact Hy|].
    intros tk0 d0 H0. unfold F. destruct (tget m x) as [d|] eqn:Dm; [|apply Hm; exact H0].
    rewrite tget_tset. destruct (tk_eqb tk0 x) eqn:E; [|apply Hm; exact H0].
    apply tk_eqb_eq in E. subst tk0. destruct (Hm x d0 H0) as [d1 [E1 [V1 [R1 _]]]]. rewrite Dm in E1. injection E1 as <-.
    eexists. split; [reflexivity|]. cbn. split; [exact V1|]. split; [exact R1|].
    intros N. exfalso. exact (Hall x (Hl x (or_introl eq_refl)) d0 H0 N). }
  intros tk d0 H0.
  destruct (Q (tracts_of_blob st blob) (s_dtr st) (fun x H => H) (fun tk d H => ex_intro _ d (conj H (conj eq_refl (conj eq_refl (fun _ => eq_refl))))) tk d0 H0) as [d' [E [V [R K]]]].
  exists d'. split; [exact E|]. split; [lia|]. intros N. rewrite R in N. rewrite (K N). auto.
Qed.

(* ------------------------------------------------------------------ executing and delivering *)
Lemma pD5_commit_rs fx st op term base hosts tracts : pD5 (fst (commit_rs fx st op term base hosts tracts)) = pD5 st.
Proof. apply (fr_commit_rs _ pD5); fr. Qed.

Lemma DInv_exec_rpc fx st e extra : fx6 fx = true -> DInv st -> DInv (st_of (exec_rpc fx st e extra)).
Proof.
  intros Hfx HI. unfold exec_rpc, st_of.
  destruct (k_kind (p_rpc e) =? K_Write).
  { match goal with |- context [let '(a, b) := ?t in _] => destruct t as [s c] eqn:E end. cbn [fst].
    eapply DInv_pD; [|exact HI]. replace s with (fst (s, c)) by reflexivity. rewrite <- E. apply (fr_ts_write _ pD); fr. }
  destruct (k_kind (p_rpc e) =? K_SetVersion).
  { match goal with |- context [let '(a, b) := ?t in _] => destruct t as [s c] eqn:E end. cbn [fst].
    eapply DInv_pD; [|exact HI]. replace s with (fst (s, c)) by reflexivity. rewrite <- E. apply (fr_ts_setversion _ pD); fr. }
  destruct (k_kind (p_rpc e) =? K_CtlStat). { destruct (ts_stat st _ _ _) as [[? ?] ?]. exact HI. }
  destruct (k_kind (p_rpc e) =? K_PackTracts).
  { match goal with |- context [let '(a, b) := ?t in _] => destruct t as [s c] eqn:E end. cbn [fst].
    eapply DInv_pD; [|exact HI]. replace s with (fst (s, c)) by reflexivity. rewrite <- E. apply (fr_ts_pack _ pD); fr. }
  destruct (k_kind (p_rpc e) =? K_RSEncode).
  { repeat match goal with |- context [match ?x with _ => _ end] => destruct x | |- context [if ?b then _ else _] => destruct b end;
      cbn [fst]; try exact HI. eapply DInv_pD; [|exact HI]. reflexivity. }
  destruct (k_kind (p_rpc e) =? K_GCTract).
  { destruct (negb _); cbn [fst]; [exact HI|]. eapply DInv_pD; [|exact HI]. reflexivity. }
  destruct (k_kind (p_rpc e) =? K_StatBlob). { destruct (Cluster.Model.zget _ _); exact HI. }
  destruct (k_kind (p_rpc e) =? K_GetTracts).
  { repeat match goal with |- context [match ?x with _ => _ end] => destruct x | |- context [if ?b then _ else _] => destruct b end; exact HI. }
  destruct (k_kind (p_rpc e) =? K_ReportBadTS). { exact HI. }
  destruct (k_kind (p_rpc e) =? K_Alloc).
  { destruct (find_round _ _) as [rd|]; cbn [fst]; [|exact HI].
    destruct (negb _); cbn [fst]; [exact HI|]. eapply DInv_pD; [|exact HI]. reflexivity. }
  destruct (k_kind (p_rpc e) =? K_Commit).
  { destruct (find_round _ _) as [rd|]; cbn [fst]; [|exact HI].
    destruct (find_enc_chunk _ _) as [eo|]; cbn [fst]; [|exact HI].
    match goal with |- context [commit_rs ?a ?b ?c ?d ?e0 ?f ?g] =>
      pose proof (pD5_commit_rs a b c d e0 f g) as M; pose proof (dstep_commit_rs a b c d e0 f g Hfx) as S; destruct (commit_rs a b c d e0 f g) end.
    cbn [fst] in *. eapply DInv_pD5; eauto. }
  exact HI.
Qed.

Lemma sorted_map_fst (l : list Z) (g : Z -> Z) : map fst (map (fun h => (h, g h)) l) = l.
Proof. induction l; cbn; [reflexivity|]. rewrite IHl. reflexivity. Qed.

Lemma exec_en_okD fx st e extra : en_okD (st_of (exec_rpc fx st e extra)) (p_rpc e) (en_of (exec_rpc fx st e extra)).
Proof.
  unfold exec_rpc, st_of, en_of.
  repeat match goal with
         | |- context [if (k_kind (p_rpc e) =? ?k) then _ else _] => destruct (k_kind (p_rpc e) =? k) eqn:?
         end;
  try solve [ repeat match goal with
                     | |- context [let '(a, b) := ?t in _] => destruct t
                     | |- context [match ?x with _ => _ end] => destruct x
                     | |- context [if ?b then _ else _] => destruct b
                     end; cbn [fst snd]; apply en_okD_none ].
  destruct (Cluster.Model.zget (s_blobs st) (k_blob (p_rpc e))); cbn [fst snd]; [|apply en_okD_none].
  destruct (b_nt b <=? aux_nth (p_rpc e) 0); cbn [fst snd]; [apply en_okD_none|].
  destruct (dget st (tkey (k_blob (p_rpc e)) (aux_nth (p_rpc e) 0))) as [d|] eqn:D; cbn [fst snd]; [|apply en_okD_none].
  intros en0 H. injection H as <-. exists d. split; [exact D|]. unfold entry_of. cbn [ce_ver ce_rs ce_hosts]. split; [lia|].
  intros _ N. unfold visible_hosts. rewrite N. apply sorted_map_fst.
Qed.

Lemma DInv_deliver fx st e res en hint : DInv st -> en_okD st (p_rpc e) en -> DInv (deliver fx st e res en hint).
Proof.
  intros HI Hen. unfold deliver.
  assert (B: DInv (set_pool st (pool_remove (s_pool st) (p_id e)) (s_next st))) by (apply DInv_pool_remove; exact HI).
  destruct (p_owner e =? 0); [exact B|].
  destruct (p_owner e <? 0); [apply DInv_fix_reply; exact B|].
  destruct (find_wop _ _); [apply DInv_cli_reply; auto|apply DInv_round_reply; auto].
Qed.

Lemma en_okD_same st st' r en : s_dtr st' = s_dtr st -> en_okD st r en -> en_okD st' r en.
Proof. intros H K e E. unfold ent_ok. rewrite H. exact (K e E). Qed.

Lemma DInv_step_exec fx st mode l : fx6 fx = true -> DInv st -> DInv (fst (step_exec fx st mode l)).
Proof.
  intros Hfx HI. unfold step_exec. destruct (Cluster.Model.parse_rpc l) as [[rp r1]|]; [|exact HI].
  destruct (match r1 with [] => _ | n :: t => _ end) as [extra r2].
  destruct (find_pent (s_pool st) rp) as [e|] eqn:Fe; [|exact HI].
  destruct (mode =? 4); [cbn [fst]; apply DInv_deliver; auto; apply en_okD_none|].
  destruct (k_kind rp =? K_FixVersion).
  { cbn [fst]. apply DInv_start_fix. apply DInv_set_pool; [exact HI|].
    intros pe Hin K. apply in_map_iff in Hin. destruct Hin as [x [E Hx]].
    destruct (p_id x =? p_id e); subst pe; cbn [p_rpc] in *; exact (dv_pool _ HI x Hx K). }
  pose proof (DInv_exec_rpc fx st e extra Hfx HI) as H1.
  pose proof (exec_en_okD fx st e extra) as N1.
  pose proof (exec_en_some_same fx st e extra) as S1.
  unfold st_of, en_of in *.
  destruct (exec_rpc fx st e extra) as [[[st1 res] en] dump] eqn:X1. cbn [fst snd] in *.
  destruct (mode =? 3) eqn:M3.
  - pose proof (DInv_exec_rpc fx st1 e extra Hfx H1) as H2.
    unfold st_of, en_of in *.
    destruct (exec_rpc fx st1 e extra) as [[[s' res2] en2] d'] eqn:X2. cbn [fst snd] in *.
    apply DInv_deliver; auto.
    replace (if mode =? 2 then None else en) with en by (destruct (mode =? 2) eqn:M2; [apply Z.eqb_eq in M2, M3; lia|reflexivity]).
    destruct en as [en0|]; [|apply en_okD_none].
    assert (st1 = st) by (apply S1; discriminate). subst st1.
    rewrite X1 in X2. injection X2 as <- _ _ _. exact N1.
  - apply DInv_deliver; auto. destruct (mode =? 2); [apply en_okD_none|exact N1].
Qed.

Lemma DInv_fold {A} (f : state -> A -> state) l : (forall s x, DInv s -> DInv (f s x)) -> forall st, DInv st -> DInv (fold_left f l st).
Proof. intros H. induction l; intros; cbn; auto. Qed.

Lemma DInv_step_restart fx st ts : DInv st -> DInv (fst (step_restart fx st ts)).
Proof.
  intros HI. unfold step_restart. cbn [fst]. apply DInv_fold.
  - intros s x Hs. destruct (find _ _); [apply DInv_deliver; auto; apply en_okD_none|exact Hs].
  - eapply DInv_pD; [|exact HI]. reflexivity.
Qed.

Lemma add_tracts_ok st gen blob p : In p (add_tracts st gen blob) -> ptr_ok (s_dtr st) p.
Proof.
  unfold add_tracts. intros H. apply in_flat_map in H. destruct H as [tk [_ H]].
  destruct (dget st tk) as [d|] eqn:D; [|destruct H]. destruct (d_rs d) eqn:R; [destruct H|].
  destruct H as [H|[]]. subst p. exists d. cbn [pt_tk pt_ver pt_from]. split; [exact D|]. split; [lia|].
  intros _ h Hh. apply filter_In in Hh. tauto.
Qed.

Lemma pD5_update_class st op term blob cls : pD5 (fst (update_class st op term blob cls)) = pD5 st.
Proof. apply (fr_update_class _ pD5); fr. Qed.

Lemma DInv_round_start st op : DInv st -> DInv (fst (round_start st op)).
Proof.
  intros HI. unfold round_start.
  match goal with |- context [fold_left ?f (blob_ids st) _] => set (F := f) end.
  assert (J: forall l acc, (DInv (fst (fst acc)) /\ forall p, In p (snd (fst acc)) -> ptr_ok (s_dtr (fst (fst acc))) p) ->
             DInv (fst (fst (fold_left F l acc))) /\ forall p, In p (snd (fst (fold_left F l acc))) -> ptr_ok (s_dtr (fst (fst (fold_left F l acc)))) p).
  { induction l as [|a l IH]; intros acc Hacc; cbn [fold_left]; [exact Hacc|].
    apply IH. destruct acc as [[s a0] o]. cbn [fst snd] in Hacc. destruct Hacc as [Hs Ha]. unfold F. cbn [fst snd].
    destruct (Cluster.Model.zget (s_blobs s) a); [|split; assumption].
    destruct (b_cls b =? b_tgt b); [split; assumption|].
    destruct (all_rs s a).
    - pose proof (pD5_update_class s op (s_term st) a (b_tgt b)) as M.
      pose proof (dstep_update_class s op (s_term st) a (b_tgt b)) as S.
      destruct (update_class s op (s_term st) a (b_tgt b)) as [s' c']. cbn [fst snd] in *.
      split; [eapply DInv_pD5; eauto|]. intros p Hp. eapply ptr_ok_dstep; [exact S|apply Ha; exact Hp].
    - destruct (b_cls b =? c14_ClassREPLICATED); cbn [fst snd]; [|split; assumption].
      split; [exact Hs|]. intros p Hp. apply in_app_or in Hp. destruct Hp as [Hp|Hp]; [apply Ha; exact Hp|].
      eapply add_tracts_ok; exact Hp. }
  specialize (J (blob_ids st) (st, [], [])). cbn [fst snd] in J.
  destruct J as [J1 J2]; [split; [exact HI|intros p []]|].
  destruct (fold_left F (blob_ids st) (st, [], [])) as [[st1 tracts] obs]. cbn [fst snd] in *.
  set (r := {| rd_op := op; rd_gen := s_gen st; rd_term := s_term st; rd_phase := 1; rd_tracts := tracts; rd_encs := []; rd_done := 0 |}).
  assert (B2: DInv (set_rounds st1 (s_rounds st1 ++ [r]))).
  { apply DInv_set_rounds; [exact J1|]. intros x p Hx Hp. apply in_app_or in Hx.
    destruct Hx as [Hx|[Hx|[]]]; [exact (dv_rounds _ J1 x p Hx Hp)|subst x; apply J2; exact Hp]. }
  match goal with |- DInv (if _ then round_after_stats ?s3 _ else _) =>
    assert (B3: DInv s3 /\ s_dtr s3 = s_dtr st1) end.
  { generalize B2. generalize (eq_refl (s_dtr (set_rounds st1 (s_rounds st1 ++ [r])))).
    generalize (set_rounds st1 (s_rounds st1 ++ [r])) at 1 3 4 5. generalize tracts.
    induction tracts0 as [|p l IH]; intros s0 E0 H0; cbn [fold_left]; [split; [exact H0|rewrite E0; reflexivity]|].
    apply IH; [|destruct (pt_from p); [exact H0|apply DInv_issue_nw; [exact H0|vm_compute; discriminate]]].
    destruct (pt_from p); [exact E0|exact E0]. }
  destruct B3 as [B3 B4].
  destruct (all_stats_done r); [|exact B3].
  apply DInv_round_after_stats; [exact B3|]. rewrite B4. intros p Hp. apply J2. exact Hp.
Qed.

Lemma dstep_tset_fresh m tk d : tget m tk = None -> dstep m (tset m tk d).
Proof.
  intros H tk0 d0 H0. rewrite tget_tset. destruct (tk_eqb tk0 tk) eqn:E.
  - apply tk_eqb_eq in E. subst. congruence.
  - exists d0. split; [exact H0|]. split; [lia|auto].
Qed.

Lemma DInv_step fx st ev : fx6 fx = true -> DInv st -> DInv (fst (step_fx fx st ev)).
Proof.
  intros Hfx HI0. unfold step_fx.
  assert (HI: DInv (begin_event st)) by (eapply DInv_pD; [|exact HI0]; reflexivity). set (s := begin_event st) in *.
  destruct ev as [|c a]; [exact HI|].
  destruct (c =? 1).
  { destruct a as [|nts [|ncli flags]]; try exact HI.
    destruct (negb (s_nts s =? 0) || _); cbn [fst]; [exact HI|]. eapply DInv_pD; [|exact HI]. reflexivity. }
  destruct (c =? 2).
  { destruct a as [|blob [|nt [|tgt [|]]]]; try exact HI.
    destruct (Cluster.Model.zget _ _); cbn [fst]; [exact HI|]. eapply DInv_pD; [|exact HI]. reflexivity. }
  destruct (c =? 20).
  { destruct a as [|blob [|tract [|ver [|nh hosts]]]]; try exact HI.
    destruct (dget s (tkey blob tract)) eqn:E; cbn [orb]; cbn [fst]; [exact HI|].
    destruct (negb (Cluster.Model.distinct hosts)); cbn [fst]; [exact HI|].
    eapply DInv_dstep; [exact HI| |reflexivity..]. cbn. apply dstep_tset_fresh. exact E. }
  destruct (c =? 21).
  { destruct a as [|blob [|tract [|wid [|off [|len [|isw [|]]]]]]]; try exact HI.
    destruct (dget s _); cbn [fst]; [|exact HI].
    eapply DInv_pD; [|exact HI]. rewrite fold_fr; [reflexivity|].
    intros s0 x. destruct (isw =? 0); [destruct (rget _ _); reflexivity|apply (fr_ts_write _ pD); fr]. }
  destruct (c =? 22).
  { destruct a as [|blob [|tract [|]]]; try exact HI. destruct (dget s _); exact HI. }
  destruct (c =? 3).
  { destruct a as [|op [|cli [|blob [|tract [|off [|len [|wid [|]]]]]]]]; try exact HI.
    destruct (negb (op_fresh s op) || (len <=? 0)); cbn [fst]; [exact HI|].
    apply DInv_issue_nw; [|vm_compute; discriminate].
    match goal with |- DInv (set_ghost ?s0 _ _ _ _) => cut (DInv s0); [intros B; eapply DInv_pD; [|exact B]; reflexivity|] end.
    constructor; cbn [s_cache s_wops s_pool s_fix s_rounds s_dtr set_cli]; try apply HI.
    intros w e Hw. apply in_app_or in Hw. destruct Hw as [Hw|[Hw|[]]]; [apply (dv_wops _ HI); exact Hw|].
    subst w. cbn. discriminate. }
  destruct (c =? 6).
  { destruct a as [|blob [|tract [|ver [|badts [|]]]]]; try exact HI. cbn [fst]. apply DInv_start_fix; assumption. }
  destruct (c =? 7).
  { destruct a; [exact HI|apply DInv_step_exec; assumption]. }
  destruct (c =? 9).
  { destruct a as [|ts [|]]; try exact HI. apply DInv_step_restart; assumption. }
  destruct (c =? 10). { cbn [fst]. eapply DInv_pD; [|exact HI]. reflexivity. }
  destruct (c =? 11).
  { destruct a as [|ts [|]]; try exact HI. cbn [fst]. eapply DInv_pD; [|exact HI]. reflexivity. }
  destruct (c =? 80).
  { destruct a as [|op [|]]; try exact HI.
    destruct (negb (op_fresh s op)); [exact HI|].
    pose proof (DInv_round_start s op HI) as M. destruct (round_start s op) as [st1 obs]. exact M. }
  destruct (c =? 30).
  { destruct a as [|blob [|tract [|off [|len [|nt tries]]]]]; exact HI. }
  destruct (c =? 81).
  { destruct (Cluster.Model.parse_rpc a) as [[rp r1]|]; [|exact HI].
    destruct (match r1 with [] => _ | n :: t => _ end) as [res r2].
    destruct (find_pent _ _); cbn [fst]; [apply DInv_deliver; auto; apply en_okD_none|exact HI]. }
  destruct (c =? 82); [exact HI|].
  destruct (c =? 84); [exact HI|].
  destruct (c =? 83); [exact HI|].
  destruct (c =? 31).
  { destruct a as [|blob [|]]; try exact HI. destruct (Cluster.Model.zget _ _); exact HI. }
  exact HI.
Qed.

Lemma DInv_init : DInv init_state.
Proof. constructor; cbn; intros; contradiction. Qed.

Lemma DInv_run fx evs : fx6 fx = true -> forall st, DInv st -> DInv (run_state_fx fx st evs).
Proof. intros Hfx. induction evs; intros; cbn; auto. apply IHevs. apply DInv_step; assumption. Qed.

Theorem DInv_reachable fx evs : fx6 fx = true -> DInv (run_state_fx fx init_state evs).
Proof. intros H. apply DInv_run; [exact H|apply DInv_init]. Qed.

(* ------------------------------------------------------------------ I3, part (b): replica-version fencing *)
Lemma setversion_ok_bumped st ts tsid tk nv cond st1 :
  ts_setversion st ts tsid tk nv cond = (st1, cl_NoError) ->
  exists r, rget (s_reps st1) (ts, tk) = Some r /\ nv <= r_ver r.
Proof.
  unfold ts_setversion. destruct (negb (ts =? tsid)); [intros H; injection H as _ H; exfalso; vm_compute in H; discriminate|].
  destruct (nv <=? 1); [intros H; injection H as _ H; exfalso; vm_compute in H; discriminate|].
  match goal with |- context [if ?b then _ else _] => destruct b end; [intros H; injection H as _ H; exfalso; vm_compute in H; discriminate|].
  unfold Cluster.Model.ts_setversion.
  destruct (negb (ts =? tsid)); [intros H; injection H as _ H; exfalso; vm_compute in H; discriminate|].
  destruct (nv <=? 1); [intros H; injection H as _ H; exfalso; vm_compute in H; discriminate|].
  destruct (rget (s_reps st) (ts, tk)) as [r|] eqn:Hr; [|intros H; injection H as _ H; exfalso; vm_compute in H; discriminate].
  destruct (nv <=? r_ver r) eqn:E1.
  - intros H. injection H as <-. cbn. exists r. split; [exact Hr|apply Z.leb_le; exact E1].
  - destruct (r_ver r + 1 =? nv); [|intros H; injection H as _ H; exfalso; vm_compute in H; discriminate].
    intros H. injection H as <-. cbn [s_reps set_reps set_store]. rewrite rget_rset, rk_eqb_refl. eexists. split; [reflexivity|cbn; lia].
Qed.

Lemma write_below_version_refused st ts tk ver wid off len r :
  rget (s_reps st) (ts, tk) = Some r -> ver < r_ver r ->
  snd (ts_write st ts tk ver wid off len) = cl_ErrVersionMismatch /\
  s_reps (fst (ts_write st ts tk ver wid off len)) = s_reps st.
Proof.
  intros Hr Hv. unfold ts_write. rewrite Hr. destruct (stamp_of st ts tk) as [e c].
  cbn [s_reps set_stamps set_store]. unfold Cluster.Model.ts_write. rewrite Hr.
  replace (r_ver r =? ver) with false by (symmetry; apply Z.eqb_neq; lia). cbn. split; reflexivity.
Qed.

(* once a (conditional) bump to nv has succeeded on a replica, over every run-phase schedule a write naming a version
   below nv is refused by that replica and leaves it unchanged *)
Theorem I3_bumped_replica_refuses_old_version :
  forall fx st ts tsid tk nv cond st1 evs ver wid off len,
    ts_setversion st ts tsid tk nv cond = (st1, cl_NoError) -> forallb ev_run evs = true -> ver < nv ->
    let st2 := run_state_fx fx st1 evs in
    snd (ts_write st2 ts tk ver wid off len) = cl_ErrVersionMismatch /\
    s_reps (fst (ts_write st2 ts tk ver wid off len)) = s_reps st2.
Proof.
  intros fx st ts tsid tk nv cond st1 evs ver wid off len Hb Hev Hv st2.
  destruct (setversion_ok_bumped _ _ _ _ _ _ _ Hb) as [r [Hr Hn]].
  destruct (srel_run fx evs Hev st1 ts tk r Hr) as [r' [G1 [G2 _]]].
  apply (write_below_version_refused st2 ts tk ver wid off len r' G1). lia.
Qed.
