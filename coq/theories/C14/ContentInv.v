(* C14/ContentInv.v — the ordering invariant behind move_preserves_content: with one client write per tract in flight and
   distinct write ids per tract, the applied list of every replica embeds in order into the list of write attempts of its
   tract, so the packed copy recorded by a commit shows, byte by byte, the newest attempt if that one was acknowledged. *)
From Coq Require Import List ZArith Bool Lia.
From BLB Require Import Gen.Consts.
From BLB Require Cluster.Model.
From BLB Require Import C14.Model C14.Proofs C14.Run C14.Late C14.InvFrame C14.InvFrameG C14.InvStore C14.InvVer C14.InvPool C14.InvRound C14.InvTract C14.InvContent C14.InvPiece C14.TriFull C14.ContentList C14.ContentPool.
Import ListNotations.
Open Scope Z_scope.

Definition att_of (st : state) (tk : tkt) : list wrec := map snd (filter (fun '(tk', _) => tk_eqb tk tk') (s_att st)).
Definition hd_is (st : state) (tk : tkt) (r : wrec) : Prop := exists rest, att_of st tk = r :: rest.
Definition rpc_rec (rp : rpc) : wrec := Cluster.Model.mkw (Cluster.Model.k_wid rp) (Cluster.Model.k_off rp) (Cluster.Model.k_len rp).

Record OInv (st : state) : Prop := {
  o_app : forall h tk rep, rget (s_reps st) (h, tk) = Some rep -> sub_rep (r_app rep) (att_of st tk);
  o_com : forall c, In c (s_commits st) -> sub_rep (Xc_packed c) (Xc_started c) /\ NoDup (map w_id (Xc_started c));
  o_ids : forall tk, NoDup (map w_id (att_of st tk));
  o_pool : forall pe, In pe (s_pool st) -> k_kind (p_rpc pe) = K_Write -> hd_is st (rpc_tk (p_rpc pe)) (rpc_rec (p_rpc pe));
  o_wop : forall w, In w (s_wops st) -> hd_is st (w_tk w) (Xw_rec w)
}.

Definition pO3 (st : state) := (s_reps st, s_att st, s_commits st).

Lemma att_of_same st st' tk : s_att st' = s_att st -> att_of st' tk = att_of st tk.
Proof. unfold att_of. intros ->. reflexivity. Qed.

Lemma OInv_same st st' : pO3 st' = pO3 st -> s_pool st' = s_pool st -> s_wops st' = s_wops st -> OInv st -> OInv st'.
Proof.
  unfold pO3. intros H Hp Hw [A B C D E]. injection H as H1 H2 H3.
  assert (Ha: forall tk, att_of st' tk = att_of st tk) by (intros; apply att_of_same; exact H2).
  constructor.
  - intros h tk rep Rg. rewrite H1 in Rg. rewrite Ha. exact (A _ _ _ Rg).
  - rewrite H3. exact B.
  - intros tk. rewrite Ha. exact (C tk).
  - intros pe Hpe K. rewrite Hp in Hpe. unfold hd_is. rewrite Ha. exact (D pe Hpe K).
  - intros w Hw0. rewrite Hw in Hw0. unfold hd_is. rewrite Ha. exact (E w Hw0).
Qed.

Lemma OInv_deliver fx st e res en hint : OInv st -> OInv (deliver fx st e res en hint).
Proof.
  intros [A B C D E]. pose proof (fg_deliver _ pO3 ltac:(fr) ltac:(fr) ltac:(fr) ltac:(fr) ltac:(fr) ltac:(fr) ltac:(fr) ltac:(fr) fx st e res en hint) as H.
  destruct (WK_deliver fx st e res en hint) as [K1 K2]. unfold pO3 in H. injection H as H1 H2 H3.
  assert (Ha: forall tk, att_of (deliver fx st e res en hint) tk = att_of st tk) by (intros; apply att_of_same; exact H2).
  constructor.
  - intros h tk rep Rg. rewrite H1 in Rg. rewrite Ha. exact (A _ _ _ Rg).
  - rewrite H3. exact B.
  - intros tk. rewrite Ha. exact (C tk).
  - intros pe Hpe Kw. unfold hd_is. rewrite Ha. fold (hd_is st (rpc_tk (p_rpc pe)) (rpc_rec (p_rpc pe))). destruct (K1 pe Hpe) as [Hold|Hk]; [exact (D pe Hold Kw)|].
    destruct (Hk Kw) as [w [Hw [Et Er]]]. unfold rpc_rec. rewrite Et, Er. exact (E w Hw).
  - intros w Hw. unfold hd_is. rewrite Ha. fold (hd_is st (w_tk w) (Xw_rec w)). destruct (K2 w Hw) as [w0 [H0 Ek]]. unfold Xw_key in Ek. injection Ek as _ K2' K3 K4 K5 K6.
    unfold w_tk, Xw_rec. rewrite <- K2', <- K3, <- K4, <- K5, <- K6. exact (E w0 H0).
Qed.

(* ------------------------------------------------------------------ steps of the Store *)
Definition RB (st st' : state) (tk : tkt) (r : wrec) : Prop :=
  forall h' tk' rep', rget (s_reps st') (h', tk') = Some rep' ->
    exists rep k, rget (s_reps st) (h', tk') = Some rep /\ r_app rep' = repeat r k ++ r_app rep /\ (k <> 0%nat -> tk' = tk /\ hd_is st tk r).

Lemma sub_rep_repeat r rest l k : sub_rep l (r :: rest) -> sub_rep (repeat r k ++ l) (r :: rest).
Proof. intros H. induction k; cbn [repeat app]; [exact H|apply sr_rep; exact IHk]. Qed.

Lemma OInv_reps st st' tk r : s_att st' = s_att st -> s_commits st' = s_commits st -> s_pool st' = s_pool st -> s_wops st' = s_wops st ->
  RB st st' tk r -> OInv st -> OInv st'.
Proof.
  intros H2 H3 Hp Hw HR [A B C D E].
  assert (Ha: forall tk, att_of st' tk = att_of st tk) by (intros; apply att_of_same; exact H2).
  constructor.
  - intros h tk0 rep' Rg. rewrite Ha. destruct (HR h tk0 rep' Rg) as [rep [k [G [Ea Hk]]]]. rewrite Ea.
    destruct k as [|k]; [exact (A _ _ _ G)|]. destruct (Hk ltac:(discriminate)) as [-> [rest Er]].
    pose proof (A _ _ _ G) as S. rewrite Er in *. apply sub_rep_repeat. exact S.
  - rewrite H3. exact B.
  - intros tk0. rewrite Ha. exact (C tk0).
  - intros pe Hpe K. rewrite Hp in Hpe. unfold hd_is. rewrite Ha. exact (D pe Hpe K).
  - intros w Hw0. rewrite Hw in Hw0. unfold hd_is. rewrite Ha. exact (E w Hw0).
Qed.

Lemma RB_refl st tk r : s_reps st = s_reps st -> RB st st tk r.
Proof. intros _ h' tk' rep' Rg. exists rep', 0%nat. split; [exact Rg|]. split; [reflexivity|]. intros K. contradiction. Qed.

Lemma RB_ts_write st ts tk ver wid off len : hd_is st tk (Cluster.Model.mkw wid off len) ->
  RB st (fst (ts_write st ts tk ver wid off len)) tk (Cluster.Model.mkw wid off len).
Proof.
  intros Hh h' tk' rep' Rg. unfold ts_write in Rg. destruct (rget (s_reps st) (ts, tk)) as [r0|] eqn:Rt.
  2:{ exists rep', 0%nat. split; [exact Rg|]. split; [reflexivity|]. intros K. contradiction. }
  destruct (stamp_of st ts tk) as [e c]. cbn [s_reps set_stamps set_store] in Rg. unfold Cluster.Model.ts_write in Rg. rewrite Rt in Rg.
  destruct (r_ver r0 =? ver); cbn [fst s_reps set_reps set_stamps set_store] in Rg.
  2:{ exists rep', 0%nat. split; [exact Rg|]. split; [reflexivity|]. intros K. contradiction. }
  rewrite rget_rset in Rg. destruct (rk_eqb (h', tk') (ts, tk)) eqn:K.
  - apply rk_eqb_eq in K. injection K as -> ->. injection Rg as <-. cbn [r_app Cluster.Model.r_app]. unfold Cluster.Model.app_write.
    destruct (len <=? 0).
    + exists r0, 0%nat. split; [exact Rt|]. split; [reflexivity|]. intros K. contradiction.
    + exists r0, 1%nat. split; [exact Rt|]. split; [reflexivity|]. intros _. split; [reflexivity|exact Hh].
  - exists rep', 0%nat. split; [exact Rg|]. split; [reflexivity|]. intros K0. contradiction.
Qed.

Lemma RB_ts_setversion st ts tsid tk nv cond tk0 r : RB st (fst (ts_setversion st ts tsid tk nv cond)) tk0 r.
Proof.
  intros h' tk' rep' Rg.
  assert (Same: forall s, s_reps s = s_reps st -> rget (s_reps s) (h', tk') = Some rep' ->
            exists rep k, rget (s_reps st) (h', tk') = Some rep /\ r_app rep' = repeat r k ++ r_app rep /\ (k <> 0%nat -> tk' = tk0 /\ hd_is st tk0 r)).
  { intros s Es G. rewrite Es in G. exists rep', 0%nat. split; [exact G|]. split; [reflexivity|]. intros K. contradiction. }
  unfold ts_setversion in Rg. destruct (negb (ts =? tsid)); [exact (Same st eq_refl Rg)|]. destruct (nv <=? 1); [exact (Same st eq_refl Rg)|].
  match type of Rg with context [if ?b then _ else _] => destruct b end; [exact (Same st eq_refl Rg)|].
  unfold Cluster.Model.ts_setversion in Rg. destruct (negb (ts =? tsid)); [exact (Same _ eq_refl Rg)|]. destruct (nv <=? 1); [exact (Same _ eq_refl Rg)|].
  destruct (rget (s_reps st) (ts, tk)) as [r0|] eqn:Rt; [|exact (Same _ eq_refl Rg)].
  destruct (nv <=? r_ver r0); [exact (Same _ eq_refl Rg)|]. destruct (r_ver r0 + 1 =? nv); [|exact (Same _ eq_refl Rg)].
  cbn [fst s_reps set_reps set_store] in Rg. rewrite rget_rset in Rg. destruct (rk_eqb (h', tk') (ts, tk)) eqn:K; [|exact (Same st eq_refl Rg)].
  apply rk_eqb_eq in K. injection K as -> ->. injection Rg as <-. exists r0, 0%nat. split; [exact Rt|]. split; [reflexivity|]. intros K. contradiction.
Qed.

(* ------------------------------------------------------------------ CommitRSChunk *)
Lemma OInv_commit fx st rd eo st1 : fx6 fx = true -> OInv st -> Xsrc_ok st rd eo ->
  commit_rs fx st (rd_op rd) (rd_term rd) (e_base eo) (e_hosts eo) (Xcommit_tracts rd eo) = (st1, cl_NoError) -> OInv st1.
Proof.
  intros Hfx [A B C D E] Hsrc Hc.
  destruct (Xcommit_ok_spec _ _ _ _ _ _ _ _ Hfx Hc) as [P7 [Cs _]].
  pose proof (commit_checked _ _ _ _ _ _ _ _ Hfx Hc) as [_ Hchk].
  unfold XpF7 in P7. injection P7 as P1 P2 P3 P5 P7a P8.
  assert (Ha: forall tk, att_of st1 tk = att_of st tk) by (intros; apply att_of_same; exact P8).
  constructor.
  - intros h tk rep Rg. rewrite P5 in Rg. rewrite Ha. exact (A _ _ _ Rg).
  - intros c Hc0. destruct (Cs c Hc0) as [Old|[off [len [nv [idx [Hin [Es Ep]]]]]]]; [exact (B c Old)|].
    rewrite Es, Ep. change (Xstarted_of st (Xc_tk c)) with (att_of st (Xc_tk c)). split; [|exact (C (Xc_tk c))].
    destruct (Hsrc _ _ _ _ _ Hin (Hchk _ _ _ _ _ Hin)) as [p [h [s [rep0 [_ [_ [_ [Rg0 Ra0]]]]]]]]. rewrite <- Ra0. exact (A _ _ _ Rg0).
  - intros tk. rewrite Ha. exact (C tk).
  - intros pe Hpe K. rewrite P3 in Hpe. unfold hd_is. rewrite Ha. exact (D pe Hpe K).
  - intros w Hw0. rewrite P1 in Hw0. unfold hd_is. rewrite Ha. exact (E w Hw0).
Qed.

(* ------------------------------------------------------------------ executions *)
Definition pO4 (st : state) := (s_att st, s_commits st, s_pool st, s_wops st).

Lemma pO3_ts_pack st ts tsid chunk target specs failed : pO3 (fst (ts_pack st ts tsid chunk target specs failed)) = pO3 st.
Proof. unfold ts_pack. destruct (negb _); [reflexivity|]. destruct (pack_items _ _ _); reflexivity. Qed.

Lemma OInv_exec fx st e extra : fx6 fx = true -> OInv st -> XSrcAll st -> In e (s_pool st) -> OInv (st_of (exec_rpc fx st e extra)).
Proof.
  intros Hfx HI HS He. unfold exec_rpc, st_of.
  destruct (k_kind (p_rpc e) =? K_Write) eqn:KW.
  { apply Z.eqb_eq in KW. pose proof (o_pool _ HI e He KW) as Hh.
    match goal with |- context [ts_write ?a ?b ?c ?d ?e0 ?f ?g] =>
      pose proof (RB_ts_write a b c d e0 f g Hh) as R; pose proof (fr_ts_write _ pO4 ltac:(fr) a b c d e0 f g) as Q; destruct (ts_write a b c d e0 f g) as [s1 c1] end.
    cbn [fst] in *. unfold pO4 in Q. injection Q as Q1 Q2 Q3 Q4. exact (OInv_reps st s1 _ _ Q1 Q2 Q3 Q4 R HI). }
  destruct (k_kind (p_rpc e) =? K_SetVersion).
  { match goal with |- context [ts_setversion ?a ?b ?c ?d ?e0 ?f] =>
      pose proof (RB_ts_setversion a b c d e0 f d (rpc_rec (p_rpc e))) as R; pose proof (fr_ts_setversion _ pO4 ltac:(fr) a b c d e0 f) as Q;
      destruct (ts_setversion a b c d e0 f) as [s1 c1] end.
    cbn [fst] in *. unfold pO4 in Q. injection Q as Q1 Q2 Q3 Q4. exact (OInv_reps st s1 _ _ Q1 Q2 Q3 Q4 R HI). }
  destruct (k_kind (p_rpc e) =? K_CtlStat). { destruct (ts_stat st _ _ _) as [[? ?] ?]. exact HI. }
  destruct (k_kind (p_rpc e) =? K_PackTracts).
  { match goal with |- context [ts_pack ?a ?b ?c ?d ?e0 ?f ?g] =>
      pose proof (fr_ts_pack _ pO4 ltac:(fr) a b c d e0 f g) as Q; pose proof (pO3_ts_pack a b c d e0 f g) as Q'; destruct (ts_pack a b c d e0 f g) as [s1 c1] end.
    cbn [fst] in *. unfold pO4 in Q. injection Q as Q1 Q2 Q3 Q4. exact (OInv_same st s1 Q' Q3 Q4 HI). }
  destruct (k_kind (p_rpc e) =? K_RSEncode).
  { repeat match goal with |- context [match ?x with _ => _ end] => destruct x | |- context [if ?b then _ else _] => destruct b end;
      cbn [fst]; try exact HI; (apply (OInv_same st); [reflexivity|reflexivity|reflexivity|exact HI]). }
  destruct (k_kind (p_rpc e) =? K_GCTract).
  { destruct (negb _); cbn [fst]; [exact HI|]. apply (OInv_same st); [reflexivity|reflexivity|reflexivity|exact HI]. }
  destruct (k_kind (p_rpc e) =? K_StatBlob). { destruct (Cluster.Model.zget _ _); exact HI. }
  destruct (k_kind (p_rpc e) =? K_GetTracts).
  { repeat match goal with |- context [match ?x with _ => _ end] => destruct x | |- context [if ?b then _ else _] => destruct b end; exact HI. }
  destruct (k_kind (p_rpc e) =? K_ReportBadTS). { exact HI. }
  destruct (k_kind (p_rpc e) =? K_Alloc).
  { destruct (find_round _ _) as [rd|]; [|exact HI]. destruct (negb _); cbn [fst]; [exact HI|].
    apply (OInv_same st); [reflexivity|reflexivity|reflexivity|exact HI]. }
  destruct (k_kind (p_rpc e) =? K_Commit) eqn:Kc.
  { apply Z.eqb_eq in Kc. destruct (find_round (s_rounds st) (p_owner e)) as [rd|] eqn:Fr; cbn [fst]; [|exact HI].
    destruct (find_enc_chunk rd (aux_nth (p_rpc e) 0)) as [eo|] eqn:Fe; cbn [fst]; [|exact HI].
    change (fst (fold_left _ (e_chunks eo) ([], 0))) with (Xcommit_tracts rd eo).
    destruct (commit_rs fx st (rd_op rd) (rd_term rd) (e_base eo) (e_hosts eo) (Xcommit_tracts rd eo)) as [st1 c] eqn:Hc. cbn [fst].
    destruct (Z.eq_dec c cl_NoError) as [->|Nc].
    - exact (OInv_commit fx st rd eo st1 Hfx HI (HS e rd eo He Kc Fr Fe) Hc).
    - rewrite (Xcommit_fail_same _ _ _ _ _ _ _ _ _ Hc Nc). exact HI. }
  exact HI.
Qed.

(* ------------------------------------------------------------------ handlers, through their footprint *)
Lemma OInv_WK st s : OInv st -> pO3 s = pO3 st -> WK st s -> OInv s.
Proof.
  intros [A B C D E] H [K1 K2]. unfold pO3 in H. injection H as H1 H2 H3.
  assert (Ha: forall tk, att_of s tk = att_of st tk) by (intros; apply att_of_same; exact H2).
  constructor.
  - intros h tk rep Rg. rewrite H1 in Rg. rewrite Ha. exact (A _ _ _ Rg).
  - rewrite H3. exact B.
  - intros tk. rewrite Ha. exact (C tk).
  - intros pe Hpe Kw. unfold hd_is. rewrite Ha. fold (hd_is st (rpc_tk (p_rpc pe)) (rpc_rec (p_rpc pe))). destruct (K1 pe Hpe) as [Hold|Hk]; [exact (D pe Hold Kw)|].
    destruct (Hk Kw) as [w [Hw [Et Er]]]. unfold rpc_rec. rewrite Et, Er. exact (E w Hw).
  - intros w Hw. unfold hd_is. rewrite Ha. fold (hd_is st (w_tk w) (Xw_rec w)). destruct (K2 w Hw) as [w0 [H0 Ek]]. unfold Xw_key in Ek. injection Ek as _ K2' K3 K4 K5 K6.
    unfold w_tk, Xw_rec. rewrite <- K2', <- K3, <- K4, <- K5, <- K6. exact (E w0 H0).
Qed.

Lemma OInv_mark_run st e b : OInv st -> OInv (set_pool st (map (mark_run e b) (s_pool st)) (s_next st)).
Proof.
  intros [A B C D E]. constructor; try assumption.
  intros pe Hpe Kw. cbn [s_pool set_pool] in Hpe. apply in_map_iff in Hpe. destruct Hpe as [y [<- Hy]].
  destruct (mark_run_same e b y) as [_ [Er _]]. rewrite Er in *. exact (D y Hy Kw).
Qed.

Lemma OInv_start_fix fx st g tk c b r : OInv st -> OInv (start_fix fx st g tk c b r).
Proof.
  intros HI. apply (OInv_WK st); [exact HI| |apply WKr_start_fix; apply WK_refl].
  apply (fg_start_fix _ pO3); fr.
Qed.

Lemma OInv_deliver' fx st e res en hint : OInv st -> OInv (deliver fx st e res en hint).
Proof. exact (OInv_deliver fx st e res en hint). Qed.

Lemma OInv_step_exec fx st mode l : fx6 fx = true -> OInv st -> XSrcAll st ->
  (forall e extra, In e (s_pool st) -> XSrcAll (st_of (exec_rpc fx st e extra))) ->
  OInv (fst (step_exec fx st mode l)).
Proof.
  intros Hfx HI HS HS1. unfold step_exec. destruct (Cluster.Model.parse_rpc l) as [[rp r1]|]; [|exact HI].
  destruct (match r1 with [] => _ | n :: t => _ end) as [extra r2].
  destruct (find_pent (s_pool st) rp) as [e|] eqn:Fe; [|exact HI].
  apply find_pent_in in Fe. destruct Fe as [He Eq].
  destruct (mode =? 4). { cbn [fst]. apply OInv_deliver. exact HI. }
  destruct (k_kind rp =? K_FixVersion).
  { cbn [fst]. match goal with |- context [map ?f (s_pool st)] => change f with (mark_run e (mode =? 2)) end.
    apply OInv_start_fix. apply OInv_mark_run. exact HI. }
  pose proof (OInv_exec fx st e extra Hfx HI HS He) as O1. pose proof (HS1 e extra He) as S1. pose proof (pR_exec_rpc fx st e extra) as Q1.
  unfold st_of in *. destruct (exec_rpc fx st e extra) as [[[st1 res] en] dump] eqn:X1. cbn [fst snd] in *.
  assert (He1: In e (s_pool st1)) by (unfold pR in Q1; injection Q1 as -> _ _ _ _ _; exact He).
  destruct (mode =? 3).
  - pose proof (OInv_exec fx st1 e extra Hfx O1 S1 He1) as O2. unfold st_of in *.
    destruct (exec_rpc fx st1 e extra) as [[[s' res2] en2] d'] eqn:X2. cbn [fst snd] in *. apply OInv_deliver. exact O2.
  - apply OInv_deliver. exact O1.
Qed.

Lemma OInv_step_restart fx st ts : OInv st -> RInv fx st -> OInv (fst (step_restart fx st ts)).
Proof.
  intros HI HR. apply (restart_ind fx st ts OInv HR).
  - apply (OInv_same st); [reflexivity|reflexivity|reflexivity|exact HI].
  - intros s e _ _ Hs. apply OInv_deliver. exact Hs.
Qed.

Lemma WKr_issue_all st rs : (forall rp o, In (rp, o) rs -> wkey_ok st rp) -> forall s, WK st s -> WK st (issue_all s rs).
Proof.
  induction rs as [|[a b] l IH]; intros Hn s K; cbn [issue_all fold_left]; [exact K|].
  apply (IH (fun rp o H => Hn rp o (or_intror H))). apply WKr_issue; [exact (Hn a b (or_introl eq_refl))|exact K].
Qed.

Lemma OInv_round_start fx st op : OInv st -> RInv fx st -> op_fresh st op = true -> OInv (fst (round_start st op)).
Proof.
  intros HI HR Hop. apply (OInv_WK st); [exact HI|apply (fg_round_start _ pO3); fr|].
  rewrite round_start_eq. destruct (fold_left (rs_F st op) (blob_ids st) (st, [], [])) as [[st1 tracts] obs] eqn:EF.
  destruct (RInv_round_start_mid fx st op st1 tracts obs HR Hop EF) as [JR _]. cbv zeta. cbn [fst].
  assert (W1: WK st (set_rounds st1 (s_rounds st1 ++ [rs_round st op tracts]))).
  { apply WKr_eq with (s := st); [|apply WK_refl]. unfold pR in JR. injection JR as J1 _ _ J4 _ _. unfold pW. cbn [s_pool s_wops set_rounds]. rewrite J1, J4. reflexivity. }
  assert (W2: WK st (issue_all (set_rounds st1 (s_rounds st1 ++ [rs_round st op tracts])) (stat_list (s_gen st) op tracts))).
  { apply WKr_issue_all; [|exact W1]. intros rp o Hin. destruct (stat_list_in _ _ _ _ _ Hin) as [_ [p [h [rest [_ [_ ->]]]]]]. intros K. vm_compute in K. discriminate K. }
  destruct (all_stats_done _); [apply WKr_round_after_stats; exact W2|exact W2].
Qed.

(* ------------------------------------------------------------------ the schedule hypotheses *)
(* single-writer discipline: a client write on a tract starts only when no other write on that tract is in flight
   (no unfinished client operation on the tract, no Write call to the tract outstanding) *)
Definition tract_idle (st : state) (tk : tkt) : bool :=
  forallb (fun w => negb (tk_eqb (w_tk w) tk)) (s_wops st) &&
  forallb (fun pe => negb ((k_kind (p_rpc pe) =? K_Write) && tk_eqb (rpc_tk (p_rpc pe)) tk)) (s_pool st).
Definition ev_single (st : state) (ev : list Z) : bool :=
  match ev with
  | c :: _ :: _ :: blob :: tract :: _ => if c =? 3 then tract_idle st (tkey blob tract) else true
  | _ => true
  end.
(* write ids are distinct per tract (setup writes, code 21, and client writes, code 3) *)
Definition ev_wid_fresh (st : state) (ev : list Z) : bool :=
  match ev with
  | c :: a =>
      if c =? 3 then match a with _ :: _ :: blob :: tract :: _ :: _ :: wid :: _ => negb (wid_in (att_of st (tkey blob tract)) wid) | _ => true end
      else if c =? 21 then match a with blob :: tract :: wid :: _ => negb (wid_in (att_of st (tkey blob tract)) wid) | _ => true end
      else true
  | [] => true
  end.

Lemma tk_eqb_neq' (a b : tkt) : a <> b -> tk_eqb a b = false.
Proof. intros H. destruct (tk_eqb a b) eqn:E; [apply tk_eqb_eq in E; contradiction|reflexivity]. Qed.

Lemma att_of_cons st st' tk r : s_att st' = (tk, r) :: s_att st ->
  forall tk', att_of st' tk' = if tk_eqb tk' tk then r :: att_of st tk' else att_of st tk'.
Proof. intros H tk'. unfold att_of. rewrite H. cbn [filter]. destruct (tk_eqb tk' tk); reflexivity. Qed.

Lemma wid_in_false l wid : wid_in l wid = false -> ~ In wid (map w_id l).
Proof.
  intros H Hin. apply in_map_iff in Hin. destruct Hin as [w [E Hw]].
  assert (wid_in l wid = true) by (unfold wid_in; apply existsb_exists; exists w; split; [exact Hw|apply Z.eqb_eq; exact E]). congruence.
Qed.

(* a new attempt r on tract tk: what survives when nothing of the old state on tk is in flight *)
Lemma OInv_attempt st st' tk r :
  s_att st' = (tk, r) :: s_att st -> s_reps st' = s_reps st -> s_commits st' = s_commits st ->
  wid_in (att_of st tk) (w_id r) = false ->
  (forall pe, In pe (s_pool st') -> k_kind (p_rpc pe) = K_Write -> In pe (s_pool st) /\ rpc_tk (p_rpc pe) <> tk) ->
  (forall w, In w (s_wops st') -> (In w (s_wops st) /\ w_tk w <> tk) \/ (w_tk w = tk /\ Xw_rec w = r)) ->
  OInv st -> OInv st'.
Proof.
  intros Ha Hr Hc Hf Hp Hw [A B C D E]. pose proof (att_of_cons st st' tk r Ha) as AC.
  constructor.
  - intros h tk0 rep Rg. rewrite Hr in Rg. rewrite AC. destruct (tk_eqb tk0 tk); [apply sr_skip|]; exact (A _ _ _ Rg).
  - rewrite Hc. exact B.
  - intros tk0. rewrite AC. destruct (tk_eqb tk0 tk) eqn:Et; [|exact (C tk0)]. apply tk_eqb_eq in Et. subst tk0.
    cbn [map]. constructor; [exact (wid_in_false _ _ Hf)|exact (C tk)].
  - intros pe Hpe K. destruct (Hp pe Hpe K) as [Hold Ne]. unfold hd_is. rewrite AC. rewrite (tk_eqb_neq' _ _ Ne). exact (D pe Hold K).
  - intros w Hw0. unfold hd_is. rewrite AC. destruct (Hw w Hw0) as [[Hold Ne]|[Et Er]].
    + rewrite (tk_eqb_neq' _ _ Ne). exact (E w Hold).
    + rewrite Et, tk_eqb_refl, Er. eexists. reflexivity.
Qed.

Lemma tract_idle_spec st tk : tract_idle st tk = true ->
  (forall w, In w (s_wops st) -> w_tk w <> tk) /\ (forall pe, In pe (s_pool st) -> k_kind (p_rpc pe) = K_Write -> rpc_tk (p_rpc pe) <> tk).
Proof.
  unfold tract_idle. intros H. apply andb_true_iff in H. destruct H as [H1 H2]. rewrite forallb_forall in H1, H2. split.
  - intros w Hw E. specialize (H1 w Hw). rewrite E, tk_eqb_refl in H1. discriminate.
  - intros pe Hpe K E. specialize (H2 pe Hpe). rewrite K, E, tk_eqb_refl in H2. discriminate.
Qed.

Lemma OInv_start_write st op cli blob tract off len wid lc uc late :
  tract_idle st (tkey blob tract) = true -> wid_in (att_of st (tkey blob tract)) wid = false -> OInv st ->
  let w := {| wo_op := op; wo_cli := cli; wo_blob := blob; wo_tract := tract; wo_off := off; wo_len := len; wo_wid := wid;
              wo_phase := 1; wo_cached := false; wo_retry := lc; wo_entry := None; wo_res := []; wo_final := 0; wo_late := late |} in
  let st1 := set_cli st (s_wops st ++ [w]) (s_cache st) uc (s_usecache st) in
  let st2 := set_ghost st1 (s_acked st1) ((tkey blob tract, Cluster.Model.mkw wid off len) :: s_att st1) (s_commits st1) (s_durlog st1) in
  OInv (issue st2 (mk_statblob w) op).
Proof.
  intros Hi Hf HI w st1 st2. destruct (tract_idle_spec _ _ Hi) as [I1 I2].
  apply (OInv_attempt st _ (tkey blob tract) (Cluster.Model.mkw wid off len)); try reflexivity; try assumption.
  - intros pe Hpe K. cbn [s_pool issue set_pool set_ghost set_cli] in Hpe. apply in_app_or in Hpe. destruct Hpe as [Hpe|[<-|[]]].
    + split; [exact Hpe|exact (I2 pe Hpe K)].
    + exfalso. vm_compute in K. discriminate K.
  - intros w0 Hw0. cbn [s_wops issue set_pool set_ghost set_cli] in Hw0. apply in_app_or in Hw0. destruct Hw0 as [Hw0|[<-|[]]].
    + left. split; [exact Hw0|exact (I1 w0 Hw0)].
    + right. split; reflexivity.
Qed.

Lemma OInv_step fx st ev : fx6 fx = true -> ev_run ev = true -> ev_single st ev = true -> ev_wid_fresh st ev = true ->
  OInv st -> RInv fx st -> XSrcAll (begin_event st) ->
  (forall e extra, In e (s_pool st) -> XSrcAll (st_of (exec_rpc fx (begin_event st) e extra))) ->
  OInv (fst (step_fx fx st ev)).
Proof.
  intros H6 Hev Hs0 Hf0 HI0 HR0 HS HS1. unfold step_fx.
  assert (HI: OInv (begin_event st)) by (apply (OInv_same st); [reflexivity|reflexivity|reflexivity|exact HI0]).
  assert (HR: RInv fx (begin_event st)) by (eapply RInv_same; [| |exact HR0]; reflexivity).
  assert (Hs: ev_single (begin_event st) ev = true) by exact Hs0.
  assert (Hf: ev_wid_fresh (begin_event st) ev = true) by exact Hf0.
  clear Hs0 Hf0 HI0 HR0. set (s := begin_event st) in *.
  destruct ev as [|c a]; [exact HI|]. cbn [ev_run existsb] in Hev. cbn [ev_wid_fresh] in Hf.
  destruct (c =? 1) eqn:C1; [apply Z.eqb_eq in C1; subst c; discriminate|].
  destruct (c =? 2) eqn:C2; [apply Z.eqb_eq in C2; subst c; discriminate|].
  destruct (c =? 20) eqn:C20; [apply Z.eqb_eq in C20; subst c; discriminate|].
  destruct (c =? 21) eqn:C21; [apply Z.eqb_eq in C21; subst c; discriminate|].
  destruct (c =? 22).
  { destruct a as [|blob [|tract [|]]]; try exact HI. destruct (dget s _); exact HI. }
  destruct (c =? 3) eqn:C3.
  { destruct a as [|op [|cli [|blob [|tract [|off [|len [|wid [|]]]]]]]]; try exact HI.
    destruct (negb (op_fresh s op) || (len <=? 0)); cbn [fst]; [exact HI|].
    cbn [ev_single] in Hs. rewrite C3 in Hs. apply negb_true_iff in Hf.
    exact (OInv_start_write s op cli blob tract off len wid _ _ _ Hs Hf HI). }
  destruct (c =? 6).
  { destruct a as [|blob [|tract [|ver [|badts [|]]]]]; try exact HI. cbn [fst]. apply OInv_start_fix. exact HI. }
  destruct (c =? 7).
  { destruct a; [exact HI|apply OInv_step_exec; assumption]. }
  destruct (c =? 9).
  { destruct a as [|ts [|]]; try exact HI. apply OInv_step_restart; assumption. }
  destruct (c =? 10). { cbn [fst]. apply (OInv_same s); [reflexivity|reflexivity|reflexivity|exact HI]. }
  destruct (c =? 11).
  { destruct a as [|ts [|]]; try exact HI. cbn [fst]. apply (OInv_same s); [reflexivity|reflexivity|reflexivity|exact HI]. }
  destruct (c =? 80).
  { destruct a as [|op [|]]; try exact HI.
    destruct (negb (op_fresh s op)) eqn:Fo; [exact HI|]. apply negb_false_iff in Fo.
    pose proof (OInv_round_start fx s op HI HR Fo) as M. destruct (round_start s op) as [st1 obs]. exact M. }
  destruct (c =? 30).
  { destruct a as [|blob [|tract [|off [|len [|nt tries]]]]]; exact HI. }
  destruct (c =? 81) eqn:C81; [apply Z.eqb_eq in C81; subst c; discriminate|].
  destruct (c =? 82); [exact HI|].
  destruct (c =? 84); [exact HI|].
  destruct (c =? 83); [exact HI|].
  destruct (c =? 31).
  { destruct a as [|blob [|]]; try exact HI. destruct (Cluster.Model.zget _ _); exact HI. }
  exact HI.
Qed.

(* ------------------------------------------------------------------ setup *)
Lemma setup_w_RB isw tk ver wid off len s h : hd_is s tk (Cluster.Model.mkw wid off len) ->
  RB s (setup_w isw tk ver wid off len s h) tk (Cluster.Model.mkw wid off len) /\ pO4 (setup_w isw tk ver wid off len s h) = pO4 s.
Proof.
  intros Hh. unfold setup_w. destruct (isw =? 0).
  - destruct (rget (s_reps s) (h, tk)) as [r0|] eqn:Rt; [|split; [apply RB_refl; reflexivity|reflexivity]].
    split; [|reflexivity]. intros h' tk' rep' Rg. cbn [s_reps set_reps set_store] in Rg. rewrite rget_rset in Rg.
    destruct (rk_eqb (h', tk') (h, tk)) eqn:K.
    + apply rk_eqb_eq in K. injection K as -> ->. injection Rg as <-. cbn [r_app Cluster.Model.r_app]. unfold Cluster.Model.app_write.
      destruct (len <=? 0).
      * exists r0, 0%nat. split; [exact Rt|]. split; [reflexivity|]. intros K. contradiction.
      * exists r0, 1%nat. split; [exact Rt|]. split; [reflexivity|]. intros _. split; [reflexivity|exact Hh].
    + exists rep', 0%nat. split; [exact Rg|]. split; [reflexivity|]. intros K0. contradiction.
  - split; [apply RB_ts_write; exact Hh|apply (fr_ts_write _ pO4); fr].
Qed.

Lemma OInv_setup_fold isw tk ver wid off len l : forall s, hd_is s tk (Cluster.Model.mkw wid off len) -> OInv s ->
  OInv (fold_left (setup_w isw tk ver wid off len) l s).
Proof.
  induction l as [|h l IH]; intros s Hh HI; cbn [fold_left]; [exact HI|].
  destruct (setup_w_RB isw tk ver wid off len s h Hh) as [R Q]. unfold pO4 in Q. injection Q as Q1 Q2 Q3 Q4.
  apply IH; [|exact (OInv_reps s _ _ _ Q1 Q2 Q3 Q4 R HI)].
  unfold hd_is. rewrite (att_of_same s _ tk Q1). exact Hh.
Qed.

Lemma OInv_setup_step fx st ev : ev_setup2 ev = true -> ev_wid_fresh st ev = true ->
  s_pool st = [] -> s_wops st = [] -> OInv st -> OInv (fst (step_fx fx st ev)).
Proof.
  intros Hev2 Hf0 Hp0 Hw0 HI0. unfold ev_setup2 in Hev2. apply andb_true_iff in Hev2. destruct Hev2 as [Hev Hlen].
  unfold step_fx. assert (HI: OInv (begin_event st)) by (apply (OInv_same st); [reflexivity|reflexivity|reflexivity|exact HI0]).
  assert (Hf: ev_wid_fresh (begin_event st) ev = true) by exact Hf0.
  assert (Hp: s_pool (begin_event st) = []) by exact Hp0. assert (Hw: s_wops (begin_event st) = []) by exact Hw0.
  clear Hf0 HI0 Hp0 Hw0. set (s := begin_event st) in *.
  destruct ev as [|c a]; [exact HI|]. cbn [ev_setup existsb] in Hev. cbn [ev_wid_fresh] in Hf.
  destruct (c =? 1) eqn:C1.
  { destruct a as [|nts [|ncli flags]]; try exact HI.
    destruct (negb (s_nts s =? 0) || _); cbn [fst]; [exact HI|]. apply (OInv_same s); [reflexivity|reflexivity|reflexivity|exact HI]. }
  destruct (c =? 2) eqn:C2.
  { destruct a as [|blob [|nt [|tgt [|]]]]; try exact HI. destruct (zget _ _); cbn [fst]; [exact HI|].
    apply (OInv_same s); [reflexivity|reflexivity|reflexivity|exact HI]. }
  destruct (c =? 20) eqn:C20.
  { destruct a as [|blob [|tract [|ver [|nh hosts]]]]; try exact HI.
    destruct (dget s (tkey blob tract)) eqn:E; cbn [orb]; cbn [fst]; [exact HI|].
    destruct (negb (Cluster.Model.distinct hosts)); cbn [fst]; [exact HI|].
    destruct HI as [A B C D E0].
    constructor; try assumption.
    intros h tk rep Rg. cbn [s_reps set_dtr set_dur set_reps set_store] in Rg. rewrite rget_fold_rset in Rg.
    destruct (tk_eqb tk (tkey blob tract) && zmem h hosts); [injection Rg as <-; apply sr_nil|exact (A _ _ _ Rg)]. }
  destruct (c =? 21) eqn:C21.
  { apply Z.eqb_eq in C21. subst c. change (21 =? 3) with false in Hf. change (21 =? 21) with true in Hf. cbv iota in Hf.
    destruct a as [|blob [|tract [|wid [|off [|len [|isw [|]]]]]]]; try exact HI.
    destruct (dget s (tkey blob tract)) as [d|] eqn:Dg; cbn [fst]; [|exact HI].
    set (tk := tkey blob tract) in *. set (x := (tk, Cluster.Model.mkw wid off len)).
    set (s0 := set_ghost s (x :: s_acked s) (x :: s_att s) (s_commits s) (s_durlog s)).
    change (fold_left _ (d_hosts d) s0) with (fold_left (setup_w isw tk (d_ver d) wid off len) (d_hosts d) s0).
    apply negb_true_iff in Hf.
    assert (H0: OInv s0).
    { apply (OInv_attempt s s0 tk (Cluster.Model.mkw wid off len)); try reflexivity; try assumption.
      - intros pe Hpe. cbn [s_pool s0 set_ghost] in Hpe. rewrite Hp in Hpe. destruct Hpe.
      - intros w Hw1. cbn [s_wops s0 set_ghost] in Hw1. rewrite Hw in Hw1. destruct Hw1. }
    apply OInv_setup_fold; [|exact H0]. unfold hd_is. rewrite (att_of_cons s s0 tk (Cluster.Model.mkw wid off len) eq_refl), tk_eqb_refl. eexists. reflexivity. }
  destruct (c =? 22) eqn:C22.
  { destruct a as [|blob [|tract [|]]]; try exact HI. destruct (dget s _); exact HI. }
  exfalso. cbn in Hev. discriminate.
Qed.
