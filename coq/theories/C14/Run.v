(* C14/Run.v — run-level invariants of step_fx (any switches): the durable log of a round's steps only grows and
   every logged step was applied in the term the round captured; an RS pointer, once set, stays; the term never
   decreases.  Proved by a frame argument over every function of the model. *)
From Coq Require Import List ZArith Bool Lia.
From BLB Require Import Gen.Consts.
From BLB Require Cluster.Model.
From BLB Require Import C14.Model.
Import ListNotations.
Open Scope Z_scope.

Definition p3 (st : state) := (s_durlog st, s_dtr st, s_term st).

Lemma fold_p3 {A} (f : state -> A -> state) l : forall st,
  (forall s x, p3 (f s x) = p3 s) -> p3 (fold_left f l st) = p3 st.
Proof. induction l; intros; cbn; auto. rewrite IHl; auto. Qed.

Lemma fold_p3_pair {A B} (f : state * B -> A -> state * B) l : forall st i,
  (forall s j x, p3 (fst (f (s, j) x)) = p3 s) -> p3 (fst (fold_left f l (st, i))) = p3 st.
Proof.
  induction l; intros; cbn; auto.
  destruct (f (st, i) a) as [s' j'] eqn:E. rewrite IHl; auto.
  specialize (H st i a). rewrite E in H. exact H.
Qed.

Ltac p3_step :=
  first
    [ progress autorewrite with p3
    | match goal with
      | |- context [match ?x with _ => _ end] => destruct x eqn:?
      | |- context [if ?b then _ else _] => destruct b eqn:?
      end ].
Ltac p3_crush := repeat p3_step; try reflexivity.

(* setters *)
Lemma p3_set_store st a b c : p3 (set_store st a b c) = p3 st. Proof. reflexivity. Qed.
Lemma p3_set_epoch st v : p3 (set_epoch st v) = p3 st. Proof. reflexivity. Qed.
Lemma p3_set_cur st a b c : p3 (set_cur st a b c) = p3 st. Proof. reflexivity. Qed.
Lemma p3_set_rounds st v : p3 (set_rounds st v) = p3 st. Proof. reflexivity. Qed.
Lemma p3_set_fix st v n : p3 (set_fix st v n) = p3 st. Proof. reflexivity. Qed.
Lemma p3_set_pool st v n : p3 (set_pool st v n) = p3 st. Proof. reflexivity. Qed.
Lemma p3_set_cli st a b c d : p3 (set_cli st a b c d) = p3 st. Proof. reflexivity. Qed.
Lemma p3_set_fin st a b : p3 (set_fin st a b) = p3 st. Proof. reflexivity. Qed.
Lemma p3_set_reps st v : p3 (set_reps st v) = p3 st. Proof. reflexivity. Qed.
Lemma p3_set_stamps st v : p3 (set_stamps st v) = p3 st. Proof. reflexivity. Qed.
Lemma p3_set_pieces st v : p3 (set_pieces st v) = p3 st. Proof. reflexivity. Qed.
Lemma p3_set_blobs st v : p3 (set_blobs st v) = p3 st. Proof. reflexivity. Qed.
Lemma p3_set_wops st v : p3 (set_wops st v) = p3 st. Proof. reflexivity. Qed.
Lemma p3_set_cache st v : p3 (set_cache st v) = p3 st. Proof. reflexivity. Qed.
Lemma p3_set_fixes st v : p3 (set_fixes st v) = p3 st. Proof. reflexivity. Qed.
Lemma p3_add_fin st a b c : p3 (add_fin st a b c) = p3 st. Proof. reflexivity. Qed.
Lemma p3_issue st r o : p3 (issue st r o) = p3 st. Proof. reflexivity. Qed.
Lemma p3_begin_event st : p3 (begin_event st) = p3 st. Proof. reflexivity. Qed.
Lemma p3_set_late st v : p3 (set_late st v) = p3 st. Proof. reflexivity. Qed.
Lemma p3_set_ghost_same st a b c : p3 (set_ghost st a b c (s_durlog st)) = p3 st. Proof. reflexivity. Qed.
#[export] Hint Rewrite p3_set_store p3_set_epoch p3_set_cur p3_set_rounds p3_set_fix p3_set_pool p3_set_cli p3_set_fin
  p3_set_reps p3_set_stamps p3_set_pieces p3_set_blobs p3_set_wops p3_set_cache p3_set_fixes p3_add_fin p3_issue
  p3_begin_event p3_set_ghost_same p3_set_late : p3.

Lemma p3_finish_w st w n e : p3 (finish_w st w n e) = p3 st.
Proof. unfold finish_w. p3_crush. Qed.
#[export] Hint Rewrite p3_finish_w : p3.

Lemma p3_w_after_entry fx st w e c : p3 (w_after_entry fx st w e c) = p3 st.
Proof.
  unfold w_after_entry. p3_crush.
  rewrite fold_p3; [p3_crush|]. intros s [h k]. p3_crush.
Qed.
#[export] Hint Rewrite p3_w_after_entry : p3.

Lemma p3_w_get fx st w : p3 (w_get fx st w) = p3 st.
Proof. unfold w_get. p3_crush. Qed.
#[export] Hint Rewrite p3_w_get : p3.

Lemma p3_cli_reply fx st op r res en : p3 (cli_reply fx st op r res en) = p3 st.
Proof. unfold cli_reply. p3_crush. Qed.
#[export] Hint Rewrite p3_cli_reply : p3.

Lemma p3_finish_fix fx st f e : p3 (finish_fix fx st f e) = p3 st.
Proof. unfold finish_fix. p3_crush. Qed.
#[export] Hint Rewrite p3_finish_fix : p3.

Lemma p3_activate_fix fx st f : p3 (activate_fix fx st f) = p3 st.
Proof.
  unfold activate_fix. p3_crush.
  rewrite fold_p3; [p3_crush|]. intros. p3_crush.
Qed.
#[export] Hint Rewrite p3_activate_fix : p3.

Lemma p3_wake fx n : forall st, p3 (wake fx n st) = p3 st.
Proof. induction n; intros; cbn [wake]; [reflexivity|]. p3_crush. rewrite IHn. p3_crush. Qed.
#[export] Hint Rewrite p3_wake : p3.

Lemma p3_start_fix fx st g tk c b r : p3 (start_fix fx st g tk c b r) = p3 st.
Proof. unfold start_fix. p3_crush. Qed.
#[export] Hint Rewrite p3_start_fix : p3.

Lemma p3_round_check_over st r : p3 (round_check_over st r) = p3 st.
Proof. unfold round_check_over. p3_crush. Qed.
#[export] Hint Rewrite p3_round_check_over : p3.

Lemma p3_round_after_stats st r : p3 (round_after_stats st r) = p3 st.
Proof. unfold round_after_stats. p3_crush. Qed.
#[export] Hint Rewrite p3_round_after_stats : p3.

Lemma p3_stat_reply fx st r tk h e sz stamp : p3 (stat_reply fx st r tk h e sz stamp) = p3 st.
Proof. unfold stat_reply. p3_crush. Qed.
#[export] Hint Rewrite p3_stat_reply : p3.

Lemma p3_cleanup st g e : p3 (cleanup st g e) = p3 st.
Proof. unfold cleanup. rewrite fold_p3_pair; [reflexivity|]. intros. cbn. p3_crush. Qed.
#[export] Hint Rewrite p3_cleanup : p3.

Lemma p3_enc_finish st r e ok : p3 (enc_finish st r e ok) = p3 st.
Proof. unfold enc_finish. p3_crush. Qed.
#[export] Hint Rewrite p3_enc_finish : p3.

Lemma p3_alloc_reply st r e b w h : p3 (alloc_reply st r e b w h) = p3 st.
Proof.
  unfold alloc_reply. p3_crush.
  rewrite fold_p3; [p3_crush|].
  intros s x. rewrite fold_p3_pair; [reflexivity|]. intros. cbn. p3_crush.
Qed.
#[export] Hint Rewrite p3_alloc_reply : p3.

Lemma p3_round_reply fx st op rp res hint : p3 (round_reply fx st op rp res hint) = p3 st.
Proof.
  unfold round_reply. p3_crush.
  all: try (rewrite fold_p3; [p3_crush|]; intros s [[[a b] c] d]; p3_crush).
Qed.
#[export] Hint Rewrite p3_round_reply : p3.

Lemma p3_ts_write st ts tk v w o l : p3 (fst (ts_write st ts tk v w o l)) = p3 st.
Proof. unfold ts_write. p3_crush. Qed.
Lemma p3_ts_setversion st ts i tk nv c : p3 (fst (ts_setversion st ts i tk nv c)) = p3 st.
Proof. unfold ts_setversion. p3_crush. Qed.
Lemma p3_ts_pack st ts i ch t sp f : p3 (fst (ts_pack st ts i ch t sp f)) = p3 st.
Proof. unfold ts_pack. p3_crush. Qed.
#[export] Hint Rewrite p3_ts_write p3_ts_setversion p3_ts_pack : p3.

(* ------------------------------------------------------------------ the monotone part *)
Definition log_ok (l : list (Z * Z * Z)) : Prop := Forall (fun x => snd (fst x) = snd x) l.

Definition rs_kept (m m' : list (tkt * dtr)) : Prop :=
  forall tk d, Cluster.Model.tget m tk = Some d ->
    exists d', Cluster.Model.tget m' tk = Some d' /\ (d_rs d <> None -> d_rs d' <> None).

Definition mono (st st' : state) : Prop :=
  (exists l, s_durlog st' = l ++ s_durlog st /\ log_ok l) /\ rs_kept (s_dtr st) (s_dtr st') /\ s_term st <= s_term st'.

Lemma rs_kept_refl m : rs_kept m m.
Proof. intros tk d H. eauto. Qed.
Lemma rs_kept_trans a b c : rs_kept a b -> rs_kept b c -> rs_kept a c.
Proof.
  intros H1 H2 tk d H. destruct (H1 _ _ H) as [d' [E1 K1]]. destruct (H2 _ _ E1) as [d'' [E2 K2]].
  exists d''. split; auto.
Qed.

Lemma mono_refl st : mono st st.
Proof. split; [exists []; split; [reflexivity|constructor]|split; [apply rs_kept_refl|lia]]. Qed.

Lemma mono_trans a b c : mono a b -> mono b c -> mono a c.
Proof.
  intros [[l1 [E1 O1]] [R1 T1]] [[l2 [E2 O2]] [R2 T2]].
  split; [|split; [eapply rs_kept_trans; eauto|lia]].
  exists (l2 ++ l1). split; [rewrite E2, E1, app_assoc; reflexivity|apply Forall_app; auto].
Qed.

Lemma mono_p3 st st' : p3 st' = p3 st -> mono st st'.
Proof.
  unfold p3. intros H. injection H as H1 H2 H3.
  split; [exists []; split; [rewrite H1; reflexivity|constructor]|split; [rewrite H2; apply rs_kept_refl|lia]].
Qed.

(* mono depends on the three projections only *)
Lemma mono_p3_r a b b' : p3 b' = p3 b -> mono a b -> mono a b'.
Proof. intros H M. eapply mono_trans; [exact M|apply mono_p3; exact H]. Qed.
Lemma mono_p3_l a a' b : p3 a' = p3 a -> mono a' b -> mono a b.
Proof. intros H M. eapply mono_trans; [apply mono_p3; exact H|exact M]. Qed.

Lemma tk_eqb_eq a b : Cluster.Model.tk_eqb a b = true <-> a = b.
Proof.
  destruct a as [a1 a2], b as [b1 b2]. unfold Cluster.Model.tk_eqb. cbn. rewrite andb_true_iff, !Z.eqb_eq.
  split; [intros [? ?]; subst; reflexivity|intros H; injection H; auto].
Qed.

Lemma tget_tdel {A} (m : list (tkt * A)) k k' : Cluster.Model.tget (Cluster.Model.tdel m k) k' =
  if Cluster.Model.tk_eqb k' k then None else Cluster.Model.tget m k'.
Proof.
  induction m as [|[x v] m IH]; cbn.
  - destruct (Cluster.Model.tk_eqb k' k); reflexivity.
  - destruct (Cluster.Model.tk_eqb k x) eqn:E.
    + rewrite IH. destruct (Cluster.Model.tk_eqb k' k) eqn:E2; [reflexivity|].
      destruct (Cluster.Model.tk_eqb k' x) eqn:E3; [|reflexivity].
      apply tk_eqb_eq in E, E3. subst. rewrite (proj2 (tk_eqb_eq x x) eq_refl) in E2. discriminate.
    + cbn. destruct (Cluster.Model.tk_eqb k' x) eqn:E3.
      * destruct (Cluster.Model.tk_eqb k' k) eqn:E2; [|reflexivity].
        apply tk_eqb_eq in E2, E3. subst. rewrite (proj2 (tk_eqb_eq x x) eq_refl) in E. discriminate.
      * exact IH.
Qed.

Lemma tget_tset {A} (m : list (tkt * A)) k v k' : Cluster.Model.tget (Cluster.Model.tset m k v) k' =
  if Cluster.Model.tk_eqb k' k then Some v else Cluster.Model.tget m k'.
Proof.
  unfold Cluster.Model.tset. cbn. destruct (Cluster.Model.tk_eqb k' k) eqn:E; [reflexivity|].
  rewrite tget_tdel, E. reflexivity.
Qed.

(* overwriting a record by one that keeps (or sets) the RS pointer *)
Lemma rs_kept_tset m tk d d' :
  Cluster.Model.tget m tk = Some d -> (d_rs d <> None -> d_rs d' <> None) -> rs_kept m (Cluster.Model.tset m tk d').
Proof.
  intros H K tk0 d0 H0. rewrite tget_tset. destruct (Cluster.Model.tk_eqb tk0 tk) eqn:E.
  - apply tk_eqb_eq in E. subst. rewrite H in H0. injection H0 as <-. eauto.
  - eauto.
Qed.

Lemma mono_change_tract st term tk ver hosts : mono st (fst (change_tract st term tk ver hosts)).
Proof.
  unfold change_tract. repeat match goal with |- context [if ?b then _ else _] => destruct b | |- context [match ?x with _ => _ end] => destruct x eqn:? end;
    cbn [fst]; try apply mono_refl.
  split; [exists []; split; [reflexivity|constructor]|split; [|cbn; lia]].
  cbn. eapply rs_kept_tset; [eassumption|]. cbn. auto.
Qed.

Lemma p3_set_dtr_same st : forall m, s_dtr st = m -> p3 (set_dtr st m) = p3 st.
Proof. intros; subst; reflexivity. Qed.

Lemma rs_kept_fold {A} (f : list (tkt * dtr) -> A -> list (tkt * dtr)) l :
  (forall m x, rs_kept m (f m x)) -> forall m, rs_kept m (fold_left f l m).
Proof.
  intros H. induction l; intros; cbn; [apply rs_kept_refl|]. eapply rs_kept_trans; [apply H|apply IHl].
Qed.

Lemma mono_commit_rs fx st op term base hosts tracts : mono st (fst (commit_rs fx st op term base hosts tracts)).
Proof.
  unfold commit_rs. destruct (negb (term =? s_term st)) eqn:Et; cbn [fst]; [apply mono_refl|].
  destruct (negb (commit_checks fx st tracts =? cl_NoError)); cbn [fst]; [apply mono_refl|].
  apply negb_false_iff, Z.eqb_eq in Et.
  split; [|split].
  - cbn. eexists [_]. split; [reflexivity|]. constructor; [cbn; exact Et|constructor].
  - cbn. apply rs_kept_fold. intros m [[[[tk off] len] nv] idx].
    destruct (Cluster.Model.tget m tk) eqn:E; [|apply rs_kept_refl].
    eapply rs_kept_tset; [exact E|]. cbn. intros _ ?. discriminate.
  - cbn. lia.
Qed.

Lemma mono_update_class st op term blob cls : mono st (fst (update_class st op term blob cls)).
Proof.
  unfold update_class. destruct (negb (term =? s_term st)) eqn:Et; cbn [fst]; [apply mono_refl|].
  destruct (Cluster.Model.zget (s_blobs st) blob); cbn [fst]; [|apply mono_refl].
  destruct (negb (all_rs st blob)); cbn [fst]; [apply mono_refl|].
  apply negb_false_iff, Z.eqb_eq in Et.
  split; [|split].
  - cbn. eexists [_]. split; [reflexivity|]. constructor; [cbn; exact Et|constructor].
  - cbn. apply rs_kept_fold. intros m tk.
    destruct (Cluster.Model.tget m tk) eqn:E; [|apply rs_kept_refl].
    eapply rs_kept_tset; [exact E|]. cbn. auto.
  - cbn. lia.
Qed.

Lemma mono_fix_reply fx st id err : mono st (fix_reply fx st id err).
Proof.
  unfold fix_reply. destruct (find_fix (s_fix st) id); [|apply mono_refl].
  destruct (negb (err =? cl_NoError)); [apply mono_p3; p3_crush|].
  destruct (1 <? f_wait f); [apply mono_p3; p3_crush|].
  pose proof (mono_change_tract st (f_term f) (f_tk f) (f_dv f + 1) (f_hosts f)) as M.
  destruct (change_tract st (f_term f) (f_tk f) (f_dv f + 1) (f_hosts f)) as [st1 e]. cbn [fst] in M.
  eapply mono_p3_r; [|exact M]. p3_crush.
Qed.

Lemma mono_round_start st op : mono st (fst (round_start st op)).
Proof.
  unfold round_start.
  match goal with |- context [fold_left ?f (blob_ids st) _] => set (F := f) end.
  assert (H: forall l acc, mono (fst (fst acc)) (fst (fst (fold_left F l acc)))).
  { induction l; intros; cbn [fold_left]; [apply mono_refl|].
    eapply mono_trans; [|apply IHl].
    destruct acc as [[s a0] o]. unfold F. cbn [fst].
    destruct (Cluster.Model.zget (s_blobs s) a); [|apply mono_refl].
    destruct (b_cls b =? b_tgt b); [apply mono_refl|].
    destruct (all_rs s a).
    - pose proof (mono_update_class s op (s_term st) a (b_tgt b)) as M.
      destruct (update_class s op (s_term st) a (b_tgt b)). exact M.
    - destruct (b_cls b =? c14_ClassREPLICATED); apply mono_refl. }
  specialize (H (blob_ids st) (st, [], [])). cbn [fst] in H.
  destruct (fold_left F (blob_ids st) (st, [], [])) as [[st1 tracts] obs]. cbn [fst] in *.
  eapply mono_p3_r; [|exact H].
  match goal with |- p3 (if ?b then _ else _) = _ => destruct b end; p3_crush;
  (rewrite fold_p3; [p3_crush|]; intros; p3_crush).
Qed.

Ltac via_fst L :=
  match goal with |- context [let '(a, b) := ?t in _] =>
    let E := fresh "E" in let s := fresh "s" in let c := fresh "c" in
    destruct t as [s c] eqn:E; cbn [fst]; apply mono_p3;
    replace s with (fst t) by (rewrite E; reflexivity); apply L end.

Definition st_of (x : state * list Z * option centry * list Z) : state := fst (fst (fst x)).

Lemma mono_exec_rpc fx st e extra : mono st (st_of (exec_rpc fx st e extra)).
Proof.
  unfold exec_rpc, st_of.
  destruct (Cluster.Model.k_kind (p_rpc e) =? K_Write). { via_fst p3_ts_write. }
  destruct (Cluster.Model.k_kind (p_rpc e) =? K_SetVersion). { via_fst p3_ts_setversion. }
  destruct (Cluster.Model.k_kind (p_rpc e) =? K_CtlStat).
  { destruct (ts_stat st _ _ _) as [[? ?] ?]. cbn [fst]. apply mono_refl. }
  destruct (Cluster.Model.k_kind (p_rpc e) =? K_PackTracts). { via_fst p3_ts_pack. }
  destruct (Cluster.Model.k_kind (p_rpc e) =? K_RSEncode).
  { repeat match goal with |- context [match ?x with _ => _ end] => destruct x | |- context [if ?b then _ else _] => destruct b end;
      cbn [fst]; try apply mono_refl; apply mono_p3; reflexivity. }
  destruct (Cluster.Model.k_kind (p_rpc e) =? K_GCTract).
  { destruct (negb _); cbn [fst]; [apply mono_refl|apply mono_p3; reflexivity]. }
  destruct (Cluster.Model.k_kind (p_rpc e) =? K_StatBlob).
  { destruct (Cluster.Model.zget _ _); cbn [fst]; apply mono_refl. }
  destruct (Cluster.Model.k_kind (p_rpc e) =? K_GetTracts).
  { repeat match goal with |- context [match ?x with _ => _ end] => destruct x | |- context [if ?b then _ else _] => destruct b end;
      cbn [fst]; apply mono_refl. }
  destruct (Cluster.Model.k_kind (p_rpc e) =? K_ReportBadTS). { cbn [fst]. apply mono_refl. }
  destruct (Cluster.Model.k_kind (p_rpc e) =? K_Alloc).
  { destruct (find_round _ _) as [rd|]; cbn [fst]; [|apply mono_refl].
    destruct (negb (rd_term rd =? s_term st)) eqn:Et; cbn [fst]; [apply mono_refl|].
    apply negb_false_iff, Z.eqb_eq in Et.
    split; [|split; [cbn; apply rs_kept_refl|cbn; lia]].
    cbn. eexists [_]. split; [reflexivity|]. constructor; [cbn; exact Et|constructor]. }
  destruct (Cluster.Model.k_kind (p_rpc e) =? K_Commit).
  { destruct (find_round _ _) as [rd|]; cbn [fst]; [|apply mono_refl].
    destruct (find_enc_chunk _ _) as [eo|]; cbn [fst]; [|apply mono_refl].
    match goal with |- context [commit_rs ?a ?b ?c ?d ?e0 ?f ?g] => pose proof (mono_commit_rs a b c d e0 f g) as M; destruct (commit_rs a b c d e0 f g) end.
    cbn [fst] in *. exact M. }
  cbn [fst]. apply mono_refl.
Qed.

Lemma mono_deliver fx st e res en hint : mono st (deliver fx st e res en hint).
Proof.
  unfold deliver.
  destruct (p_owner e =? 0); [apply mono_p3; p3_crush|].
  destruct (p_owner e <? 0).
  - eapply mono_p3_l; [|apply mono_fix_reply]. p3_crush.
  - destruct (find_wop _ _); apply mono_p3; p3_crush.
Qed.

Lemma mono_step_exec fx st mode l : mono st (fst (step_exec fx st mode l)).
Proof.
  unfold step_exec. destruct (Cluster.Model.parse_rpc l) as [[rp r1]|]; [|apply mono_refl].
  destruct (match r1 with [] => _ | n :: t => _ end) as [extra r2].
  destruct (find_pent (s_pool st) rp) as [e|]; [|apply mono_refl].
  destruct (mode =? 4); [cbn [fst]; apply mono_deliver|].
  destruct (Cluster.Model.k_kind rp =? K_FixVersion); [cbn [fst]; apply mono_p3; p3_crush|].
  pose proof (mono_exec_rpc fx st e extra) as M1. unfold st_of in M1.
  destruct (exec_rpc fx st e extra) as [[[st1 res] en] dump]. cbn [fst] in M1.
  assert (M2: mono st (fst (if mode =? 3 then let '(s', _, _, d') := exec_rpc fx st1 e extra in (s', d') else (st1, dump)))).
  { destruct (mode =? 3); [|exact M1].
    pose proof (mono_exec_rpc fx st1 e extra) as M3. unfold st_of in M3.
    destruct (exec_rpc fx st1 e extra) as [[[s' ?] ?] d']. cbn [fst] in *. eapply mono_trans; eauto. }
  destruct (if mode =? 3 then _ else _) as [st2 dump2]. cbn [fst] in *.
  eapply mono_trans; [exact M2|apply mono_deliver].
Qed.

Lemma mono_fold {A} (f : state -> A -> state) l : (forall s x, mono s (f s x)) -> forall st, mono st (fold_left f l st).
Proof. intros H. induction l; intros; cbn; [apply mono_refl|]. eapply mono_trans; [apply H|apply IHl]. Qed.

Lemma mono_step_restart fx st ts : mono st (fst (step_restart fx st ts)).
Proof.
  unfold step_restart. cbn [fst].
  eapply mono_p3_l; [|apply mono_fold]. { reflexivity. }
  intros s x. destruct (find _ _); [apply mono_deliver|apply mono_refl].
Qed.

Lemma rs_kept_tset_fresh m tk d : Cluster.Model.tget m tk = None -> rs_kept m (Cluster.Model.tset m tk d).
Proof.
  intros H tk0 d0 H0. rewrite tget_tset. destruct (Cluster.Model.tk_eqb tk0 tk) eqn:E; [|eauto].
  apply tk_eqb_eq in E. subst. congruence.
Qed.

Lemma mono_begin st st' : mono (begin_event st) st' -> mono st st'.
Proof. apply mono_p3_l. reflexivity. Qed.

Lemma mono_step fx st ev : mono st (fst (step_fx fx st ev)).
Proof.
  unfold step_fx. apply mono_begin. set (s := begin_event st).
  destruct ev as [|c a]; [apply mono_refl|].
  destruct (c =? 1).
  { destruct a as [|nts [|ncli flags]]; try apply mono_refl.
    destruct (negb (s_nts s =? 0) || _); cbn [fst]; [apply mono_refl|apply mono_p3; reflexivity]. }
  destruct (c =? 2).
  { destruct a as [|blob [|nt [|tgt [|]]]]; try apply mono_refl.
    destruct (Cluster.Model.zget _ _); cbn [fst]; [apply mono_refl|apply mono_p3; reflexivity]. }
  destruct (c =? 20).
  { destruct a as [|blob [|tract [|ver [|nh hosts]]]]; try apply mono_refl.
    destruct (dget s (Cluster.Model.tkey blob tract)) eqn:E; cbn [orb]; cbn [fst]; [apply mono_refl|].
    destruct (negb (Cluster.Model.distinct hosts)); cbn [fst]; [apply mono_refl|].
    split; [exists []; split; [reflexivity|constructor]|split; [|cbn; lia]].
    cbn. apply rs_kept_tset_fresh. exact E. }
  destruct (c =? 21).
  { destruct a as [|blob [|tract [|wid [|off [|len [|isw [|]]]]]]]; try apply mono_refl.
    destruct (dget s _); cbn [fst]; [|apply mono_refl].
    apply mono_p3. rewrite fold_p3; [reflexivity|]. intros. p3_crush. }
  destruct (c =? 22).
  { destruct a as [|blob [|tract [|]]]; try apply mono_refl. destruct (dget s _); apply mono_refl. }
  destruct (c =? 3).
  { destruct a as [|op [|cli [|blob [|tract [|off [|len [|wid [|]]]]]]]]; try apply mono_refl.
    destruct (negb (op_fresh s op) || (len <=? 0)); cbn [fst]; [apply mono_refl|apply mono_p3; reflexivity]. }
  destruct (c =? 6).
  { destruct a as [|blob [|tract [|ver [|badts [|]]]]]; try apply mono_refl. cbn [fst]. apply mono_p3. p3_crush. }
  destruct (c =? 7).
  { destruct a; [apply mono_refl|apply mono_step_exec]. }
  destruct (c =? 9).
  { destruct a as [|ts [|]]; try apply mono_refl. apply mono_step_restart. }
  destruct (c =? 10).
  { cbn [fst]. split; [exists []; split; [reflexivity|constructor]|split; [cbn; apply rs_kept_refl|cbn; lia]]. }
  destruct (c =? 11).
  { destruct a as [|ts [|]]; try apply mono_refl. cbn [fst]. apply mono_p3. reflexivity. }
  destruct (c =? 80).
  { destruct a as [|op [|]]; try apply mono_refl.
    destruct (negb (op_fresh s op)); [apply mono_refl|].
    pose proof (mono_round_start s op) as M. destruct (round_start s op) as [st1 obs]. exact M. }
  destruct (c =? 30).
  { destruct a as [|blob [|tract [|off [|len [|nt tries]]]]]; apply mono_refl. }
  destruct (c =? 81).
  { destruct (Cluster.Model.parse_rpc a) as [[rp r1]|]; [|apply mono_refl].
    destruct (match r1 with [] => _ | n :: t => _ end) as [res r2].
    destruct (find_pent _ _); cbn [fst]; [apply mono_deliver|apply mono_refl]. }
  destruct (c =? 82); [apply mono_refl|].
  destruct (c =? 84); [apply mono_refl|].
  destruct (c =? 83); [apply mono_refl|].
  destruct (c =? 31).
  { destruct a as [|blob [|]]; try apply mono_refl. destruct (Cluster.Model.zget _ _); apply mono_refl. }
  apply mono_refl.
Qed.

(* ------------------------------------------------------------------ runs *)
Lemma run_state_app fx evs1 : forall st evs2,
  run_state_fx fx st (evs1 ++ evs2) = run_state_fx fx (run_state_fx fx st evs1) evs2.
Proof. induction evs1; intros; cbn; auto. Qed.

Lemma mono_run fx evs : forall st, mono st (run_state_fx fx st evs).
Proof. induction evs; intros; cbn; [apply mono_refl|]. eapply mono_trans; [apply mono_step|apply IHevs]. Qed.

(* every durable step of a round that was ever applied (AllocateRSChunkIDs, CommitRSChunk, UpdateStorageClass) was
   applied in the term the round captured at its start *)
Theorem durlog_term_bound fx evs :
  forall op rterm tapply, In (op, rterm, tapply) (s_durlog (run_state_fx fx init_state evs)) -> rterm = tapply.
Proof.
  intros op rterm tapply H.
  destruct (mono_run fx evs init_state) as [[l [E O]] _]. rewrite E in H. cbn [s_durlog init_state] in H.
  rewrite app_nil_r in H. unfold log_ok in O. rewrite Forall_forall in O. apply (O _ H).
Qed.

(* an RS pointer, once committed, is never taken away again, whatever happens afterwards *)
Theorem rs_pointer_permanent fx evs1 evs2 tk d :
  dget (run_state_fx fx init_state evs1) tk = Some d -> d_rs d <> None ->
  exists d', dget (run_state_fx fx init_state (evs1 ++ evs2)) tk = Some d' /\ d_rs d' <> None.
Proof.
  intros H K. rewrite run_state_app.
  destruct (mono_run fx evs2 (run_state_fx fx init_state evs1)) as [_ [R _]].
  destruct (R _ _ H) as [d' [E1 K1]]. eauto.
Qed.
