(* C14/Model.v — moving a blob to erasure-coded storage (tractPacker) over the Cluster family.

   One transition = one scheduling decision of the integrated harness go/C14: an RPC executed atomically
   at its callee and its reply handed to the caller (or lost, or the call failed, or executed twice), a
   tractserver restart, a leader change, a heartbeat, the start of a client write, of a storage-class
   round, an atomic client read.

   Transcribed:
     tractserver : Store.Write/Read/Stat/SetVersion(conditionalStamp)/PackTracts/GCTracts (store.go,
                   store_internal.go: stamps bumped by every write ATTEMPT, reset by a restart), RSEncode
                   (presence of pieces only; the code itself is C13's)
     durable     : GetTracts (RS pointer hides the hosts), Stat, ChangeTract, AllocateRSChunkIDs,
                   CommitRSChunk/PutRSChunk, UpdateStorageClass, all term-conditional (ProposeIfTerm)
     curator     : one round of storageClassLoop, tractPacker (doStat, packChunks, doEncode with encPick,
                   encPack, encEncode, encBump, encCommit, encCleanupAfterFailure), fixVersion
     client      : writeAt/writeExistingTracts for a write inside one existing tract (StatBlob, class check,
                   tract cache, fan-out, invalidate-and-retry, ReportBadTS / FixVersion), readAt for a
                   range inside one tract (replicated and through the RS pointer)
   Oracle inputs (validated, never predicted): the layout packTracts chose and the servers allocateTS
   picked (C13 / C17 are about those), the replica order a read tries.

   Three switches describe the repairs committed in /repo (defd77a, 5c76c3c, 05b6487); run_case = the
   code as it is = all three on; no_fix = the code before them:
     fx6  : CommitRSChunkCommand.apply refuses unless stored version + 1 = NewVersion
     fx13 : PackTracts sources are restricted to the replicas whose stamp was collected
     fx14 : the client refuses a tract without hosts / with an RS pointer (ErrReadOnlyStorageClass) *)
From Coq Require Import List ZArith Bool Lia.
From BLB Require Import Gen.Consts.
From BLB Require Cluster.Model.
Import ListNotations.
Open Scope Z_scope.



Notation wrec := Cluster.Model.wrec.
Notation tkt := Cluster.Model.tkt.
Notation rkey := Cluster.Model.rkey.
Notation replica := Cluster.Model.replica.
Notation rpc := Cluster.Model.rpc.
Notation zmem := Cluster.Model.zmem.

Record fixes := { fx6 : bool; fx13 : bool; fx14 : bool }.
Definition no_fix : fixes := {| fx6 := false; fx13 := false; fx14 := false |}.
Definition all_fix : fixes := {| fx6 := true; fx13 := true; fx14 := true |}.

(* ------------------------------------------------------------------ kinds *)
Definition K_StatBlob := 2.   Definition K_GetTracts := 3.  Definition K_FixVersion := 6.
Definition K_ReportBadTS := 7. Definition K_Write := 10.    Definition K_SetVersion := 13.
Definition K_GCTract := 15.   Definition K_CtlStat := 16.   Definition K_PackTracts := 17.
Definition K_RSEncode := 18.  Definition K_Alloc := 40.     Definition K_Commit := 41.

Definition RS_N := 6.  Definition RS_M := 3.
Definition PAD := c14_padToLength.
Definition TL := cl_TractLength.

(* ------------------------------------------------------------------ state *)
Record rsp := { rs_base : Z; rs_idx : Z; rs_ts : Z; rs_off : Z; rs_len : Z }.
Record dtr := { d_ver : Z; d_hosts : list Z; d_rs : option rsp }.
Record blobrec := { b_cls : Z; b_nt : Z; b_tgt : Z }.

(* a piece of an RS chunk on a tractserver: data pieces list the tracts copied into them *)
Record piece := { pc_items : list (tkt * Z * Z * list wrec) (* tract, offset, length, content *); pc_len : Z; pc_data : bool }.

(* per-tract record of a tractPacker (core.PackTractSpec + the stamps map) *)
Record ptr := { pt_tk : tkt; pt_ver : Z; pt_from : list Z; pt_len : Z; pt_next : list Z;
                pt_stamps : list (Z * (Z * Z)); pt_vmh : Z; pt_done : bool }.

(* rsEncodeOp.  stage: 2 pack, 3 encode, 4 bump, 5 commit, 9 over *)
Record encop := { e_base : Z; e_chunks : list (tkt * Z * Z) (* tract, offset, length; chunk i = i-th entry *);
                  e_hosts : list Z; e_stage : Z; e_wait : Z; e_errs : list (Z * Z) (* slot -> error *) }.

(* one round of storageClassLoop.  phase: 1 stats, 2 alloc pending, 3 encoding, 9 over *)
Record round := { rd_op : Z; rd_gen : Z; rd_term : Z; rd_phase : Z; rd_tracts : list ptr; rd_encs : list encop; rd_done : Z }.

(* fixVersion.  phase: 0 waiting for the tract lock, 1 bumping *)
Record ftask := { f_id : Z; f_gen : Z; f_term : Z; f_tk : tkt; f_phase : Z; f_cliver : Z; f_badts : Z;
                  f_dv : Z; f_hosts : list Z; f_wait : Z; f_rpc : Z (* pool id of the FixVersion RPC it serves *) }.

Record centry := { ce_ver : Z; ce_hosts : list (Z * Z); ce_rs : bool }.

(* client write.  phase: 1 StatBlob, 2 GetTracts, 3 writes, 4 ReportBadTS/FixVersion *)
Record wop := { wo_op : Z; wo_cli : Z; wo_blob : Z; wo_tract : Z; wo_off : Z; wo_len : Z; wo_wid : Z;
                wo_phase : Z; wo_cached : bool; wo_retry : bool; wo_entry : option centry;
                wo_res : list (Z * Z); wo_final : Z;
                wo_late : bool (* ghost: the tract had an RS pointer when the operation started *) }.

Record pent := { p_id : Z; p_rpc : rpc; p_owner : Z; p_run : bool (* FixVersion callee running *) ; p_lose : bool }.

Record state := {
  s_reps : list (rkey * replica);
  s_stamps : list (rkey * (Z * Z));       (* replica -> (epoch of the Store that knows it, write attempts since) *)
  s_epoch : list (Z * Z);                 (* tractserver -> restarts *)
  s_pieces : list ((Z * Z) * piece);      (* (tractserver, chunk id) -> piece *)
  s_blobs : list (Z * blobrec);
  s_dtr : list (tkt * dtr);
  s_term : Z;
  s_nextchunk : Z;
  s_gen : Z;
  s_known : list (Z * list Z);
  s_nts : Z;
  s_rounds : list round;
  s_fix : list ftask;
  s_pool : list pent;
  s_next : Z;                             (* next pool id *)
  s_nfix : Z;                             (* fix task ids are negative: -(s_nfix+1) *)
  s_wops : list wop;
  s_cache : list (Z * (tkt * centry));    (* client -> cached location entry *)
  s_lcache : list Z;                      (* clients whose partition lookup is cached *)
  s_usecache : list (Z * bool);
  s_fin : list (Z * Z * Z);               (* finished during this event: op, n, error *)
  s_mark : Z;                             (* pool ids >= s_mark were issued during this event *)
  (* ghosts *)
  s_acked : list (tkt * wrec);            (* acknowledged writes, newest first *)
  s_att : list (tkt * wrec);              (* write attempts started, newest first *)
  s_commits : list (tkt * Z * list wrec * Z * Z * list wrec); (* applied commits: tract, term of the round, packed content, new version, stored version before, the writes to the tract started so far (newest first) *)
  s_durlog : list (Z * Z * Z);            (* durable steps of rounds that were applied: (round op, round term, term at apply) *)
  s_late : list (tkt * wrec)              (* acknowledged writes of clients without cache that STARTED when their tract already had an RS pointer *)
}.

Definition init_state : state :=
  {| s_reps := []; s_stamps := []; s_epoch := []; s_pieces := []; s_blobs := []; s_dtr := []; s_term := 1;
     s_nextchunk := 1; s_gen := 1; s_known := []; s_nts := 0; s_rounds := []; s_fix := []; s_pool := [];
     s_next := 1; s_nfix := 0; s_wops := []; s_cache := []; s_lcache := []; s_usecache := []; s_fin := []; s_mark := 1;
     s_acked := []; s_att := []; s_commits := []; s_durlog := []; s_late := [] |}.

Definition set_store st reps stamps pieces :=
  {| s_reps := reps; s_stamps := stamps; s_epoch := s_epoch st; s_pieces := pieces; s_blobs := s_blobs st; s_dtr := s_dtr st;
     s_term := s_term st; s_nextchunk := s_nextchunk st; s_gen := s_gen st; s_known := s_known st; s_nts := s_nts st;
     s_rounds := s_rounds st; s_fix := s_fix st; s_pool := s_pool st; s_next := s_next st; s_nfix := s_nfix st;
     s_wops := s_wops st; s_cache := s_cache st; s_lcache := s_lcache st; s_usecache := s_usecache st; s_fin := s_fin st;
     s_mark := s_mark st; s_acked := s_acked st; s_att := s_att st; s_commits := s_commits st; s_durlog := s_durlog st; s_late := s_late st |}.
Definition set_epoch st v :=
  {| s_reps := s_reps st; s_stamps := s_stamps st; s_epoch := v; s_pieces := s_pieces st; s_blobs := s_blobs st; s_dtr := s_dtr st;
     s_term := s_term st; s_nextchunk := s_nextchunk st; s_gen := s_gen st; s_known := s_known st; s_nts := s_nts st;
     s_rounds := s_rounds st; s_fix := s_fix st; s_pool := s_pool st; s_next := s_next st; s_nfix := s_nfix st;
     s_wops := s_wops st; s_cache := s_cache st; s_lcache := s_lcache st; s_usecache := s_usecache st; s_fin := s_fin st;
     s_mark := s_mark st; s_acked := s_acked st; s_att := s_att st; s_commits := s_commits st; s_durlog := s_durlog st; s_late := s_late st |}.
Definition set_dur st blobs dtrs term nextchunk :=
  {| s_reps := s_reps st; s_stamps := s_stamps st; s_epoch := s_epoch st; s_pieces := s_pieces st; s_blobs := blobs; s_dtr := dtrs;
     s_term := term; s_nextchunk := nextchunk; s_gen := s_gen st; s_known := s_known st; s_nts := s_nts st;
     s_rounds := s_rounds st; s_fix := s_fix st; s_pool := s_pool st; s_next := s_next st; s_nfix := s_nfix st;
     s_wops := s_wops st; s_cache := s_cache st; s_lcache := s_lcache st; s_usecache := s_usecache st; s_fin := s_fin st;
     s_mark := s_mark st; s_acked := s_acked st; s_att := s_att st; s_commits := s_commits st; s_durlog := s_durlog st; s_late := s_late st |}.
Definition set_cur st gen known nts :=
  {| s_reps := s_reps st; s_stamps := s_stamps st; s_epoch := s_epoch st; s_pieces := s_pieces st; s_blobs := s_blobs st; s_dtr := s_dtr st;
     s_term := s_term st; s_nextchunk := s_nextchunk st; s_gen := gen; s_known := known; s_nts := nts;
     s_rounds := s_rounds st; s_fix := s_fix st; s_pool := s_pool st; s_next := s_next st; s_nfix := s_nfix st;
     s_wops := s_wops st; s_cache := s_cache st; s_lcache := s_lcache st; s_usecache := s_usecache st; s_fin := s_fin st;
     s_mark := s_mark st; s_acked := s_acked st; s_att := s_att st; s_commits := s_commits st; s_durlog := s_durlog st; s_late := s_late st |}.
Definition set_rounds st v :=
  {| s_reps := s_reps st; s_stamps := s_stamps st; s_epoch := s_epoch st; s_pieces := s_pieces st; s_blobs := s_blobs st; s_dtr := s_dtr st;
     s_term := s_term st; s_nextchunk := s_nextchunk st; s_gen := s_gen st; s_known := s_known st; s_nts := s_nts st;
     s_rounds := v; s_fix := s_fix st; s_pool := s_pool st; s_next := s_next st; s_nfix := s_nfix st;
     s_wops := s_wops st; s_cache := s_cache st; s_lcache := s_lcache st; s_usecache := s_usecache st; s_fin := s_fin st;
     s_mark := s_mark st; s_acked := s_acked st; s_att := s_att st; s_commits := s_commits st; s_durlog := s_durlog st; s_late := s_late st |}.
Definition set_fix st v nfix :=
  {| s_reps := s_reps st; s_stamps := s_stamps st; s_epoch := s_epoch st; s_pieces := s_pieces st; s_blobs := s_blobs st; s_dtr := s_dtr st;
     s_term := s_term st; s_nextchunk := s_nextchunk st; s_gen := s_gen st; s_known := s_known st; s_nts := s_nts st;
     s_rounds := s_rounds st; s_fix := v; s_pool := s_pool st; s_next := s_next st; s_nfix := nfix;
     s_wops := s_wops st; s_cache := s_cache st; s_lcache := s_lcache st; s_usecache := s_usecache st; s_fin := s_fin st;
     s_mark := s_mark st; s_acked := s_acked st; s_att := s_att st; s_commits := s_commits st; s_durlog := s_durlog st; s_late := s_late st |}.
Definition set_pool st v next :=
  {| s_reps := s_reps st; s_stamps := s_stamps st; s_epoch := s_epoch st; s_pieces := s_pieces st; s_blobs := s_blobs st; s_dtr := s_dtr st;
     s_term := s_term st; s_nextchunk := s_nextchunk st; s_gen := s_gen st; s_known := s_known st; s_nts := s_nts st;
     s_rounds := s_rounds st; s_fix := s_fix st; s_pool := v; s_next := next; s_nfix := s_nfix st;
     s_wops := s_wops st; s_cache := s_cache st; s_lcache := s_lcache st; s_usecache := s_usecache st; s_fin := s_fin st;
     s_mark := s_mark st; s_acked := s_acked st; s_att := s_att st; s_commits := s_commits st; s_durlog := s_durlog st; s_late := s_late st |}.
Definition set_cli st wops cache lcache usecache :=
  {| s_reps := s_reps st; s_stamps := s_stamps st; s_epoch := s_epoch st; s_pieces := s_pieces st; s_blobs := s_blobs st; s_dtr := s_dtr st;
     s_term := s_term st; s_nextchunk := s_nextchunk st; s_gen := s_gen st; s_known := s_known st; s_nts := s_nts st;
     s_rounds := s_rounds st; s_fix := s_fix st; s_pool := s_pool st; s_next := s_next st; s_nfix := s_nfix st;
     s_wops := wops; s_cache := cache; s_lcache := lcache; s_usecache := usecache; s_fin := s_fin st;
     s_mark := s_mark st; s_acked := s_acked st; s_att := s_att st; s_commits := s_commits st; s_durlog := s_durlog st; s_late := s_late st |}.
Definition set_fin st fin mark :=
  {| s_reps := s_reps st; s_stamps := s_stamps st; s_epoch := s_epoch st; s_pieces := s_pieces st; s_blobs := s_blobs st; s_dtr := s_dtr st;
     s_term := s_term st; s_nextchunk := s_nextchunk st; s_gen := s_gen st; s_known := s_known st; s_nts := s_nts st;
     s_rounds := s_rounds st; s_fix := s_fix st; s_pool := s_pool st; s_next := s_next st; s_nfix := s_nfix st;
     s_wops := s_wops st; s_cache := s_cache st; s_lcache := s_lcache st; s_usecache := s_usecache st; s_fin := fin;
     s_mark := mark; s_acked := s_acked st; s_att := s_att st; s_commits := s_commits st; s_durlog := s_durlog st; s_late := s_late st |}.
Definition set_ghost st acked att commits durlog :=
  {| s_reps := s_reps st; s_stamps := s_stamps st; s_epoch := s_epoch st; s_pieces := s_pieces st; s_blobs := s_blobs st; s_dtr := s_dtr st;
     s_term := s_term st; s_nextchunk := s_nextchunk st; s_gen := s_gen st; s_known := s_known st; s_nts := s_nts st;
     s_rounds := s_rounds st; s_fix := s_fix st; s_pool := s_pool st; s_next := s_next st; s_nfix := s_nfix st;
     s_wops := s_wops st; s_cache := s_cache st; s_lcache := s_lcache st; s_usecache := s_usecache st; s_fin := s_fin st;
     s_mark := s_mark st; s_acked := acked; s_att := att; s_commits := commits; s_durlog := durlog; s_late := s_late st |}.

Definition set_late st v :=
  {| s_reps := s_reps st; s_stamps := s_stamps st; s_epoch := s_epoch st; s_pieces := s_pieces st; s_blobs := s_blobs st; s_dtr := s_dtr st;
     s_term := s_term st; s_nextchunk := s_nextchunk st; s_gen := s_gen st; s_known := s_known st; s_nts := s_nts st;
     s_rounds := s_rounds st; s_fix := s_fix st; s_pool := s_pool st; s_next := s_next st; s_nfix := s_nfix st;
     s_wops := s_wops st; s_cache := s_cache st; s_lcache := s_lcache st; s_usecache := s_usecache st; s_fin := s_fin st;
     s_mark := s_mark st; s_acked := s_acked st; s_att := s_att st; s_commits := s_commits st; s_durlog := s_durlog st; s_late := v |}.
Definition set_reps st v := set_store st v (s_stamps st) (s_pieces st).
Definition set_stamps st v := set_store st (s_reps st) v (s_pieces st).
Definition set_pieces st v := set_store st (s_reps st) (s_stamps st) v.
Definition set_dtr st v := set_dur st (s_blobs st) v (s_term st) (s_nextchunk st).
Definition set_blobs st v := set_dur st v (s_dtr st) (s_term st) (s_nextchunk st).
Definition add_fin st op n e := set_fin st (s_fin st ++ [(op, n, e)]) (s_mark st).

(* ------------------------------------------------------------------ small maps *)
Definition pk_eqb (a b : Z * Z) : bool := (fst a =? fst b) && (snd a =? snd b).
Fixpoint pget (m : list ((Z * Z) * piece)) (k : Z * Z) : option piece :=
  match m with [] => None | (k', v) :: r => if pk_eqb k k' then Some v else pget r k end.
Fixpoint pdel (m : list ((Z * Z) * piece)) (k : Z * Z) : list ((Z * Z) * piece) :=
  match m with [] => [] | (k', v) :: r => if pk_eqb k k' then pdel r k else (k', v) :: pdel r k end.
Definition pset m k v := (k, v) :: pdel m k.

Fixpoint sget (m : list (rkey * (Z * Z))) (k : rkey) : option (Z * Z) :=
  match m with [] => None | (k', v) :: r => if Cluster.Model.rk_eqb k k' then Some v else sget r k end.
Fixpoint sdel (m : list (rkey * (Z * Z))) (k : rkey) : list (rkey * (Z * Z)) :=
  match m with [] => [] | (k', v) :: r => if Cluster.Model.rk_eqb k k' then sdel r k else (k', v) :: sdel r k end.
Definition sset m k v := (k, v) :: sdel m k.

Definition epoch_of (st : state) (ts : Z) : Z := match Cluster.Model.zget (s_epoch st) ts with Some e => e | None => 0 end.
Definition known_of (st : state) (gen : Z) : list Z := match Cluster.Model.zget (s_known st) gen with Some l => l | None => [] end.

(* the stamp of a replica: a Store that has restarted knows every tract on its disk with its initial stamp *)
Definition stamp_of (st : state) (ts : Z) (tk : tkt) : Z * Z :=
  match sget (s_stamps st) (ts, tk) with
  | Some (e, c) => if e =? epoch_of st ts then (e, c) else (epoch_of st ts, 0)
  | None => (epoch_of st ts, 0)
  end.
Definition stamp_eqb (a b : Z * Z) : bool := (fst a =? fst b) && (snd a =? snd b).

(* ------------------------------------------------------------------ tractserver *)
(* Store.doWrite: openExistingTractAndBumpStamp; checkVersion; write *)
Definition ts_write (st : state) (ts : Z) (tk : tkt) (ver wid off len : Z) : state * Z :=
  match Cluster.Model.rget (s_reps st) (ts, tk) with
  | None => (st, cl_ErrNoSuchTract)
  | Some _ =>
      let '(e, c) := stamp_of st ts tk in
      let st1 := set_stamps st (sset (s_stamps st) (ts, tk) (e, c + 1)) in
      let '(reps, cls) := Cluster.Model.ts_write (s_reps st1) ts tk ver wid off len in
      (set_reps st1 reps, cls)
  end.

(* Store.Stat: (error, size, stamp) *)
Definition ts_stat (st : state) (ts : Z) (tk : tkt) (ver : Z) : Z * Z * (Z * Z) :=
  match Cluster.Model.rget (s_reps st) (ts, tk) with
  | None => (cl_ErrNoSuchTract, 0, (0, 0))
  | Some r => if Cluster.Model.r_ver r =? ver then (cl_NoError, Cluster.Model.app_len (Cluster.Model.r_app r), stamp_of st ts tk)
              else (cl_ErrVersionMismatch, 0, stamp_of st ts tk)
  end.

(* TSCtlHandler.SetVersion + Store.SetVersion with a conditional stamp (cond = None: unconditional) *)
Definition ts_setversion (st : state) (ts tsid : Z) (tk : tkt) (nv : Z) (cond : option (Z * Z)) : state * Z :=
  if negb (ts =? tsid) then (st, cl_ErrWrongTractserver)
  else if nv <=? 1 then (st, cl_ErrBadVersion)
  else
    let stale := match cond with
                 | None => false
                 | Some s => match Cluster.Model.rget (s_reps st) (ts, tk) with
                             | None => true       (* stamp 0 of an unknown tract never equals a collected stamp *)
                             | Some _ => negb (stamp_eqb s (stamp_of st ts tk))
                             end
                 end in
    if stale then (st, c14_ErrStampChanged)
    else let '(reps, c) := Cluster.Model.ts_setversion (s_reps st) ts tsid tk nv in (set_reps st reps, c).

(* one source read of PackTracts: CtlRead(core.TractLength, 0) at version, accepted iff the length is the expected one *)
Definition pack_read (st : state) (src : Z) (tk : tkt) (ver len : Z) : option (list wrec) :=
  match Cluster.Model.rget (s_reps st) (src, tk) with
  | None => None
  | Some r => if (Cluster.Model.r_ver r =? ver) && (Cluster.Model.app_len (Cluster.Model.r_app r) =? len) then Some (Cluster.Model.r_app r) else None
  end.

Fixpoint pack_first (st : state) (from failed : list Z) (tk : tkt) (ver len : Z) : option (Z * list wrec) :=
  match from with
  | [] => None
  | h :: r => if zmem h failed then pack_first st r failed tk ver len
              else match pack_read st h tk ver len with
                   | Some app => Some (h, app)
                   | None => pack_first st r failed tk ver len
                   end
  end.

(* Store.PackTracts for a chunk of one or more tracts: (tract, offset, length, version, from) *)
Fixpoint pack_items (st : state) (specs : list (tkt * Z * Z * Z * list Z)) (failed : list Z) : option (list (tkt * Z * Z * list wrec)) :=
  match specs with
  | [] => Some []
  | (tk, off, len, ver, from) :: r =>
      match pack_first st from failed tk ver len with
      | None => None
      | Some (_, app) => match pack_items st r failed with
                         | Some l => Some ((tk, off, len, app) :: l)
                         | None => None
                         end
      end
  end.

Definition ts_pack (st : state) (ts tsid chunk target : Z) (specs : list (tkt * Z * Z * Z * list Z)) (failed : list Z) : state * Z :=
  if negb (ts =? tsid) then (st, cl_ErrWrongTractserver)
  else match pack_items st specs failed with
       | Some items => (set_pieces st (pset (s_pieces st) (ts, chunk) {| pc_items := items; pc_len := target; pc_data := true |}), cl_NoError)
       | None => (set_pieces st (pdel (s_pieces st) (ts, chunk)), cl_ErrRPC)
       end.

(* content of a data piece as runs of [lo,hi) *)
Fixpoint piece_runs (items : list (tkt * Z * Z * list wrec)) (pos hi : Z) : list (Z * Z) :=
  match items with
  | [] => [(hi - pos, 0)]
  | (_, off, len, app) :: r =>
      (off - pos, 0) :: Cluster.Model.render app 0 (Z.min len (hi - off)) ++ piece_runs r (off + len) hi
  end.

Definition dump_piece (st : state) (ts chunk : Z) : list Z :=
  match pget (s_pieces st) (ts, chunk) with
  | None => [0]
  | Some p => if pc_data p then [1; pc_len p] ++ Cluster.Model.flat_runs (Cluster.Model.merge_runs (piece_runs (pc_items p) 0 (pc_len p)))
              else [1; pc_len p; 0]
  end.

(* ------------------------------------------------------------------ durable state *)
Definition dget (st : state) (tk : tkt) : option dtr := Cluster.Model.tget (s_dtr st) tk.

(* Txn.ChangeTract under ProposeIfTerm *)
Definition change_tract (st : state) (term : Z) (tk : tkt) (ver : Z) (hosts : list Z) : state * Z :=
  if negb (term =? s_term st) then (st, cl_ErrLeaderContinuityBroken)
  else match dget st tk with
       | None => (st, cl_ErrNoSuchTract)
       | Some d =>
           if negb (Z.of_nat (length (d_hosts d)) =? Z.of_nat (length hosts)) then (st, cl_ErrInvalidArgument)
           else if negb (d_ver d + 1 =? ver) then (st, cl_ErrConflictingState)
           else (set_dtr st (Cluster.Model.tset (s_dtr st) tk {| d_ver := ver; d_hosts := hosts; d_rs := d_rs d |}), cl_NoError)
       end.

(* CommitRSChunkCommand.apply -> Txn.PutRSChunk: all or nothing; NewVersion overwrites the stored version *)
Definition commit_checks (fx : fixes) (st : state) (tracts : list (tkt * Z * Z * Z * Z)) : Z :=
  fold_left (fun e '(tk, _, _, nv, _) =>
               if negb (e =? cl_NoError) then e
               else match dget st tk with
                    | None => cl_ErrNoSuchTract
                    | Some d => match d_rs d with
                                | Some _ => cl_ErrConflictingState
                                | None => if fx6 fx && negb (d_ver d + 1 =? nv) then cl_ErrConflictingState else cl_NoError
                                end
                    end) tracts cl_NoError.

Definition commit_rs (fx : fixes) (st : state) (op term base : Z) (hosts : list Z)
           (tracts : list (tkt * Z * Z * Z * Z)) (* tract, offset, length, new version, chunk index *) : state * Z :=
  if negb (term =? s_term st) then (st, cl_ErrLeaderContinuityBroken)
  else let e := commit_checks fx st tracts in
       if negb (e =? cl_NoError) then (st, e)
       else
         let dtr' := fold_left (fun m '(tk, off, len, nv, idx) =>
                                  match Cluster.Model.tget m tk with
                                  | Some d => Cluster.Model.tset m tk {| d_ver := nv; d_hosts := d_hosts d;
                                                              d_rs := Some {| rs_base := base; rs_idx := idx; rs_ts := nth (Z.to_nat idx) hosts 0;
                                                                              rs_off := off; rs_len := len |} |}
                                  | None => m
                                  end) tracts (s_dtr st) in
         let packed tk idx := match pget (s_pieces st) (nth (Z.to_nat idx) hosts 0, base + idx) with
                              | Some p => match find (fun '(tk', _, _, _) => Cluster.Model.tk_eqb tk tk') (pc_items p) with
                                          | Some (_, _, _, app) => app
                                          | None => []
                                          end
                              | None => []
                              end in
         let commits := map (fun '(tk, off, len, nv, idx) =>
                               (tk, term, packed tk idx, nv, match dget st tk with Some d => d_ver d | None => 0 end,
                                map snd (filter (fun '(tk', _) => Cluster.Model.tk_eqb tk tk') (s_att st)))) tracts in
         let st1 := set_dtr st dtr' in
         (set_ghost st1 (s_acked st1) (s_att st1) (commits ++ s_commits st1) ((op, term, s_term st) :: s_durlog st1), cl_NoError).

(* UpdateStorageClassCommand.apply *)
Definition tracts_of_blob (st : state) (blob : Z) : list tkt :=
  match Cluster.Model.zget (s_blobs st) blob with
  | Some b => map (fun i => Cluster.Model.tkey blob (Z.of_nat i)) (seq 0 (Z.to_nat (b_nt b)))
  | None => []
  end.

Definition all_rs (st : state) (blob : Z) : bool :=
  forallb (fun tk => match dget st tk with Some d => match d_rs d with Some _ => true | None => false end | None => false end)
          (tracts_of_blob st blob).

Definition update_class (st : state) (op term blob cls : Z) : state * Z :=
  if negb (term =? s_term st) then (st, cl_ErrLeaderContinuityBroken)
  else match Cluster.Model.zget (s_blobs st) blob with
       | None => (st, cl_ErrNoSuchBlob)
       | Some b =>
           if negb (all_rs st blob) then (st, cl_ErrInvalidArgument)
           else
             let dtr' := fold_left (fun m tk => match Cluster.Model.tget m tk with
                                                | Some d => Cluster.Model.tset m tk {| d_ver := d_ver d; d_hosts := []; d_rs := d_rs d |}
                                                | None => m
                                                end) (tracts_of_blob st blob) (s_dtr st) in
             let st1 := set_dur st (Cluster.Model.zset (s_blobs st) blob {| b_cls := cls; b_nt := b_nt b; b_tgt := b_tgt b |}) dtr' (s_term st) (s_nextchunk st) in
             (set_ghost st1 (s_acked st1) (s_att st1) (s_commits st1) ((op, term, s_term st) :: s_durlog st1), cl_NoError)
       end.

(* what GetTracts hands out for one tract: hosts are hidden as soon as an RS pointer exists *)
Definition visible_hosts (d : dtr) : list Z := match d_rs d with Some _ => [] | None => d_hosts d end.

(* ------------------------------------------------------------------ pool *)
Definition mk_rpc (kind cli gen ts blob tract ver off len wid : Z) (aux : list Z) : rpc :=
  {| Cluster.Model.k_kind := kind; Cluster.Model.k_cli := cli; Cluster.Model.k_gen := gen; Cluster.Model.k_ts := ts; Cluster.Model.k_blob := blob; Cluster.Model.k_tract := tract;
     Cluster.Model.k_ver := ver; Cluster.Model.k_off := off; Cluster.Model.k_len := len; Cluster.Model.k_wid := wid; Cluster.Model.k_aux := aux |}.

Definition issue (st : state) (r : rpc) (owner : Z) : state :=
  set_pool st (s_pool st ++ [{| p_id := s_next st; p_rpc := r; p_owner := owner; p_run := false; p_lose := false |}]) (s_next st + 1).

Fixpoint find_pent (pool : list pent) (r : rpc) : option pent :=
  match pool with
  | [] => None
  | e :: rest => if Cluster.Model.rpc_eqb (p_rpc e) r && negb (p_run e) then Some e else find_pent rest r
  end.
Definition pool_remove (pool : list pent) (id : Z) : list pent := filter (fun e => negb (p_id e =? id)) pool.

Definition out_section (st : state) : list Z :=
  let l := Cluster.Model.sort_rpcs (map p_rpc (filter (fun e => s_mark st <=? p_id e) (s_pool st))) in
  Z.of_nat (length l) :: flat_map Cluster.Model.rpc_line l.

Fixpoint ins_fin (x : Z * Z * Z) (l : list (Z * Z * Z)) : list (Z * Z * Z) :=
  match l with
  | [] => [x]
  | y :: r => if fst (fst x) <? fst (fst y) then x :: l else y :: ins_fin x r
  end.
Definition fin_section (st : state) : list Z :=
  let l := fold_right ins_fin [] (s_fin st) in
  Z.of_nat (length l) :: flat_map (fun '(op, n, e) => [op; n; e]) l.

(* stamps travel as two integers (epoch, count); stamp 0 = unconditional *)
Definition mk_setversion (gen ts : Z) (tk : tkt) (nv : Z) (stamp : option (Z * Z)) : rpc :=
  mk_rpc K_SetVersion (-1) gen ts (fst tk) (snd tk) nv 0 0 0
         (match stamp with None => [ts; 0; 0; 0] | Some (e, c) => [ts; 1; e; c] end).
Definition mk_stat (gen ts : Z) (tk : tkt) (ver : Z) : rpc := mk_rpc K_CtlStat (-1) gen ts (fst tk) (snd tk) ver 0 0 0 [].
Definition mk_pack (gen ts chunk : Z) : rpc := mk_rpc K_PackTracts (-1) gen ts 0 (-1) 0 0 PAD 0 [ts; chunk].
Definition mk_encode (gen ts base : Z) : rpc := mk_rpc K_RSEncode (-1) gen ts 0 (-1) 0 0 PAD 0 [ts; base].
Definition mk_del (gen ts chunk : Z) : rpc := mk_rpc K_GCTract (-1) gen ts 0 (-1) 0 0 0 0 [ts; chunk].
Definition mk_alloc (gen n : Z) : rpc := mk_rpc K_Alloc (-1) gen 0 0 (-1) 0 0 0 0 [n].
Definition mk_commit (gen base : Z) : rpc := mk_rpc K_Commit (-1) gen 0 0 (-1) 0 0 0 0 [base].

(* ------------------------------------------------------------------ client: writeAt inside one existing tract *)
Definition use_cache (st : state) (cli : Z) : bool := match Cluster.Model.zget (s_usecache st) cli with Some b => b | None => false end.


Fixpoint cache_get (m : list (Z * (tkt * centry))) (cli : Z) (tk : tkt) : option centry :=
  match m with
  | [] => None
  | (c, (k, e)) :: r => if (c =? cli) && Cluster.Model.tk_eqb k tk then Some e else cache_get r cli tk
  end.
Definition cache_put m (cli : Z) (tk : tkt) (e : centry) : list (Z * (tkt * centry)) :=
  (cli, (tk, e)) :: filter (fun '(c, (k, _)) => negb ((c =? cli) && Cluster.Model.tk_eqb k tk)) m.
Definition cache_inval (m : list (Z * (tkt * centry))) (cli blob : Z) : list (Z * (tkt * centry)) :=
  filter (fun '(c, (k, _)) => negb ((c =? cli) && (fst k =? blob))) m.

Definition upd_wop (l : list wop) (w : wop) : list wop := map (fun x => if wo_op x =? wo_op w then w else x) l.
Definition del_wop (l : list wop) (op : Z) : list wop := filter (fun x => negb (wo_op x =? op)) l.
Fixpoint find_wop (l : list wop) (op : Z) : option wop :=
  match l with [] => None | w :: r => if wo_op w =? op then Some w else find_wop r op end.

Definition set_wops st v := set_cli st v (s_cache st) (s_lcache st) (s_usecache st).
Definition set_cache st v := set_cli st (s_wops st) v (s_lcache st) (s_usecache st).

Definition w_set (w : wop) phase cached retry entry res final : wop :=
  {| wo_op := wo_op w; wo_cli := wo_cli w; wo_blob := wo_blob w; wo_tract := wo_tract w; wo_off := wo_off w; wo_len := wo_len w;
     wo_wid := wo_wid w; wo_phase := phase; wo_cached := cached; wo_retry := retry; wo_entry := entry; wo_res := res; wo_final := final; wo_late := wo_late w |}.

Definition w_tk (w : wop) : tkt := Cluster.Model.tkey (wo_blob w) (wo_tract w).

Definition finish_w (st : state) (w : wop) (n err : Z) : state :=
  let st1 := add_fin (set_wops st (del_wop (s_wops st) (wo_op w))) (wo_op w) n err in
  if (err =? cl_NoError) && (n =? wo_len w)
  then let st2 := set_ghost st1 ((w_tk w, Cluster.Model.mkw (wo_wid w) (wo_off w) (wo_len w)) :: s_acked st1) (s_att st1) (s_commits st1) (s_durlog st1) in
       if wo_late w && negb (use_cache st (wo_cli w))
       then set_late st2 ((w_tk w, Cluster.Model.mkw (wo_wid w) (wo_off w) (wo_len w)) :: s_late st2) else st2
  else st1.

Definition mk_write (w : wop) (h ver : Z) : rpc :=
  mk_rpc K_Write (wo_cli w) 0 h (wo_blob w) (wo_tract w) ver (wo_off w) (wo_len w) (wo_wid w) [].
Definition mk_gettracts (w : wop) : rpc :=
  mk_rpc K_GetTracts (wo_cli w) 0 0 (wo_blob w) (-1) 0 0 0 0 [wo_tract w; wo_tract w + 1].
Definition mk_statblob (w : wop) : rpc := mk_rpc K_StatBlob (wo_cli w) 0 0 (wo_blob w) (-1) 0 0 0 0 [].

(* writeExistingTracts after getTracts returned 'e' *)
Definition w_after_entry (fx : fixes) (st : state) (w : wop) (e : centry) (cached : bool) : state :=
  if fx14 fx && (ce_rs e || (Z.of_nat (length (ce_hosts e)) =? 0)) then finish_w st w 0 c14_ErrReadOnlyStorageClass
  else if existsb (fun '(_, kn) => kn =? 0) (ce_hosts e) then finish_w st w 0 cl_ErrHostNotExist
  else match ce_hosts e with
       | [] => finish_w st w (wo_len w) cl_NoError     (* repl = 0: nothing is sent, the write "succeeds" *)
       | hs =>
           let w' := w_set w 3 cached (wo_retry w) (Some e) (map (fun '(h, _) => (h, -1)) hs) 0 in
           fold_left (fun s '(h, _) => issue s (mk_write w h (ce_ver e)) (wo_op w)) hs (set_wops st (upd_wop (s_wops st) w'))
       end.

Definition w_get (fx : fixes) (st : state) (w : wop) : state :=
  match (if use_cache st (wo_cli w) then cache_get (s_cache st) (wo_cli w) (w_tk w) else None) with
  | Some e => w_after_entry fx st w e true
  | None => issue (set_wops st (upd_wop (s_wops st) (w_set w 2 false (wo_retry w) None [] 0))) (mk_gettracts w) (wo_op w)
  end.

Fixpoint first_bad (res : list (Z * Z)) : option (Z * Z) :=
  match res with [] => None | (h, e) :: r => if e =? cl_NoError then first_bad r else Some (h, e) end.

(* a reply (class :: payload) reaches the client operation; 'entry' is the decoded tract of a GetTracts reply *)
Definition cli_reply (fx : fixes) (st : state) (op : Z) (r : rpc) (res : list Z) (entry : option centry) : state :=
  match find_wop (s_wops st) op with
  | None => st
  | Some w =>
      let err := hd cl_ErrRPC res in
      let k := Cluster.Model.k_kind r in
      if k =? K_StatBlob then
        if negb (wo_phase w =? 1) then st else   (* a StatBlob reply is awaited in phase 1 only *)
        if negb (err =? cl_NoError) then
          if wo_retry w then issue (set_wops st (upd_wop (s_wops st) (w_set w 1 false false None [] 0))) (mk_statblob w) (wo_op w)
          else finish_w st w 0 err
        else if negb (nth 2 res 0 =? c14_ClassREPLICATED) then finish_w st w 0 c14_ErrReadOnlyStorageClass
        else if nth 1 res 0 <=? wo_tract w then finish_w st w 0 (-8)   (* would create tracts: outside the modelled regime *)
        else w_get fx st w
      else if k =? K_GetTracts then
        if negb ((wo_phase w =? 2) && (Cluster.Model.k_blob r =? wo_blob w) && (nth 0 (Cluster.Model.k_aux r) 0 =? wo_tract w)) then st else
        if negb (err =? cl_NoError) then finish_w st w 0 err
        else match entry with
             | None => finish_w st w 0 cl_ErrNoSuchTract
             | Some e =>
                 let st1 := if use_cache st (wo_cli w) then set_cache st (cache_put (s_cache st) (wo_cli w) (w_tk w) e) else st in
                 w_after_entry fx st1 w e false
             end
      else if k =? K_Write then
        if negb (wo_phase w =? 3) then st else
        let res' := map (fun '(h, e) => if (h =? Cluster.Model.k_ts r) && (e =? -1) then (h, err) else (h, e)) (wo_res w) in
        let w' := w_set w 3 (wo_cached w) (wo_retry w) (wo_entry w) res' 0 in
        let st1 := set_wops st (upd_wop (s_wops st) w') in
        if existsb (fun '(_, e) => e =? -1) res' then st1
        else match first_bad res' with
             | None => finish_w st1 w' (wo_len w) cl_NoError
             | Some (h, e) =>
                 if wo_cached w then
                   let st2 := set_cache st1 (cache_inval (s_cache st1) (wo_cli w) (wo_blob w)) in
                   issue (set_wops st2 (upd_wop (s_wops st2) (w_set w' 2 false (wo_retry w) None [] 0))) (mk_gettracts w) (wo_op w)
                 else if e =? cl_ErrRPC then
                   issue (set_wops st1 (upd_wop (s_wops st1) (w_set w' 4 false (wo_retry w) (wo_entry w) res' e)))
                         (mk_rpc K_ReportBadTS (wo_cli w) 0 0 (wo_blob w) (wo_tract w) 0 0 0 0 [h; e]) (wo_op w)
                 else if e =? cl_ErrVersionMismatch then
                   issue (set_wops st1 (upd_wop (s_wops st1) (w_set w' 4 false (wo_retry w) (wo_entry w) res' e)))
                         (mk_rpc K_FixVersion (wo_cli w) 0 0 (wo_blob w) (wo_tract w)
                                 (match wo_entry w with Some x => ce_ver x | None => 0 end) 0 0 0 [h]) (wo_op w)
                 else finish_w st1 w' 0 e
             end
      else (* ReportBadTS / FixVersion came back: their result is ignored *)
        if negb (wo_phase w =? 4) then st else finish_w st w 0 (wo_final w)
  end.

(* ------------------------------------------------------------------ fixVersion *)
Definition lock_held (st : state) (gen : Z) (tk : tkt) : bool :=
  existsb (fun f => (f_gen f =? gen) && Cluster.Model.tk_eqb (f_tk f) tk && (f_phase f =? 1)) (s_fix st).
Definition del_fix (l : list ftask) (id : Z) : list ftask := filter (fun f => negb (f_id f =? id)) l.
Definition upd_fix (l : list ftask) (f : ftask) : list ftask := map (fun x => if f_id x =? f_id f then f else x) l.
Fixpoint find_fix (l : list ftask) (id : Z) : option ftask :=
  match l with [] => None | f :: r => if f_id f =? id then Some f else find_fix r id end.
Definition set_fixes st v := set_fix st v (s_nfix st).

(* the task is over; the FixVersion RPC it served (if any) returns to the client *)
Definition finish_fix (fx : fixes) (st : state) (f : ftask) (err : Z) : state :=
  let st1 := set_fixes st (del_fix (s_fix st) (f_id f)) in
  if f_rpc f =? 0 then st1
  else match find (fun e => p_id e =? f_rpc f) (s_pool st1) with
       | None => st1
       | Some e =>
           let st2 := set_pool st1 (pool_remove (s_pool st1) (p_id e)) (s_next st1) in
           cli_reply fx st2 (p_owner e) (p_rpc e) [if p_lose e then cl_ErrRPC else err] None
       end.

Definition subset (a b : list Z) : bool := forallb (fun x => zmem x b) a.

(* fixVersion once it holds the tract lock *)
Definition activate_fix (fx : fixes) (st : state) (f : ftask) : state :=
  match dget st (f_tk f) with
  | None => finish_fix fx st f cl_ErrNoSuchTract
  | Some d =>
      match d_rs d with
      | Some _ => finish_fix fx st f c14_ErrReadOnlyStorageClass
      | None =>
          if negb (zmem (f_badts f) (d_hosts d)) then finish_fix fx st f cl_ErrInvalidArgument
          else if negb (f_cliver f =? d_ver d) then finish_fix fx st f cl_ErrInvalidArgument
          else if negb (subset (d_hosts d) (known_of st (f_gen f))) then finish_fix fx st f cl_ErrHostNotExist
          else
            let f' := {| f_id := f_id f; f_gen := f_gen f; f_term := f_term f; f_tk := f_tk f; f_phase := 1; f_cliver := f_cliver f;
                         f_badts := f_badts f; f_dv := d_ver d; f_hosts := d_hosts d; f_wait := Z.of_nat (length (d_hosts d)); f_rpc := f_rpc f |} in
            fold_left (fun s h => issue s (mk_setversion (f_gen f) h (f_tk f) (d_ver d + 1) None) (f_id f)) (d_hosts d)
                      (set_fixes st (upd_fix (s_fix st) f'))
      end
  end.

Fixpoint wake (fx : fixes) (fuel : nat) (st : state) : state :=
  match fuel with
  | O => st
  | S n => match find (fun f => (f_phase f =? 0) && negb (lock_held st (f_gen f) (f_tk f))) (s_fix st) with
           | None => st
           | Some f => wake fx n (activate_fix fx st f)
           end
  end.

Definition start_fix (fx : fixes) (st : state) (gen : Z) (tk : tkt) (cliver badts rpcid : Z) : state :=
  let f := {| f_id := - (s_nfix st + 1); f_gen := gen; f_term := s_term st; f_tk := tk; f_phase := 0; f_cliver := cliver;
              f_badts := badts; f_dv := 0; f_hosts := []; f_wait := 0; f_rpc := rpcid |} in
  let st1 := set_fix st (s_fix st ++ [f]) (s_nfix st + 1) in
  if negb (zmem badts (known_of st gen)) then wake fx 8 (finish_fix fx st1 f cl_ErrHostNotExist)
  else wake fx 8 st1.

Definition fix_reply (fx : fixes) (st : state) (id err : Z) : state :=
  match find_fix (s_fix st) id with
  | None => st
  | Some f =>
      if negb (err =? cl_NoError) then wake fx 8 (finish_fix fx st f err)
      else if 1 <? f_wait f then
        set_fixes st (upd_fix (s_fix st)
          {| f_id := f_id f; f_gen := f_gen f; f_term := f_term f; f_tk := f_tk f; f_phase := f_phase f; f_cliver := f_cliver f;
             f_badts := f_badts f; f_dv := f_dv f; f_hosts := f_hosts f; f_wait := f_wait f - 1; f_rpc := f_rpc f |})
      else let '(st1, e) := change_tract st (f_term f) (f_tk f) (f_dv f + 1) (f_hosts f) in
           wake fx 8 (finish_fix fx st1 f e)
  end.

(* ------------------------------------------------------------------ storage-class round and tractPacker *)
Definition upd_round (l : list round) (r : round) : list round := map (fun x => if rd_op x =? rd_op r then r else x) l.
Definition del_round (l : list round) (op : Z) : list round := filter (fun x => negb (rd_op x =? op)) l.
Fixpoint find_round (l : list round) (op : Z) : option round :=
  match l with [] => None | r :: t => if rd_op r =? op then Some r else find_round t op end.

Definition rd_set (r : round) phase tracts encs done : round :=
  {| rd_op := rd_op r; rd_gen := rd_gen r; rd_term := rd_term r; rd_phase := phase; rd_tracts := tracts; rd_encs := encs; rd_done := done |}.
Definition pt_set (p : ptr) len next stamps vmh done : ptr :=
  {| pt_tk := pt_tk p; pt_ver := pt_ver p; pt_from := pt_from p; pt_len := len; pt_next := next; pt_stamps := stamps; pt_vmh := vmh; pt_done := done |}.
Definition e_set (e : encop) stage wait errs : encop :=
  {| e_base := e_base e; e_chunks := e_chunks e; e_hosts := e_hosts e; e_stage := stage; e_wait := wait; e_errs := errs |}.

Fixpoint find_ptr (l : list ptr) (tk : tkt) : option ptr :=
  match l with [] => None | p :: r => if Cluster.Model.tk_eqb (pt_tk p) tk then Some p else find_ptr r tk end.
Definition upd_ptr (l : list ptr) (p : ptr) : list ptr := map (fun x => if Cluster.Model.tk_eqb (pt_tk x) (pt_tk p) then p else x) l.
Definition upd_enc (l : list encop) (e : encop) : list encop := map (fun x => if e_base x =? e_base e then e else x) l.

(* the round is over once every encode operation is *)
Definition round_check_over (st : state) (r : round) : state :=
  if forallb (fun e => e_stage e =? 9) (rd_encs r)
  then add_fin (set_rounds st (del_round (s_rounds st) (rd_op r))) (rd_op r) (rd_done r) 0
  else set_rounds st (upd_round (s_rounds st) r).

(* doneAdding returned: packTracts, packChunks *)
Definition round_after_stats (st : state) (r : round) : state :=
  let nchunks := Z.of_nat (length (filter (fun p => 1 <=? pt_len p) (rd_tracts r))) in
  let count := nchunks / RS_N in
  if count =? 0 then round_check_over st (rd_set r 9 (rd_tracts r) [] (rd_done r))
  else issue (set_rounds st (upd_round (s_rounds st) (rd_set r 2 (rd_tracts r) [] (rd_done r))))
             (mk_alloc (rd_gen r) (count * (RS_N + RS_M))) (rd_op r).

Definition all_stats_done (r : round) : bool := forallb pt_done (rd_tracts r).

(* addTractsToPacker for one blob *)
Definition add_tracts (st : state) (gen blob : Z) : list ptr :=
  flat_map (fun tk => match dget st tk with
                      | Some d => match d_rs d with
                                  | Some _ => []
                                  | None => let from := filter (fun h => zmem h (known_of st gen)) (d_hosts d) in
                                            [{| pt_tk := tk; pt_ver := d_ver d; pt_from := from; pt_len := -1; pt_next := from;
                                                pt_stamps := []; pt_vmh := 0; pt_done := match from with [] => true | _ => false end |}]
                                  end
                      | None => []
                      end) (tracts_of_blob st blob).

Definition blob_ids (st : state) : list Z := fold_right Cluster.Model.insert_sorted [] (map fst (s_blobs st)).

(* start of a round: (state, observations = (blob, class after) of the blobs whose class switch was attempted) *)
Definition round_start (st : state) (op : Z) : state * list Z :=
  let gen := s_gen st in let term := s_term st in
  let '(st1, tracts, obs) :=
    fold_left (fun '(s, acc, o) blob =>
                 match Cluster.Model.zget (s_blobs s) blob with
                 | None => (s, acc, o)
                 | Some b =>
                     if b_cls b =? b_tgt b then (s, acc, o)
                     else if all_rs s blob then
                       let '(s', _) := update_class s op term blob (b_tgt b) in
                       (s', acc, o ++ [blob; match Cluster.Model.zget (s_blobs s') blob with Some b' => b_cls b' | None => -1 end])
                     else if b_cls b =? c14_ClassREPLICATED then (s, acc ++ add_tracts s gen blob, o)
                     else (s, acc, o)
                 end) (blob_ids st) (st, [], []) in
  let r := {| rd_op := op; rd_gen := gen; rd_term := term; rd_phase := 1; rd_tracts := tracts; rd_encs := []; rd_done := 0 |} in
  let st2 := set_rounds st1 (s_rounds st1 ++ [r]) in
  let st3 := fold_left (fun s p => match pt_from p with
                                   | h :: _ => issue s (mk_stat gen h (pt_tk p) (pt_ver p)) op
                                   | [] => s
                                   end) tracts st2 in
  ((if all_stats_done r then round_after_stats st3 r else st3), obs).

(* one CtlStatTract reply inside doStat *)
Definition stat_reply (fx : fixes) (st : state) (r : round) (tk : tkt) (h err size : Z) (stamp : Z * Z) : state :=
  match find_ptr (rd_tracts r) tk with
  | None => st
  | Some p =>
      let vmh := if err =? cl_ErrVersionMismatch then h else pt_vmh p in
      let rest := tl (pt_next p) in
      let p1 := if negb (err =? cl_NoError) then pt_set p (pt_len p) rest (pt_stamps p) vmh false
                else if (0 <=? pt_len p) && negb (size =? pt_len p) then pt_set p (-1) [] (pt_stamps p) vmh false
                else pt_set p size rest (pt_stamps p ++ [(h, stamp)]) vmh false in
      match pt_next p1 with
      | h' :: _ =>
          issue (set_rounds st (upd_round (s_rounds st) (rd_set r 1 (upd_ptr (rd_tracts r) p1) [] (rd_done r))))
                (mk_stat (rd_gen r) h' tk (pt_ver p)) (rd_op r)
      | [] =>
          let p2 := pt_set p1 (pt_len p1) [] (pt_stamps p1) vmh true in
          let r' := rd_set r 1 (upd_ptr (rd_tracts r) p2) [] (rd_done r) in
          let st1 := set_rounds st (upd_round (s_rounds st) r') in
          let st2 := if (pt_len p2 <? 0) && negb (vmh =? 0) then start_fix fx st1 (rd_gen r) tk (pt_ver p) vmh 0 else st1 in
          if all_stats_done r' then round_after_stats st2 r' else st2
      end
  end.

(* hint of the alloc step: nencs; per operation: nh hosts..., then RS_N x (blob tract offset) *)
Fixpoint parse_chunks (n : nat) (l : list Z) : list (tkt * Z) * list Z :=
  match n with
  | O => ([], l)
  | S n' => match l with
            | b :: t :: o :: r => let '(cs, r') := parse_chunks n' r in ((Cluster.Model.tkey b t, o) :: cs, r')
            | _ => ([], [])
            end
  end.
Fixpoint parse_encs (n : nat) (l : list Z) : list (list Z * list (tkt * Z)) :=
  match n with
  | O => []
  | S n' => match l with
            | nh :: r => let '(hosts, r1) := Cluster.Model.take nh r in
                         let '(cs, r2) := parse_chunks (Z.to_nat RS_N) r1 in
                         (hosts, cs) :: parse_encs n' r2
            | [] => []
            end
  end.

Definition enc_over (e : encop) : encop := e_set e 9 0 (e_errs e).

(* encCleanupAfterFailure: a GCTract for every piece, fire and forget *)
Definition cleanup (st : state) (gen : Z) (e : encop) : state :=
  fst (fold_left (fun '(s, i) h => (issue s (mk_del gen h (e_base e + i)) 0, i + 1)) (e_hosts e) (st, 0)).

Definition enc_finish (st : state) (r : round) (e : encop) (ok : bool) : state :=
  let st1 := if ok then st else cleanup st (rd_gen r) e in
  round_check_over st1 (rd_set r (rd_phase r) (rd_tracts r) (upd_enc (rd_encs r) (enc_over e)) (if ok then rd_done r + 1 else rd_done r)).

Definition alloc_reply (st : state) (r : round) (err base want : Z) (hint : list Z) : state :=
  if negb (err =? cl_NoError) then round_check_over st (rd_set r 9 (rd_tracts r) [] (rd_done r))
  else
    let known := known_of st (rd_gen r) in
    let encs := match hint with n :: rest => parse_encs (Z.to_nat n) rest | [] => [] end in
    let elig tk := match find_ptr (rd_tracts r) tk with Some p => 1 <=? pt_len p | None => false end in
    let allt := flat_map (fun '(_, cs) => map fst cs) encs in
    let valid :=
      (Z.of_nat (length encs) * (RS_N + RS_M) =? want) &&
      forallb (fun '(hosts, cs) =>
                 (Z.of_nat (length hosts) =? 0) ||   (* allocateTS failed: an oracle input (placement is C17's) *)
                 ((Z.of_nat (length hosts) =? RS_N + RS_M) && subset hosts known && Cluster.Model.distinct hosts &&
                  (Z.of_nat (length cs) =? RS_N) && forallb (fun '(tk, o) => elig tk && (o =? 0)) cs)) encs &&
      (fix nodup (l : list tkt) := match l with [] => true | x :: t => negb (Cluster.Model.tmem x t) && nodup t end) allt in
    if negb valid then add_fin (set_rounds st (del_round (s_rounds st) (rd_op r))) (rd_op r) (-7) (-7)
    else
      let mk i '(hosts, cs) :=
        {| e_base := base + Z.of_nat i * (RS_N + RS_M);
           e_chunks := map (fun '(tk, o) => (tk, o, match find_ptr (rd_tracts r) tk with Some p => pt_len p | None => 0 end)) cs;
           e_hosts := hosts; e_stage := match hosts with [] => 9 | _ => 2 end; e_wait := RS_N; e_errs := [] |} in
      let eops := (fix go (i : nat) (l : list (list Z * list (tkt * Z))) := match l with [] => [] | x :: t => mk i x :: go (S i) t end) O encs in
      let r' := rd_set r 3 (rd_tracts r) eops (rd_done r) in
      let st1 := set_rounds st (upd_round (s_rounds st) r') in
      let st2 := fold_left (fun s e =>
                              fst (fold_left (fun '(s', i) h => (if i <? RS_N then issue s' (mk_pack (rd_gen r) h (e_base e + i)) (rd_op r) else s', i + 1))
                                             (e_hosts e) (s, 0))) eops st1 in
      round_check_over st2 r'.

(* the conditional bumps of encBump, in the order of the code *)
Definition bump_list (fx : fixes) (r : round) (e : encop) : list (tkt * Z * (Z * Z) * Z) :=
  flat_map (fun '(tk, _, _) => match find_ptr (rd_tracts r) tk with
                               | Some p => flat_map (fun h => match Cluster.Model.zget (pt_stamps p) h with
                                                              | Some s => [(tk, h, s, pt_ver p + 1)]
                                                              | None => []
                                                              end) (pt_from p)
                               | None => []
                               end) (e_chunks e).

Fixpoint slot_of (l : list (tkt * Z * (Z * Z) * Z)) (tk : tkt) (h : Z) (i : Z) : Z :=
  match l with
  | [] => -1
  | (tk', h', _, _) :: r => if Cluster.Model.tk_eqb tk tk' && (h =? h') then i else slot_of r tk h (i + 1)
  end.

Definition find_enc_chunk (r : round) (chunk : Z) : option encop :=
  find (fun e => (e_base e <=? chunk) && (chunk <? e_base e + RS_N + RS_M)) (rd_encs r).
Definition find_enc_tract (r : round) (tk : tkt) : option encop :=
  find (fun e => existsb (fun '(tk', _, _) => Cluster.Model.tk_eqb tk tk') (e_chunks e) && negb (e_stage e =? 9)) (rd_encs r).

Definition last_err (errs : list (Z * Z)) (n : Z) : Z :=
  fold_left (fun acc i => match Cluster.Model.zget errs (Z.of_nat i) with Some e => if e =? cl_NoError then acc else e | None => acc end) (seq 0 (Z.to_nat n)) cl_NoError.
Definition first_err (errs : list (Z * Z)) (n : Z) : Z :=
  fold_right (fun i acc => match Cluster.Model.zget errs (Z.of_nat i) with Some e => if e =? cl_NoError then acc else e | None => acc end) cl_NoError (seq 0 (Z.to_nat n)).

(* a reply reaches the round *)
Definition round_reply (fx : fixes) (st : state) (op : Z) (rp : rpc) (res : list Z) (hint : list Z) : state :=
  match find_round (s_rounds st) op with
  | None => st
  | Some r =>
      let err := hd cl_ErrRPC res in
      let k := Cluster.Model.k_kind rp in
      let tk := Cluster.Model.tkey (Cluster.Model.k_blob rp) (Cluster.Model.k_tract rp) in
      if k =? K_CtlStat then stat_reply fx st r tk (Cluster.Model.k_ts rp) err (nth 1 res 0) (nth 2 res 0, nth 3 res 0)
      else if k =? K_Alloc then alloc_reply st r err (nth 1 res 0) (nth 0 (Cluster.Model.k_aux rp) 0) hint
      else if k =? K_PackTracts then
        match find_enc_chunk r (nth 1 (Cluster.Model.k_aux rp) 0) with
        | None => st
        | Some e =>
            let e1 := e_set e 2 (e_wait e - 1) ((nth 1 (Cluster.Model.k_aux rp) 0 - e_base e, err) :: e_errs e) in
            if 0 <? e_wait e1 then set_rounds st (upd_round (s_rounds st) (rd_set r (rd_phase r) (rd_tracts r) (upd_enc (rd_encs r) e1) (rd_done r)))
            else if negb (last_err (e_errs e1) RS_N =? cl_NoError) then enc_finish st r e1 false
            else issue (set_rounds st (upd_round (s_rounds st) (rd_set r (rd_phase r) (rd_tracts r) (upd_enc (rd_encs r) (e_set e1 3 1 [])) (rd_done r))))
                       (mk_encode (rd_gen r) (nth (Z.to_nat RS_N) (e_hosts e) 0) (e_base e)) op
        end
      else if k =? K_RSEncode then
        match find_enc_chunk r (nth 1 (Cluster.Model.k_aux rp) 0) with
        | None => st
        | Some e =>
            if negb (err =? cl_NoError) then enc_finish st r e false
            else
              let bl := bump_list fx r e in
              let e1 := e_set e 4 (Z.of_nat (length bl)) [] in
              let st1 := set_rounds st (upd_round (s_rounds st) (rd_set r (rd_phase r) (rd_tracts r) (upd_enc (rd_encs r) e1) (rd_done r))) in
              fold_left (fun s '(tk', h, stamp, nv) => issue s (mk_setversion (rd_gen r) h tk' nv (Some stamp)) op) bl st1
        end
      else if k =? K_SetVersion then
        match find_enc_tract r tk with
        | None => st
        | Some e =>
            let bl := bump_list fx r e in
            let e1 := e_set e 4 (e_wait e - 1) ((slot_of bl tk (Cluster.Model.k_ts rp) 0, err) :: e_errs e) in
            if 0 <? e_wait e1 then set_rounds st (upd_round (s_rounds st) (rd_set r (rd_phase r) (rd_tracts r) (upd_enc (rd_encs r) e1) (rd_done r)))
            else if negb (first_err (e_errs e1) (Z.of_nat (length bl)) =? cl_NoError) then enc_finish st r e1 false
            else issue (set_rounds st (upd_round (s_rounds st) (rd_set r (rd_phase r) (rd_tracts r) (upd_enc (rd_encs r) (e_set e1 5 1 [])) (rd_done r))))
                       (mk_commit (rd_gen r) (e_base e)) op
        end
      else if k =? K_Commit then
        match find_enc_chunk r (nth 0 (Cluster.Model.k_aux rp) 0) with
        | None => st
        | Some e => enc_finish st r e (err =? cl_NoError)
        end
      else st
  end.

(* the sources a PackTracts request names for a tract *)
Definition pack_from (fx : fixes) (p : ptr) : list Z :=
  if fx13 fx then filter (fun h => match Cluster.Model.zget (pt_stamps p) h with Some _ => true | None => false end) (pt_from p) else pt_from p.

(* ------------------------------------------------------------------ executing an RPC at its callee *)
Definition aux_nth (r : rpc) (i : nat) : Z := nth i (Cluster.Model.k_aux r) 0.

Definition lost_err (r : rpc) : Z :=
  if (Cluster.Model.k_kind r =? K_Alloc) || (Cluster.Model.k_kind r =? K_Commit) then c14_ErrRaftTimeout else cl_ErrRPC.

Definition entry_of (st : state) (d : dtr) : centry :=
  let known := known_of st (s_gen st) in
  {| ce_ver := d_ver d;
     ce_hosts := map (fun h => (h, if zmem h known then 1 else 0)) (fold_right Cluster.Model.insert_sorted [] (visible_hosts d));
     ce_rs := match d_rs d with Some _ => true | None => false end |}.

Definition enc_entry (idx : Z) (e : centry) (d : dtr) : list Z :=
  [idx; ce_ver e; Z.of_nat (length (ce_hosts e))] ++ flat_map (fun '(h, kn) => [h; kn]) (ce_hosts e) ++
  match d_rs d with
  | Some p => [1; rs_base p + rs_idx p; rs_ts p; rs_off p; rs_len p]
  | None => [0]
  end.

Definition round_of_gen (st : state) (gen : Z) : option round := find (fun r => rd_gen r =? gen) (s_rounds st).

(* returns the new state, the reply (class :: payload), the decoded entry of a GetTracts reply and the dump section *)
Definition exec_rpc (fx : fixes) (st : state) (e : pent) (extra : list Z) : state * list Z * option centry * list Z :=
  let r := p_rpc e in
  let tk := Cluster.Model.tkey (Cluster.Model.k_blob r) (Cluster.Model.k_tract r) in
  let k := Cluster.Model.k_kind r in
  let ts := Cluster.Model.k_ts r in
  if k =? K_Write then
    let '(st1, c) := ts_write st ts tk (Cluster.Model.k_ver r) (Cluster.Model.k_wid r) (Cluster.Model.k_off r) (Cluster.Model.k_len r) in
    (st1, [c], None, Cluster.Model.dump_replica (s_reps st1) ts tk)
  else if k =? K_SetVersion then
    let cond := if aux_nth r 1 =? 0 then None else Some (aux_nth r 2, aux_nth r 3) in
    let '(st1, c) := ts_setversion st ts (aux_nth r 0) tk (Cluster.Model.k_ver r) cond in
    (st1, [c], None, Cluster.Model.dump_replica (s_reps st1) ts tk)
  else if k =? K_CtlStat then
    let '(c, size, stamp) := ts_stat st ts tk (Cluster.Model.k_ver r) in
    (st, [c; size; fst stamp; snd stamp], None, Cluster.Model.dump_replica (s_reps st) ts tk)
  else if k =? K_PackTracts then
    let chunk := aux_nth r 1 in
    let specs := match round_of_gen st (Cluster.Model.k_gen r) with
                 | Some rd => match find_enc_chunk rd chunk with
                              | Some eo => match nth_error (e_chunks eo) (Z.to_nat (chunk - e_base eo)) with
                                           | Some (tk', off, len) =>
                                               match find_ptr (rd_tracts rd) tk' with
                                               | Some p => [(tk', off, len, pt_ver p, pack_from fx p)]
                                               | None => []
                                               end
                                           | None => []
                                           end
                              | None => []
                              end
                 | None => []
                 end in
    let '(st1, c) := ts_pack st ts (aux_nth r 0) chunk (Cluster.Model.k_len r) specs extra in
    (st1, [c], None, dump_piece st1 ts chunk)
  else if k =? K_RSEncode then
    let base := aux_nth r 1 in
    match round_of_gen st (Cluster.Model.k_gen r) with
    | Some rd =>
        match find_enc_chunk rd base with
        | Some eo =>
            let hosts := e_hosts eo in
            let have := forallb (fun i => match pget (s_pieces st) (nth i hosts 0, base + Z.of_nat i) with Some _ => true | None => false end)
                                (seq 0 (Z.to_nat RS_N)) in
            if negb (ts =? aux_nth r 0) then (st, [cl_ErrWrongTractserver], None, [])
            else if negb have then (st, [-8], None, [])
            else
              let pcs := fold_left (fun m i => pset m (nth i hosts 0, base + Z.of_nat i) {| pc_items := []; pc_len := Cluster.Model.k_len r; pc_data := false |})
                                   (seq (Z.to_nat RS_N) (Z.to_nat RS_M)) (s_pieces st) in
              let st1 := set_pieces st pcs in
              (st1, [cl_NoError], None,
               map (fun i => match pget (s_pieces st1) (nth i hosts 0, base + Z.of_nat i) with Some _ => 1 | None => 0 end) (seq (Z.to_nat RS_N) (Z.to_nat RS_M)))
        | None => (st, [-8], None, [])
        end
    | None => (st, [-8], None, [])
    end
  else if k =? K_GCTract then
    if negb (ts =? aux_nth r 0) then (st, [cl_ErrWrongTractserver], None, [match pget (s_pieces st) (ts, aux_nth r 1) with Some _ => 1 | None => 0 end])
    else (set_pieces st (pdel (s_pieces st) (ts, aux_nth r 1)), [cl_NoError], None, [0])
  else if k =? K_StatBlob then
    match Cluster.Model.zget (s_blobs st) (Cluster.Model.k_blob r) with
    | Some b => (st, [cl_NoError; b_nt b; b_cls b], None, [])
    | None => (st, [cl_ErrNoSuchBlob], None, [])
    end
  else if k =? K_GetTracts then
    match Cluster.Model.zget (s_blobs st) (Cluster.Model.k_blob r) with
    | None => (st, [cl_ErrNoSuchBlob], None, [])
    | Some b =>
        let start := aux_nth r 0 in
        if b_nt b <=? start then (st, [cl_ErrNoSuchTract], None, [])
        else match dget st (Cluster.Model.tkey (Cluster.Model.k_blob r) start) with
             | None => (st, [cl_ErrNoSuchTract], None, [])
             | Some d => let en := entry_of st d in (st, [cl_NoError; 1] ++ enc_entry start en d, Some en, [])
             end
    end
  else if k =? K_ReportBadTS then
    (st, [if zmem (aux_nth r 0) (known_of st (s_gen st)) then cl_NoError else cl_ErrHostNotExist], None, [])
  else if k =? K_Alloc then
    match find_round (s_rounds st) (p_owner e) with
    | Some rd =>
        if negb (rd_term rd =? s_term st) then (st, [cl_ErrLeaderContinuityBroken; 0], None, [])
        else
          let st1 := set_dur st (s_blobs st) (s_dtr st) (s_term st) (s_nextchunk st + aux_nth r 0) in
          (set_ghost st1 (s_acked st1) (s_att st1) (s_commits st1) ((rd_op rd, rd_term rd, s_term st) :: s_durlog st1),
           [cl_NoError; s_nextchunk st], None, [])
    | None => (st, [-8], None, [])
    end
  else if k =? K_Commit then
    match find_round (s_rounds st) (p_owner e) with
    | Some rd =>
        match find_enc_chunk rd (aux_nth r 0) with
        | Some eo =>
            let tracts := fst (fold_left (fun '(acc, i) '(tk', off, len) =>
                                            (acc ++ [(tk', off, len, match find_ptr (rd_tracts rd) tk' with Some p => pt_ver p + 1 | None => 0 end, i)], i + 1))
                                         (e_chunks eo) ([], 0)) in
            let '(st1, c) := commit_rs fx st (rd_op rd) (rd_term rd) (e_base eo) (e_hosts eo) tracts in
            (st1, [c], None, [])
        | None => (st, [-8], None, [])
        end
    | None => (st, [-8], None, [])
    end
  else (st, [-1], None, []).

(* the caller of pool entry e gets 'res' *)
Definition deliver (fx : fixes) (st : state) (e : pent) (res : list Z) (entry : option centry) (hint : list Z) : state :=
  let st1 := set_pool st (pool_remove (s_pool st) (p_id e)) (s_next st) in
  let o := p_owner e in
  if o =? 0 then st1
  else if o <? 0 then fix_reply fx st1 o (hd cl_ErrRPC res)
  else match find_wop (s_wops st1) o with
       | Some _ => cli_reply fx st1 o (p_rpc e) res entry
       | None => round_reply fx st1 o (p_rpc e) res hint
       end.

Definition is_ts_kind (k : Z) : bool := (k =? K_Write) || (k =? K_SetVersion) || (k =? K_CtlStat).

Definition dump_for (st : state) (r : rpc) : list Z :=
  if is_ts_kind (Cluster.Model.k_kind r) then Cluster.Model.dump_replica (s_reps st) (Cluster.Model.k_ts r) (Cluster.Model.tkey (Cluster.Model.k_blob r) (Cluster.Model.k_tract r))
  else if (Cluster.Model.k_kind r =? K_PackTracts) then dump_piece st (Cluster.Model.k_ts r) (aux_nth r 1)
  else if (Cluster.Model.k_kind r =? K_GCTract) then [match pget (s_pieces st) (Cluster.Model.k_ts r, aux_nth r 1) with Some _ => 1 | None => 0 end]
  else [].

(* code 7: mode 1 deliver, 2 execute but the caller sees an error, 3 execute twice, 4 fail without executing *)
Definition step_exec (fx : fixes) (st : state) (mode : Z) (l : list Z) : state * list Z :=
  match Cluster.Model.parse_rpc l with
  | None => (st, [-1])
  | Some (rp, r1) =>
      let '(extra, r2) := match r1 with n :: t => Cluster.Model.take n t | [] => ([], []) end in
      let hint := match r2 with n :: t => fst (Cluster.Model.take n t) | [] => [] end in
      match find_pent (s_pool st) rp with
      | None => (st, [-2])
      | Some e =>
          if mode =? 4 then
            let st1 := deliver fx st e [lost_err rp] None hint in
            (st1, [0] ++ dump_for st1 rp ++ out_section st1 ++ fin_section st1)
          else if Cluster.Model.k_kind rp =? K_FixVersion then
            let pool' := map (fun x => if p_id x =? p_id e
                                       then {| p_id := p_id x; p_rpc := p_rpc x; p_owner := p_owner x; p_run := true; p_lose := mode =? 2 |}
                                       else x) (s_pool st) in
            let st1 := start_fix fx (set_pool st pool' (s_next st)) (s_gen st) (Cluster.Model.tkey (Cluster.Model.k_blob rp) (Cluster.Model.k_tract rp)) (Cluster.Model.k_ver rp) (aux_nth rp 0) (p_id e) in
            (st1, [1] ++ out_section st1 ++ fin_section st1)
          else
            let '(st1, res, en, dump) := exec_rpc fx st e extra in
            let '(st2, dump2) := if mode =? 3 then let '(s', _, _, d') := exec_rpc fx st1 e extra in (s', d') else (st1, dump) in
            let st3 := deliver fx st2 e (if mode =? 2 then [lost_err rp] else res) (if mode =? 2 then None else en) hint in
            (st3, [1] ++ res ++ dump2 ++ out_section st3 ++ fin_section st3)
      end
  end.

Definition step_restart (fx : fixes) (st : state) (ts : Z) : state * list Z :=
  let st0 := set_epoch st (Cluster.Model.zset (s_epoch st) ts (epoch_of st ts + 1)) in
  let victims := filter (fun e => (Cluster.Model.k_ts (p_rpc e) =? ts) && negb (p_run e)) (s_pool st0) in
  let st1 := fold_left (fun s e => match find (fun x => p_id x =? p_id e) (s_pool s) with
                                   | Some _ => deliver fx s e [cl_ErrRPC] None []
                                   | None => s
                                   end) victims st0 in
  (st1, out_section st1 ++ fin_section st1).

(* code 30: readAt of a range inside one tract by a client without cache, executed atomically *)
Definition find_item (items : list (tkt * Z * Z * list wrec)) (tk : tkt) : option (list wrec) :=
  match find (fun '(tk', _, _, _) => Cluster.Model.tk_eqb tk tk') items with Some (_, _, _, app) => Some app | None => None end.

Fixpoint read_tries (st : state) (tk : tkt) (ver len off : Z) (hosts tries : list Z) (last : Z) : Z * Z * list (Z * Z) :=
  match tries with
  | [] => (last, 0, [])
  | h :: r => if negb (zmem h hosts) then (-7, 0, [])
              else let '(c, n, runs) := Cluster.Model.ts_read (s_reps st) h tk ver len off in
                   if (c =? cl_NoError) || (c =? cl_ErrEOF) then (c, n, runs) else read_tries st tk ver len off hosts r c
  end.

Definition step_read (st : state) (blob tract off len : Z) (tries : list Z) : list Z :=
  let tk := Cluster.Model.tkey blob tract in
  match Cluster.Model.zget (s_blobs st) blob, dget st tk with
  | Some b, Some d =>
      let padall := tract + 1 <? b_nt b in
      let '(c, n, runs) :=
        match visible_hosts d with
        | _ :: _ => read_tries st tk (d_ver d) len off (d_hosts d) tries cl_ErrAllocHost
        | [] => match d_rs d with
                | None => (cl_ErrInvalidState, 0, [])
                | Some p =>
                    let length := if 0 <? rs_len p - off then Z.min len (rs_len p - off) else 0 in
                    if length =? 0 then (cl_ErrEOF, 0, [])
                    else match pget (s_pieces st) (rs_ts p, rs_base p + rs_idx p) with
                         | None => (-8, 0, [])
                         | Some pc => match find_item (pc_items pc) tk with
                                      | None => (-8, 0, [])
                                      | Some app => ((if length <? len then cl_ErrEOF else cl_NoError), length, Cluster.Model.render app off (off + length))
                                      end
                         end
                end
        end in
      if c =? cl_NoError then [c; n] ++ Cluster.Model.flat_runs (Cluster.Model.merge_runs (runs ++ [(len - n, 0)]))
      else if c =? cl_ErrEOF then
        if padall then [cl_NoError; len] ++ Cluster.Model.flat_runs (Cluster.Model.merge_runs (runs ++ [(len - n, 0)]))
        else [cl_ErrEOF; n] ++ Cluster.Model.flat_runs (Cluster.Model.merge_runs runs)
      else [c; 0; 0]
  | _, _ => [-1]
  end.

(* code 83: ts chunk target nspecs (blob tract off len ver nfrom from... nfail failing...)*
   Store.PackTracts at ts with these specs when, per tract, the listed sources cannot be reached: a source that cannot
   be reached is skipped exactly like one that answers with the wrong version or length; a tract none of whose sources
   delivers makes the whole call fail and leaves no piece.  Answer: error class, then the piece as PackTracts left it. *)
Fixpoint probe_specs (n : nat) (l : list Z) : list (tkt * Z * Z * Z * list Z) :=
  match n with
  | O => []
  | S n' => match l with
            | blob :: tract :: off :: len :: ver :: nfrom :: r =>
                let '(from, r1) := Cluster.Model.take nfrom r in
                match r1 with
                | nfail :: r2 =>
                    let '(failing, r3) := Cluster.Model.take nfail r2 in
                    (Cluster.Model.tkey blob tract, off, len, ver, filter (fun h => negb (zmem h failing)) from) :: probe_specs n' r3
                | [] => []
                end
            | _ => []
            end
  end.
Definition pack_probe (st : state) (a : list Z) : list Z :=
  match a with
  | ts :: chunk :: target :: nspecs :: r =>
      let '(st1, c) := ts_pack st ts ts chunk target (probe_specs (Z.to_nat nspecs) r) [] in
      c :: dump_piece st1 ts chunk
  | _ => [-1]
  end.

Definition class_probe (st : state) (a : list Z) : list Z :=
  match a with
  | [blob] => match Cluster.Model.zget (s_blobs st) blob with
              | Some b => if all_rs st blob then [-1] else [snd (update_class st 0 (s_term st) blob (b_tgt b))]
              | None => [-1]
              end
  | _ => [-1]
  end.

Definition begin_event (st : state) : state := set_fin st [] (s_next st).

(* operation ids (client writes, rounds) are positive and never reused while anything of the old owner is around *)
Definition op_fresh (st : state) (op : Z) : bool :=
  (0 <? op) && negb (existsb (fun w => wo_op w =? op) (s_wops st)) && negb (existsb (fun r => rd_op r =? op) (s_rounds st)) &&
  negb (existsb (fun e => p_owner e =? op) (s_pool st)).

Definition step_fx (fx : fixes) (st0 : state) (ev : list Z) : state * list Z :=
  let st := begin_event st0 in
  match ev with
  | [] => (st, [-1])
  | c :: a =>
      if c =? 1 then
        match a with
        | nts :: ncli :: flags =>
            if negb (s_nts st =? 0) || negb (match s_wops st with [] => true | _ => false end) then (st, [-1]) else   (* the cell is set up once, before any operation *)
            (set_cli (set_cur st (s_gen st) (Cluster.Model.zset (s_known st) (s_gen st) (map (fun i => Z.of_nat i + 1) (seq 0 (Z.to_nat nts)))) nts)
                     (s_wops st) (s_cache st) (s_lcache st)
                     (fst (fold_left (fun '(m, i) f => (Cluster.Model.zset m i (negb (f =? 0)), i + 1)) flags ([], 0))), [])
        | _ => (st, [-1])
        end
      else if c =? 2 then
        match a with
        | [blob; nt; tgt] =>
            match Cluster.Model.zget (s_blobs st) blob with Some _ => (st, [-1]) | None =>   (* blob ids are fresh *)
            (set_blobs st (Cluster.Model.zset (s_blobs st) blob {| b_cls := c14_ClassREPLICATED; b_nt := nt; b_tgt := tgt |}), []) end
        | _ => (st, [-1])
        end
      else if c =? 20 then
        match a with
        | blob :: tract :: ver :: nh :: hosts =>
            let tk := Cluster.Model.tkey blob tract in
            if (match dget st tk with Some _ => true | None => false end) || negb (Cluster.Model.distinct hosts) then (st, [-1]) else   (* tracts are fresh *)
            let reps := fold_left (fun m h => Cluster.Model.rset m (h, tk) {| Cluster.Model.r_ver := ver; Cluster.Model.r_app := [] |}) hosts (s_reps st) in
            (set_dtr (set_reps st reps) (Cluster.Model.tset (s_dtr st) tk {| d_ver := ver; d_hosts := hosts; d_rs := None |}), [])
        | _ => (st, [-1])
        end
      else if c =? 21 then
        match a with
        | [blob; tract; wid; off; len; iswrite] =>
            let tk := Cluster.Model.tkey blob tract in
            match dget st tk with
            | Some d =>
                (fold_left (fun s h => if iswrite =? 0
                                       then match Cluster.Model.rget (s_reps s) (h, tk) with
                                            | Some r => set_reps s (Cluster.Model.rset (s_reps s) (h, tk) {| Cluster.Model.r_ver := Cluster.Model.r_ver r; Cluster.Model.r_app := Cluster.Model.app_write (Cluster.Model.r_app r) wid off len |})
                                            | None => s
                                            end
                                       else fst (ts_write s h tk (d_ver d) wid off len)) (d_hosts d)
                           (set_ghost st ((tk, Cluster.Model.mkw wid off len) :: s_acked st) ((tk, Cluster.Model.mkw wid off len) :: s_att st) (s_commits st) (s_durlog st)), [])
            | None => (st, [-1])
            end
        | _ => (st, [-1])
        end
      else if c =? 22 then
        match a with
        | [blob; tract] =>
            let tk := Cluster.Model.tkey blob tract in
            match dget st tk with
            | Some d => (st, flat_map (fun h => Cluster.Model.dump_replica (s_reps st) h tk) (d_hosts d))
            | None => (st, [-1])
            end
        | _ => (st, [-1])
        end
      else if c =? 3 then
        match a with
        | [op; cli; blob; tract; off; len; wid] =>
            if negb (op_fresh st op) || (len <=? 0) then (st, [-1]) else
            let wascached := zmem cli (s_lcache st) in
            let w := {| wo_op := op; wo_cli := cli; wo_blob := blob; wo_tract := tract; wo_off := off; wo_len := len; wo_wid := wid;
                        wo_phase := 1; wo_cached := false; wo_retry := wascached; wo_entry := None; wo_res := []; wo_final := 0;
                        wo_late := match dget st (Cluster.Model.tkey blob tract) with Some d => match d_rs d with Some _ => true | None => false end | None => false end |} in
            let st1 := set_cli st (s_wops st ++ [w]) (s_cache st)
                               (if use_cache st cli && negb wascached then cli :: s_lcache st else s_lcache st) (s_usecache st) in
            let st2 := set_ghost st1 (s_acked st1) ((Cluster.Model.tkey blob tract, Cluster.Model.mkw wid off len) :: s_att st1) (s_commits st1) (s_durlog st1) in
            let st3 := issue st2 (mk_statblob w) op in
            (st3, out_section st3)
        | _ => (st, [-1])
        end
      else if c =? 6 then
        match a with
        | [blob; tract; ver; badts] =>
            let st1 := start_fix fx st (s_gen st) (Cluster.Model.tkey blob tract) ver badts 0 in
            (st1, out_section st1 ++ fin_section st1)
        | _ => (st, [-1])
        end
      else if c =? 7 then
        match a with mode :: r => step_exec fx st mode r | [] => (st, [-1]) end
      else if c =? 9 then
        match a with [ts] => step_restart fx st ts | _ => (st, [-1]) end
      else if c =? 10 then
        (set_cur (set_dur st (s_blobs st) (s_dtr st) (s_term st + 1) (s_nextchunk st)) (s_gen st + 1) (s_known st) (s_nts st), [])
      else if c =? 11 then
        match a with
        | [ts] => let k := known_of st (s_gen st) in
                  (set_cur st (s_gen st) (Cluster.Model.zset (s_known st) (s_gen st) (if zmem ts k then k else k ++ [ts])) (s_nts st), [])
        | _ => (st, [-1])
        end
      else if c =? 80 then
        match a with
        | [op] => if negb (op_fresh st op) then (st, [-1]) else
                  let '(st1, obs) := round_start st op in
                  (st1, [Z.of_nat (length obs) / 2] ++ obs ++ out_section st1 ++ fin_section st1)
        | _ => (st, [-1])
        end
      else if c =? 30 then
        match a with
        | blob :: tract :: off :: len :: nt :: tries => (st, step_read st blob tract off len (fst (Cluster.Model.take nt tries)))
        | _ => (st, [-1])
        end
      else if c =? 81 then
        (* compositional harness: the scripted tpContext answered this call of the real packer with 'res' *)
        match Cluster.Model.parse_rpc a with
        | Some (rp, r1) =>
            let '(res, r2) := match r1 with n :: t => Cluster.Model.take n t | [] => ([], []) end in
            let hint := match r2 with n :: t => fst (Cluster.Model.take n t) | [] => [] end in
            match find_pent (s_pool st) rp with
            | None => (st, [-2])
            | Some e => let st1 := deliver fx st e res None hint in (st1, fin_section st1)
            end
        | None => (st, [-1])
        end
      else if c =? 82 then
        (* compositional harness: the calls of the round still unanswered (stat, pack, encode, bump, alloc, commit) *)
        (st, [Z.of_nat (length (filter (fun e => (0 <? p_owner e) && negb (Cluster.Model.k_kind (p_rpc e) =? K_GCTract)) (s_pool st)))])
      else if c =? 84 then
        (* probe: a raw UpdateStorageClass(blob, its target class) in the current term, submitted by the harness only while
           some tract of the blob has no RS pointer: the command must refuse (answer = its error), nothing changes *)
        (st, class_probe st a)
      else if c =? 83 then
        (* Store-level probe of PackTracts (the state is left alone: the harness removes the scratch piece again) *)
        (st, pack_probe st a)
      else if c =? 31 then
        match a with
        | [blob] => match Cluster.Model.zget (s_blobs st) blob with
                    | Some b => (st, [if b_cls b =? c14_ClassREPLICATED then cl_NoError else c14_ErrReadOnlyStorageClass])
                    | None => (st, [cl_ErrNoSuchBlob])
                    end
        | _ => (st, [-1])
        end
      else (st, [-1])
  end.

(* /repo HEAD carries the three repairs (defd77a, 5c76c3c, 05b6487): the code as it is = all_fix *)
Definition step := step_fx all_fix.

Fixpoint run_fx (fx : fixes) (st : state) (evs : list (list Z)) : list (list Z) :=
  match evs with
  | [] => []
  | ev :: r => let '(st', o) := step_fx fx st ev in o :: run_fx fx st' r
  end.

Fixpoint run_state_fx (fx : fixes) (st : state) (evs : list (list Z)) : state :=
  match evs with
  | [] => st
  | ev :: r => run_state_fx fx (fst (step_fx fx st ev)) r
  end.

Definition run_case (ops : list (list Z)) : list (list Z) := run_fx all_fix init_state ops.

(* the code before the three repairs (the REFUTED theorems are about these switches) *)
Definition run_case_unrepaired (ops : list (list Z)) : list (list Z) := run_fx no_fix init_state ops.
