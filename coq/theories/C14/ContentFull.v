(* C14/ContentFull.v — move_preserves_content at run level for the repaired model. *)
From Coq Require Import List ZArith Bool Lia.
From BLB Require Import Gen.Consts.
From BLB Require Cluster.Model.
From BLB Require Import C14.Model C14.Proofs C14.Run C14.Late C14.InvFrame C14.InvStore C14.InvVer C14.InvPool C14.InvRound C14.InvTract C14.InvContent C14.InvPiece C14.TriFull C14.ContentList C14.ContentPool C14.ContentInv.
Import ListNotations.
Open Scope Z_scope.

(* a schedule predicate checked along the run *)
Fixpoint sched_run (P : state -> list Z -> bool) (fx : fixes) (st : state) (evs : list (list Z)) : bool :=
  match evs with
  | [] => true
  | ev :: r => P st ev && sched_run P fx (fst (step_fx fx st ev)) r
  end.
Definition single_run := sched_run ev_single.
Definition wids_run := sched_run ev_wid_fresh.

Lemma sched_run_app P fx a : forall st b, sched_run P fx st (a ++ b) = sched_run P fx st a && sched_run P fx (run_state_fx fx st a) b.
Proof. induction a as [|ev a IH]; intros st b; cbn [sched_run app run_state_fx]; [reflexivity|]. rewrite IH, andb_assoc. reflexivity. Qed.

Lemma OInv_init : OInv init_state.
Proof. constructor; cbn; try (intros; contradiction); try (intros; discriminate). intros tk. constructor. Qed.

Lemma OInv_setup_run fx setup : forallb ev_setup2 setup = true -> forall st, wids_run fx st setup = true ->
  pR st = pR init_state -> OInv st -> OInv (run_state_fx fx st setup).
Proof.
  induction setup as [|ev l IH]; intros H st Hw HP HI; cbn [run_state_fx]; [exact HI|].
  cbn in H. apply andb_true_iff in H. destruct H as [H1 H2]. cbn [wids_run sched_run] in Hw. apply andb_true_iff in Hw. destruct Hw as [W1 W2].
  assert (E1: ev_setup ev = true) by (unfold ev_setup2 in H1; apply andb_true_iff in H1; tauto).
  apply IH; [exact H2|exact W2|rewrite (pR_setup_step fx st ev E1); exact HP|].
  pose proof HP as HP'. unfold pR in HP'. injection HP' as P1 _ _ P4 _ _.
  apply OInv_setup_step; assumption.
Qed.

Lemma OInv_run fx evs : fx6 fx = true -> fx13 fx = true -> fx14 fx = true -> forallb ev_run evs = true ->
  forall st, XInv4 fx st -> PInv fx st -> OInv st ->
    gens_run fx st evs = true -> single_run fx st evs = true -> wids_run fx st evs = true ->
    XInv4 fx (run_state_fx fx st evs) /\ OInv (run_state_fx fx st evs).
Proof.
  intros H6 H13 H14. induction evs as [|ev evs IH]; intros He st X HP HO Hg Hs Hw; cbn [run_state_fx]; [split; assumption|].
  cbn in He. apply andb_true_iff in He. destruct He as [H1 H2].
  cbn [gens_run] in Hg. apply andb_true_iff in Hg. destruct Hg as [G1 G2].
  cbn [single_run sched_run] in Hs. apply andb_true_iff in Hs. destruct Hs as [S1 S2].
  cbn [wids_run sched_run] in Hw. apply andb_true_iff in Hw. destruct Hw as [W1 W2].
  destruct (src_step fx st H6 H13 X HP) as [Q0 Q1]. pose proof X as [F D R T].
  apply IH; [exact H2| |apply PInv_step; assumption|apply OInv_step; assumption|exact G2|exact S2|exact W2].
  constructor; [apply XFInv_step|apply DInv_step|apply RInv_step|apply TInv_step]; assumption.
Qed.

Lemma is_acked_spec st tk wid : is_acked st tk wid = true -> exists w, In (tk, w) (s_acked st) /\ w_id w = wid.
Proof.
  unfold is_acked. intros H. apply existsb_exists in H. destruct H as [[tk' w] [Hin E]]. apply andb_true_iff in E. destruct E as [E1 E2].
  apply tk_eqb_eq in E1. apply Z.eqb_eq in E2. subst tk'. exists w. auto.
Qed.

Lemma content_of_invariants st : XFInv st -> OInv st -> content_ok st = true.
Proof.
  intros HX HO. unfold content_ok. apply forallb_forall. intros c Hc.
  destruct (o_com _ HO c Hc) as [S N]. pose proof (Xf_tri _ HX c) as T.
  destruct c as [[[[[tk term] packed] nv] sv] started]. cbn [Xc_packed Xc_started Xc_tk] in *.
  apply forallb_forall. intros p _. apply (content_point packed started p (is_acked st tk) S N).
  intros w _ Ha. destruct (is_acked_spec _ _ _ Ha) as [w0 [Hin <-]]. exact (T tk w0 Hc Hin eq_refl).
Qed.

(* the ordering invariant in every reachable state: the applied list of every replica, and the packed copy of every commit,
   embed in order into the attempts of the tract (newest first), whose ids are distinct *)
Theorem OInv_reachable fx setup evs : fx6 fx = true -> fx13 fx = true -> fx14 fx = true ->
  forallb ev_setup2 setup = true -> forallb ev_run evs = true ->
  gens_run fx (run_state_fx fx init_state setup) evs = true ->
  single_run fx (run_state_fx fx init_state setup) evs = true ->
  wids_run fx init_state (setup ++ evs) = true ->
  XInv4 fx (run_state_fx fx init_state (setup ++ evs)) /\ OInv (run_state_fx fx init_state (setup ++ evs)).
Proof.
  intros H6 H13 H14 Hs He Hg Hsi Hw. unfold wids_run in Hw. rewrite sched_run_app in Hw. apply andb_true_iff in Hw. destruct Hw as [W1 W2].
  rewrite run_state_app.
  assert (X0: XInv4 fx (run_state_fx fx init_state setup)).
  { pose proof (XInv4_reachable fx setup [] H6 H14 Hs eq_refl I) as X. rewrite app_nil_r in X. exact X. }
  assert (P0: PInv fx (run_state_fx fx init_state setup)) by (apply PInv_quiet; apply pR_setup_run; apply setup2_setup; exact Hs).
  assert (O0: OInv (run_state_fx fx init_state setup)) by (apply OInv_setup_run; [exact Hs|exact W1|reflexivity|exact OInv_init]).
  exact (OInv_run fx evs H6 H13 H14 He _ X0 P0 O0 Hg Hsi W2).
Qed.

Theorem content_ok_reachable fx setup evs : fx6 fx = true -> fx13 fx = true -> fx14 fx = true ->
  forallb ev_setup2 setup = true -> forallb ev_run evs = true ->
  gens_run fx (run_state_fx fx init_state setup) evs = true ->
  single_run fx (run_state_fx fx init_state setup) evs = true ->
  wids_run fx init_state (setup ++ evs) = true ->
  content_ok (run_state_fx fx init_state (setup ++ evs)) = true.
Proof.
  intros H6 H13 H14 Hs He Hg Hsi Hw. destruct (OInv_reachable fx setup evs H6 H13 H14 Hs He Hg Hsi Hw) as [X O].
  exact (content_of_invariants _ (xi4_f _ _ X) O).
Qed.

(* the ordering invariant, spelled out *)
Theorem applied_order_reachable fx setup evs : fx6 fx = true -> fx13 fx = true -> fx14 fx = true ->
  forallb ev_setup2 setup = true -> forallb ev_run evs = true ->
  gens_run fx (run_state_fx fx init_state setup) evs = true ->
  single_run fx (run_state_fx fx init_state setup) evs = true ->
  wids_run fx init_state (setup ++ evs) = true ->
  forall st, st = run_state_fx fx init_state (setup ++ evs) ->
  (forall h tk rep, rget (s_reps st) (h, tk) = Some rep -> sub_rep (r_app rep) (att_of st tk)) /\
  (forall tk term packed nv sv started, In (tk, term, packed, nv, sv, started) (s_commits st) -> sub_rep packed started /\ NoDup (map w_id started)).
Proof.
  intros H6 H13 H14 Hs He Hg Hsi Hw st ->. destruct (OInv_reachable fx setup evs H6 H13 H14 Hs He Hg Hsi Hw) as [_ O]. split.
  - exact (o_app _ O).
  - intros tk term packed nv sv started Hin. exact (o_com _ O _ Hin).
Qed.
