(* C14/InvRound.v — the calls of a storage-class round that are outstanding are exactly the ones its control state
   expects (layer 2 of the run-level proof).  Consequence used later: when CommitRSChunk of an encode operation is
   outstanding, every conditional bump of that operation has genuinely succeeded. *)
From Coq Require Import List ZArith Bool Lia.
From BLB Require Import Gen.Consts.
From BLB Require Cluster.Model.
From BLB Require Import C14.Model C14.Proofs C14.Run C14.Late C14.InvFrame C14.InvStore C14.InvVer C14.InvPool.
Import ListNotations.
Open Scope Z_scope.

Notation k_aux := Cluster.Model.k_aux.
Notation zget := Cluster.Model.zget.

(* ------------------------------------------------------------------ which pool entries belong to whom *)
Definition owned (op : Z) (pe : pent) : bool := p_owner pe =? op.
Definition kind_is (k : Z) (pe : pent) : bool := k_kind (p_rpc pe) =? k.

Definition cnt (f : pent -> bool) (pool : list pent) : nat := length (filter f pool).

(* the encode operation the reply handler will pick for a pool entry *)
Definition att_enc (r : round) (rp : rpc) : option encop :=
  let k := k_kind rp in
  if (k =? K_PackTracts) || (k =? K_RSEncode) then find_enc_chunk r (nth 1 (k_aux rp) 0)
  else if k =? K_Commit then find_enc_chunk r (nth 0 (k_aux rp) 0)
  else if k =? K_SetVersion then find_enc_tract r (rpc_tk rp)
  else None.

Definition att_to (r : round) (e : encop) (pe : pent) : bool :=
  owned (rd_op r) pe && match att_enc r (p_rpc pe) with Some e' => e_base e' =? e_base e | None => false end.

Definition stage_kind (stage : Z) : Z :=
  if stage =? 2 then K_PackTracts else if stage =? 3 then K_RSEncode else if stage =? 4 then K_SetVersion
  else if stage =? 5 then K_Commit else -1.

Definition bound (e : encop) : Z := if e_stage e =? 9 then 0 else e_wait e.

Definition is_stat_for (op : Z) (tk : tkt) (pe : pent) : bool :=
  owned op pe && kind_is K_CtlStat pe && tk_eqb (rpc_tk (p_rpc pe)) tk.
Definition is_alloc_for (op : Z) (pe : pent) : bool := owned op pe && kind_is K_Alloc pe.

(* what the round expects of an outstanding call it owns *)
Definition expects (fx : fixes) (r : round) (rp : rpc) : Prop :=
  let k := k_kind rp in
  (k = K_CtlStat /\ rd_phase r = 1 /\
     exists p, find_ptr (rd_tracts r) (rpc_tk rp) = Some p /\ pt_done p = false /\
               exists h rest, pt_next p = h :: rest /\ k_ts rp = h) \/
  (k = K_Alloc /\ rd_phase r = 2) \/
  (rd_phase r = 3 /\ exists e, att_enc r rp = Some e /\ k = stage_kind (e_stage e) /\
     (k = K_SetVersion -> exists h s nv, In (rpc_tk rp, h, s, nv) (bump_list fx r e) /\
                                        rp = mk_setversion (rd_gen r) h (rpc_tk rp) nv (Some s))).

Definition bumped (st : state) (h : Z) (tk : tkt) (nv : Z) : Prop :=
  exists rep, rget (s_reps st) (h, tk) = Some rep /\ nv <= r_ver rep.

(* slots of encBump *)
Definition slots_ok (fx : fixes) (st : state) (r : round) (e : encop) : Prop :=
  let bl := bump_list fx r e in
  forall tk h s nv, In (tk, h, s, nv) bl ->
    (zget (e_errs e) (slot_of bl tk h 0) = None ->
       exists pe, In pe (s_pool st) /\ p_owner pe = rd_op r /\ k_kind (p_rpc pe) = K_SetVersion /\
                  rpc_tk (p_rpc pe) = tk /\ k_ts (p_rpc pe) = h) /\
    (zget (e_errs e) (slot_of bl tk h 0) = Some cl_NoError -> bumped st h tk nv).

Definition all_bumped (fx : fixes) (st : state) (r : round) (e : encop) : Prop :=
  forall tk h s nv, In (tk, h, s, nv) (bump_list fx r e) -> bumped st h tk nv.

Definition in_range (e : encop) (c : Z) : bool := (e_base e <=? c) && (c <? e_base e + RS_N + RS_M).
Definition in_chunks (tk : tkt) (e : encop) : bool := existsb (fun '(tk', _, _) => tk_eqb tk tk') (e_chunks e).

Record RInv1 (fx : fixes) (st : state) (r : round) : Prop := {
  ri_pos : 0 < rd_op r;
  ri_nowop : forall w, In w (s_wops st) -> wo_op w <> rd_op r;
  ri_exp : forall pe, In pe (s_pool st) -> p_owner pe = rd_op r -> expects fx r (p_rpc pe);
  ri_stat : forall tk, (cnt (is_stat_for (rd_op r) tk) (s_pool st) <= 1)%nat;
  ri_alloc : (cnt (is_alloc_for (rd_op r)) (s_pool st) <= 1)%nat;
  ri_cnt : forall e, In e (rd_encs r) -> Z.of_nat (cnt (att_to r e) (s_pool st)) <= bound e;
  ri_slots : forall e, In e (rd_encs r) -> e_stage e = 4 -> slots_ok fx st r e;
  ri_bumped : forall e, In e (rd_encs r) -> e_stage e = 5 -> all_bumped fx st r e;
  ri_wfc : forall e1 e2 c, In e1 (rd_encs r) -> In e2 (rd_encs r) -> in_range e1 c = true -> in_range e2 c = true -> e_base e1 = e_base e2;
  ri_wft : forall e1 e2 tk, In e1 (rd_encs r) -> In e2 (rd_encs r) -> in_chunks tk e1 = true -> in_chunks tk e2 = true -> e_base e1 = e_base e2;
  ri_nodupb : NoDup (map e_base (rd_encs r));
  ri_w1 : forall e, In e (rd_encs r) -> e_stage e = 3 \/ e_stage e = 5 -> e_wait e = 1;
  ri_hosts : forall e, In e (rd_encs r) -> e_hosts e = [] -> e_stage e = 9
}.

Record RInv (fx : fixes) (st : state) : Prop := {
  rv_next : 0 < s_next st;
  rv_ids : forall pe, In pe (s_pool st) -> 0 < p_id pe < s_next st;
  rv_nodup : NoDup (map p_id (s_pool st));
  rv_nfix : 0 <= s_nfix st;
  rv_fixid : forall f, In f (s_fix st) -> f_id f < 0;
  rv_fixrpc : forall f, In f (s_fix st) -> f_rpc f < s_next st /\
                forall pe, In pe (s_pool st) -> p_id pe = f_rpc f -> k_kind (p_rpc pe) = K_FixVersion;
  rv_rounds : forall r, In r (s_rounds st) -> RInv1 fx st r
}.

Definition pR (st : state) := (s_pool st, s_next st, s_rounds st, s_wops st, s_fix st, s_nfix st).

Lemma RInv1_pR fx st st' r : pR st' = pR st -> (forall h tk nv, bumped st h tk nv -> bumped st' h tk nv) ->
  RInv1 fx st r -> RInv1 fx st' r.
Proof.
  unfold pR. intros H Hb [A B C D E F G I J K L M N0]. injection H as H1 H2 H3 H4 H5 H6.
  constructor; rewrite ?H1, ?H4; try assumption.
  - intros e He S tk h s nv Hin. destruct (G e He S tk h s nv Hin) as [G1 G2]. split; [rewrite H1; exact G1|].
    intros Z0. apply Hb. exact (G2 Z0).
  - intros e He S tk h s nv Hin. apply Hb. exact (I e He S tk h s nv Hin).
Qed.

Lemma RInv_pR fx st st' : pR st' = pR st -> (forall h tk nv, bumped st h tk nv -> bumped st' h tk nv) ->
  RInv fx st -> RInv fx st'.
Proof.
  intros H Hb [A0 A B C D E F]. pose proof H as H0. unfold pR in H0. injection H0 as H1 H2 H3 H4 H5 H6.
  constructor; rewrite ?H1, ?H2, ?H3, ?H5, ?H6; try assumption.
  intros r Hr. eapply RInv1_pR; eauto.
Qed.

Lemma bumped_same st st' : s_reps st' = s_reps st -> forall h tk nv, bumped st h tk nv -> bumped st' h tk nv.
Proof. intros H h tk nv [rep K]. exists rep. rewrite H. exact K. Qed.

Lemma bumped_srel st st' : srel st st' -> forall h tk nv, bumped st h tk nv -> bumped st' h tk nv.
Proof.
  intros S h tk nv [rep [K1 K2]]. destruct (S h tk rep K1) as [r' [G1 [G2 _]]]. exists r'. split; [exact G1|lia].
Qed.

(* ------------------------------------------------------------------ counting *)
Lemma cnt_app f a b : cnt f (a ++ b) = (cnt f a + cnt f b)%nat.
Proof. unfold cnt. rewrite filter_app, app_length. reflexivity. Qed.

Lemma filter_and {A} (f g : A -> bool) l : filter (fun x => f x && g x) l = filter g (filter f l).
Proof. induction l as [|x l IH]; cbn; [reflexivity|]. destruct (f x); cbn; [destruct (g x); rewrite IH; reflexivity|exact IH]. Qed.

Lemma in_pool_remove pool id x : In x (pool_remove pool id) <-> In x pool /\ p_id x <> id.
Proof.
  unfold pool_remove. rewrite filter_In. split; intros [H1 H2]; split; auto.
  - apply negb_true_iff, Z.eqb_neq in H2. exact H2.
  - apply negb_true_iff, Z.eqb_neq. exact H2.
Qed.

Lemma cnt_remove_le f pool id : (cnt f (pool_remove pool id) <= cnt f pool)%nat.
Proof.
  unfold cnt, pool_remove. induction pool as [|x l IH]; cbn; [lia|].
  destruct (negb (p_id x =? id)); cbn; destruct (f x); cbn; lia.
Qed.

Lemma cnt_remove_lt f pool pe : In pe pool -> f pe = true -> (S (cnt f (pool_remove pool (p_id pe))) <= cnt f pool)%nat.
Proof.
  unfold cnt, pool_remove. induction pool as [|x l IH]; cbn; [intros []|].
  intros [->|Hin] Hf.
  - rewrite Z.eqb_refl. cbn. rewrite Hf. cbn. pose proof (cnt_remove_le f l (p_id pe)). unfold cnt, pool_remove in H. lia.
  - specialize (IH Hin Hf). destruct (negb (p_id x =? p_id pe)); cbn; destruct (f x); cbn; lia.
Qed.

Lemma nodup_id_eq (pool : list pent) x y : NoDup (map p_id pool) -> In x pool -> In y pool -> p_id x = p_id y -> x = y.
Proof.
  induction pool as [|z l IH]; cbn; [intros _ []|].
  intros N Hx Hy E. inversion N as [|? ? N1 N2]; subst.
  destruct Hx as [->|Hx], Hy as [->|Hy]; auto.
  - exfalso. apply N1. rewrite E. apply in_map. exact Hy.
  - exfalso. apply N1. rewrite <- E. apply in_map. exact Hx.
Qed.

Lemma nodup_map_filter {A B} (g : A -> B) f (l : list A) : NoDup (map g l) -> NoDup (map g (filter f l)).
Proof.
  induction l as [|x l IH]; cbn; [auto|]. intros N. inversion N as [|? ? N1 N2]; subst.
  destruct (f x); cbn; [constructor; [|auto]|auto].
  intros H. apply N1. apply in_map_iff in H. destruct H as [y [E Hy]]. apply filter_In in Hy. rewrite <- E. apply in_map. tauto.
Qed.

(* RInv1 looks at the pool only through the entries the round owns *)
Lemma RInv1_pool fx st st' r :
  filter (owned (rd_op r)) (s_pool st') = filter (owned (rd_op r)) (s_pool st) ->
  (forall w, In w (s_wops st') -> exists w0, In w0 (s_wops st) /\ wo_op w = wo_op w0) ->
  (forall h tk nv, bumped st h tk nv -> bumped st' h tk nv) ->
  RInv1 fx st r -> RInv1 fx st' r.
Proof.
  intros HF HW Hb [A B C D E F G I J K L M N0].
  assert (Own: forall pe, p_owner pe = rd_op r -> (In pe (s_pool st') <-> In pe (s_pool st))).
  { intros pe O. assert (O': owned (rd_op r) pe = true) by (unfold owned; apply Z.eqb_eq; exact O).
    split; intros H.
    - assert (H1: In pe (filter (owned (rd_op r)) (s_pool st'))) by (apply filter_In; auto). rewrite HF in H1. apply filter_In in H1. tauto.
    - assert (H1: In pe (filter (owned (rd_op r)) (s_pool st))) by (apply filter_In; auto). rewrite <- HF in H1. apply filter_In in H1. tauto. }
  assert (Cn: forall g, cnt (fun pe => owned (rd_op r) pe && g pe) (s_pool st') = cnt (fun pe => owned (rd_op r) pe && g pe) (s_pool st)).
  { intros g. unfold cnt. rewrite !filter_and, HF. reflexivity. }
  constructor; try assumption.
  - intros w Hw. destruct (HW w Hw) as [w0 [H0 E0]]. rewrite E0. apply B. exact H0.
  - intros pe Hin O. apply C; [apply Own; assumption|exact O].
  - intros tk. unfold is_stat_for.
    rewrite (Cn (fun pe => kind_is K_CtlStat pe && tk_eqb (rpc_tk (p_rpc pe)) tk)) || (
    replace (cnt (fun pe => owned (rd_op r) pe && kind_is K_CtlStat pe && tk_eqb (rpc_tk (p_rpc pe)) tk) (s_pool st'))
      with (cnt (fun pe => owned (rd_op r) pe && (kind_is K_CtlStat pe && tk_eqb (rpc_tk (p_rpc pe)) tk)) (s_pool st'))
      by (unfold cnt; f_equal; apply filter_ext; intros; rewrite andb_assoc; reflexivity);
    rewrite Cn).
    specialize (D tk). unfold is_stat_for in D.
    replace (cnt (fun pe => owned (rd_op r) pe && (kind_is K_CtlStat pe && tk_eqb (rpc_tk (p_rpc pe)) tk)) (s_pool st))
      with (cnt (fun pe => owned (rd_op r) pe && kind_is K_CtlStat pe && tk_eqb (rpc_tk (p_rpc pe)) tk) (s_pool st))
      by (unfold cnt; f_equal; apply filter_ext; intros; rewrite andb_assoc; reflexivity).
    exact D.
  - unfold is_alloc_for. rewrite Cn. exact E.
  - intros e He. unfold att_to. rewrite Cn. apply F. exact He.
  - intros e He S tk h s nv Hin. destruct (G e He S tk h s nv Hin) as [G1 G2]. split.
    + intros Z0. destruct (G1 Z0) as [pe [P1 [P2 P3]]]. exists pe. split; [apply Own; assumption|auto].
    + intros Z0. apply Hb. exact (G2 Z0).
  - intros e He S tk h s nv Hin. apply Hb. exact (I e He S tk h s nv Hin).
Qed.

(* ------------------------------------------------------------------ operations of clients and fixVersion tasks *)
Definition not_round_op (st : state) (o : Z) : Prop := forall r, In r (s_rounds st) -> rd_op r <> o.

Lemma filter_owned_issue st rp o op : op <> o ->
  filter (owned op) (s_pool (issue st rp o)) = filter (owned op) (s_pool st).
Proof.
  intros H. unfold issue. cbn [s_pool set_pool]. rewrite filter_app. cbn. unfold owned at 2. cbn [p_owner].
  replace (o =? op) with false by (symmetry; apply Z.eqb_neq; congruence). apply app_nil_r.
Qed.

Lemma NoDup_snoc {A} (l : list A) x : NoDup l -> ~ In x l -> NoDup (l ++ [x]).
Proof.
  induction l as [|y l IH]; cbn; intros N H; [constructor; [intros []|constructor]|].
  inversion N as [|? ? N1 N2]; subst. constructor.
  - intros K. apply in_app_or in K. destruct K as [K|[K|[]]]; [contradiction|subst; apply H; left; reflexivity].
  - apply IH; [exact N2|intros K; apply H; right; exact K].
Qed.

Lemma RInv_issue_other fx st rp o : RInv fx st -> not_round_op st o -> RInv fx (issue st rp o).
Proof.
  intros [A0 A B C D E F] Ho. constructor; cbn [s_pool s_next s_nfix s_fix s_rounds issue set_pool]; try assumption.
  - lia.
  - intros pe Hin. apply in_app_or in Hin. destruct Hin as [Hin|[<-|[]]]; [specialize (A pe Hin); lia|cbn; lia].
  - rewrite map_app. cbn. apply NoDup_snoc; [exact B|].
    intros K. apply in_map_iff in K. destruct K as [x [E1 Hx]]. specialize (A x Hx). lia.
  - intros f Hf. destruct (E f Hf) as [E1 E2]. split; [lia|]. intros pe Hin Hid.
    apply in_app_or in Hin. destruct Hin as [Hin|[<-|[]]]; [exact (E2 pe Hin Hid)|]. cbn in Hid. lia.
  - intros r Hr. apply (RInv1_pool fx st); [apply filter_owned_issue; apply Ho; exact Hr|intros w Hw; exists w; auto|apply bumped_same; reflexivity|exact (F r Hr)].
Qed.

Lemma filter_owned_remove op pool id : (forall x, In x pool -> p_id x = id -> owned op x = false) ->
  filter (owned op) (pool_remove pool id) = filter (owned op) pool.
Proof.
  unfold pool_remove. induction pool as [|x l IH]; intros H; cbn; [reflexivity|].
  destruct (p_id x =? id) eqn:E; cbn.
  - apply Z.eqb_eq in E. rewrite (H x (or_introl eq_refl) E). apply IH. intros y Hy. apply H. right. exact Hy.
  - destruct (owned op x); [f_equal|]; apply IH; intros y Hy; apply H; right; exact Hy.
Qed.

Lemma RInv_remove_other fx st id :
  RInv fx st -> (forall x r, In x (s_pool st) -> p_id x = id -> In r (s_rounds st) -> p_owner x <> rd_op r) ->
  RInv fx (set_pool st (pool_remove (s_pool st) id) (s_next st)).
Proof.
  intros [A0 A B C D E F] Ho. constructor; cbn [s_pool s_next s_nfix s_fix s_rounds set_pool]; try assumption.
  - intros pe Hin. apply in_pool_remove in Hin. apply A. tauto.
  - unfold pool_remove. apply nodup_map_filter. exact B.
  - intros f Hf. destruct (E f Hf) as [E1 E2]. split; [exact E1|]. intros pe Hin. apply in_pool_remove in Hin. apply E2. tauto.
  - intros r Hr. apply (RInv1_pool fx st); [|intros w Hw; exists w; auto|apply bumped_same; reflexivity|exact (F r Hr)].
    cbn [s_pool set_pool]. apply filter_owned_remove. intros x Hx Hid. unfold owned. apply Z.eqb_neq. exact (Ho x r Hx Hid Hr).
Qed.

Lemma expects_not_fixversion fx r rp : expects fx r rp -> k_kind rp <> K_FixVersion.
Proof.
  unfold expects. intros [[K _]|[[K _]|[_ [e [_ [K _]]]]]]; rewrite K; try (vm_compute; discriminate).
  unfold stage_kind. repeat match goal with |- context [if ?b then _ else _] => destruct b end; vm_compute; discriminate.
Qed.

Lemma RInv_set_wops fx st l : RInv fx st ->
  (forall w, In w l -> exists w0, In w0 (s_wops st) /\ wo_op w = wo_op w0) -> RInv fx (set_wops st l).
Proof.
  intros [A0 A B C D E F] H. constructor; cbn [s_pool s_next s_nfix s_fix s_rounds set_wops set_cli]; try assumption.
  intros r Hr. apply (RInv1_pool fx st); [reflexivity|exact H|apply bumped_same; reflexivity|exact (F r Hr)].
Qed.

Lemma RInv_upd_wop fx st w' : RInv fx st -> (exists w0, In w0 (s_wops st) /\ wo_op w' = wo_op w0) ->
  RInv fx (set_wops st (upd_wop (s_wops st) w')).
Proof.
  intros HI H. apply RInv_set_wops; [exact HI|]. intros w Hw. apply in_upd_wop in Hw. destruct Hw as [Hw|Hw]; [exists w; auto|subst; exact H].
Qed.
Lemma RInv_del_wop fx st op : RInv fx st -> RInv fx (set_wops st (del_wop (s_wops st) op)).
Proof. intros HI. apply RInv_set_wops; [exact HI|]. intros w Hw. apply in_del_wop in Hw. exists w. auto. Qed.

Lemma RInv_same fx st st' : pR st' = pR st -> s_reps st' = s_reps st -> RInv fx st -> RInv fx st'.
Proof. intros H1 H2. apply RInv_pR; [exact H1|apply bumped_same; exact H2]. Qed.

Lemma RInv_finish_w fx st w n err : RInv fx st -> RInv fx (finish_w st w n err).
Proof.
  intros HI. unfold finish_w.
  assert (B: RInv fx (add_fin (set_wops st (del_wop (s_wops st) (wo_op w))) (wo_op w) n err)).
  { eapply RInv_same; [| |apply (RInv_del_wop fx st (wo_op w) HI)]; reflexivity. }
  destruct (_ && _); [|exact B]. destruct (_ && _); (eapply RInv_same; [| |exact B]; reflexivity).
Qed.

(* the operation id of a client write in progress is not a round's *)
Lemma wop_not_round fx st w : RInv fx st -> In w (s_wops st) -> not_round_op st (wo_op w).
Proof. intros HI Hw r Hr E. exact (ri_nowop _ _ _ (rv_rounds _ _ HI r Hr) w Hw (eq_sym E)). Qed.

(* ------------------------------------------------------------------ client *)
Definition known_wop (st : state) (w : wop) : Prop := exists w0, In w0 (s_wops st) /\ wo_op w = wo_op w0.

Lemma known_not_round fx st w : RInv fx st -> known_wop st w -> not_round_op st (wo_op w).
Proof. intros HI [w0 [H0 E]]. rewrite E. eapply wop_not_round; eauto. Qed.

Lemma not_round_op_same st st' o : s_rounds st' = s_rounds st -> not_round_op st o -> not_round_op st' o.
Proof. unfold not_round_op. intros H. rewrite H. auto. Qed.

Lemma RInv_fold_issue_other {A} fx (l : list A) (g : A -> rpc) o : forall st,
  not_round_op st o -> RInv fx st -> RInv fx (fold_left (fun s x => issue s (g x) o) l st).
Proof.
  induction l; intros st Ho H; cbn; [exact H|]. apply IHl; [eapply not_round_op_same; [|exact Ho]; reflexivity|].
  apply RInv_issue_other; auto.
Qed.

Lemma RInv_fold_issue_w fx w v (hs : list (Z * Z)) : forall st,
  not_round_op st (wo_op w) -> RInv fx st ->
  RInv fx (fold_left (fun s '(h, _) => issue s (mk_write w h v) (wo_op w)) hs st).
Proof.
  induction hs as [|[h k] hs IH]; intros st Ho H; cbn [fold_left]; [exact H|].
  apply IH; [eapply not_round_op_same; [|exact Ho]; reflexivity|]. apply RInv_issue_other; auto.
Qed.

Lemma RInv_w_after_entry fx st w e cached : RInv fx st -> known_wop st w -> RInv fx (w_after_entry fx st w e cached).
Proof.
  intros HI Hw. unfold w_after_entry.
  destruct (fx14 fx && _); [apply RInv_finish_w; exact HI|].
  destruct (existsb _ _); [apply RInv_finish_w; exact HI|].
  destruct (ce_hosts e) as [|h hs] eqn:Eh; [apply RInv_finish_w; exact HI|].
  pose proof (known_not_round fx st w HI Hw) as Ho.
  apply RInv_fold_issue_w; [eapply not_round_op_same; [|exact Ho]; reflexivity|].
  apply RInv_upd_wop; assumption.
Qed.

Lemma RInv_w_get fx st w : RInv fx st -> known_wop st w -> RInv fx (w_get fx st w).
Proof.
  intros HI Hw. unfold w_get. pose proof (known_not_round fx st w HI Hw) as Ho.
  destruct (if use_cache st (wo_cli w) then _ else None).
  - apply RInv_w_after_entry; assumption.
  - apply RInv_issue_other; [apply RInv_upd_wop; assumption|eapply not_round_op_same; [|exact Ho]; reflexivity].
Qed.

Lemma known_wop_w_set st w a b c d e f : known_wop st w -> known_wop st (w_set w a b c d e f).
Proof. intros H. exact H. Qed.

Lemma RInv_set_cache fx st c : RInv fx st -> RInv fx (set_cache st c).
Proof. intros H. eapply RInv_same; [| |exact H]; reflexivity. Qed.

Lemma known_upd st x w' : known_wop st x -> known_wop (set_wops st (upd_wop (s_wops st) w')) x.
Proof.
  intros [w0 [H0 E]]. cbn [s_wops set_wops set_cli]. unfold upd_wop.
  destruct (wo_op w0 =? wo_op w') eqn:K.
  - exists w'. split; [|apply Z.eqb_eq in K; congruence].
    apply in_map_iff. exists w0. rewrite K. auto.
  - exists w0. split; [|exact E]. apply in_map_iff. exists w0. rewrite K. auto.
Qed.
Lemma known_cache st x c : known_wop st x -> known_wop (set_cache st c) x.
Proof. intros H. exact H. Qed.

Lemma RInv_cli_reply fx st op r res en : RInv fx st -> RInv fx (cli_reply fx st op r res en).
Proof.
  intros HI. unfold cli_reply.
  destruct (find_wop (s_wops st) op) as [w|] eqn:Fw; [|exact HI].
  apply find_wop_in in Fw. destruct Fw as [Hin _].
  assert (Hw: known_wop st w) by (exists w; auto).
  pose proof (known_not_round fx st w HI Hw) as Ho.
  assert (IS: forall s rp, RInv fx s -> s_rounds s = s_rounds st -> RInv fx (issue s rp (wo_op w))).
  { intros s rp Hs Rs. apply RInv_issue_other; [exact Hs|]. eapply not_round_op_same; [|exact Ho]. exact Rs. }
  destruct (k_kind r =? K_StatBlob).
  { destruct (negb (wo_phase w =? 1)); [exact HI|].
    destruct (negb (hd cl_ErrRPC res =? cl_NoError)).
    - destruct (wo_retry w); [|apply RInv_finish_w; exact HI].
      apply IS; [|reflexivity]. apply RInv_upd_wop; assumption.
    - destruct (negb _); [apply RInv_finish_w; exact HI|].
      destruct (_ <=? _); [apply RInv_finish_w; exact HI|apply RInv_w_get; assumption]. }
  destruct (k_kind r =? K_GetTracts).
  { destruct (negb _); [exact HI|].
    destruct (negb (hd cl_ErrRPC res =? cl_NoError)); [apply RInv_finish_w; exact HI|].
    destruct en as [e|]; [|apply RInv_finish_w; exact HI].
    destruct (use_cache st (wo_cli w)).
    - apply RInv_w_after_entry; [apply RInv_set_cache; exact HI|exact Hw].
    - apply RInv_w_after_entry; assumption. }
  destruct (k_kind r =? K_Write).
  { destruct (negb (wo_phase w =? 3)); [exact HI|].
    set (res' := map _ (wo_res w)).
    set (w' := w_set w 3 (wo_cached w) (wo_retry w) (wo_entry w) res' 0).
    assert (HI1: RInv fx (set_wops st (upd_wop (s_wops st) w'))) by (apply RInv_upd_wop; assumption).
    destruct (existsb _ res'); [exact HI1|].
    destruct (first_bad res') as [[h e]|]; [|apply RInv_finish_w; exact HI1].
    destruct (wo_cached w).
    - apply IS; [|reflexivity]. apply RInv_upd_wop; [apply RInv_set_cache; exact HI1|].
      apply known_cache. apply known_upd. exact Hw.
    - assert (K1: known_wop (set_wops st (upd_wop (s_wops st) w')) w) by (apply known_upd; exact Hw).
      destruct (e =? cl_ErrRPC); [apply IS; [apply RInv_upd_wop; [exact HI1|exact K1]|reflexivity]|].
      destruct (e =? cl_ErrVersionMismatch); [apply IS; [apply RInv_upd_wop; [exact HI1|exact K1]|reflexivity]|apply RInv_finish_w; exact HI1]. }
  destruct (negb (wo_phase w =? 4)); [exact HI|apply RInv_finish_w; exact HI].
Qed.

(* ------------------------------------------------------------------ fixVersion *)
Definition fixrpc_ok (st : state) (f : ftask) : Prop :=
  f_id f < 0 /\ f_rpc f < s_next st /\ forall pe, In pe (s_pool st) -> p_id pe = f_rpc f -> k_kind (p_rpc pe) = K_FixVersion.

Lemma fixrpc_ok_in fx st f : RInv fx st -> In f (s_fix st) -> fixrpc_ok st f.
Proof. intros HI Hf. split; [exact (rv_fixid _ _ HI f Hf)|exact (rv_fixrpc _ _ HI f Hf)]. Qed.

Lemma RInv_set_fix fx st l n : RInv fx st -> 0 <= n -> (forall f, In f l -> fixrpc_ok st f) -> RInv fx (set_fix st l n).
Proof.
  intros [A0 A B C D E F] Hn H. constructor; cbn [s_pool s_next s_nfix s_fix s_rounds set_fix]; try assumption.
  - intros f Hf. exact (proj1 (H f Hf)).
  - intros f Hf. exact (proj2 (H f Hf)).
  - intros r Hr. apply (RInv1_pool fx st); [reflexivity|intros w Hw; exists w; auto|apply bumped_same; reflexivity|exact (F r Hr)].
Qed.

Lemma neg_not_round fx st o : RInv fx st -> o < 0 -> not_round_op st o.
Proof. intros HI Ho r Hr E. pose proof (ri_pos _ _ _ (rv_rounds _ _ HI r Hr)). lia. Qed.

Lemma RInv_finish_fix fx st f e : RInv fx st -> fixrpc_ok st f -> RInv fx (finish_fix fx st f e).
Proof.
  intros HI [F1 [F2 F3]]. unfold finish_fix.
  assert (B: RInv fx (set_fixes st (del_fix (s_fix st) (f_id f)))).
  { apply RInv_set_fix; [exact HI|exact (rv_nfix _ _ HI)|]. intros x Hx. apply in_del_fix in Hx. eapply fixrpc_ok_in; eauto. }
  destruct (f_rpc f =? 0); [exact B|].
  destruct (find _ _) as [pe|] eqn:Fp; [|exact B].
  apply find_some in Fp. destruct Fp as [Pin Pid]. apply Z.eqb_eq in Pid. cbn [s_pool set_fixes set_fix] in Pin.
  apply RInv_cli_reply.
  apply (RInv_remove_other fx (set_fixes st (del_fix (s_fix st) (f_id f))) (p_id pe) B).
  intros x r Hx Hid Hr O. cbn [s_pool set_fixes set_fix s_rounds] in *.
  assert (K: k_kind (p_rpc x) = K_FixVersion) by (apply F3; [exact Hx|congruence]).
  exact (expects_not_fixversion fx r _ (ri_exp _ _ _ (rv_rounds _ _ HI r Hr) x Hx O) K).
Qed.

Lemma fixrpc_ok_same st st' f : s_pool st' = s_pool st -> s_next st' = s_next st -> fixrpc_ok st f -> fixrpc_ok st' f.
Proof. unfold fixrpc_ok. intros H1 H2. rewrite H1, H2. auto. Qed.

Lemma RInv_activate_fix fx st f : RInv fx st -> In f (s_fix st) -> RInv fx (activate_fix fx st f).
Proof.
  intros HI Hf. pose proof (fixrpc_ok_in fx st f HI Hf) as Fk. unfold activate_fix.
  destruct (dget st (f_tk f)) as [d|]; [|apply RInv_finish_fix; assumption].
  destruct (d_rs d); [apply RInv_finish_fix; assumption|].
  repeat match goal with |- context [if ?b then _ else _] => destruct b end; try (apply RInv_finish_fix; assumption).
  match goal with |- RInv fx (fold_left _ _ ?s0) => assert (B: RInv fx s0) end.
  { apply RInv_set_fix; [exact HI|exact (rv_nfix _ _ HI)|]. intros x Hx. apply in_upd_fix in Hx.
    destruct Hx as [Hx|Hx]; [eapply fixrpc_ok_in; eauto|subst x; exact Fk]. }
  apply (RInv_fold_issue_other fx (d_hosts d) (fun h => mk_setversion (f_gen f) h (f_tk f) (d_ver d + 1) None) (f_id f)); [|exact B].
  eapply neg_not_round; [exact B|exact (proj1 Fk)].
Qed.

Lemma RInv_wake fx n : forall st, RInv fx st -> RInv fx (wake fx n st).
Proof.
  induction n; intros st HI; cbn [wake]; [exact HI|].
  destruct (find _ _) as [f|] eqn:Ff; [|exact HI]. apply IHn. apply RInv_activate_fix; [exact HI|].
  apply find_some in Ff. tauto.
Qed.

Lemma RInv_start_fix fx st g tk c b rid : RInv fx st ->
  (rid < s_next st /\ forall pe, In pe (s_pool st) -> p_id pe = rid -> k_kind (p_rpc pe) = K_FixVersion) ->
  RInv fx (start_fix fx st g tk c b rid).
Proof.
  intros HI Hr. unfold start_fix.
  set (f := {| f_id := - (s_nfix st + 1); f_gen := g; f_term := s_term st; f_tk := tk; f_phase := 0; f_cliver := c;
               f_badts := b; f_dv := 0; f_hosts := []; f_wait := 0; f_rpc := rid |}).
  pose proof (rv_nfix _ _ HI) as Hn.
  assert (Fk: fixrpc_ok st f) by (split; [cbn; lia|exact Hr]).
  assert (B: RInv fx (set_fix st (s_fix st ++ [f]) (s_nfix st + 1))).
  { apply RInv_set_fix; [exact HI|lia|]. intros x Hx. apply in_app_or in Hx.
    destruct Hx as [Hx|[Hx|[]]]; [eapply fixrpc_ok_in; eauto|subst x; exact Fk]. }
  destruct (negb _); apply RInv_wake; [|exact B].
  apply RInv_finish_fix; [exact B|]. eapply fixrpc_ok_same; [| |exact Fk]; reflexivity.
Qed.

Lemma RInv_fix_reply fx st id err : RInv fx st -> RInv fx (fix_reply fx st id err).
Proof.
  intros HI. unfold fix_reply. destruct (find_fix _ _) as [f|] eqn:Ff; [|exact HI].
  pose proof (find_fix_in _ _ _ Ff) as Fin. pose proof (fixrpc_ok_in fx st f HI Fin) as Fk.
  destruct (negb _); [apply RInv_wake; apply RInv_finish_fix; assumption|].
  destruct (1 <? f_wait f).
  { apply RInv_set_fix; [exact HI|exact (rv_nfix _ _ HI)|]. intros x Hx. apply in_upd_fix in Hx.
    destruct Hx as [Hx|Hx]; [eapply fixrpc_ok_in; eauto|subst x; exact Fk]. }
  pose proof (fr_change_tract _ pR) as Q. specialize (Q ltac:(fr) st (f_term f) (f_tk f) (f_dv f + 1) (f_hosts f)).
  pose proof (fr_change_tract _ s_reps) as Q2. specialize (Q2 ltac:(fr) st (f_term f) (f_tk f) (f_dv f + 1) (f_hosts f)).
  destruct (change_tract _ _ _ _ _) as [st1 e]. cbn [fst] in *.
  apply RInv_wake. apply RInv_finish_fix; [eapply RInv_same; eauto|].
  unfold pR in Q. injection Q as Q1 Q3 _ _ _ _. eapply fixrpc_ok_same; eauto.
Qed.

(* ------------------------------------------------------------------ encode operations: structure *)
Definition same_shape (e e' : encop) : Prop := e_base e' = e_base e /\ e_chunks e' = e_chunks e /\ e_hosts e' = e_hosts e.
Lemma same_shape_e_set e a b c : same_shape e (e_set e a b c). Proof. repeat split. Qed.
Lemma same_shape_over e : same_shape e (enc_over e). Proof. repeat split. Qed.
Lemma same_shape_trans a b c : same_shape a b -> same_shape b c -> same_shape a c.
Proof. unfold same_shape. intros [? [? ?]] [? [? ?]]. repeat split; congruence. Qed.

Lemma in_range_shape e e' c : e_base e' = e_base e -> in_range e' c = in_range e c.
Proof. unfold in_range. intros ->. reflexivity. Qed.
Lemma in_chunks_shape e e' tk : e_chunks e' = e_chunks e -> in_chunks tk e' = in_chunks tk e.
Proof. unfold in_chunks. intros ->. reflexivity. Qed.

Lemma in_upd_enc l e' x : In x (upd_enc l e') ->
  (In x l /\ e_base x <> e_base e') \/ (x = e' /\ exists y, In y l /\ e_base y = e_base e').
Proof.
  unfold upd_enc. intros H. apply in_map_iff in H. destruct H as [y [E Hy]].
  destruct (e_base y =? e_base e') eqn:K.
  - right. apply Z.eqb_eq in K. split; [congruence|eauto].
  - left. apply Z.eqb_neq in K. subst x. auto.
Qed.

Lemma in_upd_enc_other l e' x : In x l -> e_base x <> e_base e' -> In x (upd_enc l e').
Proof.
  intros H K. unfold upd_enc. apply in_map_iff. exists x. split; [|exact H].
  replace (e_base x =? e_base e') with false by (symmetry; apply Z.eqb_neq; exact K). reflexivity.
Qed.
Lemma in_upd_enc_self l e e' : In e l -> e_base e = e_base e' -> In e' (upd_enc l e').
Proof.
  intros H K. unfold upd_enc. apply in_map_iff. exists e. split; [|exact H]. rewrite K, Z.eqb_refl. reflexivity.
Qed.

(* a lookup whose predicate only depends on the shape commutes with upd_enc *)
Lemma find_upd_enc (P : encop -> bool) l e' :
  (forall y, In y l -> e_base y = e_base e' -> P e' = P y) ->
  find P (upd_enc l e') = option_map (fun x => if e_base x =? e_base e' then e' else x) (find P l).
Proof.
  induction l as [|y l IH]; intros H; cbn; [reflexivity|].
  destruct (e_base y =? e_base e') eqn:K.
  - apply Z.eqb_eq in K. rewrite (H y (or_introl eq_refl) K). destruct (P y); cbn; [rewrite K, Z.eqb_refl; reflexivity|].
    apply IH. intros z Hz. apply H. right. exact Hz.
  - destruct (P y); cbn; [rewrite K; reflexivity|]. apply IH. intros z Hz. apply H. right. exact Hz.
Qed.

Lemma find_enc_chunk_upd r e e' ph dn c : In e (rd_encs r) -> e_base e' = e_base e ->
  find_enc_chunk (rd_set r ph (rd_tracts r) (upd_enc (rd_encs r) e') dn) c =
  option_map (fun x => if e_base x =? e_base e' then e' else x) (find_enc_chunk r c).
Proof.
  intros He Hb. unfold find_enc_chunk. cbn [rd_encs rd_set]. apply find_upd_enc.
  intros y Hy K. rewrite K. reflexivity.
Qed.

Lemma find_enc_chunk_in r c e : find_enc_chunk r c = Some e -> In e (rd_encs r) /\ in_range e c = true.
Proof. unfold find_enc_chunk. intros H. apply find_some in H. exact H. Qed.
Lemma find_enc_tract_in r tk e : find_enc_tract r tk = Some e -> In e (rd_encs r) /\ in_chunks tk e = true /\ e_stage e <> 9.
Proof.
  unfold find_enc_tract. intros H. apply find_some in H. destruct H as [H1 H2]. apply andb_true_iff in H2. destruct H2 as [H2 H3].
  split; [exact H1|]. split; [exact H2|]. apply negb_true_iff, Z.eqb_neq in H3. exact H3.
Qed.

Lemma nodup_base_eq (l : list encop) x y : NoDup (map e_base l) -> In x l -> In y l -> e_base x = e_base y -> x = y.
Proof.
  induction l as [|z l IH]; cbn; [intros _ []|].
  intros N Hx Hy E. inversion N as [|? ? N1 N2]; subst.
  destruct Hx as [->|Hx], Hy as [->|Hy]; auto.
  - exfalso. apply N1. rewrite E. apply in_map. exact Hy.
  - exfalso. apply N1. rewrite <- E. apply in_map. exact Hx.
Qed.

Definition tpred (tk : tkt) (x : encop) : bool := in_chunks tk x && negb (e_stage x =? 9).
Definition wf_t (l : list encop) : Prop :=
  forall e1 e2 tk, In e1 l -> In e2 l -> in_chunks tk e1 = true -> in_chunks tk e2 = true -> e_base e1 = e_base e2.

Lemma wf_t_tail x l : wf_t (x :: l) -> wf_t l.
Proof. intros H e1 e2 tk H1 H2. apply H; right; assumption. Qed.

(* lookups by tract after replacing the operation with base (e_base e) by e' of the same shape *)
Lemma find_tract_upd_other tk l e e' x : wf_t l -> In e l -> same_shape e e' ->
  find (tpred tk) l = Some x -> e_base x <> e_base e -> find (tpred tk) (upd_enc l e') = Some x.
Proof.
  intros W He [Sb [Sc Sh]] F N.
  assert (Hx: In x l /\ tpred tk x = true) by (apply find_some in F; exact F). destruct Hx as [Hx Px].
  apply andb_true_iff in Px. destruct Px as [Cx _].
  assert (NC: in_chunks tk e = false).
  { destruct (in_chunks tk e) eqn:C; [|reflexivity]. exfalso. apply N. exact (W x e tk Hx He Cx C). }
  clear He Hx. revert F. induction l as [|y l IH]; cbn; [discriminate|].
  destruct (e_base y =? e_base e') eqn:K.
  - apply Z.eqb_eq in K.
    assert (Py: tpred tk e' = false) by (unfold tpred; rewrite (in_chunks_shape e e' tk Sc), NC; reflexivity).
    rewrite Py. destruct (tpred tk y) eqn:Q.
    + intros H. injection H as <-. exfalso. apply N. congruence.
    + apply IH. eapply wf_t_tail; eauto.
  - destruct (tpred tk y); [auto|]. apply IH. eapply wf_t_tail; eauto.
Qed.

Lemma find_tract_upd_inv tk l e e' y : wf_t l -> In e l -> same_shape e e' ->
  find (tpred tk) (upd_enc l e') = Some y ->
  (e_base y <> e_base e /\ find (tpred tk) l = Some y) \/ (y = e' /\ in_chunks tk e = true /\ e_stage e' <> 9).
Proof.
  intros W He [Sb [Sc Sh]].
  assert (G: forall l0, (forall z, In z l0 -> In z l) ->
             find (tpred tk) (upd_enc l0 e') = Some y ->
             (e_base y <> e_base e /\ find (tpred tk) l0 = Some y) \/ (y = e' /\ in_chunks tk e = true /\ e_stage e' <> 9)).
  { induction l0 as [|z l0 IH]; intros Sub; cbn; [discriminate|].
    destruct (e_base z =? e_base e') eqn:K.
    - apply Z.eqb_eq in K. destruct (tpred tk e') eqn:Pe.
      + intros H. injection H as <-. right. split; [reflexivity|].
        unfold tpred in Pe. apply andb_true_iff in Pe. destruct Pe as [P1 P2]. rewrite (in_chunks_shape e e' tk Sc) in P1.
        split; [exact P1|]. apply negb_true_iff, Z.eqb_neq in P2. exact P2.
      + intros H. destruct (IH (fun z0 Hz0 => Sub z0 (or_intror Hz0)) H) as [[N F]|R]; [|right; exact R].
        left. split; [exact N|]. destruct (tpred tk z) eqn:Pz; [|exact F].
        (* z has the base of e and contains tk, y (another base) contains tk: impossible *)
        exfalso. apply N. apply find_some in F. destruct F as [Hy Py].
        unfold tpred in Py, Pz. apply andb_true_iff in Py, Pz.
        rewrite <- Sb, <- K. apply (W y z tk); [apply Sub; right; exact Hy|apply Sub; left; reflexivity|tauto|tauto].
    - destruct (tpred tk z) eqn:Pz.
      + intros H. injection H as <-. left. split; [|reflexivity]. apply Z.eqb_neq in K. congruence.
      + intros H. apply (IH (fun z0 Hz0 => Sub z0 (or_intror Hz0)) H). }
  apply G. auto.
Qed.

Lemma find_tract_upd_self tk l e e' : wf_t l -> In e l -> same_shape e e' ->
  in_chunks tk e = true -> e_stage e' <> 9 -> find (tpred tk) (upd_enc l e') = Some e'.
Proof.
  intros W He [Sb [Sc Sh]] C N9.
  assert (Pe: tpred tk e' = true).
  { unfold tpred. rewrite (in_chunks_shape e e' tk Sc), C. apply andb_true_iff. split; [reflexivity|]. apply negb_true_iff, Z.eqb_neq. exact N9. }
  assert (G: forall l0, (forall z, In z l0 -> In z l) -> In e l0 -> find (tpred tk) (upd_enc l0 e') = Some e').
  { induction l0 as [|z l0 IH]; intros Sub Hin; [destruct Hin|]. cbn.
    destruct (e_base z =? e_base e') eqn:K; [rewrite Pe; reflexivity|].
    destruct Hin as [->|Hin]; [rewrite Sb, Z.eqb_refl in K; discriminate|].
    destruct (tpred tk z) eqn:Pz; [|apply IH; [intros z0 Hz0; apply Sub; right; exact Hz0|exact Hin]].
    exfalso. apply Z.eqb_neq in K. apply K. rewrite Sb. unfold tpred in Pz. apply andb_true_iff in Pz.
    apply (W z e tk); [apply Sub; left; reflexivity|exact He|tauto|exact C]. }
  apply G; auto.
Qed.

(* ------------------------------------------------------------------ attribution after an update of one encode operation *)
Definition upd_r (r : round) (e' : encop) (dn : Z) : round := rd_set r (rd_phase r) (rd_tracts r) (upd_enc (rd_encs r) e') dn.

Lemma find_enc_tract_eq r tk : find_enc_tract r tk = find (tpred tk) (rd_encs r).
Proof. reflexivity. Qed.

Lemma att_enc_upd_base r e e' dn rp y :
  wf_t (rd_encs r) -> In e (rd_encs r) -> same_shape e e' -> e_stage e <> 9 ->
  att_enc (upd_r r e' dn) rp = Some y ->
  exists y0, att_enc r rp = Some y0 /\ e_base y0 = e_base y.
Proof.
  intros W He Sh N9 H. pose proof Sh as [Sb [Sc _]]. unfold att_enc in *.
  destruct ((k_kind rp =? K_PackTracts) || (k_kind rp =? K_RSEncode)).
  { unfold upd_r in H. rewrite (find_enc_chunk_upd r e e' _ dn _ He Sb) in H.
    destruct (find_enc_chunk r _) as [y0|]; [|discriminate]. cbn in H. injection H as <-.
    exists y0. split; [reflexivity|]. destruct (e_base y0 =? e_base e') eqn:K; [apply Z.eqb_eq in K; congruence|reflexivity]. }
  destruct (k_kind rp =? K_Commit).
  { unfold upd_r in H. rewrite (find_enc_chunk_upd r e e' _ dn _ He Sb) in H.
    destruct (find_enc_chunk r _) as [y0|]; [|discriminate]. cbn in H. injection H as <-.
    exists y0. split; [reflexivity|]. destruct (e_base y0 =? e_base e') eqn:K; [apply Z.eqb_eq in K; congruence|reflexivity]. }
  destruct (k_kind rp =? K_SetVersion); [|discriminate].
  rewrite find_enc_tract_eq in *. unfold upd_r in H. cbn [rd_encs rd_set] in H.
  destruct (find_tract_upd_inv _ _ _ _ _ W He Sh H) as [[N F]|[-> [C _]]]; [eauto|].
  assert (Pe: tpred (rpc_tk rp) e = true).
  { unfold tpred. rewrite C. apply negb_true_iff, Z.eqb_neq. exact N9. }
  destruct (find (tpred (rpc_tk rp)) (rd_encs r)) as [z|] eqn:Fz.
  - exists z. split; [reflexivity|]. apply find_some in Fz. destruct Fz as [Hz Pz]. unfold tpred in Pz. apply andb_true_iff in Pz.
    rewrite Sb. apply (W z e (rpc_tk rp)); tauto.
  - exfalso. pose proof (find_none _ _ Fz e He). congruence.
Qed.

Lemma att_to_upd_impl r e e' dn e2 e2' pe :
  wf_t (rd_encs r) -> In e (rd_encs r) -> same_shape e e' -> e_stage e <> 9 -> e_base e2' = e_base e2 ->
  att_to (upd_r r e' dn) e2 pe = true -> att_to r e2' pe = true.
Proof.
  intros W He Sh N9 Eb. unfold att_to. change (rd_op (upd_r r e' dn)) with (rd_op r).
  destruct (owned (rd_op r) pe); [|discriminate]. cbn [andb].
  destruct (att_enc (upd_r r e' dn) (p_rpc pe)) as [y|] eqn:A; [|discriminate].
  destruct (att_enc_upd_base r e e' dn _ y W He Sh N9 A) as [y0 [A0 B0]]. rewrite A0, B0, Eb. auto.
Qed.

Lemma cnt_le_impl (f g : pent -> bool) l : (forall x, In x l -> f x = true -> g x = true) -> (cnt f l <= cnt g l)%nat.
Proof.
  unfold cnt. induction l as [|x l IH]; intros H; cbn; [lia|].
  assert (IH': (length (filter f l) <= length (filter g l))%nat) by (apply IH; intros y Hy; apply H; right; exact Hy).
  destruct (f x) eqn:Fx; [rewrite (H x (or_introl eq_refl) Fx); cbn; lia|destruct (g x); cbn; lia].
Qed.

Lemma bump_list_in fx r e tk h s nv : In (tk, h, s, nv) (bump_list fx r e) -> in_chunks tk e = true.
Proof.
  unfold bump_list, in_chunks. intros H. apply in_flat_map in H. destruct H as [[[tk' o] l] [H1 H2]].
  destruct (find_ptr (rd_tracts r) tk') as [p|]; [|destruct H2].
  apply in_flat_map in H2. destruct H2 as [h' [_ H2]]. destruct (zget (pt_stamps p) h'); [|destruct H2].
  destruct H2 as [H2|[]]. injection H2 as <- _ _ _. apply existsb_exists. exists (tk', o, l). split; [exact H1|].
  apply tk_eqb_eq. reflexivity.
Qed.

Lemma bump_list_upd fx r e' dn x : bump_list fx (upd_r r e' dn) x = bump_list fx r x.
Proof. reflexivity. Qed.

Lemma att_enc_in r rp e : att_enc r rp = Some e -> In e (rd_encs r).
Proof.
  unfold att_enc. repeat match goal with |- context [if ?b then _ else _] => destruct b end; try discriminate.
  - intros H. apply find_enc_chunk_in in H. tauto.
  - intros H. apply find_enc_chunk_in in H. tauto.
  - intros H. apply find_enc_tract_in in H. tauto.
Qed.

Lemma att_enc_upd_fwd r e e' dn rp ex :
  wf_t (rd_encs r) -> NoDup (map e_base (rd_encs r)) -> In e (rd_encs r) -> same_shape e e' ->
  att_enc r rp = Some ex ->
  (e_base ex <> e_base e -> att_enc (upd_r r e' dn) rp = Some ex) /\
  (e_base ex = e_base e -> e_stage e' <> 9 -> att_enc (upd_r r e' dn) rp = Some e').
Proof.
  intros W ND He Sh H. pose proof Sh as [Sb [Sc _]]. pose proof (att_enc_in _ _ _ H) as Hex. unfold att_enc in *.
  destruct ((k_kind rp =? K_PackTracts) || (k_kind rp =? K_RSEncode)).
  { unfold upd_r. rewrite (find_enc_chunk_upd r e e' _ dn _ He Sb), H. cbn. rewrite Sb.
    split; intros K; [replace (e_base ex =? e_base e) with false by (symmetry; apply Z.eqb_neq; exact K); reflexivity|].
    rewrite K, Z.eqb_refl. reflexivity. }
  destruct (k_kind rp =? K_Commit).
  { unfold upd_r. rewrite (find_enc_chunk_upd r e e' _ dn _ He Sb), H. cbn. rewrite Sb.
    split; intros K; [replace (e_base ex =? e_base e) with false by (symmetry; apply Z.eqb_neq; exact K); reflexivity|].
    rewrite K, Z.eqb_refl. reflexivity. }
  destruct (k_kind rp =? K_SetVersion); [|discriminate].
  rewrite find_enc_tract_eq in *. unfold upd_r. cbn [rd_encs rd_set]. split; intros K.
  - exact (find_tract_upd_other _ _ e e' ex W He Sh H K).
  - intros N9. assert (ex = e) by (eapply nodup_base_eq; eauto). subst ex.
    apply find_some in H. destruct H as [_ P]. unfold tpred in P. apply andb_true_iff in P.
    apply (find_tract_upd_self _ _ e e' W He Sh); [tauto|exact N9].
Qed.

Lemma wf_t_upd l e e' : wf_t l -> In e l -> same_shape e e' -> wf_t (upd_enc l e').
Proof.
  intros W He [Sb [Sc _]] e1 e2 tk H1 H2 C1 C2.
  apply in_upd_enc in H1. apply in_upd_enc in H2.
  destruct H1 as [[H1 N1]|[-> _]], H2 as [[H2 N2]|[-> _]].
  - eapply W; eauto.
  - rewrite Sb. rewrite (in_chunks_shape e e' tk Sc) in C2. eapply W; eauto.
  - rewrite Sb. rewrite (in_chunks_shape e e' tk Sc) in C1. eapply W; eauto.
  - reflexivity.
Qed.

Lemma map_base_upd l e' : (exists y, In y l /\ e_base y = e_base e') \/ True -> map e_base (upd_enc l e') = map e_base l.
Proof.
  intros _. unfold upd_enc. rewrite map_map. apply map_ext_in. intros y _.
  destruct (e_base y =? e_base e') eqn:K; [apply Z.eqb_eq in K; congruence|reflexivity].
Qed.

(* ------------------------------------------------------------------ the generic phase-3 transition of one round *)
Definition added_ok (fx : fixes) (r r' : round) (e e' : encop) (x : pent) : Prop :=
  p_owner x = rd_op r /\ att_enc r' (p_rpc x) = Some e' /\ k_kind (p_rpc x) = stage_kind (e_stage e') /\
  (k_kind (p_rpc x) = K_SetVersion -> exists h s nv, In (rpc_tk (p_rpc x), h, s, nv) (bump_list fx r e) /\
                                                p_rpc x = mk_setversion (rd_gen r) h (rpc_tk (p_rpc x)) nv (Some s)).

Lemma bump_list_shape fx r e e' : e_chunks e' = e_chunks e -> bump_list fx r e' = bump_list fx r e.
Proof. unfold bump_list. intros ->. reflexivity. Qed.

Lemma stage_kind_not_stat s : stage_kind s <> K_CtlStat /\ stage_kind s <> K_Alloc.
Proof. unfold stage_kind. repeat match goal with |- context [if ?b then _ else _] => destruct b end; split; vm_compute; discriminate. Qed.

Lemma cnt_zero_forall f (l : list pent) : (forall x, In x l -> f x = false) -> cnt f l = 0%nat.
Proof. unfold cnt. induction l as [|x l IH]; intros H; cbn; [reflexivity|]. rewrite (H x (or_introl eq_refl)). apply IH. intros y Hy. apply H. right. exact Hy. Qed.

Lemma cnt_le_length f (l : list pent) : (cnt f l <= length l)%nat.
Proof. unfold cnt. induction l as [|x l IH]; cbn; [lia|]. destruct (f x); cbn; lia. Qed.

Section UpdEnc.
Variables (fx : fixes) (st st' : state) (r : round) (pe : pent) (e e' : encop) (dn : Z) (added : list pent).
Let r' := upd_r r e' dn.
Hypothesis ND : NoDup (map p_id (s_pool st)).
Hypothesis R1 : RInv1 fx st r.
Hypothesis Hpe : In pe (s_pool st).
Hypothesis Hown : p_owner pe = rd_op r.
Hypothesis Hph : rd_phase r = 3.
Hypothesis Hatt : att_enc r (p_rpc pe) = Some e.
Hypothesis N9 : e_stage e <> 9.
Hypothesis Sh : same_shape e e'.
Hypothesis Hwops : s_wops st' = s_wops st.
Hypothesis Hb : forall h tk nv, bumped st h tk nv -> bumped st' h tk nv.
Hypothesis Hpool : s_pool st' = pool_remove (s_pool st) (p_id pe) ++ added.
Hypothesis HA : forall x, In x added -> p_owner x <> rd_op r \/ added_ok fx r r' e e' x.
Hypothesis Hcnt : Z.of_nat (cnt (owned (rd_op r)) added) + (bound e - 1) <= bound e'.
Hypothesis Hstg : e_stage e' <> e_stage e -> bound e <= 1.

Let He : In e (rd_encs r) := att_enc_in _ _ _ Hatt.
Let W : wf_t (rd_encs r) := fun e1 e2 tk H1 H2 => ri_wft _ _ _ R1 e1 e2 tk H1 H2.

Lemma ue_old_in x : In x (pool_remove (s_pool st) (p_id pe)) -> In x (s_pool st) /\ x <> pe.
Proof. intros H. apply in_pool_remove in H. destruct H as [H1 H2]. split; [exact H1|]. intros ->. apply H2. reflexivity. Qed.

Lemma ue_rem_cnt : Z.of_nat (cnt (att_to r e) (pool_remove (s_pool st) (p_id pe))) <= bound e - 1.
Proof.
  assert (F: att_to r e pe = true).
  { unfold att_to, owned. rewrite Hown, Z.eqb_refl, Hatt, Z.eqb_refl. reflexivity. }
  pose proof (cnt_remove_lt (att_to r e) (s_pool st) pe Hpe F). pose proof (ri_cnt _ _ _ R1 e He). lia.
Qed.

(* an old entry attributed to e survives only if the stage stays *)
Lemma ue_old_stage x : In x (pool_remove (s_pool st) (p_id pe)) -> att_to r e x = true -> e_stage e' = e_stage e.
Proof.
  intros Hx Ax. destruct (Z.eq_dec (e_stage e') (e_stage e)) as [E|E]; [exact E|]. exfalso.
  pose proof (Hstg E). pose proof ue_rem_cnt.
  assert ((1 <= cnt (att_to r e) (pool_remove (s_pool st) (p_id pe)))%nat).
  { unfold cnt. assert (Hf: In x (filter (att_to r e) (pool_remove (s_pool st) (p_id pe)))) by (apply filter_In; auto).
    destruct (filter _ _); [destruct Hf|cbn; lia]. }
  lia.
Qed.

Lemma ue_exp_old x : In x (pool_remove (s_pool st) (p_id pe)) -> p_owner x = rd_op r -> expects fx r' (p_rpc x).
Proof.
  intros Hx Ox. destruct (ue_old_in x Hx) as [Hin _].
  destruct (ri_exp _ _ _ R1 x Hin Ox) as [[_ [P _]]|[[_ P]|[_ [ex [A [K S]]]]]]; try (rewrite Hph in P; discriminate).
  right. right. split; [exact Hph|].
  destruct (att_enc_upd_fwd r e e' dn _ ex W (ri_nodupb _ _ _ R1) He Sh A) as [F1 F2].
  destruct (Z.eq_dec (e_base ex) (e_base e)) as [Eb|Eb].
  - assert (ex = e) by (eapply nodup_base_eq; [exact (ri_nodupb _ _ _ R1)|exact (att_enc_in _ _ _ A)|exact He|exact Eb]). subst ex.
    assert (Ax: att_to r e x = true). { unfold att_to, owned. rewrite Ox, Z.eqb_refl, A, Z.eqb_refl. reflexivity. }
    pose proof (ue_old_stage x Hx Ax) as Es.
    exists e'. split; [apply F2; [reflexivity|rewrite Es; exact N9]|]. split; [rewrite Es; exact K|].
    intros KS. unfold r'. rewrite bump_list_upd, (bump_list_shape fx r e e' (proj1 (proj2 Sh))). exact (S KS).
  - exists ex. split; [apply F1; exact Eb|]. split; [exact K|]. intros KS. exact (S KS).
Qed.

Hypothesis Hslots : e_stage e' = 4 -> slots_ok fx st' r' e'.
Hypothesis Hbump : e_stage e' = 5 -> all_bumped fx st' r' e'.
Hypothesis Hw1 : e_stage e' = 3 \/ e_stage e' = 5 -> e_wait e' = 1.

Lemma ue_exp_all x : In x (s_pool st') -> p_owner x = rd_op r -> expects fx r' (p_rpc x).
Proof.
  rewrite Hpool. intros Hx Ox. apply in_app_or in Hx. destruct Hx as [Hx|Hx]; [apply ue_exp_old; assumption|].
  destruct (HA x Hx) as [NO|[_ [A [K S]]]]; [contradiction|]. right. right. split; [exact Hph|]. exists e'. split; [exact A|]. split; [exact K|].
  intros KS. unfold r'. rewrite bump_list_upd, (bump_list_shape fx r e e' (proj1 (proj2 Sh))). exact (S KS).
Qed.

Lemma ue_no_kind k : k = K_CtlStat \/ k = K_Alloc ->
  forall x, In x (s_pool st') -> (owned (rd_op r) x && kind_is k x) = false.
Proof.
  intros Hk x Hx. destruct (owned (rd_op r) x) eqn:O; [|reflexivity]. cbn. unfold owned in O. apply Z.eqb_eq in O.
  destruct (ue_exp_all x Hx O) as [[_ [P _]]|[[_ P]|[_ [ex [_ [K _]]]]]]; try (unfold r' in P; cbn in P; rewrite Hph in P; discriminate).
  unfold kind_is. apply Z.eqb_neq. rewrite K. destruct (stage_kind_not_stat (e_stage ex)). destruct Hk; subst k; assumption.
Qed.

Lemma ue_orig e2 : In e2 (rd_encs r') -> exists e0, In e0 (rd_encs r) /\ e_base e0 = e_base e2 /\ e_chunks e0 = e_chunks e2 /\ (e_base e2 <> e_base e' -> e0 = e2) /\ (e_base e2 = e_base e' -> e2 = e').
Proof.
  unfold r', upd_r. cbn [rd_encs rd_set]. intros H. apply in_upd_enc in H. destruct Sh as [Sb [Sc _]].
  destruct H as [[H N]|[-> _]].
  - exists e2. repeat split; auto. intros K. contradiction.
  - exists e. repeat split; auto. intros K. contradiction.
Qed.

Lemma ue_main : RInv1 fx st' r'.
Proof.
  pose proof Sh as [Sb [Sc _]].
  constructor.
  - exact (ri_pos _ _ _ R1).
  - rewrite Hwops. exact (ri_nowop _ _ _ R1).
  - exact ue_exp_all.
  - intros tk. rewrite (cnt_zero_forall (is_stat_for (rd_op r') tk)); [lia|].
    intros x Hx. unfold is_stat_for. change (rd_op r') with (rd_op r). rewrite (ue_no_kind K_CtlStat (or_introl eq_refl) x Hx). reflexivity.
  - rewrite (cnt_zero_forall (is_alloc_for (rd_op r'))); [lia|].
    intros x Hx. unfold is_alloc_for. change (rd_op r') with (rd_op r). apply (ue_no_kind K_Alloc (or_intror eq_refl) x Hx).
  - intros e2 H2. destruct (ue_orig e2 H2) as [e0 [H0 [B0 [_ [O1 O2]]]]]. rewrite Hpool, cnt_app, Nat2Z.inj_add.
    assert (Old: (cnt (att_to r' e2) (pool_remove (s_pool st) (p_id pe)) <= cnt (att_to r e0) (pool_remove (s_pool st) (p_id pe)))%nat).
    { apply cnt_le_impl. intros x _ Ax. exact (att_to_upd_impl r e e' dn e2 e0 x W He Sh N9 B0 Ax). }
    destruct (Z.eq_dec (e_base e2) (e_base e')) as [Eb|Eb].
    + rewrite (O2 Eb) in *. assert (e0 = e) by (eapply nodup_base_eq; [exact (ri_nodupb _ _ _ R1)|exact H0|exact He|congruence]). subst e0.
      pose proof ue_rem_cnt.
      assert ((cnt (att_to r' e') added <= cnt (owned (rd_op r)) added)%nat).
      { apply cnt_le_impl. intros x _ Ax. unfold att_to in Ax. apply andb_true_iff in Ax. exact (proj1 Ax). }
      lia.
    + rewrite (O1 Eb) in *.
      rewrite (cnt_zero_forall (att_to r' e2) added).
      * pose proof (cnt_remove_le (att_to r e2) (s_pool st) (p_id pe)). pose proof (ri_cnt _ _ _ R1 e2 H0). lia.
      * intros x Hx. unfold att_to. change (rd_op r') with (rd_op r). destruct (HA x Hx) as [NO|[_ [A _]]].
        -- unfold owned. replace (p_owner x =? rd_op r) with false by (symmetry; apply Z.eqb_neq; exact NO). reflexivity.
        -- rewrite A. replace (e_base e' =? e_base e2) with false by (symmetry; apply Z.eqb_neq; congruence). apply andb_false_r.
  - intros e2 H2 S4. destruct (ue_orig e2 H2) as [e0 [H0 [B0 [_ [O1 O2]]]]].
    destruct (Z.eq_dec (e_base e2) (e_base e')) as [Eb|Eb]; [rewrite (O2 Eb) in *; exact (Hslots S4)|].
    rewrite (O1 Eb) in *. intros tk h s nv Hin. unfold r' in Hin. rewrite bump_list_upd in Hin.
    destruct (ri_slots _ _ _ R1 e2 H0 S4 tk h s nv Hin) as [G1 G2]. unfold r'. rewrite bump_list_upd. split; [|intros Z0; apply Hb; exact (G2 Z0)].
    intros Z0. destruct (G1 Z0) as [y [Y1 [Y2 [Y3 [Y4 Y5]]]]]. exists y. split; [|auto].
    rewrite Hpool. apply in_or_app. left. apply in_pool_remove. split; [exact Y1|]. intros Eid.
    assert (y = pe) by (eapply nodup_id_eq; eauto). subst y.
    assert (A: att_enc r (p_rpc pe) = find_enc_tract r (rpc_tk (p_rpc pe))).
    { unfold att_enc. rewrite Y3. reflexivity. }
    rewrite Hatt in A. symmetry in A. apply find_enc_tract_in in A. destruct A as [_ [C _]]. rewrite Y4 in C.
    apply Eb. rewrite Sb. symmetry. exact (ri_wft _ _ _ R1 e e2 tk He H0 C (bump_list_in _ _ _ _ _ _ _ Hin)).
  - intros e2 H2 S5. destruct (ue_orig e2 H2) as [e0 [H0 [B0 [_ [O1 O2]]]]].
    destruct (Z.eq_dec (e_base e2) (e_base e')) as [Eb|Eb]; [rewrite (O2 Eb) in *; exact (Hbump S5)|].
    rewrite (O1 Eb) in *. intros tk h s nv Hin. apply Hb. exact (ri_bumped _ _ _ R1 e2 H0 S5 tk h s nv Hin).
  - intros e1 e2 c H1 H2 C1 C2. destruct (ue_orig e1 H1) as [a [Ha [Ba _]]]. destruct (ue_orig e2 H2) as [b [Hb' [Bb _]]].
    rewrite <- Ba, <- Bb. apply (ri_wfc _ _ _ R1 a b c Ha Hb'); [rewrite (in_range_shape e1 a c Ba)|rewrite (in_range_shape e2 b c Bb)]; assumption.
  - unfold r', upd_r. cbn [rd_encs rd_set]. eapply wf_t_upd; eauto.
  - unfold r', upd_r. cbn [rd_encs rd_set]. rewrite map_base_upd; [exact (ri_nodupb _ _ _ R1)|right; exact I].
  - intros e2 H2 S35. destruct (ue_orig e2 H2) as [e0 [H0 [B0 [_ [O1 O2]]]]].
    destruct (Z.eq_dec (e_base e2) (e_base e')) as [Eb|Eb]; [rewrite (O2 Eb) in *; exact (Hw1 S35)|].
    rewrite (O1 Eb) in *. exact (ri_w1 _ _ _ R1 e2 H0 S35).
  - intros e2 H2 Hh. destruct (ue_orig e2 H2) as [e0 [H0 [B0 [_ [O1 O2]]]]].
    destruct (Z.eq_dec (e_base e2) (e_base e')) as [Eb|Eb].
    + rewrite (O2 Eb) in *. exfalso. apply N9. apply (ri_hosts _ _ _ R1 e He). destruct Sh as [_ [_ Shh]]. rewrite <- Shh. exact Hh.
    + rewrite (O1 Eb) in *. exact (ri_hosts _ _ _ R1 e2 H0 Hh).
Qed.
End UpdEnc.


(* ------------------------------------------------------------------ putting a round's transition back into the global invariant *)
Definition fresh_ids (n : Z) (op : Z) (added : list pent) : Prop :=
  forall i x, nth_error added i = Some x -> p_id x = n + Z.of_nat i /\ (p_owner x = op \/ p_owner x = 0).

Lemma fresh_ids_nodup n op added : fresh_ids n op added -> NoDup (map p_id added) /\ forall x, In x added -> n <= p_id x < n + Z.of_nat (length added).
Proof.
  revert n. induction added as [|a l IH]; intros n H; cbn [map length]; [split; [constructor|intros x []]|].
  assert (H': fresh_ids (n + 1) op l).
  { intros i x Hi. destruct (H (S i) x Hi) as [E1 E2]. split; [lia|exact E2]. }
  destruct (IH (n + 1) H') as [N B]. destruct (H O a eq_refl) as [Ea _]. split.
  - constructor; [|exact N]. intros K. apply in_map_iff in K. destruct K as [y [E Hy]]. specialize (B y Hy). lia.
  - intros x [->|Hx]; [lia|]. specialize (B x Hx). lia.
Qed.

Lemma NoDup_app_disj {A} (l1 l2 : list A) : NoDup l1 -> NoDup l2 -> (forall x, In x l1 -> ~ In x l2) -> NoDup (l1 ++ l2).
Proof.
  induction l1 as [|a l1 IH]; cbn; intros N1 N2 D; [exact N2|].
  inversion N1 as [|? ? M1 M2]; subst. constructor.
  - intros K. apply in_app_or in K. destruct K as [K|K]; [contradiction|]. exact (D a (or_introl eq_refl) K).
  - apply IH; [exact M2|exact N2|]. intros x Hx. apply D. right. exact Hx.
Qed.

Lemma RInv_assemble fx st st' op pe added :
  RInv fx st -> In pe (s_pool st) -> p_owner pe = op ->
  s_wops st' = s_wops st -> s_fix st' = s_fix st -> s_nfix st' = s_nfix st -> s_reps st' = s_reps st ->
  s_pool st' = pool_remove (s_pool st) (p_id pe) ++ added ->
  fresh_ids (s_next st) op added -> s_next st' = s_next st + Z.of_nat (length added) ->
  (forall r2, In r2 (s_rounds st') -> rd_op r2 <> op -> In r2 (s_rounds st)) ->
  (forall r2, In r2 (s_rounds st') -> rd_op r2 = op -> RInv1 fx st' r2) ->
  RInv fx st'.
Proof.
  intros [A0 A B C D E F] Hpe Hop Hw Hf Hn Hr Hp Hfr Hnx Hother Hown.
  destruct (fresh_ids_nodup _ _ _ Hfr) as [FN FB].
  constructor.
  - lia.
  - rewrite Hp. intros x Hx. apply in_app_or in Hx. destruct Hx as [Hx|Hx].
    + apply in_pool_remove in Hx. specialize (A x (proj1 Hx)). lia.
    + specialize (FB x Hx). lia.
  - rewrite Hp, map_app. apply NoDup_app_disj; [unfold pool_remove; apply nodup_map_filter; exact B|exact FN|].
    intros i Hi1 Hi2. apply in_map_iff in Hi1. destruct Hi1 as [x [E1 Hx]]. apply in_pool_remove in Hx.
    apply in_map_iff in Hi2. destruct Hi2 as [y [E2 Hy]]. specialize (A x (proj1 Hx)). specialize (FB y Hy). lia.
  - rewrite Hn. exact C.
  - rewrite Hf. exact D.
  - rewrite Hf. intros f Hf'. destruct (E f Hf') as [E1 E2]. split; [lia|]. rewrite Hp. intros x Hx Hid.
    apply in_app_or in Hx. destruct Hx as [Hx|Hx]; [apply in_pool_remove in Hx; apply E2; tauto|]. specialize (FB x Hx). lia.
  - intros r2 H2. destruct (Z.eq_dec (rd_op r2) op) as [Eo|Eo]; [apply Hown; assumption|].
    apply (RInv1_pool fx st); [|rewrite Hw; intros w Hw'; exists w; auto|apply bumped_same; exact Hr|exact (F r2 (Hother r2 H2 Eo))].
    rewrite Hp, filter_app. rewrite (filter_owned_remove (rd_op r2)).
    + assert (Z0: filter (owned (rd_op r2)) added = []).
      { assert (G: forall l, (forall x, In x l -> owned (rd_op r2) x = false) -> filter (owned (rd_op r2)) l = []).
        { induction l as [|y l IH]; intros H; cbn; [reflexivity|]. rewrite (H y (or_introl eq_refl)). apply IH. intros z Hz. apply H. right. exact Hz. }
        apply G. intros x Hx.
        destruct (In_nth_error _ _ Hx) as [i Hi]. destruct (Hfr i x Hi) as [_ [O|O]]; unfold owned; rewrite O; apply Z.eqb_neq; [congruence|].
        pose proof (ri_pos _ _ _ (F r2 (Hother r2 H2 Eo))). lia. }
      rewrite Z0. apply app_nil_r.
    + intros x Hx Hid. assert (x = pe) by (exact (nodup_id_eq _ x pe B Hx Hpe Hid)). subst x. unfold owned. apply Z.eqb_neq. congruence.
Qed.

Lemma upd_round_own l r' r2 : In r2 (upd_round l r') -> rd_op r2 = rd_op r' -> r2 = r'.
Proof.
  unfold upd_round. intros H E. apply in_map_iff in H. destruct H as [x [Ex Hx]].
  destruct (rd_op x =? rd_op r') eqn:K; [congruence|]. apply Z.eqb_neq in K. subst r2. contradiction.
Qed.

Lemma RInv1_rounds_irrelevant fx st st' r :
  s_pool st' = s_pool st -> s_wops st' = s_wops st -> s_reps st' = s_reps st -> RInv1 fx st r -> RInv1 fx st' r.
Proof.
  intros H1 H2 H3. apply RInv1_pool; [rewrite H1; reflexivity|rewrite H2; intros w Hw; exists w; auto|apply bumped_same; exact H3].
Qed.

Lemma RInv_round_final fx st st' r' pe added :
  RInv fx st -> In pe (s_pool st) -> p_owner pe = rd_op r' ->
  s_wops st' = s_wops st -> s_fix st' = s_fix st -> s_nfix st' = s_nfix st -> s_reps st' = s_reps st ->
  s_pool st' = pool_remove (s_pool st) (p_id pe) ++ added ->
  fresh_ids (s_next st) (rd_op r') added -> s_next st' = s_next st + Z.of_nat (length added) ->
  (s_rounds st' = upd_round (s_rounds st) r' \/ s_rounds st' = del_round (s_rounds st) (rd_op r')) ->
  RInv1 fx st' r' -> RInv fx st'.
Proof.
  intros HI Hpe Ho Hw Hf Hn Hr Hp Hfr Hnx Hrd H1.
  eapply (RInv_assemble fx st st' (rd_op r') pe added); eauto.
  - intros r2 H2 N. destruct Hrd as [Hrd|Hrd]; rewrite Hrd in H2.
    + apply in_upd_round in H2. destruct H2 as [H2|H2]; [exact H2|subst; contradiction].
    + apply in_del_round in H2. exact H2.
  - intros r2 H2 E. destruct Hrd as [Hrd|Hrd]; rewrite Hrd in H2.
    + rewrite (upd_round_own _ _ _ H2 E). exact H1.
    + unfold del_round in H2. apply filter_In in H2. destruct H2 as [_ H2]. rewrite E, Z.eqb_refl in H2. discriminate.
Qed.

Lemma del_upd_round l r' : del_round (upd_round l r') (rd_op r') = del_round l (rd_op r').
Proof.
  unfold del_round, upd_round. induction l as [|x l IH]; cbn; [reflexivity|].
  destruct (rd_op x =? rd_op r') eqn:E; cbn; [rewrite Z.eqb_refl; cbn; exact IH|rewrite E; cbn; rewrite IH; reflexivity].
Qed.
Lemma upd_upd_round l r' : upd_round (upd_round l r') r' = upd_round l r'.
Proof.
  unfold upd_round. rewrite map_map. apply map_ext. intros x. destruct (rd_op x =? rd_op r') eqn:E; [rewrite Z.eqb_refl; reflexivity|rewrite E; reflexivity].
Qed.

(* round_check_over on a state whose round entry is the old one or already the new one *)
Lemma RInv_check_over fx st sm r' pe added :
  RInv fx st -> In pe (s_pool st) -> p_owner pe = rd_op r' ->
  s_wops sm = s_wops st -> s_fix sm = s_fix st -> s_nfix sm = s_nfix st -> s_reps sm = s_reps st ->
  (s_rounds sm = s_rounds st \/ s_rounds sm = upd_round (s_rounds st) r') ->
  s_pool sm = pool_remove (s_pool st) (p_id pe) ++ added ->
  fresh_ids (s_next st) (rd_op r') added -> s_next sm = s_next st + Z.of_nat (length added) ->
  RInv1 fx sm r' -> RInv fx (round_check_over sm r').
Proof.
  intros HI Hpe Ho Hw Hf Hn Hr Hrd Hp Hfr Hnx H1. unfold round_check_over.
  destruct (forallb _ _).
  - eapply (RInv_round_final fx st _ r' pe added); eauto; cbn; try assumption.
    + right. destruct Hrd as [Hrd|Hrd]; rewrite Hrd; [reflexivity|apply del_upd_round].
    + eapply RInv1_rounds_irrelevant; [| | |exact H1]; reflexivity.
  - eapply (RInv_round_final fx st _ r' pe added); eauto; cbn; try assumption.
    + left. destruct Hrd as [Hrd|Hrd]; rewrite Hrd; [reflexivity|apply upd_upd_round].
    + eapply RInv1_rounds_irrelevant; [| | |exact H1]; reflexivity.
Qed.

(* ------------------------------------------------------------------ batches of issued calls *)
Fixpoint mk_ents (n : Z) (rs : list (rpc * Z)) : list pent :=
  match rs with
  | [] => []
  | (r, o) :: t => {| p_id := n; p_rpc := r; p_owner := o; p_run := false; p_lose := false |} :: mk_ents (n + 1) t
  end.
Definition issue_all (st : state) (rs : list (rpc * Z)) : state := fold_left (fun s '(r, o) => issue s r o) rs st.

Definition pO (st : state) := (s_reps st, s_wops st, s_fix st, s_nfix st, s_rounds st).

Lemma issue_all_spec rs : forall st,
  s_pool (issue_all st rs) = s_pool st ++ mk_ents (s_next st) rs /\
  s_next (issue_all st rs) = s_next st + Z.of_nat (length rs) /\ pO (issue_all st rs) = pO st.
Proof.
  induction rs as [|[r o] rs IH]; intros st; cbn [issue_all fold_left mk_ents length].
  - rewrite app_nil_r. split; [reflexivity|]. split; [cbn; lia|reflexivity].
  - destruct (IH (issue st r o)) as [H1 [H2 H3]]. unfold issue_all in *. rewrite H1, H2, H3.
    cbn [s_pool s_next issue set_pool]. rewrite <- app_assoc. split; [reflexivity|]. split; [lia|reflexivity].
Qed.

Lemma mk_ents_length n rs : length (mk_ents n rs) = length rs.
Proof. revert n. induction rs as [|[r o] rs IH]; intros n; cbn; [reflexivity|]. rewrite IH. reflexivity. Qed.

Lemma mk_ents_nth rs : forall n i x, nth_error (mk_ents n rs) i = Some x ->
  p_id x = n + Z.of_nat i /\ exists r o, nth_error rs i = Some (r, o) /\ p_rpc x = r /\ p_owner x = o.
Proof.
  induction rs as [|[r o] rs IH]; intros n i x H; [destruct i; discriminate|].
  destruct i as [|i]; cbn in H.
  - injection H as <-. cbn. split; [lia|]. exists r, o. auto.
  - destruct (IH (n + 1) i x H) as [E1 E2]. split; [lia|]. exact E2.
Qed.

Lemma mk_ents_in rs n x : In x (mk_ents n rs) -> In (p_rpc x, p_owner x) rs.
Proof.
  intros H. destruct (In_nth_error _ _ H) as [i Hi]. destruct (mk_ents_nth rs n i x Hi) as [_ [r [o [E1 [E2 E3]]]]].
  subst. eapply nth_error_In; eauto.
Qed.

Lemma mk_ents_fresh n op rs : (forall r o, In (r, o) rs -> o = op \/ o = 0) -> fresh_ids n op (mk_ents n rs).
Proof.
  intros H i x Hi. destruct (mk_ents_nth rs n i x Hi) as [E1 [r [o [E2 [E3 E4]]]]]. split; [exact E1|].
  rewrite E4. apply (H r o). eapply nth_error_In; eauto.
Qed.

Lemma fold_issue_all {A} (g : A -> rpc) o l : forall st,
  fold_left (fun s x => issue s (g x) o) l st = issue_all st (map (fun x => (g x, o)) l).
Proof. induction l; intros; cbn; [reflexivity|]. rewrite IHl. reflexivity. Qed.

Fixpoint gc_list (g base : Z) (i : Z) (hosts : list Z) : list (rpc * Z) :=
  match hosts with [] => [] | h :: t => (mk_del g h (base + i), 0) :: gc_list g base (i + 1) t end.
Lemma cleanup_issue_all st g e : cleanup st g e = issue_all st (gc_list g (e_base e) 0 (e_hosts e)).
Proof.
  unfold cleanup. generalize 0 at 2 3. revert st. induction (e_hosts e) as [|h l IH]; intros st i; cbn; [reflexivity|]. rewrite IH. reflexivity.
Qed.
Lemma gc_list_owner g b hosts : forall i r o, In (r, o) (gc_list g b i hosts) -> o = 0.
Proof. induction hosts as [|h l IH]; intros i r o; cbn; [intros []|]. intros [H|H]; [congruence|eauto]. Qed.

Lemma cnt_owned_mk_ents op rs : forall n, cnt (owned op) (mk_ents n rs) = length (filter (fun x => snd x =? op) rs).
Proof.
  unfold cnt. induction rs as [|[rp o] l IH]; intros n; cbn; [reflexivity|].
  unfold owned at 1. cbn [p_owner]. destruct (o =? op); cbn; rewrite IH; reflexivity.
Qed.

(* ------------------------------------------------------------------ a reply reaches a round in phase 3 *)
Definition rm_pool (st : state) (pe : pent) : state := set_pool st (pool_remove (s_pool st) (p_id pe)) (s_next st).

Section P3.
Variables (fx : fixes) (st : state) (pe : pent) (r : round) (e : encop).
Hypothesis HI : RInv fx st.
Hypothesis Hpe : In pe (s_pool st).
Hypothesis Hown : p_owner pe = rd_op r.
Hypothesis Hr : In r (s_rounds st).
Hypothesis Hph : rd_phase r = 3.
Hypothesis Hatt : att_enc r (p_rpc pe) = Some e.
Hypothesis N9 : e_stage e <> 9.
Let st1 := rm_pool st pe.
Let R1 : RInv1 fx st r := rv_rounds _ _ HI r Hr.

Lemma p3_upd e' dn rs :
  same_shape e e' ->
  (forall rp o, In (rp, o) rs -> o = 0 \/ (o = rd_op r /\ added_ok fx r (upd_r r e' dn) e e'
       {| p_id := 0; p_rpc := rp; p_owner := o; p_run := false; p_lose := false |})) ->
  Z.of_nat (length (filter (fun x => snd x =? rd_op r) rs)) + (bound e - 1) <= bound e' ->
  (e_stage e' <> e_stage e -> bound e <= 1) ->
  (forall s', s_reps s' = s_reps st -> s_pool s' = pool_remove (s_pool st) (p_id pe) ++ mk_ents (s_next st) rs ->
     (e_stage e' = 4 -> slots_ok fx s' (upd_r r e' dn) e') /\ (e_stage e' = 5 -> all_bumped fx s' (upd_r r e' dn) e')) ->
  (e_stage e' = 3 \/ e_stage e' = 5 -> e_wait e' = 1) ->
  RInv fx (issue_all (set_rounds st1 (upd_round (s_rounds st1) (upd_r r e' dn))) rs).
Proof.
  intros Sh HA Hcnt Hstg Hsb Hw1.
  set (s0 := set_rounds st1 (upd_round (s_rounds st1) (upd_r r e' dn))).
  destruct (issue_all_spec rs s0) as [P1 [P2 P3]]. unfold pO in P3. injection P3 as Q1 Q2 Q3 Q4 Q5.
  assert (Pool: s_pool (issue_all s0 rs) = pool_remove (s_pool st) (p_id pe) ++ mk_ents (s_next st) rs) by (rewrite P1; reflexivity).
  destruct (Hsb (issue_all s0 rs) Q1 Pool) as [Hs Hb5].
  assert (Pos: 0 < rd_op r) by exact (ri_pos _ _ _ R1).
  assert (Fr: fresh_ids (s_next st) (rd_op (upd_r r e' dn)) (mk_ents (s_next st) rs)).
  { apply mk_ents_fresh. intros rp o Hin. destruct (HA rp o Hin) as [->|[-> _]]; [right|left]; reflexivity. }
  assert (Nx: s_next (issue_all s0 rs) = s_next st + Z.of_nat (length (mk_ents (s_next st) rs))).
  { rewrite P2, mk_ents_length. reflexivity. }
  assert (Rd: s_rounds (issue_all s0 rs) = upd_round (s_rounds st) (upd_r r e' dn) \/ s_rounds (issue_all s0 rs) = del_round (s_rounds st) (rd_op (upd_r r e' dn))).
  { left. rewrite Q5. reflexivity. }
  assert (U: RInv1 fx (issue_all s0 rs) (upd_r r e' dn)).
  { apply (ue_main fx st _ r pe e e' dn (mk_ents (s_next st) rs)); auto.
    - exact (rv_nodup _ _ HI).
    - apply bumped_same. exact Q1.
    - intros x Hx. apply mk_ents_in in Hx. destruct (HA _ _ Hx) as [O|[O K]]; [left; rewrite O; lia|right].
      destruct K as [K1 [K2 [K3 K4]]]. cbn [p_owner p_rpc] in *. split; [exact O|]. split; [exact K2|]. split; [exact K3|exact K4].
    - pose proof (cnt_owned_mk_ents (rd_op r) rs (s_next st)) as L.
      rewrite L. exact Hcnt. }
  exact (RInv_round_final fx st _ (upd_r r e' dn) pe _ HI Hpe Hown Q2 Q3 Q4 Q1 Pool Fr Nx Rd U).
Qed.

Lemma p3_finish e1 ok : same_shape e e1 -> bound e <= 1 -> RInv fx (enc_finish st1 r e1 ok).
Proof.
  intros Sh1 Hb1. unfold enc_finish.
  set (dn := if ok then rd_done r + 1 else rd_done r).
  set (rs := if ok then [] else gc_list (rd_gen r) (e_base e1) 0 (e_hosts e1)).
  set (sm := if ok then st1 else cleanup st1 (rd_gen r) e1).
  assert (Esm: sm = issue_all st1 rs) by (unfold sm, rs; destruct ok; [reflexivity|apply cleanup_issue_all]).
  change (rd_set r (rd_phase r) (rd_tracts r) (upd_enc (rd_encs r) (enc_over e1)) dn) with (upd_r r (enc_over e1) dn).
  assert (Sh: same_shape e (enc_over e1)) by (eapply same_shape_trans; [exact Sh1|apply same_shape_over]).
  assert (Ow: forall rp o, In (rp, o) rs -> o = 0).
  { unfold rs. destruct ok; [intros ? ? []|]. intros rp o. apply gc_list_owner. }
  destruct (issue_all_spec rs st1) as [P1 [P2 P3]]. rewrite <- Esm in *. unfold pO in P3. injection P3 as Q1 Q2 Q3 Q4 Q5.
  assert (Pool: s_pool sm = pool_remove (s_pool st) (p_id pe) ++ mk_ents (s_next st) rs) by (rewrite P1; reflexivity).
  assert (Pos: 0 < rd_op r) by exact (ri_pos _ _ _ R1).
  assert (Fr: fresh_ids (s_next st) (rd_op (upd_r r (enc_over e1) dn)) (mk_ents (s_next st) rs)).
  { apply mk_ents_fresh. intros rp o Hin. right. exact (Ow rp o Hin). }
  assert (Nx: s_next sm = s_next st + Z.of_nat (length (mk_ents (s_next st) rs))) by (rewrite P2, mk_ents_length; reflexivity).
  assert (U: RInv1 fx sm (upd_r r (enc_over e1) dn)).
  { apply (ue_main fx st _ r pe e (enc_over e1) dn (mk_ents (s_next st) rs)); auto.
    - exact (rv_nodup _ _ HI).
    - apply bumped_same. exact Q1.
    - intros x Hx. apply mk_ents_in in Hx. left. rewrite (Ow _ _ Hx). lia.
    - rewrite (cnt_owned_mk_ents (rd_op r) rs (s_next st)).
      assert (Z0: length (filter (fun x : rpc * Z => snd x =? rd_op r) rs) = 0%nat).
      { assert (G: forall l : list (rpc * Z), (forall rp o, In (rp, o) l -> o = 0) -> length (filter (fun x => snd x =? rd_op r) l) = 0%nat).
        { induction l as [|[rp o] l IH]; intros H; cbn; [reflexivity|]. rewrite (H rp o (or_introl eq_refl)).
          replace (0 =? rd_op r) with false by (symmetry; apply Z.eqb_neq; lia). apply IH. intros a b Hab. apply (H a b). right. exact Hab. }
        apply G. exact Ow. }
      rewrite Z0. unfold bound at 2. cbn. lia.
    - cbn. intros K. discriminate.
    - cbn. intros K. discriminate.
    - cbn. intros [K|K]; discriminate. }
  exact (RInv_check_over fx st sm (upd_r r (enc_over e1) dn) pe _ HI Hpe Hown Q2 Q3 Q4 Q1 (or_introl Q5) Pool Fr Nx U).
Qed.
End P3.

(* ------------------------------------------------------------------ helper facts for the handlers *)
Lemma tkey_eta (tk : tkt) : tkey (fst tk) (snd tk) = tk. Proof. destruct tk; reflexivity. Qed.
Lemma rpc_tk_setversion g h tk nv s : rpc_tk (mk_setversion g h tk nv s) = tk. Proof. unfold rpc_tk. cbn. apply tkey_eta. Qed.

Lemma RSNM_pos : 0 < RS_N + RS_M. Proof. reflexivity. Qed.

Lemma find_enc_chunk_base fx st r e : RInv1 fx st r -> In e (rd_encs r) ->
  exists z, find_enc_chunk r (e_base e) = Some z /\ e_base z = e_base e.
Proof.
  intros R1 He.
  assert (Ir: in_range e (e_base e) = true). { unfold in_range. pose proof RSNM_pos. apply andb_true_iff. split; [apply Z.leb_le|apply Z.ltb_lt]; lia. }
  destruct (find_enc_chunk r (e_base e)) as [z|] eqn:F.
  - exists z. split; [reflexivity|]. apply find_enc_chunk_in in F. destruct F as [Hz Iz]. exact (ri_wfc _ _ _ R1 z e _ Hz He Iz Ir).
  - exfalso. unfold find_enc_chunk in F. pose proof (find_none _ _ F e He) as K. cbv beta in K. unfold in_range in Ir. congruence.
Qed.

Lemma att_chunk_upd_self fx st r e e' dn : RInv1 fx st r -> In e (rd_encs r) -> same_shape e e' ->
  find_enc_chunk (upd_r r e' dn) (e_base e) = Some e'.
Proof.
  intros R1 He Sh. destruct (find_enc_chunk_base fx st r e R1 He) as [z [F B]]. pose proof Sh as [Sb _].
  unfold upd_r. rewrite (find_enc_chunk_upd r e e' _ dn _ He Sb), F. cbn. rewrite B, Sb, Z.eqb_refl. reflexivity.
Qed.

Lemma tk_eqb_refl a : tk_eqb a a = true. Proof. apply tk_eqb_eq. reflexivity. Qed.
Lemma slot_hd_match (tk tk' : tkt) (h h' : Z) (s s' : Z * Z) (nv nv' : Z) :
  (tk', h', s', nv') = (tk, h, s, nv) -> tk_eqb tk tk' && (h =? h') = true.
Proof. intros H. injection H as -> -> _ _. rewrite tk_eqb_refl, Z.eqb_refl. reflexivity. Qed.

(* slots *)
Lemma slot_of_spec bl tk h : forall i, (exists s nv, In (tk, h, s, nv) bl) ->
  i <= slot_of bl tk h i < i + Z.of_nat (length bl).
Proof.
  induction bl as [|[[[tk' h'] s'] nv'] bl IH]; intros i [s [nv H]]; [destruct H|]. cbn [slot_of length].
  destruct (tk_eqb tk tk' && (h =? h')) eqn:E; [lia|].
  destruct H as [H|H]; [rewrite (slot_hd_match _ _ _ _ _ _ _ _ H) in E; discriminate|].
  specialize (IH (i + 1) (ex_intro _ s (ex_intro _ nv H))). lia.
Qed.

Lemma slot_of_inj bl tk h tk2 h2 : forall i, (exists s nv, In (tk, h, s, nv) bl) -> (exists s nv, In (tk2, h2, s, nv) bl) ->
  slot_of bl tk h i = slot_of bl tk2 h2 i -> tk = tk2 /\ h = h2.
Proof.
  induction bl as [|[[[tk' h'] s'] nv'] bl IH]; intros i [s [nv H]] [s2 [nv2 H2]]; [destruct H|]. cbn [slot_of].
  destruct (tk_eqb tk tk' && (h =? h')) eqn:E; destruct (tk_eqb tk2 tk' && (h2 =? h')) eqn:E2.
  - intros _. apply andb_true_iff in E, E2. destruct E as [A B], E2 as [A2 B2]. apply tk_eqb_eq in A, A2. apply Z.eqb_eq in B, B2. subst. auto.
  - intros K. exfalso. destruct H2 as [H2|H2]; [rewrite (slot_hd_match _ _ _ _ _ _ _ _ H2) in E2; discriminate|].
    pose proof (slot_of_spec bl tk2 h2 (i + 1) (ex_intro _ s2 (ex_intro _ nv2 H2))). lia.
  - intros K. exfalso. destruct H as [H|H]; [rewrite (slot_hd_match _ _ _ _ _ _ _ _ H) in E; discriminate|].
    pose proof (slot_of_spec bl tk h (i + 1) (ex_intro _ s (ex_intro _ nv H))). lia.
  - destruct H as [H|H]; [rewrite (slot_hd_match _ _ _ _ _ _ _ _ H) in E; discriminate|].
    destruct H2 as [H2|H2]; [rewrite (slot_hd_match _ _ _ _ _ _ _ _ H2) in E2; discriminate|].
    apply IH; eauto.
Qed.

Lemma bump_list_nv fx r e tk h s nv : In (tk, h, s, nv) (bump_list fx r e) ->
  exists p, find_ptr (rd_tracts r) tk = Some p /\ nv = pt_ver p + 1 /\ In h (pt_from p).
Proof.
  unfold bump_list. intros H. apply in_flat_map in H. destruct H as [[[tk' o] l] [H1 H2]].
  destruct (find_ptr (rd_tracts r) tk') as [p|] eqn:Fp; [|destruct H2].
  apply in_flat_map in H2. destruct H2 as [h' [Hh H2]]. destruct (zget (pt_stamps p) h'); [|destruct H2].
  destruct H2 as [H2|[]]. injection H2 as <- <- _ <-. exists p. auto.
Qed.

Lemma first_err_ok errs n : first_err errs n = cl_NoError ->
  forall i v, 0 <= i < n -> zget errs i = Some v -> v = cl_NoError.
Proof.
  unfold first_err. intros H i v Hi Hz.
  assert (G: forall l, fold_right (fun i acc => match zget errs (Z.of_nat i) with Some e => if e =? cl_NoError then acc else e | None => acc end) cl_NoError l = cl_NoError ->
             forall k, In k l -> forall v, zget errs (Z.of_nat k) = Some v -> v = cl_NoError).
  { induction l as [|a l IH]; intros Hf k Hk w Hw; [destruct Hk|]. cbn in Hf.
    destruct (zget errs (Z.of_nat a)) as [ea|] eqn:Ea.
    - destruct (ea =? cl_NoError) eqn:Ee.
      + destruct Hk as [->|Hk]; [rewrite Ea in Hw; injection Hw as <-; apply Z.eqb_eq; exact Ee|eapply IH; eauto].
      + exfalso. rewrite Hf in Ee. vm_compute in Ee. discriminate.
    - destruct Hk as [->|Hk]; [congruence|eapply IH; eauto]. }
  apply (G _ H (Z.to_nat i)); [apply in_seq; lia|]. rewrite Z2Nat.id by lia. exact Hz.
Qed.

Lemma zget_cons (k v : Z) (m : list (Z * Z)) k' : zget ((k, v) :: m) k' = if k' =? k then Some v else zget m k'.
Proof. reflexivity. Qed.

(* the slot bookkeeping of encBump when one SetVersion reply arrives *)
Lemma sv_slots fx st s' r pe e h0 s0 nv0 err :
  NoDup (map p_id (s_pool st)) -> RInv1 fx st r -> In pe (s_pool st) -> In e (rd_encs r) -> e_stage e = 4 ->
  In (rpc_tk (p_rpc pe), h0, s0, nv0) (bump_list fx r e) -> k_ts (p_rpc pe) = h0 ->
  (err = cl_NoError -> bumped st h0 (rpc_tk (p_rpc pe)) nv0) ->
  s_reps s' = s_reps st -> (forall y, In y (s_pool st) -> y <> pe -> In y (s_pool s')) ->
  let bl := bump_list fx r e in
  let errs1 := (slot_of bl (rpc_tk (p_rpc pe)) (k_ts (p_rpc pe)) 0, err) :: e_errs e in
  forall tk h s nv, In (tk, h, s, nv) bl ->
    (zget errs1 (slot_of bl tk h 0) = None ->
       exists y, In y (s_pool s') /\ p_owner y = rd_op r /\ k_kind (p_rpc y) = K_SetVersion /\ rpc_tk (p_rpc y) = tk /\ k_ts (p_rpc y) = h) /\
    (zget errs1 (slot_of bl tk h 0) = Some cl_NoError -> bumped s' h tk nv).
Proof.
  intros ND R1 Hpe He S4 Hin0 Hts Hbu Hreps Hsub bl errs1 tk h s nv Hin.
  set (tk0 := rpc_tk (p_rpc pe)) in *. unfold errs1. rewrite zget_cons, Hts.
  destruct (ri_slots _ _ _ R1 e He S4 tk h s nv Hin) as [G1 G2]. fold bl in G1, G2.
  destruct (slot_of bl tk h 0 =? slot_of bl tk0 h0 0) eqn:E.
  - apply Z.eqb_eq in E.
    destruct (slot_of_inj bl tk h tk0 h0 0 (ex_intro _ s (ex_intro _ nv Hin)) (ex_intro _ s0 (ex_intro _ nv0 Hin0)) E) as [-> ->].
    split; [discriminate|]. intros K. injection K as K.
    destruct (bump_list_nv fx r e _ _ _ _ Hin) as [p [F1 [N1 _]]]. destruct (bump_list_nv fx r e _ _ _ _ Hin0) as [p0 [F0 [N0 _]]].
    rewrite F1 in F0. injection F0 as <-. subst nv nv0. apply (bumped_same st s' Hreps). exact (Hbu K).
  - split.
    + intros Z0. destruct (G1 Z0) as [y [Y1 [Y2 [Y3 [Y4 Y5]]]]]. exists y. split; [|auto]. apply Hsub; [exact Y1|].
      intros ->. rewrite <- Y4, <- Y5, Hts in E. unfold tk0 in E. rewrite Z.eqb_refl in E. discriminate.
    + intros Z0. apply (bumped_same st s' Hreps). exact (G2 Z0).
Qed.

Lemma mk_ents_in_conv rs : forall n rp o, In (rp, o) rs -> exists x, In x (mk_ents n rs) /\ p_rpc x = rp /\ p_owner x = o.
Proof.
  induction rs as [|[r0 o0] rs IH]; intros n rp o H; [destruct H|]. cbn [mk_ents].
  destruct H as [H|H]; [injection H as -> ->; eexists; split; [left; reflexivity|split; reflexivity]|].
  destruct (IH (n + 1) rp o H) as [x [X1 X2]]. exists x. split; [right; exact X1|exact X2].
Qed.

Definition sv_list (gen op : Z) (bl : list (tkt * Z * (Z * Z) * Z)) : list (rpc * Z) :=
  map (fun '(tk', h, stamp, nv) => (mk_setversion gen h tk' nv (Some stamp), op)) bl.
Lemma fold_issue_sv gen op bl : forall st,
  fold_left (fun s '(tk', h, stamp, nv) => issue s (mk_setversion gen h tk' nv (Some stamp)) op) bl st = issue_all st (sv_list gen op bl).
Proof. induction bl as [|[[[a b] c] d] bl IH]; intros st; cbn; [reflexivity|]. rewrite IH. reflexivity. Qed.
Lemma sv_list_in gen op bl rp o : In (rp, o) (sv_list gen op bl) ->
  o = op /\ exists tk h s nv, In (tk, h, s, nv) bl /\ rp = mk_setversion gen h tk nv (Some s).
Proof.
  unfold sv_list. intros H. apply in_map_iff in H. destruct H as [[[[tk h] s] nv] [E Hin]]. injection E as <- <-.
  split; [reflexivity|]. exists tk, h, s, nv. auto.
Qed.
Lemma filter_all_length {A} (f : A -> bool) l : (forall x, In x l -> f x = true) -> length (filter f l) = length l.
Proof. induction l as [|x l IH]; intros H; cbn; [reflexivity|]. rewrite (H x (or_introl eq_refl)). cbn. rewrite IH; [reflexivity|]. intros y Hy. apply H. right. exact Hy. Qed.

(* ------------------------------------------------------------------ the four phase-3 handlers *)
Section Handlers.
Variables (fx : fixes) (st : state) (pe : pent) (r : round) (e : encop).
Hypothesis HI : RInv fx st.
Hypothesis Hpe : In pe (s_pool st).
Hypothesis Hown : p_owner pe = rd_op r.
Hypothesis Hr : In r (s_rounds st).
Hypothesis Hph : rd_phase r = 3.
Hypothesis Hatt : att_enc r (p_rpc pe) = Some e.
Let st1 := rm_pool st pe.
Let R1 : RInv1 fx st r := rv_rounds _ _ HI r Hr.
Let He : In e (rd_encs r) := att_enc_in _ _ _ Hatt.

Lemma bound_stage s : e_stage e = s -> s <> 9 -> bound e = e_wait e.
Proof. intros E N. unfold bound. rewrite E. replace (s =? 9) with false by (symmetry; apply Z.eqb_neq; exact N). reflexivity. Qed.

Lemma hd_plain s0 : RInv fx (issue_all s0 []) -> RInv fx s0. Proof. intros H. exact H. Qed.

Lemma rr_pack slot err : e_stage e = 2 ->
  RInv fx (let e1 := e_set e 2 (e_wait e - 1) ((slot, err) :: e_errs e) in
           if 0 <? e_wait e1 then set_rounds st1 (upd_round (s_rounds st1) (rd_set r (rd_phase r) (rd_tracts r) (upd_enc (rd_encs r) e1) (rd_done r)))
           else if negb (last_err (e_errs e1) RS_N =? cl_NoError) then enc_finish st1 r e1 false
           else issue (set_rounds st1 (upd_round (s_rounds st1) (rd_set r (rd_phase r) (rd_tracts r) (upd_enc (rd_encs r) (e_set e1 3 1 [])) (rd_done r))))
                      (mk_encode (rd_gen r) (nth (Z.to_nat RS_N) (e_hosts e) 0) (e_base e)) (rd_op r)).
Proof.
  intros S2. assert (N9: e_stage e <> 9) by (rewrite S2; discriminate).
  pose proof (bound_stage 2 S2 ltac:(discriminate)) as Bd.
  cbv zeta. set (e1 := e_set e 2 (e_wait e - 1) ((slot, err) :: e_errs e)).
  destruct (0 <? e_wait e1) eqn:W0.
  - apply Z.ltb_lt in W0. cbn [e_wait e1 e_set] in W0.
    apply (p3_upd fx st pe r e HI Hpe Hown Hr Hph Hatt N9 e1 (rd_done r) []).
    + apply same_shape_e_set.
    + intros ? ? [].
    + cbn [filter length]. change (bound e1) with (e_wait e - 1). lia.
    + cbn [e_stage e1 e_set]. intros K. rewrite S2 in K. contradiction.
    + intros s' _ _. cbn [e_stage e1 e_set]. split; intros K; discriminate.
    + cbn [e_stage e1 e_set]. intros [K|K]; discriminate.
  - apply Z.ltb_ge in W0. cbn [e_wait e1 e_set] in W0.
    destruct (negb _).
    + apply (p3_finish fx st pe r e HI Hpe Hown Hr Hph Hatt N9 e1 false); [apply same_shape_e_set|lia].
    + apply (p3_upd fx st pe r e HI Hpe Hown Hr Hph Hatt N9 (e_set e1 3 1 []) (rd_done r) [(mk_encode (rd_gen r) (nth (Z.to_nat RS_N) (e_hosts e) 0) (e_base e), rd_op r)]).
      * repeat split.
      * intros rp o [H|[]]. injection H as <- <-. right. split; [reflexivity|]. split; [reflexivity|]. cbn [p_rpc].
        split; [|split; [reflexivity|intros K; vm_compute in K; discriminate]].
        unfold att_enc. cbn [k_kind mk_encode mk_rpc Cluster.Model.k_kind]. cbn [orb Z.eqb]. 
        change (nth 1 (k_aux (mk_encode (rd_gen r) (nth (Z.to_nat RS_N) (e_hosts e) 0) (e_base e))) 0) with (e_base e).
        apply (att_chunk_upd_self fx st r e _ _ R1 He). repeat split.
      * cbn [filter snd]. rewrite Z.eqb_refl. cbn [length]. change (bound (e_set e1 3 1 [])) with 1. lia.
      * intros _. lia.
      * intros s' _ _. cbn. split; intros K; discriminate.
      * intros _. reflexivity.
Qed.

Lemma rr_encode err : e_stage e = 3 ->
  RInv fx (if negb (err =? cl_NoError) then enc_finish st1 r e false
           else let bl := bump_list fx r e in
                let e1 := e_set e 4 (Z.of_nat (length bl)) [] in
                let st1' := set_rounds st1 (upd_round (s_rounds st1) (rd_set r (rd_phase r) (rd_tracts r) (upd_enc (rd_encs r) e1) (rd_done r))) in
                fold_left (fun s '(tk', h, stamp, nv) => issue s (mk_setversion (rd_gen r) h tk' nv (Some stamp)) (rd_op r)) bl st1').
Proof.
  intros S3. assert (N9: e_stage e <> 9) by (rewrite S3; discriminate).
  pose proof (bound_stage 3 S3 ltac:(discriminate)) as Bd. pose proof (ri_w1 _ _ _ R1 e He (or_introl S3)) as W1.
  destruct (negb _).
  { apply (p3_finish fx st pe r e HI Hpe Hown Hr Hph Hatt N9 e false); [repeat split|lia]. }
  cbv zeta. set (bl := bump_list fx r e). set (e1 := e_set e 4 (Z.of_nat (length bl)) []).
  rewrite fold_issue_sv.
  assert (Sh: same_shape e e1) by apply same_shape_e_set.
  assert (W: wf_t (rd_encs r)) by (intros a b tk; apply (ri_wft _ _ _ R1)).
  apply (p3_upd fx st pe r e HI Hpe Hown Hr Hph Hatt N9 e1 (rd_done r) (sv_list (rd_gen r) (rd_op r) bl)).
  - exact Sh.
  - intros rp o Hin. destruct (sv_list_in _ _ _ _ _ Hin) as [-> [tk [h [s [nv [Hb ->]]]]]]. right. split; [reflexivity|].
    split; [reflexivity|]. cbn [p_rpc]. split; [|split; [reflexivity|]].
    + unfold att_enc. cbn [k_kind mk_setversion mk_rpc Cluster.Model.k_kind]. cbn [orb Z.eqb].
      rewrite rpc_tk_setversion, find_enc_tract_eq. unfold upd_r. cbn [rd_encs rd_set].
      apply (find_tract_upd_self tk _ e e1 W He Sh); [exact (bump_list_in fx r e _ _ _ _ Hb)|cbn; discriminate].
    + intros _. rewrite rpc_tk_setversion. exists h, s, nv. split; [exact Hb|reflexivity].
  - rewrite filter_all_length.
    + unfold sv_list. rewrite map_length. change (bound e1) with (Z.of_nat (length bl)). lia.
    + intros [rp o] Hin. destruct (sv_list_in _ _ _ _ _ Hin) as [-> _]. cbn. apply Z.eqb_refl.
  - intros _. lia.
  - intros s' _ Hpool. split; [|cbn; intros K; discriminate]. intros _ tk h s nv Hin.
    change (In (tk, h, s, nv) bl) in Hin. split; [intros _|cbn; intros K; discriminate].
    assert (Hrs: In (mk_setversion (rd_gen r) h tk nv (Some s), rd_op r) (sv_list (rd_gen r) (rd_op r) bl)).
    { unfold sv_list. apply in_map_iff. exists (tk, h, s, nv). split; [reflexivity|exact Hin]. }
    destruct (mk_ents_in_conv _ (s_next st) _ _ Hrs) as [x [X1 [X2 X3]]]. exists x.
    split; [rewrite Hpool; apply in_or_app; right; exact X1|]. split; [exact X3|]. rewrite X2. split; [reflexivity|].
    split; [apply rpc_tk_setversion|reflexivity].
  - cbn. intros [K|K]; discriminate.
Qed.

Lemma old_in_removed y : In y (s_pool st) -> y <> pe -> In y (pool_remove (s_pool st) (p_id pe)).
Proof.
  intros Hy N. apply in_pool_remove. split; [exact Hy|]. intros E. apply N.
  exact (nodup_id_eq _ y pe (rv_nodup _ _ HI) Hy Hpe E).
Qed.

Lemma rr_sv err h0 s0 nv0 : e_stage e = 4 ->
  In (rpc_tk (p_rpc pe), h0, s0, nv0) (bump_list fx r e) -> k_ts (p_rpc pe) = h0 ->
  (err = cl_NoError -> bumped st h0 (rpc_tk (p_rpc pe)) nv0) ->
  RInv fx (let bl := bump_list fx r e in
           let e1 := e_set e 4 (e_wait e - 1) ((slot_of bl (rpc_tk (p_rpc pe)) (k_ts (p_rpc pe)) 0, err) :: e_errs e) in
           if 0 <? e_wait e1 then set_rounds st1 (upd_round (s_rounds st1) (rd_set r (rd_phase r) (rd_tracts r) (upd_enc (rd_encs r) e1) (rd_done r)))
           else if negb (first_err (e_errs e1) (Z.of_nat (length bl)) =? cl_NoError) then enc_finish st1 r e1 false
           else issue (set_rounds st1 (upd_round (s_rounds st1) (rd_set r (rd_phase r) (rd_tracts r) (upd_enc (rd_encs r) (e_set e1 5 1 [])) (rd_done r))))
                      (mk_commit (rd_gen r) (e_base e)) (rd_op r)).
Proof.
  intros S4 Hin0 Hts Hbu. assert (N9: e_stage e <> 9) by (rewrite S4; discriminate).
  pose proof (bound_stage 4 S4 ltac:(discriminate)) as Bd.
  cbv zeta. set (bl := bump_list fx r e).
  set (e1 := e_set e 4 (e_wait e - 1) ((slot_of bl (rpc_tk (p_rpc pe)) (k_ts (p_rpc pe)) 0, err) :: e_errs e)).
  assert (SL: forall s', s_reps s' = s_reps st -> (forall y, In y (s_pool st) -> y <> pe -> In y (s_pool s')) ->
              forall tk h s nv, In (tk, h, s, nv) bl ->
                (zget (e_errs e1) (slot_of bl tk h 0) = None ->
                   exists y, In y (s_pool s') /\ p_owner y = rd_op r /\ k_kind (p_rpc y) = K_SetVersion /\ rpc_tk (p_rpc y) = tk /\ k_ts (p_rpc y) = h) /\
                (zget (e_errs e1) (slot_of bl tk h 0) = Some cl_NoError -> bumped s' h tk nv)).
  { intros s' Hre Hsub. exact (sv_slots fx st s' r pe e h0 s0 nv0 err (rv_nodup _ _ HI) R1 Hpe He S4 Hin0 Hts Hbu Hre Hsub). }
  destruct (0 <? e_wait e1) eqn:W0.
  - apply Z.ltb_lt in W0. cbn [e_wait e1 e_set] in W0.
    apply (p3_upd fx st pe r e HI Hpe Hown Hr Hph Hatt N9 e1 (rd_done r) []).
    + apply same_shape_e_set.
    + intros ? ? [].
    + cbn [filter length]. change (bound e1) with (e_wait e - 1). lia.
    + cbn [e_stage e1 e_set]. intros K. rewrite S4 in K. contradiction.
    + intros s' Hre Hpool. split; [|cbn; intros K; discriminate]. intros _ tk h s nv Hin.
      change (In (tk, h, s, nv) bl) in Hin. refine (SL s' Hre _ tk h s nv Hin).
      intros y Hy Ny. rewrite Hpool. cbn [mk_ents]. rewrite app_nil_r. apply old_in_removed; assumption.
    + cbn [e_stage e1 e_set]. intros [K|K]; discriminate.
  - apply Z.ltb_ge in W0. cbn [e_wait e1 e_set] in W0.
    destruct (negb _) eqn:FE.
    + apply (p3_finish fx st pe r e HI Hpe Hown Hr Hph Hatt N9 e1 false); [apply same_shape_e_set|lia].
    + apply negb_false_iff, Z.eqb_eq in FE.
      apply (p3_upd fx st pe r e HI Hpe Hown Hr Hph Hatt N9 (e_set e1 5 1 []) (rd_done r) [(mk_commit (rd_gen r) (e_base e), rd_op r)]).
      * repeat split.
      * intros rp o [H|[]]. injection H as <- <-. right. split; [reflexivity|]. split; [reflexivity|]. cbn [p_rpc].
        split; [|split; [reflexivity|intros K; vm_compute in K; discriminate]].
        unfold att_enc. cbn [k_kind mk_commit mk_rpc Cluster.Model.k_kind]. cbn [orb Z.eqb].
        change (nth 0 (k_aux (mk_commit (rd_gen r) (e_base e))) 0) with (e_base e).
        apply (att_chunk_upd_self fx st r e _ _ R1 He). repeat split.
      * cbn [filter snd]. rewrite Z.eqb_refl. cbn [length]. change (bound (e_set e1 5 1 [])) with 1. lia.
      * intros _. lia.
      * intros s' Hre Hpool. split; [cbn; intros K; discriminate|]. intros _ tk h s nv Hin. change (In (tk, h, s, nv) bl) in Hin.
        destruct (SL (rm_pool st pe) eq_refl (fun y Hy Ny => old_in_removed y Hy Ny) tk h s nv Hin) as [G1 G2].
        pose proof (slot_of_spec bl tk h 0 (ex_intro _ s (ex_intro _ nv Hin))) as Rg.
        destruct (zget (e_errs e1) (slot_of bl tk h 0)) as [v|] eqn:Zg.
        -- assert (v = cl_NoError) by (apply (first_err_ok _ _ FE (slot_of bl tk h 0) v); [lia|exact Zg]). subst v.
           apply (bumped_same (rm_pool st pe) s'); [rewrite Hre; reflexivity|]. apply G2. reflexivity.
        -- exfalso. destruct (G1 eq_refl) as [y [Y1 [Y2 [Y3 [Y4 Y5]]]]].
           assert (Ay: att_to r e y = true).
           { unfold att_to, owned. rewrite Y2, Z.eqb_refl. cbn [andb]. unfold att_enc. rewrite Y3. cbn [orb Z.eqb].
             change (K_SetVersion =? K_PackTracts) with false. change (K_SetVersion =? K_RSEncode) with false.
             change (K_SetVersion =? K_Commit) with false. change (K_SetVersion =? K_SetVersion) with true. cbn [orb].
             rewrite Y4, find_enc_tract_eq.
             assert (Pe: tpred tk e = true).
             { unfold tpred. rewrite (bump_list_in fx r e _ _ _ _ Hin), S4. reflexivity. }
             destruct (find (tpred tk) (rd_encs r)) as [z|] eqn:Fz; [|pose proof (find_none _ _ Fz e He); congruence].
             apply find_some in Fz. destruct Fz as [Hz Pz]. unfold tpred in Pz. apply andb_true_iff in Pz.
             apply Z.eqb_eq. apply (ri_wft _ _ _ R1 z e tk Hz He); [tauto|exact (bump_list_in fx r e _ _ _ _ Hin)]. }
           pose proof (ue_rem_cnt fx st r pe e [] R1 Hpe Hown Hatt) as Rc.
           assert ((1 <= cnt (att_to r e) (pool_remove (s_pool st) (p_id pe)))%nat).
           { unfold cnt. assert (Hf: In y (filter (att_to r e) (pool_remove (s_pool st) (p_id pe)))) by (apply filter_In; auto).
             destruct (filter _ _); [destruct Hf|cbn; lia]. }
           lia.
      * intros _. reflexivity.
Qed.

Lemma rr_commit err : e_stage e = 5 -> RInv fx (enc_finish st1 r e (err =? cl_NoError)).
Proof.
  intros S5. assert (N9: e_stage e <> 9) by (rewrite S5; discriminate).
  pose proof (bound_stage 5 S5 ltac:(discriminate)) as Bd. pose proof (ri_w1 _ _ _ R1 e He (or_intror S5)) as W1.
  apply (p3_finish fx st pe r e HI Hpe Hown Hr Hph Hatt N9 e _); [repeat split|lia].
Qed.
End Handlers.

(* ------------------------------------------------------------------ phase 1: Stat replies *)
Lemma find_ptr_tk l tk p : find_ptr l tk = Some p -> pt_tk p = tk.
Proof.
  induction l as [|x l IH]; cbn; [discriminate|]. destruct (tk_eqb (pt_tk x) tk) eqn:E.
  - intros H. injection H as <-. apply tk_eqb_eq. exact E.
  - exact IH.
Qed.

Lemma find_ptr_upd l pn tk : find_ptr (upd_ptr l pn) tk =
  option_map (fun q => if tk_eqb (pt_tk q) (pt_tk pn) then pn else q) (find_ptr l tk).
Proof.
  induction l as [|x l IH]; cbn; [reflexivity|].
  destruct (tk_eqb (pt_tk x) (pt_tk pn)) eqn:K.
  - assert (K2: tk_eqb (pt_tk pn) tk = tk_eqb (pt_tk x) tk) by (apply tk_eqb_eq in K; rewrite K; reflexivity).
    rewrite K2. destruct (tk_eqb (pt_tk x) tk) eqn:E; cbn; [rewrite K; reflexivity|exact IH].
  - destruct (tk_eqb (pt_tk x) tk) eqn:E; cbn; [rewrite K; reflexivity|exact IH].
Qed.

Lemma RInv_del_round fx st op : RInv fx st -> RInv fx (set_rounds st (del_round (s_rounds st) op)).
Proof.
  intros [A0 A B C D E F]. constructor; cbn [s_pool s_next s_nfix s_fix s_rounds set_rounds]; try assumption.
  intros r Hr. apply in_del_round in Hr. eapply RInv1_rounds_irrelevant; [| | |exact (F r Hr)]; reflexivity.
Qed.

(* a round that owns nothing in the pool moves on and issues one call *)
Lemma RInv_own_nothing fx st r r' rp :
  RInv fx st -> In r (s_rounds st) -> rd_op r' = rd_op r ->
  (forall x, In x (s_pool st) -> p_owner x <> rd_op r) ->
  RInv1 fx (issue (set_rounds st (upd_round (s_rounds st) r')) rp (rd_op r)) r' ->
  RInv fx (issue (set_rounds st (upd_round (s_rounds st) r')) rp (rd_op r)).
Proof.
  intros HI Hr Eo Hno H1. pose proof HI as [A0 A B C D E F].
  constructor; cbn [s_pool s_next s_nfix s_fix s_rounds issue set_pool set_rounds]; try assumption.
  - lia.
  - intros x Hx. apply in_app_or in Hx. destruct Hx as [Hx|[<-|[]]]; [specialize (A x Hx); lia|cbn; lia].
  - rewrite map_app. cbn. apply NoDup_snoc; [exact B|]. intros K. apply in_map_iff in K. destruct K as [x [E1 Hx]]. specialize (A x Hx). lia.
  - intros f Hf. destruct (E f Hf) as [E1 E2]. split; [lia|]. intros x Hx Hid.
    apply in_app_or in Hx. destruct Hx as [Hx|[<-|[]]]; [exact (E2 x Hx Hid)|]. cbn in Hid. lia.
  - intros r2 H2. destruct (Z.eq_dec (rd_op r2) (rd_op r)) as [Eq|Nq].
    + rewrite (upd_round_own _ _ _ H2 (eq_trans Eq (eq_sym Eo))). exact H1.
    + apply in_upd_round in H2. destruct H2 as [H2|H2]; [|subst r2; congruence].
      apply (RInv1_pool fx st); [|intros w Hw; exists w; auto|apply bumped_same; reflexivity|exact (F r2 H2)].
      exact (filter_owned_issue (set_rounds st (upd_round (s_rounds st) r')) rp (rd_op r) (rd_op r2) Nq).
Qed.

Lemma RInv1_no_encs fx st r :
  0 < rd_op r -> (forall w, In w (s_wops st) -> wo_op w <> rd_op r) ->
  (forall pe, In pe (s_pool st) -> p_owner pe = rd_op r -> expects fx r (p_rpc pe)) ->
  (forall tk, (cnt (is_stat_for (rd_op r) tk) (s_pool st) <= 1)%nat) ->
  (cnt (is_alloc_for (rd_op r)) (s_pool st) <= 1)%nat -> rd_encs r = [] -> RInv1 fx st r.
Proof.
  intros A B C D E N. constructor; try assumption; rewrite N; try (intros; contradiction); try (intros ? []); try constructor.
  all: intros; contradiction.
Qed.

Lemma owned_false_of op x : p_owner x <> op -> owned op x = false.
Proof. intros H. unfold owned. apply Z.eqb_neq. exact H. Qed.

Lemma RInv_after_stats fx st r' : RInv fx st -> In r' (s_rounds st) -> rd_phase r' = 1 -> all_stats_done r' = true ->
  RInv fx (round_after_stats st r').
Proof.
  intros HI Hr P1 Hd. pose proof (rv_rounds _ _ HI r' Hr) as R1.
  assert (Hno: forall x, In x (s_pool st) -> p_owner x <> rd_op r').
  { intros x Hx O. destruct (ri_exp _ _ _ R1 x Hx O) as [[_ [_ [p [Fp [Dp _]]]]]|[[_ P]|[P _]]]; try (rewrite P1 in P; discriminate).
    unfold all_stats_done in Hd. rewrite forallb_forall in Hd. rewrite (Hd p (find_ptr_in _ _ _ Fp)) in Dp. discriminate. }
  unfold round_after_stats. destruct (_ =? 0).
  - unfold round_check_over. cbn [rd_encs rd_set forallb].
    eapply RInv_same; [| |apply (RInv_del_round fx st (rd_op r') HI)]; reflexivity.
  - change (rd_op r') with (rd_op (rd_set r' 2 (rd_tracts r') [] (rd_done r'))) at 1.
    apply (RInv_own_nothing fx st r'); [exact HI|exact Hr|reflexivity|exact Hno|].
    set (r2 := rd_set r' 2 (rd_tracts r') [] (rd_done r')).
    apply RInv1_no_encs; [exact (ri_pos _ _ _ R1)|exact (ri_nowop _ _ _ R1)| | | |reflexivity].
    + cbn [s_pool issue set_pool set_rounds]. intros x Hx O. apply in_app_or in Hx. destruct Hx as [Hx|[<-|[]]]; [exfalso; exact (Hno x Hx O)|].
      right. left. split; reflexivity.
    + intros tk. cbn [s_pool issue set_pool set_rounds]. rewrite cnt_app.
      rewrite (cnt_zero_forall _ (s_pool st)); [match goal with |- (0 + cnt ?f ?l <= 1)%nat => pose proof (cnt_le_length f l) as L; cbn [length] in L; lia end|]. intros x Hx. unfold is_stat_for. change (rd_op r2) with (rd_op r'). rewrite (owned_false_of _ x (Hno x Hx)). reflexivity.
    + cbn [s_pool issue set_pool set_rounds]. rewrite cnt_app.
      rewrite (cnt_zero_forall _ (s_pool st)); [match goal with |- (0 + cnt ?f ?l <= 1)%nat => pose proof (cnt_le_length f l) as L; cbn [length] in L; lia end|]. intros x Hx. unfold is_alloc_for. change (rd_op r2) with (rd_op r'). rewrite (owned_false_of _ x (Hno x Hx)). reflexivity.
Qed.

Lemma cnt_pos f (l : list pent) x : In x l -> f x = true -> (1 <= cnt f l)%nat.
Proof.
  intros Hx Fx. unfold cnt. assert (Hf: In x (filter f l)) by (apply filter_In; auto). destruct (filter f l); [destruct Hf|cbn; lia].
Qed.

Lemma rpc_tk_stat g h tk v : rpc_tk (mk_stat g h tk v) = tk. Proof. unfold rpc_tk. cbn. apply tkey_eta. Qed.

Section StatReply.
Variables (fx : fixes) (st : state) (pe : pent) (r : round) (p : ptr).
Hypothesis HI : RInv fx st.
Hypothesis Hpe : In pe (s_pool st).
Hypothesis Hown : p_owner pe = rd_op r.
Hypothesis Hr : In r (s_rounds st).
Hypothesis Hk : k_kind (p_rpc pe) = K_CtlStat.
Hypothesis Hph : rd_phase r = 1.
Hypothesis Fp : find_ptr (rd_tracts r) (rpc_tk (p_rpc pe)) = Some p.
Let tk := rpc_tk (p_rpc pe).
Let R1 : RInv1 fx st r := rv_rounds _ _ HI r Hr.

Lemma st_no_other x : In x (pool_remove (s_pool st) (p_id pe)) -> is_stat_for (rd_op r) tk x = false.
Proof.
  intros Hx. destruct (is_stat_for (rd_op r) tk x) eqn:E; [|reflexivity]. exfalso.
  assert (Fpe: is_stat_for (rd_op r) tk pe = true).
  { unfold is_stat_for, owned, kind_is. rewrite Hown, Hk, !Z.eqb_refl. cbn. apply tk_eqb_refl. }
  pose proof (cnt_remove_lt _ (s_pool st) pe Hpe Fpe). pose proof (ri_stat _ _ _ R1 tk). pose proof (cnt_pos _ _ x Hx E). lia.
Qed.

Lemma stat_R1 pn s' added dn :
  pt_tk pn = tk -> s_wops s' = s_wops st -> s_pool s' = pool_remove (s_pool st) (p_id pe) ++ added -> (length added <= 1)%nat ->
  (forall x, In x added -> p_owner x = rd_op r /\ exists h' rest', p_rpc x = mk_stat (rd_gen r) h' tk (pt_ver p) /\ pt_next pn = h' :: rest' /\ pt_done pn = false) ->
  RInv1 fx s' (rd_set r 1 (upd_ptr (rd_tracts r) pn) [] dn).
Proof.
  intros Htk Hw Hp Hlen Hadd. pose proof (find_ptr_tk _ _ _ Fp) as Ptk. fold tk in Ptk.
  apply RInv1_no_encs; [exact (ri_pos _ _ _ R1)|rewrite Hw; exact (ri_nowop _ _ _ R1)| | | |reflexivity].
  - rewrite Hp. intros x Hx O. cbn [rd_op rd_set] in O. apply in_app_or in Hx. destruct Hx as [Hx|Hx].
    + pose proof (st_no_other x Hx) as NS. apply in_pool_remove in Hx. destruct Hx as [Hx _].
      destruct (ri_exp _ _ _ R1 x Hx O) as [[K [_ [q [Fq [Dq Nq]]]]]|[[_ P]|[P _]]]; try (rewrite Hph in P; discriminate).
      left. split; [exact K|]. split; [reflexivity|]. exists q. cbn [rd_tracts rd_set]. rewrite find_ptr_upd, Fq. cbn [option_map].
      assert (NE: tk_eqb (pt_tk q) (pt_tk pn) = false).
      { rewrite (find_ptr_tk _ _ _ Fq), Htk. unfold is_stat_for, owned, kind_is in NS. rewrite O, K, !Z.eqb_refl in NS. cbn in NS. exact NS. }
      rewrite NE. auto.
    + destruct (Hadd x Hx) as [_ [h' [rest' [E1 [E2 E3]]]]]. left. rewrite E1. split; [reflexivity|]. split; [reflexivity|].
      exists pn. cbn [rd_tracts rd_set]. rewrite rpc_tk_stat, find_ptr_upd. fold tk in Fp. rewrite Fp. cbn [option_map].
      rewrite Ptk, <- Htk, tk_eqb_refl. split; [reflexivity|]. split; [exact E3|]. exists h', rest'. split; [exact E2|reflexivity].
  - intros tk'. rewrite Hp, cnt_app. cbn [rd_op rd_set].
    destruct (tk_eqb tk tk') eqn:E.
    + apply tk_eqb_eq in E. subst tk'. rewrite (cnt_zero_forall _ _ st_no_other). pose proof (cnt_le_length (is_stat_for (rd_op r) tk) added). lia.
    + rewrite (cnt_zero_forall _ added).
      * pose proof (cnt_remove_le (is_stat_for (rd_op r) tk') (s_pool st) (p_id pe)). pose proof (ri_stat _ _ _ R1 tk'). lia.
      * intros x Hx. destruct (Hadd x Hx) as [_ [h' [rest' [E1 _]]]]. unfold is_stat_for. rewrite E1, rpc_tk_stat, E. apply andb_false_r.
  - rewrite Hp, cnt_app. cbn [rd_op rd_set]. rewrite (cnt_zero_forall _ added).
    + pose proof (cnt_remove_le (is_alloc_for (rd_op r)) (s_pool st) (p_id pe)). pose proof (ri_alloc _ _ _ R1). lia.
    + intros x Hx. destruct (Hadd x Hx) as [_ [h' [rest' [E1 _]]]]. unfold is_alloc_for, kind_is. rewrite E1. apply andb_false_r.
Qed.

Lemma in_upd_round_self l r0 r' : In r0 l -> rd_op r0 = rd_op r' -> In r' (upd_round l r').
Proof. intros H E. unfold upd_round. apply in_map_iff. exists r0. rewrite E, Z.eqb_refl. auto. Qed.

Lemma rr_stat h err size stamp : RInv fx (stat_reply fx (rm_pool st pe) r tk h err size stamp).
Proof.
  unfold stat_reply. fold tk in Fp. rewrite Fp.
  set (vmh := if err =? cl_ErrVersionMismatch then h else pt_vmh p).
  match goal with |- context [match pt_next ?x with _ => _ end] => set (p1 := x) end.
  assert (T1: pt_tk p1 = tk /\ pt_done p1 = false).
  { unfold p1. repeat match goal with |- context [if ?b then _ else _] => destruct b end; cbn; split; try reflexivity; apply (find_ptr_tk _ _ _ Fp). }
  destruct T1 as [T1 T2].
  pose proof (ri_pos _ _ _ R1) as Pos.
  destruct (pt_next p1) as [|h' l'] eqn:Nx.
  - set (p2 := pt_set p1 (pt_len p1) [] (pt_stamps p1) vmh true).
    set (r' := rd_set r 1 (upd_ptr (rd_tracts r) p2) [] (rd_done r)).
    set (s1 := set_rounds (rm_pool st pe) (upd_round (s_rounds (rm_pool st pe)) r')).
    assert (B: RInv fx s1).
    { apply (RInv_round_final fx st s1 r' pe []); try reflexivity; try assumption.
      - unfold s1. cbn [s_pool set_rounds rm_pool set_pool]. rewrite app_nil_r. reflexivity.
      - intros i x Hi. destruct i; discriminate.
      - cbn. lia.
      - left. reflexivity.
      - apply (stat_R1 p2 s1 [] (rd_done r)); [exact T1|reflexivity|unfold s1; cbn [s_pool set_rounds rm_pool set_pool]; rewrite app_nil_r; reflexivity|cbn; lia|intros x []]. }
    match goal with |- RInv fx (if _ then round_after_stats ?s2 _ else _) => assert (B2: RInv fx s2 /\ s_rounds s2 = s_rounds s1) end.
    { destruct ((pt_len p2 <? 0) && negb (vmh =? 0)); [|split; [exact B|reflexivity]]. split.
      - apply RInv_start_fix; [exact B|]. split; [exact (rv_next _ _ B)|]. intros x Hx Hid. pose proof (rv_ids _ _ B x Hx). lia.
      - apply (fr_start_fix _ s_rounds); fr. }
    destruct B2 as [B2 B3].
    destruct (all_stats_done r') eqn:AD; [|exact B2].
    apply RInv_after_stats; [exact B2| |reflexivity|exact AD].
    rewrite B3. unfold s1. cbn [s_rounds set_rounds rm_pool set_pool]. apply (in_upd_round_self _ r r' Hr). reflexivity.
  - set (r' := rd_set r 1 (upd_ptr (rd_tracts r) p1) [] (rd_done r)).
    set (rs := [(mk_stat (rd_gen r) h' tk (pt_ver p), rd_op r)]).
    set (s1 := issue (set_rounds (rm_pool st pe) (upd_round (s_rounds (rm_pool st pe)) r')) (mk_stat (rd_gen r) h' tk (pt_ver p)) (rd_op r)).
    apply (RInv_round_final fx st s1 r' pe (mk_ents (s_next st) rs)); try reflexivity; try assumption.
    + apply mk_ents_fresh. intros rp o [H|[]]. injection H as _ <-. left. reflexivity.
    + left. reflexivity.
    + apply (stat_R1 p1 s1 (mk_ents (s_next st) rs) (rd_done r)); [exact T1|reflexivity|reflexivity|cbn; lia|].
      intros x [<-|[]]. cbn [p_owner p_rpc]. split; [reflexivity|]. exists h', l'. auto.
Qed.
End StatReply.

(* ------------------------------------------------------------------ phase 2: the Alloc reply *)
Lemma tmem_in x l : Cluster.Model.tmem x l = true <-> In x l.
Proof.
  unfold Cluster.Model.tmem. rewrite existsb_exists. split.
  - intros [y [Hy E]]. apply tk_eqb_eq in E. subst. exact Hy.
  - intros H. exists x. split; [exact H|apply tk_eqb_refl].
Qed.

Lemma nodup_fix_NoDup (l : list tkt) :
  (fix nodup (l : list tkt) := match l with [] => true | x :: t => negb (Cluster.Model.tmem x t) && nodup t end) l = true -> NoDup l.
Proof.
  induction l as [|x l IH]; intros H; [constructor|]. apply andb_true_iff in H. destruct H as [H1 H2].
  constructor; [|apply IH; exact H2]. intros K. apply tmem_in in K. rewrite K in H1. discriminate.
Qed.

Lemma NoDup_app_not_in {A} (l1 l2 : list A) y : NoDup (l1 ++ l2) -> In y l1 -> ~ In y l2.
Proof.
  induction l1 as [|z l1 IH]; intros N Hy K; [destruct Hy|]. cbn in N. inversion N as [|? ? N1 N2]; subst.
  destruct Hy as [->|Hy]; [apply N1; apply in_or_app; right; exact K|exact (IH N2 Hy K)].
Qed.

Lemma NoDup_app_tail {A} (l1 l2 : list A) : NoDup (l1 ++ l2) -> NoDup l2.
Proof. induction l1 as [|z l1 IH]; intros N; [exact N|]. cbn in N. inversion N as [|? ? N1 N2]; subst. exact (IH N2). Qed.

Lemma NoDup_flat_map_disj {A} (g : A -> list tkt) (l : list A) k1 k2 x1 x2 tk :
  NoDup (flat_map g l) -> nth_error l k1 = Some x1 -> nth_error l k2 = Some x2 -> In tk (g x1) -> In tk (g x2) -> k1 = k2.
Proof.
  revert k1 k2. induction l as [|a l IH]; intros k1 k2 N H1 H2 I1 I2; [destruct k1; discriminate|].
  cbn [flat_map] in N. 
  assert (Na: forall y, In y (g a) -> ~ In y (flat_map g l)) by (intros y Hy; exact (NoDup_app_not_in _ _ y N Hy)).
  assert (Nl: NoDup (flat_map g l)) by (exact (NoDup_app_tail _ _ N)).
  destruct k1 as [|k1], k2 as [|k2]; cbn in H1, H2.
  - reflexivity.
  - injection H1 as <-. exfalso. apply (Na tk I1). apply in_flat_map. exists x2. split; [eapply nth_error_In; eauto|exact I2].
  - injection H2 as <-. exfalso. apply (Na tk I2). apply in_flat_map. exists x1. split; [eapply nth_error_In; eauto|exact I1].
  - f_equal. eapply IH; eauto.
Qed.

Definition mk_eop (r : round) (base : Z) (i : nat) (x : list Z * list (tkt * Z)) : encop :=
  let '(hosts, cs) := x in
  {| e_base := base + Z.of_nat i * (RS_N + RS_M);
     e_chunks := map (fun '(tk, o) => (tk, o, match find_ptr (rd_tracts r) tk with Some p => pt_len p | None => 0 end)) cs;
     e_hosts := hosts; e_stage := match hosts with [] => 9 | _ => 2 end; e_wait := RS_N; e_errs := [] |}.
Fixpoint mk_eops (r : round) (base : Z) (i : nat) (l : list (list Z * list (tkt * Z))) : list encop :=
  match l with [] => [] | x :: t => mk_eop r base i x :: mk_eops r base (S i) t end.

Lemma mk_eops_in r base l : forall i e, In e (mk_eops r base i l) ->
  exists k x, nth_error l k = Some x /\ e = mk_eop r base (i + k) x.
Proof.
  induction l as [|a l IH]; intros i e H; [destruct H|]. cbn in H. destruct H as [<-|H].
  - exists O, a. split; [reflexivity|]. rewrite Nat.add_0_r. reflexivity.
  - destruct (IH (S i) e H) as [k [x [E1 E2]]]. exists (S k), x. split; [exact E1|]. rewrite E2. f_equal. lia.
Qed.

Lemma mk_eop_base r base i x : e_base (mk_eop r base i x) = base + Z.of_nat i * (RS_N + RS_M).
Proof. destruct x. reflexivity. Qed.

Lemma mk_eops_bases r base l : forall i, map e_base (mk_eops r base i l) = map (fun k => base + Z.of_nat (i + k) * (RS_N + RS_M)) (seq 0 (length l)).
Proof.
  induction l as [|a l IH]; intros i; cbn [mk_eops map length seq]; [reflexivity|].
  rewrite mk_eop_base, Nat.add_0_r. f_equal. rewrite IH, <- seq_shift, map_map. apply map_ext. intros k. f_equal. f_equal. lia.
Qed.

Lemma NoDup_map_inj {A B} (f : A -> B) l : (forall a b, f a = f b -> a = b) -> NoDup l -> NoDup (map f l).
Proof.
  intros Hf. induction l as [|x l IH]; intros N; cbn; [constructor|]. inversion N as [|? ? N1 N2]; subst.
  constructor; [|apply IH; exact N2]. intros K. apply in_map_iff in K. destruct K as [y [E Hy]]. apply Hf in E. subst. contradiction.
Qed.

Lemma mk_eops_nodup r base i l : NoDup (map e_base (mk_eops r base i l)).
Proof.
  rewrite mk_eops_bases. apply NoDup_map_inj; [|apply seq_NoDup].
  intros a b H. pose proof RSNM_pos. nia.
Qed.

Lemma mk_eop_in_chunks r base i hosts cs tk : in_chunks tk (mk_eop r base i (hosts, cs)) = true <-> In tk (map fst cs).
Proof.
  unfold in_chunks. cbn [mk_eop e_chunks]. rewrite existsb_exists. split.
  - intros [[[tk' o] ln] [H E]]. apply in_map_iff in H. destruct H as [[tk2 o2] [E2 H2]]. injection E2 as <- _ _.
    apply tk_eqb_eq in E. subst. apply in_map_iff. exists (tk2, o2). auto.
  - intros H. apply in_map_iff in H. destruct H as [[tk2 o2] [E2 H2]]. cbn in E2. subst tk2.
    eexists. split; [apply in_map_iff; exists (tk, o2); split; [reflexivity|exact H2]|]. apply tk_eqb_refl.
Qed.

Fixpoint packs_of (gen op base : Z) (i : Z) (hosts : list Z) : list (rpc * Z) :=
  match hosts with
  | [] => []
  | h :: t => (if i <? RS_N then [(mk_pack gen h (base + i), op)] else []) ++ packs_of gen op base (i + 1) t
  end.
Definition pack_list (gen op : Z) (eops : list encop) : list (rpc * Z) :=
  flat_map (fun e => packs_of gen op (e_base e) 0 (e_hosts e)) eops.

Lemma issue_all_app st a b : issue_all st (a ++ b) = issue_all (issue_all st a) b.
Proof. unfold issue_all. apply fold_left_app. Qed.

Lemma packs_fold gen op base hosts : forall st i,
  fst (fold_left (fun '(s', i) h => (if i <? RS_N then issue s' (mk_pack gen h (base + i)) op else s', i + 1)) hosts (st, i)) =
  issue_all st (packs_of gen op base i hosts).
Proof.
  induction hosts as [|h t IH]; intros st i; cbn [fold_left packs_of fst]; [reflexivity|].
  rewrite IH, issue_all_app. destruct (i <? RS_N); reflexivity.
Qed.

Lemma pack_list_fold gen op eops : forall st,
  fold_left (fun s e => fst (fold_left (fun '(s', i) h => (if i <? RS_N then issue s' (mk_pack gen h (e_base e + i)) op else s', i + 1)) (e_hosts e) (s, 0))) eops st =
  issue_all st (pack_list gen op eops).
Proof.
  induction eops as [|e t IH]; intros st; cbn [fold_left pack_list flat_map]; [reflexivity|].
  rewrite IH, packs_fold, issue_all_app. reflexivity.
Qed.

Lemma packs_of_in gen op base hosts : forall i rp o, 0 <= i -> In (rp, o) (packs_of gen op base i hosts) ->
  o = op /\ exists j h, i <= j < RS_N /\ rp = mk_pack gen h (base + j) /\ hosts <> [].
Proof.
  induction hosts as [|h t IH]; intros i rp o Hi H; [destruct H|]. cbn [packs_of] in H. apply in_app_or in H. destruct H as [H|H].
  - destruct (i <? RS_N) eqn:E; [|destruct H]. destruct H as [H|[]]. injection H as <- <-. split; [reflexivity|].
    exists i, h. apply Z.ltb_lt in E. split; [lia|]. split; [reflexivity|discriminate].
  - destruct (IH (i + 1) rp o ltac:(lia) H) as [E1 [j [h' [J1 [J2 _]]]]]. split; [exact E1|]. exists j, h'. split; [lia|]. split; [exact J2|discriminate].
Qed.

Lemma packs_of_length gen op base hosts : forall i, 0 <= i -> Z.of_nat (length (packs_of gen op base i hosts)) <= Z.max 0 (RS_N - i).
Proof.
  induction hosts as [|h t IH]; intros i Hi; cbn [packs_of length]; [lia|]. rewrite app_length, Nat2Z.inj_add.
  specialize (IH (i + 1) ltac:(lia)). destruct (i <? RS_N) eqn:E; cbn [length]; [apply Z.ltb_lt in E|apply Z.ltb_ge in E]; lia.
Qed.

Definition pent_of (rp : rpc) (o : Z) : pent := {| p_id := 0; p_rpc := rp; p_owner := o; p_run := false; p_lose := false |}.

Lemma cnt_att_mk_ents r e rs : forall n,
  cnt (att_to r e) (mk_ents n rs) = length (filter (fun x => att_to r e (pent_of (fst x) (snd x))) rs).
Proof.
  unfold cnt. induction rs as [|[rp o] rs IH]; intros n; cbn [mk_ents filter]; [reflexivity|].
  assert (E: att_to r e {| p_id := n; p_rpc := rp; p_owner := o; p_run := false; p_lose := false |} = att_to r e (pent_of (fst (rp, o)) (snd (rp, o)))) by reflexivity.
  rewrite E. destruct (att_to r e (pent_of (fst (rp, o)) (snd (rp, o)))); cbn [length]; rewrite IH; reflexivity.
Qed.

Lemma filter_none_length {B} (g : B -> bool) l0 : (forall y, In y l0 -> g y = false) -> length (filter g l0) = 0%nat.
Proof. induction l0 as [|y l0 IH0]; intros Hy; cbn; [reflexivity|]. rewrite (Hy y (or_introl eq_refl)). apply IH0. intros z Hz. apply Hy. right. exact Hz. Qed.

Lemma filter_le_length {B} (g : B -> bool) l0 : (length (filter g l0) <= length l0)%nat.
Proof. induction l0 as [|y l0 IH0]; cbn; [lia|]. destruct (g y); cbn; lia. Qed.

Lemma filter_flat_map_one {A B} (g : B -> bool) (P : A -> list B) (same : A -> bool) (l : list A) (M : nat) :
  (forall e2, In e2 l -> same e2 = false -> forall y, In y (P e2) -> g y = false) ->
  (forall e1 e2, In e1 l -> In e2 l -> same e1 = true -> same e2 = true -> e1 = e2) ->
  (forall e2, In e2 l -> same e2 = true -> (length (P e2) <= M)%nat) -> NoDup l ->
  (length (filter g (flat_map P l)) <= M)%nat.
Proof.
  induction l as [|a l IH]; intros H U HM N; cbn [flat_map]; [cbn; lia|]. inversion N as [|? ? N1 N2]; subst.
  rewrite filter_app, app_length.
  destruct (same a) eqn:Sa.
  - assert (R0: length (filter g (flat_map P l)) = 0%nat).
    { apply filter_none_length. intros y Hy. apply in_flat_map in Hy. destruct Hy as [e2 [H2 Hy]].
      destruct (same e2) eqn:S2; [|exact (H e2 (or_intror H2) S2 y Hy)].
      exfalso. apply N1. rewrite (U a e2 (or_introl eq_refl) (or_intror H2) Sa S2). exact H2. }
    pose proof (filter_le_length g (P a)). pose proof (HM a (or_introl eq_refl) Sa). lia.
  - rewrite (filter_none_length g (P a)); [|intros y Hy; exact (H a (or_introl eq_refl) Sa y Hy)].
    apply IH; auto.
    + intros e2 H2. apply H. right. exact H2.
    + intros e1 e2 H1 H2. apply U; right; assumption.
    + intros e2 H2. apply HM. right. exact H2.
Qed.

Section AllocReply.
Variables (fx : fixes) (st : state) (pe : pent) (r : round) (base : Z) (l : list (list Z * list (tkt * Z))).
Hypothesis HI : RInv fx st.
Hypothesis Hpe : In pe (s_pool st).
Hypothesis Hown : p_owner pe = rd_op r.
Hypothesis Hr : In r (s_rounds st).
Hypothesis Hk : k_kind (p_rpc pe) = K_Alloc.
Hypothesis Hph : rd_phase r = 2.
Hypothesis Hnd : NoDup (flat_map (fun x : list Z * list (tkt * Z) => map fst (snd x)) l).
Let R1 : RInv1 fx st r := rv_rounds _ _ HI r Hr.
Let eops := mk_eops r base 0 l.
Let r' := rd_set r 3 (rd_tracts r) eops (rd_done r).

Lemma al_no_own x : In x (pool_remove (s_pool st) (p_id pe)) -> p_owner x <> rd_op r.
Proof.
  intros Hx O. pose proof Hx as Hx0. apply in_pool_remove in Hx0. destruct Hx0 as [Hx0 _].
  destruct (ri_exp _ _ _ R1 x Hx0 O) as [[_ [P _]]|[[K _]|[P _]]]; try (rewrite Hph in P; discriminate).
  assert (Fx: is_alloc_for (rd_op r) x = true) by (unfold is_alloc_for, owned, kind_is; rewrite O, K, !Z.eqb_refl; reflexivity).
  assert (Fpe: is_alloc_for (rd_op r) pe = true) by (unfold is_alloc_for, owned, kind_is; rewrite Hown, Hk, !Z.eqb_refl; reflexivity).
  pose proof (cnt_remove_lt _ (s_pool st) pe Hpe Fpe). pose proof (ri_alloc _ _ _ R1). pose proof (cnt_pos _ _ x Hx Fx). lia.
Qed.

Lemma eops_range e1 e2 c : In e1 eops -> In e2 eops -> in_range e1 c = true -> in_range e2 c = true -> e_base e1 = e_base e2.
Proof.
  intros H1 H2 C1 C2. destruct (mk_eops_in _ _ _ _ _ H1) as [k1 [x1 [_ ->]]]. destruct (mk_eops_in _ _ _ _ _ H2) as [k2 [x2 [_ ->]]].
  unfold in_range in C1, C2. rewrite mk_eop_base in *. apply andb_true_iff in C1, C2.
  destruct C1 as [A1 B1], C2 as [A2 B2]. apply Z.leb_le in A1, A2. apply Z.ltb_lt in B1, B2.
  unfold RS_N, RS_M in *. assert (k1 = k2) by lia. subst. rewrite !mk_eop_base. reflexivity.
Qed.

Lemma eops_tracts e1 e2 tk : In e1 eops -> In e2 eops -> in_chunks tk e1 = true -> in_chunks tk e2 = true -> e_base e1 = e_base e2.
Proof.
  intros H1 H2 C1 C2. destruct (mk_eops_in _ _ _ _ _ H1) as [k1 [[h1 c1] [N1 ->]]]. destruct (mk_eops_in _ _ _ _ _ H2) as [k2 [[h2 c2] [N2 ->]]].
  apply mk_eop_in_chunks in C1, C2.
  assert (k1 = k2) by (eapply (NoDup_flat_map_disj _ l k1 k2 _ _ tk Hnd N1 N2); assumption).
  subst. rewrite !mk_eop_base. reflexivity.
Qed.

Lemma al_att e j : In e eops -> 0 <= j < RS_N + RS_M -> find_enc_chunk r' (e_base e + j) = Some e.
Proof.
  intros He Hj.
  assert (Ir: in_range e (e_base e + j) = true) by (unfold in_range; apply andb_true_iff; split; [apply Z.leb_le|apply Z.ltb_lt]; lia).
  destruct (find_enc_chunk r' (e_base e + j)) as [z|] eqn:F.
  - apply find_enc_chunk_in in F. destruct F as [Hz Iz]. cbn [rd_encs r' rd_set] in Hz.
    f_equal. apply (nodup_base_eq eops); [apply mk_eops_nodup|exact Hz|exact He|exact (eops_range z e _ Hz He Iz Ir)].
  - exfalso. unfold find_enc_chunk in F. pose proof (find_none _ _ F e He) as K. cbv beta in K. unfold in_range in Ir. congruence.
Qed.

Lemma eops_stage e : In e eops -> (e_hosts e = [] /\ e_stage e = 9) \/ (e_hosts e <> [] /\ e_stage e = 2).
Proof.
  intros He. destruct (mk_eops_in _ _ _ _ _ He) as [k [[hs cs] [_ ->]]]. cbn [mk_eop e_hosts e_stage].
  destruct hs; [left; auto|right; split; [discriminate|reflexivity]].
Qed.
Lemma eops_wait e : In e eops -> e_wait e = RS_N.
Proof. intros He. destruct (mk_eops_in _ _ _ _ _ He) as [k [[hs cs] [_ ->]]]. reflexivity. Qed.

Lemma al_pack_in rp o : In (rp, o) (pack_list (rd_gen r) (rd_op r) eops) ->
  o = rd_op r /\ exists e j h, In e eops /\ 0 <= j < RS_N /\ rp = mk_pack (rd_gen r) h (e_base e + j) /\ e_hosts e <> [].
Proof.
  unfold pack_list. intros H. apply in_flat_map in H. destruct H as [e [He H]].
  destruct (packs_of_in _ _ _ _ 0 rp o ltac:(lia) H) as [E1 [j [h [J1 [J2 J3]]]]]. split; [exact E1|]. exists e, j, h. auto.
Qed.

Lemma al_att_pack e j h : In e eops -> 0 <= j < RS_N -> att_enc r' (mk_pack (rd_gen r) h (e_base e + j)) = Some e.
Proof.
  intros He Hj. unfold att_enc. cbn [k_kind mk_pack mk_rpc Cluster.Model.k_kind]. cbn [orb Z.eqb].
  change (nth 1 (k_aux (mk_pack (rd_gen r) h (e_base e + j))) 0) with (e_base e + j). apply al_att; [exact He|]. unfold RS_N, RS_M in *. lia.
Qed.

Lemma alloc_R1 s' : s_wops s' = s_wops st ->
  s_pool s' = pool_remove (s_pool st) (p_id pe) ++ mk_ents (s_next st) (pack_list (rd_gen r) (rd_op r) eops) ->
  RInv1 fx s' r'.
Proof.
  intros Hw Hp.
  assert (NoOwn: forall x, In x (pool_remove (s_pool st) (p_id pe)) -> owned (rd_op r) x = false).
  { intros x Hx. apply owned_false_of. apply al_no_own. exact Hx. }
  assert (PK: forall x, In x (mk_ents (s_next st) (pack_list (rd_gen r) (rd_op r) eops)) -> k_kind (p_rpc x) = K_PackTracts).
  { intros x Hx. apply mk_ents_in in Hx. destruct (al_pack_in _ _ Hx) as [_ [e [j [h [_ [_ [E _]]]]]]]. rewrite E. reflexivity. }
  constructor.
  - exact (ri_pos _ _ _ R1).
  - rewrite Hw. exact (ri_nowop _ _ _ R1).
  - rewrite Hp. intros x Hx O. apply in_app_or in Hx. destruct Hx as [Hx|Hx]; [exfalso; exact (al_no_own x Hx O)|].
    apply mk_ents_in in Hx. destruct (al_pack_in _ _ Hx) as [_ [e [j [h [He [Hj [E Hh]]]]]]].
    right. right. split; [reflexivity|]. exists e. rewrite E. split; [apply al_att_pack; assumption|].
    destruct (eops_stage e He) as [[K _]|[_ K]]; [contradiction|]. rewrite K. split; [reflexivity|]. intros Q. vm_compute in Q. discriminate.
  - intros tk. rewrite Hp, cnt_app. rewrite !cnt_zero_forall; [lia| |].
    + intros x Hx. unfold is_stat_for, kind_is. rewrite (PK x Hx). cbn. rewrite andb_false_r. reflexivity.
    + intros x Hx. unfold is_stat_for. change (rd_op r') with (rd_op r). rewrite (NoOwn x Hx). reflexivity.
  - rewrite Hp, cnt_app. rewrite !cnt_zero_forall; [lia| |].
    + intros x Hx. unfold is_alloc_for, kind_is. rewrite (PK x Hx). cbn. apply andb_false_r.
    + intros x Hx. unfold is_alloc_for. change (rd_op r') with (rd_op r). rewrite (NoOwn x Hx). reflexivity.
  - intros e He. cbn [rd_encs r' rd_set] in He. rewrite Hp, cnt_app.
    rewrite (cnt_zero_forall (att_to r' e) (pool_remove (s_pool st) (p_id pe))).
    2:{ intros x Hx. unfold att_to. change (rd_op r') with (rd_op r). rewrite (NoOwn x Hx). reflexivity. }
    rewrite cnt_att_mk_ents. unfold pack_list.
    assert (ND: NoDup eops) by (eapply NoDup_map_inv; apply (mk_eops_nodup r base 0 l)).
    assert (LE: (length (filter (fun x => att_to r' e (pent_of (fst x) (snd x))) (flat_map (fun e0 => packs_of (rd_gen r) (rd_op r) (e_base e0) 0 (e_hosts e0)) eops)) <= Z.to_nat (bound e))%nat).
    { apply (filter_flat_map_one _ _ (fun e2 => e_base e2 =? e_base e) eops); [| | |exact ND].
      - intros e2 H2 S2 [rp o] Hy. cbn [fst snd]. destruct (packs_of_in _ _ _ _ 0 rp o ltac:(lia) Hy) as [-> [j [h [J1 [J2 _]]]]].
        unfold att_to. cbn [p_rpc pent_of]. rewrite J2, (al_att_pack e2 j h H2 J1), S2. apply andb_false_r.
      - intros e1 e2 H1 H2 S1 S2. apply Z.eqb_eq in S1, S2. apply (nodup_base_eq eops); [apply mk_eops_nodup|assumption..|congruence].
      - intros e2 H2 S2. apply Z.eqb_eq in S2. assert (e2 = e) by (apply (nodup_base_eq eops); [apply mk_eops_nodup|assumption..]). subst e2.
        unfold bound. destruct (eops_stage e He) as [[K1 K2]|[K1 K2]]; rewrite K2.
        + rewrite K1. cbn. lia.
        + change (2 =? 9) with false. cbv iota. rewrite (eops_wait e He). pose proof (packs_of_length (rd_gen r) (rd_op r) (e_base e) (e_hosts e) 0 ltac:(lia)). unfold RS_N in *. lia. }
    assert (0 <= bound e). { unfold bound. destruct (e_stage e =? 9); [lia|]. rewrite (eops_wait e He). unfold RS_N. lia. }
    lia.
  - intros e He S4. cbn [rd_encs r' rd_set] in He. destruct (eops_stage e He) as [[_ K]|[_ K]]; rewrite K in S4; discriminate.
  - intros e He S5. cbn [rd_encs r' rd_set] in He. destruct (eops_stage e He) as [[_ K]|[_ K]]; rewrite K in S5; discriminate.
  - intros e1 e2 c H1 H2. apply eops_range; assumption.
  - intros e1 e2 tk H1 H2. apply eops_tracts; assumption.
  - apply mk_eops_nodup.
  - intros e He S35. cbn [rd_encs r' rd_set] in He. destruct (eops_stage e He) as [[_ K]|[_ K]]; rewrite K in S35; destruct S35; discriminate.
  - intros e He Hh. cbn [rd_encs r' rd_set] in He. destruct (eops_stage e He) as [[_ K]|[K _]]; [exact K|contradiction].
Qed.
End AllocReply.

Lemma RInv_del_own fx st pe a b c :
  RInv fx st -> In pe (s_pool st) ->
  RInv fx (add_fin (set_rounds (rm_pool st pe) (del_round (s_rounds (rm_pool st pe)) (p_owner pe))) a b c).
Proof.
  intros HI Hpe.
  apply (RInv_assemble fx st _ (p_owner pe) pe []); try reflexivity; try assumption.
  - cbn [s_pool add_fin set_fin set_rounds rm_pool set_pool]. rewrite app_nil_r. reflexivity.
  - intros i x Hi. destruct i; discriminate.
  - cbn. lia.
  - intros r2 H2 _. cbn [s_rounds add_fin set_fin set_rounds rm_pool set_pool] in H2. apply in_del_round in H2. exact H2.
  - intros r2 H2 E. cbn [s_rounds add_fin set_fin set_rounds rm_pool set_pool] in H2. unfold del_round in H2. apply filter_In in H2.
    destruct H2 as [_ H2]. rewrite E, Z.eqb_refl in H2. discriminate.
Qed.

Lemma rr_alloc fx st pe r err base want hint :
  RInv fx st -> In pe (s_pool st) -> p_owner pe = rd_op r -> In r (s_rounds st) ->
  k_kind (p_rpc pe) = K_Alloc -> rd_phase r = 2 ->
  RInv fx (alloc_reply (rm_pool st pe) r err base want hint).
Proof.
  intros HI Hpe Hown Hr Hk Hph. unfold alloc_reply.
  destruct (negb (err =? cl_NoError)).
  { unfold round_check_over. cbn [rd_encs rd_set forallb]. cbn [rd_op rd_set]. rewrite <- Hown. exact (RInv_del_own fx st pe _ _ _ HI Hpe). }
  cbv zeta.
  set (encs := match hint with [] => [] | n :: rest => parse_encs (Z.to_nat n) rest end).
  match goal with |- context [if negb ?v then _ else _] => destruct (negb v) eqn:V end.
  { rewrite <- Hown. exact (RInv_del_own fx st pe _ _ _ HI Hpe). }
  apply negb_false_iff in V. apply andb_true_iff in V. destruct V as [_ V].
  apply nodup_fix_NoDup in V.
  match goal with |- context [(fix go (i : nat) (l : list (list Z * list (tkt * Z))) {struct l} : list encop := _) O encs] =>
    set (eops := (fix go (i : nat) (l : list (list Z * list (tkt * Z))) {struct l} : list encop := _) O encs) end.
  assert (Ee: eops = mk_eops r base 0 encs).
  { unfold eops. generalize encs. generalize 0%nat. intros i l0. revert i. induction l0 as [|a t IH]; intros i; [reflexivity|]. cbn [mk_eops]. rewrite <- IH. destruct a. reflexivity. }
  rewrite Ee. rewrite pack_list_fold.
  set (r' := rd_set r 3 (rd_tracts r) (mk_eops r base 0 encs) (rd_done r)).
  set (rs := pack_list (rd_gen r) (rd_op r) (mk_eops r base 0 encs)).
  set (s0 := set_rounds (rm_pool st pe) (upd_round (s_rounds (rm_pool st pe)) r')).
  destruct (issue_all_spec rs s0) as [P1 [P2 P3]]. unfold pO in P3. injection P3 as Q1 Q2 Q3 Q4 Q5.
  assert (Nd2: NoDup (flat_map (fun x : list Z * list (tkt * Z) => map fst (snd x)) encs)).
  { erewrite flat_map_ext; [exact V|]. intros [hs cs]. reflexivity. }
  assert (Fr: fresh_ids (s_next st) (rd_op r') (mk_ents (s_next st) rs)).
  { apply mk_ents_fresh. intros rp o Hin. left. unfold rs, pack_list in Hin. apply in_flat_map in Hin. destruct Hin as [e [_ Hin]].
    exact (proj1 (packs_of_in _ _ _ _ 0 rp o ltac:(lia) Hin)). }
  assert (Nx: s_next (issue_all s0 rs) = s_next st + Z.of_nat (length (mk_ents (s_next st) rs))) by (rewrite P2, mk_ents_length; reflexivity).
  assert (Pool: s_pool (issue_all s0 rs) = pool_remove (s_pool st) (p_id pe) ++ mk_ents (s_next st) rs) by (rewrite P1; reflexivity).
  assert (U: RInv1 fx (issue_all s0 rs) r') by (apply (alloc_R1 fx st pe r base encs HI Hpe Hown Hr Hk Hph Nd2); [exact Q2|exact Pool]).
  exact (RInv_check_over fx st (issue_all s0 rs) r' pe _ HI Hpe Hown Q2 Q3 Q4 Q1 (or_intror Q5) Pool Fr Nx U).
Qed.

(* ------------------------------------------------------------------ a reply reaches its round *)
Definition sv_res_ok (st : state) (pe : pent) (res : list Z) : Prop :=
  k_kind (p_rpc pe) = K_SetVersion -> hd cl_ErrRPC res = cl_NoError ->
  bumped st (k_ts (p_rpc pe)) (rpc_tk (p_rpc pe)) (k_ver (p_rpc pe)).

Lemma find_round_op l op r : find_round l op = Some r -> rd_op r = op.
Proof.
  induction l as [|x l IH]; cbn; [discriminate|]. destruct (rd_op x =? op) eqn:E.
  - intros H. injection H as <-. apply Z.eqb_eq. exact E.
  - exact IH.
Qed.

Lemma stage_kind_cases s k : k = stage_kind s -> k <> -1 ->
  (s = 2 /\ k = K_PackTracts) \/ (s = 3 /\ k = K_RSEncode) \/ (s = 4 /\ k = K_SetVersion) \/ (s = 5 /\ k = K_Commit).
Proof.
  unfold stage_kind. intros -> N.
  destruct (s =? 2) eqn:E2; [apply Z.eqb_eq in E2; auto|].
  destruct (s =? 3) eqn:E3; [apply Z.eqb_eq in E3; auto|].
  destruct (s =? 4) eqn:E4; [apply Z.eqb_eq in E4; auto|].
  destruct (s =? 5) eqn:E5; [apply Z.eqb_eq in E5; auto 6|]. contradiction.
Qed.

Lemma att_enc_kind r rp e : att_enc r rp = Some e ->
  k_kind rp = K_PackTracts \/ k_kind rp = K_RSEncode \/ k_kind rp = K_Commit \/ k_kind rp = K_SetVersion.
Proof.
  unfold att_enc.
  destruct (k_kind rp =? K_PackTracts) eqn:E1; [apply Z.eqb_eq in E1; auto|].
  destruct (k_kind rp =? K_RSEncode) eqn:E2; [apply Z.eqb_eq in E2; auto|]. cbn [orb].
  destruct (k_kind rp =? K_Commit) eqn:E3; [apply Z.eqb_eq in E3; auto|].
  destruct (k_kind rp =? K_SetVersion) eqn:E4; [apply Z.eqb_eq in E4; auto|]. discriminate.
Qed.

Lemma RInv_round_reply fx st pe r res hint :
  RInv fx st -> In pe (s_pool st) -> find_round (s_rounds st) (p_owner pe) = Some r -> sv_res_ok st pe res ->
  RInv fx (round_reply fx (rm_pool st pe) (p_owner pe) (p_rpc pe) res hint).
Proof.
  intros HI Hpe Fr Hres. pose proof (find_round_in _ _ _ Fr) as Hr. pose proof (find_round_op _ _ _ Fr) as Ho. symmetry in Ho.
  unfold round_reply. change (s_rounds (rm_pool st pe)) with (s_rounds st). rewrite Fr.
  set (rp := p_rpc pe) in *. pose proof (rv_rounds _ _ HI r Hr) as R1.
  destruct (ri_exp _ _ _ R1 pe Hpe Ho) as [[K [P [p [Fp _]]]]|[[K P]|[P [e [A [K S]]]]]]; fold rp in K.
  - rewrite K. change (K_CtlStat =? K_CtlStat) with true. cbv iota.
    exact (rr_stat fx st pe r p HI Hpe Ho Hr K P Fp _ _ _ _).
  - rewrite K. change (K_Alloc =? K_CtlStat) with false. change (K_Alloc =? K_Alloc) with true. cbv iota.
    exact (rr_alloc fx st pe r _ _ _ _ HI Hpe Ho Hr K P).
  - fold rp in A. assert (Kn: k_kind rp <> -1).
    { destruct (att_enc_kind _ _ _ A) as [Q|[Q|[Q|Q]]]; rewrite Q; vm_compute; discriminate. }
    destruct (stage_kind_cases _ _ K Kn) as [[S2 Q]|[[S3 Q]|[[S4 Q]|[S5 Q]]]]; rewrite Q.
    + change (K_PackTracts =? K_CtlStat) with false. change (K_PackTracts =? K_Alloc) with false. change (K_PackTracts =? K_PackTracts) with true. cbv iota.
      assert (A2: find_enc_chunk r (nth 1 (k_aux rp) 0) = Some e).
      { unfold att_enc in A. rewrite Q in A. exact A. }
      rewrite A2, Ho. exact (rr_pack fx st pe r e HI Hpe Ho Hr P A _ _ S2).
    + change (K_RSEncode =? K_CtlStat) with false. change (K_RSEncode =? K_Alloc) with false. change (K_RSEncode =? K_PackTracts) with false.
      change (K_RSEncode =? K_RSEncode) with true. cbv iota.
      assert (A2: find_enc_chunk r (nth 1 (k_aux rp) 0) = Some e).
      { unfold att_enc in A. rewrite Q in A. exact A. }
      rewrite A2, Ho. exact (rr_encode fx st pe r e HI Hpe Ho Hr P A _ S3).
    + change (K_SetVersion =? K_CtlStat) with false. change (K_SetVersion =? K_Alloc) with false. change (K_SetVersion =? K_PackTracts) with false.
      change (K_SetVersion =? K_RSEncode) with false. change (K_SetVersion =? K_SetVersion) with true. cbv iota.
      assert (A2: find_enc_tract r (tkey (k_blob rp) (k_tract rp)) = Some e).
      { unfold att_enc in A. rewrite Q in A. exact A. }
      rewrite A2, Ho. destruct (S Q) as [h0 [s0 [nv0 [Hin Erp]]]].
      assert (Hts: k_ts rp = h0) by (unfold rp; rewrite Erp; reflexivity).
      assert (Hkv: k_ver rp = nv0) by (unfold rp; rewrite Erp; reflexivity).
      refine (rr_sv fx st pe r e HI Hpe Ho Hr P A _ h0 s0 nv0 S4 Hin Hts _).
      intros E0. specialize (Hres Q E0). fold rp in Hres. rewrite Hts, Hkv in Hres. exact Hres.
    + change (K_Commit =? K_CtlStat) with false. change (K_Commit =? K_Alloc) with false. change (K_Commit =? K_PackTracts) with false.
      change (K_Commit =? K_RSEncode) with false. change (K_Commit =? K_SetVersion) with false. change (K_Commit =? K_Commit) with true. cbv iota.
      assert (A2: find_enc_chunk r (nth 0 (k_aux rp) 0) = Some e).
      { unfold att_enc in A. rewrite Q in A. exact A. }
      rewrite A2. exact (rr_commit fx st pe r e HI Hpe Ho Hr P A _ S5).
Qed.

(* ------------------------------------------------------------------ deliver, execute, step *)
Lemma find_round_none l op : find_round l op = None -> forall r, In r l -> rd_op r <> op.
Proof.
  induction l as [|x l IH]; cbn; [intros _ r []|]. destruct (rd_op x =? op) eqn:E; [discriminate|].
  intros H r [<-|Hr]; [apply Z.eqb_neq; exact E|exact (IH H r Hr)].
Qed.

Lemma RInv_rm_other fx st pe : RInv fx st -> In pe (s_pool st) -> not_round_op st (p_owner pe) -> RInv fx (rm_pool st pe).
Proof.
  intros HI Hpe Ho. apply RInv_remove_other; [exact HI|]. intros x r Hx Hid Hr.
  assert (x = pe) by exact (nodup_id_eq _ x pe (rv_nodup _ _ HI) Hx Hpe Hid). subst x. intros E. exact (Ho r Hr (eq_sym E)).
Qed.

Lemma RInv_deliver fx st pe res en hint :
  RInv fx st -> In pe (s_pool st) -> sv_res_ok st pe res -> RInv fx (deliver fx st pe res en hint).
Proof.
  intros HI Hpe Hres. unfold deliver. change (set_pool st (pool_remove (s_pool st) (p_id pe)) (s_next st)) with (rm_pool st pe).
  destruct (p_owner pe =? 0) eqn:E0.
  { apply Z.eqb_eq in E0. apply RInv_rm_other; [exact HI|exact Hpe|]. rewrite E0. intros r Hr E. pose proof (ri_pos _ _ _ (rv_rounds _ _ HI r Hr)). lia. }
  destruct (p_owner pe <? 0) eqn:E1.
  { apply Z.ltb_lt in E1. apply RInv_fix_reply. apply RInv_rm_other; [exact HI|exact Hpe|]. eapply neg_not_round; eauto. }
  destruct (find_wop (s_wops (rm_pool st pe)) (p_owner pe)) as [w|] eqn:Fw.
  { apply RInv_cli_reply. apply RInv_rm_other; [exact HI|exact Hpe|]. apply find_wop_in in Fw. destruct Fw as [Hw Ew].
    rewrite <- Ew. eapply wop_not_round; eauto. }
  destruct (find_round (s_rounds st) (p_owner pe)) as [r|] eqn:Fr.
  - exact (RInv_round_reply fx st pe r res hint HI Hpe Fr Hres).
  - unfold round_reply. change (s_rounds (rm_pool st pe)) with (s_rounds st). rewrite Fr.
    apply RInv_rm_other; [exact HI|exact Hpe|]. exact (find_round_none _ _ Fr).
Qed.

Lemma pR_exec_rpc fx st e extra : pR (st_of (exec_rpc fx st e extra)) = pR st.
Proof.
  unfold exec_rpc, st_of.
  destruct (k_kind (p_rpc e) =? K_Write). { via_fst_q (fr_ts_write _ pR ltac:(fr)). }
  destruct (k_kind (p_rpc e) =? K_SetVersion). { via_fst_q (fr_ts_setversion _ pR ltac:(fr)). }
  destruct (k_kind (p_rpc e) =? K_CtlStat). { destruct (ts_stat st _ _ _) as [[? ?] ?]. reflexivity. }
  destruct (k_kind (p_rpc e) =? K_PackTracts). { via_fst_q (fr_ts_pack _ pR ltac:(fr)). }
  destruct (k_kind (p_rpc e) =? K_RSEncode).
  { repeat match goal with |- context [match ?x with _ => _ end] => destruct x | |- context [if ?b then _ else _] => destruct b end; reflexivity. }
  destruct (k_kind (p_rpc e) =? K_GCTract). { destruct (negb _); reflexivity. }
  destruct (k_kind (p_rpc e) =? K_StatBlob). { destruct (Cluster.Model.zget _ _); reflexivity. }
  destruct (k_kind (p_rpc e) =? K_GetTracts).
  { repeat match goal with |- context [match ?x with _ => _ end] => destruct x | |- context [if ?b then _ else _] => destruct b end; reflexivity. }
  destruct (k_kind (p_rpc e) =? K_ReportBadTS). { reflexivity. }
  destruct (k_kind (p_rpc e) =? K_Alloc).
  { destruct (find_round _ _) as [rd|]; [|reflexivity]. destruct (negb _); reflexivity. }
  destruct (k_kind (p_rpc e) =? K_Commit).
  { destruct (find_round _ _) as [rd|]; [|reflexivity].
    destruct (find_enc_chunk _ _) as [eo|]; [|reflexivity].
    match goal with |- context [commit_rs ?a ?b ?c ?d ?e0 ?f ?g] => pose proof (fr_commit_rs _ pR ltac:(fr) ltac:(fr) a b c d e0 f g) as M; destruct (commit_rs a b c d e0 f g) end.
    cbn [fst] in *. exact M. }
  reflexivity.
Qed.

Lemma RInv_exec fx st e extra : RInv fx st -> RInv fx (st_of (exec_rpc fx st e extra)).
Proof. apply RInv_pR; [apply pR_exec_rpc|apply bumped_srel; apply srel_exec_rpc]. Qed.

Definition res_of (x : state * list Z * option centry * list Z) : list Z := snd (fst (fst x)).

Lemma exec_sv_ok fx st e extra : sv_res_ok (st_of (exec_rpc fx st e extra)) e (res_of (exec_rpc fx st e extra)).
Proof.
  intros K. unfold exec_rpc, st_of, res_of. rewrite K.
  change (K_SetVersion =? K_Write) with false. change (K_SetVersion =? K_SetVersion) with true. cbv iota.
  match goal with |- context [ts_setversion ?a ?b ?c ?d ?e0 ?f] => destruct (ts_setversion a b c d e0 f) as [s1 c1] eqn:E end.
  cbn [fst snd hd]. intros C. subst c1. destruct (setversion_ok_bumped _ _ _ _ _ _ _ E) as [rep [H1 H2]]. exists rep. split; [exact H1|exact H2].
Qed.

Lemma sv_res_ok_srel st st' pe res : srel st st' -> sv_res_ok st pe res -> sv_res_ok st' pe res.
Proof. intros S H K C. eapply bumped_srel; [exact S|exact (H K C)]. Qed.

Lemma lost_err_ne r : lost_err r <> cl_NoError.
Proof. unfold lost_err. destruct (_ || _); vm_compute; discriminate. Qed.

Lemma sv_res_ok_lost st pe : sv_res_ok st pe [lost_err (p_rpc pe)].
Proof. intros _ C. cbn in C. exfalso. exact (lost_err_ne _ C). Qed.
Lemma sv_res_ok_err st pe : sv_res_ok st pe [cl_ErrRPC].
Proof. intros _ C. cbn in C. exfalso. vm_compute in C. discriminate. Qed.

Lemma find_pent_in pool rp e : find_pent pool rp = Some e -> In e pool /\ Cluster.Model.rpc_eqb (p_rpc e) rp = true.
Proof.
  induction pool as [|x l IH]; cbn [find_pent]; [discriminate|]. destruct (Cluster.Model.rpc_eqb (p_rpc x) rp && negb (p_run x)) eqn:E.
  - intros H. injection H as <-. apply andb_true_iff in E. split; [left; reflexivity|tauto].
  - intros H. destruct (IH H). split; [right; assumption|assumption].
Qed.

Lemma rpc_eqb_kind a b : Cluster.Model.rpc_eqb a b = true -> k_kind a = k_kind b.
Proof.
  unfold Cluster.Model.rpc_eqb, Cluster.Model.rpc_line. cbn [app Cluster.Model.list_eqb]. intros H.
  apply andb_true_iff in H. destruct H as [H _]. apply Z.eqb_eq. exact H.
Qed.

Definition mark_run (e : pent) (b : bool) (x : pent) : pent :=
  if p_id x =? p_id e then {| p_id := p_id x; p_rpc := p_rpc x; p_owner := p_owner x; p_run := true; p_lose := b |} else x.

Lemma mark_run_same e b x : p_id (mark_run e b x) = p_id x /\ p_rpc (mark_run e b x) = p_rpc x /\ p_owner (mark_run e b x) = p_owner x.
Proof. unfold mark_run. destruct (p_id x =? p_id e); auto. Qed.

Lemma RInv_mark_run fx st e b : RInv fx st -> In e (s_pool st) -> k_kind (p_rpc e) = K_FixVersion ->
  RInv fx (set_pool st (map (mark_run e b) (s_pool st)) (s_next st)).
Proof.
  intros HI He Hk. pose proof HI as [A0 A B C D E F].
  assert (NotOwned: forall r, In r (s_rounds st) -> p_owner e <> rd_op r).
  { intros r Hr O. exact (expects_not_fixversion fx r _ (ri_exp _ _ _ (F r Hr) e He O) Hk). }
  constructor; cbn [s_pool s_next s_nfix s_fix s_rounds set_pool]; try assumption.
  - intros x Hx. apply in_map_iff in Hx. destruct Hx as [y [<- Hy]]. rewrite (proj1 (mark_run_same e b y)). exact (A y Hy).
  - rewrite map_map. erewrite map_ext; [exact B|]. intros y. exact (proj1 (mark_run_same e b y)).
  - intros f Hf. destruct (E f Hf) as [E1 E2]. split; [exact E1|]. intros x Hx Hid. apply in_map_iff in Hx. destruct Hx as [y [<- Hy]].
    destruct (mark_run_same e b y) as [I1 [I2 _]]. rewrite I2. apply E2; [exact Hy|congruence].
  - intros r Hr. apply (RInv1_pool fx st); [|intros w Hw; exists w; auto|apply bumped_same; reflexivity|exact (F r Hr)].
    cbn [s_pool set_pool]. generalize (fun x (Hx : In x (s_pool st)) => nodup_id_eq _ x e B Hx He). generalize (s_pool st).
    induction l as [|x l IH]; intros Hu; cbn [map filter]; [reflexivity|].
    assert (IH': filter (owned (rd_op r)) (map (mark_run e b) l) = filter (owned (rd_op r)) l) by (apply IH; intros y Hy; apply Hu; right; exact Hy).
    destruct (p_id x =? p_id e) eqn:K.
    + assert (M: mark_run e b x = {| p_id := p_id x; p_rpc := p_rpc x; p_owner := p_owner x; p_run := true; p_lose := b |}) by (unfold mark_run; rewrite K; reflexivity).
      rewrite M. apply Z.eqb_eq in K. pose proof (Hu x (or_introl eq_refl) K) as ->.
      assert (O1: owned (rd_op r) e = false) by (apply owned_false_of; exact (NotOwned r Hr)).
      assert (O2: owned (rd_op r) {| p_id := p_id e; p_rpc := p_rpc e; p_owner := p_owner e; p_run := true; p_lose := b |} = false) by exact O1.
      rewrite O1, O2. exact IH'.
    + assert (M: mark_run e b x = x) by (unfold mark_run; rewrite K; reflexivity).
      rewrite M. destruct (owned (rd_op r) x); [f_equal|]; exact IH'.
Qed.

Lemma RInv_step_exec fx st mode l : RInv fx st -> RInv fx (fst (step_exec fx st mode l)).
Proof.
  intros HI. unfold step_exec. destruct (Cluster.Model.parse_rpc l) as [[rp r1]|]; [|exact HI].
  destruct (match r1 with [] => _ | n :: t => _ end) as [extra r2].
  destruct (find_pent (s_pool st) rp) as [e|] eqn:Fe; [|exact HI].
  apply find_pent_in in Fe. destruct Fe as [He Eq].
  destruct (mode =? 4).
  { cbn [fst]. apply RInv_deliver; [exact HI|exact He|]. intros _ C. cbn in C. exfalso. exact (lost_err_ne _ C). }
  destruct (k_kind rp =? K_FixVersion) eqn:Kf.
  { cbn [fst]. apply Z.eqb_eq in Kf. assert (Ke: k_kind (p_rpc e) = K_FixVersion) by (rewrite (rpc_eqb_kind _ _ Eq); exact Kf).
    match goal with |- context [map ?f (s_pool st)] => change f with (mark_run e (mode =? 2)) end.
    apply RInv_start_fix; [exact (RInv_mark_run fx st e (mode =? 2) HI He Ke)|].
    cbn [s_next s_pool set_pool]. split; [exact (proj2 (rv_ids _ _ HI e He))|].
    intros x Hx Hid. apply in_map_iff in Hx. destruct Hx as [y [<- Hy]].
    destruct (mark_run_same e (mode =? 2) y) as [I1 [I2 _]]. rewrite I2. rewrite I1 in Hid.
    rewrite (nodup_id_eq _ y e (rv_nodup _ _ HI) Hy He Hid). exact Ke. }
  pose proof (RInv_exec fx st e extra HI) as H1.
  pose proof (exec_sv_ok fx st e extra) as N1.
  pose proof (pR_exec_rpc fx st e extra) as P1.
  unfold st_of, res_of in *.
  destruct (exec_rpc fx st e extra) as [[[st1 res] en] dump] eqn:X1. cbn [fst snd] in *.
  assert (He1: In e (s_pool st1)). { unfold pR in P1. injection P1 as -> _ _ _ _ _. exact He. }
  destruct (mode =? 3) eqn:M3.
  - pose proof (RInv_exec fx st1 e extra H1) as H2. pose proof (srel_exec_rpc fx st1 e extra) as S2. pose proof (pR_exec_rpc fx st1 e extra) as P2.
    unfold st_of in *.
    destruct (exec_rpc fx st1 e extra) as [[[s' res2] en2] d'] eqn:X2. cbn [fst snd] in *.
    apply RInv_deliver; [exact H2|unfold pR in P2; injection P2 as -> _ _ _ _ _; exact He1|].
    replace (if mode =? 2 then [lost_err rp] else res) with res by (destruct (mode =? 2) eqn:M2; [apply Z.eqb_eq in M2, M3; lia|reflexivity]).
    eapply sv_res_ok_srel; [exact S2|exact N1].
  - apply RInv_deliver; [exact H1|exact He1|]. destruct (mode =? 2); [intros _ C; cbn in C; exfalso; exact (lost_err_ne _ C)|exact N1].
Qed.

Lemma RInv_step_restart fx st ts : RInv fx st -> RInv fx (fst (step_restart fx st ts)).
Proof.
  intros HI. unfold step_restart. cbn [fst].
  set (st0 := set_epoch st (Cluster.Model.zset (s_epoch st) ts (epoch_of st ts + 1))).
  assert (H0: RInv fx st0).
  { eapply RInv_pR; [| |exact HI]; [reflexivity|]. apply bumped_srel. apply (srel_restart st ts). }
  set (victims := filter (fun e => (k_ts (p_rpc e) =? ts) && negb (p_run e)) (s_pool st0)).
  assert (Hv: forall e, In e victims -> In e (s_pool st0)) by (intros e He; apply filter_In in He; tauto).
  assert (J: forall l s, (forall e, In e l -> In e (s_pool st0)) -> RInv fx s -> PR st0 s ->
             RInv fx (fold_left (fun s e => match find (fun x => p_id x =? p_id e) (s_pool s) with
                                           | Some _ => deliver fx s e [cl_ErrRPC] None []
                                           | None => s end) l s)).
  { induction l as [|e l IH]; intros s Hl Hs Ps; cbn [fold_left]; [exact Hs|].
    assert (Hl': forall e0, In e0 l -> In e0 (s_pool st0)) by (intros e0 H; apply Hl; right; exact H).
    destruct (find (fun x => p_id x =? p_id e) (s_pool s)) as [x|] eqn:Fx; [|apply IH; assumption].
    apply find_some in Fx. destruct Fx as [Hx Ex]. apply Z.eqb_eq in Ex.
    pose proof (Hl e (or_introl eq_refl)) as He0. pose proof (rv_ids _ _ H0 e He0) as Ide.
    assert (x = e).
    { destruct (proj2 Ps x Hx) as [K|K]; [|lia]. exact (nodup_id_eq _ x e (rv_nodup _ _ H0) K He0 Ex). }
    subst x. apply IH; [exact Hl'| |].
    - apply RInv_deliver; [exact Hs|exact Hx|apply sv_res_ok_err].
    - eapply PR_trans; [exact Ps|apply PR_deliver]. }
  apply J; [exact Hv|exact H0|apply PR_refl].
Qed.

(* ------------------------------------------------------------------ start of a round *)
Fixpoint ssorted (l : list Z) : Prop := match l with [] => True | x :: t => (forall y, In y t -> x < y) /\ ssorted t end.

Lemma insert_sorted_in x l y : In y (Cluster.Model.insert_sorted x l) -> y = x \/ In y l.
Proof.
  induction l as [|a l IH]; cbn; [intros [H|[]]; auto|].
  destruct (x <? a); [cbn; intros [H|H]; auto|]. destruct (x =? a); [auto|]. cbn. intros [H|H]; [auto|]. destruct (IH H); auto.
Qed.
Lemma insert_sorted_ssorted x l : ssorted l -> ssorted (Cluster.Model.insert_sorted x l).
Proof.
  induction l as [|a l IH]; cbn; [intros _; split; [intros y []|exact I]|]. intros [H1 H2].
  destruct (x <? a) eqn:E1.
  - apply Z.ltb_lt in E1. cbn. split; [|split; assumption]. intros y [<-|Hy]; [exact E1|]. specialize (H1 y Hy). lia.
  - destruct (x =? a) eqn:E2; [cbn; split; assumption|]. apply Z.ltb_ge in E1. apply Z.eqb_neq in E2. cbn. split; [|apply IH; exact H2].
    intros y Hy. apply insert_sorted_in in Hy. destruct Hy as [->|Hy]; [lia|exact (H1 y Hy)].
Qed.
Lemma ssorted_NoDup l : ssorted l -> NoDup l.
Proof.
  induction l as [|a l IH]; cbn; [constructor|]. intros [H1 H2]. constructor; [|apply IH; exact H2].
  intros K. specialize (H1 a K). lia.
Qed.
Lemma blob_ids_NoDup st : NoDup (blob_ids st).
Proof.
  apply ssorted_NoDup. unfold blob_ids. induction (map fst (s_blobs st)) as [|a l IH]; cbn; [exact I|]. apply insert_sorted_ssorted. exact IH.
Qed.

Lemma add_tracts_keys st gen blob : NoDup (map pt_tk (add_tracts st gen blob)) /\ forall p, In p (add_tracts st gen blob) -> fst (pt_tk p) = blob.
Proof.
  unfold add_tracts, tracts_of_blob. destruct (zget (s_blobs st) blob) as [b|]; [|split; [constructor|intros p []]].
  generalize (seq 0 (Z.to_nat (b_nt b))) (seq_NoDup (Z.to_nat (b_nt b)) 0). intros l N.
  induction l as [|i l IH]; cbn [map flat_map]; [split; [constructor|intros p []]|].
  inversion N as [|? ? N1 N2]; subst. destruct (IH N2) as [IH1 IH2].
  assert (Keys: forall p, In p (flat_map (fun tk => match dget st tk with
      | Some d => match d_rs d with Some _ => [] | None => [{| pt_tk := tk; pt_ver := d_ver d; pt_from := filter (fun h => zmem h (known_of st gen)) (d_hosts d); pt_len := -1;
            pt_next := filter (fun h => zmem h (known_of st gen)) (d_hosts d); pt_stamps := []; pt_vmh := 0;
            pt_done := match filter (fun h => zmem h (known_of st gen)) (d_hosts d) with [] => true | _ => false end |}] end
      | None => [] end) (map (fun i0 => tkey blob (Z.of_nat i0)) l)) -> exists j, In j l /\ pt_tk p = tkey blob (Z.of_nat j)).
  { intros p Hp. apply in_flat_map in Hp. destruct Hp as [tk [Htk Hp]]. apply in_map_iff in Htk. destruct Htk as [j [<- Hj]].
    exists j. split; [exact Hj|]. destruct (dget st _) as [d|]; [|destruct Hp]. destruct (d_rs d); [destruct Hp|]. destruct Hp as [<-|[]]. reflexivity. }
  destruct (dget st (tkey blob (Z.of_nat i))) as [d|]; [|cbn [app]; split; assumption].
  destruct (d_rs d); [cbn [app]; split; assumption|]. cbn [app map pt_tk]. split.
  - constructor; [|exact IH1]. intros K. apply in_map_iff in K. destruct K as [p [E Hp]]. destruct (Keys p Hp) as [j [Hj Ej]].
    rewrite Ej in E. injection E as E. apply Nat2Z.inj in E. subst. contradiction.
  - intros p [<-|Hp]; [reflexivity|exact (IH2 p Hp)].
Qed.

Lemma filter_owned_mk_ents_other op n rs : (forall rp o, In (rp, o) rs -> o <> op) -> filter (owned op) (mk_ents n rs) = [].
Proof.
  revert n. induction rs as [|[rp o] rs IH]; intros n H; cbn [mk_ents filter]; [reflexivity|].
  unfold owned at 1. cbn [p_owner]. replace (o =? op) with false by (symmetry; apply Z.eqb_neq; exact (H rp o (or_introl eq_refl))).
  apply IH. intros a b Hab. apply (H a b). right. exact Hab.
Qed.

Lemma RInv_new_round fx st r rs :
  RInv fx st -> (forall r2, In r2 (s_rounds st) -> rd_op r2 <> rd_op r) -> (forall rp o, In (rp, o) rs -> o = rd_op r) ->
  RInv1 fx (issue_all (set_rounds st (s_rounds st ++ [r])) rs) r ->
  RInv fx (issue_all (set_rounds st (s_rounds st ++ [r])) rs).
Proof.
  intros HI Hrd Hrs H1. pose proof HI as [A0 A B C D E F].
  set (s0 := set_rounds st (s_rounds st ++ [r])).
  destruct (issue_all_spec rs s0) as [P1 [P2 P3]]. unfold pO in P3. injection P3 as Q1 Q2 Q3 Q4 Q5.
  assert (Fr: fresh_ids (s_next st) (rd_op r) (mk_ents (s_next st) rs)).
  { apply mk_ents_fresh. intros rp o Hin. left. exact (Hrs rp o Hin). }
  destruct (fresh_ids_nodup _ _ _ Fr) as [FN FB].
  constructor.
  - rewrite P2. cbn. lia.
  - rewrite P1, P2. cbn [s_pool s_next s0 set_rounds]. intros x Hx. apply in_app_or in Hx. destruct Hx as [Hx|Hx]; [specialize (A x Hx); lia|].
    specialize (FB x Hx). rewrite mk_ents_length in FB. lia.
  - rewrite P1, map_app. cbn [s_pool s_next s0 set_rounds]. apply NoDup_app_disj; [exact B|exact FN|].
    intros i Hi1 Hi2. apply in_map_iff in Hi1. destruct Hi1 as [x [E1 Hx]]. apply in_map_iff in Hi2. destruct Hi2 as [y [E2 Hy]].
    specialize (A x Hx). specialize (FB y Hy). lia.
  - rewrite Q4. exact C.
  - rewrite Q3. exact D.
  - rewrite Q3, P1, P2. cbn [s_pool s_next s_fix s0 set_rounds]. intros f Hf. destruct (E f Hf) as [E1 E2]. split; [lia|].
    intros x Hx Hid. apply in_app_or in Hx. destruct Hx as [Hx|Hx]; [exact (E2 x Hx Hid)|]. specialize (FB x Hx). lia.
  - rewrite Q5. cbn [s_rounds s0 set_rounds]. intros r2 H2. apply in_app_or in H2. destruct H2 as [H2|[<-|[]]]; [|exact H1].
    apply (RInv1_pool fx st); [|rewrite Q2; intros w Hw; exists w; auto|apply bumped_same; exact Q1|exact (F r2 H2)].
    rewrite P1, filter_app. cbn [s_pool s_next s0 set_rounds]. rewrite filter_owned_mk_ents_other; [apply app_nil_r|].
    intros rp o Hin. rewrite (Hrs rp o Hin). intros K. exact (Hrd r2 H2 (eq_sym K)).
Qed.

Definition stat_list (gen op : Z) (tracts : list ptr) : list (rpc * Z) :=
  flat_map (fun p => match pt_from p with h :: _ => [(mk_stat gen h (pt_tk p) (pt_ver p), op)] | [] => [] end) tracts.

Lemma fold_stat_issue gen op tracts : forall st,
  fold_left (fun s p => match pt_from p with h :: _ => issue s (mk_stat gen h (pt_tk p) (pt_ver p)) op | [] => s end) tracts st =
  issue_all st (stat_list gen op tracts).
Proof.
  induction tracts as [|p t IH]; intros st; cbn [fold_left stat_list flat_map]; [reflexivity|].
  rewrite IH. fold (stat_list gen op t). destruct (pt_from p); [reflexivity|]. rewrite issue_all_app. reflexivity.
Qed.

Lemma stat_list_in gen op tracts rp o : In (rp, o) (stat_list gen op tracts) ->
  o = op /\ exists p h rest, In p tracts /\ pt_from p = h :: rest /\ rp = mk_stat gen h (pt_tk p) (pt_ver p).
Proof.
  unfold stat_list. intros H. apply in_flat_map in H. destruct H as [p [Hp H]]. destruct (pt_from p) as [|h rest] eqn:E; [destruct H|].
  destruct H as [H|[]]. injection H as <- <-. split; [reflexivity|]. exists p, h, rest. auto.
Qed.

Lemma find_ptr_nodup l p : NoDup (map pt_tk l) -> In p l -> find_ptr l (pt_tk p) = Some p.
Proof.
  induction l as [|x l IH]; intros N H; [destruct H|]. cbn [map] in N. inversion N as [|? ? N1 N2]; subst. cbn [find_ptr].
  destruct H as [->|H]; [rewrite tk_eqb_refl; reflexivity|].
  destruct (tk_eqb (pt_tk x) (pt_tk p)) eqn:E; [|exact (IH N2 H)].
  apply tk_eqb_eq in E. exfalso. apply N1. rewrite E. apply in_map. exact H.
Qed.

Lemma cnt_stat_mk_ents op tk rs : forall n,
  cnt (is_stat_for op tk) (mk_ents n rs) = length (filter (fun x => is_stat_for op tk (pent_of (fst x) (snd x))) rs).
Proof.
  unfold cnt. induction rs as [|[rp o] rs IH]; intros n; cbn [mk_ents filter]; [reflexivity|].
  assert (E: is_stat_for op tk {| p_id := n; p_rpc := rp; p_owner := o; p_run := false; p_lose := false |} = is_stat_for op tk (pent_of (fst (rp, o)) (snd (rp, o)))) by reflexivity.
  rewrite E. destruct (is_stat_for op tk (pent_of (fst (rp, o)) (snd (rp, o)))); cbn [length]; rewrite IH; reflexivity.
Qed.

Lemma stat_list_count gen op tk tracts : NoDup (map pt_tk tracts) ->
  (length (filter (fun x => is_stat_for op tk (pent_of (fst x) (snd x))) (stat_list gen op tracts)) <= 1)%nat.
Proof.
  induction tracts as [|p t IH]; intros N; cbn [stat_list flat_map]; [cbn; lia|]. fold (stat_list gen op t).
  cbn [map] in N. inversion N as [|? ? N1 N2]; subst. rewrite filter_app, app_length. specialize (IH N2).
  destruct (tk_eqb (pt_tk p) tk) eqn:E.
  - apply tk_eqb_eq in E. rewrite (filter_none_length _ (stat_list gen op t)).
    + pose proof (filter_le_length (fun x => is_stat_for op tk (pent_of (fst x) (snd x))) (match pt_from p with [] => [] | h :: _ => [(mk_stat gen h (pt_tk p) (pt_ver p), op)] end)).
      destruct (pt_from p); cbn [length] in *; lia.
    + intros [rp o] Hy. destruct (stat_list_in _ _ _ _ _ Hy) as [_ [q [h [rest [Hq [_ ->]]]]]]. unfold is_stat_for. cbn [p_rpc pent_of fst snd].
      rewrite rpc_tk_stat. destruct (tk_eqb (pt_tk q) tk) eqn:E2; [|apply andb_false_r].
      apply tk_eqb_eq in E2. exfalso. apply N1. rewrite E, <- E2. apply in_map. exact Hq.
  - rewrite (filter_none_length _ (match pt_from p with [] => [] | h :: _ => _ end)); [lia|].
    intros [rp o] Hy. destruct (pt_from p); [destruct Hy|]. destruct Hy as [Hy|[]]. injection Hy as <- <-. unfold is_stat_for. cbn [p_rpc pent_of fst snd].
    rewrite rpc_tk_stat, E. apply andb_false_r.
Qed.

Definition ptr_init (p : ptr) : Prop := pt_next p = pt_from p /\ (pt_from p <> [] -> pt_done p = false).

Lemma add_tracts_init st gen blob p : In p (add_tracts st gen blob) -> ptr_init p.
Proof.
  unfold add_tracts. intros H. apply in_flat_map in H. destruct H as [tk [_ H]].
  destruct (dget st tk) as [d|]; [|destruct H]. destruct (d_rs d); [destruct H|]. destruct H as [<-|[]].
  split; [reflexivity|]. cbn [pt_from pt_done]. destruct (filter _ _); [intros K; contradiction|reflexivity].
Qed.

Lemma new_R1 fx s' gen term op tracts pool n :
  NoDup (map pt_tk tracts) -> (forall p, In p tracts -> ptr_init p) -> 0 < op ->
  (forall w, In w (s_wops s') -> wo_op w <> op) -> (forall x, In x pool -> p_owner x <> op) ->
  s_pool s' = pool ++ mk_ents n (stat_list gen op tracts) ->
  RInv1 fx s' {| rd_op := op; rd_gen := gen; rd_term := term; rd_phase := 1; rd_tracts := tracts; rd_encs := []; rd_done := 0 |}.
Proof.
  intros ND Hinit Pos Hw Hno Hp. apply RInv1_no_encs; cbn [rd_op rd_encs]; [exact Pos|exact Hw| | | |reflexivity].
  - rewrite Hp. intros x Hx O. apply in_app_or in Hx. destruct Hx as [Hx|Hx]; [exfalso; exact (Hno x Hx O)|].
    apply mk_ents_in in Hx. destruct (stat_list_in _ _ _ _ _ Hx) as [_ [p [h [rest [Hp0 [Hf E]]]]]]. rewrite E. left.
    split; [reflexivity|]. split; [reflexivity|]. exists p. cbn [rd_tracts]. rewrite rpc_tk_stat.
    split; [apply find_ptr_nodup; assumption|]. destruct (Hinit p Hp0) as [I1 I2].
    split; [apply I2; rewrite Hf; discriminate|]. exists h, rest. split; [rewrite I1; exact Hf|reflexivity].
  - intros tk. rewrite Hp, cnt_app. rewrite (cnt_zero_forall _ pool).
    + rewrite cnt_stat_mk_ents. pose proof (stat_list_count gen op tk tracts ND). lia.
    + intros x Hx. unfold is_stat_for. rewrite (owned_false_of _ x (Hno x Hx)). reflexivity.
  - rewrite Hp, cnt_app. rewrite !cnt_zero_forall; [lia| |].
    + intros x Hx. apply mk_ents_in in Hx. destruct (stat_list_in _ _ _ _ _ Hx) as [_ [p [h [rest [_ [_ E]]]]]].
      unfold is_alloc_for, kind_is. rewrite E. apply andb_false_r.
    + intros x Hx. unfold is_alloc_for. rewrite (owned_false_of _ x (Hno x Hx)). reflexivity.
Qed.

Lemma op_fresh_spec st op : op_fresh st op = true ->
  0 < op /\ (forall w, In w (s_wops st) -> wo_op w <> op) /\ (forall r, In r (s_rounds st) -> rd_op r <> op) /\
  (forall x, In x (s_pool st) -> p_owner x <> op).
Proof.
  unfold op_fresh. intros H. apply andb_true_iff in H. destruct H as [H H4]. apply andb_true_iff in H. destruct H as [H H3].
  apply andb_true_iff in H. destruct H as [H1 H2]. apply Z.ltb_lt in H1. apply negb_true_iff in H2, H3, H4.
  split; [exact H1|]. split; [|split].
  - intros w Hw E. assert (existsb (fun w => wo_op w =? op) (s_wops st) = true) by (apply existsb_exists; exists w; split; [exact Hw|apply Z.eqb_eq; exact E]). congruence.
  - intros r Hr E. assert (existsb (fun r => rd_op r =? op) (s_rounds st) = true) by (apply existsb_exists; exists r; split; [exact Hr|apply Z.eqb_eq; exact E]). congruence.
  - intros x Hx E. assert (existsb (fun e => p_owner e =? op) (s_pool st) = true) by (apply existsb_exists; exists x; split; [exact Hx|apply Z.eqb_eq; exact E]). congruence.
Qed.

Definition pR2 (st : state) := (pR st, s_reps st).

Lemma RInv_round_start fx st op : RInv fx st -> op_fresh st op = true -> RInv fx (fst (round_start st op)).
Proof.
  intros HI Hop. destruct (op_fresh_spec st op Hop) as [Pos [Fw [Frd Fp]]]. unfold round_start.
  match goal with |- context [fold_left ?f (blob_ids st) _] => set (F := f) end.
  assert (J: forall l acc, NoDup l ->
             (pR2 (fst (fst acc)) = pR2 st /\ NoDup (map pt_tk (snd (fst acc))) /\
              (forall p, In p (snd (fst acc)) -> ~ In (fst (pt_tk p)) l) /\ (forall p, In p (snd (fst acc)) -> ptr_init p)) ->
             pR2 (fst (fst (fold_left F l acc))) = pR2 st /\ NoDup (map pt_tk (snd (fst (fold_left F l acc)))) /\
             (forall p, In p (snd (fst (fold_left F l acc))) -> ptr_init p)).
  { induction l as [|a l IH]; intros acc N Hacc; cbn [fold_left]; [tauto|].
    inversion N as [|? ? N1 N2]; subst. apply IH; [exact N2|].
    destruct acc as [[s a0] o]. cbn [fst snd] in Hacc. destruct Hacc as [H1 [H2 [H3 H4]]]. unfold F. cbn [fst snd].
    assert (Keep: pR2 s = pR2 st /\ NoDup (map pt_tk a0) /\ (forall p, In p a0 -> ~ In (fst (pt_tk p)) l) /\ (forall p, In p a0 -> ptr_init p)).
    { split; [exact H1|]. split; [exact H2|]. split; [|exact H4]. intros p Hp K. apply (H3 p Hp). right. exact K. }
    destruct (zget (s_blobs s) a); [|exact Keep].
    destruct (b_cls b =? b_tgt b); [exact Keep|].
    destruct (all_rs s a).
    - pose proof (fr_update_class _ pR2 ltac:(fr) ltac:(fr) s op (s_term st) a (b_tgt b)) as M.
      destruct (update_class s op (s_term st) a (b_tgt b)) as [s' c']. cbn [fst snd] in *.
      destruct Keep as [_ K2]. split; [rewrite M; exact H1|exact K2].
    - destruct (b_cls b =? c14_ClassREPLICATED); cbn [fst snd]; [|exact Keep].
      destruct (add_tracts_keys s (s_gen st) a) as [AK1 AK2]. split; [exact H1|]. split; [|split].
      + rewrite map_app. apply NoDup_app_disj; [exact H2|exact AK1|].
        intros k Hk1 Hk2. apply in_map_iff in Hk1. destruct Hk1 as [p [E1 Hp]]. apply in_map_iff in Hk2. destruct Hk2 as [q [E2 Hq]].
        apply (H3 p Hp). left. rewrite E1, <- E2. symmetry. exact (AK2 q Hq).
      + intros p Hp K. apply in_app_or in Hp. destruct Hp as [Hp|Hp]; [apply (H3 p Hp); right; exact K|].
        rewrite (AK2 p Hp) in K. contradiction.
      + intros p Hp. apply in_app_or in Hp. destruct Hp as [Hp|Hp]; [exact (H4 p Hp)|eapply add_tracts_init; exact Hp]. }
  specialize (J (blob_ids st) (st, [], []) (blob_ids_NoDup st)). cbn [fst snd] in J.
  destruct J as [J1 [J2 J3]]; [split; [reflexivity|]; split; [constructor|]; split; intros p []|].
  destruct (fold_left F (blob_ids st) (st, [], [])) as [[st1 tracts] obs]. cbn [fst snd] in *.
  assert (JR: pR st1 = pR st) by (exact (f_equal fst J1)).
  assert (Jreps: s_reps st1 = s_reps st) by (exact (f_equal snd J1)).
  assert (B1: RInv fx st1) by (exact (RInv_same fx st st1 JR Jreps HI)).
  pose proof JR as JR'. unfold pR in JR'. injection JR' as Jpool Jnext Jrounds Jwops Jfix Jnfix.
  set (r := {| rd_op := op; rd_gen := s_gen st; rd_term := s_term st; rd_phase := 1; rd_tracts := tracts; rd_encs := []; rd_done := 0 |}).
  rewrite fold_stat_issue.
  assert (B3: RInv fx (issue_all (set_rounds st1 (s_rounds st1 ++ [r])) (stat_list (s_gen st) op tracts))).
  { apply (RInv_new_round fx st1 r).
    - exact B1.
    - rewrite Jrounds. exact Frd.
    - intros rp o Hin. exact (proj1 (stat_list_in _ _ _ _ _ Hin)).
    - destruct (issue_all_spec (stat_list (s_gen st) op tracts) (set_rounds st1 (s_rounds st1 ++ [r]))) as [P1 [P2 P3]].
      unfold pO in P3. injection P3 as Q1 Q2 Q3 Q4 Q5.
      apply (new_R1 fx _ (s_gen st) (s_term st) op tracts (s_pool st1) (s_next st1)); [exact J2|exact J3|exact Pos| | |exact P1].
      + rewrite Q2. cbn [s_wops set_rounds]. rewrite Jwops. exact Fw.
      + rewrite Jpool. exact Fp. }
  destruct (all_stats_done r) eqn:AD; [|exact B3].
  apply RInv_after_stats; [exact B3| |reflexivity|exact AD].
  destruct (issue_all_spec (stat_list (s_gen st) op tracts) (set_rounds st1 (s_rounds st1 ++ [r]))) as [_ [_ P3]].
  unfold pO in P3. injection P3 as _ _ _ _ Q5. rewrite Q5. cbn [s_rounds set_rounds]. apply in_or_app. right. left. reflexivity.
Qed.

(* ------------------------------------------------------------------ steps *)
Lemma RInv_step fx st ev : ev_run ev = true -> RInv fx st -> RInv fx (fst (step_fx fx st ev)).
Proof.
  intros Hev HI0. unfold step_fx.
  assert (HI: RInv fx (begin_event st)) by (eapply RInv_same; [| |exact HI0]; reflexivity). set (s := begin_event st) in *.
  destruct ev as [|c a]; [exact HI|]. cbn [ev_run existsb] in Hev.
  destruct (c =? 1) eqn:C1; [apply Z.eqb_eq in C1; subst c; discriminate|].
  destruct (c =? 2) eqn:C2; [apply Z.eqb_eq in C2; subst c; discriminate|].
  destruct (c =? 20) eqn:C20; [apply Z.eqb_eq in C20; subst c; discriminate|].
  destruct (c =? 21) eqn:C21; [apply Z.eqb_eq in C21; subst c; discriminate|].
  destruct (c =? 22).
  { destruct a as [|blob [|tract [|]]]; try exact HI. destruct (dget s _); exact HI. }
  destruct (c =? 3).
  { destruct a as [|op [|cli [|blob [|tract [|off [|len [|wid [|]]]]]]]]; try exact HI.
    destruct (negb (op_fresh s op) || (len <=? 0)) eqn:Fo; cbn [fst]; [exact HI|].
    apply orb_false_iff in Fo. destruct Fo as [Fo _]. apply negb_false_iff in Fo. destruct (op_fresh_spec s op Fo) as [Pos [Fw [Frd Fp]]].
    apply RInv_issue_other; [|intros r Hr; exact (Frd r Hr)].
    match goal with |- RInv fx (set_ghost ?s0 _ _ _ _) => cut (RInv fx s0); [intros B; eapply RInv_same; [| |exact B]; reflexivity|] end.
    pose proof HI as [A0 A B C D E F]. constructor; cbn [s_pool s_next s_nfix s_fix s_rounds set_cli]; try assumption.
    intros r Hr. pose proof (F r Hr) as R1. destruct R1 as [Q1 Q2 Q3 Q4 Q5 Q6 Q7 Q8 Q9 Q10 Q11 Q12].
    constructor; cbn [s_pool s_wops set_cli]; try assumption.
    intros w Hw. apply in_app_or in Hw. destruct Hw as [Hw|[<-|[]]]; [exact (Q2 w Hw)|]. cbn [wo_op]. intros K. exact (Frd r Hr (eq_sym K)). }
  destruct (c =? 6).
  { destruct a as [|blob [|tract [|ver [|badts [|]]]]]; try exact HI. cbn [fst]. apply RInv_start_fix; [exact HI|].
    split; [exact (rv_next _ _ HI)|]. intros x Hx Hid. pose proof (rv_ids _ _ HI x Hx). lia. }
  destruct (c =? 7).
  { destruct a; [exact HI|apply RInv_step_exec; exact HI]. }
  destruct (c =? 9).
  { destruct a as [|ts [|]]; try exact HI. apply RInv_step_restart; exact HI. }
  destruct (c =? 10). { cbn [fst]. eapply RInv_same; [| |exact HI]; reflexivity. }
  destruct (c =? 11).
  { destruct a as [|ts [|]]; try exact HI. cbn [fst]. eapply RInv_same; [| |exact HI]; reflexivity. }
  destruct (c =? 80).
  { destruct a as [|op [|]]; try exact HI.
    destruct (negb (op_fresh s op)) eqn:Fo; [exact HI|]. apply negb_false_iff in Fo.
    pose proof (RInv_round_start fx s op HI Fo) as M. destruct (round_start s op) as [st1 obs]. exact M. }
  destruct (c =? 30).
  { destruct a as [|blob [|tract [|off [|len [|nt tries]]]]]; exact HI. }
  destruct (c =? 81) eqn:C81; [apply Z.eqb_eq in C81; subst c; discriminate|].
  destruct (c =? 82); [exact HI|].
  destruct (c =? 84); [exact HI|].
  destruct (c =? 83); [exact HI|].
  destruct (c =? 31).
  { destruct a as [|blob [|]]; try exact HI. destruct (Cluster.Model.zget _ _); exact HI. }
  exact HI.
Qed.

Lemma RInv_run fx evs : forallb ev_run evs = true -> forall st, RInv fx st -> RInv fx (run_state_fx fx st evs).
Proof.
  induction evs as [|ev evs IH]; intros H st HI; cbn; [exact HI|].
  cbn in H. apply andb_true_iff in H. destruct H as [H1 H2]. apply IH; [exact H2|]. apply RInv_step; assumption.
Qed.

(* ------------------------------------------------------------------ setup *)
Lemma pR_setup_step fx st ev : ev_setup ev = true -> pR (fst (step_fx fx st ev)) = pR st.
Proof.
  intros Hev. unfold step_fx. set (s := begin_event st). change (pR st) with (pR s).
  destruct ev as [|c a]; [reflexivity|]. cbn [ev_setup existsb] in Hev.
  destruct (c =? 1) eqn:C1.
  { destruct a as [|nts [|ncli flags]]; try reflexivity. destruct (negb (s_nts s =? 0) || _); reflexivity. }
  destruct (c =? 2) eqn:C2.
  { destruct a as [|blob [|nt [|tgt [|]]]]; try reflexivity. destruct (Cluster.Model.zget _ _); reflexivity. }
  destruct (c =? 20) eqn:C20.
  { destruct a as [|blob [|tract [|ver [|nh hosts]]]]; try reflexivity.
    destruct (dget s (tkey blob tract)); cbn [orb]; [reflexivity|]. destruct (negb _); reflexivity. }
  destruct (c =? 21) eqn:C21.
  { destruct a as [|blob [|tract [|wid [|off [|len [|isw [|]]]]]]]; try reflexivity.
    destruct (dget s _); cbn [fst]; [|reflexivity].
    rewrite fold_fr; [reflexivity|]. intros s0 x. destruct (isw =? 0); [destruct (rget _ _); reflexivity|apply (fr_ts_write _ pR); fr]. }
  destruct (c =? 22) eqn:C22.
  { destruct a as [|blob [|tract [|]]]; try reflexivity. destruct (dget s _); reflexivity. }
  exfalso. cbn in Hev. discriminate.
Qed.

Lemma pR_setup_run fx evs : forallb ev_setup evs = true -> forall st, pR (run_state_fx fx st evs) = pR st.
Proof.
  induction evs as [|ev evs IH]; intros H st; cbn; [reflexivity|].
  cbn in H. apply andb_true_iff in H. destruct H as [H1 H2]. rewrite IH; [|exact H2]. apply pR_setup_step. exact H1.
Qed.

Lemma RInv_quiet fx st : pR st = pR init_state -> RInv fx st.
Proof.
  unfold pR. cbn. intros H. injection H as H1 H2 H3 H4 H5 H6.
  constructor; rewrite ?H1, ?H2, ?H3, ?H5, ?H6; try (intros ? []); try lia. constructor.
Qed.

(* every state reached by setup events followed by run-phase events satisfies the round/pool invariant *)
Theorem RInv_reachable fx setup evs : forallb ev_setup setup = true -> forallb ev_run evs = true ->
  RInv fx (run_state_fx fx init_state (setup ++ evs)).
Proof.
  intros Hs He. rewrite run_state_app. apply RInv_run; [exact He|]. apply RInv_quiet. apply pR_setup_run. exact Hs.
Qed.

(* generic induction over the deliveries of a restart *)
Lemma restart_ind fx st ts (P : state -> Prop) :
  RInv fx st ->
  P (set_epoch st (Cluster.Model.zset (s_epoch st) ts (epoch_of st ts + 1))) ->
  (forall s e, RInv fx s -> In e (s_pool s) -> P s -> P (deliver fx s e [cl_ErrRPC] None [])) ->
  P (fst (step_restart fx st ts)).
Proof.
  intros HI P0 Hstep. unfold step_restart. cbn [fst].
  set (st0 := set_epoch st (Cluster.Model.zset (s_epoch st) ts (epoch_of st ts + 1))) in *.
  assert (H0: RInv fx st0).
  { eapply RInv_pR; [| |exact HI]; [reflexivity|]. apply bumped_srel. apply (srel_restart st ts). }
  set (victims := filter (fun e => (k_ts (p_rpc e) =? ts) && negb (p_run e)) (s_pool st0)).
  assert (Hv: forall e, In e victims -> In e (s_pool st0)) by (intros e He; apply filter_In in He; tauto).
  assert (J: forall l s, (forall e, In e l -> In e (s_pool st0)) -> RInv fx s -> PR st0 s -> P s ->
             P (fold_left (fun s e => match find (fun x => p_id x =? p_id e) (s_pool s) with
                                      | Some _ => deliver fx s e [cl_ErrRPC] None []
                                      | None => s end) l s)).
  { induction l as [|e l IH]; intros s Hl Hs Ps Pp; cbn [fold_left]; [exact Pp|].
    assert (Hl': forall e0, In e0 l -> In e0 (s_pool st0)) by (intros e0 H; apply Hl; right; exact H).
    destruct (find (fun x => p_id x =? p_id e) (s_pool s)) as [x|] eqn:Fx; [|apply IH; assumption].
    apply find_some in Fx. destruct Fx as [Hx Ex]. apply Z.eqb_eq in Ex.
    pose proof (Hl e (or_introl eq_refl)) as He0. pose proof (rv_ids _ _ H0 e He0) as Ide.
    assert (x = e).
    { destruct (proj2 Ps x Hx) as [K|K]; [|lia]. exact (nodup_id_eq _ x e (rv_nodup _ _ H0) K He0 Ex). }
    subst x. apply IH; [exact Hl'| | |].
    - apply RInv_deliver; [exact Hs|exact Hx|apply sv_res_ok_err].
    - eapply PR_trans; [exact Ps|apply PR_deliver].
    - apply Hstep; assumption. }
  apply J; [exact Hv|exact H0|apply PR_refl|exact P0].
Qed.

(* the state of stat_reply between the update of the round and the (possible) start of a fixVersion task *)
Lemma rr_stat_mid fx st pe r p pn dn :
  RInv fx st -> In pe (s_pool st) -> p_owner pe = rd_op r -> In r (s_rounds st) -> k_kind (p_rpc pe) = K_CtlStat ->
  rd_phase r = 1 -> find_ptr (rd_tracts r) (rpc_tk (p_rpc pe)) = Some p -> pt_tk pn = rpc_tk (p_rpc pe) ->
  RInv fx (set_rounds (rm_pool st pe) (upd_round (s_rounds (rm_pool st pe)) (rd_set r 1 (upd_ptr (rd_tracts r) pn) [] dn))).
Proof.
  intros HI Hpe Hown Hr Hk Hph Fp T1.
  set (r' := rd_set r 1 (upd_ptr (rd_tracts r) pn) [] dn).
  set (s1 := set_rounds (rm_pool st pe) (upd_round (s_rounds (rm_pool st pe)) r')).
  apply (RInv_round_final fx st s1 r' pe []); try reflexivity; try assumption.
  - unfold s1. cbn [s_pool set_rounds rm_pool set_pool]. rewrite app_nil_r. reflexivity.
  - intros i x Hi. destruct i; discriminate.
  - cbn. lia.
  - left. reflexivity.
  - apply (stat_R1 fx st pe r p HI Hpe Hown Hr Hk Hph Fp pn s1 [] dn); [exact T1|reflexivity|unfold s1; cbn [s_pool set_rounds rm_pool set_pool]; rewrite app_nil_r; reflexivity|cbn; lia|intros x []].
Qed.
