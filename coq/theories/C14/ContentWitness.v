(* C14/ContentWitness.v — the two extra hypotheses of the content theorem are not gratuitous: variants of schedule f14 on
   the repaired model that keep every other hypothesis and end with content_ok = false. *)
From Coq Require Import List ZArith Bool.
From BLB Require Import Gen.Consts.
From BLB Require Cluster.Model.
From BLB Require Import C14.Model C14.Witness C14.Proofs C14.Run C14.InvStore C14.InvContent C14.InvPiece C14.TriFull C14.ContentInv C14.ContentFull.
Import ListNotations.
Open Scope Z_scope.

Definition mkwop (op cli blob tract off len wid : Z) : wop :=
  {| wo_op := op; wo_cli := cli; wo_blob := blob; wo_tract := tract; wo_off := off; wo_len := len; wo_wid := wid;
     wo_phase := 1; wo_cached := false; wo_retry := false; wo_entry := None; wo_res := []; wo_final := 0; wo_late := false |}.
(* event 7: execute (mode 1) or lose (mode 4) the outstanding call rp *)
Definition ev_exec (mode : Z) (rp : rpc) : list Z := 7 :: mode :: Cluster.Model.rpc_line rp ++ [0; 0].
Definition ev_start (w : wop) : list Z := [3; wo_op w; wo_cli w; wo_blob w; wo_tract w; wo_off w; wo_len w; wo_wid w].
Definition patch (old new : list Z) (l : list (list Z)) := map (fun ev => if Cluster.Model.list_eqb ev old then new else ev) l.

(* two clients write the same range of tract (0,1) at the same time; the later one reaches both replicas first; both are
   acknowledged; then the round of f14 runs (the two conditional bumps of that tract carry the new stamps) *)
Definition wA := mkwop 91 0 0 1 0 50 21.
Definition wB := mkwop 92 1 0 1 0 50 22.
Definition two_writers : list (list Z) :=
  [ev_start wA; ev_start wB; ev_exec 1 (mk_statblob wA); ev_exec 1 (mk_statblob wB); ev_exec 1 (mk_gettracts wA); ev_exec 1 (mk_gettracts wB);
   ev_exec 1 (mk_write wB 1 1); ev_exec 1 (mk_write wB 8 1); ev_exec 1 (mk_write wA 1 1); ev_exec 1 (mk_write wA 8 1)].
Definition w_two_writers : list (list Z) :=
  firstn 26 w_f14 ++ two_writers ++
  patch [7; 1; 13; (-1); 1; 1; 0; 1; 2; 0; 0; 0; 4; 1; 1; 0; 1; 0; 0] [7; 1; 13; (-1); 1; 1; 0; 1; 2; 0; 0; 0; 4; 1; 1; 0; 3; 0; 0]
    (patch [7; 1; 13; (-1); 1; 8; 0; 1; 2; 0; 0; 0; 4; 8; 1; 0; 1; 0; 0] [7; 1; 13; (-1); 1; 8; 0; 1; 2; 0; 0; 0; 4; 8; 1; 0; 3; 0; 0] (skipn 26 w_f14)).

(* a client write on tract (0,1) reuses the id of an acknowledged setup write of that tract and fails (its StatBlob is lost) *)
Definition wC := mkwop 93 0 0 1 130 5 2.
Definition w_reused_id : list (list Z) := firstn 26 w_f14 ++ [ev_start wC; ev_exec 4 (mk_statblob wC)] ++ skipn 26 w_f14.

Definition hyps (w : list (list Z)) (n : nat) : bool * bool * bool * bool * bool :=
  let s0 := run_state_fx all_fix init_state (firstn n w) in
  (forallb ev_setup2 (firstn n w), forallb ev_run (skipn n w), gens_run all_fix s0 (skipn n w),
   single_run all_fix s0 (skipn n w), wids_run all_fix init_state w).

Lemma two_writers_refute :
  hyps w_two_writers 26 = (true, true, true, false, true) /\ content_ok (run_state_fx all_fix init_state w_two_writers) = false /\
  length (s_commits (run_state_fx all_fix init_state w_two_writers)) = 6%nat.
Proof. vm_compute. repeat split; reflexivity. Qed.

Lemma reused_id_refute :
  hyps w_reused_id 26 = (true, true, true, true, false) /\ content_ok (run_state_fx all_fix init_state w_reused_id) = false /\
  length (s_commits (run_state_fx all_fix init_state w_reused_id)) = 6%nat.
Proof. vm_compute. repeat split; reflexivity. Qed.

(* number of (commit, byte position) checks of content_ok whose newest covering attempt is an acknowledged write *)
Definition content_checks (st : state) : nat :=
  length (flat_map (fun '(tk, _, packed, _, _, started) =>
            filter (fun p => match newest_cover started p with Some w => is_acked st tk (Cluster.Model.w_id w) | None => false end)
                   (cut_points (started ++ packed))) (s_commits st)).

Lemma f14_content_example :
  hyps w_f14 26 = (true, true, true, true, true) /\ content_ok (run_state_fx all_fix init_state w_f14) = true /\
  length (s_commits (run_state_fx all_fix init_state w_f14)) = 6%nat /\ content_checks (run_state_fx all_fix init_state w_f14) = 36%nat.
Proof. vm_compute. repeat split; reflexivity. Qed.
