(* C02/Proofs.v — lemmas about the persistent mutations (first, small facts). *)
From Coq Require Import List NArith ZArith Bool Lia.
From BLB Require Import Raft.Core.
Import ListNotations.
Open Scope N_scope.

Lemma term_written_only_by_save_state :
  forall p m, p_term (apply_mut p m) <> p_term p -> exists v t, m = MSaveState v t.
Proof. intros p m H. destruct m; simpl in H; try congruence. eauto. Qed.
