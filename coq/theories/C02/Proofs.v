(* C02/Proofs.v — property-level corollaries of the node-level step summaries (Raft/NodeProofs.v). *)
From Coq Require Import List NArith ZArith Bool Lia.
From BLB Require Import Raft.Core Raft.NodeProofs Raft.NodeElect Raft.NodeMono.
Import ListNotations.
Open Scope N_scope.

Lemma term_written_only_by_save_state :
  forall p m, p_term (apply_mut p m) <> p_term p -> exists v t, m = MSaveState v t.
Proof. intros p m H. destruct m; simpl in H; try congruence. eauto. Qed.

(* every event (Bootstrap, Deliver of ANY message, Tick, Propose, AddNode, RemoveNode, SnapshotDone, Restart), with or
   without a crash after its k-th durable mutation followed by newCore *)
Lemma term_monotone_lemma :
  forall s ev k crashed st s',
    run_event_crash s ev k = Ret (crashed, st, s') -> p_term (n_p s) <= p_term (n_p s').
Proof.
  intros s ev k crashed st s' H. pose proof (run_event_crash_pext s ev k) as P. rewrite H in P.
  destruct P as [[A _] _]. exact A.
Qed.

Lemma vote_once_per_term_lemma :
  forall s ev k crashed st s',
    run_event_crash s ev k = Ret (crashed, st, s') ->
    p_term (n_p s') = p_term (n_p s) -> p_vote (n_p s) <> 0 -> p_vote (n_p s') = p_vote (n_p s).
Proof.
  intros s ev k crashed st s' H Ht Hv. pose proof (run_event_crash_pext s ev k) as P. rewrite H in P.
  destruct P as [[_ [B _]] _]. destruct (B Ht); congruence.
Qed.

Lemma run_event_crash_0 s ev : run_event_crash s ev 0 =
  match run_event (with_budget s 0) ev with
  | Ret (st, s') => Ret (false, st, with_budget s' 0)
  | Fatal c => Fatal c
  | Crashed p => s' <- new_core (n_id s) (n_cfg s) p ;; Ret (true, 0, s')
  end.
Proof. reflexivity. Qed.

Lemma messages_follow_durable_state_lemma :
  forall s ev st s', n_msgs s = [] -> run_event s ev = Ret (st, s') -> msgs_ok s'.
Proof. intros s ev st s' H R. destruct (run_event_sum s ev st s' H R) as [_ [M _]]. exact M. Qed.

Lemma commit_monotone_lemma :
  forall s ev st s', ev <> ERestart -> run_event s ev = Ret (st, s') -> n_commit s <= n_commit s'.
Proof. intros s ev st s' Hne H. destruct (run_event_mono s ev st s' Hne H) as [A _]. exact A. Qed.
