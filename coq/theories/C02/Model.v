(* C02/Model.v — the C02 model is the shared Raft core model (Raft/Core.v) behind the shared wire codec (Raft/Wire.v). *)
From Coq Require Import List ZArith.
From BLB Require Import Raft.Core Raft.Wire.
Definition run_case (ops : list (list Z)) : list (list Z) := Raft.Wire.run_case ops.
