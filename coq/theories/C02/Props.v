(* C02/Props.v — property-level theorems only. Tags [FULL]/[PARTIAL]/[REFUTED] are read by bin/check.
   The model is Raft/Core.v (every handler of pkg/raft/raft transcribed, each log.Fatalf an explicit outcome), tied to the
   Go code on every run by the correspondence of Raft/Wire.v.run_case with the real `core` objects. *)
From Coq Require Import List NArith ZArith.
From BLB Require Import Lib.LTS Raft.Core Raft.Wire Raft.NodeElect Raft.Election Raft.ElectionExample C02.Proofs.
Import ListNotations.
Open Scope N_scope.

(* [PARTIAL] building block: the durable term is written by no storage mutation other than SaveState *)
Theorem term_written_only_by_save_state :
  forall p m, p_term (apply_mut p m) <> p_term p -> exists v t, m = MSaveState v t.
Proof. exact C02.Proofs.term_written_only_by_save_state. Qed.
Print Assumptions term_written_only_by_save_state.

(* [FULL] invariant E1 of election safety, for every node state whatsoever, every event (delivery of any message, tick,
   proposal, reconfiguration request, snapshot, restart) and every crash point k inside the event followed by
   restart: the durable term never decreases *)
Theorem term_monotone :
  forall s ev k crashed st s',
    run_event_crash s ev k = Ret (crashed, st, s') -> p_term (n_p s) <= p_term (n_p s').
Proof. exact term_monotone_lemma. Qed.
Print Assumptions term_monotone.

(* [FULL] invariant E2, vote once per term with persistence across Restart and across a crash at any durable mutation:
   while the term stays the same a vote that has been cast is never changed or forgotten *)
Theorem vote_once_per_term :
  forall s ev k crashed st s',
    run_event_crash s ev k = Ret (crashed, st, s') ->
    p_term (n_p s') = p_term (n_p s) -> p_vote (n_p s) <> 0 -> p_vote (n_p s') = p_vote (n_p s).
Proof. exact vote_once_per_term_lemma. Qed.
Print Assumptions vote_once_per_term.

(* [FULL] clause 1, election safety for a fixed membership of any size: in every run of the system of Raft/Election.v - any number of
   nodes with distinct non-empty ids, any interleaving of the events of Core.run_event on any node (bootstrap, delivery of
   any message ever sent to any node any number of times or never, ticks, proposals, snapshots, restarts), each event
   with or without a crash right after any of its durable mutations followed by newCore - in which every configuration a
   node holds has as many members as there are nodes, two nodes recorded as leader of the same term are the same node *)
Theorem election_safety :
  forall (σ0 σ : sys) (sched : list sys_event),
    sinit (quorum_of (map n_id (sy_nodes σ0))) σ0 ->
    run sys sys_event (sstep (quorum_of (map n_id (sy_nodes σ0)))) σ0 sched σ ->
    forall t a b, In (t, a) (sy_hist σ) -> In (t, b) (sy_hist σ) -> a = b.
Proof. exact election_safety_sys. Qed.
Print Assumptions election_safety.

(* [FULL] non-vacuity of election_safety: a concrete run (bootstrap, time-out, self-election, restart, a tick that crashes after
   its second durable mutation) satisfies every hypothesis and records a leader *)
Theorem election_safety_nonvacuous :
  exists σ0 sched σ t a,
    sinit (quorum_of (map n_id (sy_nodes σ0))) σ0 /\
    run sys sys_event (sstep (quorum_of (map n_id (sy_nodes σ0)))) σ0 sched σ /\
    In (t, a) (sy_hist σ) /\ length sched = 5%nat.
Proof. exact Raft.ElectionExample.election_safety_nonvacuous. Qed.
Print Assumptions election_safety_nonvacuous.

(* [FULL] invariants E3/E4 at node level, for every settled node state and every event: every message that leaves a handler
   carries the durable term and the sender's id, and a granted vote leaves only with exactly that vote durable *)
Theorem messages_follow_durable_state :
  forall s ev st s', n_msgs s = [] -> run_event s ev = Ret (st, s') -> msgs_ok s'.
Proof. intros s ev st s' H R. destruct (run_event_sum s ev st s' H R) as [_ [M _]]. exact M. Qed.
Print Assumptions messages_follow_durable_state.

(* NOT YET PROVED (statements kept visible; listed in props/C02.json not_yet_proved):
   clause 2  log_matching : in every reachable system state, two logs holding an entry with the same index and term are
             identical up to that index (invariants L1, L2, LM, AM of DESIGN appendix A.1; needs election_safety);
   clause 3  leader_completeness : an entry, once committed, is in the log (or snapshot) of every later leader;
   clause 4  state_machine_safety : no two nodes hand different entries at the same index to TakeNewlyCommitted;
   and the extension of election_safety to AddNode/RemoveNode (quorums of Members and Members +/- 1 intersect).
   On the real code all four clauses are evaluated after every event by the monitors of the Go simulation. *)
